model/Engine.vo model/Engine.glob model/Engine.v.beautified model/Engine.required_vo: model/Engine.v model/Prelude.vo model/U128.vo model/SInt.vo model/Feed.vo model/Vamm.vo model/Token.vo model/World.vo
model/Engine.vio: model/Engine.v model/Prelude.vio model/U128.vio model/SInt.vio model/Feed.vio model/Vamm.vio model/Token.vio model/World.vio
model/Engine.vos model/Engine.vok model/Engine.required_vos: model/Engine.v model/Prelude.vos model/U128.vos model/SInt.vos model/Feed.vos model/Vamm.vos model/Token.vos model/World.vos
model/Feed.vo model/Feed.glob model/Feed.v.beautified model/Feed.required_vo: model/Feed.v model/Prelude.vo model/U128.vo
model/Feed.vio: model/Feed.v model/Prelude.vio model/U128.vio
model/Feed.vos model/Feed.vok model/Feed.required_vos: model/Feed.v model/Prelude.vos model/U128.vos
model/Prelude.vo model/Prelude.glob model/Prelude.v.beautified model/Prelude.required_vo: model/Prelude.v 
model/Prelude.vio: model/Prelude.v 
model/Prelude.vos model/Prelude.vok model/Prelude.required_vos: model/Prelude.v 
model/Runtime.vo model/Runtime.glob model/Runtime.v.beautified model/Runtime.required_vo: model/Runtime.v model/Prelude.vo model/U128.vo model/SInt.vo model/Feed.vo model/Vamm.vo model/Token.vo model/World.vo model/Engine.vo
model/Runtime.vio: model/Runtime.v model/Prelude.vio model/U128.vio model/SInt.vio model/Feed.vio model/Vamm.vio model/Token.vio model/World.vio model/Engine.vio
model/Runtime.vos model/Runtime.vok model/Runtime.required_vos: model/Runtime.v model/Prelude.vos model/U128.vos model/SInt.vos model/Feed.vos model/Vamm.vos model/Token.vos model/World.vos model/Engine.vos
model/SInt.vo model/SInt.glob model/SInt.v.beautified model/SInt.required_vo: model/SInt.v model/Prelude.vo model/U128.vo
model/SInt.vio: model/SInt.v model/Prelude.vio model/U128.vio
model/SInt.vos model/SInt.vok model/SInt.required_vos: model/SInt.v model/Prelude.vos model/U128.vos
model/Token.vo model/Token.glob model/Token.v.beautified model/Token.required_vo: model/Token.v model/Prelude.vo model/U128.vo
model/Token.vio: model/Token.v model/Prelude.vio model/U128.vio
model/Token.vos model/Token.vok model/Token.required_vos: model/Token.v model/Prelude.vos model/U128.vos
model/U128.vo model/U128.glob model/U128.v.beautified model/U128.required_vo: model/U128.v model/Prelude.vo
model/U128.vio: model/U128.v model/Prelude.vio
model/U128.vos model/U128.vok model/U128.required_vos: model/U128.v model/Prelude.vos
model/Vamm.vo model/Vamm.glob model/Vamm.v.beautified model/Vamm.required_vo: model/Vamm.v model/Prelude.vo model/U128.vo model/SInt.vo model/Feed.vo
model/Vamm.vio: model/Vamm.v model/Prelude.vio model/U128.vio model/SInt.vio model/Feed.vio
model/Vamm.vos model/Vamm.vok model/Vamm.required_vos: model/Vamm.v model/Prelude.vos model/U128.vos model/SInt.vos model/Feed.vos
model/VammOps.vo model/VammOps.glob model/VammOps.v.beautified model/VammOps.required_vo: model/VammOps.v model/Prelude.vo model/U128.vo model/SInt.vo model/Feed.vo model/Vamm.vo
model/VammOps.vio: model/VammOps.v model/Prelude.vio model/U128.vio model/SInt.vio model/Feed.vio model/Vamm.vio
model/VammOps.vos model/VammOps.vok model/VammOps.required_vos: model/VammOps.v model/Prelude.vos model/U128.vos model/SInt.vos model/Feed.vos model/Vamm.vos
model/World.vo model/World.glob model/World.v.beautified model/World.required_vo: model/World.v model/Prelude.vo model/U128.vo model/SInt.vo model/Feed.vo model/Vamm.vo model/Token.vo
model/World.vio: model/World.v model/Prelude.vio model/U128.vio model/SInt.vio model/Feed.vio model/Vamm.vio model/Token.vio
model/World.vos model/World.vok model/World.required_vos: model/World.v model/Prelude.vos model/U128.vos model/SInt.vos model/Feed.vos model/Vamm.vos model/Token.vos
proofs/EngineGuards.vo proofs/EngineGuards.glob proofs/EngineGuards.v.beautified proofs/EngineGuards.required_vo: proofs/EngineGuards.v model/Prelude.vo model/U128.vo model/SInt.vo model/Feed.vo model/Vamm.vo model/VammOps.vo model/Token.vo model/World.vo model/Engine.vo model/Runtime.vo proofs/Tactics.vo proofs/SIntFacts.vo
proofs/EngineGuards.vio: proofs/EngineGuards.v model/Prelude.vio model/U128.vio model/SInt.vio model/Feed.vio model/Vamm.vio model/VammOps.vio model/Token.vio model/World.vio model/Engine.vio model/Runtime.vio proofs/Tactics.vio proofs/SIntFacts.vio
proofs/EngineGuards.vos proofs/EngineGuards.vok proofs/EngineGuards.required_vos: proofs/EngineGuards.v model/Prelude.vos model/U128.vos model/SInt.vos model/Feed.vos model/Vamm.vos model/VammOps.vos model/Token.vos model/World.vos model/Engine.vos model/Runtime.vos proofs/Tactics.vos proofs/SIntFacts.vos
proofs/LedgerFacts.vo proofs/LedgerFacts.glob proofs/LedgerFacts.v.beautified proofs/LedgerFacts.required_vo: proofs/LedgerFacts.v model/Prelude.vo model/U128.vo model/SInt.vo model/Feed.vo model/Vamm.vo model/VammOps.vo model/Token.vo model/World.vo model/Engine.vo model/Runtime.vo proofs/Tactics.vo proofs/RuntimeFacts.vo
proofs/LedgerFacts.vio: proofs/LedgerFacts.v model/Prelude.vio model/U128.vio model/SInt.vio model/Feed.vio model/Vamm.vio model/VammOps.vio model/Token.vio model/World.vio model/Engine.vio model/Runtime.vio proofs/Tactics.vio proofs/RuntimeFacts.vio
proofs/LedgerFacts.vos proofs/LedgerFacts.vok proofs/LedgerFacts.required_vos: proofs/LedgerFacts.v model/Prelude.vos model/U128.vos model/SInt.vos model/Feed.vos model/Vamm.vos model/VammOps.vos model/Token.vos model/World.vos model/Engine.vos model/Runtime.vos proofs/Tactics.vos proofs/RuntimeFacts.vos
proofs/RuntimeFacts.vo proofs/RuntimeFacts.glob proofs/RuntimeFacts.v.beautified proofs/RuntimeFacts.required_vo: proofs/RuntimeFacts.v model/Prelude.vo model/U128.vo model/SInt.vo model/Feed.vo model/Vamm.vo model/VammOps.vo model/Token.vo model/World.vo model/Engine.vo model/Runtime.vo proofs/Tactics.vo
proofs/RuntimeFacts.vio: proofs/RuntimeFacts.v model/Prelude.vio model/U128.vio model/SInt.vio model/Feed.vio model/Vamm.vio model/VammOps.vio model/Token.vio model/World.vio model/Engine.vio model/Runtime.vio proofs/Tactics.vio
proofs/RuntimeFacts.vos proofs/RuntimeFacts.vok proofs/RuntimeFacts.required_vos: proofs/RuntimeFacts.v model/Prelude.vos model/U128.vos model/SInt.vos model/Feed.vos model/Vamm.vos model/VammOps.vos model/Token.vos model/World.vos model/Engine.vos model/Runtime.vos proofs/Tactics.vos
proofs/SIntFacts.vo proofs/SIntFacts.glob proofs/SIntFacts.v.beautified proofs/SIntFacts.required_vo: proofs/SIntFacts.v model/Prelude.vo model/U128.vo model/SInt.vo proofs/Tactics.vo
proofs/SIntFacts.vio: proofs/SIntFacts.v model/Prelude.vio model/U128.vio model/SInt.vio proofs/Tactics.vio
proofs/SIntFacts.vos proofs/SIntFacts.vok proofs/SIntFacts.required_vos: proofs/SIntFacts.v model/Prelude.vos model/U128.vos model/SInt.vos proofs/Tactics.vos
proofs/Tactics.vo proofs/Tactics.glob proofs/Tactics.v.beautified proofs/Tactics.required_vo: proofs/Tactics.v model/Prelude.vo model/U128.vo
proofs/Tactics.vio: proofs/Tactics.v model/Prelude.vio model/U128.vio
proofs/Tactics.vos proofs/Tactics.vok proofs/Tactics.required_vos: proofs/Tactics.v model/Prelude.vos model/U128.vos
proofs/VammFacts.vo proofs/VammFacts.glob proofs/VammFacts.v.beautified proofs/VammFacts.required_vo: proofs/VammFacts.v model/Prelude.vo model/U128.vo model/SInt.vo model/Feed.vo model/Vamm.vo proofs/Tactics.vo proofs/SIntFacts.vo model/VammOps.vo
proofs/VammFacts.vio: proofs/VammFacts.v model/Prelude.vio model/U128.vio model/SInt.vio model/Feed.vio model/Vamm.vio proofs/Tactics.vio proofs/SIntFacts.vio model/VammOps.vio
proofs/VammFacts.vos proofs/VammFacts.vok proofs/VammFacts.required_vos: proofs/VammFacts.v model/Prelude.vos model/U128.vos model/SInt.vos model/Feed.vos model/Vamm.vos proofs/Tactics.vos proofs/SIntFacts.vos model/VammOps.vos
props/C01.vo props/C01.glob props/C01.v.beautified props/C01.required_vo: props/C01.v model/Prelude.vo model/U128.vo model/SInt.vo model/Feed.vo model/Vamm.vo model/VammOps.vo proofs/Tactics.vo proofs/SIntFacts.vo proofs/VammFacts.vo
props/C01.vio: props/C01.v model/Prelude.vio model/U128.vio model/SInt.vio model/Feed.vio model/Vamm.vio model/VammOps.vio proofs/Tactics.vio proofs/SIntFacts.vio proofs/VammFacts.vio
props/C01.vos props/C01.vok props/C01.required_vos: props/C01.v model/Prelude.vos model/U128.vos model/SInt.vos model/Feed.vos model/Vamm.vos model/VammOps.vos proofs/Tactics.vos proofs/SIntFacts.vos proofs/VammFacts.vos
props/C03.vo props/C03.glob props/C03.v.beautified props/C03.required_vo: props/C03.v model/Prelude.vo model/U128.vo model/SInt.vo model/Feed.vo model/Vamm.vo model/VammOps.vo model/Token.vo model/World.vo model/Engine.vo model/Runtime.vo proofs/Tactics.vo proofs/RuntimeFacts.vo proofs/LedgerFacts.vo
props/C03.vio: props/C03.v model/Prelude.vio model/U128.vio model/SInt.vio model/Feed.vio model/Vamm.vio model/VammOps.vio model/Token.vio model/World.vio model/Engine.vio model/Runtime.vio proofs/Tactics.vio proofs/RuntimeFacts.vio proofs/LedgerFacts.vio
props/C03.vos props/C03.vok props/C03.required_vos: props/C03.v model/Prelude.vos model/U128.vos model/SInt.vos model/Feed.vos model/Vamm.vos model/VammOps.vos model/Token.vos model/World.vos model/Engine.vos model/Runtime.vos proofs/Tactics.vos proofs/RuntimeFacts.vos proofs/LedgerFacts.vos
props/C05.vo props/C05.glob props/C05.v.beautified props/C05.required_vo: props/C05.v model/Prelude.vo model/U128.vo model/SInt.vo model/Feed.vo model/Vamm.vo model/VammOps.vo model/Token.vo model/World.vo model/Engine.vo model/Runtime.vo proofs/Tactics.vo proofs/EngineGuards.vo
props/C05.vio: props/C05.v model/Prelude.vio model/U128.vio model/SInt.vio model/Feed.vio model/Vamm.vio model/VammOps.vio model/Token.vio model/World.vio model/Engine.vio model/Runtime.vio proofs/Tactics.vio proofs/EngineGuards.vio
props/C05.vos props/C05.vok props/C05.required_vos: props/C05.v model/Prelude.vos model/U128.vos model/SInt.vos model/Feed.vos model/Vamm.vos model/VammOps.vos model/Token.vos model/World.vos model/Engine.vos model/Runtime.vos proofs/Tactics.vos proofs/EngineGuards.vos
props/C08.vo props/C08.glob props/C08.v.beautified props/C08.required_vo: props/C08.v model/Prelude.vo model/U128.vo model/SInt.vo model/Feed.vo model/Vamm.vo model/VammOps.vo model/Token.vo model/World.vo model/Engine.vo model/Runtime.vo proofs/Tactics.vo proofs/RuntimeFacts.vo
props/C08.vio: props/C08.v model/Prelude.vio model/U128.vio model/SInt.vio model/Feed.vio model/Vamm.vio model/VammOps.vio model/Token.vio model/World.vio model/Engine.vio model/Runtime.vio proofs/Tactics.vio proofs/RuntimeFacts.vio
props/C08.vos props/C08.vok props/C08.required_vos: props/C08.v model/Prelude.vos model/U128.vos model/SInt.vos model/Feed.vos model/Vamm.vos model/VammOps.vos model/Token.vos model/World.vos model/Engine.vos model/Runtime.vos proofs/Tactics.vos proofs/RuntimeFacts.vos
props/C11.vo props/C11.glob props/C11.v.beautified props/C11.required_vo: props/C11.v model/Prelude.vo model/U128.vo model/SInt.vo model/Feed.vo model/Vamm.vo model/VammOps.vo model/Token.vo model/World.vo model/Engine.vo model/Runtime.vo proofs/Tactics.vo proofs/EngineGuards.vo
props/C11.vio: props/C11.v model/Prelude.vio model/U128.vio model/SInt.vio model/Feed.vio model/Vamm.vio model/VammOps.vio model/Token.vio model/World.vio model/Engine.vio model/Runtime.vio proofs/Tactics.vio proofs/EngineGuards.vio
props/C11.vos props/C11.vok props/C11.required_vos: props/C11.v model/Prelude.vos model/U128.vos model/SInt.vos model/Feed.vos model/Vamm.vos model/VammOps.vos model/Token.vos model/World.vos model/Engine.vos model/Runtime.vos proofs/Tactics.vos proofs/EngineGuards.vos
props/C14.vo props/C14.glob props/C14.v.beautified props/C14.required_vo: props/C14.v model/Prelude.vo model/U128.vo model/SInt.vo model/Feed.vo model/Vamm.vo model/VammOps.vo model/Token.vo model/World.vo model/Engine.vo model/Runtime.vo proofs/Tactics.vo proofs/EngineGuards.vo
props/C14.vio: props/C14.v model/Prelude.vio model/U128.vio model/SInt.vio model/Feed.vio model/Vamm.vio model/VammOps.vio model/Token.vio model/World.vio model/Engine.vio model/Runtime.vio proofs/Tactics.vio proofs/EngineGuards.vio
props/C14.vos props/C14.vok props/C14.required_vos: props/C14.v model/Prelude.vos model/U128.vos model/SInt.vos model/Feed.vos model/Vamm.vos model/VammOps.vos model/Token.vos model/World.vos model/Engine.vos model/Runtime.vos proofs/Tactics.vos proofs/EngineGuards.vos
props/C16.vo props/C16.glob props/C16.v.beautified props/C16.required_vo: props/C16.v model/Prelude.vo model/U128.vo model/SInt.vo model/Feed.vo model/Vamm.vo model/VammOps.vo model/Token.vo model/World.vo model/Engine.vo model/Runtime.vo proofs/Tactics.vo proofs/EngineGuards.vo
props/C16.vio: props/C16.v model/Prelude.vio model/U128.vio model/SInt.vio model/Feed.vio model/Vamm.vio model/VammOps.vio model/Token.vio model/World.vio model/Engine.vio model/Runtime.vio proofs/Tactics.vio proofs/EngineGuards.vio
props/C16.vos props/C16.vok props/C16.required_vos: props/C16.v model/Prelude.vos model/U128.vos model/SInt.vos model/Feed.vos model/Vamm.vos model/VammOps.vos model/Token.vos model/World.vos model/Engine.vos model/Runtime.vos proofs/Tactics.vos proofs/EngineGuards.vos
props/C19.vo props/C19.glob props/C19.v.beautified props/C19.required_vo: props/C19.v model/Prelude.vo model/U128.vo model/SInt.vo proofs/Tactics.vo proofs/SIntFacts.vo
props/C19.vio: props/C19.v model/Prelude.vio model/U128.vio model/SInt.vio proofs/Tactics.vio proofs/SIntFacts.vio
props/C19.vos props/C19.vok props/C19.required_vos: props/C19.v model/Prelude.vos model/U128.vos model/SInt.vos proofs/Tactics.vos proofs/SIntFacts.vos
