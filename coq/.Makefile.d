model/Prelude.vo model/Prelude.glob model/Prelude.v.beautified model/Prelude.required_vo: model/Prelude.v 
model/Prelude.vio: model/Prelude.v 
model/Prelude.vos model/Prelude.vok model/Prelude.required_vos: model/Prelude.v 
model/SInt.vo model/SInt.glob model/SInt.v.beautified model/SInt.required_vo: model/SInt.v model/Prelude.vo model/U128.vo
model/SInt.vio: model/SInt.v model/Prelude.vio model/U128.vio
model/SInt.vos model/SInt.vok model/SInt.required_vos: model/SInt.v model/Prelude.vos model/U128.vos
model/U128.vo model/U128.glob model/U128.v.beautified model/U128.required_vo: model/U128.v model/Prelude.vo
model/U128.vio: model/U128.v model/Prelude.vio
model/U128.vos model/U128.vok model/U128.required_vos: model/U128.v model/Prelude.vos
proofs/SIntFacts.vo proofs/SIntFacts.glob proofs/SIntFacts.v.beautified proofs/SIntFacts.required_vo: proofs/SIntFacts.v model/Prelude.vo model/U128.vo model/SInt.vo proofs/Tactics.vo
proofs/SIntFacts.vio: proofs/SIntFacts.v model/Prelude.vio model/U128.vio model/SInt.vio proofs/Tactics.vio
proofs/SIntFacts.vos proofs/SIntFacts.vok proofs/SIntFacts.required_vos: proofs/SIntFacts.v model/Prelude.vos model/U128.vos model/SInt.vos proofs/Tactics.vos
proofs/Tactics.vo proofs/Tactics.glob proofs/Tactics.v.beautified proofs/Tactics.required_vo: proofs/Tactics.v model/Prelude.vo model/U128.vo
proofs/Tactics.vio: proofs/Tactics.v model/Prelude.vio model/U128.vio
proofs/Tactics.vos proofs/Tactics.vok proofs/Tactics.required_vos: proofs/Tactics.v model/Prelude.vos model/U128.vos
props/C19.vo props/C19.glob props/C19.v.beautified props/C19.required_vo: props/C19.v model/Prelude.vo model/U128.vo model/SInt.vo proofs/Tactics.vo proofs/SIntFacts.vo
props/C19.vio: props/C19.v model/Prelude.vio model/U128.vio model/SInt.vio proofs/Tactics.vio proofs/SIntFacts.vio
props/C19.vos props/C19.vok props/C19.required_vos: props/C19.v model/Prelude.vos model/U128.vos model/SInt.vos proofs/Tactics.vos proofs/SIntFacts.vos
