(* Extraction of the executable model to OCaml.  ExtrOcamlBasic only: bool, option, unit,
   list, prod, sumbool, sumor map to OCaml's; Z, positive, N, ascii, string stay Coq datatypes. *)
From Coq Require Import ExtrOcamlBasic.
From Coq Require Import String Ascii.
From MP.Model Require Import Prelude U128 SInt.

Extraction Language OCaml.
Extraction "model.ml"
  Z.add Z.mul Z.sub Z.div Z.modulo Z.eqb Z.ltb Z.leb Z.opp Z.of_nat
  sadd ssub smul sdiv schecked_add schecked_sub schecked_mul schecked_div
  sinvert sabs s_is_negative s_is_positive s_is_zero seqb sltb sgtb sleb sgeb scmp
  s_to_string s_from_str s_store spos sneg_ szero.
