(* Extraction of the executable model to OCaml.  ExtrOcamlBasic only: bool, option, unit,
   list, prod, sumbool, sumor map to OCaml's; Z, positive, N, ascii, string stay Coq datatypes. *)
From Coq Require Import ExtrOcamlBasic.
From Coq Require Import String Ascii.
From MP.Model Require Import Prelude U128 SInt Feed Vamm VammOps Token World Engine Runtime Scenario.

Extraction Language OCaml.
Extraction "model.ml"
  Z.add Z.mul Z.sub Z.div Z.modulo Z.eqb Z.ltb Z.leb Z.opp Z.of_nat
  sadd ssub smul sdiv schecked_add schecked_sub schecked_mul schecked_div
  sinvert sabs s_is_negative s_is_positive s_is_zero seqb sltb sgtb sleb sgeb scmp
  s_to_string s_from_str s_store spos sneg_ szero
  step_f exec_op init_world add_vamm_instance dispatch engine_execute
  query_margin_ratio query_free_collateral get_pnl position_with_funding_payment cumulative_premium_fraction
  read_position find_position read_vmap bal
  q_spot q_twap_price q_is_over_spread_limit q_input_amount q_output_amount q_calc_fee q_is_over_fluctuation_limit
  q_input_price q_output_price q_input_twap q_output_twap
  oracle_of rf_latest rf_previous rf_twap mf_get vrun vstep
  golden golden_expected.
