(* Hand-written I/O driver for the extracted model (trusted for parsing/printing only).
   Reads a trace produced by the Rust harness on stdin: each line carries an operation, its
   arguments and what the implementation answered.  The model is run on the same operation and
   the two answers are compared; every disagreement is printed as `DIV <line-no> ...`.
   Final line: `DONE lines=<n> compared=<n> div=<n>`. *)

module M = Model

(* ---------- Z <-> decimal strings ---------- *)
let zten = M.Zpos (M.XO (M.XI (M.XO M.XH)))
let z_of_digit c = M.Z.of_nat (let rec f n = if n = 0 then M.O else M.S (f (n-1)) in f (Char.code c - 48))
let digits = Array.init 10 (fun i -> z_of_digit (Char.chr (48 + i)))
let z_of_string (s : string) : M.z =
  let n = String.length s in
  let neg = n > 0 && s.[0] = '-' in
  let acc = ref M.Z0 in
  for i = (if neg then 1 else 0) to n - 1 do
    let c = s.[i] in
    if c < '0' || c > '9' then failwith ("bad integer: " ^ s);
    acc := M.Z.add (M.Z.mul !acc zten) digits.(Char.code c - 48)
  done;
  if neg then M.Z.opp !acc else !acc

let rec pos_to_int = function M.XH -> 1 | M.XO p -> 2 * pos_to_int p | M.XI p -> 2 * pos_to_int p + 1
let small_int z = match z with M.Z0 -> 0 | M.Zpos p -> pos_to_int p | M.Zneg p -> - (pos_to_int p)

let string_of_z (z : M.z) : string =
  match z with
  | M.Z0 -> "0"
  | _ ->
    let neg = (match z with M.Zneg _ -> true | _ -> false) in
    let a = ref (if neg then M.Z.opp z else z) in
    let buf = Buffer.create 40 in
    while !a <> M.Z0 do
      let d = M.Z.modulo !a zten in
      Buffer.add_char buf (Char.chr (48 + small_int d));
      a := M.Z.div !a zten
    done;
    let s = Buffer.contents buf in
    let n = String.length s in
    let r = String.init n (fun i -> s.[n - 1 - i]) in
    if neg then "-" ^ r else r

(* ---------- Coq strings ---------- *)
let ascii_of_char c =
  let n = Char.code c in
  let b i = (n lsr i) land 1 = 1 in
  M.Ascii (b 0, b 1, b 2, b 3, b 4, b 5, b 6, b 7)
let char_of_ascii (M.Ascii (b0,b1,b2,b3,b4,b5,b6,b7)) =
  let v b i = if b then 1 lsl i else 0 in
  Char.chr (v b0 0 + v b1 1 + v b2 2 + v b3 3 + v b4 4 + v b5 5 + v b6 6 + v b7 7)
let coq_string (s : string) : M.string =
  let r = ref M.EmptyString in
  for i = String.length s - 1 downto 0 do r := M.String (ascii_of_char s.[i], !r) done; !r
let rec ocaml_string (s : M.string) : string =
  match s with M.EmptyString -> "" | M.String (a, t) -> String.make 1 (char_of_ascii a) ^ ocaml_string t

let unhex (h : string) : string =
  if h = "-" then "" else
  String.init (String.length h / 2) (fun i -> Char.chr (int_of_string ("0x" ^ String.sub h (2*i) 2)))
let hex (s : string) : string =
  if s = "" then "-" else String.concat "" (List.map (fun c -> Printf.sprintf "%02x" (Char.code c)) (List.init (String.length s) (String.get s)))

(* ---------- helpers ---------- *)
let sint v n : M.sint = { M.sval = z_of_string v; M.sneg = (n = "1") }
let show_sint (s : M.sint) = string_of_z s.M.sval ^ " " ^ (if s.M.sneg then "1" else "0")
let show_res f = function M.Ok a -> "ok " ^ f a | M.Err _ -> "err"
let show_bool b = if b then "1" else "0"

let lines = ref 0
let compared = ref 0
let divs = ref 0

let report lineno line expected =
  incr divs;
  if !divs <= 200 then Printf.printf "DIV %d model=[%s] line=[%s]\n" lineno expected line

(* ---------- family I : Integer API ---------- *)
let integer_line (toks : string list) : string option =
  let bin f a an b bn = Some (show_res show_sint (f (sint a an) (sint b bn))) in
  let agree fc fu a an b bn =
    Some (match fc (sint a an) (sint b bn) with
          | M.Err _ -> "err"
          | M.Ok c -> (match fu (sint a an) (sint b bn) with
                       | M.Ok u -> "ok " ^ show_bool (M.seqb c u) | M.Err _ -> "err")) in
  let cmpb f a an b bn = Some ("ok " ^ show_bool (f (sint a an) (sint b bn))) in
  match toks with
  | ["add"; a; an; b; bn] | ["adda"; a; an; b; bn] -> bin M.sadd a an b bn
  | ["sub"; a; an; b; bn] | ["suba"; a; an; b; bn] -> bin M.ssub a an b bn
  | ["mul"; a; an; b; bn] | ["mula"; a; an; b; bn] -> bin M.smul a an b bn
  | ["div"; a; an; b; bn] | ["diva"; a; an; b; bn] -> bin M.sdiv a an b bn
  | ["cadd"; a; an; b; bn] -> bin M.schecked_add a an b bn
  | ["csub"; a; an; b; bn] -> bin M.schecked_sub a an b bn
  | ["cmul"; a; an; b; bn] -> bin M.schecked_mul a an b bn
  | ["cdiv"; a; an; b; bn] -> bin M.schecked_div a an b bn
  | ["agree_add"; a; an; b; bn] -> agree M.schecked_add M.sadd a an b bn
  | ["agree_sub"; a; an; b; bn] -> agree M.schecked_sub M.ssub a an b bn
  | ["agree_mul"; a; an; b; bn] -> agree M.schecked_mul M.smul a an b bn
  | ["agree_div"; a; an; b; bn] -> agree M.schecked_div M.sdiv a an b bn
  | ["eq"; a; an; b; bn] -> cmpb M.seqb a an b bn
  | ["lt"; a; an; b; bn] -> cmpb M.sltb a an b bn
  | ["gt"; a; an; b; bn] -> cmpb M.sgtb a an b bn
  | ["le"; a; an; b; bn] -> cmpb M.sleb a an b bn
  | ["ge"; a; an; b; bn] -> cmpb M.sgeb a an b bn
  | ["cmplt"; a; an; b; bn] -> cmpb (fun x y -> M.scmp x y = M.Lt) a an b bn
  | ["cmpeq"; a; an; b; bn] -> cmpb (fun x y -> M.scmp x y = M.Eq) a an b bn
  | ["neg"; a; an] -> Some ("ok " ^ show_sint (M.sinvert (sint a an)))
  | ["abs"; a; an] -> Some ("ok " ^ show_sint (M.sabs (sint a an)))
  | ["isneg"; a; an] -> Some ("ok " ^ show_bool (M.s_is_negative (sint a an)))
  | ["ispos"; a; an] -> Some ("ok " ^ show_bool (M.s_is_positive (sint a an)))
  | ["iszero"; a; an] -> Some ("ok " ^ show_bool (M.s_is_zero (sint a an)))
  | ["tostr"; a; an] -> Some ("ok " ^ hex (ocaml_string (M.s_to_string (sint a an))))
  | ["roundtrip"; a; an] ->
      let x = sint a an in
      Some (match M.s_from_str (M.s_to_string x) with
            | M.Ok p -> "ok " ^ show_bool (M.seqb p x) | M.Err _ -> "err")
  | ["serde"; a; an] -> Some (show_res show_sint (M.s_from_str (M.s_to_string (sint a an))))
  | ["fromstr"; h] -> Some (show_res show_sint (M.s_from_str (coq_string (unhex h))))
  | ["newpos"; v] -> Some ("ok " ^ show_sint (M.spos (z_of_string v)))
  | ["newneg"; v] -> Some ("ok " ^ show_sint (M.sneg_ (z_of_string v)))
  | ["fromi128"; v; "0"] -> Some ("ok " ^ show_sint (M.spos (z_of_string v)))
  | ["fromi128"; v; "1"] ->
      let z = z_of_string v in
      Some ("ok " ^ show_sint (if z = M.Z0 then M.spos z else M.sneg_ z))
  | _ -> None

let split_arrow (toks : string list) : string list * string list =
  let rec go acc = function
    | [] -> (List.rev acc, [])
    | "=>" :: rest -> (List.rev acc, rest)
    | t :: rest -> go (t :: acc) rest in
  go [] toks

let handle_line lineno line =
  let toks = List.filter (fun s -> s <> "") (String.split_on_char ' ' line) in
  match toks with
  | "I" :: rest ->
      let (args, impl) = split_arrow rest in
      (match integer_line args with
       | Some m ->
           incr compared;
           if m <> String.concat " " impl then report lineno line m
       | None -> report lineno line "UNKNOWN-OP")
  | [] -> ()
  | t :: _ when String.length t > 0 && t.[0] = '#' -> ()
  | _ -> report lineno line "UNKNOWN-LINE"

let () =
  (try
    while true do
      let line = input_line stdin in
      incr lines;
      handle_line !lines line
    done
  with End_of_file -> ());
  Printf.printf "DONE lines=%d compared=%d div=%d\n" !lines !compared !divs
