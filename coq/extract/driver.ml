(* Hand-written I/O driver for the extracted model (trusted for parsing/printing only).
   Reads a trace produced by the Rust harness on stdin: each line carries an operation, its
   arguments and what the implementation answered.  The model is run on the same operation and
   the two answers are compared; every disagreement is printed as `DIV <line-no> ...`.
   Final line: `DONE lines=<n> compared=<n> div=<n>`. *)

module M = Model

(* ---------- Z <-> decimal strings ---------- *)
let zten = M.Zpos (M.XO (M.XI (M.XO M.XH)))
let z_of_digit c = M.Z.of_nat (let rec f n = if n = 0 then M.O else M.S (f (n-1)) in f (Char.code c - 48))
let digits = Array.init 10 (fun i -> z_of_digit (Char.chr (48 + i)))
let z_of_string (s : string) : M.z =
  let n = String.length s in
  let neg = n > 0 && s.[0] = '-' in
  let acc = ref M.Z0 in
  for i = (if neg then 1 else 0) to n - 1 do
    let c = s.[i] in
    if c < '0' || c > '9' then failwith ("bad integer: " ^ s);
    acc := M.Z.add (M.Z.mul !acc zten) digits.(Char.code c - 48)
  done;
  if neg then M.Z.opp !acc else !acc

let rec pos_to_int = function M.XH -> 1 | M.XO p -> 2 * pos_to_int p | M.XI p -> 2 * pos_to_int p + 1
let small_int z = match z with M.Z0 -> 0 | M.Zpos p -> pos_to_int p | M.Zneg p -> - (pos_to_int p)

let string_of_z (z : M.z) : string =
  match z with
  | M.Z0 -> "0"
  | _ ->
    let neg = (match z with M.Zneg _ -> true | _ -> false) in
    let a = ref (if neg then M.Z.opp z else z) in
    let buf = Buffer.create 40 in
    while !a <> M.Z0 do
      let d = M.Z.modulo !a zten in
      Buffer.add_char buf (Char.chr (48 + small_int d));
      a := M.Z.div !a zten
    done;
    let s = Buffer.contents buf in
    let n = String.length s in
    let r = String.init n (fun i -> s.[n - 1 - i]) in
    if neg then "-" ^ r else r

(* ---------- Coq strings ---------- *)
let ascii_of_char c =
  let n = Char.code c in
  let b i = (n lsr i) land 1 = 1 in
  M.Ascii (b 0, b 1, b 2, b 3, b 4, b 5, b 6, b 7)
let char_of_ascii (M.Ascii (b0,b1,b2,b3,b4,b5,b6,b7)) =
  let v b i = if b then 1 lsl i else 0 in
  Char.chr (v b0 0 + v b1 1 + v b2 2 + v b3 3 + v b4 4 + v b5 5 + v b6 6 + v b7 7)
let coq_string (s : string) : M.string =
  let r = ref M.EmptyString in
  for i = String.length s - 1 downto 0 do r := M.String (ascii_of_char s.[i], !r) done; !r
let rec ocaml_string (s : M.string) : string =
  match s with M.EmptyString -> "" | M.String (a, t) -> String.make 1 (char_of_ascii a) ^ ocaml_string t

let unhex (h : string) : string =
  if h = "-" then "" else
  String.init (String.length h / 2) (fun i -> Char.chr (int_of_string ("0x" ^ String.sub h (2*i) 2)))
let hex (s : string) : string =
  if s = "" then "-" else String.concat "" (List.map (fun c -> Printf.sprintf "%02x" (Char.code c)) (List.init (String.length s) (String.get s)))

(* ---------- helpers ---------- *)
let sint v n : M.sint = { M.sval = z_of_string v; M.sneg = (n = "1") }
let show_sint (s : M.sint) = string_of_z s.M.sval ^ " " ^ (if s.M.sneg then "1" else "0")
let show_res f = function M.Ok a -> "ok " ^ f a | M.Err _ -> "err"
let show_bool b = if b then "1" else "0"

let lines = ref 0
let compared = ref 0
let divs = ref 0

let report lineno line expected =
  incr divs;
  if !divs <= 200 then Printf.printf "DIV %d model=[%s] line=[%s]\n" lineno expected line

(* ---------- family I : Integer API ---------- *)
let integer_line (toks : string list) : string option =
  let bin f a an b bn = Some (show_res show_sint (f (sint a an) (sint b bn))) in
  let agree fc fu a an b bn =
    Some (match fc (sint a an) (sint b bn) with
          | M.Err _ -> "err"
          | M.Ok c -> (match fu (sint a an) (sint b bn) with
                       | M.Ok u -> "ok " ^ show_bool (M.seqb c u) | M.Err _ -> "err")) in
  let cmpb f a an b bn = Some ("ok " ^ show_bool (f (sint a an) (sint b bn))) in
  match toks with
  | ["add"; a; an; b; bn] | ["adda"; a; an; b; bn] -> bin M.sadd a an b bn
  | ["sub"; a; an; b; bn] | ["suba"; a; an; b; bn] -> bin M.ssub a an b bn
  | ["mul"; a; an; b; bn] | ["mula"; a; an; b; bn] -> bin M.smul a an b bn
  | ["div"; a; an; b; bn] | ["diva"; a; an; b; bn] -> bin M.sdiv a an b bn
  | ["cadd"; a; an; b; bn] -> bin M.schecked_add a an b bn
  | ["csub"; a; an; b; bn] -> bin M.schecked_sub a an b bn
  | ["cmul"; a; an; b; bn] -> bin M.schecked_mul a an b bn
  | ["cdiv"; a; an; b; bn] -> bin M.schecked_div a an b bn
  | ["agree_add"; a; an; b; bn] -> agree M.schecked_add M.sadd a an b bn
  | ["agree_sub"; a; an; b; bn] -> agree M.schecked_sub M.ssub a an b bn
  | ["agree_mul"; a; an; b; bn] -> agree M.schecked_mul M.smul a an b bn
  | ["agree_div"; a; an; b; bn] -> agree M.schecked_div M.sdiv a an b bn
  | ["eq"; a; an; b; bn] -> cmpb M.seqb a an b bn
  | ["lt"; a; an; b; bn] -> cmpb M.sltb a an b bn
  | ["gt"; a; an; b; bn] -> cmpb M.sgtb a an b bn
  | ["le"; a; an; b; bn] -> cmpb M.sleb a an b bn
  | ["ge"; a; an; b; bn] -> cmpb M.sgeb a an b bn
  | ["cmplt"; a; an; b; bn] -> cmpb (fun x y -> M.scmp x y = M.Lt) a an b bn
  | ["cmpeq"; a; an; b; bn] -> cmpb (fun x y -> M.scmp x y = M.Eq) a an b bn
  | ["neg"; a; an] -> Some ("ok " ^ show_sint (M.sinvert (sint a an)))
  | ["abs"; a; an] -> Some ("ok " ^ show_sint (M.sabs (sint a an)))
  | ["isneg"; a; an] -> Some ("ok " ^ show_bool (M.s_is_negative (sint a an)))
  | ["ispos"; a; an] -> Some ("ok " ^ show_bool (M.s_is_positive (sint a an)))
  | ["iszero"; a; an] -> Some ("ok " ^ show_bool (M.s_is_zero (sint a an)))
  | ["tostr"; a; an] -> Some ("ok " ^ hex (ocaml_string (M.s_to_string (sint a an))))
  | ["roundtrip"; a; an] ->
      let x = sint a an in
      Some (match M.s_from_str (M.s_to_string x) with
            | M.Ok p -> "ok " ^ show_bool (M.seqb p x) | M.Err _ -> "err")
  | ["serde"; a; an] -> Some (show_res show_sint (M.s_from_str (M.s_to_string (sint a an))))
  | ["fromstr"; h] -> Some (show_res show_sint (M.s_from_str (coq_string (unhex h))))
  | ["newpos"; v] -> Some ("ok " ^ show_sint (M.spos (z_of_string v)))
  | ["newneg"; v] -> Some ("ok " ^ show_sint (M.sneg_ (z_of_string v)))
  | ["fromi128"; v; "0"] -> Some ("ok " ^ show_sint (M.spos (z_of_string v)))
  | ["fromi128"; v; "1"] ->
      let z = z_of_string v in
      Some ("ok " ^ show_sint (if z = M.Z0 then M.spos z else M.sneg_ z))
  | _ -> None


(* ---------- world families: DEPLOY / VAMM / ACCOUNTS / OP / F / R / S / X lines ---------- *)
let zi (n : int) : M.z = z_of_string (string_of_int n)
let zs = z_of_string
let world : M.world option ref = ref None
let accounts : int list ref = ref []
let vamm_ids : int list ref = ref []
let next_fault : M.z ref = ref (zi (-1))
let last_ok : bool ref = ref true
let last_count : string ref = ref "?"
let native = ref false
let realfeed = ref false
let obs : (string, string) Hashtbl.t = Hashtbl.create 512
let obs_valid = ref false
let cur_history = ref ""
let cur_op = ref ""

let kv (tok : string) : string * string =
  match String.index_opt tok '=' with
  | Some i -> (String.sub tok 0 i, String.sub tok (i+1) (String.length tok - i - 1))
  | None -> (tok, "")
let get kvs k = List.assoc k kvs

let zopt s = if s = "-" then None else Some (zs s)
let side_of s = if s = "B" then M.Buy else M.Sell
let dir_of s = if s = "A" then M.AddToAmm else M.RemoveFromAmm

let rec take n l = if n = 0 then [] else match l with [] -> [] | x :: t -> x :: take (n-1) t
let rec dropl n l = if n = 0 then l else match l with [] -> [] | _ :: t -> dropl (n-1) t

let parse_op (t : string list) : M.op option =
  match t with
  | ["block"; dt; dh] -> Some (M.OBlock (zs dt, zs dh))
  | "eng" :: sender :: funds :: rest ->
      let m = match rest with
        | ["updcfg"; o; i; f; a; b; c; d] -> Some (M.EUpdateConfig (zopt o, zopt i, zopt f, zopt a, zopt b, zopt c, zopt d))
        | ["updpauser"; a] -> Some (M.EUpdatePauser (zs a))
        | ["addwl"; a] -> Some (M.EAddWhitelist (zs a))
        | ["rmwl"; a] -> Some (M.ERemoveWhitelist (zs a))
        | ["open"; v; sd; m; l; lim] -> Some (M.EOpenPosition (zs v, side_of sd, zs m, zs l, zs lim))
        | ["close"; v; lim] -> Some (M.EClosePosition (zs v, zs lim))
        | ["liq"; v; tr; lim] -> Some (M.ELiquidate (zs v, zs tr, zs lim))
        | ["payfunding"; v] -> Some (M.EPayFunding (zs v))
        | ["deposit"; v; a] -> Some (M.EDepositMargin (zs v, zs a))
        | ["withdraw"; v; a] -> Some (M.EWithdrawMargin (zs v, zs a))
        | ["setpause"; p] -> Some (M.ESetPause (p = "1"))
        | _ -> None in
      (match m with Some m -> Some (M.OEngine (zs sender, m, zs funds)) | None -> None)
  | "vamm" :: sender :: v :: rest ->
      let m = match rest with
        | ["swapin"; d; q; l; c] -> Some (M.WSwapInput (dir_of d, zs q, zs l, c = "1"))
        | ["swapout"; d; b; l] -> Some (M.WSwapOutput (dir_of d, zs b, zs l))
        | ["settle"] -> Some M.WSettleFunding
        | ["setopen"; o] -> Some (M.WSetOpen (o = "1"))
        | ["updcfg"; h; oi; tl; sp; fl; e; i; f; tw] ->
            Some (M.WUpdateConfig { M.u_hold_cap = zopt h; M.u_oi_cap = zopt oi; M.u_toll = zopt tl; M.u_spread = zopt sp;
                                    M.u_fluct = zopt fl; M.u_engine = zopt e; M.u_ifund = zopt i; M.u_feed = zopt f;
                                    M.u_twap_interval = zopt tw })
        | ["updowner"; a] -> Some (M.WUpdateOwner (zs a))
        | _ -> None in
      (match m with Some m -> Some (M.OVamm (zs sender, zs v, m)) | None -> None)
  | "if" :: sender :: rest ->
      let m = match rest with
        | ["updowner"; a] -> Some (M.IUpdateOwner (zs a))
        | ["add"; v] -> Some (M.IAddVamm (zs v))
        | ["rm"; v] -> Some (M.IRemoveVamm (zs v))
        | ["withdraw"; a] -> Some (M.IWithdraw (zs a))
        | ["shutdown"] -> Some M.IShutdown
        | _ -> None in
      (match m with Some m -> Some (M.OIfund (zs sender, m)) | None -> None)
  | "fp" :: sender :: rest ->
      let m = match rest with
        | ["updowner"; a] -> Some (M.FUpdateOwner (zs a))
        | ["add"; t] -> Some (M.FAddToken (zs t))
        | ["rm"; t] -> Some (M.FRemoveToken (zs t))
        | ["send"; t; a; r] -> Some (M.FSendToken (zs t, zs a, zs r))
        | _ -> None in
      (match m with Some m -> Some (M.OFeepool (zs sender, m)) | None -> None)
  | "feed" :: sender :: rest ->
      let m = match rest with
        | ["append"; p; t] -> Some (M.PAppend (zs p, zs t))
        | "appendmulti" :: np :: nt :: xs ->
            let np = int_of_string np and nt = int_of_string nt in
            Some (M.PAppendMultiple (List.map zs (take np xs), List.map zs (take nt (dropl np xs))))
        | ["updowner"; a] -> Some (M.PUpdateOwner (zs a))
        | _ -> None in
      (match m with Some m -> Some (M.OFeed (zs sender, m)) | None -> None)
  | "tok" :: sender :: rest ->
      let m = match rest with
        | ["allow"; a] -> Some (M.TIncreaseAllowance (zs a))
        | ["mint"; t; a] -> Some (M.TMint (zs t, zs a))
        | ["send"; t; a] -> Some (M.TSend (zs t, zs a))
        | _ -> None in
      (match m with Some m -> Some (M.OToken (zs sender, m)) | None -> None)
  | _ -> None

let sz = string_of_z
let show_s (x : M.sint) = ocaml_string (M.s_to_string x)
let show_rz = function M.Ok z -> sz z | M.Err _ -> "err"
let show_rs = function M.Ok s -> show_s s | M.Err _ -> "err"
let show_oa = function Some a -> sz a | None -> "none"
let show_list l = if l = [] then "[]" else String.concat "," (List.map sz l)

let compute_obs (w : M.world) =
  Hashtbl.reset obs;
  let put k v = Hashtbl.replace obs k v in
  let e = w.M.w_env in
  put "env.time" (sz e.M.now); put "env.height" (sz e.M.height);
  let ids = [2; 3; 4] @ !accounts in
  List.iter (fun id -> put (Printf.sprintf "bal.%d" id) (sz (M.bal w.M.w_tok (zi id)))) ids;
  List.iter (fun id ->
    put (Printf.sprintf "allow.%d" id)
      (match M.zfind (zi id) w.M.w_tok.M.t_allow with Some a -> sz a | None -> "none")) !accounts;
  let en = w.M.w_eng in
  let c = en.M.ec and st = en.M.es in
  put "e.owner" (sz c.M.e_owner); put "e.ifund" (sz c.M.e_ifund); put "e.feepool" (sz c.M.e_feepool);
  put "e.dec" (sz c.M.e_dec); put "e.init" (sz c.M.e_init); put "e.maint" (sz c.M.e_maint);
  put "e.plr" (sz c.M.e_plr); put "e.liqfee" (sz c.M.e_liqfee);
  put "e.oi" (sz st.M.e_oi); put "e.baddebt" (sz st.M.e_bad_debt); put "e.pause" (show_bool st.M.e_pause);
  put "e.tmpswap" (show_bool (en.M.e_tmp <> None)); put "e.sentfunds" (show_bool (en.M.e_sent <> None));
  put "e.tmpliq" (show_bool (en.M.e_liq <> None));
  put "e.pauser" (show_oa en.M.e_pauser);
  put "e.wl" (show_list en.M.e_wl);
  List.iter (fun vid ->
    let va = zi vid in
    match M.zfind va w.M.w_vamms with
    | None -> ()
    | Some v ->
      let p k x = put (Printf.sprintf "v%d.%s" vid k) x in
      let vc = v.M.vc and vs = v.M.vs in
      p "open" (show_bool vs.M.v_open); p "q" (sz vs.M.v_q); p "b" (sz vs.M.v_b);
      p "total" (show_s vs.M.v_total); p "frate" (show_s vs.M.v_frate); p "nextfund" (sz vs.M.v_next_funding);
      p "holdcap" (sz vc.M.v_hold_cap); p "oicap" (sz vc.M.v_oi_cap); p "toll" (sz vc.M.v_toll);
      p "spread" (sz vc.M.v_spread); p "fluct" (sz vc.M.v_fluct); p "dec" (sz vc.M.v_dec);
      p "twapint" (sz vc.M.v_twap_interval); p "engine" (sz vc.M.v_engine); p "ifund" (sz vc.M.v_ifund);
      p "feed" (sz vc.M.v_feed); p "owner" (show_oa v.M.v_owner);
      p "snaps" (string_of_int (List.length v.M.snaps));
      let show_snap = function
        | Some sn -> Printf.sprintf "%s/%s/%s/%s" (sz sn.M.s_q) (sz sn.M.s_b) (sz sn.M.s_time) (sz sn.M.s_height)
        | None -> "none" in
      p "s0" (show_snap (match v.M.snaps with a :: _ -> Some a | [] -> None));
      p "s1" (show_snap (match v.M.snaps with _ :: b :: _ -> Some b | _ -> None));
      p "spot" (show_rz (M.q_spot v));
      p "twap" (show_rz (M.q_twap_price v e vc.M.v_twap_interval));
      p "twap15" (show_rz (M.q_twap_price v e (zi 900)));
      let orc = M.oracle_of w v in
      p "overspread" (match M.q_is_over_spread_limit v orc with M.Ok b -> show_bool b | M.Err _ -> "err");
      p "uprice" (show_rz orc.M.o_price);
      p "utwap" (show_rz (orc.M.o_twap vc.M.v_twap_interval));
      p "cpf" (show_s (M.cumulative_premium_fraction en va));
      let vm = M.read_vmap en va in
      p "lrb" (sz vm.M.vm_lrb); p "ncpf" (string_of_int (List.length vm.M.vm_cpf));
      List.iter (fun t ->
        let k = Printf.sprintf "p%d.%d" vid t in
        match M.find_position en va (zi t) with
        | None -> put k "none"
        | Some pos ->
          put k "some";
          let pp f x = put (k ^ "." ^ f) x in
          pp "dir" (match pos.M.p_dir with M.AddToAmm -> "A" | M.RemoveFromAmm -> "R");
          pp "size" (show_s pos.M.p_size); pp "margin" (sz pos.M.p_margin); pp "notional" (sz pos.M.p_notional);
          pp "lupf" (show_s pos.M.p_lupf); pp "block" (sz pos.M.p_block);
          pp "mr" (show_rs (M.query_margin_ratio w va (zi t)));
          pp "fc" (show_rs (M.query_free_collateral w va (zi t)));
          List.iter (fun (nm, o) ->
            match M.get_pnl w va pos o with
            | M.Ok (n, pnl) -> pp ("pn_" ^ nm) (sz n); pp ("pnl_" ^ nm) (show_s pnl)
            | M.Err _ -> pp ("pn_" ^ nm) "err"; pp ("pnl_" ^ nm) "err")
            [("spot", M.PSpot); ("twap", M.PTwap); ("oracle", M.POracle)];
          pp "mwf" (match M.position_with_funding_payment w va (zi t) with M.Ok p -> sz p.M.p_margin | M.Err _ -> "err"))
        !accounts) !vamm_ids;
  let i = w.M.w_if in
  put "if.owner" (show_oa i.M.if_owner);
  put "if.vamms" (if i.M.if_stored then show_list (take 3 i.M.if_vamms) else "err");
  List.iter (fun vid -> put (Printf.sprintf "if.isvamm.%d" vid) (show_bool (List.mem (zi vid) i.M.if_vamms))) !vamm_ids;
  let f = w.M.w_fp in
  put "fp.owner" (show_oa f.M.fp_owner);
  put "fp.tokens" (if f.M.fp_stored then show_list (take 3 f.M.fp_tokens) else "err");
  (match w.M.w_feed with
   | M.FMock m -> put "feed.owner" (sz m.M.mf_owner); put "feed.price" (show_rz (M.mf_get m))
   | M.FReal r ->
       put "feed.owner" (show_oa r.M.rf_owner);
       let ((rid, pr), tm) = M.rf_latest r in
       put "feed.round" (sz rid); put "feed.price" (sz pr); put "feed.time" (sz tm));
  obs_valid := true

let world_line lineno line (toks : string list) : bool =
  match toks with
  | "HISTORY" :: rest -> cur_history := String.concat " " rest; world := None; true
  | "END" :: _ -> true
  | "DEPLOY" :: rest ->
      let kvs = List.map kv rest in
      let g k = get kvs k in
      native := (g "native" = "1"); realfeed := (g "realfeed" = "1");
      let d = { M.d_native = !native; M.d_decimals = zs (g "dec"); M.d_real_feed = !realfeed;
                M.d_init = zs (g "init"); M.d_maint = zs (g "maint"); M.d_liqfee = zs (g "liqfee"); M.d_owner = zi 1 } in
      let e = { M.now = zs (g "t0"); M.height = zs (g "h0") } in
      (match M.init_world e d with
       | M.Ok w -> world := Some w
       | M.Err _ -> report lineno line "model: deployment rejected");
      vamm_ids := []; obs_valid := false; next_fault := zi (-1); true
  | "VAMM" :: a :: rest ->
      let kvs = List.map kv rest in
      let g k = zs (get kvs k) in
      (match !world with
       | Some w ->
         let m = { M.i_decimals = g "dec"; M.i_feed = zi 5; M.i_engine = Some (zi 2); M.i_ifund = Some (zi 3);
                   M.i_q = g "q"; M.i_b = g "b"; M.i_fperiod = g "fperiod"; M.i_toll = g "toll";
                   M.i_spread = g "spread"; M.i_fluct = g "fluct" } in
         (match M.add_vamm_instance w (zs a) (zi 1) m with
          | M.Ok w' -> world := Some w'; vamm_ids := !vamm_ids @ [int_of_string a]
          | M.Err _ -> report lineno line "model: vamm instantiate rejected")
       | None -> report lineno line "model: no world"); true
  | "ACCOUNTS" :: rest -> accounts := List.map int_of_string rest; true
  | "F" :: k :: _ -> next_fault := zs k; true
  | "OP" :: _n :: rest ->
      cur_op := line;
      (match !world, parse_op rest with
       | Some w, Some op ->
           let (w', ok) = M.step_f !next_fault w op in
           (* number of sub-messages the model dispatched (engine / ifund / feepool ops) *)
           last_count := (match op with
             | M.OEngine (s, m, f) ->
                 (match (if M.Z.eqb f M.Z0 then M.Ok w else M.Ok w) with
                  | _ -> "?")
             | _ -> "?");
           world := Some w'; last_ok := ok; obs_valid := false
       | None, _ -> report lineno line "model: no world"
       | _, None -> report lineno line "model: cannot parse op");
      next_fault := zi (-1); true
  | "R" :: r :: _ ->
      incr compared;
      let m = if !last_ok then "ok" else "err" in
      if m <> r then report lineno (!cur_history ^ " | " ^ !cur_op ^ " | " ^ line) ("result " ^ m);
      true
  | "X" :: _ -> true
  | "A" :: _ -> true
  | "Q" :: rest ->
      (* price-feed queries (real feed): prev.<n>=round/price/time|err  twap.<interval>=v|err *)
      (match !world with
       | Some w ->
         (match w.M.w_feed with
          | M.FReal r ->
            List.iter (fun tok ->
              let (k, v) = kv tok in
              incr compared;
              let mval =
                if String.length k > 5 && String.sub k 0 5 = "prev." then
                  (match M.rf_previous r (zs (String.sub k 5 (String.length k - 5))) with
                   | M.Ok ((rid, pr), tm) -> Printf.sprintf "%s/%s/%s" (sz rid) (sz pr) (sz tm)
                   | M.Err _ -> "err")
                else if String.length k > 5 && String.sub k 0 5 = "twap." then
                  show_rz (M.rf_twap r w.M.w_env.M.now (zs (String.sub k 5 (String.length k - 5))))
                else "?" in
              if mval <> v then report lineno (!cur_history ^ " | " ^ !cur_op ^ " | " ^ tok) (k ^ "=" ^ mval)) rest
          | _ -> ())
       | None -> ());
      true
  | "S" :: rest ->
      (match !world with
       | Some w ->
         if not !obs_valid then compute_obs w;
         List.iter (fun tok ->
           let (k, v) = kv tok in
           incr compared;
           match Hashtbl.find_opt obs k with
           | Some mv -> if mv <> v then report lineno (!cur_history ^ " | " ^ !cur_op ^ " | " ^ k ^ "=" ^ v) (k ^ "=" ^ mv)
           | None -> report lineno (!cur_history ^ " | " ^ !cur_op ^ " | " ^ tok) ("no-model-key " ^ k)) rest
       | None -> ());
      true
  | _ -> false

let split_arrow (toks : string list) : string list * string list =
  let rec go acc = function
    | [] -> (List.rev acc, [])
    | "=>" :: rest -> (List.rev acc, rest)
    | t :: rest -> go (t :: acc) rest in
  go [] toks

let handle_line lineno line =
  let toks = List.filter (fun s -> s <> "") (String.split_on_char ' ' line) in
  match toks with
  | "I" :: rest ->
      let (args, impl) = split_arrow rest in
      (match integer_line args with
       | Some m ->
           incr compared;
           if m <> String.concat " " impl then report lineno line m
       | None -> report lineno line "UNKNOWN-OP")
  | [] -> ()
  | t :: _ when String.length t > 0 && t.[0] = '#' -> ()
  | _ -> if not (world_line lineno line toks) then report lineno line "UNKNOWN-LINE"

(* --golden: recompute the golden list with the extracted code and compare with the kernel's values *)
let golden_mode () =
  let rec eq a b = match a, b with
    | [], [] -> true
    | x :: xs, y :: ys -> Model.Z.eqb x y && eq xs ys
    | _, _ -> false in
  let g = Model.golden () and e = Model.golden_expected () in
  let n = List.length g in
  if n > 0 && eq g e then (Printf.printf "GOLDEN ok values=%d\n" n; exit 0)
  else (Printf.printf "GOLDEN MISMATCH computed=%d expected=%d\n" n (List.length e); exit 3)

let () =
  if Array.length Sys.argv > 1 && Sys.argv.(1) = "--golden" then golden_mode ();
  (try
    while true do
      let line = input_line stdin in
      incr lines;
      handle_line !lines line
    done
  with End_of_file -> ());
  Printf.printf "DONE lines=%d compared=%d div=%d\n" !lines !compared !divs
