
(** val negb : bool -> bool **)

let negb = function
| true -> false
| false -> true

type nat =
| O
| S of nat

type comparison =
| Eq
| Lt
| Gt

(** val compOpp : comparison -> comparison **)

let compOpp = function
| Eq -> Eq
| Lt -> Gt
| Gt -> Lt

type uint =
| Nil
| D0 of uint
| D1 of uint
| D2 of uint
| D3 of uint
| D4 of uint
| D5 of uint
| D6 of uint
| D7 of uint
| D8 of uint
| D9 of uint

(** val revapp : uint -> uint -> uint **)

let rec revapp d d' =
  match d with
  | Nil -> d'
  | D0 d0 -> revapp d0 (D0 d')
  | D1 d0 -> revapp d0 (D1 d')
  | D2 d0 -> revapp d0 (D2 d')
  | D3 d0 -> revapp d0 (D3 d')
  | D4 d0 -> revapp d0 (D4 d')
  | D5 d0 -> revapp d0 (D5 d')
  | D6 d0 -> revapp d0 (D6 d')
  | D7 d0 -> revapp d0 (D7 d')
  | D8 d0 -> revapp d0 (D8 d')
  | D9 d0 -> revapp d0 (D9 d')

(** val rev : uint -> uint **)

let rev d =
  revapp d Nil

module Little =
 struct
  (** val double : uint -> uint **)

  let rec double = function
  | Nil -> Nil
  | D0 d0 -> D0 (double d0)
  | D1 d0 -> D2 (double d0)
  | D2 d0 -> D4 (double d0)
  | D3 d0 -> D6 (double d0)
  | D4 d0 -> D8 (double d0)
  | D5 d0 -> D0 (succ_double d0)
  | D6 d0 -> D2 (succ_double d0)
  | D7 d0 -> D4 (succ_double d0)
  | D8 d0 -> D6 (succ_double d0)
  | D9 d0 -> D8 (succ_double d0)

  (** val succ_double : uint -> uint **)

  and succ_double = function
  | Nil -> D1 Nil
  | D0 d0 -> D1 (double d0)
  | D1 d0 -> D3 (double d0)
  | D2 d0 -> D5 (double d0)
  | D3 d0 -> D7 (double d0)
  | D4 d0 -> D9 (double d0)
  | D5 d0 -> D1 (succ_double d0)
  | D6 d0 -> D3 (succ_double d0)
  | D7 d0 -> D5 (succ_double d0)
  | D8 d0 -> D7 (succ_double d0)
  | D9 d0 -> D9 (succ_double d0)
 end

(** val eqb : bool -> bool -> bool **)

let eqb b1 b2 =
  if b1 then b2 else if b2 then false else true

type positive =
| XI of positive
| XO of positive
| XH

type n =
| N0
| Npos of positive

type z =
| Z0
| Zpos of positive
| Zneg of positive

module Pos =
 struct
  (** val succ : positive -> positive **)

  let rec succ = function
  | XI p -> XO (succ p)
  | XO p -> XI p
  | XH -> XO XH

  (** val add : positive -> positive -> positive **)

  let rec add x y =
    match x with
    | XI p ->
      (match y with
       | XI q -> XO (add_carry p q)
       | XO q -> XI (add p q)
       | XH -> XO (succ p))
    | XO p ->
      (match y with
       | XI q -> XI (add p q)
       | XO q -> XO (add p q)
       | XH -> XI p)
    | XH -> (match y with
             | XI q -> XO (succ q)
             | XO q -> XI q
             | XH -> XO XH)

  (** val add_carry : positive -> positive -> positive **)

  and add_carry x y =
    match x with
    | XI p ->
      (match y with
       | XI q -> XI (add_carry p q)
       | XO q -> XO (add_carry p q)
       | XH -> XI (succ p))
    | XO p ->
      (match y with
       | XI q -> XO (add_carry p q)
       | XO q -> XI (add p q)
       | XH -> XO (succ p))
    | XH ->
      (match y with
       | XI q -> XI (succ q)
       | XO q -> XO (succ q)
       | XH -> XI XH)

  (** val pred_double : positive -> positive **)

  let rec pred_double = function
  | XI p -> XI (XO p)
  | XO p -> XI (pred_double p)
  | XH -> XH

  (** val mul : positive -> positive -> positive **)

  let rec mul x y =
    match x with
    | XI p -> add y (XO (mul p y))
    | XO p -> XO (mul p y)
    | XH -> y

  (** val iter : ('a1 -> 'a1) -> 'a1 -> positive -> 'a1 **)

  let rec iter f x = function
  | XI n' -> f (iter f (iter f x n') n')
  | XO n' -> iter f (iter f x n') n'
  | XH -> f x

  (** val compare_cont : comparison -> positive -> positive -> comparison **)

  let rec compare_cont r x y =
    match x with
    | XI p ->
      (match y with
       | XI q -> compare_cont r p q
       | XO q -> compare_cont Gt p q
       | XH -> Gt)
    | XO p ->
      (match y with
       | XI q -> compare_cont Lt p q
       | XO q -> compare_cont r p q
       | XH -> Gt)
    | XH -> (match y with
             | XH -> r
             | _ -> Lt)

  (** val compare : positive -> positive -> comparison **)

  let compare =
    compare_cont Eq

  (** val eqb : positive -> positive -> bool **)

  let rec eqb p q =
    match p with
    | XI p0 -> (match q with
                | XI q0 -> eqb p0 q0
                | _ -> false)
    | XO p0 -> (match q with
                | XO q0 -> eqb p0 q0
                | _ -> false)
    | XH -> (match q with
             | XH -> true
             | _ -> false)

  (** val of_succ_nat : nat -> positive **)

  let rec of_succ_nat = function
  | O -> XH
  | S x -> succ (of_succ_nat x)

  (** val of_uint_acc : uint -> positive -> positive **)

  let rec of_uint_acc d acc =
    match d with
    | Nil -> acc
    | D0 l -> of_uint_acc l (mul (XO (XI (XO XH))) acc)
    | D1 l -> of_uint_acc l (add XH (mul (XO (XI (XO XH))) acc))
    | D2 l -> of_uint_acc l (add (XO XH) (mul (XO (XI (XO XH))) acc))
    | D3 l -> of_uint_acc l (add (XI XH) (mul (XO (XI (XO XH))) acc))
    | D4 l -> of_uint_acc l (add (XO (XO XH)) (mul (XO (XI (XO XH))) acc))
    | D5 l -> of_uint_acc l (add (XI (XO XH)) (mul (XO (XI (XO XH))) acc))
    | D6 l -> of_uint_acc l (add (XO (XI XH)) (mul (XO (XI (XO XH))) acc))
    | D7 l -> of_uint_acc l (add (XI (XI XH)) (mul (XO (XI (XO XH))) acc))
    | D8 l ->
      of_uint_acc l (add (XO (XO (XO XH))) (mul (XO (XI (XO XH))) acc))
    | D9 l ->
      of_uint_acc l (add (XI (XO (XO XH))) (mul (XO (XI (XO XH))) acc))

  (** val of_uint : uint -> n **)

  let rec of_uint = function
  | Nil -> N0
  | D0 l -> of_uint l
  | D1 l -> Npos (of_uint_acc l XH)
  | D2 l -> Npos (of_uint_acc l (XO XH))
  | D3 l -> Npos (of_uint_acc l (XI XH))
  | D4 l -> Npos (of_uint_acc l (XO (XO XH)))
  | D5 l -> Npos (of_uint_acc l (XI (XO XH)))
  | D6 l -> Npos (of_uint_acc l (XO (XI XH)))
  | D7 l -> Npos (of_uint_acc l (XI (XI XH)))
  | D8 l -> Npos (of_uint_acc l (XO (XO (XO XH))))
  | D9 l -> Npos (of_uint_acc l (XI (XO (XO XH))))

  (** val to_little_uint : positive -> uint **)

  let rec to_little_uint = function
  | XI p0 -> Little.succ_double (to_little_uint p0)
  | XO p0 -> Little.double (to_little_uint p0)
  | XH -> D1 Nil

  (** val to_uint : positive -> uint **)

  let to_uint p =
    rev (to_little_uint p)
 end

module N =
 struct
  (** val of_uint : uint -> n **)

  let of_uint =
    Pos.of_uint

  (** val to_uint : n -> uint **)

  let to_uint = function
  | N0 -> D0 Nil
  | Npos p -> Pos.to_uint p
 end

module Z =
 struct
  (** val double : z -> z **)

  let double = function
  | Z0 -> Z0
  | Zpos p -> Zpos (XO p)
  | Zneg p -> Zneg (XO p)

  (** val succ_double : z -> z **)

  let succ_double = function
  | Z0 -> Zpos XH
  | Zpos p -> Zpos (XI p)
  | Zneg p -> Zneg (Pos.pred_double p)

  (** val pred_double : z -> z **)

  let pred_double = function
  | Z0 -> Zneg XH
  | Zpos p -> Zpos (Pos.pred_double p)
  | Zneg p -> Zneg (XI p)

  (** val pos_sub : positive -> positive -> z **)

  let rec pos_sub x y =
    match x with
    | XI p ->
      (match y with
       | XI q -> double (pos_sub p q)
       | XO q -> succ_double (pos_sub p q)
       | XH -> Zpos (XO p))
    | XO p ->
      (match y with
       | XI q -> pred_double (pos_sub p q)
       | XO q -> double (pos_sub p q)
       | XH -> Zpos (Pos.pred_double p))
    | XH ->
      (match y with
       | XI q -> Zneg (XO q)
       | XO q -> Zneg (Pos.pred_double q)
       | XH -> Z0)

  (** val add : z -> z -> z **)

  let add x y =
    match x with
    | Z0 -> y
    | Zpos x' ->
      (match y with
       | Z0 -> x
       | Zpos y' -> Zpos (Pos.add x' y')
       | Zneg y' -> pos_sub x' y')
    | Zneg x' ->
      (match y with
       | Z0 -> x
       | Zpos y' -> pos_sub y' x'
       | Zneg y' -> Zneg (Pos.add x' y'))

  (** val opp : z -> z **)

  let opp = function
  | Z0 -> Z0
  | Zpos x0 -> Zneg x0
  | Zneg x0 -> Zpos x0

  (** val sub : z -> z -> z **)

  let sub m n0 =
    add m (opp n0)

  (** val mul : z -> z -> z **)

  let mul x y =
    match x with
    | Z0 -> Z0
    | Zpos x' ->
      (match y with
       | Z0 -> Z0
       | Zpos y' -> Zpos (Pos.mul x' y')
       | Zneg y' -> Zneg (Pos.mul x' y'))
    | Zneg x' ->
      (match y with
       | Z0 -> Z0
       | Zpos y' -> Zneg (Pos.mul x' y')
       | Zneg y' -> Zpos (Pos.mul x' y'))

  (** val pow_pos : z -> positive -> z **)

  let pow_pos z0 =
    Pos.iter (mul z0) (Zpos XH)

  (** val pow : z -> z -> z **)

  let pow x = function
  | Z0 -> Zpos XH
  | Zpos p -> pow_pos x p
  | Zneg _ -> Z0

  (** val compare : z -> z -> comparison **)

  let compare x y =
    match x with
    | Z0 -> (match y with
             | Z0 -> Eq
             | Zpos _ -> Lt
             | Zneg _ -> Gt)
    | Zpos x' -> (match y with
                  | Zpos y' -> Pos.compare x' y'
                  | _ -> Gt)
    | Zneg x' ->
      (match y with
       | Zneg y' -> compOpp (Pos.compare x' y')
       | _ -> Lt)

  (** val leb : z -> z -> bool **)

  let leb x y =
    match compare x y with
    | Gt -> false
    | _ -> true

  (** val ltb : z -> z -> bool **)

  let ltb x y =
    match compare x y with
    | Lt -> true
    | _ -> false

  (** val eqb : z -> z -> bool **)

  let eqb x y =
    match x with
    | Z0 -> (match y with
             | Z0 -> true
             | _ -> false)
    | Zpos p -> (match y with
                 | Zpos q -> Pos.eqb p q
                 | _ -> false)
    | Zneg p -> (match y with
                 | Zneg q -> Pos.eqb p q
                 | _ -> false)

  (** val to_N : z -> n **)

  let to_N = function
  | Zpos p -> Npos p
  | _ -> N0

  (** val of_nat : nat -> z **)

  let of_nat = function
  | O -> Z0
  | S n1 -> Zpos (Pos.of_succ_nat n1)

  (** val of_N : n -> z **)

  let of_N = function
  | N0 -> Z0
  | Npos p -> Zpos p

  (** val pos_div_eucl : positive -> z -> z * z **)

  let rec pos_div_eucl a b =
    match a with
    | XI a' ->
      let (q, r) = pos_div_eucl a' b in
      let r' = add (mul (Zpos (XO XH)) r) (Zpos XH) in
      if ltb r' b
      then ((mul (Zpos (XO XH)) q), r')
      else ((add (mul (Zpos (XO XH)) q) (Zpos XH)), (sub r' b))
    | XO a' ->
      let (q, r) = pos_div_eucl a' b in
      let r' = mul (Zpos (XO XH)) r in
      if ltb r' b
      then ((mul (Zpos (XO XH)) q), r')
      else ((add (mul (Zpos (XO XH)) q) (Zpos XH)), (sub r' b))
    | XH -> if leb (Zpos (XO XH)) b then (Z0, (Zpos XH)) else ((Zpos XH), Z0)

  (** val div_eucl : z -> z -> z * z **)

  let div_eucl a b =
    match a with
    | Z0 -> (Z0, Z0)
    | Zpos a' ->
      (match b with
       | Z0 -> (Z0, a)
       | Zpos _ -> pos_div_eucl a' b
       | Zneg b' ->
         let (q, r) = pos_div_eucl a' (Zpos b') in
         (match r with
          | Z0 -> ((opp q), Z0)
          | _ -> ((opp (add q (Zpos XH))), (add b r))))
    | Zneg a' ->
      (match b with
       | Z0 -> (Z0, a)
       | Zpos _ ->
         let (q, r) = pos_div_eucl a' b in
         (match r with
          | Z0 -> ((opp q), Z0)
          | _ -> ((opp (add q (Zpos XH))), (sub b r)))
       | Zneg b' -> let (q, r) = pos_div_eucl a' (Zpos b') in (q, (opp r)))

  (** val div : z -> z -> z **)

  let div a b =
    let (q, _) = div_eucl a b in q

  (** val modulo : z -> z -> z **)

  let modulo a b =
    let (_, r) = div_eucl a b in r
 end

type ascii =
| Ascii of bool * bool * bool * bool * bool * bool * bool * bool

type string =
| EmptyString
| String of ascii * string

type err =
| EGuard
| EArith
| EDecode
| ESub
| EFuel

type 'a res =
| Ok of 'a
| Err of err

(** val bind : 'a1 res -> ('a1 -> 'a2 res) -> 'a2 res **)

let bind r f =
  match r with
  | Ok a -> f a
  | Err e -> Err e

(** val mAXU : z **)

let mAXU =
  Z.pow (Zpos (XO XH)) (Zpos (XO (XO (XO (XO (XO (XO (XO XH))))))))

(** val cadd : z -> z -> z res **)

let cadd a b =
  if Z.ltb (Z.add a b) mAXU then Ok (Z.add a b) else Err EArith

(** val csub : z -> z -> z res **)

let csub a b =
  if Z.leb b a then Ok (Z.sub a b) else Err EArith

(** val cmul : z -> z -> z res **)

let cmul a b =
  if Z.ltb (Z.mul a b) mAXU then Ok (Z.mul a b) else Err EArith

(** val cdiv : z -> z -> z res **)

let cdiv a b =
  if Z.eqb b Z0 then Err EArith else Ok (Z.div a b)

(** val uint_of_char : ascii -> uint option -> uint option **)

let uint_of_char a = function
| Some d0 ->
  let Ascii (b, b0, b1, b2, b3, b4, b5, b6) = a in
  if b
  then if b0
       then if b1
            then if b2
                 then None
                 else if b3
                      then if b4
                           then if b5
                                then None
                                else if b6 then None else Some (D7 d0)
                           else None
                      else None
            else if b2
                 then None
                 else if b3
                      then if b4
                           then if b5
                                then None
                                else if b6 then None else Some (D3 d0)
                           else None
                      else None
       else if b1
            then if b2
                 then None
                 else if b3
                      then if b4
                           then if b5
                                then None
                                else if b6 then None else Some (D5 d0)
                           else None
                      else None
            else if b2
                 then if b3
                      then if b4
                           then if b5
                                then None
                                else if b6 then None else Some (D9 d0)
                           else None
                      else None
                 else if b3
                      then if b4
                           then if b5
                                then None
                                else if b6 then None else Some (D1 d0)
                           else None
                      else None
  else if b0
       then if b1
            then if b2
                 then None
                 else if b3
                      then if b4
                           then if b5
                                then None
                                else if b6 then None else Some (D6 d0)
                           else None
                      else None
            else if b2
                 then None
                 else if b3
                      then if b4
                           then if b5
                                then None
                                else if b6 then None else Some (D2 d0)
                           else None
                      else None
       else if b1
            then if b2
                 then None
                 else if b3
                      then if b4
                           then if b5
                                then None
                                else if b6 then None else Some (D4 d0)
                           else None
                      else None
            else if b2
                 then if b3
                      then if b4
                           then if b5
                                then None
                                else if b6 then None else Some (D8 d0)
                           else None
                      else None
                 else if b3
                      then if b4
                           then if b5
                                then None
                                else if b6 then None else Some (D0 d0)
                           else None
                      else None
| None -> None

module NilEmpty =
 struct
  (** val string_of_uint : uint -> string **)

  let rec string_of_uint = function
  | Nil -> EmptyString
  | D0 d0 ->
    String ((Ascii (false, false, false, false, true, true, false, false)),
      (string_of_uint d0))
  | D1 d0 ->
    String ((Ascii (true, false, false, false, true, true, false, false)),
      (string_of_uint d0))
  | D2 d0 ->
    String ((Ascii (false, true, false, false, true, true, false, false)),
      (string_of_uint d0))
  | D3 d0 ->
    String ((Ascii (true, true, false, false, true, true, false, false)),
      (string_of_uint d0))
  | D4 d0 ->
    String ((Ascii (false, false, true, false, true, true, false, false)),
      (string_of_uint d0))
  | D5 d0 ->
    String ((Ascii (true, false, true, false, true, true, false, false)),
      (string_of_uint d0))
  | D6 d0 ->
    String ((Ascii (false, true, true, false, true, true, false, false)),
      (string_of_uint d0))
  | D7 d0 ->
    String ((Ascii (true, true, true, false, true, true, false, false)),
      (string_of_uint d0))
  | D8 d0 ->
    String ((Ascii (false, false, false, true, true, true, false, false)),
      (string_of_uint d0))
  | D9 d0 ->
    String ((Ascii (true, false, false, true, true, true, false, false)),
      (string_of_uint d0))

  (** val uint_of_string : string -> uint option **)

  let rec uint_of_string = function
  | EmptyString -> Some Nil
  | String (a, s0) -> uint_of_char a (uint_of_string s0)
 end

type sint = { sval : z; sneg : bool }

(** val szero : sint **)

let szero =
  { sval = Z0; sneg = false }

(** val spos : z -> sint **)

let spos v =
  { sval = v; sneg = false }

(** val sneg_ : z -> sint **)

let sneg_ v =
  { sval = v; sneg = true }

(** val sinvert : sint -> sint **)

let sinvert a =
  { sval = a.sval; sneg = (negb a.sneg) }

(** val sabs : sint -> sint **)

let sabs a =
  { sval = a.sval; sneg = false }

(** val s_is_negative : sint -> bool **)

let s_is_negative a =
  a.sneg

(** val s_is_positive : sint -> bool **)

let s_is_positive a =
  negb a.sneg

(** val s_is_zero : sint -> bool **)

let s_is_zero a =
  Z.eqb a.sval Z0

(** val seqb : sint -> sint -> bool **)

let seqb a b =
  (&&) (Z.eqb a.sval b.sval) (eqb a.sneg b.sneg)

(** val schecked_add : sint -> sint -> sint res **)

let schecked_add a b =
  if a.sneg
  then if b.sneg
       then bind (cadd a.sval b.sval) (fun v -> Ok (sneg_ v))
       else if Z.ltb b.sval a.sval
            then bind (csub a.sval b.sval) (fun v -> Ok (sneg_ v))
            else bind (csub b.sval a.sval) (fun v -> Ok (spos v))
  else if b.sneg
       then if Z.leb b.sval a.sval
            then bind (csub a.sval b.sval) (fun v -> Ok (spos v))
            else bind (csub b.sval a.sval) (fun v -> Ok (sneg_ v))
       else bind (cadd a.sval b.sval) (fun v -> Ok (spos v))

(** val schecked_sub : sint -> sint -> sint res **)

let schecked_sub a b =
  if a.sneg
  then if b.sneg
       then if Z.ltb b.sval a.sval
            then bind (csub a.sval b.sval) (fun v -> Ok (sneg_ v))
            else bind (csub b.sval a.sval) (fun v -> Ok (spos v))
       else bind (cadd a.sval b.sval) (fun v -> Ok (sneg_ v))
  else if b.sneg
       then bind (cadd a.sval b.sval) (fun v -> Ok (spos v))
       else if Z.leb b.sval a.sval
            then bind (csub a.sval b.sval) (fun v -> Ok (spos v))
            else bind (csub b.sval a.sval) (fun v -> Ok (sneg_ v))

(** val sign_of_product : sint -> sint -> z -> sint **)

let sign_of_product a b v =
  if eqb a.sneg b.sneg then spos v else sneg_ v

(** val schecked_mul : sint -> sint -> sint res **)

let schecked_mul a b =
  bind (cmul a.sval b.sval) (fun v -> Ok (sign_of_product a b v))

(** val schecked_div : sint -> sint -> sint res **)

let schecked_div a b =
  bind (cdiv a.sval b.sval) (fun v -> Ok (sign_of_product a b v))

(** val smul : sint -> sint -> sint res **)

let smul a b =
  bind (cmul a.sval b.sval) (fun v -> Ok (sign_of_product a b v))

(** val sdiv : sint -> sint -> sint res **)

let sdiv a b =
  bind (cdiv a.sval b.sval) (fun v -> Ok (sign_of_product a b v))

(** val sadd : sint -> sint -> sint res **)

let sadd a b =
  if a.sneg
  then if b.sneg
       then bind (cadd a.sval b.sval) (fun v -> Ok (sneg_ v))
       else if Z.leb b.sval a.sval
            then bind (csub a.sval b.sval) (fun v -> Ok (sneg_ v))
            else bind (csub b.sval a.sval) (fun v -> Ok (spos v))
  else if b.sneg
       then if Z.leb b.sval a.sval
            then bind (csub a.sval b.sval) (fun v -> Ok (spos v))
            else bind (csub b.sval a.sval) (fun v -> Ok (sneg_ v))
       else bind (cadd a.sval b.sval) (fun v -> Ok (spos v))

(** val ssub : sint -> sint -> sint res **)

let ssub a b =
  sadd a (sinvert b)

(** val scmp : sint -> sint -> comparison **)

let scmp a b =
  if (&&) (s_is_negative a) (s_is_positive b)
  then Lt
  else if (&&) (s_is_positive a) (s_is_negative b)
       then Gt
       else if s_is_positive a
            then Z.compare a.sval b.sval
            else Z.compare b.sval a.sval

(** val sltb : sint -> sint -> bool **)

let sltb a b =
  match scmp a b with
  | Lt -> true
  | _ -> false

(** val sgtb : sint -> sint -> bool **)

let sgtb a b =
  match scmp a b with
  | Gt -> true
  | _ -> false

(** val sleb : sint -> sint -> bool **)

let sleb a b =
  negb (sgtb a b)

(** val sgeb : sint -> sint -> bool **)

let sgeb a b =
  negb (sltb a b)

(** val dec_string : z -> string **)

let dec_string v =
  NilEmpty.string_of_uint (N.to_uint (Z.to_N v))

(** val s_to_string : sint -> string **)

let s_to_string a =
  if (&&) a.sneg (negb (Z.eqb a.sval Z0))
  then String ((Ascii (true, false, true, true, false, true, false, false)),
         (dec_string a.sval))
  else dec_string a.sval

(** val parse_digits : string -> z res **)

let parse_digits s = match s with
| EmptyString -> Err EDecode
| String (_, _) ->
  (match NilEmpty.uint_of_string s with
   | Some d ->
     let v = Z.of_N (N.of_uint d) in
     if Z.ltb v mAXU then Ok v else Err EDecode
   | None -> Err EDecode)

(** val parse_u128 : string -> z res **)

let parse_u128 s = match s with
| EmptyString -> parse_digits s
| String (a, rest) ->
  let Ascii (b, b0, b1, b2, b3, b4, b5, b6) = a in
  if b
  then if b0
       then if b1
            then parse_digits s
            else if b2
                 then if b3
                      then parse_digits s
                      else if b4
                           then if b5
                                then parse_digits s
                                else if b6
                                     then parse_digits s
                                     else parse_digits rest
                           else parse_digits s
                 else parse_digits s
       else parse_digits s
  else parse_digits s

(** val s_from_str : string -> sint res **)

let s_from_str s = match s with
| EmptyString -> Err EArith
| String (a, rest) ->
  let Ascii (b, b0, b1, b2, b3, b4, b5, b6) = a in
  if b
  then if b0
       then bind (parse_u128 s) (fun v -> Ok (spos v))
       else if b1
            then if b2
                 then if b3
                      then bind (parse_u128 s) (fun v -> Ok (spos v))
                      else if b4
                           then if b5
                                then bind (parse_u128 s) (fun v -> Ok
                                       (spos v))
                                else if b6
                                     then bind (parse_u128 s) (fun v -> Ok
                                            (spos v))
                                     else bind (parse_u128 rest) (fun v -> Ok
                                            (sneg_ v))
                           else bind (parse_u128 s) (fun v -> Ok (spos v))
                 else bind (parse_u128 s) (fun v -> Ok (spos v))
            else bind (parse_u128 s) (fun v -> Ok (spos v))
  else bind (parse_u128 s) (fun v -> Ok (spos v))

(** val s_store : sint -> sint **)

let s_store a =
  if Z.eqb a.sval Z0 then szero else a
