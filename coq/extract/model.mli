
val negb : bool -> bool

type nat =
| O
| S of nat

type comparison =
| Eq
| Lt
| Gt

val compOpp : comparison -> comparison

type uint =
| Nil
| D0 of uint
| D1 of uint
| D2 of uint
| D3 of uint
| D4 of uint
| D5 of uint
| D6 of uint
| D7 of uint
| D8 of uint
| D9 of uint

val revapp : uint -> uint -> uint

val rev : uint -> uint

module Little :
 sig
  val double : uint -> uint

  val succ_double : uint -> uint
 end

val eqb : bool -> bool -> bool

type positive =
| XI of positive
| XO of positive
| XH

type n =
| N0
| Npos of positive

type z =
| Z0
| Zpos of positive
| Zneg of positive

module Pos :
 sig
  val succ : positive -> positive

  val add : positive -> positive -> positive

  val add_carry : positive -> positive -> positive

  val pred_double : positive -> positive

  val mul : positive -> positive -> positive

  val iter : ('a1 -> 'a1) -> 'a1 -> positive -> 'a1

  val compare_cont : comparison -> positive -> positive -> comparison

  val compare : positive -> positive -> comparison

  val eqb : positive -> positive -> bool

  val of_succ_nat : nat -> positive

  val of_uint_acc : uint -> positive -> positive

  val of_uint : uint -> n

  val to_little_uint : positive -> uint

  val to_uint : positive -> uint
 end

module N :
 sig
  val of_uint : uint -> n

  val to_uint : n -> uint
 end

module Z :
 sig
  val double : z -> z

  val succ_double : z -> z

  val pred_double : z -> z

  val pos_sub : positive -> positive -> z

  val add : z -> z -> z

  val opp : z -> z

  val sub : z -> z -> z

  val mul : z -> z -> z

  val pow_pos : z -> positive -> z

  val pow : z -> z -> z

  val compare : z -> z -> comparison

  val leb : z -> z -> bool

  val ltb : z -> z -> bool

  val eqb : z -> z -> bool

  val to_N : z -> n

  val of_nat : nat -> z

  val of_N : n -> z

  val pos_div_eucl : positive -> z -> z * z

  val div_eucl : z -> z -> z * z

  val div : z -> z -> z

  val modulo : z -> z -> z
 end

type ascii =
| Ascii of bool * bool * bool * bool * bool * bool * bool * bool

type string =
| EmptyString
| String of ascii * string

type err =
| EGuard
| EArith
| EDecode
| ESub
| EFuel

type 'a res =
| Ok of 'a
| Err of err

val bind : 'a1 res -> ('a1 -> 'a2 res) -> 'a2 res

val mAXU : z

val cadd : z -> z -> z res

val csub : z -> z -> z res

val cmul : z -> z -> z res

val cdiv : z -> z -> z res

val uint_of_char : ascii -> uint option -> uint option

module NilEmpty :
 sig
  val string_of_uint : uint -> string

  val uint_of_string : string -> uint option
 end

type sint = { sval : z; sneg : bool }

val szero : sint

val spos : z -> sint

val sneg_ : z -> sint

val sinvert : sint -> sint

val sabs : sint -> sint

val s_is_negative : sint -> bool

val s_is_positive : sint -> bool

val s_is_zero : sint -> bool

val seqb : sint -> sint -> bool

val schecked_add : sint -> sint -> sint res

val schecked_sub : sint -> sint -> sint res

val sign_of_product : sint -> sint -> z -> sint

val schecked_mul : sint -> sint -> sint res

val schecked_div : sint -> sint -> sint res

val smul : sint -> sint -> sint res

val sdiv : sint -> sint -> sint res

val sadd : sint -> sint -> sint res

val ssub : sint -> sint -> sint res

val scmp : sint -> sint -> comparison

val sltb : sint -> sint -> bool

val sgtb : sint -> sint -> bool

val sleb : sint -> sint -> bool

val sgeb : sint -> sint -> bool

val dec_string : z -> string

val s_to_string : sint -> string

val parse_digits : string -> z res

val parse_u128 : string -> z res

val s_from_str : string -> sint res

val s_store : sint -> sint
