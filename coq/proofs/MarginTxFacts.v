(* C05 end to end: WithdrawMargin and DepositMargin transactions on the ledger and on the stored position. *)
From MP.Model Require Import Prelude U128 SInt Feed Vamm VammOps Token World Engine Runtime.
From MP.Proofs Require Import Tactics MapFacts SIntFacts EngineGuards EngineArith CloseFacts RuntimeFacts LedgerFacts FrameFacts
  ResidueFacts MirrorFacts MirrorReach MoreFacts BandFacts FlowFacts CloseTxFacts LiqTxFacts.

Lemma withdraw_margin_msgs w t v amount w1 msgs :
  e_withdraw_margin w t v amount = Ok (w1, msgs) ->
  Forall leafy msgs /\ no_pulls msgs /\ w_tok w1 = w_tok w /\ w_if w1 = w_if w.
Proof.
  unfold e_withdraw_margin. intros H. arm H.
  match goal with Hw : withdraw _ _ _ _ _ = Ok _ |- _ =>
    split; [exact (leafy_withdraw _ _ _ _ _ _ _ Hw)|split; [exact (no_pulls_withdraw _ _ _ _ _ _ _ Hw)|split; reflexivity]] end.
Qed.

Theorem withdraw_margin_tx f w t v amount funds w' :
  exec_op f w (OEngine t (EWithdrawMargin v amount) funds) = Ok w' ->
  let p := read_position (w_eng w) v t in
  pos_wf p -> cpf_wf (w_eng w) v -> 0 < e_dec (ec (w_eng w)) -> 0 <= amount ->
  t <> A_ENGINE -> t <> A_IFUND -> t <> if_engine (w_if w) ->
  bal (w_tok w') t = bal (w_tok w) t - funds + amount /\
  exists p', find_position (w_eng w') v t = Some p' /\
    p_margin p' = p_margin p - amount - funding_owed w v p /\ 0 <= p_margin p' /\
    p_size p' = p_size p /\ p_notional p' = p_notional p /\ p_lupf p' = cumulative_premium_fraction (w_eng w) v.
Proof.
  intros H p Hp Hc HD Ha Ht1 Ht2 Ht3.
  cbn [exec_op] in H. revert H. generalize FUEL. intros fuel H.
  destruct (attach_funds w t A_ENGINE funds) as [w0|] eqn:Ea; [|discriminate]. cbn [bind] in H.
  cbn [engine_execute] in H.
  destruct (e_withdraw_margin w0 t v amount) as [[w1 subs]|] eqn:Ew; [|discriminate]. cbn [bind fst snd] in H.
  destruct (dispatch fuel f w1 0 A_ENGINE subs) as [[wf nf]|] eqn:Ed; [|discriminate]. cbn [bind fst] in H. inv_ok.
  pose proof (attach_funds_core _ _ _ _ _ Ea) as [E1 E2].
  assert (E4 : w_if w0 = w_if w) by (unfold attach_funds in Ea; destruct (funds =? 0); [inv_ok; auto|]; minv Ea; inv_ok; auto).
  assert (Hbal0 : bal (w_tok w0) t = bal (w_tok w) t - funds).
  { unfold attach_funds in Ea. destruct (Z.eqb_spec funds 0) as [->|Hf]; [inv_ok; lia|]. minv Ea. inv_ok. cbn [w_tok set_tok].
    match goal with Hx : tok_move _ _ _ _ = Ok _ |- _ => rewrite (tok_move_bal _ _ _ _ _ t Hx) end.
    unfold ind. rewrite Z.eqb_refl. destruct (Z.eqb_spec t A_ENGINE); [contradiction|]. lia. }
  destruct (withdraw_margin_msgs _ _ _ _ _ _ Ew) as (Hl & Hnp & Htok & Hif).
  pose proof (withdraw_margin_spec _ _ _ _ _ _ Ew) as Hspec. cbv zeta in Hspec. rewrite E1 in Hspec. fold p in Hspec.
  specialize (Hspec Hp Hc HD Ha).
  destruct Hspec as (p' & Hf & Hm & Hm0 & Hlu & Hsz & _ & Hn & Htr & _).
  pose proof (dispatch_leafy_flow _ _ _ _ _ _ _ _ Ed Hl) as [_ Hflow].
  pose proof (dispatch_leafy_core _ _ _ _ _ _ _ _ Ed Hl) as (Ee & _).
  split.
  - rewrite (Hflow t). rewrite Hif, E4. rewrite flow_split by assumption.
    destruct (no_pulls_flow t subs Hnp) as [Hp1 Hp2]. rewrite Hp1, Hp2, Htr, Htok, Hbal0. lia.
  - exists p'. rewrite Ee. split; [exact Hf|].
    assert (Hfo : funding_owed w0 v p = funding_owed w v p) by (unfold funding_owed; rewrite E1; reflexivity).
    rewrite Hfo in Hm. repeat split; auto.
Qed.

Theorem deposit_margin_tx f w t v amount funds w' :
  exec_op f w (OEngine t (EDepositMargin v amount) funds) = Ok w' ->
  t <> A_ENGINE -> t <> A_IFUND -> t <> if_engine (w_if w) ->
  exists p, find_position (w_eng w) v t = Some p /\
    find_position (w_eng w') v t = Some (mkPos (p_dir p) (p_size p) (p_margin p + amount) (p_notional p) (p_lupf p) (p_block p)) /\
    amount <> 0 /\ bal (w_tok w') t = bal (w_tok w) t - amount.
Proof.
  intros H Ht1 Ht2 Ht3.
  cbn [exec_op] in H. revert H. generalize FUEL. intros fuel H.
  destruct (attach_funds w t A_ENGINE funds) as [w0|] eqn:Ea; [|discriminate]. cbn [bind] in H.
  cbn [engine_execute] in H.
  destruct (e_deposit_margin w0 t v amount funds) as [[w1 subs]|] eqn:Ew; [|discriminate]. cbn [bind fst snd] in H.
  destruct (dispatch fuel f w1 0 A_ENGINE subs) as [[wf nf]|] eqn:Ed; [|discriminate]. cbn [bind fst] in H. inv_ok.
  pose proof (attach_funds_core _ _ _ _ _ Ea) as [E1 E2].
  assert (E4 : w_if w0 = w_if w /\ t_native (w_tok w0) = t_native (w_tok w)).
  { unfold attach_funds in Ea. destruct (funds =? 0); [inv_ok; auto|]. minv Ea. inv_ok. cbn [w_if set_tok w_tok]. split; [reflexivity|].
    match goal with Hx : tok_move _ _ _ _ = Ok _ |- _ => apply tok_move_total in Hx; destruct Hx as [_ Hx]; rewrite Hx end. congruence. }
  destruct E4 as [E4 E5].
  assert (Hbal0 : bal (w_tok w0) t = bal (w_tok w) t - funds /\ (funds <> 0 -> t_native (w_tok w) = true)).
  { unfold attach_funds in Ea. destruct (Z.eqb_spec funds 0) as [->|Hf]; [inv_ok; split; [lia|intros Hc; contradiction]|]. minv Ea. inv_ok. cbn [w_tok set_tok].
    match goal with Hx : tok_move _ _ _ _ = Ok _ |- _ => rewrite (tok_move_bal _ _ _ _ _ t Hx) end.
    unfold ind. rewrite Z.eqb_refl. destruct (Z.eqb_spec t A_ENGINE); [contradiction|]. split; [lia|intros _; first [assumption|reflexivity]]. }
  destruct Hbal0 as [Hbal0 Hnat].
  pose proof (deposit_margin_spec _ _ _ _ _ _ _ Ew) as (p & Hf0 & Hf1 & Hnz & _ & Hmsgs).
  assert (Hcore : w_tok w1 = w_tok w0 /\ w_if w1 = w_if w0) by (unfold e_deposit_margin in Ew; arm Ew; split; reflexivity).
  destruct Hcore as [Htok Hif].
  exists p. rewrite E1 in Hf0. split; [exact Hf0|].
  rewrite E5 in Hmsgs. destruct (t_native (w_tok w)) eqn:En.
  - (* native: the attached funds are the amount; no message *)
    destruct Hmsgs as [Hfa ->]. destruct fuel as [|k]; [discriminate|]. cbn [dispatch] in Ed. inv_ok.
    split; [exact Hf1|]. split; [exact Hnz|]. rewrite Htok, Hbal0. lia.
  - (* cw20: nothing may be attached; the amount is pulled from the wallet *)
    assert (funds = 0) by (destruct (Z.eqb_spec funds 0); [assumption|]; specialize (Hnat n); discriminate). subst funds.
    subst subs.
    assert (Hl : Forall leafy [execute_transfer_from w0 t A_ENGINE amount]) by (constructor; [apply noreply_leafy_transfer_from|constructor]).
    pose proof (dispatch_leafy_flow _ _ _ _ _ _ _ _ Ed Hl) as [_ Hflow].
    pose proof (dispatch_leafy_core _ _ _ _ _ _ _ _ Ed Hl) as (Ee & _).
    rewrite Ee. split; [exact Hf1|]. split; [exact Hnz|].
    rewrite (Hflow t). unfold execute_transfer_from. rewrite E5. try rewrite En. cbn [flow sm_msg]. unfold ind. rewrite Z.eqb_refl.
    destruct (Z.eqb_spec t A_ENGINE); [contradiction|]. rewrite Htok, Hbal0. lia.
Qed.
