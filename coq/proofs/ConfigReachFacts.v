(* C20, over histories: in every state reachable by any sequence of operations from a state that satisfies them, every
   engine ratio is in [0,1] with maintenance <= initial, every vAMM ratio is in [0,1] and its TWAP interval between a
   minute and a week, and every registered vAMM has the engine's decimals. *)
From MP.Model Require Import Prelude U128 SInt Feed Vamm VammOps Token World Engine Runtime.
From MP.Proofs Require Import Tactics MapFacts ConfigFacts RuntimeFacts FrameFacts ResidueFacts VammFacts MirrorFacts MirrorReach
  PartiesFacts FeeFlowFacts RegistryFacts.

Definition vamms_ok (w : world) : Prop := forall v vm, zfind v (w_vamms w) = Some vm -> vcfg_ok (vc vm).
Definition reg_dec (w : world) : Prop :=
  forall v, In v (if_vamms (w_if w)) -> exists vm, zfind v (w_vamms w) = Some vm /\ v_dec (vc vm) = e_dec (ec (w_eng w)).
Definition c20_inv (w : world) : Prop := ecfg_ok (ec (w_eng w)) /\ vamms_ok w /\ reg_dec w.

(* w' has the same engine configuration, registry and vAMM configurations as w *)
Definition cfg_same (w w' : world) : Prop :=
  ec (w_eng w') = ec (w_eng w) /\ w_if w' = w_if w /\
  (forall v vm', zfind v (w_vamms w') = Some vm' -> exists vm, zfind v (w_vamms w) = Some vm /\ vc vm' = vc vm) /\
  (forall v vm, zfind v (w_vamms w) = Some vm -> exists vm', zfind v (w_vamms w') = Some vm' /\ vc vm' = vc vm).

Lemma cfg_same_refl w : cfg_same w w.
Proof. repeat split; eauto. Qed.

Lemma cfg_same_trans a b c : cfg_same a b -> cfg_same b c -> cfg_same a c.
Proof.
  intros (A1 & A2 & A3 & A4) (B1 & B2 & B3 & B4). split; [congruence|]. split; [congruence|]. split.
  - intros v vm' H. destruct (B3 _ _ H) as (vm1 & H1 & E1). destruct (A3 _ _ H1) as (vm0 & H0 & E0). exists vm0. split; [exact H0|congruence].
  - intros v vm H. destruct (A4 _ _ H) as (vm1 & H1 & E1). destruct (B4 _ _ H1) as (vm2 & H2 & E2). exists vm2. split; [exact H2|congruence].
Qed.

Lemma cfg_same_eq_vamms w w' : ec (w_eng w') = ec (w_eng w) -> w_if w' = w_if w -> w_vamms w' = w_vamms w -> cfg_same w w'.
Proof. intros E1 E2 E3. split; [exact E1|]. split; [exact E2|]. rewrite E3. split; eauto. Qed.

Lemma cfg_same_set_vamm w v vm vm' : zfind v (w_vamms w) = Some vm -> vc vm' = vc vm -> cfg_same w (set_vamm w v vm').
Proof.
  intros Hz Hc. split; [reflexivity|]. split; [reflexivity|]. cbn [w_vamms set_vamm]. split.
  - intros u um H. destruct (Z.eq_dec u v) as [->|Hne].
    + rewrite zfind_zset_same in H. injection H as <-. eauto.
    + rewrite zfind_zset_other in H by exact Hne. eauto.
  - intros u um H. destruct (Z.eq_dec u v) as [->|Hne].
    + rewrite zfind_zset_same. rewrite Hz in H. injection H as <-. eauto.
    + rewrite zfind_zset_other by exact Hne. eauto.
Qed.

Lemma c20_inv_same w w' : cfg_same w w' -> c20_inv w -> c20_inv w'.
Proof.
  intros (E1 & E2 & E3 & E4) (H1 & H2 & H3). split; [rewrite E1; exact H1|]. split.
  - intros v vm' H. destruct (E3 _ _ H) as (vm & Hz & Ec). rewrite Ec. exact (H2 _ _ Hz).
  - intros v Hin. rewrite E2 in Hin. destruct (H3 v Hin) as (vm & Hz & Hd). destruct (E4 _ _ Hz) as (vm' & Hz' & Ec).
    exists vm'. split; [exact Hz'|]. rewrite Ec, E1. exact Hd.
Qed.

Lemma exec_simple_cfg_same w s m w' ev : exec_simple w s m = Ok (w', ev) -> cfg_same w w'.
Proof.
  unfold exec_simple, get_vamm. intros H. destruct m.
  - destruct (zfind v (w_vamms w)) as [vm|] eqn:Ez; [|discriminate]. cbn [bind] in H. inv_bind H. inv_ok.
    eapply cfg_same_set_vamm; [exact Ez|]. exact (swap_input_vc _ _ _ _ _ _ _ _ Hx).
  - destruct (zfind v (w_vamms w)) as [vm|] eqn:Ez; [|discriminate]. cbn [bind] in H. inv_bind H. inv_ok.
    eapply cfg_same_set_vamm; [exact Ez|]. exact (swap_output_vc _ _ _ _ _ _ _ Hx).
  - destruct (zfind v (w_vamms w)) as [vm|] eqn:Ez; [|discriminate]. cbn [bind] in H. inv_bind H. inv_ok.
    destruct x as [vm' pf]. apply settle_funding_frame in Hx. destruct Hx as (Hc & _).
    eapply cfg_same_set_vamm; [exact Ez|exact Hc].
  - destruct (zfind v (w_vamms w)) as [vm|] eqn:Ez; [|discriminate]. cbn [bind] in H. inv_bind H. inv_ok.
    apply set_open_frame in Hx. destruct Hx as (Hc & _). eapply cfg_same_set_vamm; [exact Ez|exact Hc].
  - minv H; inv_ok. apply cfg_same_eq_vamms; reflexivity.
  - minv H; inv_ok. apply cfg_same_eq_vamms; reflexivity.
  - discriminate.
Qed.

Lemma dispatch_cfg_same fuel f w n sender subs w' n' :
  dispatch fuel f w n sender subs = Ok (w', n') -> cfg_same w w'.
Proof.
  intros H. apply (dispatch_inv (cfg_same w)) with (4 := H); [| | |apply cfg_same_refl].
  - intros w0 s0 m w1 ev Hx Hq. eapply cfg_same_trans; [exact Hq|exact (exec_simple_cfg_same _ _ _ _ _ Hx)].
  - intros w0 s0 amt w1 sb Hx Hq. unfold if_withdraw in Hx. minv Hx. inv_ok. exact Hq.
  - intros w0 s0 id r w1 sb Hx Hq. eapply cfg_same_trans; [exact Hq|].
    destruct (contract_reply_cfg _ _ _ _ _ _ Hx) as [E1 E2]. apply cfg_same_eq_vamms; [exact E1|exact (contract_reply_if _ _ _ _ _ _ Hx)|exact E2].
Qed.

(* operations as they can be sent: configuration values are unsigned *)
Definition op_unsigned (o : op) : Prop :=
  match o with
  | OEngine _ (EUpdateConfig _ _ _ a b c d) _ => opt_nonneg a /\ opt_nonneg b /\ opt_nonneg c /\ opt_nonneg d
  | OVamm _ _ (WUpdateConfig u) => opt_nonneg (u_toll u) /\ opt_nonneg (u_spread u) /\ opt_nonneg (u_fluct u)
  | _ => True
  end.

Lemma engine_execute_c20 w s m funds w1 subs :
  engine_execute w s m funds = Ok (w1, subs) ->
  match m with EUpdateConfig _ _ _ a b c d => opt_nonneg a /\ opt_nonneg b /\ opt_nonneg c /\ opt_nonneg d | _ => True end ->
  c20_inv w -> c20_inv w1.
Proof.
  intros H Hok Hc. destruct m.
  1: { cbn [engine_execute] in H. destruct Hok as (Ha & Hb & Hcc & Hd). destruct Hc as (H1 & H2 & H3).
       pose proof (e_update_config_cfg _ _ _ _ _ _ _ _ _ _ _ Ha Hb Hcc Hd H H1) as (Hk & Hdec & _ & Hv & Hi).
       split; [exact Hk|]. split; [unfold vamms_ok; rewrite Hv; exact H2|].
       intros v Hin. rewrite Hi in Hin. destruct (H3 v Hin) as (vm & Hz & Hd'). exists vm.
       split; [rewrite Hv; exact Hz|rewrite Hdec; exact Hd']. }
  all: apply (c20_inv_same w); [|exact Hc]; apply cfg_same_eq_vamms; [ | exact (engine_execute_if _ _ _ _ _ _ H) | ].
  all: cbn [engine_execute] in H.
  all: unfold e_update_pauser, e_add_whitelist, e_remove_whitelist, e_open_position, e_close_position, e_liquidate, partial_liquidation,
         internal_close_position, e_pay_funding, e_deposit_margin, e_withdraw_margin, e_set_pause in H.
  all: arm H; reflexivity.
Qed.

Lemma vamms_ok_set w v vm vm' : zfind v (w_vamms w) = Some vm -> vcfg_ok (vc vm') -> vamms_ok w -> vamms_ok (set_vamm w v vm').
Proof.
  intros Hz Hc Hv u um H. cbn [w_vamms set_vamm] in H. destruct (Z.eq_dec u v) as [->|Hne].
  - rewrite zfind_zset_same in H. injection H as <-. exact Hc.
  - rewrite zfind_zset_other in H by exact Hne. exact (Hv _ _ H).
Qed.

Lemma exec_op_c20 f w o w' : exec_op f w o = Ok w' -> op_unsigned o -> c20_inv w -> c20_inv w'.
Proof.
  intros H Hok Hc. destruct o; cbn [exec_op] in H; revert H; generalize FUEL; intros fuel H.
  - inv_ok. exact Hc.
  - inv_bind H. inv_bind H. inv_bind H. inv_ok. destruct x0 as [w1 subs], x1 as [w2 n2]. cbn [fst snd] in *.
    assert (Hcx : c20_inv x).
    { unfold attach_funds in Hx. destruct (funds =? 0); [inv_ok; exact Hc|]. minv Hx. inv_ok. exact Hc. }
    apply (c20_inv_same w1); [exact (dispatch_cfg_same _ _ _ _ _ _ _ _ Hx1)|].
    eapply engine_execute_c20; [exact Hx0| |exact Hcx]. destruct m; try exact Logic.I. exact Hok.
  - unfold get_vamm in H. destruct (zfind v (w_vamms w)) as [vm|] eqn:Ez; [|discriminate]. cbn [bind] in H.
    destruct o; inv_bind H; inv_ok.
    + inv_bind Hx. inv_ok. apply (c20_inv_same w); [|exact Hc]. eapply cfg_same_set_vamm; [exact Ez|exact (swap_input_vc _ _ _ _ _ _ _ _ Hx0)].
    + inv_bind Hx. inv_ok. apply (c20_inv_same w); [|exact Hc]. eapply cfg_same_set_vamm; [exact Ez|exact (swap_output_vc _ _ _ _ _ _ _ Hx0)].
    + inv_bind Hx. inv_ok. destruct x0 as [vm' pf]. apply settle_funding_frame in Hx0. destruct Hx0 as (Hcc & _).
      apply (c20_inv_same w); [|exact Hc]. eapply cfg_same_set_vamm; [exact Ez|exact Hcc].
    + apply set_open_frame in Hx. destruct Hx as (Hcc & _). apply (c20_inv_same w); [|exact Hc]. eapply cfg_same_set_vamm; [exact Ez|exact Hcc].
    + (* vAMM UpdateConfig: validated; decimals immutable *)
      destruct Hok as (Ht & Hs & Hfl). destruct Hc as (H1 & H2 & H3).
      destruct (vamm_update_config_cfg _ _ _ _ Ht Hs Hfl Hx (H2 _ _ Ez)) as (Hk & Hdec & _ & _).
      split; [exact H1|]. split; [eapply vamms_ok_set; eauto|].
      intros a0 Hin. cbn [w_if set_vamm] in Hin. destruct (H3 a0 Hin) as (um & Hz & Hd). cbn [w_vamms set_vamm w_eng].
      destruct (Z.eq_dec a0 v) as [->|Hne].
      * rewrite zfind_zset_same. exists x. split; [reflexivity|]. rewrite Ez in Hz. injection Hz as <-. rewrite Hdec. exact Hd.
      * rewrite zfind_zset_other by exact Hne. eauto.
    + apply update_owner_frame in Hx. destruct Hx as (_ & _ & Hcc & _). apply (c20_inv_same w); [|exact Hc]. eapply cfg_same_set_vamm; [exact Ez|exact Hcc].
  - inv_bind H. inv_bind H. inv_ok. destruct x as [w1 subs], x0 as [w2 n2]. cbn [fst snd] in *.
    apply (c20_inv_same w1); [exact (dispatch_cfg_same _ _ _ _ _ _ _ _ Hx0)|].
    destruct Hc as (H1 & H2 & H3).
    destruct m.
    + unfold if_update_owner in Hx. minv Hx. inv_ok. split; [exact H1|split; [exact H2|exact H3]].
    + (* AddVamm: only with the engine's decimals *)
      destruct (if_add_vamm_decimals _ _ _ _ _ Hx) as (vm & Hg & Hd & Hl & _).
      assert (Hsame : w_eng w1 = w_eng w /\ w_vamms w1 = w_vamms w) by (unfold if_add_vamm in Hx; minv Hx; inv_ok; split; reflexivity).
      destruct Hsame as [E1 E2]. split; [rewrite E1; exact H1|]. split; [unfold vamms_ok; rewrite E2; exact H2|].
      intros u Hin. rewrite Hl in Hin. rewrite E1, E2. apply in_app_or in Hin. destruct Hin as [Hin|[<-|[]]]; [exact (H3 u Hin)|].
      unfold get_vamm in Hg. destruct (zfind v (w_vamms w)) as [vm0|] eqn:Ez; [|discriminate]. injection Hg as ->. eauto.
    + unfold if_remove_vamm in Hx. minv Hx. inv_ok. split; [exact H1|]. split; [exact H2|].
      intros u Hin. cbn [w_if set_if if_vamms] in Hin. apply swap_remove_In in Hin. exact (H3 u Hin).
    + unfold if_withdraw in Hx. minv Hx. inv_ok. split; [exact H1|split; [exact H2|exact H3]].
    + unfold if_shutdown in Hx. minv Hx. inv_ok. split; [exact H1|split; [exact H2|exact H3]].
  - inv_bind H. inv_bind H. inv_ok. destruct x as [w1 subs], x0 as [w2 n2]. cbn [fst snd] in *.
    apply (c20_inv_same w1); [exact (dispatch_cfg_same _ _ _ _ _ _ _ _ Hx0)|].
    destruct m; [unfold fp_update_owner in Hx|unfold fp_add_token in Hx|unfold fp_remove_token in Hx|unfold fp_send_token in Hx];
    minv Hx; inv_ok; exact Hc.
  - destruct m; minv H; inv_ok; exact Hc.
  - minv H; inv_ok; exact Hc.
Qed.

Lemma step_c20 f w o : op_unsigned o -> c20_inv w -> c20_inv (fst (step_f f w o)).
Proof. intros Hok Hc. unfold step_f. destruct (exec_op f w o) eqn:E; cbn [fst]; [eapply exec_op_c20; eauto|exact Hc]. Qed.

Theorem run_c20 ops : forall w, Forall op_unsigned ops -> c20_inv w -> c20_inv (run w ops).
Proof.
  induction ops as [|o rest IH]; intros w Hf Hc; [exact Hc|]. inversion Hf; subst. cbn [run fold_left]. apply IH; [assumption|]. apply step_c20; assumption.
Qed.

Lemma c20_initial w : ecfg_ok (ec (w_eng w)) -> vamms_ok w -> if_vamms (w_if w) = [] -> c20_inv w.
Proof. intros H1 H2 H3. split; [exact H1|]. split; [exact H2|]. intros v Hin. rewrite H3 in Hin. destruct Hin. Qed.
