(* C11 end to end: what a PayFunding transaction does to the cumulative premium fraction, the vault and the
   insurance fund. *)
From MP.Model Require Import Prelude U128 SInt Feed Vamm VammOps Token World Engine Runtime.
From MP.Proofs Require Import Tactics MapFacts SIntFacts VammFacts SwapFacts EngineGuards EngineArith CloseFacts RuntimeFacts
  LedgerFacts FrameFacts ResidueFacts MirrorFacts MirrorReach MoreFacts BandFacts FlowFacts.

Lemma pay_funding_reply_leafy' w pf a w' subs : pay_funding_reply w pf a = Ok (w', subs) -> Forall leafy subs.
Proof. exact (pay_funding_reply_leafy w pf a w' subs). Qed.

(* the premium fraction the vAMM reports is a well-formed signed value when both TWAPs are non-negative *)
Lemma settle_funding_pf_wf v e s o v' pf :
  settle_funding v e s o = Ok (v', pf) ->
  (forall x, o_twap o (v_twap_interval (vc v)) = Ok x -> 0 <= x) ->
  (forall x, q_twap_price v e (v_twap_interval (vc v)) = Ok x -> 0 <= x) ->
  0 <= v_fperiod (vc v) -> wf0 pf.
Proof.
  intros H Ho Hq Hp. apply settle_funding_spec in H.
  destruct H as (_ & _ & _ & underlying & index & premium & p1 & Hu & Hi & Hs & Hm & Hd & _).
  apply schecked_sub_toZ0 in Hs; [|apply spos_wf0; apply Hq; exact Hi|apply spos_wf0; apply Ho; exact Hu].
  destruct Hs as (_ & Wp & _).
  rewrite schecked_mul_eq in Hm. apply smul_toZ0 in Hm; [|exact Wp|apply spos_wf0; exact Hp]. destruct Hm as (_ & W1 & _).
  rewrite schecked_div_eq in Hd. apply sdiv_toZ0 in Hd; [|exact W1|apply spos_wf0; unfold ONE_DAY; lia]. apply Hd.
Qed.

Theorem pay_funding_tx f w s v w' vm :
  exec_op f w (OEngine s (EPayFunding v) 0) = Ok w' ->
  get_vamm w v = Ok vm -> wf0 (v_total (vs vm)) -> cpf_wf (w_eng w) v -> 0 < e_dec (ec (w_eng w)) ->
  (forall x, o_twap (oracle_of w vm) (v_twap_interval (vc vm)) = Ok x -> 0 <= x) ->
  (forall x, q_twap_price vm (w_env w) (v_twap_interval (vc vm)) = Ok x -> 0 <= x) ->
  0 <= v_fperiod (vc vm) ->
  if_engine (w_if w) = A_ENGINE -> e_ifund (ec (w_eng w)) = A_IFUND ->
  exists vm' pf, settle_funding vm (w_env w) A_ENGINE (oracle_of w vm) = Ok (vm', pf) /\
    toZ (cumulative_premium_fraction (w_eng w') v) = toZ (cumulative_premium_fraction (w_eng w) v) + toZ pf /\
    let payment := Z.quot (toZ (v_total (vs vm)) * toZ pf) (e_dec (ec (w_eng w))) in
    let moved := if payment <? 0 then payment else if 0 <? payment then Z.min (bal (w_tok w) A_ENGINE) payment else 0 in
    (* moved > 0: vault -> insurance fund (capped by the vault); moved < 0: insurance fund -> vault *)
    bal (w_tok w') A_ENGINE = bal (w_tok w) A_ENGINE - moved /\
    bal (w_tok w') A_IFUND = bal (w_tok w) A_IFUND + moved /\
    forall a, a <> A_ENGINE -> a <> A_IFUND -> bal (w_tok w') a = bal (w_tok w) a.
Proof.
  intros H Hvm Hwt Hc HD Ho Hq Hp Hie Hif.
  cbn [exec_op] in H. revert H. generalize FUEL. intros fuel H.
  unfold attach_funds in H. cbn [Z.eqb bind] in H. cbn [engine_execute] in H.
  destruct (e_pay_funding w v) as [[w1 subs]|] eqn:Ep; [|discriminate]. cbn [bind fst snd] in H.
  destruct (dispatch fuel f w1 0 A_ENGINE subs) as [[wf nf]|] eqn:Ed; [|discriminate]. cbn [bind fst] in H. inv_ok.
  unfold e_pay_funding in Ep. destruct (require_vamm w v); [|discriminate]. cbn [bind] in Ep. inv_ok.
  apply dispatch_single in Ed; [|reflexivity|reflexivity].
  destruct Ed as (k & wa & ev & wb & sb & _ & Ex & Er & n1 & Ed).
  cbn [sm_msg sm_id] in Ex, Er.
  cbn [exec_simple] in Ex. rewrite Hvm in Ex. cbn [bind] in Ex.
  destruct (settle_funding vm (w_env w1) A_ENGINE (oracle_of w1 vm)) as [[vm' pf]|] eqn:Es; [|discriminate]. cbn [bind fst snd] in Ex. inv_ok.
  unfold contract_reply, engine_reply in Er. rewrite Z.eqb_refl in Er.
  change (PAY_FUNDING_ID =? PAY_FUNDING_ID) with true in Er. cbn iota in Er.
  pose proof (settle_funding_pf_wf _ _ _ _ _ _ Es Ho Hq Hp) as Wpf.
  pose proof (settle_funding_frame _ _ _ _ _ _ Es) as (_ & _ & _ & Htot & _).
  set (wsw := set_vamm w1 v vm') in *.
  pose proof (pay_funding_reply_leafy _ _ _ _ _ Er) as Hl.
  pose proof (pay_funding_reply_spec wsw pf v wb sb Er Wpf) as Hspec.
  assert (Hcw : cpf_wf (w_eng wsw) v) by exact Hc.
  assert (Hvt : forall v0, get_vamm wsw v = Ok v0 -> wf0 (v_total (vs v0))).
  { intros v0 Hg. unfold get_vamm in Hg. cbn [wsw w_vamms set_vamm] in Hg. rewrite zfind_zset_same in Hg. inv_ok. rewrite Htot. exact Hwt. }
  specialize (Hspec Hcw HD Hvt).
  destruct Hspec as (Hcpf & _ & (v0 & Hv0 & Hmsgs) & Htok & _ & Hifs & _).
  assert (v0 = vm') by (unfold get_vamm in Hv0; cbn [wsw w_vamms set_vamm] in Hv0; rewrite zfind_zset_same in Hv0; congruence). subst v0.
  pose proof (dispatch_leafy_flow _ _ _ _ _ _ _ _ Ed Hl) as [_ Hflow].
  pose proof (dispatch_leafy_core _ _ _ _ _ _ _ _ Ed Hl) as (Ee & _).
  exists vm', pf. split; [first [exact Es|reflexivity]|]. split; [rewrite Ee; exact Hcpf|]. cbv zeta.
  rewrite Htot in Hmsgs. cbn [wsw w_eng set_vamm] in Hmsgs.
  set (payment := Z.quot (toZ (v_total (vs vm)) * toZ pf) (e_dec (ec (w_eng w1)))) in *.
  assert (Hbalw : forall x, bal (w_tok wb) x = bal (w_tok w1) x) by (intros x; rewrite Htok; reflexivity).
  assert (Hfl : forall x, flow A_ENGINE (if_engine (w_if wb)) x sb =
                 (if payment <? 0 then ind (x =? A_ENGINE) (- payment) - ind (x =? A_IFUND) (- payment)
                  else if 0 <? payment then ind (x =? A_IFUND) (Z.min (bal (w_tok w1) A_ENGINE) payment) - ind (x =? A_ENGINE) (Z.min (bal (w_tok w1) A_ENGINE) payment)
                  else 0)).
  { intros x. rewrite Hmsgs. unfold funding_msgs. rewrite Hifs. cbn [wsw w_if set_vamm]. rewrite Hie.
    destruct (payment <? 0); [cbn [flow sm_msg execute_insurance_fund_withdrawal]; lia|].
    destruct (0 <? payment); [|reflexivity].
    cbn [flow sm_msg execute_transfer]. cbn [wsw w_eng set_vamm]. rewrite Hif. unfold engine_balance. cbn [wsw w_tok set_vamm]. lia. }
  split; [|split].
  - rewrite (Hflow A_ENGINE), Hbalw, Hfl. unfold ind. cbn [Z.eqb Pos.eqb A_ENGINE A_IFUND].
    change (A_ENGINE =? A_ENGINE) with true. change (A_ENGINE =? A_IFUND) with false.
    destruct (payment <? 0); [lia|]. destruct (0 <? payment); lia.
  - rewrite (Hflow A_IFUND), Hbalw, Hfl. unfold ind.
    change (A_IFUND =? A_ENGINE) with false. change (A_IFUND =? A_IFUND) with true.
    destruct (payment <? 0); [lia|]. destruct (0 <? payment); lia.
  - intros x Ha1 Ha2. rewrite (Hflow x), Hbalw, Hfl. unfold ind.
    destruct (Z.eqb_spec x A_ENGINE); [contradiction|]. destruct (Z.eqb_spec x A_IFUND); [contradiction|].
    destruct (payment <? 0); [lia|]. destruct (0 <? payment); lia.
Qed.

(* ---------- a settlement accrues on every position exactly once ---------- *)
(* the numerator of the funding a position owes (funding_owed = this, divided by D, truncated) *)
Definition funding_num (w : world) (v : addr) (p : position) : Z :=
  (toZ (cumulative_premium_fraction (w_eng w) v) - toZ (p_lupf p)) * toZ (p_size p).

Lemma funding_owed_num w v p : funding_owed w v p = Z.quot (funding_num w v p) (e_dec (ec (w_eng w))).
Proof. reflexivity. Qed.

Theorem pay_funding_tx_accrues f w s v w' vm :
  exec_op f w (OEngine s (EPayFunding v) 0) = Ok w' ->
  get_vamm w v = Ok vm -> wf0 (v_total (vs vm)) -> cpf_wf (w_eng w) v -> 0 < e_dec (ec (w_eng w)) ->
  (forall x, o_twap (oracle_of w vm) (v_twap_interval (vc vm)) = Ok x -> 0 <= x) ->
  (forall x, q_twap_price vm (w_env w) (v_twap_interval (vc vm)) = Ok x -> 0 <= x) ->
  0 <= v_fperiod (vc vm) ->
  if_engine (w_if w) = A_ENGINE -> e_ifund (ec (w_eng w)) = A_IFUND -> e_tmp (w_eng w) = None ->
  exists vm' pf, settle_funding vm (w_env w) A_ENGINE (oracle_of w vm) = Ok (vm', pf) /\
    (* no stored position is written: none is charged by the settlement itself *)
    (forall u t, find_position (w_eng w') u t = find_position (w_eng w) u t) /\
    (* and every position on this vAMM now owes pf x size more (before the division by D) *)
    (forall p, funding_num w' v p = funding_num w v p + toZ pf * toZ (p_size p)).
Proof.
  intros H Hv Hwt Hc HD H1 H2 H3 H4 H5 Htmp.
  destruct (pay_funding_tx _ _ _ _ _ _ H Hv Hwt Hc HD H1 H2 H3 H4 H5) as (vm' & pf & Hs & Hcpf & _).
  exists vm', pf. split; [exact Hs|]. split.
  - intros u t. apply (exec_engine_frame _ _ _ _ _ _ u t H); [exact Logic.I|exact Htmp].
  - intros p. unfold funding_num. rewrite Hcpf. ring.
Qed.
