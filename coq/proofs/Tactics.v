(* Shared proof tactics. *)
From Coq Require Export ZArith List Bool Lia.
From MP.Model Require Import Prelude U128.
Open Scope Z_scope.

(* turn boolean comparison hypotheses/goals into Props *)
Ltac zb :=
  repeat match goal with
  | H : (_ <? _) = true |- _ => apply Z.ltb_lt in H
  | H : (_ <? _) = false |- _ => apply Z.ltb_ge in H
  | H : (_ <=? _) = true |- _ => apply Z.leb_le in H
  | H : (_ <=? _) = false |- _ => apply Z.leb_gt in H
  | H : (_ =? _) = true |- _ => apply Z.eqb_eq in H
  | H : (_ =? _) = false |- _ => apply Z.eqb_neq in H
  | H : (_ && _) = true |- _ => apply andb_true_iff in H; destruct H
  | H : negb _ = true |- _ => apply negb_true_iff in H
  | H : negb _ = false |- _ => apply negb_false_iff in H
  end.

(* case split on the first `if` / boolean match scrutinee in goal *)
Ltac destr_if :=
  match goal with
  | |- context [if ?b then _ else _] => destruct b eqn:?
  end.
Ltac destr_if_in H :=
  match type of H with
  | context [if ?b then _ else _] => destruct b eqn:?
  end.

(* invert `bind r f = Ok x` *)
Lemma bind_ok {A B} (r : res A) (f : A -> res B) (y : B) :
  bind r f = Ok y -> exists x, r = Ok x /\ f x = Ok y.
Proof. destruct r; simpl; intros H; [eauto | discriminate]. Qed.

Ltac inv_bind H :=
  let x := fresh "x" in let Hx := fresh "Hx" in
  apply bind_ok in H; destruct H as (x & Hx & H).

Ltac inv_ok :=
  repeat match goal with
  | H : Ok _ = Ok _ |- _ => injection H as H; subst
  | H : Err _ = Ok _ |- _ => discriminate H
  | H : Ok _ = Err _ |- _ => discriminate H
  end.

Lemma cadd_ok a b r : cadd a b = Ok r -> r = a + b /\ a + b < MAXU.
Proof. unfold cadd; destruct (a + b <? MAXU) eqn:E; intros H; inv_ok; zb; auto. Qed.
Lemma csub_ok a b r : csub a b = Ok r -> r = a - b /\ b <= a.
Proof. unfold csub; destruct (b <=? a) eqn:E; intros H; inv_ok; zb; auto. Qed.
Lemma cmul_ok a b r : cmul a b = Ok r -> r = a * b /\ a * b < MAXU.
Proof. unfold cmul; destruct (a * b <? MAXU) eqn:E; intros H; inv_ok; zb; auto. Qed.
Lemma cdiv_ok a b r : cdiv a b = Ok r -> r = a / b /\ b <> 0.
Proof. unfold cdiv; destruct (b =? 0) eqn:E; intros H; inv_ok; zb; auto. Qed.

Ltac arith_ok :=
  repeat match goal with
  | H : cadd _ _ = Ok _ |- _ => apply cadd_ok in H; destruct H
  | H : csub _ _ = Ok _ |- _ => apply csub_ok in H; destruct H
  | H : cmul _ _ = Ok _ |- _ => apply cmul_ok in H; destruct H
  | H : cdiv _ _ = Ok _ |- _ => apply cdiv_ok in H; destruct H
  end.

Lemma MAXU_pos : 0 < MAXU. Proof. reflexivity. Qed.
Global Opaque MAXU.

(* monadic inversion of `H : <handler body> = Ok _`: splits binds, checks and pattern lets *)
Ltac minv1 H :=
  match type of H with
  | Err _ = Ok _ => discriminate H
  | bind ?r _ = Ok _ =>
      let x := fresh "x" in let Hx := fresh "Hx" in
      destruct r as [x|] eqn:Hx; [cbn [bind] in H | discriminate H]
  | (if ?b then _ else _) = Ok _ =>
      let Hb := fresh "Hb" in destruct b eqn:Hb; [|try discriminate H]
  | (let '(_, _) := ?p in _) = Ok _ => destruct p
  | match ?x with _ => _ end = Ok _ => destruct x eqn:?; try discriminate H
  end.
Ltac minv H := cbv beta zeta iota in H; repeat (minv1 H; cbv beta zeta iota in H).

(* invert every monadic hypothesis in the context *)
Ltac minv_all :=
  repeat match goal with
  | H : ?a = ?a |- _ => clear H
  | H : Err _ = Ok _ |- _ => discriminate H
  | H : Ok _ = Err _ |- _ => discriminate H
  | H : bind _ _ = Ok _ |- _ => minv1 H; cbv beta zeta in H
  | H : (if _ then _ else _) = Ok _ |- _ => minv1 H; cbv beta zeta in H
  | H : (let '(_, _) := _ in _) = Ok _ |- _ => minv1 H; cbv beta zeta in H
  | H : Ok ?a = Ok ?b |- _ => first [ is_var b; injection H as H; subst b
                                   | is_var a; injection H as H; subst a
                                   | injection H as H ]
  end.
