(* Liquidation: only of under-margined positions (C06); liveness facts and refutations (C07). *)
From MP.Model Require Import Prelude U128 SInt Feed Vamm VammOps Token World Engine Runtime.
From MP.Proofs Require Import Tactics MapFacts SIntFacts EngineArith CloseFacts RuntimeFacts FrameFacts.

(* the margin ratio as defined for liquidation: the spot/TWAP ratio, replaced by the
   oracle-priced ratio when the vAMM price is >= 10% away from the oracle and that ratio is higher *)
Definition liq_ratio (w : world) (v t : addr) : res sint :=
  do mr0 <- query_margin_ratio w v t;
  do vm <- get_vamm w v;
  do over <- q_is_over_spread_limit vm (oracle_of w vm);
  if over then
    do omr <- margin_ratio_calc_option w v t POracle;
    do d <- schecked_sub omr mr0;
    Ok (if sgtb d szero then omr else mr0)
  else Ok mr0.

Definition with_liquidator (w : world) (s : addr) : world := set_eng w (eng_set_liq (w_eng w) (Some s)).

(* queries do not read the liquidator record *)
Lemma liquidate_only_if w s v t lim r :
  e_liquidate w s v t lim = Ok r ->
  exists mr, liq_ratio (with_liquidator w s) v t = Ok mr /\
             sgtb mr (spos (e_maint (ec (w_eng w)))) = false /\
             sval (p_size (read_position (w_eng w) v t)) <> 0 /\
             require_vamm (with_liquidator w s) v = Ok tt.
Proof.
  unfold e_liquidate, liq_ratio, with_liquidator. intros H.
  destruct (query_margin_ratio _ v t) as [mr0|] eqn:E0; [|discriminate]. cbn [bind] in H |- *.
  destruct (get_vamm _ v) as [vm|] eqn:E1; [|discriminate]. cbn [bind] in H |- *.
  destruct (q_is_over_spread_limit vm _) as [over|] eqn:E2; [|discriminate]. cbn [bind] in H |- *.
  destruct over.
  - destruct (margin_ratio_calc_option _ v t POracle) as [omr|] eqn:E3; [|discriminate]. cbn [bind] in H |- *.
    destruct (schecked_sub omr mr0) as [d|] eqn:E4; [|discriminate]. cbn [bind] in H |- *.
    destruct (require_vamm _ v) as [[]|] eqn:E5; cbn [bind] in H; [|discriminate].
    unfold require_insufficient_margin in H.
    destruct (sgtb (if sgtb d szero then omr else mr0) (spos (e_maint (ec (w_eng w))))) eqn:E6; cbn [negb bind] in H; [discriminate|].
    change (read_position (w_eng (set_eng w (eng_set_liq (w_eng w) (Some s)))) v t) with (read_position (w_eng w) v t) in H.
    destruct (Z.eqb_spec (sval (p_size (read_position (w_eng w) v t))) 0) as [E7|E7]; [discriminate|].
    eexists. repeat split; eauto.
  - destruct (require_vamm _ v) as [[]|] eqn:E5; cbn [bind] in H; [|discriminate].
    unfold require_insufficient_margin in H.
    destruct (sgtb mr0 (spos (e_maint (ec (w_eng w))))) eqn:E6; cbn [negb bind] in H; [discriminate|].
    change (read_position (w_eng (set_eng w (eng_set_liq (w_eng w) (Some s)))) v t) with (read_position (w_eng w) v t) in H.
    destruct (Z.eqb_spec (sval (p_size (read_position (w_eng w) v t))) 0) as [E7|E7]; [discriminate|].
    eexists. repeat split; eauto.
Qed.

(* in integers: the ratio is at or below the maintenance ratio *)
Lemma not_sgtb_le mr m : wf0 mr -> 0 <= m -> sgtb mr (spos m) = false -> toZ mr <= m.
Proof. intros Hw Hm H. rewrite sgtb_spos0 in H by assumption. apply Z.ltb_ge in H. exact H. Qed.

(* ---------- full liquidation pays the liquidator exactly half the penalty, removes the position ---------- *)
Lemma liquidate_reply_spec w i o w' msgs swap liquidator :
  e_tmp (w_eng w) = Some swap -> e_liq (w_eng w) = Some liquidator ->
  let v := ts_vamm swap in let t := ts_trader swap in
  0 <= o -> 0 < e_dec (ec (w_eng w)) -> 0 <= e_liqfee (ec (w_eng w)) ->
  liquidator <> e_ifund (ec (w_eng w)) ->
  liquidate_reply w i o = Ok (w', msgs) ->
  let fee := o * e_liqfee (ec (w_eng w)) / e_dec (ec (w_eng w)) / 2 in
  transfers_to liquidator msgs = fee /\
  (t <> liquidator -> t <> e_ifund (ec (w_eng w)) -> transfers_to t msgs = 0) /\
  find_position (w_eng w') v t = None /\
  vm_lrb (read_vmap (w_eng w') v) = height (w_env w) /\
  w_tok w' = w_tok w /\ w_vamms w' = w_vamms w.
Proof.
  intros Htmp Hliq v t Ho HD Hf Hne H.
  unfold liquidate_reply, need_tmp, need_liq in H. rewrite Htmp, Hliq in H. cbn [bind] in H. fold v t in H.
  minv H; minv_all; inv_ok; subst; repeat match goal with x : (_ * _)%type |- _ => destruct x end; cbn [fst snd] in *.
  all: arith_ok; subst.
  all: repeat split.
  all: try (cbn [w_eng set_eng]; rewrite ?find_enter, ?find_set_liq, ?find_set_tmp, ?find_set_state;
            unfold find_position, positions_of, remove_position; cbn [e_pos]; rewrite zfind_zset_same; apply zfind_zdel_same).
  all: try (unfold read_vmap, enter_restriction_mode, eng_set_vmap; cbn [e_vmap w_eng set_eng]; rewrite zfind_zset_same; reflexivity).
  all: rewrite ?transfers_to_app.
  all: repeat match goal with
       | Hw : withdraw _ _ _ _ _ = Ok _ |- _ => rewrite !(transfers_to_withdraw _ _ _ _ _ _ _ _ Hw); clear Hw
       | Hr : realize_bad_debt _ _ _ = Ok _ |- _ =>
           unfold realize_bad_debt in Hr; minv Hr; inv_ok; cbn [transfers_to sm_msg execute_insurance_fund_withdrawal]
       end.
  all: intros.
  all: repeat match goal with |- context [if negb ?c then _ else _] => destruct c; cbn [negb] end.
  all: cbn [transfers_to sm_msg execute_transfer execute_insurance_fund_withdrawal].
  all: repeat match goal with |- context [?a =? ?b] => destruct (Z.eqb_spec a b) end; try lia; try congruence.
Qed.

(* ---------- C07: facts about when Liquidate cannot succeed ---------- *)
(* with the repository's own price feed the vAMM cannot decode the oracle price, the spread-limit
   query fails, and so does every Liquidate *)
Lemma liquidate_fails_with_real_feed w s v t lim vm r :
  get_vamm (with_liquidator w s) v = Ok vm -> v_feed (vc vm) = A_FEED -> w_feed w = FReal r ->
  exists e, e_liquidate w s v t lim = Err e.
Proof.
  intros Hv Hf Hr. unfold e_liquidate. fold (with_liquidator w s).
  destruct (query_margin_ratio _ v t); cbn [bind]; [|eauto]. rewrite Hv. cbn [bind].
  assert (E : q_is_over_spread_limit vm (oracle_of (with_liquidator w s) vm) = Err EDecode).
  { unfold q_is_over_spread_limit, oracle_of. rewrite Hf, Z.eqb_refl. cbn [o_price w_feed with_liquidator set_eng].
    rewrite Hr. reflexivity. }
  rewrite E. cbn. eauto.
Qed.
