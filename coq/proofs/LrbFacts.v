(* C16, "all traders in later blocks are not restricted": the restriction marker never exceeds the current
   height in any reachable state, so once the height has advanced the guard passes for everyone. *)
From MP.Model Require Import Prelude U128 SInt Feed Vamm VammOps Token World Engine Runtime.
From MP.Proofs Require Import Tactics MapFacts SIntFacts EngineGuards RuntimeFacts FrameFacts ResidueFacts MirrorFacts MirrorReach
  MoreFacts BandFacts RestrictFacts.

Definition lrb_le (w : world) : Prop := forall v, vm_lrb (read_vmap (w_eng w) v) <= height (w_env w).

Lemma lrb_le_same w w' : e_vmap (w_eng w') = e_vmap (w_eng w) -> w_env w' = w_env w -> lrb_le w -> lrb_le w'.
Proof. intros E1 E2 H v. unfold read_vmap. rewrite E1, E2. exact (H v). Qed.

Lemma pay_funding_reply_lrb_all w pf a w' subs v2 :
  pay_funding_reply w pf a = Ok (w', subs) -> vm_lrb (read_vmap (w_eng w') v2) = vm_lrb (read_vmap (w_eng w) v2).
Proof.
  unfold pay_funding_reply, append_cumulative_premium_fraction. intros H. arm H.
  all: cbn [w_eng set_eng]; unfold read_vmap, eng_set_vmap; cbn [e_vmap];
       destruct (Z.eq_dec v2 a) as [->|Hn]; [rewrite zfind_zset_same; reflexivity | rewrite zfind_zset_other by exact Hn; reflexivity].
Qed.

Lemma contract_reply_lrb w c id r w' subs : contract_reply w c id r = Ok (w', subs) -> lrb_le w -> lrb_le w'.
Proof.
  intros H Hle. pose proof (contract_reply_env _ _ _ _ _ _ H) as Henv.
  unfold contract_reply, engine_reply in H.
  destruct (c =? A_ENGINE); [|discriminate].
  destruct r as [ev|]; [|discriminate]. destruct ev; try discriminate.
  - destr_if_in H; [apply update_position_reply_lrb in H; exact (lrb_le_same _ _ H Henv Hle)|].
    destr_if_in H; [apply update_position_reply_lrb in H; exact (lrb_le_same _ _ H Henv Hle)|].
    destr_if_in H; [apply reverse_position_reply_lrb in H; exact (lrb_le_same _ _ H Henv Hle)|].
    destr_if_in H; [apply close_position_reply_lrb in H; exact (lrb_le_same _ _ H Henv Hle)|].
    destr_if_in H; [apply partial_close_position_reply_lrb in H; exact (lrb_le_same _ _ H Henv Hle)|].
    destr_if_in H.
    { destruct (e_tmp (w_eng w)) as [tm|] eqn:Etmp; [|unfold liquidate_reply, need_tmp in H; rewrite Etmp in H; discriminate].
      destruct (liquidate_reply_marks _ _ _ _ _ _ H Etmp) as (Hm & Ho & _). intros v.
      destruct (Z.eq_dec v (ts_vamm tm)) as [->|Hn]; [rewrite Hm, Henv; lia|rewrite (Ho v Hn), Henv; exact (Hle v)]. }
    destr_if_in H; [|discriminate].
    { destruct (e_tmp (w_eng w)) as [tm|] eqn:Etmp; [|unfold partial_liquidation_reply, need_tmp in H; rewrite Etmp in H; discriminate].
      destruct (partial_liquidation_reply_marks _ _ _ _ _ _ H Etmp) as (Hm & Ho). intros v.
      destruct (Z.eq_dec v (ts_vamm tm)) as [->|Hn]; [rewrite Hm, Henv; lia|rewrite (Ho v Hn), Henv; exact (Hle v)]. }
  - destr_if_in H; [|discriminate]. intros v2. rewrite (pay_funding_reply_lrb_all _ _ _ _ _ v2 H), Henv. exact (Hle v2).
Qed.

Lemma dispatch_lrb fuel f w n sender subs w' n' : dispatch fuel f w n sender subs = Ok (w', n') -> lrb_le w -> lrb_le w'.
Proof.
  intros H Hle. eapply (dispatch_inv lrb_le); try exact H; try exact Hle.
  - intros w0 s0 m w1 ev Hx Hq. apply (lrb_le_same w0 w1); [rewrite (exec_simple_eng _ _ _ _ _ Hx); reflexivity|exact (exec_simple_env _ _ _ _ _ Hx)|exact Hq].
  - intros w0 s0 amt w1 sb Hx Hq. unfold if_withdraw in Hx. minv Hx. inv_ok. exact Hq.
  - intros w0 s0 id r w1 sb Hx Hq. eapply contract_reply_lrb; eauto.
Qed.

Lemma engine_execute_lrb w s m funds w1 subs : engine_execute w s m funds = Ok (w1, subs) ->
  e_vmap (w_eng w1) = e_vmap (w_eng w) /\ w_env w1 = w_env w.
Proof.
  unfold engine_execute. intros H. destruct m.
  - unfold e_update_config in H. arm H; split; reflexivity.
  - unfold e_update_pauser in H. arm H; split; reflexivity.
  - unfold e_add_whitelist in H. arm H; split; reflexivity.
  - unfold e_remove_whitelist in H. arm H; split; reflexivity.
  - unfold e_open_position in H. arm H; split; reflexivity.
  - unfold e_close_position, internal_close_position in H. arm H; split; reflexivity.
  - unfold e_liquidate, partial_liquidation, internal_close_position in H. arm H; split; reflexivity.
  - unfold e_pay_funding in H. arm H; split; reflexivity.
  - unfold e_deposit_margin in H. arm H; split; reflexivity.
  - unfold e_withdraw_margin in H. arm H; split; reflexivity.
  - unfold e_set_pause in H. arm H; split; reflexivity.
Qed.

Definition block_ok (o : op) : Prop := match o with OBlock _ dh => 0 <= dh | _ => True end.

Lemma exec_op_lrb f w o w' : exec_op f w o = Ok w' -> block_ok o -> lrb_le w -> lrb_le w'.
Proof.
  intros H Hb Hle. destruct o; cbn [exec_op] in H; revert H; generalize FUEL; intros fuel H.
  - inv_ok. intros v. cbn [w_eng w_env set_env height]. cbn [block_ok] in Hb. specialize (Hle v). lia.
  - inv_bind H. inv_bind H. inv_bind H. inv_ok. destruct x0 as [w1 subs], x1 as [w2 n2]. cbn [fst snd] in *.
    eapply dispatch_lrb; [exact Hx1|].
    destruct (engine_execute_lrb _ _ _ _ _ _ Hx0) as [E1 E2].
    apply (lrb_le_same x w1 E1 E2).
    destruct (attach_funds_core _ _ _ _ _ Hx) as [E3 E4]. apply (lrb_le_same w x); [rewrite E3; reflexivity|exact E4|exact Hle].
  - unfold get_vamm in H. destruct (zfind v (w_vamms w)) as [vm|]; [|discriminate]. cbn [bind] in H.
    inv_bind H. inv_ok. apply (lrb_le_same w (set_vamm w v x)); [reflexivity|reflexivity|exact Hle].
  - inv_bind H. inv_bind H. inv_ok. destruct x as [w1 subs], x0 as [w2 n2]. cbn [fst snd] in *.
    eapply dispatch_lrb; [exact Hx0|].
    destruct m; [unfold if_update_owner in Hx|unfold if_add_vamm in Hx|unfold if_remove_vamm in Hx|unfold if_withdraw in Hx|unfold if_shutdown in Hx];
    minv Hx; inv_ok; exact Hle.
  - inv_bind H. inv_bind H. inv_ok. destruct x as [w1 subs], x0 as [w2 n2]. cbn [fst snd] in *.
    eapply dispatch_lrb; [exact Hx0|].
    destruct m; [unfold fp_update_owner in Hx|unfold fp_add_token in Hx|unfold fp_remove_token in Hx|unfold fp_send_token in Hx];
    minv Hx; inv_ok; exact Hle.
  - destruct m; minv H; inv_ok; exact Hle.
  - minv H; inv_ok; exact Hle.
Qed.

Lemma step_lrb f w o : block_ok o -> lrb_le w -> lrb_le (fst (step_f f w o)).
Proof. intros Hb Hle. unfold step_f. destruct (exec_op f w o) eqn:E; cbn [fst]; [eapply exec_op_lrb; eauto|exact Hle]. Qed.

Lemma run_lrb ops : forall w, Forall block_ok ops -> lrb_le w -> lrb_le (run w ops).
Proof.
  induction ops as [|o rest IH]; intros w Hok Hle; [exact Hle|].
  inversion Hok; subst. cbn [run fold_left]. apply IH; [assumption|]. apply step_lrb; assumption.
Qed.

Lemma init_world_lrb e d w : init_world e d = Ok w -> 0 <= height e -> lrb_le w.
Proof.
  unfold init_world, engine_instantiate. intros H He. minv H. minv_all. inv_ok. intros v. unfold read_vmap. cbn [w_eng e_vmap w_env zfind]. cbn [vm_lrb default_vmap]. exact He.
Qed.

(* once the height has advanced, nobody is restricted on any vAMM *)
Theorem later_blocks_unrestricted w dt dh v t :
  lrb_le w -> 0 < dh ->
  require_not_restriction_mode (set_env w (mkEnv (now (w_env w) + dt) (height (w_env w) + dh))) v t = Ok tt.
Proof.
  intros Hle Hdh. apply restriction_passes. left. cbn [w_eng w_env set_env height]. specialize (Hle v). lia.
Qed.
