(* C17, engine side, end to end: an OpenPosition that opens, increases or reduces a position reaches the vAMM as one
   swap_input of the requested notional carrying the caller's limit unchanged - so the transaction succeeds only if that
   limited swap executes. *)
From MP.Model Require Import Prelude U128 SInt Feed Vamm VammOps Token World Engine Runtime.
From MP.Proofs Require Import Tactics MapFacts SIntFacts EngineGuards RuntimeFacts LedgerFacts ResidueFacts MirrorFacts MoreFacts FlowFacts.

(* the route the execute arm takes, as the code decides it: the position's notional at spot *)
Definition is_increase_of (p : position) (s : side) : bool :=
  s_is_zero (p_size p) || (dir_eqb (p_dir p) AddToAmm && side_eqb s Buy) || (dir_eqb (p_dir p) RemoveFromAmm && side_eqb s Sell).

Lemma open_position_msg w t v s m l lim f w1 subs :
  e_open_position w t v s m l lim f = Ok (w1, subs) ->
  let p := get_position (w_eng w) (w_env w) v t s in
  let N := m * l / e_dec (ec (w_eng w)) in
  exists pn upnl, get_pnl w v p PSpot = Ok (pn, upnl) /\
    subs = [if is_increase_of p s then internal_increase_position v s N lim
            else if N <? pn then swap_input_msg v s N lim false DECREASE_ID
            else swap_output_msg v (direction_to_side (p_dir p)) (sval (p_size p)) 0 REVERSE_ID] /\
    w_vamms w1 = w_vamms w /\ w_env w1 = w_env w.
Proof.
  intros H. cbv zeta. unfold e_open_position in H. arm H. arith_ok. subst.
  all: do 2 eexists; split; [reflexivity|]; split; [reflexivity|split; reflexivity].
Qed.

Theorem open_position_tx_limit f w t v s m l lim funds w' vm pn upnl :
  exec_op f w (OEngine t (EOpenPosition v s m l lim) funds) = Ok w' ->
  get_vamm w v = Ok vm ->
  let p := get_position (w_eng w) (w_env w) v t s in
  let N := m * l / e_dec (ec (w_eng w)) in
  get_pnl w v p PSpot = Ok (pn, upnl) ->
  (* opens, increases, or reduces (the requested notional is below what the position is worth at spot) *)
  is_increase_of p s = true \/ N < pn ->
  exists vm' ba, swap_input vm (w_env w) A_ENGINE (side_to_direction s) N lim false = Ok (vm', (N, ba)).
Proof.
  intros H Hvm p N Hpnl Hroute.
  cbn [exec_op] in H. revert H. generalize FUEL. intros fuel H.
  destruct (attach_funds w t A_ENGINE funds) as [w0|] eqn:Ea; [|discriminate]. cbn [bind] in H.
  cbn [engine_execute] in H.
  destruct (e_open_position w0 t v s m l lim funds) as [[w1 subs]|] eqn:Eo; [|discriminate]. cbn [bind fst snd] in H.
  destruct (dispatch fuel f w1 0 A_ENGINE subs) as [[wf nf]|] eqn:Ed; [|discriminate]. cbn [bind fst] in H. inv_ok.
  pose proof (attach_funds_core _ _ _ _ _ Ea) as [E1 E2].
  assert (E3 : w_vamms w0 = w_vamms w) by (unfold attach_funds in Ea; destruct (funds =? 0); [inv_ok; auto|]; minv Ea; inv_ok; auto).
  destruct (open_position_msg _ _ _ _ _ _ _ _ _ _ Eo) as (pn0 & upnl0 & Hp0 & -> & Hvs & Henv).
  assert (Hsame : get_pnl w0 v (get_position (w_eng w0) (w_env w0) v t s) PSpot = get_pnl w v p PSpot).
  { unfold p. rewrite E1, E2. unfold get_pnl, get_vamm, oracle_of. rewrite ?E3, ?E1. destruct w0, w; cbn in *; subst; reflexivity. }
  rewrite Hsame, Hpnl in Hp0. injection Hp0 as <- <-.
  rewrite E1, E2 in Ed. fold p N in Ed.
  assert (Hmsg : exists id, (if is_increase_of p s then internal_increase_position v s N lim
            else if N <? pn then swap_input_msg v s N lim false DECREASE_ID
            else swap_output_msg v (direction_to_side (p_dir p)) (sval (p_size p)) 0 REVERSE_ID) =
            mkSub (MSwapInput v (side_to_direction s) N lim false) id RAlways).
  { destruct Hroute as [Hi|Hlt].
    - rewrite Hi. eexists. reflexivity.
    - destruct (is_increase_of p s); [eexists; reflexivity|].
      destruct (Z.ltb_spec N pn); [eexists; reflexivity|lia]. }
  destruct Hmsg as [id Hmsg]. rewrite Hmsg in Ed.
  apply dispatch_single in Ed; [|reflexivity|reflexivity].
  destruct Ed as (k & wa & ev & wb & sb & _ & Ex & _).
  cbn [sm_msg] in Ex. apply exec_swap_input in Ex. destruct Ex as (vm0 & vm' & qa & ba & Hz & Hsw & _ & _).
  assert (vm0 = vm) by (unfold get_vamm in Hvm; rewrite Hvs, E3 in Hz; rewrite Hz in Hvm; congruence). subst vm0.
  rewrite Henv, E2 in Hsw.
  assert (qa = N) by (unfold swap_input in Hsw; minv Hsw; inv_ok; reflexivity). subst qa.
  exists vm', ba. exact Hsw.
Qed.

(* C05, first clause at transaction level: an OpenPosition transaction succeeds only with 1 <= leverage <= 1/initial ratio *)
From MP.Proofs Require Import EngineGuards.
Theorem open_position_tx_leverage f w t v s m l lim funds w' :
  exec_op f w (OEngine t (EOpenPosition v s m l lim) funds) = Ok w' ->
  0 <= e_init (ec (w_eng w)) -> 0 < e_dec (ec (w_eng w)) ->
  e_dec (ec (w_eng w)) <= l /\ l * e_init (ec (w_eng w)) <= e_dec (ec (w_eng w)) * e_dec (ec (w_eng w)).
Proof.
  intros H Hi HD.
  cbn [exec_op] in H. revert H. generalize FUEL. intros fuel H.
  destruct (attach_funds w t A_ENGINE funds) as [w0|] eqn:Ea; [|discriminate]. cbn [bind] in H.
  cbn [engine_execute] in H.
  destruct (e_open_position w0 t v s m l lim funds) as [[w1 subs]|] eqn:Eo; [|discriminate].
  pose proof (attach_funds_core _ _ _ _ _ Ea) as [E1 _].
  pose proof (open_leverage_bounds _ _ _ _ _ _ _ _ _ Eo) as Hb. rewrite E1 in Hb. exact (Hb Hi HD).
Qed.

(* contrapositive, as a failed step: a leverage outside the bounds makes the transaction fail and changes nothing *)
Theorem open_position_tx_leverage_refused f w t v s m l lim funds :
  0 <= e_init (ec (w_eng w)) -> 0 < e_dec (ec (w_eng w)) ->
  l < e_dec (ec (w_eng w)) \/ e_dec (ec (w_eng w)) * e_dec (ec (w_eng w)) < l * e_init (ec (w_eng w)) ->
  step_f f w (OEngine t (EOpenPosition v s m l lim) funds) = (w, false).
Proof.
  intros Hi HD Hl. unfold step_f.
  destruct (exec_op f w (OEngine t (EOpenPosition v s m l lim) funds)) as [w'|e] eqn:E; [|reflexivity].
  exfalso. destruct (open_position_tx_leverage _ _ _ _ _ _ _ _ _ _ E Hi HD). lia.
Qed.

(* C06, first clause at transaction level: a Liquidate transaction succeeds only if, on the state it starts from, the
   liquidation ratio is computable and not above the maintenance ratio, the position is not empty and the vAMM is
   registered and open *)
From MP.Proofs Require Import LiqFacts.
Lemma liq_ratio_ledger w w0 s v t :
  w_eng w0 = w_eng w -> w_vamms w0 = w_vamms w -> w_env w0 = w_env w -> w_feed w0 = w_feed w -> w_if w0 = w_if w ->
  liq_ratio (with_liquidator w0 s) v t = liq_ratio (with_liquidator w s) v t /\
  require_vamm (with_liquidator w0 s) v = require_vamm (with_liquidator w s) v.
Proof.
  intros E1 E2 E3 E4 E5. destruct w0, w. cbn in *. subst. split; reflexivity.
Qed.

Theorem liquidate_tx_only_if f w s v t lim funds w' :
  exec_op f w (OEngine s (ELiquidate v t lim) funds) = Ok w' ->
  exists mr, liq_ratio (with_liquidator w s) v t = Ok mr /\
             sgtb mr (spos (e_maint (ec (w_eng w)))) = false /\
             sval (p_size (read_position (w_eng w) v t)) <> 0 /\
             require_vamm (with_liquidator w s) v = Ok tt.
Proof.
  intros H. cbn [exec_op] in H. revert H. generalize FUEL. intros fuel H.
  destruct (attach_funds w s A_ENGINE funds) as [w0|] eqn:Ea; [|discriminate]. cbn [bind] in H.
  cbn [engine_execute] in H.
  destruct (e_liquidate w0 s v t lim) as [[w1 subs]|] eqn:Eo; [|discriminate].
  destruct (liquidate_only_if _ _ _ _ _ _ Eo) as (mr & H1 & H2 & H3 & H4).
  assert (Hs : w_eng w0 = w_eng w /\ w_vamms w0 = w_vamms w /\ w_env w0 = w_env w /\ w_feed w0 = w_feed w /\ w_if w0 = w_if w).
  { unfold attach_funds in Ea. destruct (funds =? 0); [inv_ok; repeat split|]. minv Ea. inv_ok. repeat split. }
  destruct Hs as (E1 & E2 & E3 & E4 & E5).
  destruct (liq_ratio_ledger w w0 s v t E1 E2 E3 E4 E5) as [L1 L2].
  exists mr. rewrite <- L1, <- L2, <- E1. auto.
Qed.
