(* Native vs cw20 collateral (C13): what differs between the two worlds. *)
From MP.Model Require Import Prelude U128 SInt Feed Vamm VammOps Token World Engine Runtime.
From MP.Proofs Require Import Tactics SIntFacts.

(* the only message builder that depends on the collateral kind *)
Lemma transfer_from_kinds w owner receiver amt :
  execute_transfer_from w owner receiver amt =
    if t_native (w_tok w) then mkSub (MTransfer receiver amt) TRANSFER_FAILURE_ID RError
    else mkSub (MTransferFrom owner receiver amt) TRANSFER_FAILURE_ID RError.
Proof. reflexivity. Qed.

Lemma are_sufficient_iff f : are_sufficient f = Ok tt <-> sf_amount f = sf_required f.
Proof.
  unfold are_sufficient. destruct (Z.eqb_spec (sf_amount f) (sf_required f)); split; intros H; auto; try discriminate. contradiction.
Qed.

(* opening / increasing with native collateral: the call succeeds only if the attached amount
   equals what was already required plus the margin for the traded notional plus both fees -
   exactly what a cw20 deployment pulls from the trader with TransferFrom *)
Lemma increase_native_exact_funds w i o w' subs swap funds :
  t_native (w_tok w) = true ->
  e_tmp (w_eng w) = Some swap -> e_sent (w_eng w) = Some funds ->
  ts_fees_paid swap = false -> ts_mtv swap = szero -> 0 <= ts_open_notional swap -> 0 < ts_leverage swap -> 0 <= e_dec (ec (w_eng w)) ->
  update_position_reply w i o INCREASE_ID = Ok (w', subs) ->
  exists vm toll spread,
    get_vamm w (ts_vamm swap) = Ok vm /\ q_calc_fee vm (ts_open_notional swap) = Ok (toll, spread) /\
    sf_amount funds = sf_required funds + ts_open_notional swap * e_dec (ec (w_eng w)) / ts_leverage swap + spread + toll.
Proof.
  intros Hn Htmp Hsent Hfp Hmtv Hon Hlev HD H.
  unfold update_position_reply, need_tmp, need_sent in H. rewrite Htmp, Hsent in H. cbn [bind] in H.
  rewrite Z.eqb_refl in H. rewrite Hfp, Hmtv in H. cbn [negb] in H.
  minv H; minv_all; inv_ok; subst; repeat match goal with x : (_ * _)%type |- _ => destruct x end; cbn [fst snd] in *.
  all: cbn [w_tok set_eng] in *; try congruence.
  all: match goal with Hf : transfer_fees _ _ _ _ = Ok _ |- _ => unfold transfer_fees in Hf; minv Hf; inv_ok end.
  all: arith_ok; subst.
  all: match goal with Hs : are_sufficient _ = Ok ?u |- _ => destruct u; apply are_sufficient_iff in Hs; cbn [sf_amount sf_required] in Hs end.
  all: match goal with Hg : get_vamm _ _ = Ok ?vm, Hq : q_calc_fee ?vm _ = Ok (?tl, ?sp) |- _ =>
         exists vm, tl, sp; split; [exact Hg|]; split; [exact Hq|] end.
  all: try lia.
  all: match goal with Ha : schecked_add szero (spos ?sm) = Ok ?m |- _ =>
         assert (Hsm : 0 <= sm) by (apply Z.div_pos; nia);
         apply schecked_add_toZ0 in Ha; [|unfold wf0; cbn; lia|apply spos_wf0; exact Hsm];
         destruct Ha as (Za & Wa & _); rewrite toZ_spos in Za; change (toZ szero) with 0 in Za;
         pose proof (wf0_toZ_abs m Wa) as Hsv
       end.
  all: repeat match goal with
       | Hg : sgtb ?m szero = _ |- _ => change szero with (spos 0) in Hg; rewrite sgtb_spos0 in Hg by (auto; lia)
       | Hg : sltb ?m szero = _ |- _ => change szero with (spos 0) in Hg; rewrite sltb_spos0 in Hg by (auto; lia)
       end.
  all: zb; lia.
Qed.
