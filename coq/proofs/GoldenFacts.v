(* The golden computation, evaluated by the kernel.  The OCaml driver evaluates the same definition with the
   extracted code (`modelrun --golden`); the two must agree (tools/vlib.py golden_check). *)
From MP.Model Require Import Prelude U128 SInt Feed Vamm VammOps Token World Engine Runtime Scenario.

Example golden_is_expected : golden tt = golden_expected tt.
Proof. vm_compute. reflexivity. Qed.

(* every operation of the golden history succeeds, on both deployments: the values above come from real work *)
Example golden_ops_all_succeed :
  match scenario, scenario_native with
  | Ok w, Ok wn =>
      forallb (fun k => snd (step_f (-1) (run w (firstn k (golden_ops false))) (nth k (golden_ops false) (OBlock 0 0)))) (seq 0 14) &&
      forallb (fun k => snd (step_f (-1) (run wn (firstn k (golden_ops true))) (nth k (golden_ops true) (OBlock 0 0)))) (seq 0 14)
  | _, _ => false
  end = true.
Proof. vm_compute. reflexivity. Qed.
