(* Closing pays exactly the equity; bad debt cannot be cashed out (C04); fees (C12). *)
From MP.Model Require Import Prelude U128 SInt Feed Vamm VammOps Token World Engine Runtime.
From MP.Proofs Require Import Tactics MapFacts SIntFacts EngineArith.

(* total amount the message list transfers (cw20 Transfer / bank Send) to address a *)
Fixpoint transfers_to (a : addr) (msgs : list submsg) : Z :=
  match msgs with
  | [] => 0
  | s :: rest =>
      (match sm_msg s with MTransfer to amt => if to =? a then amt else 0 | _ => 0 end) + transfers_to a rest
  end.

Lemma transfers_to_app a l1 l2 : transfers_to a (l1 ++ l2) = transfers_to a l1 + transfers_to a l2.
Proof. induction l1 as [|s l IH]; cbn [transfers_to app]; [lia|]. rewrite IH. lia. Qed.

(* ---------- fees ---------- *)
Lemma q_calc_fee_spec v quote toll spread : 0 <= quote ->
  q_calc_fee v quote = Ok (toll, spread) ->
  toll = quote * v_toll (vc v) / v_dec (vc v) /\ spread = quote * v_spread (vc v) / v_dec (vc v).
Proof.
  intros Hq H. unfold q_calc_fee in H. destruct (Z.eqb_spec quote 0) as [E|E].
  - inv_ok. subst. rewrite !Z.mul_0_l. unfold Z.div; cbn. auto.
  - minv H. inv_ok. arith_ok. subst. auto.
Qed.

(* the fee messages: one transfer of the spread fee to the insurance fund, one of the toll fee to
   the fee pool, each only when non-zero, both taken from `from` (cw20) / the vault (native) *)
Lemma transfer_fees_spec w from vamm notional msgs spread toll : 0 <= notional ->
  transfer_fees w from vamm notional = Ok (msgs, spread, toll) ->
  exists v, get_vamm w vamm = Ok v /\
  toll = notional * v_toll (vc v) / v_dec (vc v) /\ spread = notional * v_spread (vc v) / v_dec (vc v) /\
  msgs = (if negb (spread =? 0) then [execute_transfer_from w from (e_ifund (ec (w_eng w))) spread] else []) ++
         (if negb (toll =? 0) then [execute_transfer_from w from (e_feepool (ec (w_eng w))) toll] else []).
Proof.
  intros Hn H. unfold transfer_fees in H. minv H. inv_ok.
  match goal with Hq : q_calc_fee _ _ = Ok _ |- _ => apply q_calc_fee_spec in Hq; [|assumption]; destruct Hq end.
  eexists; repeat split; eauto.
Qed.

(* a cw20 TransferFrom is not a payout from the vault; a native fee transfer goes to the fund / pool *)
Lemma transfers_to_fees w from vamm notional msgs spread toll a :
  transfer_fees w from vamm notional = Ok (msgs, spread, toll) ->
  a <> e_ifund (ec (w_eng w)) -> a <> e_feepool (ec (w_eng w)) -> transfers_to a msgs = 0.
Proof.
  intros H Hi Hf. unfold transfer_fees in H. minv H. inv_ok.
  unfold execute_transfer_from.
  repeat destr_if; cbn [transfers_to app sm_msg]; repeat destr_if; zb; try lia.
Qed.

(* ---------- withdraw (messages.rs) ---------- *)
Lemma withdraw_spec w st receiver amount pre st' msgs :
  withdraw w st receiver amount pre = Ok (st', msgs) ->
  exists shortfall,
    (msgs = [execute_transfer receiver amount] /\ shortfall = 0 /\ st' = st \/
     msgs = [execute_insurance_fund_withdrawal w shortfall; execute_transfer receiver amount] /\
     0 < shortfall /\ shortfall = amount - (engine_balance w + pre) /\
     e_bad_debt st' = e_bad_debt st + shortfall /\ e_oi st' = e_oi st /\ e_pause st' = e_pause st).
Proof.
  unfold withdraw. intros H. minv H; inv_ok; arith_ok; subst; zb.
  - eexists. right. repeat split; try reflexivity; lia.
  - exists 0. left. auto.
Qed.

Lemma transfers_to_withdraw w st receiver amount pre st' msgs a :
  withdraw w st receiver amount pre = Ok (st', msgs) ->
  transfers_to a msgs = if receiver =? a then amount else 0.
Proof.
  intros H. apply withdraw_spec in H. destruct H as (sf & [ (E & _) | (E & _) ]); subst msgs;
  cbn [transfers_to sm_msg execute_transfer execute_insurance_fund_withdrawal]; destr_if; lia.
Qed.

(* ---------- C04: what close_position_reply pays ---------- *)
Definition close_rpnl (p : position) (output open_notional : Z) : Z :=
  match p_dir p with AddToAmm => output - open_notional | RemoveFromAmm => open_notional - output end.

Lemma close_position_reply_spec w i o w' msgs swap :
  e_tmp (w_eng w) = Some swap ->
  let v := ts_vamm swap in let t := ts_trader swap in
  let p := get_position (w_eng w) (w_env w) v t (ts_side swap) in
  pos_wf p -> cpf_wf (w_eng w) v -> 0 < e_dec (ec (w_eng w)) ->
  0 <= o -> 0 <= ts_open_notional swap -> ts_upnl swap = szero ->
  t <> e_ifund (ec (w_eng w)) -> t <> e_feepool (ec (w_eng w)) ->
  close_position_reply w i o = Ok (w', msgs) ->
  let equity := p_margin p + close_rpnl p o (ts_open_notional swap) - funding_owed w v p in
  0 <= equity /\ transfers_to t msgs = equity /\
  find_position (w_eng w') v t = None /\ e_tmp (w_eng w') = None /\ w_tok w' = w_tok w /\ w_vamms w' = w_vamms w.
Proof.
  intros Htmp v t p Hp Hc HD Ho Hon Hup Hti Htf H.
  unfold close_position_reply in H. unfold need_tmp in H. rewrite Htmp in H. cbn [bind] in H.
  fold v t in H. cbv zeta in H. fold p in H.
  destruct (match p_dir p with
            | AddToAmm => ssub (spos o) (spos (ts_open_notional swap))
            | RemoveFromAmm => ssub (spos (ts_open_notional swap)) (spos o)
            end) as [md|] eqn:Emd; [|discriminate]. cbn [bind] in H.
  assert (Hmd : toZ md = close_rpnl p o (ts_open_notional swap) /\ wf0 md).
  { unfold close_rpnl. destruct (p_dir p); apply ssub_toZ0 in Emd; try (apply spos_wf0; lia);
    rewrite !toZ_spos in Emd; tauto. }
  destruct Hmd as [Hmd Hwmd].
  destruct (calc_remain_margin w v p md) as [[[[fp margin] bad] latest]|] eqn:Erm; [|discriminate]. cbn [bind] in H.
  apply calc_remain_margin_spec in Erm; auto. destruct Erm as (_ & _ & Hr). cbv zeta in Hr. rewrite Hmd in Hr.
  destruct Hr as (Hneg & Hpos & Hm0 & Hb0).
  rewrite Hup in H.
  destruct (schecked_add (spos margin) szero) as [wa|] eqn:Ewa; [|discriminate]. cbn [bind] in H.
  apply schecked_add_toZ0 in Ewa; [|apply spos_wf0; lia|unfold wf0; cbn; lia].
  destruct Ewa as (Zwa & Wwa & _). rewrite toZ_spos in Zwa. change (toZ szero) with 0 in Zwa.
  destruct (Z.eqb_spec bad 0) as [Eb|Eb]; [|discriminate].
  set (r := p_margin p + close_rpnl p o (ts_open_notional swap) - funding_owed w v p) in *.
  assert (Hr0 : 0 <= r) by (destruct (Z_lt_ge_dec r 0) as [Hlt|Hge]; [destruct (Hneg ltac:(unfold r in Hlt; lia)); lia | lia]).
  assert (Hmr : margin = r) by (destruct (Hpos ltac:(lia)); lia).
  assert (Hsw : sval wa = r).
  { rewrite (wf0_toZ_abs wa Wwa). rewrite Zwa. lia. }
  split; [lia|].
  minv H; minv_all; inv_ok; subst w' msgs; repeat match goal with Hl : [] = ?l |- _ => subst l end; repeat match goal with x : (_ * _)%type |- _ => destruct x end;
  cbn [w_eng set_eng e_tmp eng_set_tmp eng_set_state remove_position w_tok w_vamms fst].
  all: repeat split; try reflexivity.
  all: try (unfold find_position, positions_of, remove_position, eng_set_tmp, eng_set_state; cbn [e_pos];
            rewrite zfind_zset_same; apply zfind_zdel_same).
  all: rewrite ?transfers_to_app.
  all: repeat match goal with
       | Hw : withdraw _ _ _ _ _ = Ok _ |- _ => rewrite (transfers_to_withdraw _ _ _ _ _ _ _ t Hw); clear Hw
       | Hf : transfer_fees _ _ _ _ = Ok _ |- _ => rewrite (transfers_to_fees _ _ _ _ _ _ _ t Hf) by assumption; clear Hf
       end.
  all: cbn [transfers_to fst]; rewrite ?Z.eqb_refl; try lia.
  all: try (unfold s_is_zero in *; zb; cbn [transfers_to]; lia).
Qed.
