(* C15 end to end: a successful OpenPosition transaction that leaves the sender with a position leaves the
   traded vAMM's spot price inside the band around the previous block's reference price. *)
From MP.Model Require Import Prelude U128 SInt Feed Vamm VammOps Token World Engine Runtime.
From MP.Proofs Require Import Tactics MapFacts SIntFacts VammFacts SwapFacts EngineGuards RuntimeFacts FrameFacts
  ResidueFacts MirrorFacts MoreFacts.

(* the reference snapshot of the band does not move within the block: either the newest snapshot belongs to
   an earlier block, or there is an older one *)
Definition stable (vm : vamm) (e : env) : Prop :=
  match snaps vm with [] => False | latest :: older => s_height latest <> height e \/ older <> [] end.

Lemma update_reserve_boundaries v e d qa ba cgo v' :
  update_reserve v e d qa ba cgo = Ok v' -> stable v e ->
  price_boundaries v' e = price_boundaries v e /\ stable v' e.
Proof.
  unfold update_reserve. intros H Hs.
  destruct (check_fluctuation v e d qa ba cgo); [|discriminate]. cbn [bind] in H.
  match type of H with bind ?r _ = _ => destruct r as [s'|]; [|discriminate] end. cbn [bind] in H.
  destruct (add_reserve_snapshot (snaps v) e (v_q s') (v_b s')) as [sn|] eqn:Ea; [|discriminate]. cbn [bind] in H. inv_ok.
  unfold price_boundaries, stable in *. cbn [snaps vc].
  unfold add_reserve_snapshot in Ea. destruct (snaps v) as [|latest older]; [contradiction|].
  destruct (s_height latest =? height e) eqn:Eh; inv_ok.
  - cbn [s_height]. rewrite Eh. destruct Hs as [Hs|Hs]; [apply Z.eqb_eq in Eh; contradiction|].
    destruct older as [|prev rest]; [contradiction|]. split; [reflexivity|right; discriminate].
  - cbn [s_height]. rewrite Z.eqb_refl. split; [reflexivity | right; discriminate].
Qed.

Lemma swap_output_boundaries v e s d base lim v' qa ba :
  swap_output v e s d base lim = Ok (v', (qa, ba)) -> stable v e ->
  price_boundaries v' e = price_boundaries v e /\ stable v' e.
Proof.
  unfold swap_output. intros H Hs. minv H. inv_ok.
  match goal with Hu : update_reserve _ _ _ _ _ _ = Ok _ |- _ => exact (update_reserve_boundaries _ _ _ _ _ _ _ Hu Hs) end.
Qed.

(* the spot price of vm lies in the band that vm0 defines *)
Definition inb (vm0 : vamm) (e : env) (vm : vamm) : Prop :=
  exists upper lower p, price_boundaries vm0 e = Ok (upper, lower) /\
    spot_of (v_dec (vc vm)) (v_q (vs vm)) (v_b (vs vm)) = Ok p /\ in_band p upper lower.

Definition goalb (vm0 : vamm) (e0 : env) (v0 t0 : addr) (w : world) : Prop :=
  (exists vm, zfind v0 (w_vamms w) = Some vm /\ inb vm0 e0 vm) \/
  sval (p_size (read_position (w_eng w) v0 t0)) = 0.

Lemma goalb_core vm0 e0 v0 t0 w w1 : same_core w w1 -> goalb vm0 e0 v0 t0 w -> goalb vm0 e0 v0 t0 w1.
Proof. intros (E1 & E2 & E3) H. unfold goalb in *. rewrite E1, E2. exact H. Qed.

(* what holds when the replying swap of an OpenPosition is about to run *)
Definition pendb (vm0 : vamm) (e0 : env) (v0 t0 : addr) (w : world) (m : msg) (id : Z) : Prop :=
  w_env w = e0 /\
  exists vm, zfind v0 (w_vamms w) = Some vm /\ wfv vm /\ v_fluct (vc vm) <> 0 /\
    price_boundaries vm e0 = price_boundaries vm0 e0 /\
    (((id = INCREASE_ID \/ id = DECREASE_ID) /\ exists d q l, m = MSwapInput v0 d q l false /\ 0 <= q) \/
     (id = REVERSE_ID /\ (exists d b l, m = MSwapOutput v0 d b l /\ 0 <= b) /\ stable vm e0 /\
        exists tm, e_tmp (w_eng w) = Some tm /\ ts_vamm tm = v0 /\ ts_trader tm = t0)).

Fixpoint readyb (vm0 : vamm) (e0 : env) (v0 t0 : addr) (w : world) (subs : list submsg) : Prop :=
  match subs with
  | [] => goalb vm0 e0 v0 t0 w
  | s :: rest =>
      if wants_ok (sm_reply s) then rest = [] /\ sm_reply s = RAlways /\ pendb vm0 e0 v0 t0 w (sm_msg s) (sm_id s)
      else is_leaf (sm_msg s) = true /\ readyb vm0 e0 v0 t0 w rest
  end.

Lemma pendb_core vm0 e0 v0 t0 w w1 m id : same_core w w1 -> pendb vm0 e0 v0 t0 w m id -> pendb vm0 e0 v0 t0 w1 m id.
Proof. intros (E1 & E2 & E3) H. unfold pendb in *. rewrite E1, E2, E3. exact H. Qed.

Lemma readyb_core vm0 e0 v0 t0 w w1 subs : same_core w w1 -> readyb vm0 e0 v0 t0 w subs -> readyb vm0 e0 v0 t0 w1 subs.
Proof.
  intros Hc. induction subs as [|s rest IH]; cbn [readyb]; [apply goalb_core; exact Hc|].
  destruct (wants_ok (sm_reply s)).
  - intros (E & R & P). split; [exact E|split; [exact R|eapply pendb_core; eauto]].
  - intros (L & R). split; auto.
Qed.

Lemma readyb_leafy_app vm0 e0 v0 t0 w l1 l2 : Forall leafy l1 -> (readyb vm0 e0 v0 t0 w (l1 ++ l2) <-> readyb vm0 e0 v0 t0 w l2).
Proof.
  induction l1 as [|s l IH]; intros H; cbn [app readyb]; [tauto|].
  inversion H as [|? ? [Hs1 Hs2] Hl]; subst. rewrite Hs1. rewrite IH by assumption. tauto.
Qed.
Lemma readyb_leafy vm0 e0 v0 t0 w l : Forall leafy l -> (readyb vm0 e0 v0 t0 w l <-> goalb vm0 e0 v0 t0 w).
Proof. intros H. rewrite <- (app_nil_r l). rewrite readyb_leafy_app by assumption. cbn. tauto. Qed.

(* the reversal's first reply: either nothing is re-opened and the stored position is empty, or the fee
   messages are followed by a swap_input of a non-negative amount that may not go over the band *)
Lemma reverse_position_reply_reopen w i o w' subs tm :
  reverse_position_reply w i o = Ok (w', subs) -> e_tmp (w_eng w) = Some tm ->
  w_vamms w' = w_vamms w /\ w_env w' = w_env w /\
  ((Forall leafy subs /\ sval (p_size (read_position (w_eng w') (ts_vamm tm) (ts_trader tm))) = 0) \/
   exists fees q, Forall leafy fees /\ subs = fees ++ [internal_increase_position (ts_vamm tm) (ts_side tm) q 0] /\ 0 <= q /\
     exists tm', e_tmp (w_eng w') = Some tm' /\ ts_vamm tm' = ts_vamm tm /\ ts_trader tm' = ts_trader tm).
Proof.
  intros H Htmp. unfold reverse_position_reply, need_tmp in H. rewrite Htmp in H. cbn [bind] in H.
  arm H.
  all: split; [reflexivity|split; [reflexivity|]].
  all: first
    [ left; split; [leafy_goal|];
      cbn [w_eng set_eng]; unfold read_position; rewrite ?find_set_state, ?find_set_sent, ?find_set_tmp, find_store_same; reflexivity
    | right; do 2 eexists; split; [|split; [reflexivity|split]]; [leafy_goal| arith_ok; subst; lia |];
      eexists; cbn [w_eng set_eng e_tmp eng_set_state eng_set_sent eng_set_tmp]; split; [reflexivity|split; reflexivity] ].
Qed.

Lemma update_position_reply_vamms w i o id w' subs : update_position_reply w i o id = Ok (w', subs) ->
  w_vamms w' = w_vamms w /\ w_env w' = w_env w.
Proof. unfold update_position_reply. intros H. arm H; split; reflexivity. Qed.

Lemma pair_band vm0 e0 v0 t0 w m id w1 ev w2 subs :
  pendb vm0 e0 v0 t0 w m id ->
  exec_simple w A_ENGINE m = Ok (w1, ev) ->
  contract_reply w1 A_ENGINE id (Ok ev) = Ok (w2, subs) ->
  readyb vm0 e0 v0 t0 w2 subs.
Proof.
  intros (Henv & vm & Hz & Hwf & Hfl & Hpb & Hcase) Hex Hre.
  unfold contract_reply, engine_reply in Hre. rewrite Z.eqb_refl in Hre.
  destruct Hcase as [(Hid & d & q & l & -> & Hq) | (-> & (d & b & l & -> & Hb) & Hst & tm & Htmp & Hv & Ht)].
  - (* a swap_input that may not go over the band, then the increase / reduce reply *)
    apply exec_swap_input in Hex. destruct Hex as (vm1 & vm' & qa & ba & Hz1 & Hsw & -> & ->).
    rewrite Hz in Hz1. injection Hz1 as <-. rewrite Henv in Hsw.
    pose proof (swap_input_in_band _ _ _ _ _ _ _ _ _ Hwf Hq Hfl Hsw) as (upper & lower & cur & post & Hb1 & _ & _ & Hpost & Hin).
    assert (Hrep : exists id', update_position_reply (set_vamm w v0 vm') qa ba id' = Ok (w2, subs)).
    { destruct Hid as [-> | ->].
      - change (INCREASE_ID =? INCREASE_ID) with true in Hre. cbn iota in Hre. eauto.
      - change (DECREASE_ID =? INCREASE_ID) with false in Hre. change (DECREASE_ID =? DECREASE_ID) with true in Hre. cbn iota in Hre. eauto. }
    destruct Hrep as [id' Hrep].
    pose proof (update_position_reply_leafy _ _ _ _ _ _ Hrep) as Hl.
    apply update_position_reply_vamms in Hrep. destruct Hrep as [Ev _].
    apply readyb_leafy; [exact Hl|]. left. exists vm'. split.
    + rewrite Ev. cbn [w_vamms set_vamm]. apply zfind_zset_same.
    + exists upper, lower, post. rewrite <- Hpb. repeat split; try assumption; apply Hin.
  - (* the reversal: the old position is swapped out, then either nothing or a re-opening swap_input *)
    apply exec_swap_output in Hex. destruct Hex as (vm1 & vm' & qa & ba & Hz1 & Hsw & -> & ->).
    rewrite Hz in Hz1. injection Hz1 as <-. rewrite Henv in Hsw.
    change (REVERSE_ID =? INCREASE_ID) with false in Hre. change (REVERSE_ID =? DECREASE_ID) with false in Hre.
    change (REVERSE_ID =? REVERSE_ID) with true in Hre. cbn iota in Hre.
    pose proof (swap_output_boundaries _ _ _ _ _ _ _ _ _ Hsw Hst) as [Hpb' Hst'].
    pose proof (swap_output_c01 _ _ _ _ _ _ _ _ _ Hwf Hb Hsw) as (Hwf' & _ & _ & Hvc & _).
    eapply reverse_position_reply_reopen in Hre; [|cbn [w_eng set_vamm]; exact Htmp].
    destruct Hre as (Ev & Ee & [[Hl Hsz] | (fees & q & Hl & -> & Hq & _)]).
    + apply readyb_leafy; [exact Hl|]. right. rewrite Hv, Ht in Hsz. exact Hsz.
    + apply readyb_leafy_app; [exact Hl|].
      cbn [readyb internal_increase_position swap_input_msg sm_reply wants_ok sm_msg sm_id].
      split; [reflexivity|split; [reflexivity|]].
      split; [rewrite Ee; exact Henv|]. exists vm'. split; [rewrite Ev; cbn [w_vamms set_vamm]; apply zfind_zset_same|].
      split; [exact Hwf'|]. split; [rewrite Hvc; exact Hfl|]. split; [rewrite Hpb'; exact Hpb|].
      left. split; [left; reflexivity|]. rewrite Hv. do 3 eexists. split; [reflexivity|exact Hq].
Qed.

Lemma pendb_is_swap vm0 e0 v0 t0 w m id : pendb vm0 e0 v0 t0 w m id -> is_swap m = true.
Proof.
  intros (_ & vm & _ & _ & _ & _ & [(_ & d & q & l & -> & _) | (_ & (d & b & l & -> & _) & _)]); reflexivity.
Qed.

Lemma dispatch_band vm0 e0 v0 t0 fuel : forall f w n subs w' n',
  dispatch fuel f w n A_ENGINE subs = Ok (w', n') -> readyb vm0 e0 v0 t0 w subs -> goalb vm0 e0 v0 t0 w'.
Proof.
  induction fuel as [|k IH]; intros f w n subs w' n' H Hr; [discriminate|].
  cbn [dispatch] in H. destruct subs as [|s rest]; [inv_ok; exact Hr|].
  cbn [readyb] in Hr.
  destruct (n =? f).
  - destruct (wants_err (sm_reply s)); [|discriminate].
    destruct (contract_reply_err w A_ENGINE (sm_id s) ESub) as [e' He]. rewrite He in H. discriminate.
  - destruct (wants_ok (sm_reply s)) eqn:Ewo.
    + destruct Hr as (-> & Hra & Hpe). rewrite Hra in H. cbn [wants_err] in H.
      pose proof (pendb_is_swap _ _ _ _ _ _ _ Hpe) as Hsw.
      destruct (sm_msg s) eqn:Em; try discriminate Hsw;
      (destruct (exec_simple w A_ENGINE _) as [[w1 ev]|e] eqn:Ex; cbn [bind fst snd] in H;
       [ destruct (contract_reply w1 A_ENGINE (sm_id s) (Ok ev)) as [[w2 s2]|] eqn:Er; cbn [bind fst snd] in H; [|discriminate];
         destruct (dispatch k f w2 (n + 1) A_ENGINE s2) as [[w3 n3]|] eqn:Ed; cbn [bind fst snd] in H; [|discriminate];
         pose proof (pair_band _ _ _ _ _ _ _ _ _ _ _ Hpe Ex Er) as Hr2;
         apply IH in Ed; [|exact Hr2];
         apply IH in H; [exact H | exact Ed]
       | destruct (contract_reply_err w A_ENGINE (sm_id s) e) as [e' He]; rewrite He in H; discriminate ]).
    + destruct Hr as (Hlf & Hr).
      destruct (sm_msg s) eqn:Em; try discriminate Hlf;
      try (destruct (exec_simple w A_ENGINE _) as [[w1 ev]|e] eqn:Ex; cbn [bind fst snd] in H;
           [ apply exec_leaf_core in Ex; [|reflexivity]; apply IH in H; [exact H | eapply readyb_core; eauto]
           | destruct (wants_err (sm_reply s)); [|discriminate];
             destruct (contract_reply_err w A_ENGINE (sm_id s) e) as [e' He]; rewrite He in H; discriminate ]).
      destruct (target =? A_IFUND); cbn [bind] in H.
      * destruct (if_withdraw w A_ENGINE amt) as [[w1 s1]|e] eqn:Ew; cbn [bind fst snd] in H.
        -- apply if_withdraw_leafy in Ew. destruct Ew as [-> Hs1'].
           destruct (dispatch k f w (n + 1) A_IFUND s1) as [[w2 n2]|e] eqn:Ed; cbn [bind fst snd] in H.
           ++ apply dispatch_leafy_core in Ed; [|assumption]. apply IH in H; [exact H | eapply readyb_core; eauto].
           ++ destruct (wants_err (sm_reply s)); [|discriminate].
              destruct (contract_reply_err w A_ENGINE (sm_id s) e) as [e' He]; rewrite He in H; discriminate.
        -- destruct (wants_err (sm_reply s)); [|discriminate].
           destruct (contract_reply_err w A_ENGINE (sm_id s) e) as [e' He]; rewrite He in H; discriminate.
      * destruct (wants_err (sm_reply s)); [|discriminate].
        destruct (contract_reply_err w A_ENGINE (sm_id s) EDecode) as [e' He]; rewrite He in H; discriminate.
Qed.

(* ---------- the transaction ---------- *)
Lemma attach_funds_vamms w s c funds w0 : attach_funds w s c funds = Ok w0 -> w_vamms w0 = w_vamms w.
Proof. unfold attach_funds. intros H. minv H; inv_ok; reflexivity. Qed.

Lemma open_position_readyb w t v s m l lim f w1 subs vm0 :
  e_open_position w t v s m l lim f = Ok (w1, subs) ->
  zfind v (w_vamms w) = Some vm0 -> wfv vm0 -> v_fluct (vc vm0) <> 0 -> stable vm0 (w_env w) ->
  0 <= m -> 0 <= l -> 0 < e_dec (ec (w_eng w)) ->
  (forall p, find_position (w_eng w) v t = Some p -> 0 <= sval (p_size p)) ->
  readyb vm0 (w_env w) v t w1 subs.
Proof.
  intros H Hz Hwf Hfl Hst Hm Hl HD Hpos.
  pose proof (open_position_swaps _ _ _ _ _ _ _ _ _ _ H) as (msg & -> & Hshape).
  pose proof (open_position_tmp _ _ _ _ _ _ _ _ _ _ H) as (tm & Htm & Hv & Ht & _ & Hon & Hlev & _).
  assert (Hcore : w_vamms w1 = w_vamms w /\ w_env w1 = w_env w).
  { unfold e_open_position in H. arm H; split; reflexivity. }
  destruct Hcore as [Ev Ee].
  assert (Hra : sm_reply msg = RAlways).
  { unfold e_open_position in H. arm H.
    all: match goal with Heq : [_] = [msg] |- _ => injection Heq as <- | Heq : [msg] = [_] |- _ => injection Heq as -> | _ => idtac end.
    all: repeat match goal with |- context [if ?c then _ else _] => destruct c end; reflexivity. }
  cbn [readyb]. rewrite Hra. cbn [wants_ok]. split; [reflexivity|split; [reflexivity|]].
  split; [exact Ee|]. exists vm0. split; [rewrite Ev; exact Hz|]. split; [exact Hwf|]. split; [exact Hfl|]. split; [reflexivity|].
  destruct Hshape as [(q & id & Hmsg & Hid & Hids) | (d & b & Hmsg & Hid)].
  - left. rewrite Hid. split; [exact Hids|]. rewrite Hmsg. do 3 eexists. split; [reflexivity|].
    unfold e_open_position in H. arm H. arith_ok. subst.
    all: match goal with Hm0 : sm_msg _ = MSwapInput _ _ ?q0 _ _ |- 0 <= ?q0 =>
           repeat match type of Hm0 with context [if ?c then _ else _] => destruct c end;
           cbn [internal_increase_position swap_input_msg swap_output_msg sm_msg] in Hm0; try discriminate Hm0;
           injection Hm0 as <-; (apply Z.div_pos; [apply Z.mul_nonneg_nonneg; lia|lia]) end.
  - right. rewrite Hid. split; [reflexivity|]. split.
    + rewrite Hmsg. do 3 eexists. split; [reflexivity|].
      unfold e_open_position in H. arm H.
      all: match goal with Hm0 : sm_msg _ = MSwapOutput _ _ ?b0 _ |- 0 <= ?b0 =>
             repeat match type of Hm0 with context [if ?c then _ else _] => destruct c end;
             cbn [internal_increase_position swap_input_msg swap_output_msg sm_msg] in Hm0; try discriminate Hm0;
             injection Hm0 as _ <-;
             (unfold get_position; match goal with |- context [find_position ?e0 ?v1 ?t1] => destruct (find_position e0 v1 t1) as [p0|] eqn:Ef end; [exact (Hpos _ eq_refl)|cbn; lia]) end.
    + split; [exact Hst|]. exists tm. split; [exact Htm|]. split; [exact Hv|]. exact Ht.
Qed.

Theorem open_position_ends_in_band f w t v s m l lim funds w' vm0 :
  exec_op f w (OEngine t (EOpenPosition v s m l lim) funds) = Ok w' ->
  zfind v (w_vamms w) = Some vm0 -> wfv vm0 -> v_fluct (vc vm0) <> 0 -> stable vm0 (w_env w) ->
  0 <= m -> 0 <= l -> 0 < e_dec (ec (w_eng w)) ->
  (forall p, find_position (w_eng w) v t = Some p -> 0 <= sval (p_size p)) ->
  (exists vm', zfind v (w_vamms w') = Some vm' /\ inb vm0 (w_env w) vm') \/
  sval (p_size (read_position (w_eng w') v t)) = 0.
Proof.
  intros H Hz Hwf Hfl Hst Hm Hl HD Hpos. cbn [exec_op] in H. revert H. generalize FUEL. intros fuel H.
  destruct (attach_funds w t A_ENGINE funds) as [w0|] eqn:Ea; [|discriminate]. cbn [bind] in H.
  pose proof (attach_funds_core _ _ _ _ _ Ea) as [E1 E2]. pose proof (attach_funds_vamms _ _ _ _ _ Ea) as E3.
  cbn [engine_execute] in H.
  destruct (e_open_position w0 t v s m l lim funds) as [[w1 subs]|] eqn:Eo; [|discriminate]. cbn [bind fst snd] in H.
  destruct (dispatch fuel f w1 0 A_ENGINE subs) as [[w2 n2]|] eqn:Ed; [|discriminate]. cbn [bind fst] in H. inv_ok.
  eapply open_position_readyb in Eo; try (rewrite ?E1, ?E2, ?E3; eassumption).
  rewrite E2 in Eo. exact (dispatch_band _ _ _ _ _ _ _ _ _ _ _ Ed Eo).
Qed.
