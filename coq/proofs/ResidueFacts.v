(* After any transaction the engine holds no in-flight swap, sent-funds or liquidator record (C08). *)
From MP.Model Require Import Prelude U128 SInt Feed Vamm VammOps Token World Engine Runtime.
From MP.Proofs Require Import Tactics MapFacts RuntimeFacts FrameFacts.

Definition clean (e : engine) : Prop := e_tmp e = None /\ e_sent e = None /\ e_liq e = None.

Definition is_swap (m : msg) : bool :=
  match m with MSwapInput _ _ _ _ _ | MSwapOutput _ _ _ _ | MSettleFunding _ => true | _ => false end.

(* what must hold of the in-flight records when the reply with this id runs *)
Definition state_for (id : Z) (e : engine) : Prop :=
  if (id =? INCREASE_ID) || (id =? DECREASE_ID) || (id =? REVERSE_ID) then e_liq e = None
  else if (id =? CLOSE_ID) || (id =? PARTIAL_CLOSE_ID) then e_sent e = None /\ e_liq e = None
  else if (id =? LIQUIDATION_ID) || (id =? PARTIAL_LIQUIDATION_ID) then e_sent e = None
  else clean e.

(* a pending message list is consistent with the in-flight records: leaves (no reply on success)
   may come first; at most one replying swap, last, with the records its reply expects *)
Fixpoint ready (e : engine) (subs : list submsg) : Prop :=
  match subs with
  | [] => clean e
  | s :: rest =>
      if wants_ok (sm_reply s) then rest = [] /\ is_swap (sm_msg s) = true /\ sm_reply s = RAlways /\ state_for (sm_id s) e
      else is_swap (sm_msg s) = false /\ ready e rest
  end.

Definition noreply (s : submsg) : Prop := wants_ok (sm_reply s) = false /\ is_swap (sm_msg s) = false.

Lemma ready_noreply_app e l1 l2 : Forall noreply l1 -> (ready e (l1 ++ l2) <-> ready e l2).
Proof.
  induction l1 as [|s l IH]; intros H; cbn [app ready]; [tauto|].
  inversion H as [|? ? [Hs1 Hs2] Hl]; subst. rewrite Hs1. rewrite IH by assumption. tauto.
Qed.

Lemma ready_noreply e l : Forall noreply l -> (ready e l <-> clean e).
Proof. intros H. rewrite <- (app_nil_r l). rewrite ready_noreply_app by assumption. cbn. tauto. Qed.

Lemma noreply_transfer r a : noreply (execute_transfer r a). Proof. split; reflexivity. Qed.
Lemma noreply_transfer_from w o r a : noreply (execute_transfer_from w o r a).
Proof. unfold execute_transfer_from. destruct (t_native (w_tok w)); split; reflexivity. Qed.
Lemma noreply_ifw w a : noreply (execute_insurance_fund_withdrawal w a). Proof. split; reflexivity. Qed.
Lemma noreply_to_if w a : noreply (execute_transfer_to_insurance_fund w a). Proof. split; reflexivity. Qed.

Lemma noreply_withdraw w st r a p st' msgs : withdraw w st r a p = Ok (st', msgs) -> Forall noreply msgs.
Proof. unfold withdraw. intros H. minv H; inv_ok; repeat constructor. Qed.
Lemma noreply_fees w f v n msgs s t : transfer_fees w f v n = Ok (msgs, s, t) -> Forall noreply msgs.
Proof.
  unfold transfer_fees. intros H. minv H. inv_ok. apply Forall_app. split; destr_if; repeat constructor; apply noreply_transfer_from.
Qed.
Lemma noreply_realize w st bd msgs st' pp : realize_bad_debt w st bd = Ok (msgs, st', pp) -> Forall noreply msgs.
Proof. unfold realize_bad_debt. intros H. minv H; inv_ok; repeat constructor. Qed.

Global Hint Resolve noreply_transfer noreply_transfer_from noreply_ifw noreply_to_if : nr.

(* ---------- dispatch of leaves leaves the engine alone (any sender) ---------- *)
Lemma if_withdraw_noreply w s a w' subs : if_withdraw w s a = Ok (w', subs) -> w' = w /\ Forall noreply subs.
Proof. unfold if_withdraw. intros H. minv H. inv_ok. split; [reflexivity|]. repeat constructor. Qed.

Lemma dispatch_noreply_eng fuel : forall f w n sender subs w' n',
  dispatch fuel f w n sender subs = Ok (w', n') -> Forall noreply subs -> w_eng w' = w_eng w.
Proof.
  induction fuel as [|k IH]; intros f w n sender subs w' n' H Hn; [discriminate|].
  cbn [dispatch] in H. destruct subs as [|s rest]; [inv_ok; reflexivity|].
  inversion Hn as [|? ? [Hs1 Hs2] Hrest]; subst. rewrite Hs1 in H.
  destruct (n =? f).
  - destruct (wants_err (sm_reply s)); [|discriminate].
    destruct (contract_reply_err w sender (sm_id s) ESub) as [e' He]. rewrite He in H. discriminate.
  - destruct (sm_msg s) eqn:Em; try discriminate Hs2;
    try (destruct (exec_simple w sender _) as [[w1 ev]|e] eqn:Ex; cbn [bind fst snd] in H;
         [ apply exec_simple_eng in Ex; apply IH in H; [congruence|assumption]
         | destruct (wants_err (sm_reply s)); [|discriminate];
           destruct (contract_reply_err w sender (sm_id s) e) as [e' He]; rewrite He in H; discriminate ]).
    destruct (target =? A_IFUND); cbn [bind] in H.
    + destruct (if_withdraw w sender amt) as [[w1 s1]|e] eqn:Ew; cbn [bind fst snd] in H.
      * apply if_withdraw_noreply in Ew. destruct Ew as [-> Hs1'].
        destruct (dispatch k f w (n + 1) A_IFUND s1) as [[w2 n2]|e] eqn:Ed; cbn [bind fst snd] in H.
        -- apply IH in Ed; [|assumption]. apply IH in H; [congruence|assumption].
        -- destruct (wants_err (sm_reply s)); [|discriminate].
           destruct (contract_reply_err w sender (sm_id s) e) as [e' He]; rewrite He in H; discriminate.
      * destruct (wants_err (sm_reply s)); [|discriminate].
        destruct (contract_reply_err w sender (sm_id s) e) as [e' He]; rewrite He in H; discriminate.
    + destruct (wants_err (sm_reply s)); [|discriminate].
      destruct (contract_reply_err w sender (sm_id s) EDecode) as [e' He]; rewrite He in H; discriminate.
Qed.

(* ---------- reply arms ---------- *)
Ltac clean_goal :=
  unfold clean;
  cbn [w_eng set_eng e_tmp e_sent e_liq eng_set_tmp eng_set_state eng_set_sent eng_set_liq eng_set_vmap
       enter_restriction_mode store_position remove_position];
  repeat split; auto.

Ltac noreply_goal :=
  repeat first
  [ apply Forall_nil
  | apply Forall_app; split
  | apply Forall_cons; [auto with nr|]
  | match goal with
    | Hw : withdraw _ _ _ _ _ = Ok (_, ?m) |- Forall noreply ?m => exact (noreply_withdraw _ _ _ _ _ _ _ Hw)
    | Hf : transfer_fees _ _ _ _ = Ok (?m, _, _) |- Forall noreply ?m => exact (noreply_fees _ _ _ _ _ _ _ Hf)
    | Hr : realize_bad_debt _ _ _ = Ok (?m, _, _) |- Forall noreply ?m => exact (noreply_realize _ _ _ _ _ _ Hr)
    end
  | destr_if ].

Ltac arm H :=
  unfold need_tmp, need_sent, need_liq in H; minv H; minv_all; inv_ok; subst;
  repeat match goal with x : (_ * _)%type |- _ => destruct x end; cbn [fst snd] in *.

Lemma update_position_reply_ready w i o id w' subs :
  update_position_reply w i o id = Ok (w', subs) -> e_liq (w_eng w) = None ->
  clean (w_eng w') /\ Forall noreply subs.
Proof. unfold update_position_reply. intros H Hl. arm H; (split; [clean_goal | noreply_goal]). Qed.

Lemma close_position_reply_ready w i o w' subs :
  close_position_reply w i o = Ok (w', subs) -> e_sent (w_eng w) = None -> e_liq (w_eng w) = None ->
  clean (w_eng w') /\ Forall noreply subs.
Proof. unfold close_position_reply. intros H Hs Hl. arm H; (split; [clean_goal | noreply_goal]). Qed.

Lemma partial_close_position_reply_ready w i o w' subs :
  partial_close_position_reply w i o = Ok (w', subs) -> e_sent (w_eng w) = None -> e_liq (w_eng w) = None ->
  clean (w_eng w') /\ Forall noreply subs.
Proof. unfold partial_close_position_reply. intros H Hs Hl. arm H; (split; [clean_goal | noreply_goal]). Qed.

Lemma liquidate_reply_ready w i o w' subs :
  liquidate_reply w i o = Ok (w', subs) -> e_sent (w_eng w) = None ->
  clean (w_eng w') /\ Forall noreply subs.
Proof. unfold liquidate_reply. intros H Hs. arm H; (split; [clean_goal | noreply_goal]). Qed.

Lemma partial_liquidation_reply_ready w i o w' subs :
  partial_liquidation_reply w i o = Ok (w', subs) -> e_sent (w_eng w) = None ->
  clean (w_eng w') /\ Forall noreply subs.
Proof. unfold partial_liquidation_reply. intros H Hs. arm H; (split; [clean_goal | noreply_goal]). Qed.

Lemma pay_funding_reply_ready w pf v w' subs :
  pay_funding_reply w pf v = Ok (w', subs) -> clean (w_eng w) ->
  clean (w_eng w') /\ Forall noreply subs.
Proof.
  unfold pay_funding_reply, append_cumulative_premium_fraction. intros H (H1 & H2 & H3).
  arm H; (split; [clean_goal | noreply_goal]).
Qed.

Lemma reverse_position_reply_ready w i o w' subs :
  reverse_position_reply w i o = Ok (w', subs) -> e_liq (w_eng w) = None -> ready (w_eng w') subs.
Proof.
  unfold reverse_position_reply. intros H Hl. arm H.
  all: first
    [ (* ends flat *)
      apply ready_noreply; [noreply_goal | clean_goal]; fail
    | (* re-opens: fee messages, then the increase swap whose reply finds no liquidator record *)
      apply ready_noreply_app; [noreply_goal|];
      cbn [ready internal_increase_position swap_input_msg sm_reply wants_ok sm_msg is_swap sm_id];
      repeat split; unfold state_for; cbn; clean_goal ].
Qed.

Lemma contract_reply_ready w id ev w' subs :
  contract_reply w A_ENGINE id (Ok ev) = Ok (w', subs) -> state_for id (w_eng w) -> ready (w_eng w') subs.
Proof.
  unfold contract_reply, engine_reply. rewrite Z.eqb_refl. intros H Hs. unfold state_for in Hs.
  destruct ev; try discriminate.
  - destruct (Z.eqb_spec id INCREASE_ID) as [->|]; [cbn in Hs; apply update_position_reply_ready in H; auto; apply ready_noreply; tauto|].
    destruct (Z.eqb_spec id DECREASE_ID) as [->|]; [cbn in Hs; apply update_position_reply_ready in H; auto; apply ready_noreply; tauto|].
    destruct (Z.eqb_spec id REVERSE_ID) as [->|]; [cbn in Hs; apply reverse_position_reply_ready in H; auto|].
    destruct (Z.eqb_spec id CLOSE_ID) as [->|]; [cbn in Hs; destruct Hs; apply close_position_reply_ready in H; auto; apply ready_noreply; tauto|].
    destruct (Z.eqb_spec id PARTIAL_CLOSE_ID) as [->|]; [cbn in Hs; destruct Hs; apply partial_close_position_reply_ready in H; auto; apply ready_noreply; tauto|].
    destruct (Z.eqb_spec id LIQUIDATION_ID) as [->|]; [cbn in Hs; apply liquidate_reply_ready in H; auto; apply ready_noreply; tauto|].
    destruct (Z.eqb_spec id PARTIAL_LIQUIDATION_ID) as [->|]; [cbn in Hs; apply partial_liquidation_reply_ready in H; auto; apply ready_noreply; tauto|].
    discriminate.
  - destruct (Z.eqb_spec id PAY_FUNDING_ID) as [->|]; [|discriminate].
    cbn in Hs. apply pay_funding_reply_ready in H; auto. apply ready_noreply; tauto.
Qed.

Lemma exec_simple_swap_only w s m w' ev : exec_simple w s m = Ok (w', ev) -> w_eng w' = w_eng w.
Proof. apply exec_simple_eng. Qed.

Lemma dispatch_ready fuel : forall f w n subs w' n',
  dispatch fuel f w n A_ENGINE subs = Ok (w', n') -> ready (w_eng w) subs -> clean (w_eng w').
Proof.
  induction fuel as [|k IH]; intros f w n subs w' n' H Hr; [discriminate|].
  cbn [dispatch] in H. destruct subs as [|s rest]; [inv_ok; exact Hr|].
  cbn [ready] in Hr.
  destruct (n =? f).
  - destruct (wants_err (sm_reply s)); [|discriminate].
    destruct (contract_reply_err w A_ENGINE (sm_id s) ESub) as [e' He]. rewrite He in H. discriminate.
  - destruct (wants_ok (sm_reply s)) eqn:Ewo.
    + destruct Hr as (-> & Hsw & Hra & Hst). rewrite Hra in H. cbn [wants_err] in H.
      destruct (sm_msg s) eqn:Em; try discriminate Hsw;
      (destruct (exec_simple w A_ENGINE _) as [[w1 ev]|e] eqn:Ex; cbn [bind fst snd] in H;
       [ apply exec_simple_eng in Ex;
         destruct (contract_reply w1 A_ENGINE (sm_id s) (Ok ev)) as [[w2 s2]|] eqn:Er; cbn [bind fst snd] in H; [|discriminate];
         destruct (dispatch k f w2 (n + 1) A_ENGINE s2) as [[w3 n3]|] eqn:Ed; cbn [bind fst snd] in H; [|discriminate];
         apply contract_reply_ready in Er; [|rewrite Ex; exact Hst];
         apply IH in Ed; [|exact Er];
         apply IH in H; [exact H | exact Ed]
       | destruct (contract_reply_err w A_ENGINE (sm_id s) e) as [e' He]; rewrite He in H; discriminate ]).
    + destruct Hr as (Hsw & Hr).
      assert (Hone : Forall noreply [s]) by (constructor; [split; assumption|constructor]).
      (* run the single leaf, then the rest *)
      destruct (sm_msg s) eqn:Em; try discriminate Hsw;
      try (destruct (exec_simple w A_ENGINE _) as [[w1 ev]|e] eqn:Ex; cbn [bind fst snd] in H;
           [ apply exec_simple_eng in Ex; apply IH in H; [exact H | rewrite Ex; exact Hr]
           | destruct (wants_err (sm_reply s)); [|discriminate];
             destruct (contract_reply_err w A_ENGINE (sm_id s) e) as [e' He]; rewrite He in H; discriminate ]).
      destruct (target =? A_IFUND); cbn [bind] in H.
      * destruct (if_withdraw w A_ENGINE amt) as [[w1 s1]|e] eqn:Ew; cbn [bind fst snd] in H.
        -- apply if_withdraw_noreply in Ew. destruct Ew as [-> Hs1'].
           destruct (dispatch k f w (n + 1) A_IFUND s1) as [[w2 n2]|e] eqn:Ed; cbn [bind fst snd] in H.
           ++ apply dispatch_noreply_eng in Ed; [|assumption]. apply IH in H; [exact H | rewrite Ed; exact Hr].
           ++ destruct (wants_err (sm_reply s)); [|discriminate].
              destruct (contract_reply_err w A_ENGINE (sm_id s) e) as [e' He]; rewrite He in H; discriminate.
        -- destruct (wants_err (sm_reply s)); [|discriminate].
           destruct (contract_reply_err w A_ENGINE (sm_id s) e) as [e' He]; rewrite He in H; discriminate.
      * destruct (wants_err (sm_reply s)); [|discriminate].
        destruct (contract_reply_err w A_ENGINE (sm_id s) EDecode) as [e' He]; rewrite He in H; discriminate.
Qed.

Ltac sf := unfold state_for, INCREASE_ID, DECREASE_ID, REVERSE_ID, CLOSE_ID, PARTIAL_CLOSE_ID, LIQUIDATION_ID,
  PARTIAL_LIQUIDATION_ID, PAY_FUNDING_ID; cbn [Z.eqb Pos.eqb orb].

(* ---------- execute arms ---------- *)
Lemma partial_liquidation_ready w v t l r : partial_liquidation w v t l = Ok r ->
  e_sent (w_eng w) = None -> ready (w_eng (fst r)) [snd r].
Proof.
  unfold partial_liquidation. intros H Hs. minv H. inv_ok. cbn [fst snd ready swap_output_msg sm_reply wants_ok sm_msg is_swap sm_id].
  repeat split. sf. exact Hs.
Qed.

Lemma engine_execute_ready w s m funds w' subs :
  engine_execute w s m funds = Ok (w', subs) -> clean (w_eng w) -> ready (w_eng w') subs.
Proof.
  unfold engine_execute. intros H (H1 & H2 & H3). destruct m.
  - unfold e_update_config in H. arm H; cbn [ready]; clean_goal.
  - unfold e_update_pauser in H. arm H; cbn [ready]; clean_goal.
  - unfold e_add_whitelist in H. arm H; cbn [ready]; clean_goal.
  - unfold e_remove_whitelist in H. arm H; cbn [ready]; clean_goal.
  - unfold e_open_position in H. arm H;
    repeat match goal with |- context [ready _ [if ?c then _ else _]] => destruct c eqn:? end;
    cbn [ready internal_increase_position swap_input_msg swap_output_msg sm_reply wants_ok sm_msg is_swap sm_id];
    repeat split; sf; clean_goal.
  - unfold e_close_position, internal_close_position in H. arm H;
    cbn [ready swap_input_msg swap_output_msg sm_reply wants_ok sm_msg is_swap sm_id];
    repeat split; sf; clean_goal.
  - unfold e_liquidate, internal_close_position in H. arm H;
    try (cbn [ready swap_input_msg swap_output_msg sm_reply wants_ok sm_msg is_swap sm_id];
         repeat split; sf; clean_goal; fail).
    all: match goal with Hp : partial_liquidation _ _ _ _ = Ok _ |- _ => apply partial_liquidation_ready in Hp; [exact Hp | exact H2] end.
  - unfold e_pay_funding in H. arm H; cbn [ready sm_reply wants_ok sm_msg is_swap sm_id]; repeat split; sf; clean_goal.
  - unfold e_deposit_margin in H. arm H; (apply ready_noreply; [noreply_goal | clean_goal]).
  - unfold e_withdraw_margin in H. arm H; (apply ready_noreply; [noreply_goal | clean_goal]).
  - unfold e_set_pause in H. arm H; cbn [ready]; clean_goal.
Qed.

(* ---------- every transaction of every contract leaves the engine clean ---------- *)
Lemma exec_op_clean f w o w' : exec_op f w o = Ok w' -> clean (w_eng w) -> clean (w_eng w').
Proof.
  intros H Hc. destruct o; cbn [exec_op] in H; revert H; generalize FUEL; intros fuel H.
  - inv_ok. exact Hc.
  - inv_bind H. inv_bind H. inv_bind H. inv_ok. destruct x0 as [w1 subs], x1 as [w2 n2]. cbn [fst snd] in *.
    assert (Ea : w_eng x = w_eng w) by (unfold attach_funds in Hx; minv Hx; inv_ok; reflexivity).
    apply engine_execute_ready in Hx0; [|rewrite Ea; exact Hc].
    eapply dispatch_ready; eauto.
  - minv H; inv_ok; exact Hc.
  - inv_bind H. inv_bind H. inv_ok. destruct x as [w1 subs], x0 as [w2 n2]. cbn [fst snd] in *.
    assert (E1 : w_eng w1 = w_eng w /\ Forall noreply subs).
    { destruct m; [unfold if_update_owner in Hx|unfold if_add_vamm in Hx|unfold if_remove_vamm in Hx|unfold if_withdraw in Hx|unfold if_shutdown in Hx];
      minv Hx; inv_ok; split; try reflexivity; repeat constructor.
      apply Forall_forall. intros sm Hin. apply in_map_iff in Hin. destruct Hin as (a & <- & _). split; reflexivity. }
    destruct E1 as [E1 E2]. apply dispatch_noreply_eng in Hx0; [|exact E2]. rewrite Hx0, E1. exact Hc.
  - inv_bind H. inv_bind H. inv_ok. destruct x as [w1 subs], x0 as [w2 n2]. cbn [fst snd] in *.
    assert (E1 : w_eng w1 = w_eng w /\ Forall noreply subs).
    { destruct m; [unfold fp_update_owner in Hx|unfold fp_add_token in Hx|unfold fp_remove_token in Hx|unfold fp_send_token in Hx];
      minv Hx; inv_ok; split; try reflexivity; repeat constructor. }
    destruct E1 as [E1 E2]. apply dispatch_noreply_eng in Hx0; [|exact E2]. rewrite Hx0, E1. exact Hc.
  - destruct m; minv H; inv_ok; exact Hc.
  - minv H; inv_ok; exact Hc.
Qed.

Lemma step_clean f w o : clean (w_eng w) -> clean (w_eng (fst (step_f f w o))).
Proof. intros Hc. unfold step_f. destruct (exec_op f w o) eqn:E; cbn [fst]; [eapply exec_op_clean; eauto | exact Hc]. Qed.

Lemma run_clean ops : forall w, clean (w_eng w) -> clean (w_eng (run w ops)).
Proof.
  induction ops as [|o ops IH]; intros w Hc; cbn [run fold_left]; [exact Hc|].
  fold (run (step w o) ops). apply IH. unfold step. apply step_clean. exact Hc.
Qed.

Lemma init_world_clean e d w : init_world e d = Ok w -> clean (w_eng w).
Proof. unfold init_world, engine_instantiate. intros H. minv H; minv_all; inv_ok; subst; repeat split. Qed.
