(* Transaction-level corollaries of the guard lemmas: a refused engine call is a failed transaction that
   returns the very same world (C09, C14). *)
From MP.Model Require Import Prelude U128 SInt Feed Vamm VammOps Token World Engine Runtime.
From MP.Proofs Require Import Tactics MapFacts SIntFacts ConfigFacts EngineGuards RuntimeFacts MoreFacts.

Lemma engine_refusal_is_failed_tx f w s m funds :
  (forall w0, w_eng w0 = w_eng w -> w_env w0 = w_env w -> w_vamms w0 = w_vamms w -> w_if w0 = w_if w ->
     exists e, engine_execute w0 s m funds = Err e) ->
  step_f f w (OEngine s m funds) = (w, false).
Proof.
  intros Hr. unfold step_f. cbn [exec_op].
  destruct (attach_funds w s A_ENGINE funds) as [w0|] eqn:Ea; [|reflexivity]. cbn [bind].
  destruct (attach_funds_core _ _ _ _ _ Ea) as [E1 E2].
  assert (E3 : w_vamms w0 = w_vamms w /\ w_if w0 = w_if w) by (unfold attach_funds in Ea; destruct (funds =? 0); [inv_ok; auto|]; minv Ea; inv_ok; auto).
  destruct (Hr w0 E1 E2 (proj1 E3) (proj2 E3)) as [e He]. rewrite He. reflexivity.
Qed.

(* ---------- C14: a paused engine refuses the four trader operations, nothing changes ---------- *)
Lemma paused_open_tx f w t v s m l lim funds : e_pause (es (w_eng w)) = true ->
  step_f f w (OEngine t (EOpenPosition v s m l lim) funds) = (w, false).
Proof. intros H. apply engine_refusal_is_failed_tx. intros w0 E _ _ _. cbn [engine_execute]. eexists. apply open_paused. rewrite E. exact H. Qed.
Lemma paused_close_tx f w t v lim funds : e_pause (es (w_eng w)) = true ->
  step_f f w (OEngine t (EClosePosition v lim) funds) = (w, false).
Proof. intros H. apply engine_refusal_is_failed_tx. intros w0 E _ _ _. cbn [engine_execute]. eexists. apply close_paused. rewrite E. exact H. Qed.
Lemma paused_deposit_tx f w t v a funds : e_pause (es (w_eng w)) = true ->
  step_f f w (OEngine t (EDepositMargin v a) funds) = (w, false).
Proof. intros H. apply engine_refusal_is_failed_tx. intros w0 E _ _ _. cbn [engine_execute]. eexists. apply deposit_paused. rewrite E. exact H. Qed.
Lemma paused_withdraw_tx f w t v a funds : e_pause (es (w_eng w)) = true ->
  step_f f w (OEngine t (EWithdrawMargin v a) funds) = (w, false).
Proof. intros H. apply engine_refusal_is_failed_tx. intros w0 E _ _ _. cbn [engine_execute]. apply withdraw_paused. rewrite E. exact H. Qed.

(* ---------- C14: an unregistered or closed vAMM: open / withdraw / pay funding / liquidate refused ---------- *)
Lemma require_vamm_same w w0 v : w_eng w0 = w_eng w -> w_vamms w0 = w_vamms w -> w_if w0 = w_if w ->
  require_vamm w0 v = require_vamm w v.
Proof. intros E1 E2 E3. unfold require_vamm, query_is_vamm, get_vamm. rewrite E1, E2, E3. reflexivity. Qed.

Lemma no_vamm_open_tx f w t v s m l lim funds : require_vamm w v <> Ok tt ->
  step_f f w (OEngine t (EOpenPosition v s m l lim) funds) = (w, false).
Proof.
  intros H. apply engine_refusal_is_failed_tx. intros w0 E1 _ E2 E3. cbn [engine_execute].
  destruct (e_open_position w0 t v s m l lim funds) as [r|e] eqn:Eo; [|eauto].
  apply open_requires_vamm in Eo. rewrite (require_vamm_same w w0 v E1 E2 E3) in Eo. contradiction.
Qed.
Lemma no_vamm_withdraw_tx f w t v a funds : require_vamm w v <> Ok tt ->
  step_f f w (OEngine t (EWithdrawMargin v a) funds) = (w, false).
Proof.
  intros H. apply engine_refusal_is_failed_tx. intros w0 E1 _ E2 E3. cbn [engine_execute].
  destruct (e_withdraw_margin w0 t v a) as [r|e] eqn:Eo; [|eauto].
  apply withdraw_requires_vamm in Eo. rewrite (require_vamm_same w w0 v E1 E2 E3) in Eo. contradiction.
Qed.
Lemma no_vamm_pay_funding_tx f w s v funds : require_vamm w v <> Ok tt ->
  step_f f w (OEngine s (EPayFunding v) funds) = (w, false).
Proof.
  intros H. apply engine_refusal_is_failed_tx. intros w0 E1 _ E2 E3. cbn [engine_execute].
  destruct (e_pay_funding w0 v) as [r|e] eqn:Eo; [|eauto].
  apply pay_funding_requires_vamm in Eo. rewrite (require_vamm_same w w0 v E1 E2 E3) in Eo. contradiction.
Qed.

(* ---------- C09: the engine's privileged messages from anyone but the role holder ---------- *)
Lemma not_owner_update_config_tx f w s o i fp a b c d funds : s <> e_owner (ec (w_eng w)) ->
  step_f f w (OEngine s (EUpdateConfig o i fp a b c d) funds) = (w, false).
Proof.
  intros H. apply engine_refusal_is_failed_tx. intros w0 E1 _ _ _. cbn [engine_execute].
  destruct (e_update_config w0 s o i fp a b c d) as [r|e] eqn:Eo; [|eauto].
  apply e_update_config_only_owner in Eo. rewrite E1 in Eo. contradiction.
Qed.
Lemma not_pauser_set_pause_tx f w s p funds : is_admin (e_pauser (w_eng w)) s = false ->
  step_f f w (OEngine s (ESetPause p) funds) = (w, false).
Proof.
  intros H. apply engine_refusal_is_failed_tx. intros w0 E1 _ _ _. cbn [engine_execute].
  destruct (e_set_pause w0 s p) as [r|e] eqn:Eo; [|eauto].
  apply e_set_pause_only_pauser in Eo. rewrite E1 in Eo. congruence.
Qed.
Lemma not_pauser_update_pauser_tx f w s p funds : is_admin (e_pauser (w_eng w)) s = false ->
  step_f f w (OEngine s (EUpdatePauser p) funds) = (w, false).
Proof.
  intros H. apply engine_refusal_is_failed_tx. intros w0 E1 _ _ _. cbn [engine_execute].
  destruct (e_update_pauser w0 s p) as [r|e] eqn:Eo; [|eauto].
  apply e_update_pauser_only_pauser in Eo. rewrite E1 in Eo. congruence.
Qed.
Lemma not_pauser_whitelist_tx f w s a funds : is_admin (e_pauser (w_eng w)) s = false ->
  step_f f w (OEngine s (EAddWhitelist a) funds) = (w, false) /\ step_f f w (OEngine s (ERemoveWhitelist a) funds) = (w, false).
Proof.
  intros H. split; apply engine_refusal_is_failed_tx; intros w0 E1 _ _ _; cbn [engine_execute].
  - destruct (e_add_whitelist w0 s a) as [r|e] eqn:Eo; [|eauto]. apply e_add_whitelist_only_pauser in Eo. rewrite E1 in Eo. congruence.
  - destruct (e_remove_whitelist w0 s a) as [r|e] eqn:Eo; [|eauto]. apply e_remove_whitelist_only_pauser in Eo. rewrite E1 in Eo. congruence.
Qed.
