(* Engine positions mirror the vAMM's net position (C02): for every vAMM the sum of the traders'
   signed sizes equals the vAMM's total_position_size, in every reachable state. *)
From MP.Model Require Import Prelude U128 SInt Feed Vamm VammOps Token World Engine Runtime.
From MP.Proofs Require Import Tactics MapFacts SIntFacts VammFacts RuntimeFacts FrameFacts ResidueFacts.

(* ---------- sums over the per-vAMM position list ---------- *)
Definition sum_sizes (l : list (addr * position)) : Z :=
  fold_right (fun tp acc => toZ (p_size (snd tp)) + acc) 0 l.

Definition size_at (t : addr) (l : list (addr * position)) : Z :=
  match zfind t l with Some p => toZ (p_size p) | None => 0 end.

Lemma sum_zset t p l : sum_sizes (zset t p l) = sum_sizes l - size_at t l + toZ (p_size p).
Proof.
  unfold size_at. induction l as [|[k q] r IH]; cbn [zset zfind sum_sizes fold_right snd].
  - lia.
  - destruct (t =? k) eqn:E; cbn [sum_sizes fold_right snd]; [lia|]. fold (sum_sizes (zset t p r)). fold (sum_sizes r). rewrite IH. lia.
Qed.

Lemma zfind_not_in {A} t (l : list (Z * A)) : ~ In t (map fst l) -> zfind t l = None.
Proof.
  induction l as [|[k q] r IH]; cbn; intros H; [reflexivity|].
  destruct (Z.eqb_spec t k); [subst; tauto|]. apply IH. tauto.
Qed.

Lemma zdel_not_in {A} t (l : list (Z * A)) : ~ In t (map fst l) -> zdel t l = l.
Proof.
  induction l as [|[k q] r IH]; cbn; intros H; [reflexivity|].
  destruct (Z.eqb_spec t k); [subst; tauto|]. f_equal. apply IH. tauto.
Qed.

Lemma sum_zdel t l : NoDup (map fst l) -> sum_sizes (zdel t l) = sum_sizes l - size_at t l.
Proof.
  unfold size_at. induction l as [|[k q] r IH]; cbn [zdel zfind sum_sizes fold_right snd map fst]; intros Hn; [lia|].
  inversion Hn as [|? ? Hni Hn']; subst.
  destruct (Z.eqb_spec t k).
  - subst. rewrite zdel_not_in by assumption. fold (sum_sizes r). lia.
  - cbn [sum_sizes fold_right snd]. fold (sum_sizes (zdel t r)). fold (sum_sizes r). rewrite IH by assumption. lia.
Qed.

Lemma in_map_zset {A} t (p : A) l k : In k (map fst (zset t p l)) -> k = t \/ In k (map fst l).
Proof.
  induction l as [|[k' q] r IH]; cbn [zset map fst In].
  - intros [H|[]]; auto.
  - destruct (t =? k') eqn:E; cbn [map fst In].
    + apply Z.eqb_eq in E. subst. intros [H|H]; auto.
    + intros [H|H]; auto. apply IH in H. tauto.
Qed.

Lemma nodup_zset {A} t (p : A) l : NoDup (map fst l) -> NoDup (map fst (zset t p l)).
Proof.
  induction l as [|[k q] r IH]; cbn [zset map fst]; intros Hn.
  - constructor; [intros []|constructor].
  - inversion Hn as [|? ? Hni Hn']; subst. destruct (Z.eqb_spec t k).
    + subst. cbn [map fst]. constructor; assumption.
    + cbn [map fst]. constructor; [|apply IH; assumption].
      intros Hin. apply in_map_zset in Hin. destruct Hin; [lia|contradiction].
Qed.

Lemma in_map_zdel {A} t l k : In k (map fst (@zdel A t l)) -> In k (map fst l).
Proof.
  induction l as [|[k' q] r IH]; cbn [zdel map fst In]; [tauto|].
  destruct (t =? k'); cbn [map fst In]; intros H; [right; auto|]. destruct H; auto.
Qed.

Lemma nodup_zdel {A} t l : NoDup (map fst l) -> NoDup (map fst (@zdel A t l)).
Proof.
  induction l as [|[k q] r IH]; cbn [zdel map fst]; intros Hn; [constructor|].
  inversion Hn as [|? ? Hni Hn']; subst. destruct (t =? k); [apply IH; exact Hn'|].
  cbn [map fst]. constructor; [|apply IH; exact Hn']. intros Hin. apply in_map_zdel in Hin. apply Hni. exact Hin.
Qed.

Lemma forall_zset {A} (P : Z * A -> Prop) t p l : Forall P l -> P (t, p) -> Forall P (zset t p l).
Proof.
  induction l as [|[k q] r IH]; cbn [zset]; intros Hf Hp; [repeat constructor; assumption|].
  inversion Hf; subst. destruct (t =? k); constructor; auto.
Qed.

Lemma forall_zdel {A} (P : Z * A -> Prop) t l : Forall P l -> Forall P (@zdel A t l).
Proof.
  induction l as [|[k q] r IH]; cbn [zdel]; intros Hf; [constructor|].
  inversion Hf; subst. destruct (t =? k); [auto|constructor; auto].
Qed.

Lemma forall_zfind {A} (P : Z * A -> Prop) t l p : Forall P l -> zfind t l = Some p -> P (t, p).
Proof.
  induction l as [|[k q] r IH]; cbn [zfind]; intros Hf Hz; [discriminate|].
  inversion Hf as [|? ? Hq Hr]; subst. destruct (Z.eqb_spec t k); [injection Hz as <-; subst; exact Hq | auto].
Qed.

(* ---------- the invariant ---------- *)
Definition coherent (p : position) : Prop :=
  wf0 (p_size p) /\ match p_dir p with AddToAmm => 0 <= toZ (p_size p) | RemoveFromAmm => toZ (p_size p) <= 0 end.

Definition mirror (v : addr) (w : world) : Prop :=
  let l := positions_of (w_eng w) v in
  NoDup (map fst l) /\ Forall (fun tp => coherent (snd tp)) l /\
  forall vm, zfind v (w_vamms w) = Some vm -> wf0 (v_total (vs vm)) /\ sum_sizes l = toZ (v_total (vs vm)).

(* positions_of under the engine setters *)
Lemma positions_store_same e v t p : positions_of (store_position e v t p) v = zset t p (positions_of e v).
Proof. unfold positions_of, store_position; cbn [e_pos]. rewrite zfind_zset_same. reflexivity. Qed.
Lemma positions_store_other e v t p v0 : v0 <> v -> positions_of (store_position e v t p) v0 = positions_of e v0.
Proof. intros H. unfold positions_of, store_position; cbn [e_pos]. rewrite zfind_zset_other by assumption. reflexivity. Qed.
Lemma positions_remove_same e v t : positions_of (remove_position e v t) v = zdel t (positions_of e v).
Proof. unfold positions_of, remove_position; cbn [e_pos]. rewrite zfind_zset_same. reflexivity. Qed.
Lemma positions_remove_other e v t v0 : v0 <> v -> positions_of (remove_position e v t) v0 = positions_of e v0.
Proof. intros H. unfold positions_of, remove_position; cbn [e_pos]. rewrite zfind_zset_other by assumption. reflexivity. Qed.

(* ---------- what a swap does to the vAMM's net position ---------- *)
Lemma input_price_nonneg dec d quote q b r : input_price dec d quote q b = Ok r -> 0 <= r.
Proof.
  unfold input_price. intros H. destruct (quote =? 0); [inv_ok; lia|].
  minv H; inv_ok; arith_ok; subst; zb;
  repeat match goal with Hc : context [if ?c then _ else _] |- _ => destruct c eqn:? | |- context [if ?c then _ else _] => destruct c eqn:? end; zb; lia.
Qed.
Lemma output_price_nonneg dec d base q b r : output_price dec d base q b = Ok r -> 0 <= r.
Proof.
  unfold output_price. intros H. destruct (base =? 0); [inv_ok; lia|].
  minv H; inv_ok; arith_ok; subst; zb;
  repeat match goal with Hc : context [if ?c then _ else _] |- _ => destruct c eqn:? | |- context [if ?c then _ else _] => destruct c eqn:? end; zb; lia.
Qed.

Lemma update_reserve_total v e d qa ba cgo v' :
  update_reserve v e d qa ba cgo = Ok v' -> wf0 (v_total (vs v)) -> 0 <= ba ->
  wf0 (v_total (vs v')) /\
  toZ (v_total (vs v')) = toZ (v_total (vs v)) + match d with AddToAmm => ba | RemoveFromAmm => - ba end.
Proof.
  unfold update_reserve. intros H Hw Hb. inv_bind H. inv_bind H. inv_bind H. inv_ok. cbn [vs].
  destruct d; inv_bind Hx0; inv_bind Hx0; inv_bind Hx0; inv_ok; cbn [set_vs_reserves v_total].
  - match goal with Hs : sadd _ _ = Ok _ |- _ => apply sadd_toZ0 in Hs; [|assumption|apply spos_wf0; lia] end.
    rewrite toZ_spos in *. tauto.
  - match goal with Hs : ssub _ _ = Ok _ |- _ => apply ssub_toZ0 in Hs; [|assumption|apply spos_wf0; lia] end.
    rewrite toZ_spos in *. intuition lia.
Qed.

Lemma swap_input_total v e s d quote lim cgo v' qa ba :
  swap_input v e s d quote lim cgo = Ok (v', (qa, ba)) -> wf0 (v_total (vs v)) ->
  0 <= ba /\ wf0 (v_total (vs v')) /\
  toZ (v_total (vs v')) = toZ (v_total (vs v)) + match d with AddToAmm => ba | RemoveFromAmm => - ba end.
Proof.
  unfold swap_input. intros H Hw. minv H. inv_ok.
  match goal with Hp : input_price _ _ _ _ _ = Ok _ |- _ => apply input_price_nonneg in Hp end.
  match goal with Hu : update_reserve _ _ _ _ _ _ = Ok _ |- _ => apply update_reserve_total in Hu; auto end.
  all: tauto.
Qed.

Lemma swap_output_total v e s d base lim v' qa ba :
  swap_output v e s d base lim = Ok (v', (qa, ba)) -> wf0 (v_total (vs v)) -> 0 <= base ->
  ba = base /\ wf0 (v_total (vs v')) /\
  toZ (v_total (vs v')) = toZ (v_total (vs v)) + match d with AddToAmm => - base | RemoveFromAmm => base end.
Proof.
  unfold swap_output. intros H Hw Hb. minv H. inv_ok.
  match goal with Hu : update_reserve _ _ _ _ _ _ = Ok _ |- _ => apply update_reserve_total in Hu; auto end.
  all: destruct d; cbn [flip] in *; intuition lia.
Qed.

(* ---------- shapes of the reply arms: which position they write, with which size ---------- *)
Lemma pos_set_state e st v : positions_of (eng_set_state e st) v = positions_of e v. Proof. reflexivity. Qed.
Lemma pos_set_tmp e x v : positions_of (eng_set_tmp e x) v = positions_of e v. Proof. reflexivity. Qed.
Lemma pos_set_sent e x v : positions_of (eng_set_sent e x) v = positions_of e v. Proof. reflexivity. Qed.
Lemma pos_set_liq e x v : positions_of (eng_set_liq e x) v = positions_of e v. Proof. reflexivity. Qed.
Lemma pos_set_vmap e a m v : positions_of (eng_set_vmap e a m) v = positions_of e v. Proof. reflexivity. Qed.
Lemma pos_enter e a h v : positions_of (enter_restriction_mode e a h) v = positions_of e v. Proof. reflexivity. Qed.

Ltac pos_simpl :=
  cbn [w_eng set_eng w_vamms];
  repeat first [ rewrite pos_enter | rewrite pos_set_liq | rewrite pos_set_tmp | rewrite pos_set_sent
               | rewrite pos_set_state | rewrite pos_set_vmap ].

Definition signed_out (s : side) (output : Z) : sint := match s with Buy => spos output | Sell => sneg_ output end.

Definition writes (w w' : world) (v t : addr) (p' : option position) : Prop :=
  positions_of (w_eng w') v = (match p' with Some p => zset t p | None => zdel t end) (positions_of (w_eng w) v) /\
  (forall u, u <> v -> positions_of (w_eng w') u = positions_of (w_eng w) u) /\
  w_vamms w' = w_vamms w.

Ltac writes_goal :=
  unfold writes; pos_simpl;
  split; [first [apply positions_store_same | apply positions_remove_same]
         | split; [intros u Hu; pos_simpl; first [apply positions_store_other | apply positions_remove_other]; exact Hu | reflexivity]].

Lemma update_position_reply_shape w i o id w' subs tm :
  update_position_reply w i o id = Ok (w', subs) -> e_tmp (w_eng w) = Some tm ->
  let v := ts_vamm tm in let t := ts_trader tm in
  let p := get_position (w_eng w) (w_env w) v t (ts_side tm) in
  exists p', writes w w' v t (Some p') /\
    sadd (p_size p) (signed_out (ts_side tm) o) = Ok (p_size p') /\
    p_dir p' = (if id =? INCREASE_ID then side_to_direction (ts_side tm) else p_dir p) /\
    (id <> INCREASE_ID -> sgtb (sabs (signed_out (ts_side tm) o)) (sabs (p_size p)) = false).
Proof.
  intros H Htmp v t p. unfold update_position_reply, need_tmp in H. rewrite Htmp in H. cbn [bind] in H.
  fold v t in H. cbv zeta in H. fold p in H. fold (signed_out (ts_side tm) o) in H.
  destruct (Z.eqb_spec id INCREASE_ID) as [Eid|Eid].
  - arm H; (eexists; split; [writes_goal|]; cbn [p_size p_dir]; repeat split; eauto; intros; congruence).
  - arm H; (eexists; split; [writes_goal|]; cbn [p_size p_dir]; repeat split; eauto; intros;
            match goal with Hs : negb (sgtb _ _) = true |- _ => apply negb_true_iff in Hs; exact Hs end).
Qed.

Lemma partial_close_position_reply_shape w i o w' subs tm :
  partial_close_position_reply w i o = Ok (w', subs) -> e_tmp (w_eng w) = Some tm ->
  let v := ts_vamm tm in let t := ts_trader tm in
  let p := get_position (w_eng w) (w_env w) v t (ts_side tm) in
  exists p', writes w w' v t (Some p') /\
    sadd (p_size p) (signed_out (ts_side tm) o) = Ok (p_size p') /\ p_dir p' = p_dir p /\
    sgtb (sabs (signed_out (ts_side tm) o)) (sabs (p_size p)) = false.
Proof.
  intros H Htmp v t p. unfold partial_close_position_reply, need_tmp in H. rewrite Htmp in H. cbn [bind] in H.
  fold v t in H. cbv zeta in H. fold p in H. fold (signed_out (ts_side tm) o) in H.
  arm H; (eexists; split; [writes_goal|]; cbn [p_size p_dir]; repeat split; eauto;
          match goal with Hs : negb (sgtb _ _) = true |- _ => apply negb_true_iff in Hs; exact Hs end).
Qed.

Lemma reverse_position_reply_shape w i o w' subs tm :
  reverse_position_reply w i o = Ok (w', subs) -> e_tmp (w_eng w) = Some tm ->
  let v := ts_vamm tm in let t := ts_trader tm in
  let p := get_position (w_eng w) (w_env w) v t (ts_side tm) in
  writes w w' v t (Some (clear_position p (height (w_env w)))) /\
  (Forall noreply subs \/
   exists fees q, Forall noreply fees /\ subs = fees ++ [internal_increase_position v (ts_side tm) q 0] /\
     exists tm', e_tmp (w_eng w') = Some tm' /\ ts_vamm tm' = v /\ ts_trader tm' = t /\ ts_side tm' = ts_side tm).
Proof.
  intros H Htmp v t p. unfold reverse_position_reply, need_tmp in H. rewrite Htmp in H. cbn [bind] in H.
  fold v t in H. cbv zeta in H. fold p in H.
  arm H; (split; [writes_goal|]).
  all: first [ left; noreply_goal; fail
             | match goal with Hf : transfer_fees _ _ _ _ = Ok (?l, _, _) |- _ =>
                 right; exists l; eexists; split; [noreply_goal|]; split; [reflexivity|];
                 eexists; cbn [w_eng set_eng e_tmp eng_set_state eng_set_sent eng_set_tmp ts_vamm ts_trader ts_side]; repeat split; reflexivity
               end ].
Qed.

Lemma close_position_reply_shape w i o w' subs tm :
  close_position_reply w i o = Ok (w', subs) -> e_tmp (w_eng w) = Some tm ->
  writes w w' (ts_vamm tm) (ts_trader tm) None.
Proof.
  intros H Htmp. unfold close_position_reply, need_tmp in H. rewrite Htmp in H. cbn [bind] in H.
  arm H; writes_goal.
Qed.

Lemma liquidate_reply_shape w i o w' subs tm :
  liquidate_reply w i o = Ok (w', subs) -> e_tmp (w_eng w) = Some tm ->
  writes w w' (ts_vamm tm) (ts_trader tm) None.
Proof.
  intros H Htmp. unfold liquidate_reply, need_tmp in H. rewrite Htmp in H. cbn [bind] in H.
  arm H; writes_goal.
Qed.

Lemma partial_liquidation_reply_shape w i o w' subs tm :
  partial_liquidation_reply w i o = Ok (w', subs) -> e_tmp (w_eng w) = Some tm ->
  let v := ts_vamm tm in let t := ts_trader tm in
  let p := get_position (w_eng w) (w_env w) v t (ts_side tm) in
  exists p', writes w w' v t (Some p') /\ p_dir p' = p_dir p /\
    (if sltb (p_size p) szero then sadd (p_size p) (spos i) else sadd (p_size p) (sneg_ i)) = Ok (p_size p').
Proof.
  intros H Htmp v t p. unfold partial_liquidation_reply, need_tmp in H. rewrite Htmp in H. cbn [bind] in H.
  fold v t in H. cbv zeta in H. fold p in H.
  arm H; (eexists; split; [writes_goal|]; cbn [p_size p_dir]; split; [reflexivity|]; eauto).
Qed.

Lemma pay_funding_reply_shape w pf a w' subs :
  pay_funding_reply w pf a = Ok (w', subs) ->
  (forall u, positions_of (w_eng w') u = positions_of (w_eng w) u) /\ w_vamms w' = w_vamms w.
Proof.
  unfold pay_funding_reply, append_cumulative_premium_fraction. intros H. arm H; (split; [intros u; pos_simpl; reflexivity | reflexivity]).
Qed.

(* ---------- one swap + its reply re-establishes the invariant ---------- *)
Lemma size_at_get e en v t s : toZ (p_size (get_position e en v t s)) = size_at t (positions_of e v).
Proof. unfold get_position, find_position, size_at. destruct (zfind t (positions_of e v)); reflexivity. Qed.

Lemma coherent_get v w t s : mirror v w -> coherent (get_position (w_eng w) (w_env w) v t s).
Proof.
  intros (_ & Hf & _). unfold get_position, find_position.
  destruct (zfind t (positions_of (w_eng w) v)) as [p|] eqn:E.
  - apply (forall_zfind _ _ _ _ Hf E).
  - unfold coherent, wf0. cbn. destruct (side_to_direction s); lia.
Qed.

Definition new_size (p' : option position) : Z := match p' with Some p => toZ (p_size p) | None => 0 end.

Lemma mirror_step v0 w w1 w2 v t p' vm vm' :
  mirror v0 w ->
  w_eng w1 = w_eng w -> zfind v (w_vamms w) = Some vm -> w_vamms w1 = zset v vm' (w_vamms w) ->
  writes w1 w2 v t p' ->
  wf0 (v_total (vs vm')) ->
  toZ (v_total (vs vm')) = toZ (v_total (vs vm)) + (new_size p' - size_at t (positions_of (w_eng w) v)) ->
  match p' with Some p => coherent p | None => True end ->
  mirror v0 w2.
Proof.
  intros (Hn & Hf & Ht) He Hz Hv (Wp & Wo & Wv) Hw Hd Hc. unfold mirror. rewrite Wv, Hv.
  destruct (Z.eq_dec v0 v) as [->|Hne].
  - rewrite Wp, He. split; [|split].
    + destruct p'; [apply nodup_zset | apply nodup_zdel]; assumption.
    + destruct p'; [apply forall_zset | apply forall_zdel]; assumption.
    + intros vm0 Hz0. rewrite zfind_zset_same in Hz0. injection Hz0 as <-. split; [assumption|].
      destruct (Ht vm Hz) as [_ Hs]. destruct p'; cbn [new_size] in Hd.
      * rewrite sum_zset. lia.
      * rewrite sum_zdel by assumption. lia.
  - rewrite (Wo v0 Hne), He. split; [assumption|split; [assumption|]].
    intros vm0 Hz0. rewrite zfind_zset_other in Hz0 by assumption. auto.
Qed.

(* the same for a handler that rewrites a position without changing its size or direction *)
Lemma mirror_store_same v0 w e' v t p' :
  mirror v0 w -> positions_of e' v = zset t p' (positions_of (w_eng w) v) ->
  (forall u, u <> v -> positions_of e' u = positions_of (w_eng w) u) ->
  toZ (p_size p') = size_at t (positions_of (w_eng w) v) -> coherent p' ->
  mirror v0 (set_eng w e').
Proof.
  intros (Hn & Hf & Ht) Wp Wo Hs Hc. unfold mirror. cbn [w_eng set_eng w_vamms].
  destruct (Z.eq_dec v0 v) as [->|Hne].
  - rewrite Wp. split; [apply nodup_zset; assumption|split; [apply forall_zset; assumption|]].
    intros vm Hz. destruct (Ht vm Hz) as [Hw Hsum]. split; [assumption|]. rewrite sum_zset. lia.
  - rewrite (Wo v0 Hne). auto.
Qed.

(* what must hold when a replying swap is about to run *)
Definition pend (v0 : addr) (w : world) (m : msg) (id : Z) : Prop :=
  mirror v0 w /\
  ((id = PAY_FUNDING_ID /\ exists a, m = MSettleFunding a) \/
   exists tm, e_tmp (w_eng w) = Some tm /\
     let v := ts_vamm tm in let t := ts_trader tm in
     let p := get_position (w_eng w) (w_env w) v t (ts_side tm) in
     ((id = INCREASE_ID /\ (exists q l c, m = MSwapInput v (side_to_direction (ts_side tm)) q l c) /\
         (toZ (p_size p) = 0 \/ p_dir p = side_to_direction (ts_side tm))) \/
      (id = DECREASE_ID /\ (exists q l c, m = MSwapInput v (side_to_direction (ts_side tm)) q l c) /\
         p_dir p = flip (side_to_direction (ts_side tm))) \/
      (id = PARTIAL_CLOSE_ID /\ (exists b l, m = MSwapOutput v (p_dir p) b l /\ 0 <= b) /\
         ts_side tm = position_to_side (p_size p)) \/
      ((id = REVERSE_ID \/ id = CLOSE_ID \/ id = LIQUIDATION_ID) /\
         exists l, m = MSwapOutput v (p_dir p) (sval (p_size p)) l) \/
      (id = PARTIAL_LIQUIDATION_ID /\
         exists b l, m = MSwapOutput v (p_dir p) b l /\ 0 <= b <= sval (p_size p) /\ sval (p_size p) <> 0))).

Definition is_leaf (m : msg) : bool :=
  match m with MTransfer _ _ | MTransferFrom _ _ _ | MIfWithdraw _ _ => true | _ => false end.
Definition leafy (s : submsg) : Prop := wants_ok (sm_reply s) = false /\ is_leaf (sm_msg s) = true.

Fixpoint readym (v0 : addr) (w : world) (subs : list submsg) : Prop :=
  match subs with
  | [] => mirror v0 w
  | s :: rest =>
      if wants_ok (sm_reply s) then rest = [] /\ sm_reply s = RAlways /\ pend v0 w (sm_msg s) (sm_id s)
      else is_leaf (sm_msg s) = true /\ readym v0 w rest
  end.

Lemma readym_leafy_app v0 w l1 l2 : Forall leafy l1 -> (readym v0 w (l1 ++ l2) <-> readym v0 w l2).
Proof.
  induction l1 as [|s l IH]; intros H; cbn [app readym]; [tauto|].
  inversion H as [|? ? [Hs1 Hs2] Hl]; subst. rewrite Hs1. rewrite IH by assumption. tauto.
Qed.
Lemma readym_leafy v0 w l : Forall leafy l -> (readym v0 w l <-> mirror v0 w).
Proof. intros H. rewrite <- (app_nil_r l). rewrite readym_leafy_app by assumption. cbn. tauto. Qed.

Lemma noreply_leafy_transfer r a : leafy (execute_transfer r a). Proof. split; reflexivity. Qed.
Lemma noreply_leafy_transfer_from w o r a : leafy (execute_transfer_from w o r a).
Proof. unfold execute_transfer_from. destruct (t_native (w_tok w)); split; reflexivity. Qed.
Lemma noreply_leafy_ifw w a : leafy (execute_insurance_fund_withdrawal w a). Proof. split; reflexivity. Qed.
Lemma noreply_leafy_to_if w a : leafy (execute_transfer_to_insurance_fund w a). Proof. split; reflexivity. Qed.
Lemma leafy_withdraw w st r a p st' msgs : withdraw w st r a p = Ok (st', msgs) -> Forall leafy msgs.
Proof. unfold withdraw. intros H. minv H; inv_ok; repeat constructor. Qed.
Lemma leafy_fees w f v n msgs s t : transfer_fees w f v n = Ok (msgs, s, t) -> Forall leafy msgs.
Proof.
  unfold transfer_fees. intros H. minv H. inv_ok. apply Forall_app. split; destr_if; repeat constructor; apply noreply_leafy_transfer_from.
Qed.
Lemma leafy_realize w st bd msgs st' pp : realize_bad_debt w st bd = Ok (msgs, st', pp) -> Forall leafy msgs.
Proof. unfold realize_bad_debt. intros H. minv H; inv_ok; repeat constructor. Qed.
Global Hint Resolve noreply_leafy_transfer noreply_leafy_transfer_from noreply_leafy_ifw noreply_leafy_to_if : lf.

Ltac leafy_goal :=
  repeat first
  [ apply Forall_nil
  | apply Forall_app; split
  | apply Forall_cons; [auto with lf|]
  | match goal with
    | Hw : withdraw _ _ _ _ _ = Ok (_, ?m) |- Forall leafy ?m => exact (leafy_withdraw _ _ _ _ _ _ _ Hw)
    | Hf : transfer_fees _ _ _ _ = Ok (?m, _, _) |- Forall leafy ?m => exact (leafy_fees _ _ _ _ _ _ _ Hf)
    | Hr : realize_bad_debt _ _ _ = Ok (?m, _, _) |- Forall leafy ?m => exact (leafy_realize _ _ _ _ _ _ Hr)
    end
  | destr_if ].

(* the result lists of the non-reverse arms are leaves *)
Lemma update_position_reply_leafy w i o id w' subs : update_position_reply w i o id = Ok (w', subs) -> Forall leafy subs.
Proof. unfold update_position_reply. intros H. arm H; leafy_goal. Qed.
Lemma close_position_reply_leafy w i o w' subs : close_position_reply w i o = Ok (w', subs) -> Forall leafy subs.
Proof. unfold close_position_reply. intros H. arm H; leafy_goal. Qed.
Lemma partial_close_position_reply_leafy w i o w' subs : partial_close_position_reply w i o = Ok (w', subs) -> Forall leafy subs.
Proof. unfold partial_close_position_reply. intros H. arm H; leafy_goal. Qed.
Lemma liquidate_reply_leafy w i o w' subs : liquidate_reply w i o = Ok (w', subs) -> Forall leafy subs.
Proof. unfold liquidate_reply. intros H. arm H; leafy_goal. Qed.
Lemma partial_liquidation_reply_leafy w i o w' subs : partial_liquidation_reply w i o = Ok (w', subs) -> Forall leafy subs.
Proof. unfold partial_liquidation_reply. intros H. arm H; leafy_goal. Qed.
Lemma pay_funding_reply_leafy w pf a w' subs : pay_funding_reply w pf a = Ok (w', subs) -> Forall leafy subs.
Proof. unfold pay_funding_reply, append_cumulative_premium_fraction. intros H. arm H; leafy_goal. Qed.
Lemma reverse_position_reply_leafy w i o w' subs tm :
  reverse_position_reply w i o = Ok (w', subs) -> e_tmp (w_eng w) = Some tm ->
  Forall leafy subs \/
   exists fees q, Forall leafy fees /\ subs = fees ++ [internal_increase_position (ts_vamm tm) (ts_side tm) q 0] /\
     exists tm', e_tmp (w_eng w') = Some tm' /\ ts_vamm tm' = ts_vamm tm /\ ts_trader tm' = ts_trader tm /\ ts_side tm' = ts_side tm.
Proof.
  intros H Htmp. unfold reverse_position_reply, need_tmp in H. rewrite Htmp in H. cbn [bind] in H.
  arm H.
  all: first [ left; leafy_goal; fail
             | match goal with Hf : transfer_fees _ _ _ _ = Ok (?l, _, _) |- _ =>
                 right; exists l; eexists; split; [leafy_goal|]; split; [reflexivity|];
                 eexists; cbn [w_eng set_eng e_tmp eng_set_state eng_set_sent eng_set_tmp ts_vamm ts_trader ts_side]; repeat split; reflexivity
               end ].
Qed.

(* ---------- the pair lemma ---------- *)
Lemma exec_swap_input w s v d q l c w1 ev :
  exec_simple w s (MSwapInput v d q l c) = Ok (w1, ev) ->
  exists vm vm' qa ba, zfind v (w_vamms w) = Some vm /\ swap_input vm (w_env w) s d q l c = Ok (vm', (qa, ba)) /\
    w1 = set_vamm w v vm' /\ ev = EvSwap qa ba.
Proof.
  cbn [exec_simple]. unfold get_vamm. intros H. destruct (zfind v (w_vamms w)) as [vm|] eqn:E; [|discriminate].
  cbn [bind] in H. inv_bind H. inv_ok. destruct x as [vm' [qa ba]]. cbn [fst snd]. do 4 eexists. repeat split; eauto.
Qed.

Lemma exec_swap_output w s v d b l w1 ev :
  exec_simple w s (MSwapOutput v d b l) = Ok (w1, ev) ->
  exists vm vm' qa ba, zfind v (w_vamms w) = Some vm /\ swap_output vm (w_env w) s d b l = Ok (vm', (qa, ba)) /\
    w1 = set_vamm w v vm' /\ ev = EvSwap ba qa.
Proof.
  cbn [exec_simple]. unfold get_vamm. intros H. destruct (zfind v (w_vamms w)) as [vm|] eqn:E; [|discriminate].
  cbn [bind] in H. inv_bind H. inv_ok. destruct x as [vm' [qa ba]]. cbn [fst snd]. do 4 eexists. repeat split; eauto.
Qed.

Lemma mirror_other v0 w w1 w2 v t p' vm' :
  mirror v0 w -> w_eng w1 = w_eng w -> w_vamms w1 = zset v vm' (w_vamms w) ->
  writes w1 w2 v t p' -> v0 <> v -> mirror v0 w2.
Proof.
  intros (Hn & Hf & Ht) He Hv (Wp & Wo & Wv) Hne. unfold mirror. rewrite Wv, Hv, (Wo v0 Hne), He.
  split; [assumption|split; [assumption|]]. intros vm0 Hz0. rewrite zfind_zset_other in Hz0 by assumption. auto.
Qed.

Lemma signed_out_facts s ba : 0 <= ba ->
  wf0 (signed_out s ba) /\ sval (signed_out s ba) = ba /\
  toZ (signed_out s ba) = match side_to_direction s with AddToAmm => ba | RemoveFromAmm => - ba end.
Proof.
  intros H. destruct s; cbn [signed_out side_to_direction].
  - repeat split; auto using spos_wf0.
  - repeat split; auto using sneg_wf0. apply sneg_toZ.
Qed.

Lemma sgtb_abs_false a b : wf0 a -> wf0 b -> sgtb (sabs a) (sabs b) = false -> sval a <= sval b.
Proof.
  intros Ha Hb H. change (sabs a) with (spos (sval a)) in H. change (sabs b) with (spos (sval b)) in H.
  rewrite sgtb_spos0 in H by (auto using spos_wf0). rewrite toZ_spos in H. apply Z.ltb_ge in H. exact H.
Qed.

Lemma coherent_abs p : coherent p ->
  match p_dir p with AddToAmm => toZ (p_size p) = sval (p_size p) | RemoveFromAmm => toZ (p_size p) = - sval (p_size p) end.
Proof.
  intros [Hw Hs]. unfold wf0 in Hw. unfold toZ in *. destruct (p_dir p), (sneg (p_size p)); lia.
Qed.

Ltac use_mirror_step Hm He Hz Hv Hw :=
  eapply mirror_step; [exact Hm | exact He | exact Hz | exact Hv | exact Hw | | | ].

Lemma pair_mirror v0 w m id w1 ev w2 subs :
  pend v0 w m id ->
  exec_simple w A_ENGINE m = Ok (w1, ev) ->
  contract_reply w1 A_ENGINE id (Ok ev) = Ok (w2, subs) ->
  readym v0 w2 subs.
Proof.
  intros [Hm Hp] Hex Hre. unfold contract_reply, engine_reply in Hre. rewrite Z.eqb_refl in Hre.
  destruct Hp as [[-> [a ->]] | (tm & Htmp & Hcase)].
  - (* funding *)
    cbn [exec_simple] in Hex. unfold get_vamm in Hex. destruct (zfind a (w_vamms w)) as [vm|] eqn:Ez; [|discriminate].
    cbn [bind] in Hex. inv_bind Hex. inv_ok. destruct x as [vm' pf]. cbn [fst snd] in *.
    apply settle_funding_frame in Hx. destruct Hx as (_ & _ & _ & Ht & _).
    change (PAY_FUNDING_ID =? PAY_FUNDING_ID) with true in Hre. cbn iota in Hre.
    pose proof (pay_funding_reply_leafy _ _ _ _ _ Hre) as Hl.
    apply pay_funding_reply_shape in Hre. destruct Hre as [Hpos Hvm].
    apply readym_leafy; [exact Hl|]. destruct Hm as (Hn & Hf & Htot). unfold mirror. rewrite Hpos, Hvm.
    cbn [w_eng set_vamm w_vamms]. split; [assumption|split; [assumption|]].
    intros vm0 Hz0. destruct (Z.eq_dec v0 a) as [->|Hne].
    + rewrite zfind_zset_same in Hz0. injection Hz0 as <-. rewrite Ht. auto.
    + rewrite zfind_zset_other in Hz0 by assumption. auto.
  - cbv zeta in Hcase. set (v := ts_vamm tm) in *. set (t := ts_trader tm) in *.
    set (p := get_position (w_eng w) (w_env w) v t (ts_side tm)) in *.
    destruct Hcase as [(-> & (q & l & c & ->) & Hdir) | [(-> & (q & l & c & ->) & Hdir) | [(-> & (b & l & -> & Hb) & Hside) |
                       [(Hid & (l & ->)) | (-> & (b & l & -> & Hb & Hnz))]]]].
    + (* increase *)
      apply exec_swap_input in Hex. destruct Hex as (vm & vm' & qa & ba & Hz & Hsw & -> & ->).
      change (INCREASE_ID =? INCREASE_ID) with true in Hre. cbn iota in Hre.
      pose proof (update_position_reply_leafy _ _ _ _ _ _ Hre) as Hl. apply readym_leafy; [exact Hl|].
      eapply update_position_reply_shape in Hre; [|exact Htmp]. cbv zeta in Hre. fold v t in Hre. cbn [w_eng set_vamm w_env] in Hre. fold p in Hre.
      destruct Hre as (p' & Hw & Hadd & Hd' & _). change (INCREASE_ID =? INCREASE_ID) with true in Hd'.
      destruct (Z.eq_dec v0 v) as [->|Hne]; [|exact (mirror_other _ _ (set_vamm w v vm') _ _ _ _ vm' Hm eq_refl eq_refl Hw Hne)].
      pose proof (coherent_get v w t (ts_side tm) Hm) as Hc. fold p in Hc.
      destruct Hm as (Hn & Hf & Htot). destruct (Htot vm Hz) as [Hwt Hsum].
      apply swap_input_total in Hsw; [|exact Hwt]. destruct Hsw as (Hba & Hwt' & Hdt).
      destruct (signed_out_facts (ts_side tm) ba Hba) as (Hso1 & Hso2 & Hso3).
      destruct Hc as [Hcw Hcs]. apply sadd_toZ0 in Hadd; [|exact Hcw|exact Hso1]. destruct Hadd as (Za & Wa & _).
      eapply mirror_step with (w := w) (w1 := set_vamm w v vm'); try exact Hw; try reflexivity; try exact Hz.
      * unfold mirror. auto.
      * exact Hwt'.
      * cbn [new_size]. rewrite <- (size_at_get (w_eng w) (w_env w) v t (ts_side tm)). fold p. rewrite Za, Hso3, Hdt. lia.
      * split; [exact Wa|]. rewrite Hd', Za, Hso3.
        destruct (side_to_direction (ts_side tm)) eqn:Es; destruct Hdir as [H0|H0]; try rewrite H0 in Hcs; try lia.
    + (* decrease *)
      apply exec_swap_input in Hex. destruct Hex as (vm & vm' & qa & ba & Hz & Hsw & -> & ->).
      change (DECREASE_ID =? INCREASE_ID) with false in Hre. change (DECREASE_ID =? DECREASE_ID) with true in Hre. cbn iota in Hre.
      pose proof (update_position_reply_leafy _ _ _ _ _ _ Hre) as Hl. apply readym_leafy; [exact Hl|].
      eapply update_position_reply_shape in Hre; [|exact Htmp]. cbv zeta in Hre. fold v t in Hre. cbn [w_eng set_vamm w_env] in Hre. fold p in Hre.
      destruct Hre as (p' & Hw & Hadd & Hd' & Hle). change (DECREASE_ID =? INCREASE_ID) with false in Hd'.
      specialize (Hle ltac:(discriminate)).
      destruct (Z.eq_dec v0 v) as [->|Hne]; [|exact (mirror_other _ _ (set_vamm w v vm') _ _ _ _ vm' Hm eq_refl eq_refl Hw Hne)].
      pose proof (coherent_get v w t (ts_side tm) Hm) as Hc. fold p in Hc.
      destruct Hm as (Hn & Hf & Htot). destruct (Htot vm Hz) as [Hwt Hsum].
      apply swap_input_total in Hsw; [|exact Hwt]. destruct Hsw as (Hba & Hwt' & Hdt).
      destruct (signed_out_facts (ts_side tm) ba Hba) as (Hso1 & Hso2 & Hso3).
      pose proof (coherent_abs p Hc) as Hab. destruct Hc as [Hcw Hcs].
      apply sgtb_abs_false in Hle; [|exact Hso1|exact Hcw]. rewrite Hso2 in Hle.
      apply sadd_toZ0 in Hadd; [|exact Hcw|exact Hso1]. destruct Hadd as (Za & Wa & _).
      eapply mirror_step with (w := w) (w1 := set_vamm w v vm'); try exact Hw; try reflexivity; try exact Hz.
      * unfold mirror. auto.
      * exact Hwt'.
      * cbn [new_size]. rewrite <- (size_at_get (w_eng w) (w_env w) v t (ts_side tm)). fold p. rewrite Za, Hso3, Hdt. lia.
      * split; [exact Wa|]. rewrite Hd', Za, Hso3. rewrite Hdir in *.
        destruct (side_to_direction (ts_side tm)); cbn [flip] in *; lia.
    + (* partial close: the partial base amount is swapped out *)
      apply exec_swap_output in Hex. destruct Hex as (vm & vm' & qa & ba & Hz & Hsw & -> & ->).
      change (PARTIAL_CLOSE_ID =? INCREASE_ID) with false in Hre. change (PARTIAL_CLOSE_ID =? DECREASE_ID) with false in Hre.
      change (PARTIAL_CLOSE_ID =? REVERSE_ID) with false in Hre. change (PARTIAL_CLOSE_ID =? CLOSE_ID) with false in Hre.
      change (PARTIAL_CLOSE_ID =? PARTIAL_CLOSE_ID) with true in Hre. cbn iota in Hre.
      pose proof (partial_close_position_reply_leafy _ _ _ _ _ Hre) as Hl. apply readym_leafy; [exact Hl|].
      eapply partial_close_position_reply_shape in Hre; [|exact Htmp]. cbv zeta in Hre. fold v t in Hre. cbn [w_eng set_vamm w_env] in Hre. fold p in Hre.
      destruct Hre as (p' & Hw & Hadd & Hd' & Hle).
      destruct (Z.eq_dec v0 v) as [->|Hne]; [|exact (mirror_other _ _ (set_vamm w v vm') _ _ _ _ vm' Hm eq_refl eq_refl Hw Hne)].
      pose proof (coherent_get v w t (ts_side tm) Hm) as Hc. fold p in Hc.
      destruct Hm as (Hn & Hf & Htot). destruct (Htot vm Hz) as [Hwt Hsum].
      apply swap_output_total in Hsw; [|exact Hwt|exact Hb]. destruct Hsw as (Eb & Hwt' & Hdt). subst ba.
      destruct (signed_out_facts (ts_side tm) b Hb) as (Hso1 & Hso2 & Hso3).
      pose proof (coherent_abs p Hc) as Hab. destruct Hc as [Hcw Hcs].
      apply sgtb_abs_false in Hle; [|exact Hso1|exact Hcw]. rewrite Hso2 in Hle.
      apply sadd_toZ0 in Hadd; [|exact Hcw|exact Hso1]. destruct Hadd as (Za & Wa & _).
      assert (Hps : sgtb (p_size p) szero = (0 <? toZ (p_size p))).
      { change szero with (spos 0). apply sgtb_spos0; [exact Hcw|lia]. }
      eapply mirror_step with (w := w) (w1 := set_vamm w v vm'); try exact Hw; try reflexivity; try exact Hz.
      * unfold mirror. auto.
      * exact Hwt'.
      * cbn [new_size]. rewrite <- (size_at_get (w_eng w) (w_env w) v t (ts_side tm)). fold p. rewrite Za, Hso3, Hdt.
        rewrite Hside in *. unfold position_to_side in *. rewrite Hps in *.
        destruct (Z.ltb_spec 0 (toZ (p_size p))); cbn [side_to_direction] in *; destruct (p_dir p); lia.
      * split; [exact Wa|]. rewrite Hd', Za, Hso3. rewrite Hside in *. unfold position_to_side in *. rewrite Hps in *.
        destruct (Z.ltb_spec 0 (toZ (p_size p))); cbn [side_to_direction] in *; destruct (p_dir p); lia.
    + (* reverse / close / full liquidation: the whole position is swapped out *)
      apply exec_swap_output in Hex. destruct Hex as (vm & vm' & qa & ba & Hz & Hsw & -> & ->).
      assert (Hstep : forall w2' p', writes (set_vamm w v vm') w2' v t p' -> new_size p' = 0 ->
                        match p' with Some x => coherent x | None => True end -> mirror v0 w2').
      { intros w2' p' Hw Hns Hco. destruct (Z.eq_dec v0 v) as [->|Hne]; [|exact (mirror_other _ _ (set_vamm w v vm') _ _ _ _ vm' Hm eq_refl eq_refl Hw Hne)].
        pose proof (coherent_get v w t (ts_side tm) Hm) as Hc. fold p in Hc.
        pose proof (coherent_abs p Hc) as Hab.
        destruct Hm as (Hn & Hf & Htot). destruct (Htot vm Hz) as [Hwt Hsum]. destruct Hc as [Hcw Hcs].
        apply swap_output_total in Hsw; [|exact Hwt|exact Hcw]. destruct Hsw as (_ & Hwt' & Hdt).
        eapply mirror_step with (w := w) (w1 := set_vamm w v vm'); try exact Hw; try reflexivity; try exact Hz.
        - unfold mirror. auto.
        - exact Hwt'.
        - rewrite Hns. rewrite <- (size_at_get (w_eng w) (w_env w) v t (ts_side tm)). fold p. rewrite Hdt.
          destruct (p_dir p); lia.
        - exact Hco. }
      destruct Hid as [-> | [-> | ->]].
      * change (REVERSE_ID =? INCREASE_ID) with false in Hre. change (REVERSE_ID =? DECREASE_ID) with false in Hre.
        change (REVERSE_ID =? REVERSE_ID) with true in Hre. cbn iota in Hre.
        pose proof (reverse_position_reply_leafy _ _ _ _ _ tm Hre Htmp) as Hl.
        eapply reverse_position_reply_shape in Hre; [|exact Htmp]. cbv zeta in Hre. fold v t in Hre. cbn [w_eng set_vamm w_env] in Hre. fold p in Hre.
        destruct Hre as (Hw & _).
        assert (Hmir : mirror v0 w2).
        { apply (Hstep w2 _ Hw); [reflexivity|]. unfold coherent, clear_position, wf0; cbn. destruct (p_dir p); lia. }
        destruct Hl as [Hl | (fees & q & Hl & -> & tm' & Htm' & Hv' & Ht' & Hs')].
        -- apply readym_leafy; assumption.
        -- apply readym_leafy_app; [exact Hl|]. cbn [readym internal_increase_position swap_input_msg sm_reply wants_ok sm_msg sm_id].
           split; [reflexivity|split; [reflexivity|]]. split; [exact Hmir|]. right. exists tm'. split; [exact Htm'|].
           cbv zeta. left. split; [reflexivity|]. rewrite Hv', Hs'. split; [do 3 eexists; reflexivity|].
           left. rewrite Ht'. fold v t.
           destruct Hw as (Wp & _). unfold get_position, find_position. rewrite Wp, zfind_zset_same. reflexivity.
      * change (CLOSE_ID =? INCREASE_ID) with false in Hre. change (CLOSE_ID =? DECREASE_ID) with false in Hre.
        change (CLOSE_ID =? REVERSE_ID) with false in Hre. change (CLOSE_ID =? CLOSE_ID) with true in Hre. cbn iota in Hre.
        pose proof (close_position_reply_leafy _ _ _ _ _ Hre) as Hl. apply readym_leafy; [exact Hl|].
        eapply close_position_reply_shape in Hre; [|exact Htmp]. apply (Hstep w2 None Hre); [reflexivity|exact I].
      * change (LIQUIDATION_ID =? INCREASE_ID) with false in Hre. change (LIQUIDATION_ID =? DECREASE_ID) with false in Hre.
        change (LIQUIDATION_ID =? REVERSE_ID) with false in Hre. change (LIQUIDATION_ID =? CLOSE_ID) with false in Hre.
        change (LIQUIDATION_ID =? PARTIAL_CLOSE_ID) with false in Hre. change (LIQUIDATION_ID =? LIQUIDATION_ID) with true in Hre. cbn iota in Hre.
        pose proof (liquidate_reply_leafy _ _ _ _ _ Hre) as Hl. apply readym_leafy; [exact Hl|].
        eapply liquidate_reply_shape in Hre; [|exact Htmp]. apply (Hstep w2 None Hre); [reflexivity|exact I].
    + (* partial liquidation *)
      apply exec_swap_output in Hex. destruct Hex as (vm & vm' & qa & ba & Hz & Hsw & -> & ->).
      change (PARTIAL_LIQUIDATION_ID =? INCREASE_ID) with false in Hre. change (PARTIAL_LIQUIDATION_ID =? DECREASE_ID) with false in Hre.
      change (PARTIAL_LIQUIDATION_ID =? REVERSE_ID) with false in Hre. change (PARTIAL_LIQUIDATION_ID =? CLOSE_ID) with false in Hre.
      change (PARTIAL_LIQUIDATION_ID =? PARTIAL_CLOSE_ID) with false in Hre. change (PARTIAL_LIQUIDATION_ID =? LIQUIDATION_ID) with false in Hre.
      change (PARTIAL_LIQUIDATION_ID =? PARTIAL_LIQUIDATION_ID) with true in Hre. cbn iota in Hre.
      pose proof (partial_liquidation_reply_leafy _ _ _ _ _ Hre) as Hl. apply readym_leafy; [exact Hl|].
      eapply partial_liquidation_reply_shape in Hre; [|exact Htmp]. cbv zeta in Hre. fold v t in Hre. cbn [w_eng set_vamm w_env] in Hre. fold p in Hre.
      destruct Hre as (p' & Hw & Hd' & Hadd).
      destruct (Z.eq_dec v0 v) as [->|Hne]; [|exact (mirror_other _ _ (set_vamm w v vm') _ _ _ _ vm' Hm eq_refl eq_refl Hw Hne)].
      pose proof (coherent_get v w t (ts_side tm) Hm) as Hc. fold p in Hc.
      pose proof (coherent_abs p Hc) as Hab.
      destruct Hm as (Hn & Hf & Htot). destruct (Htot vm Hz) as [Hwt Hsum]. destruct Hc as [Hcw Hcs].
      apply swap_output_total in Hsw; [|exact Hwt|lia]. destruct Hsw as (Eb & Hwt' & Hdt). subst ba.
      assert (Hps : sltb (p_size p) szero = (toZ (p_size p) <? 0)).
      { change szero with (spos 0). apply sltb_spos0; [exact Hcw|lia]. }
      rewrite Hps in Hadd.
      assert (Hnew : wf0 (p_size p') /\ toZ (p_size p') = toZ (p_size p) + (if toZ (p_size p) <? 0 then b else - b)).
      { destruct (toZ (p_size p) <? 0); apply sadd_toZ0 in Hadd; auto using spos_wf0, sneg_wf0; try lia;
        rewrite ?toZ_spos, ?sneg_toZ in Hadd; tauto. }
      destruct Hnew as [Wn Zn].
      eapply mirror_step with (w := w) (w1 := set_vamm w v vm'); try exact Hw; try reflexivity; try exact Hz.
      * unfold mirror. auto.
      * exact Hwt'.
      * cbn [new_size]. rewrite <- (size_at_get (w_eng w) (w_env w) v t (ts_side tm)). fold p. rewrite Zn, Hdt.
        destruct (p_dir p); destruct (Z.ltb_spec (toZ (p_size p)) 0); lia.
      * split; [exact Wn|]. rewrite Hd', Zn. destruct (p_dir p); destruct (Z.ltb_spec (toZ (p_size p)) 0); lia.
Qed.

(* ---------- dispatch ---------- *)
Definition same_core (w w1 : world) : Prop := w_eng w1 = w_eng w /\ w_vamms w1 = w_vamms w /\ w_env w1 = w_env w.

Lemma same_core_refl w : same_core w w. Proof. repeat split. Qed.
Lemma same_core_trans a b c : same_core a b -> same_core b c -> same_core a c.
Proof. unfold same_core. intros (A1 & A2 & A3) (B1 & B2 & B3). repeat split; congruence. Qed.

Lemma mirror_core v0 w w1 : same_core w w1 -> mirror v0 w -> mirror v0 w1.
Proof. intros (E1 & E2 & E3) H. unfold mirror in *. rewrite E1, E2. exact H. Qed.

Lemma pend_core v0 w w1 m id : same_core w w1 -> pend v0 w m id -> pend v0 w1 m id.
Proof.
  intros Hc [Hm Hp]. split; [eapply mirror_core; eauto|]. destruct Hc as (E1 & E2 & E3).
  destruct Hp as [Hp|(tm & Htmp & Hcase)]; [left; exact Hp|]. right. exists tm. rewrite E1, E3. split; [exact Htmp|exact Hcase].
Qed.

Lemma readym_core v0 w w1 subs : same_core w w1 -> readym v0 w subs -> readym v0 w1 subs.
Proof.
  intros Hc. induction subs as [|s rest IH]; cbn [readym]; [apply mirror_core; exact Hc|].
  destruct (wants_ok (sm_reply s)).
  - intros (E & R & P). split; [exact E|split; [exact R|eapply pend_core; eauto]].
  - intros (L & R). split; auto.
Qed.

Lemma exec_leaf_core w s m w' ev : exec_simple w s m = Ok (w', ev) -> is_leaf m = true -> same_core w w'.
Proof. unfold exec_simple. intros H Hl. destruct m; try discriminate Hl; minv H; inv_ok; repeat split. Qed.

Lemma if_withdraw_leafy w s a w' subs : if_withdraw w s a = Ok (w', subs) -> w' = w /\ Forall leafy subs.
Proof. unfold if_withdraw. intros H. minv H. inv_ok. split; [reflexivity|]. repeat constructor. Qed.

Lemma dispatch_leafy_core fuel : forall f w n sender subs w' n',
  dispatch fuel f w n sender subs = Ok (w', n') -> Forall leafy subs -> same_core w w'.
Proof.
  induction fuel as [|k IH]; intros f w n sender subs w' n' H Hn; [discriminate|].
  cbn [dispatch] in H. destruct subs as [|s rest]; [inv_ok; apply same_core_refl|].
  inversion Hn as [|? ? [Hs1 Hs2] Hrest]; subst. rewrite Hs1 in H.
  destruct (n =? f).
  - destruct (wants_err (sm_reply s)); [|discriminate].
    destruct (contract_reply_err w sender (sm_id s) ESub) as [e' He]. rewrite He in H. discriminate.
  - destruct (sm_msg s) eqn:Em; try discriminate Hs2;
    try (destruct (exec_simple w sender _) as [[w1 ev]|e] eqn:Ex; cbn [bind fst snd] in H;
         [ apply exec_leaf_core in Ex; [|reflexivity]; apply IH in H; [eapply same_core_trans; eauto|assumption]
         | destruct (wants_err (sm_reply s)); [|discriminate];
           destruct (contract_reply_err w sender (sm_id s) e) as [e' He]; rewrite He in H; discriminate ]).
    destruct (target =? A_IFUND); cbn [bind] in H.
    + destruct (if_withdraw w sender amt) as [[w1 s1]|e] eqn:Ew; cbn [bind fst snd] in H.
      * apply if_withdraw_leafy in Ew. destruct Ew as [-> Hs1'].
        destruct (dispatch k f w (n + 1) A_IFUND s1) as [[w2 n2]|e] eqn:Ed; cbn [bind fst snd] in H.
        -- apply IH in Ed; [|assumption]. apply IH in H; [eapply same_core_trans; eauto|assumption].
        -- destruct (wants_err (sm_reply s)); [|discriminate].
           destruct (contract_reply_err w sender (sm_id s) e) as [e' He]; rewrite He in H; discriminate.
      * destruct (wants_err (sm_reply s)); [|discriminate].
        destruct (contract_reply_err w sender (sm_id s) e) as [e' He]; rewrite He in H; discriminate.
    + destruct (wants_err (sm_reply s)); [|discriminate].
      destruct (contract_reply_err w sender (sm_id s) EDecode) as [e' He]; rewrite He in H; discriminate.
Qed.

Lemma pend_is_simple v0 w m id : pend v0 w m id -> is_swap m = true.
Proof.
  intros [_ [[_ [a ->]]|(tm & _ & Hc)]]; [reflexivity|]. cbv zeta in Hc.
  destruct Hc as [(_ & (q & l & c & ->) & _) | [(_ & (q & l & c & ->) & _) | [(_ & (b & l & -> & _) & _) |
                  [(_ & (l & ->)) | (_ & (b & l & -> & _))]]]]; reflexivity.
Qed.

Lemma dispatch_mirror v0 fuel : forall f w n subs w' n',
  dispatch fuel f w n A_ENGINE subs = Ok (w', n') -> readym v0 w subs -> mirror v0 w'.
Proof.
  induction fuel as [|k IH]; intros f w n subs w' n' H Hr; [discriminate|].
  cbn [dispatch] in H. destruct subs as [|s rest]; [inv_ok; exact Hr|].
  cbn [readym] in Hr.
  destruct (n =? f).
  - destruct (wants_err (sm_reply s)); [|discriminate].
    destruct (contract_reply_err w A_ENGINE (sm_id s) ESub) as [e' He]. rewrite He in H. discriminate.
  - destruct (wants_ok (sm_reply s)) eqn:Ewo.
    + destruct Hr as (-> & Hra & Hpe). rewrite Hra in H. cbn [wants_err] in H.
      pose proof (pend_is_simple _ _ _ _ Hpe) as Hsw.
      destruct (sm_msg s) eqn:Em; try discriminate Hsw;
      (destruct (exec_simple w A_ENGINE _) as [[w1 ev]|e] eqn:Ex; cbn [bind fst snd] in H;
       [ destruct (contract_reply w1 A_ENGINE (sm_id s) (Ok ev)) as [[w2 s2]|] eqn:Er; cbn [bind fst snd] in H; [|discriminate];
         destruct (dispatch k f w2 (n + 1) A_ENGINE s2) as [[w3 n3]|] eqn:Ed; cbn [bind fst snd] in H; [|discriminate];
         pose proof (pair_mirror _ _ _ _ _ _ _ _ Hpe Ex Er) as Hr2;
         apply IH in Ed; [|exact Hr2];
         apply IH in H; [exact H | exact Ed]
       | destruct (contract_reply_err w A_ENGINE (sm_id s) e) as [e' He]; rewrite He in H; discriminate ]).
    + destruct Hr as (Hlf & Hr).
      destruct (sm_msg s) eqn:Em; try discriminate Hlf;
      try (destruct (exec_simple w A_ENGINE _) as [[w1 ev]|e] eqn:Ex; cbn [bind fst snd] in H;
           [ apply exec_leaf_core in Ex; [|reflexivity]; apply IH in H; [exact H | eapply readym_core; eauto]
           | destruct (wants_err (sm_reply s)); [|discriminate];
             destruct (contract_reply_err w A_ENGINE (sm_id s) e) as [e' He]; rewrite He in H; discriminate ]).
      destruct (target =? A_IFUND); cbn [bind] in H.
      * destruct (if_withdraw w A_ENGINE amt) as [[w1 s1]|e] eqn:Ew; cbn [bind fst snd] in H.
        -- apply if_withdraw_leafy in Ew. destruct Ew as [-> Hs1'].
           destruct (dispatch k f w (n + 1) A_IFUND s1) as [[w2 n2]|e] eqn:Ed; cbn [bind fst snd] in H.
           ++ apply dispatch_leafy_core in Ed; [|assumption]. apply IH in H; [exact H | eapply readym_core; eauto].
           ++ destruct (wants_err (sm_reply s)); [|discriminate].
              destruct (contract_reply_err w A_ENGINE (sm_id s) e) as [e' He]; rewrite He in H; discriminate.
        -- destruct (wants_err (sm_reply s)); [|discriminate].
           destruct (contract_reply_err w A_ENGINE (sm_id s) e) as [e' He]; rewrite He in H; discriminate.
      * destruct (wants_err (sm_reply s)); [|discriminate].
        destruct (contract_reply_err w A_ENGINE (sm_id s) EDecode) as [e' He]; rewrite He in H; discriminate.
Qed.

(* ---------- execute arms ---------- *)
Lemma mirror_pos v0 w w1 :
  (forall u, positions_of (w_eng w1) u = positions_of (w_eng w) u) -> w_vamms w1 = w_vamms w ->
  mirror v0 w -> mirror v0 w1.
Proof. intros Hp Hv H. unfold mirror in *. rewrite Hp, Hv. exact H. Qed.

Lemma dir_side_inv d : side_to_direction (direction_to_side d) = d.
Proof. destruct d; reflexivity. Qed.

Lemma read_position_found e v t : sval (p_size (read_position e v t)) <> 0 ->
  find_position e v t = Some (read_position e v t).
Proof. unfold read_position. destruct (find_position e v t); [reflexivity|]. cbn. lia. Qed.

Lemma get_position_found e en v t s p : find_position e v t = Some p -> get_position e en v t s = p.
Proof. unfold get_position. intros ->. reflexivity. Qed.

Lemma coherent_read v w t : mirror v w -> coherent (read_position (w_eng w) v t).
Proof.
  intros (_ & Hf & _). unfold read_position, find_position.
  destruct (zfind t (positions_of (w_eng w) v)) as [p|] eqn:E.
  - apply (forall_zfind _ _ _ _ Hf E).
  - unfold coherent, wf0. cbn. lia.
Qed.

Lemma size_at_read e v t : toZ (p_size (read_position e v t)) = size_at t (positions_of e v).
Proof. unfold read_position, find_position, size_at. destruct (zfind t (positions_of e v)); reflexivity. Qed.

Definition plr_ok (w : world) : Prop :=
  0 < e_dec (ec (w_eng w)) /\ 0 <= e_plr (ec (w_eng w)) <= e_dec (ec (w_eng w)).

Definition mirror_all (w : world) : Prop := forall v, mirror v w.

Lemma partial_liquidation_readym w v t l r :
  partial_liquidation w v t l = Ok r -> mirror_all w -> plr_ok w ->
  sval (p_size (read_position (w_eng w) v t)) <> 0 ->
  forall v0, readym v0 (fst r) [snd r].
Proof.
  intros H Hall (HD & Hp0 & Hp1) Hnz v0. pose proof (Hall v0) as Hm.
  pose proof (coherent_read v w t (Hall v)) as [Hcw _]. unfold wf0 in Hcw.
  unfold partial_liquidation in H. minv H. inv_ok. arith_ok. subst.
  cbn [fst snd readym swap_output_msg sm_reply wants_ok sm_msg sm_id].
  split; [reflexivity|split; [reflexivity|]].
  split; [eapply mirror_pos; try exact Hm; [intros u; pos_simpl; reflexivity|reflexivity]|].
  right. eexists. cbn [w_eng set_eng e_tmp eng_set_tmp]. split; [reflexivity|].
  cbn [ts_vamm ts_trader ts_side]. right. right. right. right. split; [reflexivity|].
  pose proof (read_position_found _ _ _ Hnz) as Hf.
  cbn [w_eng set_eng w_env]. unfold get_position. rewrite find_set_tmp, Hf. rewrite dir_side_inv.
  do 2 eexists. split; [reflexivity|]. split; [|exact Hnz].
  split; [apply Z.div_pos; nia|]. apply Z.div_le_upper_bound; nia.
Qed.

Lemma get_set_tmp e x en v t s : get_position (eng_set_tmp e x) en v t s = get_position e en v t s. Proof. reflexivity. Qed.
Lemma get_set_sent e x en v t s : get_position (eng_set_sent e x) en v t s = get_position e en v t s. Proof. reflexivity. Qed.
Lemma get_set_liq e x en v t s : get_position (eng_set_liq e x) en v t s = get_position e en v t s. Proof. reflexivity. Qed.

Ltac pend_setup Hm :=
  cbn [readym internal_increase_position swap_input_msg swap_output_msg sm_reply wants_ok sm_msg sm_id];
  split; [reflexivity|split; [reflexivity|]];
  split; [eapply mirror_pos; try exact Hm; [intros u; pos_simpl; reflexivity|reflexivity]|];
  right; eexists; cbn [w_eng set_eng e_tmp eng_set_tmp eng_set_sent eng_set_liq]; (split; [reflexivity|]);
  cbn [ts_vamm ts_trader ts_side w_env set_eng]; rewrite ?get_set_sent, ?get_set_tmp, ?get_set_liq.

Lemma engine_execute_readym w s m funds w1 subs :
  engine_execute w s m funds = Ok (w1, subs) -> mirror_all w -> plr_ok w ->
  forall v0, readym v0 w1 subs.
Proof.
  unfold engine_execute. intros H Hall Hplr v0. pose proof (Hall v0) as Hm. destruct m.
  - unfold e_update_config in H. arm H; cbn [readym]; (eapply mirror_pos; try exact Hm; [intros u; reflexivity|reflexivity]).
  - unfold e_update_pauser in H. arm H; cbn [readym]; (eapply mirror_pos; try exact Hm; [intros u; reflexivity|reflexivity]).
  - unfold e_add_whitelist in H. arm H; cbn [readym]; (eapply mirror_pos; try exact Hm; [intros u; reflexivity|reflexivity]).
  - unfold e_remove_whitelist in H. arm H; cbn [readym]; (eapply mirror_pos; try exact Hm; [intros u; reflexivity|reflexivity]).
  - (* open *)
    unfold e_open_position in H. arm H.
    all: match goal with |- readym _ _ [if ?c then _ else _] => destruct c eqn:Einc end;
         [|match goal with |- readym _ _ [if ?c then _ else _] => destruct c eqn:Edec end].
    all: pend_setup Hm.
    + left. split; [reflexivity|]. split; [do 3 eexists; reflexivity|].
      destruct (s_is_zero (p_size (get_position (w_eng w) (w_env w) vamm s s0))) eqn:Ezr.
      * left. rewrite s_is_zero_toZ in Ezr. apply Z.eqb_eq in Ezr. exact Ezr.
      * right. cbn [orb] in Einc.
        destruct (p_dir (get_position (w_eng w) (w_env w) vamm s s0)), s0; cbn in Einc |- *; try reflexivity; discriminate.
    + right. left. split; [reflexivity|]. split; [do 3 eexists; reflexivity|].
      destruct (s_is_zero (p_size (get_position (w_eng w) (w_env w) vamm s s0))); [discriminate Einc|]. cbn [orb] in Einc.
      destruct (p_dir (get_position (w_eng w) (w_env w) vamm s s0)), s0; cbn in Einc |- *; try reflexivity; discriminate.
    + right. right. right. left. split; [left; reflexivity|]. eexists.
      rewrite dir_side_inv. reflexivity.
  - (* close *)
    unfold e_close_position, internal_close_position in H. arm H; pend_setup Hm.
    all: match goal with Hz : negb (sval (p_size (read_position ?e ?v ?t)) =? 0) = true |- _ =>
           apply negb_true_iff in Hz; apply Z.eqb_neq in Hz; rewrite (get_position_found _ _ _ _ _ _ (read_position_found _ _ _ Hz)) end.
    all: first
      [ right; right; left; split; [reflexivity|]; split;
          [ do 2 eexists; split; [rewrite dir_side_inv; reflexivity|];
            arith_ok; subst; destruct Hplr as (HD & Hp0 & _);
            match goal with |- 0 <= sval (p_size (read_position (w_eng ?w0) ?v1 ?t1)) * _ / _ =>
              pose proof (coherent_read v1 w0 t1 (Hall v1)) as [Hcw _]; unfold wf0 in Hcw end;
            apply Z.div_pos; [apply Z.mul_nonneg_nonneg; lia | lia]
          | reflexivity ]
      | right; right; right; left; split; [right; left; reflexivity|]; eexists; rewrite dir_side_inv; reflexivity ].
  - (* liquidate *)
    unfold e_liquidate, internal_close_position in H.
    assert (Hall' : mirror_all (set_eng w (eng_set_liq (w_eng w) (Some s)))).
    { intros u. eapply mirror_pos; try exact (Hall u); [intros x; reflexivity|reflexivity]. }
    arm H.
    all: match goal with Hz : negb (sval (p_size (read_position _ _ _)) =? 0) = true |- _ =>
           apply negb_true_iff in Hz; apply Z.eqb_neq in Hz end.
    all: try (match goal with Hp : partial_liquidation _ _ _ _ = Ok _, Hz : sval (p_size (read_position _ _ _)) <> 0 |- _ =>
                exact (partial_liquidation_readym _ _ _ _ _ Hp Hall' Hplr Hz v0) end).
    all: pend_setup Hm.
    all: right; right; right; left; (split; [right; right; reflexivity|]); eexists;
         match goal with Hz : sval (p_size (read_position ?e ?v ?t)) <> 0 |- _ =>
           pose proof (read_position_found _ _ _ Hz) as Hfound end;
         cbn [w_eng set_eng] in Hfound; change (find_position (eng_set_liq (w_eng w) (Some s)) vamm trader) with (find_position (w_eng w) vamm trader) in Hfound;
         rewrite (get_position_found _ _ _ _ _ _ Hfound); rewrite dir_side_inv; reflexivity.
  - (* pay funding *)
    unfold e_pay_funding in H. arm H. cbn [readym sm_reply wants_ok sm_msg sm_id].
    split; [reflexivity|split; [reflexivity|]]. split; [exact Hm|]. left. split; [reflexivity|]. eexists; reflexivity.
  - (* deposit: margin changes, size and direction do not *)
    unfold e_deposit_margin in H. arm H.
    all: apply readym_leafy; [leafy_goal|].
    all: match goal with Hf : find_position (w_eng ?W) ?v ?t = Some ?p |- _ =>
           eapply (mirror_store_same v0 W _ v t); [exact Hm | apply positions_store_same | intros u Hu; apply positions_store_other; exact Hu | | ];
           [ cbn [p_size]; unfold size_at; unfold find_position in Hf; rewrite Hf; reflexivity
           | pose proof (Hall v) as (_ & Hfa & _); unfold find_position in Hf; apply (forall_zfind _ _ _ _ Hfa) in Hf; exact Hf ] end.
  - (* withdraw *)
    unfold e_withdraw_margin in H. arm H.
    all: apply readym_leafy; [leafy_goal|].
    all: match goal with |- mirror _ (set_eng _ (eng_set_state (store_position _ ?v ?t ?p') _)) =>
           eapply (mirror_store_same v0 _ _ v t); [exact Hm | pos_simpl; apply positions_store_same
             | intros u Hu; pos_simpl; apply positions_store_other; exact Hu | cbn [p_size]; apply size_at_read
             | exact (coherent_read v _ t (Hall v)) ] end.
  - unfold e_set_pause in H. arm H; cbn [readym]; (eapply mirror_pos; try exact Hm; [intros u; reflexivity|reflexivity]).
Qed.

(* ---------- transactions sent to the other contracts ---------- *)
Lemma mirror_vamm_total v0 w v vm vm' :
  mirror v0 w -> zfind v (w_vamms w) = Some vm -> v_total (vs vm') = v_total (vs vm) ->
  mirror v0 (set_vamm w v vm').
Proof.
  intros (Hn & Hf & Ht) Hz He. unfold mirror. cbn [w_eng set_vamm w_vamms]. split; [assumption|split; [assumption|]].
  intros vm0 Hz0. destruct (Z.eq_dec v0 v) as [->|Hne].
  - rewrite zfind_zset_same in Hz0. injection Hz0 as <-. rewrite He. auto.
  - rewrite zfind_zset_other in Hz0 by assumption. auto.
Qed.

Lemma exec_noswap_mirror v0 w s m w' ev :
  exec_simple w s m = Ok (w', ev) -> is_swap m = false -> mirror v0 w -> mirror v0 w'.
Proof.
  unfold exec_simple. intros H Hs Hm. destruct m; try discriminate Hs.
  - unfold get_vamm in H. destruct (zfind v (w_vamms w)) as [vm|] eqn:Ez; [|discriminate]. cbn [bind] in H.
    inv_bind H. inv_ok. apply set_open_frame in Hx. destruct Hx as (_ & _ & _ & Ht & _).
    eapply mirror_vamm_total; eauto.
  - minv H; inv_ok. eapply mirror_core; [|exact Hm]. repeat split.
  - minv H; inv_ok. eapply mirror_core; [|exact Hm]. repeat split.
  - discriminate.
Qed.

Lemma dispatch_noreply_mirror v0 fuel : forall f w n sender subs w' n',
  dispatch fuel f w n sender subs = Ok (w', n') -> Forall noreply subs -> mirror v0 w -> mirror v0 w'.
Proof.
  induction fuel as [|k IH]; intros f w n sender subs w' n' H Hn Hm; [discriminate|].
  cbn [dispatch] in H. destruct subs as [|s rest]; [inv_ok; exact Hm|].
  inversion Hn as [|? ? [Hs1 Hs2] Hrest]; subst. rewrite Hs1 in H.
  destruct (n =? f).
  - destruct (wants_err (sm_reply s)); [|discriminate].
    destruct (contract_reply_err w sender (sm_id s) ESub) as [e' He]. rewrite He in H. discriminate.
  - destruct (sm_msg s) eqn:Em; try discriminate Hs2;
    try (destruct (exec_simple w sender _) as [[w1 ev]|e] eqn:Ex; cbn [bind fst snd] in H;
         [ apply exec_noswap_mirror with (v0 := v0) in Ex; [|reflexivity|exact Hm]; eapply IH; eauto
         | destruct (wants_err (sm_reply s)); [|discriminate];
           destruct (contract_reply_err w sender (sm_id s) e) as [e' He]; rewrite He in H; discriminate ]).
    destruct (target =? A_IFUND); cbn [bind] in H.
    + destruct (if_withdraw w sender amt) as [[w1 s1]|e] eqn:Ew; cbn [bind fst snd] in H.
      * apply if_withdraw_noreply in Ew. destruct Ew as [-> Hs1'].
        destruct (dispatch k f w (n + 1) A_IFUND s1) as [[w2 n2]|e] eqn:Ed; cbn [bind fst snd] in H.
        -- eapply IH in Ed; eauto.
        -- destruct (wants_err (sm_reply s)); [|discriminate].
           destruct (contract_reply_err w sender (sm_id s) e) as [e' He]; rewrite He in H; discriminate.
      * destruct (wants_err (sm_reply s)); [|discriminate].
        destruct (contract_reply_err w sender (sm_id s) e) as [e' He]; rewrite He in H; discriminate.
    + destruct (wants_err (sm_reply s)); [|discriminate].
      destruct (contract_reply_err w sender (sm_id s) EDecode) as [e' He]; rewrite He in H; discriminate.
Qed.

(* every vAMM is wired to the margin engine; externally owned accounts are not the engine *)
Definition good_vamms (w : world) : Prop :=
  forall v vm, zfind v (w_vamms w) = Some vm -> v_engine (vc vm) = A_ENGINE.

Definition op_ext (o : op) : Prop :=
  match o with
  | OVamm s _ _ => s <> A_ENGINE
  | _ => True
  end.

Lemma exec_op_mirror f w o w' :
  exec_op f w o = Ok w' -> op_ext o -> mirror_all w -> plr_ok w -> good_vamms w -> mirror_all w'.
Proof.
  intros H Hext Hall Hplr Hgood v0. pose proof (Hall v0) as Hm.
  destruct o; cbn [exec_op] in H; revert H; generalize FUEL; intros fuel H.
  - inv_ok. eapply mirror_pos; try exact Hm; [intros u; reflexivity|reflexivity].
  - inv_bind H. inv_bind H. inv_bind H. inv_ok. destruct x0 as [w1 subs], x1 as [w2 n2]. cbn [fst snd] in *.
    assert (Hc : same_core w x) by (unfold attach_funds in Hx; minv Hx; inv_ok; repeat split).
    assert (Hall1 : mirror_all x) by (intros u; eapply mirror_core; [exact Hc|exact (Hall u)]).
    assert (Hplr1 : plr_ok x) by (destruct Hc as (E1 & _); unfold plr_ok; rewrite E1; exact Hplr).
    pose proof (engine_execute_readym _ _ _ _ _ _ Hx0 Hall1 Hplr1 v0) as Hr.
    eapply dispatch_mirror; eauto.
  - (* direct calls to a vAMM *)
    cbn [op_ext] in Hext. unfold get_vamm in H. destruct (zfind v (w_vamms w)) as [vm|] eqn:Ez; [|discriminate]. cbn [bind] in H.
    pose proof (Hgood v vm Ez) as Hge.
    destruct o; inv_bind H; inv_ok.
    + inv_bind Hx. unfold swap_input in Hx0. minv Hx0. zb. congruence.
    + inv_bind Hx. unfold swap_output in Hx0. minv Hx0. zb. congruence.
    + inv_bind Hx. unfold settle_funding in Hx0. minv Hx0. zb. congruence.
    + apply set_open_frame in Hx. destruct Hx as (_ & _ & _ & Ht & _). eapply mirror_vamm_total; eauto.
    + apply update_config_frame in Hx. destruct Hx as (Hs & _). eapply mirror_vamm_total; eauto. rewrite Hs. reflexivity.
    + apply update_owner_frame in Hx. destruct Hx as (Hs & _). eapply mirror_vamm_total; eauto. rewrite Hs. reflexivity.
  - inv_bind H. inv_bind H. inv_ok. destruct x as [w1 subs], x0 as [w2 n2]. cbn [fst snd] in *.
    assert (E1 : same_core w w1 /\ Forall noreply subs).
    { destruct m; [unfold if_update_owner in Hx|unfold if_add_vamm in Hx|unfold if_remove_vamm in Hx|unfold if_withdraw in Hx|unfold if_shutdown in Hx];
      minv Hx; inv_ok; (split; [repeat split|]); repeat constructor.
      apply Forall_forall. intros sm Hin. apply in_map_iff in Hin. destruct Hin as (a & <- & _). split; reflexivity. }
    destruct E1 as [E1 E2]. eapply dispatch_noreply_mirror; eauto. eapply mirror_core; eauto.
  - inv_bind H. inv_bind H. inv_ok. destruct x as [w1 subs], x0 as [w2 n2]. cbn [fst snd] in *.
    assert (E1 : same_core w w1 /\ Forall noreply subs).
    { destruct m; [unfold fp_update_owner in Hx|unfold fp_add_token in Hx|unfold fp_remove_token in Hx|unfold fp_send_token in Hx];
      minv Hx; inv_ok; (split; [repeat split|]); repeat constructor. }
    destruct E1 as [E1 E2]. eapply dispatch_noreply_mirror; eauto. eapply mirror_core; eauto.
  - destruct m; minv H; inv_ok; (eapply mirror_core; [|exact Hm]); repeat split.
  - minv H; inv_ok; (eapply mirror_core; [|exact Hm]); repeat split.
Qed.

(* a failed transaction changes nothing, so the step function preserves the invariant too *)
Lemma step_mirror f w o : op_ext o -> mirror_all w -> plr_ok w -> good_vamms w -> mirror_all (fst (step_f f w o)).
Proof.
  intros He Hm Hp Hg. unfold step_f. destruct (exec_op f w o) eqn:E; cbn [fst]; [|exact Hm].
  eapply exec_op_mirror; eauto.
Qed.

(* a fresh deployment: no positions, every vAMM's net position is zero *)
Lemma mirror_initial w :
  e_pos (w_eng w) = [] -> (forall v vm, zfind v (w_vamms w) = Some vm -> v_total (vs vm) = szero) -> mirror_all w.
Proof.
  intros He Hz v. unfold mirror, positions_of. rewrite He. cbn. split; [constructor|split; [constructor|]].
  intros vm Hf. rewrite (Hz v vm Hf). unfold wf0. cbn. split; lia.
Qed.
