(* C06 end to end, partial liquidation: the position shrinks by exactly the configured fraction and keeps its
   sign; the liquidator and the insurance fund each receive half the penalty. *)
From MP.Model Require Import Prelude U128 SInt Feed Vamm VammOps Token World Engine Runtime.
From MP.Proofs Require Import Tactics MapFacts SIntFacts VammFacts SwapFacts EngineGuards EngineArith CloseFacts LiqFacts RuntimeFacts
  LedgerFacts FrameFacts ResidueFacts MirrorFacts MirrorReach MoreFacts BandFacts FlowFacts CloseTxFacts RestrictFacts LiqTxFacts.

(* the execute side: the swap that a partial liquidation sends *)
Lemma partial_liquidation_sends w v t lim r :
  partial_liquidation w v t lim = Ok r ->
  let p := read_position (w_eng w) v t in
  let c := ec (w_eng w) in
  exists tm, fst r = set_eng w (eng_set_tmp (w_eng w) (Some tm)) /\
    ts_vamm tm = v /\ ts_trader tm = t /\ ts_side tm = position_to_side (p_size p) /\
    snd r = swap_output_msg v (direction_to_side (p_dir p)) (sval (p_size p) * e_plr c / e_dec c) (lim * e_plr c / e_dec c) PARTIAL_LIQUIDATION_ID.
Proof.
  intros H p c. unfold partial_liquidation in H. fold p c in H. minv H. inv_ok. arith_ok. subst.
  eexists. cbn [fst snd]. split; [reflexivity|]. cbn [ts_vamm ts_trader ts_side]. repeat split.
Qed.

(* the reply side: who is paid what *)
Lemma partial_liquidation_reply_pays w i o w' msgs tm liq :
  partial_liquidation_reply w i o = Ok (w', msgs) -> e_tmp (w_eng w) = Some tm -> e_liq (w_eng w) = Some liq ->
  let c := ec (w_eng w) in
  let fee := o * e_liqfee c / e_dec c / 2 in
  liq <> e_ifund c ->
  transfers_to liq msgs = fee /\ transfers_to (e_ifund c) msgs = fee /\
  (forall a, a <> liq -> a <> e_ifund c -> transfers_to a msgs = 0) /\
  no_pulls msgs /\ w_tok w' = w_tok w /\ w_if w' = w_if w.
Proof.
  intros H Htmp Hliq c fee Hne. unfold partial_liquidation_reply, need_tmp, need_liq in H. rewrite Htmp, Hliq in H. cbn [bind] in H.
  fold c in H.
  arm H.
  all: arith_ok; subst; unfold fee.
  all: repeat split; try reflexivity; intros.
  all: cbn [transfers_to sm_msg execute_transfer fst snd].
  all: repeat match goal with
       | Hw : withdraw _ _ _ _ _ = Ok _ |- context [transfers_to ?a _] => rewrite (transfers_to_withdraw _ _ _ _ _ _ _ a Hw)
       end.
  all: try (unfold no_pulls; repeat constructor;
            match goal with Hw : withdraw _ _ _ _ _ = Ok (_, ?m) |- Forall _ ?m => exact (no_pulls_withdraw _ _ _ _ _ _ _ Hw) end).
  all: try (unfold no_pulls; constructor).
  all: repeat destr_if; zb; subst; try lia; try congruence.
Qed.

Theorem partial_liquidation_tx f w s v t lim funds w' :
  exec_op f w (OEngine s (ELiquidate v t lim) funds) = Ok w' ->
  let p := read_position (w_eng w) v t in
  let c := ec (w_eng w) in
  coherent p -> 0 <= e_plr c -> 0 < e_dec c ->
  s <> A_ENGINE -> s <> A_IFUND -> s <> if_engine (w_if w) -> s <> e_ifund c ->
  (* the position was liquidated in part: a record is left *)
  (exists p1, find_position (w_eng w') v t = Some p1) ->
  exists p' vm vm' o,
    find_position (w_eng w') v t = Some p' /\
    get_vamm w v = Ok vm /\
    let b := sval (p_size p) * e_plr c / e_dec c in
    swap_output vm (w_env w) A_ENGINE (p_dir p) b (lim * e_plr c / e_dec c) = Ok (vm', (o, b)) /\
    toZ (p_size p') = (if toZ (p_size p) <? 0 then toZ (p_size p) + b else toZ (p_size p) - b) /\
    p_dir p' = p_dir p /\
    bal (w_tok w') s = bal (w_tok w) s - funds + o * e_liqfee c / e_dec c / 2.
Proof.
  intros H p c Hco Hplr0 HD Hs1 Hs2 Hs3 Hs4 [p1 Hleft].
  cbn [exec_op] in H. revert H. generalize FUEL. intros fuel H.
  destruct (attach_funds w s A_ENGINE funds) as [w0|] eqn:Ea; [|discriminate]. cbn [bind] in H.
  cbn [engine_execute] in H.
  destruct (e_liquidate w0 s v t lim) as [[w1 subs]|] eqn:Ec; [|discriminate]. cbn [bind fst snd] in H.
  destruct (dispatch fuel f w1 0 A_ENGINE subs) as [[wf nf]|] eqn:Ed; [|discriminate]. cbn [bind fst] in H. inv_ok.
  pose proof (attach_funds_core _ _ _ _ _ Ea) as [E1 E2].
  assert (E3 : w_vamms w0 = w_vamms w /\ w_if w0 = w_if w) by (unfold attach_funds in Ea; destruct (funds =? 0); [inv_ok; auto|]; minv Ea; inv_ok; auto).
  destruct E3 as (E3 & E4).
  assert (Hbal0 : bal (w_tok w0) s = bal (w_tok w) s - funds).
  { unfold attach_funds in Ea. destruct (Z.eqb_spec funds 0) as [->|Hf]; [inv_ok; lia|]. minv Ea. inv_ok. cbn [w_tok set_tok].
    match goal with Hx : tok_move _ _ _ _ = Ok _ |- _ => rewrite (tok_move_bal _ _ _ _ _ s Hx) end.
    unfold ind. rewrite Z.eqb_refl. destruct (Z.eqb_spec s A_ENGINE); [contradiction|]. lia. }
  assert (Hp0 : read_position (w_eng w0) v t = p) by (unfold p; rewrite E1; reflexivity).
  pose proof (liquidate_branches _ _ _ _ _ _ _ Ec) as Hbr. cbv zeta in Hbr. rewrite Hp0 in Hbr.
  set (wl := set_eng w0 (eng_set_liq (w_eng w0) (Some s))) in *.
  destruct Hbr as [Hnz [[-> ->] | (r & Hpl & -> & ->)]].
  - (* full liquidation removes the record: contradiction *)
    exfalso.
    unfold internal_close_position in Ed. cbn [fst snd] in Ed.
    apply dispatch_single in Ed; [|reflexivity|reflexivity].
    destruct Ed as (k & wa & ev & wb & sb & _ & Ex & Er & n1 & Ed).
    cbn [swap_output_msg sm_msg sm_id] in Ex, Er.
    apply exec_swap_output in Ex. destruct Ex as (vm & vm' & qa & ba & _ & _ & -> & ->).
    unfold contract_reply, engine_reply in Er. rewrite Z.eqb_refl in Er.
    change (LIQUIDATION_ID =? INCREASE_ID) with false in Er. change (LIQUIDATION_ID =? DECREASE_ID) with false in Er.
    change (LIQUIDATION_ID =? REVERSE_ID) with false in Er. change (LIQUIDATION_ID =? CLOSE_ID) with false in Er.
    change (LIQUIDATION_ID =? PARTIAL_CLOSE_ID) with false in Er. change (LIQUIDATION_ID =? LIQUIDATION_ID) with true in Er. cbn iota in Er.
    pose proof (liquidate_reply_leafy _ _ _ _ _ Er) as Hl.
    eapply liquidate_reply_marks in Er; [|cbn [w_eng set_vamm set_eng e_tmp eng_set_tmp]; reflexivity].
    cbn [ts_vamm ts_trader] in Er. destruct Er as (_ & _ & Hnone).
    apply dispatch_leafy_core in Ed; [|exact Hl]. destruct Ed as (Ee & _). rewrite Ee in Hleft. congruence.
  - (* partial liquidation *)
    pose proof (partial_liquidation_sends _ _ _ _ _ Hpl) as Hsend. cbv zeta in Hsend.
    assert (Hpl_p : read_position (w_eng wl) v t = p) by (unfold wl; cbn [w_eng set_eng]; exact Hp0).
    rewrite Hpl_p in Hsend. unfold wl in Hsend. cbn [w_eng set_eng eng_set_liq ec] in Hsend. rewrite E1 in Hsend. fold c in Hsend.
    destruct Hsend as (tm & Hw1 & Hv & Ht & Hside & Hmsg).
    rewrite Hmsg in Ed.
    apply dispatch_single in Ed; [|reflexivity|reflexivity].
    destruct Ed as (k & wa & ev & wb & sb & _ & Ex & Er & n1 & Ed).
    cbn [swap_output_msg sm_msg sm_id] in Ex, Er. rewrite dir_side_inv in Ex.
    apply exec_swap_output in Ex. destruct Ex as (vm & vm' & qa & ba & Hz1 & Hsw & -> & ->).
    rewrite Hw1 in Hz1, Hsw. unfold wl in Hz1, Hsw. cbn [w_vamms set_eng w_env] in Hz1, Hsw. rewrite E3 in Hz1. rewrite E2 in Hsw.
    unfold contract_reply, engine_reply in Er. rewrite Z.eqb_refl in Er.
    change (PARTIAL_LIQUIDATION_ID =? INCREASE_ID) with false in Er. change (PARTIAL_LIQUIDATION_ID =? DECREASE_ID) with false in Er.
    change (PARTIAL_LIQUIDATION_ID =? REVERSE_ID) with false in Er. change (PARTIAL_LIQUIDATION_ID =? CLOSE_ID) with false in Er.
    change (PARTIAL_LIQUIDATION_ID =? PARTIAL_CLOSE_ID) with false in Er. change (PARTIAL_LIQUIDATION_ID =? LIQUIDATION_ID) with false in Er.
    change (PARTIAL_LIQUIDATION_ID =? PARTIAL_LIQUIDATION_ID) with true in Er. cbn iota in Er.
    set (b := sval (p_size p) * e_plr c / e_dec c) in *.
    assert (Hba : ba = b) by (unfold swap_output in Hsw; minv Hsw; inv_ok; reflexivity). subst ba.
    set (wsw := set_vamm (fst r) v vm') in *.
    assert (Htmp : e_tmp (w_eng wsw) = Some tm) by (unfold wsw; cbn [w_eng set_vamm]; rewrite Hw1; reflexivity).
    assert (Hlq : e_liq (w_eng wsw) = Some s) by (unfold wsw; cbn [w_eng set_vamm]; rewrite Hw1; reflexivity).
    assert (Hec : ec (w_eng wsw) = c) by (unfold wsw, c; cbn [w_eng set_vamm]; rewrite Hw1; unfold wl; cbn [w_eng set_eng eng_set_tmp eng_set_liq ec]; try rewrite E1; reflexivity).
    pose proof (partial_liquidation_reply_leafy _ _ _ _ _ Er) as Hl.
    pose proof (partial_liquidation_reply_pays wsw b qa wb sb tm s Er Htmp Hlq) as Hpay. cbv zeta in Hpay. rewrite Hec in Hpay.
    specialize (Hpay Hs4). destruct Hpay as (Hfee & _ & _ & Hnp & Htok & Hif).
    pose proof (partial_liquidation_reply_shape _ _ _ _ _ tm Er Htmp) as Hshape. cbv zeta in Hshape.
    rewrite Hv, Ht, Hside in Hshape.
    assert (Hfound : find_position (w_eng w0) v t = Some p).
    { rewrite <- Hp0. apply read_position_found. rewrite Hp0. exact Hnz. }
    assert (Hget : get_position (w_eng wsw) (w_env wsw) v t (position_to_side (p_size p)) = p).
    { unfold get_position, wsw. cbn [w_eng set_vamm]. rewrite Hw1. unfold wl. cbn [w_eng set_eng]. rewrite find_set_tmp, find_set_liq. first [rewrite Hfound | rewrite <- E1, Hfound]. reflexivity. }
    rewrite Hget in Hshape. destruct Hshape as (p' & Hwr & Hdir & Hadd).
    destruct Hco as [Hcw _].
    assert (Hb0 : 0 <= b) by (unfold b; apply Z.div_pos; [apply Z.mul_nonneg_nonneg; [exact Hcw|exact Hplr0]|exact HD]).
    assert (Hps : sltb (p_size p) szero = (toZ (p_size p) <? 0)).
    { change szero with (spos 0). apply sltb_spos0; [exact Hcw|lia]. }
    rewrite Hps in Hadd.
    assert (Hsz : toZ (p_size p') = (if toZ (p_size p) <? 0 then toZ (p_size p) + b else toZ (p_size p) - b)).
    { destruct (toZ (p_size p) <? 0); apply sadd_toZ0 in Hadd; auto using spos_wf0, sneg_wf0;
      rewrite ?toZ_spos, ?sneg_toZ in Hadd; destruct Hadd as (Za & _); lia. }
    pose proof (dispatch_leafy_flow _ _ _ _ _ _ _ _ Ed Hl) as [_ Hflow].
    pose proof (dispatch_leafy_core _ _ _ _ _ _ _ _ Ed Hl) as (Ee & _).
    exists p', vm, vm', qa.
    split; [rewrite Ee; destruct Hwr as (Wp & _); unfold find_position; rewrite Wp; apply zfind_zset_same|].
    split; [unfold get_vamm; rewrite Hz1; reflexivity|]. cbv zeta. fold b.
    split; [exact Hsw|]. split; [exact Hsz|]. split; [exact Hdir|].
    rewrite (Hflow s). rewrite Hif. unfold wsw. cbn [w_if set_vamm]. rewrite Hw1. unfold wl. cbn [w_if set_eng]. rewrite E4.
    rewrite flow_split by assumption.
    destruct (no_pulls_flow s sb Hnp) as [Hp1 Hp2]. rewrite Hp1, Hp2, Hfee, Htok.
    unfold wsw. cbn [w_tok set_vamm]. rewrite Hw1. unfold wl. cbn [w_tok set_eng]. rewrite Hbal0. lia.
Qed.
