(* Facts about the Integer model: agreement with the mathematical integers. *)
From Coq Require Import String Ascii DecimalString DecimalN DecimalPos DecimalFacts.
From MP.Model Require Import Prelude U128 SInt.
From MP.Proofs Require Import Tactics.

(* representable operands: any sign flag, magnitude in [0, 2^128) - including the raw
   encoding of zero with the sign flag set *)
Definition wf (a : sint) : Prop := 0 <= sval a < MAXU.
(* canonical: the sign flag is not set on zero.  Every value the API returns is canonical. *)
Definition canon (a : sint) : Prop := sneg a = true -> sval a <> 0.

Lemma toZ_bound a : wf a -> - MAXU < toZ a < MAXU.
Proof. unfold wf, toZ; destruct (sneg a); lia. Qed.

Ltac sint_cases :=
  repeat match goal with
  | a : sint |- _ => destruct a as [? []]
  end;
  cbn [sval sneg toZ spos sinvert sabs negb Bool.eqb sign_of_product andb] in *.

Ltac crush_arith :=
  unfold cadd, csub, cmul, cdiv, sneg_, spos in *;
  repeat (destr_if; cbn [bind] in * );
  repeat match goal with
  | H : context [if ?b then _ else _] |- _ => destruct b eqn:?; cbn [bind] in H
  end; inv_ok; zb; cbn [sval sneg toZ negb] in *;
  repeat match goal with
  | |- context [?x =? 0] => destruct (Z.eqb_spec x 0)
  end; cbn [sval sneg toZ negb] in *; try lia.

Lemma sneg_toZ v : toZ (sneg_ v) = - v.
Proof. unfold sneg_, toZ; cbn. destruct (Z.eqb_spec v 0); cbn; lia. Qed.
Lemma sneg_canon v : canon (sneg_ v).
Proof. unfold canon, sneg_; cbn. destruct (Z.eqb_spec v 0); cbn; congruence. Qed.
Lemma spos_canon v : canon (spos v).
Proof. unfold canon; cbn; discriminate. Qed.

(* ---- addition ---- *)
Lemma sadd_toZ a b r : wf a -> wf b -> sadd a b = Ok r -> toZ r = toZ a + toZ b /\ wf r /\ canon r.
Proof.
  unfold wf, sadd, canon; intros Ha Hb H; sint_cases; crush_arith;
    (split; [lia | split; [lia | try discriminate; try congruence; intros; lia]]).
Qed.

Lemma sadd_err_iff a b : wf a -> wf b ->
  (exists e, sadd a b = Err e) <-> MAXU <= Z.abs (toZ a + toZ b).
Proof.
  unfold wf, sadd; intros Ha Hb; sint_cases; split;
    try (intros [e H]; crush_arith; fail);
    intros H; unfold cadd, csub; repeat destr_if; cbn [bind]; zb; try lia; eauto.
Qed.

Lemma schecked_add_toZ a b r : wf a -> wf b -> schecked_add a b = Ok r -> toZ r = toZ a + toZ b /\ wf r /\ canon r.
Proof.
  unfold wf, schecked_add, canon; intros Ha Hb H; sint_cases; crush_arith;
    (split; [lia | split; [lia | try discriminate; try congruence; intros; lia]]).
Qed.

Lemma schecked_add_err_iff a b : wf a -> wf b ->
  (exists e, schecked_add a b = Err e) <-> MAXU <= Z.abs (toZ a + toZ b).
Proof.
  unfold wf, schecked_add; intros Ha Hb; sint_cases; split;
    try (intros [e H]; crush_arith; fail);
    intros H; unfold cadd, csub; repeat destr_if; cbn [bind]; zb; try lia; eauto.
Qed.

(* the same facts without the upper bound on operands (used for state invariants) *)
Definition wf0 (a : sint) : Prop := 0 <= sval a.
Lemma sadd_toZ0 a b r : wf0 a -> wf0 b -> sadd a b = Ok r -> toZ r = toZ a + toZ b /\ wf0 r /\ canon r.
Proof.
  unfold wf0, sadd, canon; intros Ha Hb H; sint_cases; crush_arith;
    (split; [lia | split; [lia | try discriminate; try congruence; intros; lia]]).
Qed.
Lemma schecked_add_toZ0 a b r : wf0 a -> wf0 b -> schecked_add a b = Ok r -> toZ r = toZ a + toZ b /\ wf0 r /\ canon r.
Proof.
  unfold wf0, schecked_add, canon; intros Ha Hb H; sint_cases; crush_arith;
    (split; [lia | split; [lia | try discriminate; try congruence; intros; lia]]).
Qed.
Lemma schecked_sub_toZ0 a b r : wf0 a -> wf0 b -> schecked_sub a b = Ok r -> toZ r = toZ a - toZ b /\ wf0 r /\ canon r.
Proof.
  unfold wf0, schecked_sub, canon; intros Ha Hb H; sint_cases; crush_arith;
    (split; [lia | split; [lia | try discriminate; try congruence; intros; lia]]).
Qed.
(* comparisons against a non-negative constant, without upper bounds *)
Lemma s_is_negative_toZ0 a : wf0 a -> s_is_negative a = (toZ a <? 0).
Proof.
  unfold wf0, s_is_negative, toZ. destruct a as [v []]; cbn; intros H;
  destruct (Z.eqb_spec v 0); cbn; symmetry; [apply Z.ltb_ge | apply Z.ltb_lt | apply Z.ltb_ge | apply Z.ltb_ge]; lia.
Qed.
Lemma sgtb_spos0 a c : wf0 a -> 0 <= c -> sgtb a (spos c) = (c <? toZ a).
Proof.
  intros Ha Hc. unfold sgtb, scmp. unfold s_is_positive. rewrite !s_is_negative_toZ0 by (auto; unfold wf0, spos; cbn; lia).
  change (toZ (spos c)) with c. unfold wf0 in Ha.
  destruct (Z.ltb_spec (toZ a) 0) as [La|La], (Z.ltb_spec c 0) as [Lc|Lc]; cbn [andb negb]; try lia.
  assert (Ea : toZ a = sval a) by (unfold toZ in *; destruct (sneg a); lia).
  rewrite Ea. cbn [sval spos]. unfold Z.ltb. rewrite (Z.compare_antisym (sval a) c).
  destruct (sval a ?= c); reflexivity.
Qed.
Lemma sltb_spos0 a c : wf0 a -> 0 <= c -> sltb a (spos c) = (toZ a <? c).
Proof.
  intros Ha Hc. unfold sltb, scmp. unfold s_is_positive. rewrite !s_is_negative_toZ0 by (auto; unfold wf0, spos; cbn; lia).
  change (toZ (spos c)) with c. unfold wf0 in Ha.
  destruct (Z.ltb_spec (toZ a) 0) as [La|La], (Z.ltb_spec c 0) as [Lc|Lc]; cbn [andb negb]; try lia.
  all: try (symmetry; apply Z.ltb_lt; lia).
  assert (Ea : toZ a = sval a) by (unfold toZ in *; destruct (sneg a); lia).
  rewrite Ea. cbn [sval spos]. reflexivity.
Qed.
Lemma wf_wf0 a : wf a -> wf0 a.
Proof. unfold wf, wf0; lia. Qed.

(* ---- negation / absolute value ---- *)
Lemma sinvert_toZ a : toZ (sinvert a) = - toZ a.
Proof. unfold sinvert, toZ; destruct a as [v []]; cbn; destruct (Z.eqb_spec v 0); cbn; lia. Qed.
Lemma sinvert_wf a : wf a -> wf (sinvert a).
Proof. unfold wf; destruct a; auto. Qed.
Lemma sinvert_canon a : canon (sinvert a).
Proof. unfold canon, sinvert; destruct a as [v []]; cbn; destruct (Z.eqb_spec v 0); cbn; congruence. Qed.
Lemma sabs_toZ a : wf a -> toZ (sabs a) = Z.abs (toZ a).
Proof. unfold wf; destruct a as [v []]; cbn; lia. Qed.
Lemma sabs_canon a : canon (sabs a).
Proof. unfold canon; cbn; discriminate. Qed.

Lemma sinvert_wf0 a : wf0 a -> wf0 (sinvert a).
Proof. unfold wf0; destruct a; auto. Qed.
Lemma ssub_toZ0 a b r : wf0 a -> wf0 b -> ssub a b = Ok r -> toZ r = toZ a - toZ b /\ wf0 r /\ canon r.
Proof.
  unfold ssub; intros Ha Hb H. apply sadd_toZ0 in H; auto using sinvert_wf0.
  rewrite sinvert_toZ in H. intuition lia.
Qed.

(* ---- subtraction ---- *)
Lemma ssub_toZ a b r : wf a -> wf b -> ssub a b = Ok r -> toZ r = toZ a - toZ b /\ wf r /\ canon r.
Proof.
  unfold ssub; intros Ha Hb H. apply sadd_toZ in H; auto using sinvert_wf.
  rewrite sinvert_toZ in H. intuition lia.
Qed.

Lemma ssub_err_iff a b : wf a -> wf b ->
  (exists e, ssub a b = Err e) <-> MAXU <= Z.abs (toZ a - toZ b).
Proof.
  unfold ssub; intros Ha Hb. rewrite sadd_err_iff by auto using sinvert_wf.
  rewrite sinvert_toZ. replace (toZ a + - toZ b) with (toZ a - toZ b) by lia. reflexivity.
Qed.

Lemma schecked_sub_toZ a b r : wf a -> wf b -> schecked_sub a b = Ok r -> toZ r = toZ a - toZ b /\ wf r /\ canon r.
Proof.
  unfold wf, schecked_sub, canon; intros Ha Hb H; sint_cases; crush_arith;
    (split; [lia | split; [lia | try discriminate; try congruence; intros; lia]]).
Qed.

Lemma schecked_sub_err_iff a b : wf a -> wf b ->
  (exists e, schecked_sub a b = Err e) <-> MAXU <= Z.abs (toZ a - toZ b).
Proof.
  unfold wf, schecked_sub; intros Ha Hb; sint_cases; split;
    try (intros [e H]; crush_arith; fail);
    intros H; unfold cadd, csub; repeat destr_if; cbn [bind]; zb; try lia; eauto.
Qed.

(* ---- multiplication ---- *)
Lemma sign_of_product_canon a b v : canon (sign_of_product a b v).
Proof. unfold sign_of_product; destruct (Bool.eqb _ _); auto using sneg_canon, spos_canon. Qed.

Lemma sign_of_product_toZ a b v :
  toZ (sign_of_product a b v) = if Bool.eqb (sneg a) (sneg b) then v else - v.
Proof. unfold sign_of_product; destruct (Bool.eqb _ _); [reflexivity | apply sneg_toZ]. Qed.

Lemma sign_of_product_val a b v : sval (sign_of_product a b v) = v.
Proof. unfold sign_of_product; destruct (Bool.eqb _ _); reflexivity. Qed.

Lemma smul_toZ a b r : wf a -> wf b -> smul a b = Ok r -> toZ r = toZ a * toZ b /\ wf r /\ canon r.
Proof.
  unfold wf, smul; intros Ha Hb H. inv_bind H. inv_ok. arith_ok. subst.
  split; [| split; [| apply sign_of_product_canon]].
  - rewrite sign_of_product_toZ. unfold toZ. destruct (sneg a), (sneg b); cbn; lia.
  - unfold wf. rewrite sign_of_product_val. nia.
Qed.

Lemma smul_err_iff a b : wf a -> wf b ->
  (exists e, smul a b = Err e) <-> MAXU <= Z.abs (toZ a * toZ b).
Proof.
  unfold wf, smul, cmul; intros Ha Hb.
  assert (Habs : Z.abs (toZ a * toZ b) = sval a * sval b).
  { unfold toZ; destruct (sneg a), (sneg b); nia. }
  rewrite Habs. destruct (sval a * sval b <? MAXU) eqn:E; cbn [bind]; zb; split.
  - intros [e H]; discriminate.
  - lia.
  - lia.
  - eauto.
Qed.

Lemma schecked_mul_eq a b : schecked_mul a b = smul a b.
Proof. reflexivity. Qed.
Lemma schecked_div_eq a b : schecked_div a b = sdiv a b.
Proof. reflexivity. Qed.

(* ---- truncating division ---- *)
Lemma div_bound x y : 0 <= x < MAXU -> 0 <= y -> y <> 0 -> 0 <= x / y < MAXU.
Proof.
  intros Hx Hy Hn. split; [apply Z.div_pos; lia|].
  apply Z.le_lt_trans with x; [|lia]. apply Z.div_le_upper_bound; nia.
Qed.

Lemma sdiv_toZ a b r : wf a -> wf b -> sdiv a b = Ok r -> toZ r = Z.quot (toZ a) (toZ b) /\ wf r /\ canon r.
Proof.
  unfold wf, sdiv; intros Ha Hb H. inv_bind H. inv_ok. arith_ok. subst.
  split; [| split; [| apply sign_of_product_canon]].
  - rewrite sign_of_product_toZ. unfold toZ. destruct (sneg a), (sneg b); cbn;
    rewrite ?Z.quot_opp_l, ?Z.quot_opp_r, ?Z.opp_involutive by lia;
    rewrite Z.quot_div_nonneg by lia; lia.
  - unfold wf. rewrite sign_of_product_val. apply div_bound; lia.
Qed.

Lemma sdiv_err_iff a b : (exists e, sdiv a b = Err e) <-> toZ b = 0.
Proof.
  unfold sdiv, cdiv. destruct (Z.eqb_spec (sval b) 0) as [E|E]; cbn [bind]; split.
  - intros _. unfold toZ. rewrite E. destruct (sneg b); reflexivity.
  - eauto.
  - intros [e H]; discriminate.
  - unfold toZ. destruct (sneg b); lia.
Qed.

Lemma smul_toZ0 a b r : wf0 a -> wf0 b -> smul a b = Ok r -> toZ r = toZ a * toZ b /\ wf0 r /\ canon r.
Proof.
  unfold wf0, smul; intros Ha Hb H. inv_bind H. inv_ok. arith_ok. subst.
  split; [| split; [| apply sign_of_product_canon]].
  - rewrite sign_of_product_toZ. unfold toZ. destruct (sneg a), (sneg b); cbn; lia.
  - unfold wf0. rewrite sign_of_product_val. nia.
Qed.
Lemma sdiv_toZ0 a b r : wf0 a -> wf0 b -> sdiv a b = Ok r -> toZ r = Z.quot (toZ a) (toZ b) /\ wf0 r /\ canon r.
Proof.
  unfold wf0, sdiv; intros Ha Hb H. inv_bind H. inv_ok. arith_ok. subst.
  split; [| split; [| apply sign_of_product_canon]].
  - rewrite sign_of_product_toZ. unfold toZ. destruct (sneg a), (sneg b); cbn;
    rewrite ?Z.quot_opp_l, ?Z.quot_opp_r, ?Z.opp_involutive by lia;
    rewrite Z.quot_div_nonneg by lia; lia.
  - unfold wf0. rewrite sign_of_product_val. apply Z.div_pos; lia.
Qed.
Lemma spos_wf0 v : 0 <= v -> wf0 (spos v).
Proof. unfold wf0, spos; cbn; auto. Qed.
Lemma sneg_wf0 v : 0 <= v -> wf0 (sneg_ v).
Proof. unfold wf0, sneg_; cbn; auto. Qed.
Lemma toZ_spos v : toZ (spos v) = v.
Proof. reflexivity. Qed.
Lemma wf0_toZ_abs a : wf0 a -> sval a = Z.abs (toZ a).
Proof. unfold wf0, toZ. destruct (sneg a); lia. Qed.

(* ---- checked and unchecked agree ---- *)
Lemma canon_toZ_eq r r' : wf r -> wf r' -> canon r -> canon r' -> toZ r = toZ r' -> r = r'.
Proof.
  unfold wf, canon, toZ. destruct r as [v []], r' as [v' []]; cbn; intros Hr Hr' Cr Cr' E;
  try (specialize (Cr eq_refl)); try (specialize (Cr' eq_refl)); try (f_equal; lia); lia.
Qed.

Lemma checked_add_agree a b r : wf a -> wf b -> schecked_add a b = Ok r -> sadd a b = Ok r.
Proof.
  intros Ha Hb H. destruct (sadd a b) as [r'|e] eqn:E.
  - apply sadd_toZ in E; auto. apply schecked_add_toZ in H; auto.
    f_equal. apply canon_toZ_eq; intuition lia.
  - exfalso. assert (Hx : exists e, sadd a b = Err e) by eauto.
    apply sadd_err_iff in Hx; auto. apply schecked_add_toZ in H; auto.
    destruct H as (H1 & H2 & _). apply toZ_bound in H2. lia.
Qed.

Lemma checked_sub_agree a b r : wf a -> wf b -> schecked_sub a b = Ok r -> ssub a b = Ok r.
Proof.
  intros Ha Hb H. destruct (ssub a b) as [r'|e] eqn:E.
  - apply ssub_toZ in E; auto. apply schecked_sub_toZ in H; auto.
    f_equal. apply canon_toZ_eq; intuition lia.
  - exfalso. assert (Hx : exists e, ssub a b = Err e) by eauto.
    apply ssub_err_iff in Hx; auto. apply schecked_sub_toZ in H; auto.
    destruct H as (H1 & H2 & _). apply toZ_bound in H2. lia.
Qed.

(* ---- comparison, equality, sign predicates: all representable operands ---- *)
Lemma s_is_negative_toZ a : wf a -> s_is_negative a = (toZ a <? 0).
Proof.
  unfold wf, s_is_negative, toZ. destruct a as [v []]; cbn; intros H;
  destruct (Z.eqb_spec v 0); cbn; symmetry; [apply Z.ltb_ge | apply Z.ltb_lt | apply Z.ltb_ge | apply Z.ltb_ge]; lia.
Qed.

Lemma s_is_positive_toZ a : wf a -> s_is_positive a = (0 <=? toZ a).
Proof.
  intros H. unfold s_is_positive. rewrite s_is_negative_toZ by auto.
  destruct (Z.ltb_spec (toZ a) 0), (Z.leb_spec 0 (toZ a)); cbn; auto; lia.
Qed.

Lemma s_is_zero_toZ a : s_is_zero a = (toZ a =? 0).
Proof.
  unfold s_is_zero, toZ. destruct (sneg a); auto.
  destruct (Z.eqb_spec (sval a) 0), (Z.eqb_spec (- sval a) 0); auto; lia.
Qed.

Lemma scmp_toZ a b : wf a -> wf b -> scmp a b = (toZ a ?= toZ b).
Proof.
  intros Ha Hb. unfold scmp. rewrite !s_is_positive_toZ, !s_is_negative_toZ by auto.
  unfold wf in *.
  destruct (Z.ltb_spec (toZ a) 0) as [La|La], (Z.leb_spec 0 (toZ b)) as [Lb|Lb],
           (Z.leb_spec 0 (toZ a)) as [La'|La'], (Z.ltb_spec (toZ b) 0) as [Lb'|Lb'];
    cbn [andb]; try lia; symmetry;
    try (apply Z.compare_lt_iff; lia); try (apply Z.compare_gt_iff; lia).
  - (* both negative *)
    assert (Ea : toZ a = - sval a) by (unfold toZ in *; destruct (sneg a); lia).
    assert (Eb : toZ b = - sval b) by (unfold toZ in *; destruct (sneg b); lia).
    rewrite Ea, Eb. apply Z.compare_opp.
  - (* both non-negative *)
    assert (Ea : toZ a = sval a) by (unfold toZ in *; destruct (sneg a); lia).
    assert (Eb : toZ b = sval b) by (unfold toZ in *; destruct (sneg b); lia).
    rewrite Ea, Eb. reflexivity.
Qed.

Lemma sltb_toZ a b : wf a -> wf b -> sltb a b = (toZ a <? toZ b).
Proof. intros; unfold sltb, Z.ltb; rewrite scmp_toZ by auto; reflexivity. Qed.
Lemma sgtb_toZ a b : wf a -> wf b -> sgtb a b = (toZ b <? toZ a).
Proof.
  intros; unfold sgtb, Z.ltb; rewrite scmp_toZ by auto. rewrite (Z.compare_antisym (toZ a) (toZ b)).
  destruct (toZ a ?= toZ b); reflexivity.
Qed.

Lemma seqb_toZ a b : wf a -> wf b -> seqb a b = (toZ a =? toZ b).
Proof.
  intros Ha Hb. unfold seqb. rewrite !s_is_negative_toZ by auto. unfold wf, toZ in *.
  destruct (sneg a), (sneg b);
  destruct (Z.eqb_spec (sval a) (sval b));
  repeat match goal with |- context [?x <? 0] => destruct (Z.ltb_spec x 0) end;
  repeat match goal with |- context [?x =? ?y] => destruct (Z.eqb_spec x y) end;
  cbn; try reflexivity; lia.
Qed.

(* ---- decimal string form ---- *)
Lemma N_to_uint_nonnil n : N.to_uint n <> Decimal.Nil.
Proof. destruct n; cbn; [discriminate | apply DecimalPos.Unsigned.to_uint_nonnil]. Qed.

Lemma parse_digits_dec v : 0 <= v < MAXU -> parse_digits (dec_string v) = Ok v.
Proof.
  intros Hv. unfold parse_digits, dec_string.
  remember (N.to_uint (Z.to_N v)) as d eqn:Ed.
  assert (Hne : NilEmpty.string_of_uint d <> EmptyString).
  { destruct d; cbn; try discriminate.
    subst. pose proof (N_to_uint_nonnil (Z.to_N v)) as Hn. congruence. }
  destruct (NilEmpty.string_of_uint d) eqn:Es; [congruence|].
  rewrite <- Es. rewrite NilEmpty.usu. subst d. rewrite DecimalN.Unsigned.of_to.
  rewrite Z2N.id by lia. destruct (Z.ltb_spec v MAXU); [reflexivity | lia].
Qed.

Lemma dec_string_head v : 0 <= v ->
  exists c rest, dec_string v = String c rest /\ c <> "-"%char /\ c <> "+"%char.
Proof.
  intros Hv. unfold dec_string.
  pose proof (N_to_uint_nonnil (Z.to_N v)) as Hn.
  destruct (N.to_uint (Z.to_N v)); try congruence; cbn; eexists; eexists; (split; [reflexivity|]); split; discriminate.
Qed.

Lemma from_str_to_string a : wf a -> exists r, s_from_str (s_to_string a) = Ok r /\ seqb r a = true.
Proof.
  intros Ha. unfold s_to_string.
  destruct (dec_string_head (sval a)) as (c & rest & Hs & Hm & Hp); [unfold wf in Ha; lia|].
  destruct (sneg a && negb (sval a =? 0)) eqn:En.
  - cbn [s_from_str]. unfold parse_u128. rewrite Hs.
    destruct c as [[] [] [] [] [] [] [] []]; try congruence;
    rewrite <- Hs; rewrite parse_digits_dec by exact Ha; cbn [bind];
    (eexists; split; [reflexivity|]);
    rewrite seqb_toZ by (auto; unfold wf, sneg_; cbn; exact Ha);
    rewrite sneg_toZ; apply andb_true_iff in En; destruct En as [E1 E2];
    unfold toZ; rewrite E1; apply Z.eqb_refl.
  - unfold s_from_str, parse_u128. rewrite Hs.
    destruct c as [[] [] [] [] [] [] [] []]; try congruence;
    rewrite <- Hs; rewrite parse_digits_dec by exact Ha; cbn [bind];
    (eexists; split; [reflexivity|]);
    rewrite seqb_toZ by (auto; unfold wf, spos; cbn; exact Ha);
    unfold toZ at 1; cbn [spos sneg sval]; unfold toZ;
    destruct (sneg a); cbn in En; try apply Z.eqb_refl;
    apply negb_false_iff in En; apply Z.eqb_eq in En; rewrite En; reflexivity.
Qed.

Lemma to_string_zero a : toZ a = 0 -> s_to_string a = "0"%string.
Proof.
  intros H. assert (E : sval a = 0) by (unfold toZ in H; destruct (sneg a); lia).
  unfold s_to_string. rewrite E. rewrite andb_false_r. reflexivity.
Qed.

Lemma to_string_sign a : wf a ->
  s_to_string a = if toZ a <? 0 then String "-"%char (dec_string (Z.abs (toZ a))) else dec_string (toZ a).
Proof.
  intros Ha. unfold s_to_string, toZ, wf in *.
  destruct (sneg a); cbn [andb].
  - destruct (Z.eqb_spec (sval a) 0) as [E|E]; cbn [negb].
    + rewrite E. reflexivity.
    + destruct (Z.ltb_spec (- sval a) 0); [|lia]. f_equal. f_equal. lia.
  - destruct (Z.ltb_spec (sval a) 0); [lia|reflexivity].
Qed.
