(* vAMM curve facts: product monotonicity (C01), quotes = executions and limits (C17). *)
From MP.Model Require Import Prelude U128 SInt Feed Vamm.
From MP.Proofs Require Import Tactics SIntFacts.

Definition kfloor (dec q b : Z) : Z := q * b / dec.

Lemma modulo_dec_spec a b dec r : 0 <= a -> 0 < b -> 0 <= dec ->
  modulo_dec a b dec = Ok r -> r = (a * dec) mod b.
Proof.
  unfold modulo_dec; intros Ha Hb Hd H.
  inv_bind H. inv_bind H. inv_bind H. arith_ok. subst.
  rewrite Z.mod_eq by lia. reflexivity.
Qed.

(* ---- the algebraic core: what the pricing functions return keeps q*b >= k*D ---- *)
Lemma input_price_add dec quote q b base :
  0 < dec -> 0 <= q -> 0 <= b -> 0 < quote ->
  input_price dec AddToAmm quote q b = Ok base ->
  0 <= base <= b /\ kfloor dec q b <= kfloor dec (q + quote) (b - base).
Proof.
  intros Hd Hq Hb Hqt H. unfold input_price in H.
  destruct (Z.eqb_spec quote 0); [lia|].
  inv_bind H. inv_bind H. inv_bind H. inv_bind H. inv_bind H. inv_bind H.
  arith_ok. subst.
  match goal with H : modulo_dec _ _ _ = Ok _ |- _ => apply modulo_dec_spec in H; [|apply Z.div_pos; nia|lia|lia] end.
  set (k := q * b / dec) in *. set (q' := q + quote) in *.
  assert (Hk : k * dec <= q * b) by (unfold k; rewrite Z.mul_comm; apply Z.mul_div_le; lia).
  assert (Hk0 : 0 <= k) by (unfold k; apply Z.div_pos; nia).
  pose proof (Z.div_mod (k * dec) q' ltac:(lia)) as Hdm.
  pose proof (Z.mod_pos_bound (k * dec) q' ltac:(lia)) as Hmb.
  set (bn := k * dec / q') in *. set (r := (k * dec) mod q') in *.
  assert (Hbn : bn <= b) by nia.
  assert (Hbn0 : 0 <= bn) by (unfold bn; apply Z.div_pos; nia).
  destruct (Z.ltb_spec b bn); [lia|].
  unfold kfloor. fold k.
  destruct (Z.eqb_spec x4 0) as [E|E]; cbn [negb] in H; subst x4.
  - inv_ok. split; [lia|]. apply Z.div_le_lower_bound; [lia|]. nia.
  - arith_ok. subst. split; [lia|]. apply Z.div_le_lower_bound; [lia|]. nia.
Qed.

Lemma input_price_remove dec quote q b base :
  0 < dec -> 0 <= q -> 0 <= b -> 0 < quote ->
  input_price dec RemoveFromAmm quote q b = Ok base ->
  0 <= base /\ quote < q /\ kfloor dec q b <= kfloor dec (q - quote) (b + base).
Proof.
  intros Hd Hq Hb Hqt H. unfold input_price in H.
  destruct (Z.eqb_spec quote 0); [lia|].
  inv_bind H. inv_bind H. inv_bind H. inv_bind H. inv_bind H. inv_bind H.
  arith_ok. subst.
  assert (Hq' : 0 < q - quote) by lia.
  match goal with H : modulo_dec _ _ _ = Ok _ |- _ => apply modulo_dec_spec in H; [|apply Z.div_pos; nia|lia|lia] end.
  set (k := q * b / dec) in *. set (q' := q - quote) in *.
  assert (Hk0 : 0 <= k) by (unfold k; apply Z.div_pos; nia).
  pose proof (Z.div_mod (k * dec) q' ltac:(lia)) as Hdm.
  pose proof (Z.mod_pos_bound (k * dec) q' ltac:(lia)) as Hmb.
  set (bn := k * dec / q') in *. set (r := (k * dec) mod q') in *.
  assert (Hbn0 : 0 <= bn) by (unfold bn; apply Z.div_pos; nia).
  unfold kfloor. fold k.
  destruct (Z.ltb_spec b bn);
  (destruct (Z.eqb_spec x4 0) as [E|E]; cbn [negb] in H; subst x4;
   [ inv_ok; split; [lia|]; split; [lia|]; apply Z.div_le_lower_bound; [lia|]; nia
   | arith_ok; subst; split; [lia|]; split; [lia|]; apply Z.div_le_lower_bound; [lia|]; nia ]).
Qed.

Lemma output_price_add dec base q b quote :
  0 < dec -> 0 <= q -> 0 <= b -> 0 < base ->
  output_price dec AddToAmm base q b = Ok quote ->
  0 <= quote <= q /\ kfloor dec q b <= kfloor dec (q - quote) (b + base).
Proof.
  intros Hd Hq Hb Hbs H. unfold output_price in H.
  destruct (Z.eqb_spec base 0); [lia|].
  inv_bind H. inv_bind H. inv_bind H. inv_bind H. inv_bind H. inv_bind H.
  arith_ok. subst.
  match goal with H : modulo_dec _ _ _ = Ok _ |- _ => apply modulo_dec_spec in H; [|apply Z.div_pos; nia|lia|lia] end.
  set (k := q * b / dec) in *. set (b' := b + base) in *.
  assert (Hk : k * dec <= q * b) by (unfold k; rewrite Z.mul_comm; apply Z.mul_div_le; lia).
  assert (Hk0 : 0 <= k) by (unfold k; apply Z.div_pos; nia).
  pose proof (Z.div_mod (k * dec) b' ltac:(lia)) as Hdm.
  pose proof (Z.mod_pos_bound (k * dec) b' ltac:(lia)) as Hmb.
  set (qn := k * dec / b') in *. set (r := (k * dec) mod b') in *.
  assert (Hqn : qn <= q) by nia.
  assert (Hqn0 : 0 <= qn) by (unfold qn; apply Z.div_pos; nia).
  destruct (Z.ltb_spec q qn); [lia|].
  unfold kfloor. fold k.
  destruct (Z.eqb_spec x4 0) as [E|E]; cbn [negb] in H; subst x4.
  - inv_ok. split; [lia|]. apply Z.div_le_lower_bound; [lia|]. nia.
  - arith_ok. subst. split; [lia|]. apply Z.div_le_lower_bound; [lia|]. nia.
Qed.

Lemma output_price_remove dec base q b quote :
  0 < dec -> 0 <= q -> 0 <= b -> 0 < base ->
  output_price dec RemoveFromAmm base q b = Ok quote ->
  0 <= quote /\ base < b /\ kfloor dec q b <= kfloor dec (q + quote) (b - base).
Proof.
  intros Hd Hq Hb Hbs H. unfold output_price in H.
  destruct (Z.eqb_spec base 0); [lia|].
  inv_bind H. inv_bind H. inv_bind H. inv_bind H. inv_bind H. inv_bind H.
  arith_ok. subst.
  assert (Hb' : 0 < b - base) by lia.
  match goal with H : modulo_dec _ _ _ = Ok _ |- _ => apply modulo_dec_spec in H; [|apply Z.div_pos; nia|lia|lia] end.
  set (k := q * b / dec) in *. set (b' := b - base) in *.
  assert (Hk0 : 0 <= k) by (unfold k; apply Z.div_pos; nia).
  pose proof (Z.div_mod (k * dec) b' ltac:(lia)) as Hdm.
  pose proof (Z.mod_pos_bound (k * dec) b' ltac:(lia)) as Hmb.
  set (qn := k * dec / b') in *. set (r := (k * dec) mod b') in *.
  assert (Hqn0 : 0 <= qn) by (unfold qn; apply Z.div_pos; nia).
  unfold kfloor. fold k.
  destruct (Z.ltb_spec q qn);
  (destruct (Z.eqb_spec x4 0) as [E|E]; cbn [negb] in H; subst x4;
   [ inv_ok; split; [lia|]; split; [lia|]; apply Z.div_le_lower_bound; [lia|]; nia
   | arith_ok; subst; split; [lia|]; split; [lia|]; apply Z.div_le_lower_bound; [lia|]; nia ]).
Qed.

(* ---------- state-level facts ---------- *)
From MP.Model Require Import VammOps.

Definition wfv (v : vamm) : Prop :=
  0 < v_dec (vc v) /\ 0 <= v_q (vs v) /\ 0 <= v_b (vs v) /\ wf0 (v_total (vs v)).

Definition kof (v : vamm) : Z := kfloor (v_dec (vc v)) (v_q (vs v)) (v_b (vs v)).
Definition base_plus_net (v : vamm) : Z := v_b (vs v) + toZ (v_total (vs v)).

Lemma add_reserve_snapshot_ok sn e q b sn' : add_reserve_snapshot sn e q b = Ok sn' -> True.
Proof. trivial. Qed.

Lemma update_reserve_spec v e d qa ba cgo v' :
  wfv v -> 0 <= qa -> 0 <= ba ->
  update_reserve v e d qa ba cgo = Ok v' ->
  vc v' = vc v /\ v_owner v' = v_owner v /\ v_open (vs v') = v_open (vs v) /\
  v_frate (vs v') = v_frate (vs v) /\ v_next_funding (vs v') = v_next_funding (vs v) /\
  wf0 (v_total (vs v')) /\
  match d with
  | AddToAmm => v_q (vs v') = v_q (vs v) + qa /\ v_b (vs v') = v_b (vs v) - ba /\ ba <= v_b (vs v) /\
                toZ (v_total (vs v')) = toZ (v_total (vs v)) + ba
  | RemoveFromAmm => v_q (vs v') = v_q (vs v) - qa /\ v_b (vs v') = v_b (vs v) + ba /\ qa <= v_q (vs v) /\
                toZ (v_total (vs v')) = toZ (v_total (vs v)) - ba
  end.
Proof.
  intros (Hd & Hq & Hb & Ht) Hqa Hba H. unfold update_reserve in H.
  inv_bind H. inv_bind H. inv_bind H. inv_ok. cbn [vc vs v_owner].
  destruct d.
  - inv_bind Hx0. inv_bind Hx0. inv_bind Hx0. inv_ok. arith_ok. subst.
    match goal with H : sadd _ _ = Ok _ |- _ => apply sadd_toZ0 in H; [|assumption|unfold wf0, spos; cbn; lia] end.
    cbn [set_vs_reserves v_open v_q v_b v_total v_frate v_next_funding]. change (toZ (spos ba)) with ba in *. intuition lia.
  - inv_bind Hx0. inv_bind Hx0. inv_bind Hx0. inv_ok. arith_ok. subst.
    match goal with H : ssub _ _ = Ok _ |- _ => apply ssub_toZ0 in H; [|assumption|unfold wf0, spos; cbn; lia] end.
    cbn [set_vs_reserves v_open v_q v_b v_total v_frate v_next_funding]. change (toZ (spos ba)) with ba in *. intuition lia.
Qed.

Lemma kfloor_same dec q b : kfloor dec (q + 0) (b - 0) = kfloor dec q b.
Proof. rewrite Z.add_0_r, Z.sub_0_r. reflexivity. Qed.

(* C01 for one accepted swap_input *)
Lemma swap_input_c01 v e s d quote lim cgo v' qa ba :
  wfv v -> 0 <= quote ->
  swap_input v e s d quote lim cgo = Ok (v', (qa, ba)) ->
  wfv v' /\ kof v <= kof v' /\ base_plus_net v' = base_plus_net v /\ vc v' = vc v /\
  qa = quote /\ 0 <= ba /\
  match d with
  | AddToAmm => v_q (vs v') = v_q (vs v) + quote /\ v_b (vs v') = v_b (vs v) - ba
  | RemoveFromAmm => v_q (vs v') = v_q (vs v) - quote /\ v_b (vs v') = v_b (vs v) + ba
  end.
Proof.
  intros Hw Hq H. pose proof Hw as (Hd & Hq0 & Hb0 & Ht).
  unfold swap_input in H.
  destruct (v_open (vs v)); [|discriminate].
  destruct (s =? v_engine (vc v)); [|discriminate].
  inv_bind H. inv_bind H. inv_bind H. injection H as E1 E2 E3; subst v' qa ba.
  assert (Hbase : (quote = 0 /\ x = 0) \/ (0 < quote /\ input_price (v_dec (vc v)) d quote (v_q (vs v)) (v_b (vs v)) = Ok x)).
  { destruct (Z.eq_dec quote 0) as [E|E].
    - left. subst. unfold input_price in Hx. cbn in Hx. inv_ok. auto.
    - right. split; [lia|exact Hx]. }
  rename Hx1 into Hupd.
  clear Hx.
  destruct Hbase as [[E1 E2]|[Hpos Hp]].
  - subst. apply update_reserve_spec in Hupd; auto; try lia.
    destruct Hupd as (Hc & Ho & _ & _ & _ & Hwt & Hdir).
    unfold wfv, kof, base_plus_net. rewrite Hc.
    destruct d; destruct Hdir as (E1 & E2 & E3 & E4); rewrite E1, E2, E4;
    rewrite ?Z.add_0_r, ?Z.sub_0_r; intuition lia.
  - destruct d.
    + apply input_price_add in Hp; auto. destruct Hp as (Hp1 & Hk).
      apply update_reserve_spec in Hupd; auto; try lia.
      destruct Hupd as (Hc & Ho & _ & _ & _ & Hwt & E1 & E2 & E3 & E4).
      unfold wfv, kof, base_plus_net. rewrite Hc, E1, E2, E4. intuition lia.
    + apply input_price_remove in Hp; auto. destruct Hp as (Hp1 & Hlt & Hk).
      apply update_reserve_spec in Hupd; auto; try lia.
      destruct Hupd as (Hc & Ho & _ & _ & _ & Hwt & E1 & E2 & E3 & E4).
      unfold wfv, kof, base_plus_net. rewrite Hc, E1, E2, E4. intuition lia.
Qed.

(* C01 for one accepted swap_output *)
Lemma swap_output_c01 v e s d base lim v' qa ba :
  wfv v -> 0 <= base ->
  swap_output v e s d base lim = Ok (v', (qa, ba)) ->
  wfv v' /\ kof v <= kof v' /\ base_plus_net v' = base_plus_net v /\ vc v' = vc v /\
  ba = base /\ 0 <= qa /\
  match d with
  | AddToAmm => v_q (vs v') = v_q (vs v) - qa /\ v_b (vs v') = v_b (vs v) + base
  | RemoveFromAmm => v_q (vs v') = v_q (vs v) + qa /\ v_b (vs v') = v_b (vs v) - base
  end.
Proof.
  intros Hw Hq H. pose proof Hw as (Hd & Hq0 & Hb0 & Ht).
  unfold swap_output in H.
  destruct (v_open (vs v)); [|discriminate].
  destruct (s =? v_engine (vc v)); [|discriminate].
  inv_bind H. inv_bind H. inv_bind H. injection H as E1 E2 E3; subst v' qa ba.
  assert (Hquote : (base = 0 /\ x = 0) \/ (0 < base /\ output_price (v_dec (vc v)) d base (v_q (vs v)) (v_b (vs v)) = Ok x)).
  { destruct (Z.eq_dec base 0) as [E|E].
    - left. subst. unfold output_price in Hx. cbn in Hx. inv_ok. auto.
    - right. split; [lia|exact Hx]. }
  rename Hx1 into Hupd.
  clear Hx.
  destruct Hquote as [[E1 E2]|[Hpos Hp]].
  - subst. apply update_reserve_spec in Hupd; auto; try lia.
    destruct Hupd as (Hc & Ho & _ & _ & _ & Hwt & Hdir).
    unfold wfv, kof, base_plus_net. rewrite Hc.
    destruct d; cbn [flip] in Hdir; destruct Hdir as (E1 & E2 & E3 & E4); rewrite E1, E2, E4;
    rewrite ?Z.add_0_r, ?Z.sub_0_r; intuition lia.
  - destruct d; cbn [flip] in Hupd.
    + apply output_price_add in Hp; auto. destruct Hp as (Hp1 & Hk).
      apply update_reserve_spec in Hupd; auto; try lia.
      destruct Hupd as (Hc & Ho & _ & _ & _ & Hwt & E1 & E2 & E3 & E4).
      unfold wfv, kof, base_plus_net. rewrite Hc, E1, E2, E4. intuition lia.
    + apply output_price_remove in Hp; auto. destruct Hp as (Hp1 & Hlt & Hk).
      apply update_reserve_spec in Hupd; auto; try lia.
      destruct Hupd as (Hc & Ho & _ & _ & _ & Hwt & E1 & E2 & E3 & E4).
      unfold wfv, kof, base_plus_net. rewrite Hc, E1, E2, E4. intuition lia.
Qed.

(* ---------- every vAMM operation: C01 over histories ---------- *)
Definition vop_wf (o : vop) : Prop :=
  match o with
  | VSwapInput _ _ _ q l _ => 0 <= q
  | VSwapOutput _ _ _ b l => 0 <= b
  | _ => True
  end.

Definition c01_rel (v v' : vamm) : Prop :=
  wfv v' /\ v_dec (vc v') = v_dec (vc v) /\ kof v <= kof v' /\ base_plus_net v' = base_plus_net v.

Lemma c01_rel_refl v : wfv v -> c01_rel v v.
Proof. unfold c01_rel; intuition lia. Qed.

Lemma c01_rel_trans a b c : c01_rel a b -> c01_rel b c -> c01_rel a c.
Proof.
  unfold c01_rel, kof. intros (W1 & D1 & K1 & B1) (W2 & D2 & K2 & B2).
  rewrite D2 in *. rewrite D1 in *. intuition lia.
Qed.

Lemma settle_funding_frame v e s orc v' pf :
  settle_funding v e s orc = Ok (v', pf) ->
  vc v' = vc v /\ v_q (vs v') = v_q (vs v) /\ v_b (vs v') = v_b (vs v) /\ v_total (vs v') = v_total (vs v) /\
  snaps v' = snaps v /\ v_owner v' = v_owner v /\ v_open (vs v') = v_open (vs v).
Proof.
  unfold settle_funding. intros H.
  repeat (destr_if_in H; [|discriminate]).
  repeat (inv_bind H). inv_ok. cbn. intuition.
Qed.

Lemma set_open_frame v e s o v' :
  set_open v e s o = Ok v' ->
  vc v' = vc v /\ v_q (vs v') = v_q (vs v) /\ v_b (vs v') = v_b (vs v) /\ v_total (vs v') = v_total (vs v) /\
  snaps v' = snaps v /\ v_owner v' = v_owner v /\ v_open (vs v') = o.
Proof.
  unfold set_open. intros H. destr_if_in H; [|discriminate]. inv_bind H. inv_ok. cbn. intuition.
Qed.

Lemma update_config_frame v s u v' :
  vamm_update_config v s u = Ok v' ->
  vs v' = vs v /\ snaps v' = snaps v /\ v_owner v' = v_owner v /\ v_dec (vc v') = v_dec (vc v) /\
  is_admin (v_owner v) s = true.
Proof.
  unfold vamm_update_config. intros H. destr_if_in H; [|discriminate].
  repeat (inv_bind H). inv_ok. cbn. intuition.
Qed.

Lemma update_owner_frame v s n v' :
  vamm_update_owner v s n = Ok v' ->
  vs v' = vs v /\ snaps v' = snaps v /\ vc v' = vc v /\ is_admin (v_owner v) s = true.
Proof.
  unfold vamm_update_owner. intros H. destr_if_in H; [|discriminate]. inv_ok. cbn. intuition.
Qed.

Lemma vstep_c01 v o : wfv v -> vop_wf o -> c01_rel v (vstep v o).
Proof.
  intros Hw Ho. unfold vstep. destruct (vexec v o) as [v'|] eqn:E; [|apply c01_rel_refl; auto].
  destruct o; cbn [vexec vop_wf] in *.
  - inv_bind E. inv_ok. destruct x as (v1 & qa & ba). apply swap_input_c01 in Hx; auto.
    cbn [fst]. unfold c01_rel. destruct Hx as (W & K & B & C & _). rewrite C. intuition.
  - inv_bind E. inv_ok. destruct x as (v1 & qa & ba). apply swap_output_c01 in Hx; auto.
    cbn [fst]. unfold c01_rel. destruct Hx as (W & K & B & C & _). rewrite C. intuition.
  - inv_bind E. inv_ok. destruct x as (v1 & pf). apply settle_funding_frame in Hx. cbn [fst].
    destruct Hx as (C & Q & B & T & _).
    unfold c01_rel, wfv, kof, base_plus_net in *. rewrite C, Q, B, T. intuition lia.
  - apply set_open_frame in E. destruct E as (C & Q & B & T & _).
    unfold c01_rel, wfv, kof, base_plus_net in *. rewrite C, Q, B, T. intuition lia.
  - apply update_config_frame in E. destruct E as (S & _ & _ & D & _).
    unfold c01_rel, wfv, kof, base_plus_net in *. rewrite S, D. intuition lia.
  - apply update_owner_frame in E. destruct E as (S & _ & C & _).
    unfold c01_rel, wfv, kof, base_plus_net in *. rewrite S, C. intuition lia.
Qed.

Lemma vrun_c01 ops : forall v, wfv v -> Forall vop_wf ops -> c01_rel v (vrun v ops).
Proof.
  induction ops as [|o ops IH]; intros v Hw Hf; cbn [vrun fold_left].
  - apply c01_rel_refl; auto.
  - inversion Hf as [|? ? Ho Hf']; subst.
    pose proof (vstep_c01 v o Hw Ho) as H1.
    apply c01_rel_trans with (vstep v o); auto.
    apply IH; auto. apply H1.
Qed.

Lemma vrun_app v a b : vrun v (a ++ b) = vrun (vrun v a) b.
Proof. unfold vrun. apply fold_left_app. Qed.

(* between any two points of any run *)
Lemma vrun_between v ops1 ops2 :
  wfv v -> Forall vop_wf (ops1 ++ ops2) ->
  c01_rel (vrun v ops1) (vrun v (ops1 ++ ops2)).
Proof.
  intros Hw Hf. rewrite vrun_app. apply Forall_app in Hf. destruct Hf as [F1 F2].
  apply vrun_c01; auto. apply (vrun_c01 ops1 v Hw F1).
Qed.

(* the consequence: the net position returns to an earlier value => quote reserve not lower *)
Lemma quote_on_return v1 v2 :
  c01_rel v1 v2 -> wfv v1 ->
  toZ (v_total (vs v2)) = toZ (v_total (vs v1)) ->
  v_dec (vc v1) <= v_b (vs v1) ->
  v_q (vs v1) <= v_q (vs v2).
Proof.
  unfold c01_rel, kof, kfloor, base_plus_net, wfv.
  intros (W2 & D & K & B) W1 T Hb. rewrite D in K.
  assert (Eb : v_b (vs v2) = v_b (vs v1)) by lia. rewrite Eb in K.
  set (q1 := v_q (vs v1)) in *. set (q2 := v_q (vs v2)) in *. set (b := v_b (vs v1)) in *.
  set (dec := v_dec (vc v1)) in *.
  destruct (Z_le_gt_dec q1 q2) as [|Hgt]; auto. exfalso.
  assert (H1 : q2 * b + dec <= q1 * b) by nia.
  assert (H2 : q2 * b / dec + 1 <= q1 * b / dec).
  { replace (q2 * b / dec + 1) with ((q2 * b + 1 * dec) / dec) by (rewrite Z.div_add by lia; lia).
    apply Z.div_le_mono; lia. }
  lia.
Qed.

Lemma instantiate_wfv e s m v : vamm_instantiate e s m = Ok v ->
  wfv v /\ base_plus_net v = i_b m /\ v_dec (vc v) <= v_b (vs v) /\ v_dec (vc v) <= v_q (vs v) /\
  v_q (vs v) = i_q m /\ v_b (vs v) = i_b m.
Proof.
  unfold vamm_instantiate, validate_decimal_places, validate_ratio, validate_non_fraction.
  intros H. repeat (inv_bind H).
  repeat match goal with H : (if ?b then _ else _) = Ok _ |- _ => destruct b eqn:?; [|discriminate] end.
  inv_ok. zb. cbn.
  assert (0 < 10 ^ i_decimals m) by (apply Z.pow_pos_nonneg; lia).
  unfold wfv, base_plus_net, wf0; cbn. intuition lia.
Qed.
