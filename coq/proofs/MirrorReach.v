(* C02 over every reachable state: the side conditions of the step theorem (configuration bounds,
   every vAMM wired to the engine) are themselves invariant. *)
From MP.Model Require Import Prelude U128 SInt Feed Vamm VammOps Token World Engine Runtime.
From MP.Proofs Require Import Tactics MapFacts SIntFacts VammFacts RuntimeFacts FrameFacts ResidueFacts ConfigFacts MirrorFacts.

(* no reply handler touches the engine configuration or any vAMM *)
Lemma update_position_reply_cfg w i o id w' subs : update_position_reply w i o id = Ok (w', subs) -> ec (w_eng w') = ec (w_eng w) /\ w_vamms w' = w_vamms w.
Proof. unfold update_position_reply. intros H. arm H; split; reflexivity. Qed.
Lemma reverse_position_reply_cfg w i o w' subs : reverse_position_reply w i o = Ok (w', subs) -> ec (w_eng w') = ec (w_eng w) /\ w_vamms w' = w_vamms w.
Proof. unfold reverse_position_reply. intros H. arm H; split; reflexivity. Qed.
Lemma close_position_reply_cfg w i o w' subs : close_position_reply w i o = Ok (w', subs) -> ec (w_eng w') = ec (w_eng w) /\ w_vamms w' = w_vamms w.
Proof. unfold close_position_reply. intros H. arm H; split; reflexivity. Qed.
Lemma partial_close_position_reply_cfg w i o w' subs : partial_close_position_reply w i o = Ok (w', subs) -> ec (w_eng w') = ec (w_eng w) /\ w_vamms w' = w_vamms w.
Proof. unfold partial_close_position_reply. intros H. arm H; split; reflexivity. Qed.
Lemma liquidate_reply_cfg w i o w' subs : liquidate_reply w i o = Ok (w', subs) -> ec (w_eng w') = ec (w_eng w) /\ w_vamms w' = w_vamms w.
Proof. unfold liquidate_reply. intros H. arm H; split; reflexivity. Qed.
Lemma partial_liquidation_reply_cfg w i o w' subs : partial_liquidation_reply w i o = Ok (w', subs) -> ec (w_eng w') = ec (w_eng w) /\ w_vamms w' = w_vamms w.
Proof. unfold partial_liquidation_reply. intros H. arm H; split; reflexivity. Qed.
Lemma pay_funding_reply_cfg w pf a w' subs : pay_funding_reply w pf a = Ok (w', subs) -> ec (w_eng w') = ec (w_eng w) /\ w_vamms w' = w_vamms w.
Proof. unfold pay_funding_reply, append_cumulative_premium_fraction. intros H. arm H; split; reflexivity. Qed.

Lemma contract_reply_cfg w c id r w' subs :
  contract_reply w c id r = Ok (w', subs) -> ec (w_eng w') = ec (w_eng w) /\ w_vamms w' = w_vamms w.
Proof.
  unfold contract_reply, engine_reply. intros H.
  destruct (c =? A_ENGINE); [|discriminate].
  destruct r as [ev|]; [|discriminate]. destruct ev; try discriminate.
  - repeat (destr_if_in H; [eauto using update_position_reply_cfg, reverse_position_reply_cfg, close_position_reply_cfg,
      partial_close_position_reply_cfg, liquidate_reply_cfg, partial_liquidation_reply_cfg|]). discriminate.
  - destr_if_in H; [|discriminate]. eauto using pay_funding_reply_cfg.
Qed.

Lemma swap_input_vc v e s d q l c r : swap_input v e s d q l c = Ok r -> vc (fst r) = vc v.
Proof. unfold swap_input, update_reserve. intros H. minv H; minv_all; inv_ok; reflexivity. Qed.
Lemma swap_output_vc v e s d b l r : swap_output v e s d b l = Ok r -> vc (fst r) = vc v.
Proof. unfold swap_output, update_reserve. intros H. minv H; minv_all; inv_ok; reflexivity. Qed.

Lemma good_vamms_set w v vm vm' : good_vamms w -> zfind v (w_vamms w) = Some vm -> v_engine (vc vm') = v_engine (vc vm) -> good_vamms (set_vamm w v vm').
Proof.
  intros Hg Hz He u um Hu. cbn [set_vamm w_vamms] in Hu. destruct (Z.eq_dec u v) as [->|Hne].
  - rewrite zfind_zset_same in Hu. injection Hu as <-. rewrite He. eauto.
  - rewrite zfind_zset_other in Hu by assumption. eauto.
Qed.

Lemma exec_simple_good w s m w' ev : exec_simple w s m = Ok (w', ev) -> good_vamms w -> good_vamms w'.
Proof.
  unfold exec_simple, get_vamm. intros H Hg. destruct m.
  - destruct (zfind v (w_vamms w)) as [vm|] eqn:Ez; [|discriminate]. cbn [bind] in H. inv_bind H. inv_ok.
    eapply good_vamms_set; eauto. rewrite (swap_input_vc _ _ _ _ _ _ _ _ Hx). reflexivity.
  - destruct (zfind v (w_vamms w)) as [vm|] eqn:Ez; [|discriminate]. cbn [bind] in H. inv_bind H. inv_ok.
    eapply good_vamms_set; eauto. rewrite (swap_output_vc _ _ _ _ _ _ _ Hx). reflexivity.
  - destruct (zfind v (w_vamms w)) as [vm|] eqn:Ez; [|discriminate]. cbn [bind] in H. inv_bind H. inv_ok.
    destruct x as [vm' pf]. apply settle_funding_frame in Hx. destruct Hx as (Hc & _).
    eapply good_vamms_set; eauto. cbn [fst]. rewrite Hc. reflexivity.
  - destruct (zfind v (w_vamms w)) as [vm|] eqn:Ez; [|discriminate]. cbn [bind] in H. inv_bind H. inv_ok.
    apply set_open_frame in Hx. destruct Hx as (Hc & _). eapply good_vamms_set; eauto. rewrite Hc. reflexivity.
  - minv H; inv_ok. exact Hg.
  - minv H; inv_ok. exact Hg.
  - discriminate.
Qed.

Definition cfg_inv (w : world) : Prop := ecfg_ok (ec (w_eng w)) /\ good_vamms w.

Lemma dispatch_cfg fuel f w n sender subs w' n' :
  dispatch fuel f w n sender subs = Ok (w', n') -> cfg_inv w -> cfg_inv w'.
Proof.
  intros H Hc. eapply (dispatch_inv cfg_inv); try exact H; try exact Hc.
  - intros w0 s0 m w1 ev Hx [H1 H2]. split; [rewrite (exec_simple_eng _ _ _ _ _ Hx); exact H1 | eapply exec_simple_good; eauto].
  - intros w0 s0 amt w1 sb Hx Hq. unfold if_withdraw in Hx. minv Hx. inv_ok. exact Hq.
  - intros w0 s0 id r w1 sb Hx [H1 H2]. apply contract_reply_cfg in Hx. destruct Hx as [E1 E2].
    split; [rewrite E1; exact H1 | unfold good_vamms; rewrite E2; exact H2].
Qed.

(* operations as they can actually be sent: amounts are unsigned; only the vAMM owner could rewire
   a vAMM to another engine, which takes it out of this deployment *)
Definition op_ok (o : op) : Prop :=
  op_ext o /\
  match o with
  | OEngine _ (EUpdateConfig _ _ _ a b c d) _ => opt_nonneg a /\ opt_nonneg b /\ opt_nonneg c /\ opt_nonneg d
  | OVamm _ _ (WUpdateConfig u) => u_engine u = None \/ u_engine u = Some A_ENGINE
  | _ => True
  end.

Lemma engine_execute_cfg w s m funds w1 subs :
  engine_execute w s m funds = Ok (w1, subs) ->
  match m with EUpdateConfig _ _ _ a b c d => opt_nonneg a /\ opt_nonneg b /\ opt_nonneg c /\ opt_nonneg d | _ => True end ->
  cfg_inv w -> cfg_inv w1.
Proof.
  unfold engine_execute. intros H Hok [H1 H2]. destruct m.
  - destruct Hok as (Ha & Hb & Hc & Hd). eapply e_update_config_cfg in H; eauto. destruct H as (Hk & _ & _ & Hv & _).
    split; [exact Hk | unfold good_vamms; rewrite Hv; exact H2].
  - unfold e_update_pauser in H. arm H; split; assumption.
  - unfold e_add_whitelist in H. arm H; split; assumption.
  - unfold e_remove_whitelist in H. arm H; split; assumption.
  - unfold e_open_position in H. arm H; split; assumption.
  - unfold e_close_position, internal_close_position in H. arm H; split; assumption.
  - unfold e_liquidate, internal_close_position in H. arm H; try (split; assumption).
    all: match goal with Hp : partial_liquidation _ _ _ _ = Ok _ |- _ => unfold partial_liquidation in Hp; arm Hp; split; assumption end.
  - unfold e_pay_funding in H. arm H; split; assumption.
  - unfold e_deposit_margin in H. arm H; split; assumption.
  - unfold e_withdraw_margin in H. arm H; split; assumption.
  - unfold e_set_pause in H. arm H; split; assumption.
Qed.

Lemma exec_op_cfg f w o w' : exec_op f w o = Ok w' -> op_ok o -> cfg_inv w -> cfg_inv w'.
Proof.
  intros H [Hext Hok] Hc. destruct o; cbn [exec_op] in H; revert H; generalize FUEL; intros fuel H.
  - inv_ok. exact Hc.
  - inv_bind H. inv_bind H. inv_bind H. inv_ok. destruct x0 as [w1 subs], x1 as [w2 n2]. cbn [fst snd] in *.
    assert (Hcx : cfg_inv x) by (unfold attach_funds in Hx; minv Hx; inv_ok; exact Hc).
    eapply dispatch_cfg; [exact Hx1|]. eapply engine_execute_cfg; eauto.
  - unfold get_vamm in H. destruct (zfind v (w_vamms w)) as [vm|] eqn:Ez; [|discriminate]. cbn [bind] in H.
    destruct Hc as [H1 H2]. destruct o; inv_bind H; inv_ok; (split; [exact H1|]).
    + inv_bind Hx. inv_ok. eapply good_vamms_set; eauto. rewrite (swap_input_vc _ _ _ _ _ _ _ _ Hx0). reflexivity.
    + inv_bind Hx. inv_ok. eapply good_vamms_set; eauto. rewrite (swap_output_vc _ _ _ _ _ _ _ Hx0). reflexivity.
    + inv_bind Hx. inv_ok. destruct x0 as [vm' pf]. apply settle_funding_frame in Hx0. destruct Hx0 as (Hcc & _).
      eapply good_vamms_set; eauto. cbn [fst]. rewrite Hcc. reflexivity.
    + apply set_open_frame in Hx. destruct Hx as (Hcc & _). eapply good_vamms_set; eauto. rewrite Hcc. reflexivity.
    + eapply good_vamms_set; eauto. unfold vamm_update_config in Hx. minv Hx; minv_all; inv_ok; cbn [vc v_engine];
      destruct Hok as [E|E]; rewrite E; cbn [opt_or]; [reflexivity | symmetry; eauto].
    + apply update_owner_frame in Hx. destruct Hx as (_ & _ & Hcc & _). eapply good_vamms_set; eauto. rewrite Hcc. reflexivity.
  - inv_bind H. inv_bind H. inv_ok. destruct x as [w1 subs], x0 as [w2 n2]. cbn [fst snd] in *.
    eapply dispatch_cfg; [exact Hx0|].
    destruct m; [unfold if_update_owner in Hx|unfold if_add_vamm in Hx|unfold if_remove_vamm in Hx|unfold if_withdraw in Hx|unfold if_shutdown in Hx];
    minv Hx; inv_ok; exact Hc.
  - inv_bind H. inv_bind H. inv_ok. destruct x as [w1 subs], x0 as [w2 n2]. cbn [fst snd] in *.
    eapply dispatch_cfg; [exact Hx0|].
    destruct m; [unfold fp_update_owner in Hx|unfold fp_add_token in Hx|unfold fp_remove_token in Hx|unfold fp_send_token in Hx];
    minv Hx; inv_ok; exact Hc.
  - destruct m; minv H; inv_ok; exact Hc.
  - minv H; inv_ok; exact Hc.
Qed.

Definition c02_inv (w : world) : Prop := mirror_all w /\ cfg_inv w.

Lemma ecfg_plr w : ecfg_ok (ec (w_eng w)) -> plr_ok w.
Proof. unfold ecfg_ok, plr_ok. intuition lia. Qed.

Lemma step_c02 f w o : op_ok o -> c02_inv w -> c02_inv (fst (step_f f w o)).
Proof.
  intros Hok [Hm [Hc Hg]]. unfold step_f. destruct (exec_op f w o) eqn:E; cbn [fst]; [|split; [exact Hm|split; assumption]].
  split.
  - eapply exec_op_mirror; eauto. apply Hok. apply ecfg_plr. exact Hc.
  - eapply exec_op_cfg; eauto. split; assumption.
Qed.

Lemma run_c02 ops : forall w, Forall op_ok ops -> c02_inv w -> c02_inv (run w ops).
Proof.
  induction ops as [|o ops IH]; intros w Hf Hi; cbn [run fold_left]; [exact Hi|].
  inversion Hf; subst. fold (run (step w o) ops). apply IH; [assumption|]. unfold step. apply step_c02; assumption.
Qed.
