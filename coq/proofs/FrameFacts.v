(* One account's transaction never alters another trader's position (C10). *)
From MP.Model Require Import Prelude U128 SInt Feed Vamm VammOps Token World Engine Runtime.
From MP.Proofs Require Import Tactics MapFacts RuntimeFacts.

Lemma find_store_same e v t p : find_position (store_position e v t p) v t = Some p.
Proof. unfold find_position, positions_of, store_position; cbn [e_pos]. rewrite zfind_zset_same. apply zfind_zset_same. Qed.

Lemma find_store_other e v t p v2 t2 : (v <> v2 \/ t <> t2) -> find_position (store_position e v t p) v2 t2 = find_position e v2 t2.
Proof.
  intros H0. assert (H : v2 <> v \/ t2 <> t) by (destruct H0; [left|right]; congruence). unfold find_position, positions_of, store_position; cbn [e_pos].
  destruct (Z.eq_dec v2 v) as [Ev|Ev].
  - subst. rewrite zfind_zset_same. destruct H as [H|H]; [congruence|].
    rewrite zfind_zset_other by auto. reflexivity.
  - rewrite zfind_zset_other by auto. reflexivity.
Qed.

Lemma find_remove_other e v t v2 t2 : (v <> v2 \/ t <> t2) -> find_position (remove_position e v t) v2 t2 = find_position e v2 t2.
Proof.
  intros H0. assert (H : v2 <> v \/ t2 <> t) by (destruct H0; [left|right]; congruence). unfold find_position, positions_of, remove_position; cbn [e_pos].
  destruct (Z.eq_dec v2 v) as [Ev|Ev].
  - subst. rewrite zfind_zset_same. destruct H as [H|H]; [congruence|].
    rewrite zfind_zdel_other by auto. reflexivity.
  - rewrite zfind_zset_other by auto. reflexivity.
Qed.

(* the in-flight swap record, if any, is not about (v, t) *)
Definition tmp_not (v t : addr) (e : engine) : Prop :=
  match e_tmp e with Some tm => ts_vamm tm <> v \/ ts_trader tm <> t | None => True end.

Definition frame (v t : addr) (p0 : option position) (w : world) : Prop :=
  find_position (w_eng w) v t = p0 /\ tmp_not v t (w_eng w).

Ltac frame_simpl :=
  unfold frame, tmp_not in *;
  cbn [w_eng set_eng set_tok set_vamm e_tmp e_pos eng_set_tmp eng_set_state eng_set_sent eng_set_liq eng_set_vmap
       enter_restriction_mode ts_vamm ts_trader] in *;
  unfold find_position, positions_of in *;
  cbn [e_pos e_tmp eng_set_tmp eng_set_state eng_set_sent eng_set_liq eng_set_vmap store_position remove_position] in *.

Lemma exec_simple_eng w s m w' ev : exec_simple w s m = Ok (w', ev) -> w_eng w' = w_eng w.
Proof. unfold exec_simple. intros H. destruct m; minv H; inv_ok; reflexivity. Qed.

(* setters other than store/remove keep positions and (except eng_set_tmp) the tmp record *)
Lemma find_set_state e st v t : find_position (eng_set_state e st) v t = find_position e v t. Proof. reflexivity. Qed.
Lemma find_set_tmp e x v t : find_position (eng_set_tmp e x) v t = find_position e v t. Proof. reflexivity. Qed.
Lemma find_set_sent e x v t : find_position (eng_set_sent e x) v t = find_position e v t. Proof. reflexivity. Qed.
Lemma find_set_liq e x v t : find_position (eng_set_liq e x) v t = find_position e v t. Proof. reflexivity. Qed.
Lemma find_set_vmap e a m v t : find_position (eng_set_vmap e a m) v t = find_position e v t. Proof. reflexivity. Qed.
Lemma find_enter e a h v t : find_position (enter_restriction_mode e a h) v t = find_position e v t. Proof. reflexivity. Qed.

Ltac reply_frame H Hp :=
  unfold need_tmp, need_sent, need_liq in H;
  destruct Hp as [Hfind Htmp]; unfold tmp_not in Htmp;
  match type of H with context [e_tmp ?e] => destruct (e_tmp e) as [tm|] eqn:Etm; [|discriminate H] end;
  cbn [bind] in H; minv H; minv_all; inv_ok; subst;
  unfold frame, tmp_not;
  cbn [w_eng set_eng e_tmp eng_set_tmp eng_set_state eng_set_sent eng_set_liq eng_set_vmap enter_restriction_mode
       store_position remove_position ts_vamm ts_trader];
  repeat first [ rewrite find_enter | rewrite find_set_liq | rewrite find_set_tmp | rewrite find_set_sent
               | rewrite find_set_state | rewrite find_set_vmap
               | rewrite find_store_other by exact Htmp | rewrite find_remove_other by exact Htmp ];
  (split; [first [exact Hfind | reflexivity | idtac] | first [exact I | exact Htmp | idtac]]).

Lemma update_position_reply_frame v t p0 w i o id w' subs :
  update_position_reply w i o id = Ok (w', subs) -> frame v t p0 w -> frame v t p0 w'.
Proof. unfold update_position_reply. intros H Hp. reply_frame H Hp. Qed.
Lemma reverse_position_reply_frame v t p0 w i o w' subs :
  reverse_position_reply w i o = Ok (w', subs) -> frame v t p0 w -> frame v t p0 w'.
Proof. unfold reverse_position_reply. intros H Hp. reply_frame H Hp. Qed.
Lemma close_position_reply_frame v t p0 w i o w' subs :
  close_position_reply w i o = Ok (w', subs) -> frame v t p0 w -> frame v t p0 w'.
Proof. unfold close_position_reply. intros H Hp. reply_frame H Hp. Qed.
Lemma partial_close_position_reply_frame v t p0 w i o w' subs :
  partial_close_position_reply w i o = Ok (w', subs) -> frame v t p0 w -> frame v t p0 w'.
Proof. unfold partial_close_position_reply. intros H Hp. reply_frame H Hp. Qed.
Lemma liquidate_reply_frame v t p0 w i o w' subs :
  liquidate_reply w i o = Ok (w', subs) -> frame v t p0 w -> frame v t p0 w'.
Proof. unfold liquidate_reply. intros H Hp. reply_frame H Hp. Qed.
Lemma partial_liquidation_reply_frame v t p0 w i o w' subs :
  partial_liquidation_reply w i o = Ok (w', subs) -> frame v t p0 w -> frame v t p0 w'.
Proof. unfold partial_liquidation_reply. intros H Hp. reply_frame H Hp. Qed.
Lemma pay_funding_reply_frame v t p0 w pf a w' subs :
  pay_funding_reply w pf a = Ok (w', subs) -> frame v t p0 w -> frame v t p0 w'.
Proof.
  unfold pay_funding_reply, append_cumulative_premium_fraction. intros H Hp. minv H; minv_all; inv_ok; subst;
  destruct Hp as [Hf Ht]; split; cbn [w_eng set_eng]; rewrite ?find_set_vmap; auto.
Qed.

Lemma contract_reply_frame v t p0 w c id r w' subs :
  contract_reply w c id r = Ok (w', subs) -> frame v t p0 w -> frame v t p0 w'.
Proof.
  unfold contract_reply, engine_reply. intros H Hp.
  destruct (c =? A_ENGINE); [|discriminate].
  destruct r as [ev|]; [|discriminate]. destruct ev; try discriminate.
  - repeat (destr_if_in H; [eauto using update_position_reply_frame, reverse_position_reply_frame, close_position_reply_frame,
      partial_close_position_reply_frame, liquidate_reply_frame, partial_liquidation_reply_frame|]). discriminate.
  - destr_if_in H; [|discriminate]. eauto using pay_funding_reply_frame.
Qed.

Lemma dispatch_frame v t p0 fuel f w n sender subs w' n' :
  dispatch fuel f w n sender subs = Ok (w', n') -> frame v t p0 w -> frame v t p0 w'.
Proof.
  intros H Hp. eapply (dispatch_inv (frame v t p0)); try exact H; try exact Hp.
  - intros w0 s0 m w1 ev Hx Hq. apply exec_simple_eng in Hx. unfold frame in *. rewrite Hx. exact Hq.
  - intros w0 s0 amt w1 sb Hx Hq. unfold if_withdraw in Hx. minv Hx. inv_ok. exact Hq.
  - intros w0 s0 id r w1 sb Hx Hq. eapply contract_reply_frame; eauto.
Qed.

(* which stored position an engine message may write: the sender's own, or the one Liquidate names *)
Definition touches (m : emsg) (s : addr) : option (addr * addr) :=
  match m with
  | EOpenPosition v _ _ _ _ => Some (v, s)
  | EClosePosition v _ => Some (v, s)
  | EDepositMargin v _ => Some (v, s)
  | EWithdrawMargin v _ => Some (v, s)
  | ELiquidate v t _ => Some (v, t)
  | _ => None
  end.

Definition not_touching (m : emsg) (s v t : addr) : Prop :=
  match touches m s with Some (v', t') => v' <> v \/ t' <> t | None => True end.

Lemma partial_liquidation_frame w v0 t0 l r v t :
  partial_liquidation w v0 t0 l = Ok r -> (v0 <> v \/ t0 <> t) ->
  find_position (w_eng (fst r)) v t = find_position (w_eng w) v t /\ tmp_not v t (w_eng (fst r)).
Proof.
  unfold partial_liquidation. intros H Hn. minv H. inv_ok. cbn [fst w_eng set_eng]. split; [reflexivity|].
  unfold tmp_not. cbn. exact Hn.
Qed.

Lemma engine_execute_frame v t w s m funds w' subs :
  engine_execute w s m funds = Ok (w', subs) ->
  not_touching m s v t -> e_tmp (w_eng w) = None ->
  frame v t (find_position (w_eng w) v t) w'.
Proof.
  unfold engine_execute, not_touching. intros H Hn Hclean. unfold frame, tmp_not.
  destruct m; cbn [touches] in Hn.
  - unfold e_update_config in H. minv H; minv_all; inv_ok; subst; cbn [w_eng set_eng eng_set_cfg e_tmp]; rewrite Hclean; auto.
  - unfold e_update_pauser in H. minv H; inv_ok; cbn; rewrite Hclean; auto.
  - unfold e_add_whitelist in H. minv H; inv_ok; cbn; rewrite Hclean; auto.
  - unfold e_remove_whitelist in H. minv H; inv_ok; cbn; rewrite Hclean; auto.
  - unfold e_open_position in H. minv H; inv_ok; cbn [w_eng set_eng e_tmp eng_set_sent eng_set_tmp ts_vamm ts_trader];
    rewrite ?find_set_sent, ?find_set_tmp; auto.
  - unfold e_close_position, internal_close_position in H. minv H; inv_ok;
    cbn [w_eng set_eng e_tmp eng_set_sent eng_set_tmp ts_vamm ts_trader]; rewrite ?find_set_tmp; auto.
  - unfold e_liquidate, internal_close_position in H. minv H; inv_ok;
    cbn [w_eng set_eng e_tmp eng_set_liq eng_set_tmp ts_vamm ts_trader]; rewrite ?find_set_tmp, ?find_set_liq; auto.
    all: match goal with Hp : partial_liquidation _ _ _ _ = Ok _ |- _ =>
           eapply partial_liquidation_frame in Hp; [|exact Hn]; destruct Hp as [Hp1 Hp2];
           split; [rewrite Hp1; reflexivity | exact Hp2] end.
  - unfold e_pay_funding in H. minv H; inv_ok. rewrite Hclean. auto.
  - unfold e_deposit_margin in H. minv H; minv_all; inv_ok; subst; cbn [w_eng set_eng];
    rewrite find_store_other by exact Hn; cbn [e_tmp store_position]; rewrite Hclean; auto.
  - unfold e_withdraw_margin in H. minv H; minv_all; inv_ok; subst; cbn [w_eng set_eng];
    rewrite ?find_set_state; rewrite find_store_other by exact Hn; cbn [e_tmp store_position eng_set_state]; rewrite Hclean; auto.
  - unfold e_set_pause in H. minv H; inv_ok; cbn; rewrite Hclean; auto.
Qed.

(* C10: an engine transaction by s (naming trader tr in Liquidate) leaves every other stored
   position exactly as it was: not changed, not created, not removed *)
Lemma exec_engine_frame f w s m funds w' v t :
  exec_op f w (OEngine s m funds) = Ok w' ->
  not_touching m s v t -> e_tmp (w_eng w) = None ->
  find_position (w_eng w') v t = find_position (w_eng w) v t.
Proof.
  intros H Hn Hc. cbn [exec_op] in H. revert H. generalize FUEL. intros fuel H.
  inv_bind H. inv_bind H. inv_bind H. inv_ok. destruct x0 as [w1 subs], x1 as [w2 n2]. cbn [fst snd] in *.
  assert (Ea : w_eng x = w_eng w).
  { unfold attach_funds in Hx. minv Hx; inv_ok; reflexivity. }
  apply engine_execute_frame with (v := v) (t := t) in Hx0; [| exact Hn | rewrite Ea; exact Hc].
  eapply dispatch_frame in Hx1; [|exact Hx0]. destruct Hx1 as [Hf _]. rewrite Hf, Ea. reflexivity.
Qed.

(* non-engine transactions never write positions *)
Lemma exec_other_frame f w o w' v t :
  exec_op f w o = Ok w' -> (forall s m fu, o <> OEngine s m fu) -> e_tmp (w_eng w) = None ->
  find_position (w_eng w') v t = find_position (w_eng w) v t.
Proof.
  intros H Hne Hc. destruct o; cbn [exec_op] in H; revert H; generalize FUEL; intros fuel H.
  - inv_ok. reflexivity.
  - exfalso. eapply Hne. reflexivity.
  - minv H; inv_ok; reflexivity.
  - inv_bind H. inv_bind H. inv_ok. destruct x as [w1 subs], x0 as [w2 n2]. cbn [fst snd] in *.
    assert (E1 : w_eng w1 = w_eng w).
    { destruct m; [unfold if_update_owner in Hx|unfold if_add_vamm in Hx|unfold if_remove_vamm in Hx|unfold if_withdraw in Hx|unfold if_shutdown in Hx];
      minv Hx; inv_ok; reflexivity. }
    eapply dispatch_frame with (v := v) (t := t) (p0 := find_position (w_eng w) v t) in Hx0.
    + destruct Hx0 as [Hf _]. exact Hf.
    + unfold frame, tmp_not. rewrite E1, Hc. auto.
  - inv_bind H. inv_bind H. inv_ok. destruct x as [w1 subs], x0 as [w2 n2]. cbn [fst snd] in *.
    assert (E1 : w_eng w1 = w_eng w).
    { destruct m; [unfold fp_update_owner in Hx|unfold fp_add_token in Hx|unfold fp_remove_token in Hx|unfold fp_send_token in Hx];
      minv Hx; inv_ok; reflexivity. }
    eapply dispatch_frame with (v := v) (t := t) (p0 := find_position (w_eng w) v t) in Hx0.
    + destruct Hx0 as [Hf _]. exact Hf.
    + unfold frame, tmp_not. rewrite E1, Hc. auto.
  - destruct m; minv H; inv_ok; reflexivity.
  - minv H; inv_ok; reflexivity.
Qed.
