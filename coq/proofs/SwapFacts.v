(* Quotes equal executions, slippage limits (C17); the per-block price band (C15). *)
From MP.Model Require Import Prelude U128 SInt Feed Vamm VammOps Token World Engine Runtime.
From MP.Proofs Require Import Tactics SIntFacts VammFacts.

(* ---------- C17: the swap executes exactly what the query quotes ---------- *)
Lemma swap_input_quote v e s d quote lim cgo v' qa ba :
  swap_input v e s d quote lim cgo = Ok (v', (qa, ba)) ->
  qa = quote /\ q_input_amount v d quote = Ok ba.
Proof.
  unfold swap_input, q_input_amount. intros H.
  destruct (v_open (vs v)); [|discriminate]. destruct (s =? v_engine (vc v)); [|discriminate].
  inv_bind H. inv_bind H. inv_bind H. injection H as E1 E2 E3. subst v' qa ba. auto.
Qed.

Lemma swap_output_quote v e s d base lim v' qa ba :
  swap_output v e s d base lim = Ok (v', (qa, ba)) ->
  ba = base /\ q_output_amount v d base = Ok qa.
Proof.
  unfold swap_output, q_output_amount. intros H.
  destruct (v_open (vs v)); [|discriminate]. destruct (s =? v_engine (vc v)); [|discriminate].
  inv_bind H. inv_bind H. inv_bind H. injection H as E1 E2 E3. subst v' qa ba. auto.
Qed.

(* ---------- C17: limits.  With a non-zero limit the swap succeeds iff the limit is met and the
   same swap without limit succeeds, and then with the same result.  Any amount, zero included. *)
Definition input_limit_met (d : direction) (base lim : Z) : bool :=
  match d with AddToAmm => lim <=? base | RemoveFromAmm => base <=? lim end.

Lemma swap_input_limit_iff v e s d quote lim cgo base r :
  lim <> 0 -> q_input_amount v d quote = Ok base ->
  (swap_input v e s d quote lim cgo = Ok r <->
   input_limit_met d base lim = true /\ swap_input v e s d quote 0 cgo = Ok r).
Proof.
  intros Hl Hb. unfold swap_input, q_input_amount in *.
  destruct (v_open (vs v)); [|split; [discriminate|intros [_ H]; discriminate]].
  destruct (s =? v_engine (vc v)); [|split; [discriminate|intros [_ H]; discriminate]].
  apply Z.eqb_neq in Hl. rewrite Hl. cbn [negb]. rewrite Hb. cbn [bind Z.eqb negb].
  unfold input_limit_met. destruct d.
  - destruct (Z.leb_spec lim base), (Z.ltb_spec base lim); try lia; cbn [negb bind]; split; auto; try tauto;
    try discriminate; intros [H1 _]; discriminate.
  - destruct (Z.leb_spec base lim), (Z.ltb_spec lim base); try lia; cbn [negb bind]; split; auto; try tauto;
    try discriminate; intros [H1 _]; discriminate.
Qed.

Definition output_limit_met (d : direction) (quote lim : Z) : bool :=
  match flip d with RemoveFromAmm => lim <=? quote | AddToAmm => quote <=? lim end.

Lemma swap_output_limit_iff v e s d base lim quote r :
  lim <> 0 -> q_output_amount v d base = Ok quote ->
  (swap_output v e s d base lim = Ok r <->
   output_limit_met d quote lim = true /\ swap_output v e s d base 0 = Ok r).
Proof.
  intros Hl Hb. unfold swap_output, q_output_amount in *.
  destruct (v_open (vs v)); [|split; [discriminate|intros [_ H]; discriminate]].
  destruct (s =? v_engine (vc v)); [|split; [discriminate|intros [_ H]; discriminate]].
  apply Z.eqb_neq in Hl. rewrite Hl. cbn [negb]. rewrite Hb. cbn [bind Z.eqb negb].
  unfold output_limit_met. destruct d; cbn [flip].
  - destruct (Z.leb_spec lim quote), (Z.ltb_spec quote lim); try lia; cbn [negb bind]; split; auto; try tauto;
    try discriminate; intros [H1 _]; discriminate.
  - destruct (Z.leb_spec quote lim), (Z.ltb_spec lim quote); try lia; cbn [negb bind]; split; auto; try tauto;
    try discriminate; intros [H1 _]; discriminate.
Qed.

(* ---------- C15: a swap that may not go over the limit leaves the price inside the band ---------- *)
Definition in_band (p upper lower : Z) : Prop := lower <= p <= upper.

Lemma check_fluctuation_band v e d qa ba :
  v_fluct (vc v) <> 0 ->
  check_fluctuation v e d qa ba false = Ok tt ->
  exists upper lower cur price,
    price_boundaries v e = Ok (upper, lower) /\
    spot_of (v_dec (vc v)) (v_q (vs v)) (v_b (vs v)) = Ok cur /\ in_band cur upper lower /\
    (match d with
     | AddToAmm => spot_of (v_dec (vc v)) (v_q (vs v) + qa) (v_b (vs v) - ba)
     | RemoveFromAmm => spot_of (v_dec (vc v)) (v_q (vs v) - qa) (v_b (vs v) + ba)
     end) = Ok price /\ in_band price upper lower.
Proof.
  intros Hf H. unfold check_fluctuation in H. apply Z.eqb_neq in Hf. rewrite Hf in H.
  minv H. unfold out_of_band, in_band in *.
  repeat match goal with Hn : negb (_ || _) = true |- _ => apply negb_true_iff in Hn; apply orb_false_iff in Hn; destruct Hn end.
  zb.
  match goal with Hp : price_boundaries _ _ = Ok (?u, ?l), Hs : spot_of _ _ _ = Ok ?c, Hm : match d with _ => _ end = Ok ?p |- _ =>
    exists u, l, c, p; split; [reflexivity|]; split; [reflexivity|]; split; [lia|]; split; [|lia];
    destruct d; inv_bind Hm; inv_bind Hm; inv_bind Hm;
    match goal with
    | Ha : cadd _ _ = Ok _, Hsb : csub _ _ = Ok _ |- _ =>
        apply cadd_ok in Ha; destruct Ha as [Ha _]; apply csub_ok in Hsb; destruct Hsb as [Hsb _]; subst
    end;
    unfold spot_of;
    match goal with Hmul : cmul _ _ = Ok _ |- _ => rewrite Hmul end; cbn [bind]; assumption
  end.
Qed.

Lemma check_fluctuation_already_out v e d qa ba cgo upper lower cur :
  v_fluct (vc v) <> 0 ->
  price_boundaries v e = Ok (upper, lower) ->
  spot_of (v_dec (vc v)) (v_q (vs v)) (v_b (vs v)) = Ok cur ->
  ~ in_band cur upper lower ->
  check_fluctuation v e d qa ba cgo = Err EGuard.
Proof.
  intros Hf Hb Hc Hn. unfold check_fluctuation. apply Z.eqb_neq in Hf. rewrite Hf, Hb. cbn [bind]. rewrite Hc. cbn [bind].
  unfold out_of_band, in_band in *.
  destruct (Z.ltb_spec upper cur), (Z.ltb_spec cur lower); cbn; try reflexivity. lia.
Qed.
