(* C06 end to end: what a full-liquidation transaction does to the liquidator's and the liquidated trader's wallets. *)
From MP.Model Require Import Prelude U128 SInt Feed Vamm VammOps Token World Engine Runtime.
From MP.Proofs Require Import Tactics MapFacts SIntFacts VammFacts SwapFacts EngineGuards EngineArith CloseFacts LiqFacts RuntimeFacts
  LedgerFacts FrameFacts ResidueFacts MirrorFacts MirrorReach MoreFacts BandFacts FlowFacts CloseTxFacts RestrictFacts.

Definition no_pulls (msgs : list submsg) : Prop :=
  Forall (fun s => match sm_msg s with MTransferFrom _ _ _ => False | _ => True end) msgs.

Lemma no_pulls_flow a msgs : no_pulls msgs -> paid_to a msgs = transfers_to a msgs /\ pulled_from a msgs = 0.
Proof.
  induction 1 as [|s rest Hs Hr IH]; cbn [paid_to transfers_to pulled_from]; [split; reflexivity|].
  destruct IH as [I1 I2]. rewrite I1, I2. destruct (sm_msg s); try contradiction; split; lia.
Qed.

Lemma no_pulls_withdraw w st r a p st' msgs : withdraw w st r a p = Ok (st', msgs) -> no_pulls msgs.
Proof. intros H. apply withdraw_spec in H. destruct H as (sf & [ (E & _) | (E & _) ]); subst msgs; repeat constructor. Qed.

Lemma liquidate_reply_no_pulls w i o w' msgs : liquidate_reply w i o = Ok (w', msgs) -> no_pulls msgs.
Proof.
  unfold liquidate_reply. intros H. arm H.
  all: unfold no_pulls; repeat (apply Forall_app; split).
  all: repeat match goal with
       | Hw : withdraw _ _ _ _ _ = Ok (_, ?m) |- Forall _ ?m => exact (no_pulls_withdraw _ _ _ _ _ _ _ Hw)
       | Hr : realize_bad_debt _ _ _ = Ok _ |- _ => unfold realize_bad_debt in Hr; minv Hr; inv_ok
       end.
  all: repeat destr_if; repeat constructor.
Qed.

Lemma liquidate_branches w s v t lim w1 subs :
  e_liquidate w s v t lim = Ok (w1, subs) ->
  let wl := set_eng w (eng_set_liq (w_eng w) (Some s)) in
  let p := read_position (w_eng w) v t in
  sval (p_size p) <> 0 /\
  ((w1 = fst (internal_close_position wl v t p lim LIQUIDATION_ID) /\ subs = [snd (internal_close_position wl v t p lim LIQUIDATION_ID)]) \/
   (exists r, partial_liquidation wl v t lim = Ok r /\ w1 = fst r /\ subs = [snd r])).
Proof.
  intros H wl p. unfold e_liquidate in H. fold wl in H. cbv zeta in H.
  change (read_position (w_eng wl) v t) with p in H.
  destruct (query_margin_ratio wl v t); [|discriminate]. cbn [bind] in H.
  destruct (get_vamm wl v); [|discriminate]. cbn [bind] in H.
  match type of H with bind ?r _ = _ => destruct r; [|discriminate] end. cbn [bind] in H.
  match type of H with bind ?r _ = _ => destruct r; [|discriminate] end. cbn [bind] in H.
  destruct (require_vamm wl v); [|discriminate]. cbn [bind] in H.
  match type of H with bind ?r _ = _ => destruct r; [|discriminate] end. cbn [bind] in H.
  destruct (Z.eqb_spec (sval (p_size p)) 0) as [|Hnz]; [discriminate|]. cbn [negb bind] in H.
  split; [exact Hnz|].
  match type of H with (if ?c then _ else _) = _ => destruct c end.
  - right. destruct (partial_liquidation wl v t lim) as [r|]; [|discriminate]. cbn [bind] in H. inv_ok. eauto.
  - left. unfold internal_close_position in *. inv_ok. cbn [fst snd]. auto.
Qed.

Theorem liquidate_tx_pays f w s v t lim funds w' :
  exec_op f w (OEngine s (ELiquidate v t lim) funds) = Ok w' ->
  let p := read_position (w_eng w) v t in
  0 < e_dec (ec (w_eng w)) -> 0 <= e_liqfee (ec (w_eng w)) ->
  s <> A_ENGINE -> s <> A_IFUND -> s <> if_engine (w_if w) -> s <> e_ifund (ec (w_eng w)) ->
  (* the position was liquidated in full *)
  find_position (w_eng w') v t = None ->
  exists vm vm' o, get_vamm w v = Ok vm /\
    swap_output vm (w_env w) A_ENGINE (p_dir p) (sval (p_size p)) lim = Ok (vm', (o, sval (p_size p))) /\
    bal (w_tok w') s = bal (w_tok w) s - funds + o * e_liqfee (ec (w_eng w)) / e_dec (ec (w_eng w)) / 2 /\
    (t <> s -> t <> A_ENGINE -> t <> A_IFUND -> t <> if_engine (w_if w) -> t <> e_ifund (ec (w_eng w)) ->
       bal (w_tok w') t = bal (w_tok w) t).
Proof.
  intros H p HD Hlf Hs1 Hs2 Hs3 Hs4 Hnone.
  cbn [exec_op] in H. revert H. generalize FUEL. intros fuel H.
  destruct (attach_funds w s A_ENGINE funds) as [w0|] eqn:Ea; [|discriminate]. cbn [bind] in H.
  cbn [engine_execute] in H.
  destruct (e_liquidate w0 s v t lim) as [[w1 subs]|] eqn:Ec; [|discriminate]. cbn [bind fst snd] in H.
  destruct (dispatch fuel f w1 0 A_ENGINE subs) as [[wf nf]|] eqn:Ed; [|discriminate]. cbn [bind fst] in H. inv_ok.
  pose proof (attach_funds_core _ _ _ _ _ Ea) as [E1 E2].
  assert (E3 : w_vamms w0 = w_vamms w /\ w_if w0 = w_if w).
  { unfold attach_funds in Ea. destruct (funds =? 0); [inv_ok; auto|]. minv Ea. inv_ok. auto. }
  destruct E3 as (E3 & E4).
  assert (Hbal0 : forall a, bal (w_tok w0) a = bal (w_tok w) a + ind (a =? A_ENGINE) funds - ind (a =? s) funds).
  { intros a. unfold attach_funds in Ea. destruct (Z.eqb_spec funds 0) as [->|Hf]; [inv_ok; unfold ind; repeat destr_if; lia|]. minv Ea. inv_ok. cbn [w_tok set_tok].
    match goal with Hx : tok_move _ _ _ _ = Ok _ |- _ => rewrite (tok_move_bal _ _ _ _ _ a Hx) end. reflexivity. }
  assert (Hp0 : read_position (w_eng w0) v t = p) by (unfold p; rewrite E1; reflexivity).
  pose proof (liquidate_branches _ _ _ _ _ _ _ Ec) as Hbr. cbv zeta in Hbr. rewrite Hp0 in Hbr.
  destruct Hbr as [Hnz [[-> ->] | (r & Hpl & -> & ->)]].
  - (* full liquidation *)
    set (wl := set_eng w0 (eng_set_liq (w_eng w0) (Some s))) in *.
    assert (Hfound : find_position (w_eng w0) v t = Some p).
    { rewrite <- Hp0. apply read_position_found. rewrite Hp0. exact Hnz. }
    unfold internal_close_position in Ed. cbn [fst snd] in Ed.
    apply dispatch_single in Ed; [|reflexivity|reflexivity].
    destruct Ed as (k & wa & ev & wb & sb & _ & Ex & Er & n1 & Ed).
    cbn [swap_output_msg sm_msg sm_id] in Ex, Er. rewrite dir_side_inv in Ex.
    apply exec_swap_output in Ex. destruct Ex as (vm & vm' & qa & ba & Hz1 & Hsw & -> & ->).
    cbn [wl w_vamms set_eng w_env] in Hz1, Hsw. rewrite E3 in Hz1. rewrite E2 in Hsw.
    unfold contract_reply, engine_reply in Er. rewrite Z.eqb_refl in Er.
    change (LIQUIDATION_ID =? INCREASE_ID) with false in Er. change (LIQUIDATION_ID =? DECREASE_ID) with false in Er.
    change (LIQUIDATION_ID =? REVERSE_ID) with false in Er. change (LIQUIDATION_ID =? CLOSE_ID) with false in Er.
    change (LIQUIDATION_ID =? PARTIAL_CLOSE_ID) with false in Er. change (LIQUIDATION_ID =? LIQUIDATION_ID) with true in Er. cbn iota in Er.
    set (tmp := mkTmp v t (direction_to_side (p_dir p)) (sval (p_size p)) 0 (p_notional p) 0 szero szero false) in *.
    set (wsw := set_vamm (set_eng wl (eng_set_tmp (w_eng wl) (Some tmp))) v vm') in *.
    assert (Hqa : 0 <= qa /\ ba = sval (p_size p)).
    { unfold swap_output in Hsw. minv Hsw. inv_ok.
      match goal with Ho : output_price _ _ _ _ _ = Ok _ |- _ => apply output_price_nonneg in Ho end. auto. }
    destruct Hqa as (Hqa & ->).
    assert (Hec : ec (w_eng wsw) = ec (w_eng w)) by (cbn [wsw wl w_eng set_vamm set_eng eng_set_tmp eng_set_liq ec]; rewrite E1; reflexivity).
    pose proof (liquidate_reply_leafy _ _ _ _ _ Er) as Hl.
    pose proof (liquidate_reply_no_pulls _ _ _ _ _ Er) as Hnp.
    pose proof (liquidate_reply_spec wsw (sval (p_size p)) qa wb sb tmp s eq_refl eq_refl) as Hspec. cbv zeta in Hspec.
    rewrite Hec in Hspec. specialize (Hspec Hqa HD Hlf Hs4 Er).
    destruct Hspec as (Hfee & Hvict & _ & _ & Htok & _).
    assert (Hif : w_if wb = w_if w).
    { assert (Hx : w_if wb = w_if wsw) by (unfold liquidate_reply in Er; arm Er; reflexivity). rewrite Hx. cbn [wsw wl w_if set_vamm set_eng]. exact E4. }
    pose proof (dispatch_leafy_flow _ _ _ _ _ _ _ _ Ed Hl) as [_ Hflow].
    exists vm, vm', qa. split; [unfold get_vamm; rewrite Hz1; reflexivity|]. split; [exact Hsw|].
    split.
    + rewrite (Hflow s). rewrite Hif. rewrite flow_split by assumption.
      destruct (no_pulls_flow s sb Hnp) as [Hp1 Hp2]. rewrite Hp1, Hp2, Hfee. rewrite Htok.
      cbn [wsw wl w_tok set_vamm set_eng]. rewrite Hbal0. unfold ind. rewrite Z.eqb_refl.
      destruct (Z.eqb_spec s A_ENGINE); [contradiction|]. lia.
    + intros Hts Ht1 Ht2 Ht3 Ht4.
      rewrite (Hflow t). rewrite Hif. rewrite flow_split by assumption.
      destruct (no_pulls_flow t sb Hnp) as [Hp1 Hp2]. rewrite Hp1, Hp2. cbn [tmp ts_trader] in Hvict. rewrite (Hvict Hts Ht4). rewrite Htok.
      cbn [wsw wl w_tok set_vamm set_eng]. rewrite Hbal0. unfold ind.
      destruct (Z.eqb_spec t A_ENGINE); [contradiction|]. destruct (Z.eqb_spec t s); [contradiction|]. lia.
  - (* partial liquidation leaves a position: contradiction *)
    exfalso.
    assert (Hshape : exists tm d b l, e_tmp (w_eng (fst r)) = Some tm /\ ts_vamm tm = v /\ ts_trader tm = t /\
                       snd r = mkSub (MSwapOutput v d b l) PARTIAL_LIQUIDATION_ID RAlways).
    { unfold partial_liquidation in Hpl. arm Hpl. cbn [fst snd swap_output_msg].
      do 4 eexists. cbn [w_eng set_eng e_tmp eng_set_tmp]. split; [reflexivity|]. split; [reflexivity|]. split; reflexivity. }
    destruct Hshape as (tm & d & b & l & Htm & Hv & Ht & Hmsg).
    rewrite Hmsg in Ed.
    apply dispatch_single in Ed; [|reflexivity|reflexivity].
    destruct Ed as (k & wa & ev & wb & sb & _ & Ex & Er & n1 & Ed).
    cbn [sm_msg sm_id] in Ex, Er.
    apply exec_swap_output in Ex. destruct Ex as (vm1 & vm' & qa & ba & _ & _ & -> & ->).
    unfold contract_reply, engine_reply in Er. rewrite Z.eqb_refl in Er.
    change (PARTIAL_LIQUIDATION_ID =? INCREASE_ID) with false in Er. change (PARTIAL_LIQUIDATION_ID =? DECREASE_ID) with false in Er.
    change (PARTIAL_LIQUIDATION_ID =? REVERSE_ID) with false in Er. change (PARTIAL_LIQUIDATION_ID =? CLOSE_ID) with false in Er.
    change (PARTIAL_LIQUIDATION_ID =? PARTIAL_CLOSE_ID) with false in Er. change (PARTIAL_LIQUIDATION_ID =? LIQUIDATION_ID) with false in Er.
    change (PARTIAL_LIQUIDATION_ID =? PARTIAL_LIQUIDATION_ID) with true in Er. cbn iota in Er.
    pose proof (partial_liquidation_reply_leafy _ _ _ _ _ Er) as Hl.
    pose proof (partial_liquidation_reply_no_stamp _ _ _ _ _ tm Er Htm) as (p' & Hf' & _). rewrite Hv, Ht in Hf'.
    apply dispatch_leafy_core in Ed; [|exact Hl]. destruct Ed as (Ee & _). rewrite Ee in Hnone. congruence.
Qed.
