(* C07, the positive direction: a full liquidation goes through.  The execute arm accepts whenever the guards the
   property names hold; the reply never fails for a reason that depends on how far under water the position is
   (margins saturate at zero and the deficit becomes bad debt); only 128-bit overflow is excluded, by one explicit
   range hypothesis. *)
From MP.Model Require Import Prelude U128 SInt Feed Vamm VammOps Token World Engine Runtime.
From MP.Proofs Require Import Tactics MapFacts SIntFacts EngineArith CloseFacts RuntimeFacts FrameFacts LiqFacts.

(* ---------- success of the signed operations inside the representable range ---------- *)
Lemma sadd_ok a b : wf a -> wf b -> Z.abs (toZ a + toZ b) < MAXU -> exists r, sadd a b = Ok r.
Proof.
  intros Ha Hb H. destruct (sadd a b) as [r|e] eqn:E; [eauto|].
  exfalso. assert (X : exists e, sadd a b = Err e) by eauto. apply sadd_err_iff in X; [lia|assumption|assumption].
Qed.
Lemma ssub_ok a b : wf a -> wf b -> Z.abs (toZ a - toZ b) < MAXU -> exists r, ssub a b = Ok r.
Proof.
  intros Ha Hb H. destruct (ssub a b) as [r|e] eqn:E; [eauto|].
  exfalso. assert (X : exists e, ssub a b = Err e) by eauto. apply ssub_err_iff in X; [lia|assumption|assumption].
Qed.
Lemma smul_ok a b : wf a -> wf b -> Z.abs (toZ a * toZ b) < MAXU -> exists r, smul a b = Ok r.
Proof.
  intros Ha Hb H. destruct (smul a b) as [r|e] eqn:E; [eauto|].
  exfalso. assert (X : exists e, smul a b = Err e) by eauto. apply smul_err_iff in X; [lia|assumption|assumption].
Qed.
Lemma sdiv_ok a b : toZ b <> 0 -> exists r, sdiv a b = Ok r.
Proof.
  intros H. destruct (sdiv a b) as [r|e] eqn:E; [eauto|].
  exfalso. assert (X : exists e, sdiv a b = Err e) by eauto. apply sdiv_err_iff in X. contradiction.
Qed.

Lemma wf_of a : wf0 a -> sval a < MAXU -> wf a.
Proof. unfold wf, wf0. lia. Qed.

Lemma quot_abs_le x d : 0 < d -> Z.abs (Z.quot x d) <= Z.abs x.
Proof.
  intros Hd. rewrite <- Z.quot_abs by lia. rewrite (Z.abs_eq d) by lia.
  apply Z.quot_le_upper_bound; [lia|]. nia.
Qed.

(* ---------- calc_remain_margin succeeds inside the range, whatever the signs ---------- *)
Lemma calc_remain_margin_ok w v p delta :
  pos_wf p -> cpf_wf (w_eng w) v -> wf delta -> 0 < e_dec (ec (w_eng w)) ->
  let lat := cumulative_premium_fraction (w_eng w) v in
  sval lat < MAXU -> sval (p_lupf p) < MAXU -> sval (p_size p) < MAXU -> e_dec (ec (w_eng w)) < MAXU ->
  Z.abs (toZ lat - toZ (p_lupf p)) < MAXU ->
  Z.abs ((toZ lat - toZ (p_lupf p)) * toZ (p_size p)) + Z.abs (toZ delta) + p_margin p < MAXU ->
  exists r, calc_remain_margin w v p delta = Ok r.
Proof.
  intros (Hs & Hl & Hm & Hn) Hc Hd HD lat B1 B2 B3 B4 R1 R2.
  unfold calc_remain_margin. cbv zeta. fold lat. unfold cpf_wf in Hc. fold lat in Hc.
  assert (Wlat : wf lat) by (apply wf_of; assumption).
  assert (Wlu : wf (p_lupf p)) by (apply wf_of; assumption).
  assert (Wsz : wf (p_size p)) by (apply wf_of; assumption).
  destruct (ssub_ok lat (p_lupf p) Wlat Wlu R1) as [d E1]. rewrite E1. cbn [bind].
  destruct (ssub_toZ _ _ _ Wlat Wlu E1) as (Z1 & W1 & _).
  assert (R3 : Z.abs (toZ d * toZ (p_size p)) < MAXU) by (rewrite Z1; lia).
  destruct (smul_ok d (p_size p) W1 Wsz R3) as [m E2]. rewrite E2. cbn [bind].
  destruct (smul_toZ _ _ _ W1 Wsz E2) as (Z2 & W2 & _).
  assert (Wd : wf (spos (e_dec (ec (w_eng w))))) by (unfold wf; cbn [sval spos]; lia).
  destruct (sdiv_ok m (spos (e_dec (ec (w_eng w))))) as [fp E3]; [rewrite toZ_spos; lia|]. rewrite E3. cbn [bind].
  destruct (sdiv_toZ _ _ _ W2 Wd E3) as (Z3 & W3 & _). rewrite toZ_spos in Z3.
  assert (Hfp : Z.abs (toZ fp) <= Z.abs ((toZ lat - toZ (p_lupf p)) * toZ (p_size p))).
  { rewrite Z3, Z2, Z1. apply quot_abs_le. exact HD. }
  assert (R4 : Z.abs (toZ delta - toZ fp) < MAXU) by lia.
  destruct (ssub_ok delta fp Hd W3 R4) as [r1 E4]. rewrite E4. cbn [bind].
  destruct (ssub_toZ _ _ _ Hd W3 E4) as (Z4 & W4 & _).
  assert (Wm : wf (spos (p_margin p))) by (unfold wf; cbn [sval spos]; lia).
  assert (R5 : Z.abs (toZ r1 + toZ (spos (p_margin p))) < MAXU) by (rewrite toZ_spos, Z4; lia).
  destruct (sadd_ok r1 (spos (p_margin p)) W4 Wm R5) as [rem E5]. rewrite E5. cbn [bind].
  destruct (s_is_negative rem); eauto.
Qed.

(* ---------- the execute arm of Liquidate, full path ---------- *)
Lemma liquidate_execute_live w s v t lim mr :
  let wl := with_liquidator w s in
  let c := ec (w_eng w) in
  liq_ratio wl v t = Ok mr ->
  require_vamm wl v = Ok tt ->
  sgtb mr (spos (e_maint c)) = false ->
  sval (p_size (read_position (w_eng w) v t)) <> 0 ->
  (e_liqfee c <? sval mr) && negb (e_plr c =? 0) = false ->
  e_liquidate w s v t lim =
    Ok (fst (internal_close_position wl v t (read_position (w_eng w) v t) lim LIQUIDATION_ID),
        [snd (internal_close_position wl v t (read_position (w_eng w) v t) lim LIQUIDATION_ID)]).
Proof.
  intros wl c Hr Hv Hm Hs Hfull. subst wl c. unfold with_liquidator in *. unfold e_liquidate. unfold liq_ratio in Hr.
  set (wl := set_eng w (eng_set_liq (w_eng w) (Some s))) in *.
  destruct (query_margin_ratio wl v t) as [mr0|] eqn:E0; [|discriminate]. cbn [bind] in Hr |- *.
  destruct (get_vamm wl v) as [vm|] eqn:E1; [|discriminate]. cbn [bind] in Hr |- *.
  destruct (q_is_over_spread_limit vm (oracle_of wl vm)) as [over|] eqn:E2; [|discriminate]. cbn [bind] in Hr |- *.
  assert (Hrest : forall mr', mr' = mr ->
    (do _ <- require_vamm wl v;
     do _ <- require_insufficient_margin mr' (e_maint (ec (w_eng w)));
     check negb (sval (p_size (read_position (w_eng wl) v t)) =? 0) else EGuard;
     if (e_liqfee (ec (w_eng w)) <? sval mr') && negb (e_plr (ec (w_eng w)) =? 0)
     then do r <- partial_liquidation wl v t lim; Ok (fst r, [snd r])
     else let '(w', m) := internal_close_position wl v t (read_position (w_eng wl) v t) lim LIQUIDATION_ID in Ok (w', [m])) =
    Ok (fst (internal_close_position wl v t (read_position (w_eng w) v t) lim LIQUIDATION_ID),
        [snd (internal_close_position wl v t (read_position (w_eng w) v t) lim LIQUIDATION_ID)])).
  { intros mr' ->. rewrite Hv. cbn [bind]. unfold require_insufficient_margin. rewrite Hm. cbn [negb bind].
    change (read_position (w_eng wl) v t) with (read_position (w_eng w) v t).
    destruct (Z.eqb_spec (sval (p_size (read_position (w_eng w) v t))) 0) as [E|E]; [contradiction|]. cbn [negb].
    rewrite Hfull.
    destruct (internal_close_position wl v t (read_position (w_eng w) v t) lim LIQUIDATION_ID) as [w' m]. reflexivity. }
  destruct over.
  - destruct (margin_ratio_calc_option wl v t POracle) as [omr|] eqn:E3; [|discriminate]. cbn [bind] in Hr |- *.
    destruct (schecked_sub omr mr0) as [d|] eqn:E4; [|discriminate]. cbn [bind] in Hr |- *.
    injection Hr as Hr. apply Hrest. exact Hr.
  - injection Hr as Hr. apply Hrest. exact Hr.
Qed.

(* ---------- success of the unsigned checked operations ---------- *)
Lemma cadd_live a b : a + b < MAXU -> cadd a b = Ok (a + b).
Proof. intros H. unfold cadd. destruct (a + b <? MAXU) eqn:E; [reflexivity|zb; lia]. Qed.
Lemma csub_live a b : b <= a -> csub a b = Ok (a - b).
Proof. intros H. unfold csub. destruct (b <=? a) eqn:E; [reflexivity|zb; lia]. Qed.
Lemma cmul_live a b : a * b < MAXU -> cmul a b = Ok (a * b).
Proof. intros H. unfold cmul. destruct (a * b <? MAXU) eqn:E; [reflexivity|zb; lia]. Qed.
Lemma cdiv_live a b : b <> 0 -> cdiv a b = Ok (a / b).
Proof. intros H. unfold cdiv. destruct (b =? 0) eqn:E; [zb; contradiction|reflexivity]. Qed.

Ltac live_step :=
  cbn [bind fst snd e_bad_debt e_oi e_pause]; cbv beta iota zeta;
  match goal with
  | |- context [cadd ?a ?b] => rewrite (cadd_live a b) by lia
  | |- context [csub ?a ?b] => rewrite (csub_live a b) by lia
  | |- context [cmul ?a ?b] => rewrite (cmul_live a b) by lia
  | |- context [cdiv ?a ?b] => rewrite (cdiv_live a b) by lia
  | |- context [if ?b then _ else _] => destruct b eqn:?; zb
  end.

(* ---------- the liquidation reply goes through, whatever the sign and size of the equity ---------- *)
Lemma liquidate_reply_live w i o swap liq :
  e_tmp (w_eng w) = Some swap -> e_liq (w_eng w) = Some liq ->
  let c := ec (w_eng w) in let st := es (w_eng w) in
  let v := ts_vamm swap in let t := ts_trader swap in
  let p := get_position (w_eng w) (w_env w) v t (ts_side swap) in
  let lat := cumulative_premium_fraction (w_eng w) v in
  pos_wf p -> cpf_wf (w_eng w) v -> 0 < e_dec c -> 0 <= o -> 0 <= ts_open_notional swap -> 0 <= e_liqfee c ->
  0 <= e_bad_debt st -> 0 <= engine_balance w ->
  sval lat < MAXU -> sval (p_lupf p) < MAXU -> sval (p_size p) < MAXU -> e_dec c < MAXU ->
  Z.abs (toZ lat - toZ (p_lupf p)) < MAXU ->
  Z.abs ((toZ lat - toZ (p_lupf p)) * toZ (p_size p)) + ts_open_notional swap + o + p_margin p + o * e_liqfee c
    + e_bad_debt st + engine_balance w < MAXU ->
  exists w' msgs, liquidate_reply w i o = Ok (w', msgs).
Proof.
  intros Htmp Hliq c st v t p lat Hp Hc HD Ho Hon Hlf Hbd Htb B1 B2 B3 B4 R1 R2.
  unfold liquidate_reply, need_tmp, need_liq. rewrite Htmp, Hliq. cbn [bind]. cbv zeta.
  fold c st v t. fold p.
  assert (Hol : 0 <= o * e_liqfee c) by nia.
  pose proof Hp as (_ & _ & Hmg & _).
  assert (Wo : wf (spos o)) by (unfold wf; cbn [sval spos]; lia).
  assert (Wn : wf (spos (ts_open_notional swap))) by (unfold wf; cbn [sval spos]; lia).
  (* the signed difference between the quote exchanged and the open notional *)
  assert (Hmd : exists md, (match p_dir p with
                     | RemoveFromAmm => ssub (spos (ts_open_notional swap)) (spos o)
                     | AddToAmm => ssub (spos o) (spos (ts_open_notional swap))
                     end) = Ok md /\ wf md /\ Z.abs (toZ md) <= ts_open_notional swap + o).
  { destruct (p_dir p).
    - destruct (ssub_ok (spos o) (spos (ts_open_notional swap)) Wo Wn) as [md E]; [rewrite !toZ_spos; lia|].
      exists md. split; [exact E|]. destruct (ssub_toZ _ _ _ Wo Wn E) as (Z1 & W1 & _). rewrite !toZ_spos in Z1. split; [exact W1|lia].
    - destruct (ssub_ok (spos (ts_open_notional swap)) (spos o) Wn Wo) as [md E]; [rewrite !toZ_spos; lia|].
      exists md. split; [exact E|]. destruct (ssub_toZ _ _ _ Wn Wo E) as (Z1 & W1 & _). rewrite !toZ_spos in Z1. split; [exact W1|lia]. }
  destruct Hmd as (md & Emd & Wmd & Bmd). rewrite Emd. cbn [bind].
  destruct (calc_remain_margin_ok w v p md Hp Hc Wmd HD B1 B2 B3 B4 R1) as [[[[fp m0] bd0] lt] Ecr]; [fold lat; lia|].
  rewrite Ecr. cbn [bind]. cbv beta iota zeta.
  pose proof (calc_remain_margin_spec _ _ _ _ _ _ _ _ Hp Hc (wf_wf0 _ Wmd) HD Ecr) as (_ & Hfp & Hr).
  cbv zeta in Hr. destruct Hr as (Hneg & Hpos & Hm0 & Hbd0).
  assert (Hfo : Z.abs (funding_owed w v p) <= Z.abs ((toZ lat - toZ (p_lupf p)) * toZ (p_size p))).
  { unfold funding_owed. fold lat. apply quot_abs_le. exact HD. }
  assert (Bm0 : m0 <= ts_open_notional swap + o + Z.abs ((toZ lat - toZ (p_lupf p)) * toZ (p_size p)) + p_margin p).
  { destruct (Z_lt_le_dec (toZ md - funding_owed w v p + p_margin p) 0) as [L|L]; [destruct (Hneg L)|destruct (Hpos L)]; lia. }
  assert (Bbd0 : bd0 <= ts_open_notional swap + o + Z.abs ((toZ lat - toZ (p_lupf p)) * toZ (p_size p)) + p_margin p).
  { destruct (Z_lt_le_dec (toZ md - funding_owed w v p + p_margin p) 0) as [L|L]; [destruct (Hneg L)|destruct (Hpos L)]; lia. }
  rewrite (cmul_live o (e_liqfee c)) by lia. cbn [bind].
  rewrite (cdiv_live (o * e_liqfee c) (e_dec c)) by lia. cbn [bind].
  rewrite (cdiv_live (o * e_liqfee c / e_dec c) 2) by lia. cbn [bind].
  remember (o * e_liqfee c / e_dec c) as pen eqn:Hpen.
  assert (Bpen : 0 <= pen <= o * e_liqfee c).
  { subst pen. split; [apply Z.div_pos; lia|]. apply Z.div_le_upper_bound; [lia|]. nia. }
  remember (pen / 2) as fee eqn:Hfee.
  assert (Bfee : 0 <= fee <= pen).
  { subst fee. split; [apply Z.div_pos; lia|]. apply Z.div_le_upper_bound; lia. }
  clear Hpen Hfee Hneg Hpos Hfp Ecr Emd.
  unfold realize_bad_debt, withdraw. fold (engine_balance w).
  set (tb := engine_balance w) in *. set (ebd := e_bad_debt st) in *.
  set (X := Z.abs ((toZ lat - toZ (p_lupf p)) * toZ (p_size p))) in *.
  assert (HX : 0 <= X) by (subst X; lia).
  repeat live_step; cbn [bind fst snd e_bad_debt e_oi e_pause]; cbv beta iota zeta; eauto.
Qed.

(* ---------- the ledger carries the reply's messages ---------- *)
From MP.Proofs Require Import LedgerFacts.

(* the engine's leaf messages (transfers out of the vault, draws on the insurance fund), run on the ledger alone *)
Fixpoint lrun (t : token) (msgs : list submsg) : res token :=
  match msgs with
  | [] => Ok t
  | s :: rest =>
      match sm_msg s, sm_reply s with
      | MTransfer to amt, RError => do t1 <- tok_move t A_ENGINE to amt; lrun t1 rest
      | MIfWithdraw target amt, RError =>
          check (target =? A_IFUND) else EDecode;
          do t1 <- tok_move t A_IFUND A_ENGINE amt; lrun t1 rest
      | _, _ => Err EDecode
      end
  end.

Lemma set_tok_twice w t1 t2 : set_tok (set_tok w t1) t2 = set_tok w t2.
Proof. reflexivity. Qed.
Lemma set_tok_same w : set_tok w (w_tok w) = w.
Proof. destruct w; reflexivity. Qed.

Lemma dispatch_lrun msgs : forall fuel f w n t',
  f < 0 -> 0 <= n -> if_engine (w_if w) = A_ENGINE ->
  lrun (w_tok w) msgs = Ok t' -> (length msgs + 3 <= fuel)%nat ->
  exists n', dispatch fuel f w n A_ENGINE msgs = Ok (set_tok w t', n') /\ n <= n'.
Proof.
  induction msgs as [|s rest IH]; intros fuel f w n t' Hf Hn Hie Hr Hfu.
  - destruct fuel as [|k]; [cbn in Hfu; lia|]. cbn [lrun] in Hr. injection Hr as <-. cbn [dispatch].
    rewrite set_tok_same. exists n. split; [reflexivity|lia].
  - destruct fuel as [|k]; [cbn in Hfu; lia|]. cbn [length] in Hfu. cbn [lrun] in Hr. cbn [dispatch].
    destruct (Z.eqb_spec n f) as [->|_]; [lia|].
    destruct (sm_msg s) as [| | | |to amt| |target amt] eqn:Em; try discriminate; destruct (sm_reply s) eqn:Er; try discriminate.
    + destruct (tok_move (w_tok w) A_ENGINE to amt) as [t1|] eqn:Et; [|discriminate]. cbn [bind] in Hr.
      cbn [exec_simple]. rewrite Et. cbn [bind fst snd wants_ok].
      destruct (IH k f (set_tok w t1) (n + 1) t' Hf ltac:(lia) Hie Hr ltac:(lia)) as (n' & Hd & Hn').
      rewrite set_tok_twice in Hd. exists n'. split; [exact Hd|lia].
    + destruct (Z.eqb_spec target A_IFUND) as [->|]; [|discriminate].
      destruct (tok_move (w_tok w) A_IFUND A_ENGINE amt) as [t1|] eqn:Et; [|discriminate]. cbn [bind] in Hr.
      cbn [bind]. unfold if_withdraw. rewrite Hie, Z.eqb_refl. cbn [bind fst snd].
      destruct k as [|k1]; [lia|]. cbn [dispatch]. destruct (Z.eqb_spec (n + 1) f) as [E|_]; [lia|].
      cbn [sm_msg sm_reply exec_simple]. rewrite Et. cbn [bind fst snd wants_ok].
      destruct k1 as [|k2]; [lia|]. cbn [dispatch bind fst snd wants_ok].
      destruct (IH (S (S k2)) f (set_tok w t1) (n + 1 + 1) t' Hf ltac:(lia) Hie Hr ltac:(lia)) as (n' & Hd & Hn').
      rewrite set_tok_twice in Hd. exists n'. split; [exact Hd|lia].
Qed.

Lemma tok_move_live t from to amt :
  amt <> 0 -> amt <= bal t from -> from <> to -> bal t to + amt < MAXU ->
  tok_move t from to amt = Ok (set_bal (set_bal t from (bal t from - amt)) to (bal t to + amt)).
Proof.
  intros H0 H1 H2 H3. unfold tok_move.
  destruct (Z.eqb_spec amt 0); [contradiction|]. cbn [negb].
  destruct (Z.leb_spec amt (bal t from)); [|lia].
  rewrite bal_set_other by congruence. rewrite cadd_live by lia. reflexivity.
Qed.

Ltac bal_norm := repeat first [rewrite bal_set_same | rewrite bal_set_other by (first [assumption | congruence])].
Ltac tok_step :=
  match goal with
  | |- context [tok_move ?t ?from ?to ?amt] =>
      rewrite (tok_move_live t from to amt) by (first [assumption | congruence | (bal_norm; lia)]);
      cbn [bind]
  end.

(* what the trader's position is worth to them at the quote `o` the closing swap returned: margin + realised PnL - funding *)
Definition liq_equity (w : world) (v : addr) (p : position) (on o : Z) : Z :=
  (match p_dir p with AddToAmm => o - on | RemoveFromAmm => on - o end) - funding_owed w v p + p_margin p.

Lemma liquidate_reply_ledger_live w i o swap liq :
  e_tmp (w_eng w) = Some swap -> e_liq (w_eng w) = Some liq ->
  let c := ec (w_eng w) in let st := es (w_eng w) in
  let v := ts_vamm swap in let t := ts_trader swap in
  let p := get_position (w_eng w) (w_env w) v t (ts_side swap) in
  let lat := cumulative_premium_fraction (w_eng w) v in
  let X := Z.abs ((toZ lat - toZ (p_lupf p)) * toZ (p_size p)) in
  let tb := bal (w_tok w) A_ENGINE in let fund := bal (w_tok w) A_IFUND in
  pos_wf p -> cpf_wf (w_eng w) v -> 0 < e_dec c -> 0 <= o -> 0 <= ts_open_notional swap -> 0 <= e_liqfee c ->
  0 <= e_bad_debt st -> 0 <= tb -> 0 <= bal (w_tok w) liq ->
  sval lat < MAXU -> sval (p_lupf p) < MAXU -> sval (p_size p) < MAXU -> e_dec c < MAXU ->
  Z.abs (toZ lat - toZ (p_lupf p)) < MAXU ->
  (* no 128-bit overflow: one bound over everything that is ever added up *)
  X + ts_open_notional swap + o + p_margin p + o * e_liqfee c + e_bad_debt st + tb + fund + bal (w_tok w) liq < MAXU ->
  (* the registered insurance fund; the liquidator is neither the vault nor the fund *)
  e_ifund c = A_IFUND -> liq <> A_ENGINE -> liq <> A_IFUND ->
  (* the fund covers any shortfall *)
  X + ts_open_notional swap + o + p_margin p + o * e_liqfee c <= fund ->
  (* the vault holds the position's remaining equity (otherwise: known finding stale_vault_balance) *)
  liq_equity w v p (ts_open_notional swap) o <= tb ->
  exists w' msgs t', liquidate_reply w i o = Ok (w', msgs) /\ lrun (w_tok w) msgs = Ok t' /\
    (exists e', w' = set_eng w e') /\ (length msgs <= 4)%nat.
Proof.
  intros Htmp Hliq c st v t p lat X tb fund Hp Hc HD Ho Hon Hlf Hbd Htb Hlb B1 B2 B3 B4 R1 R2 Hif Hl1 Hl2 Hfund Hvault.
  unfold liquidate_reply, need_tmp, need_liq. rewrite Htmp, Hliq. cbn [bind]. cbv zeta.
  fold c st v t. fold p.
  assert (Hol : 0 <= o * e_liqfee c) by nia.
  pose proof Hp as (_ & _ & Hmg & _).
  assert (HX : 0 <= X) by (subst X; lia).
  assert (Wo : wf (spos o)) by (unfold wf; cbn [sval spos]; lia).
  assert (Wn : wf (spos (ts_open_notional swap))) by (unfold wf; cbn [sval spos]; lia).
  assert (Hmd : exists md, (match p_dir p with
                     | RemoveFromAmm => ssub (spos (ts_open_notional swap)) (spos o)
                     | AddToAmm => ssub (spos o) (spos (ts_open_notional swap))
                     end) = Ok md /\ wf md /\
                     toZ md = match p_dir p with AddToAmm => o - ts_open_notional swap | RemoveFromAmm => ts_open_notional swap - o end).
  { destruct (p_dir p).
    - destruct (ssub_ok (spos o) (spos (ts_open_notional swap)) Wo Wn) as [md E]; [rewrite !toZ_spos; lia|].
      exists md. split; [exact E|]. destruct (ssub_toZ _ _ _ Wo Wn E) as (Z1 & W1 & _). rewrite !toZ_spos in Z1. split; [exact W1|lia].
    - destruct (ssub_ok (spos (ts_open_notional swap)) (spos o) Wn Wo) as [md E]; [rewrite !toZ_spos; lia|].
      exists md. split; [exact E|]. destruct (ssub_toZ _ _ _ Wn Wo E) as (Z1 & W1 & _). rewrite !toZ_spos in Z1. split; [exact W1|lia]. }
  destruct Hmd as (md & Emd & Wmd & Zmd). rewrite Emd. cbn [bind].
  assert (Bmd : Z.abs (toZ md) <= ts_open_notional swap + o) by (rewrite Zmd; destruct (p_dir p); lia).
  destruct (calc_remain_margin_ok w v p md Hp Hc Wmd HD B1 B2 B3 B4 R1) as [[[[fp m0] bd0] lt] Ecr]; [fold lat; fold X; lia|].
  rewrite Ecr. cbn [bind]. cbv beta iota zeta.
  pose proof (calc_remain_margin_spec _ _ _ _ _ _ _ _ Hp Hc (wf_wf0 _ Wmd) HD Ecr) as (_ & Hfp & Hr).
  cbv zeta in Hr. destruct Hr as (Hneg & Hpos & Hm0 & Hbd0).
  assert (Hfo : Z.abs (funding_owed w v p) <= X).
  { unfold funding_owed. fold lat. apply quot_abs_le. exact HD. }
  set (r := toZ md - funding_owed w v p + p_margin p) in *.
  assert (Hreq : r = liq_equity w v p (ts_open_notional swap) o) by (unfold r, liq_equity; rewrite Zmd; reflexivity).
  rewrite <- Hreq in Hvault.
  assert (Hcase : (r < 0 /\ m0 = 0 /\ bd0 = - r) \/ (0 <= r /\ m0 = r /\ bd0 = 0)).
  { destruct (Z_lt_le_dec r 0) as [L|L]; [left; destruct (Hneg L)|right; destruct (Hpos L)]; auto. }
  assert (Br : Z.abs r <= ts_open_notional swap + o + X + p_margin p) by (unfold r; lia).
  rewrite (cmul_live o (e_liqfee c)) by lia. cbn [bind].
  rewrite (cdiv_live (o * e_liqfee c) (e_dec c)) by lia. cbn [bind].
  rewrite (cdiv_live (o * e_liqfee c / e_dec c) 2) by lia. cbn [bind].
  remember (o * e_liqfee c / e_dec c) as pen eqn:Hpen.
  assert (Bpen : 0 <= pen <= o * e_liqfee c).
  { subst pen. split; [apply Z.div_pos; lia|]. apply Z.div_le_upper_bound; [lia|]. nia. }
  remember (pen / 2) as fee eqn:Hfee.
  assert (Bfee : 0 <= fee <= pen).
  { subst fee. split; [apply Z.div_pos; lia|]. apply Z.div_le_upper_bound; lia. }
  clear Hpen Hfee Hneg Hpos Hfp Ecr Emd Zmd Hreq.
  unfold realize_bad_debt, withdraw, engine_balance. subst tb fund.
  set (ebd := e_bad_debt st) in *.
  clearbody r.
  assert (NE : A_IFUND <> A_ENGINE) by (cbv; discriminate).
  assert (NE2 : A_ENGINE <> A_IFUND) by (cbv; discriminate).
  assert (NE3 : A_ENGINE <> liq) by congruence.
  repeat live_step.
  all: do 3 eexists; (split; [reflexivity|]).
  all: (split; [|split; [eexists; reflexivity|cbn [length app]; lia]]).
  all: unfold execute_insurance_fund_withdrawal, execute_transfer; fold c; rewrite ?Hif.
  all: cbn [lrun app sm_msg sm_reply bind]; rewrite ?Z.eqb_refl; cbn [bind].
  all: repeat tok_step; try reflexivity.
Qed.

(* ---------- END TO END: a full liquidation transaction succeeds ---------- *)
Lemma dispatch_nil k f w n s : dispatch (S k) f w n s [] = Ok (w, n).
Proof. reflexivity. Qed.

(* the transaction is the execute arm followed by the dispatch of what it returns *)
Lemma exec_liquidate_unfold f w s v t lim w1 subs :
  e_liquidate w s v t lim = Ok (w1, subs) ->
  exec_op f w (OEngine s (ELiquidate v t lim) 0) = do y <- dispatch FUEL f w1 0 A_ENGINE subs; Ok (fst y).
Proof. intros H. cbn [exec_op]. unfold attach_funds. cbn [Z.eqb bind engine_execute]. rewrite H. reflexivity. Qed.

(* the replying swap of a liquidation, its reply, the reply's messages *)
Lemma dispatch_liquidation_swap k f w1 v d size lim vm vm' q b w3 msgs w4 n' :
  f < 0 -> get_vamm w1 v = Ok vm ->
  swap_output vm (w_env w1) A_ENGINE d size lim = Ok (vm', (q, b)) ->
  liquidate_reply (set_vamm w1 v vm') b q = Ok (w3, msgs) ->
  dispatch k f w3 (0 + 1) A_ENGINE msgs = Ok (w4, n') ->
  dispatch k f w4 n' A_ENGINE [] = Ok (w4, n') ->
  dispatch (S k) f w1 0 A_ENGINE [mkSub (MSwapOutput v d size lim) LIQUIDATION_ID RAlways] = Ok (w4, n').
Proof.
  intros Hf Hv Hs Hr Hd Hn. cbn [dispatch]. destruct (Z.eqb_spec 0 f) as [E|_]; [lia|].
  cbn [sm_msg sm_reply sm_id exec_simple]. rewrite Hv. cbn [bind]. rewrite Hs. cbn [bind fst snd wants_ok].
  assert (Hcr : contract_reply (set_vamm w1 v vm') A_ENGINE LIQUIDATION_ID (Ok (EvSwap b q)) = liquidate_reply (set_vamm w1 v vm') b q) by reflexivity.
  rewrite Hcr, Hr. cbn [bind fst snd]. rewrite Hd. cbn [bind fst snd]. exact Hn.
Qed.

Theorem liquidate_full_tx_live f w s v t lim mr p vm vm' q b :
  f < 0 ->
  let wl := with_liquidator w s in
  let c := ec (w_eng w) in let st := es (w_eng w) in
  (* the position exists and its liquidation ratio is at or below maintenance; the vAMM is open and registered *)
  find_position (w_eng w) v t = Some p -> sval (p_size p) <> 0 ->
  liq_ratio wl v t = Ok mr -> sgtb mr (spos (e_maint c)) = false ->
  require_vamm wl v = Ok tt ->
  (* the full-liquidation branch *)
  (e_liqfee c <? sval mr) && negb (e_plr c =? 0) = false ->
  (* the vAMM fills the closing trade (and is inside its band) *)
  get_vamm w v = Ok vm ->
  swap_output vm (w_env w) A_ENGINE (side_to_direction (direction_to_side (p_dir p))) (sval (p_size p)) lim = Ok (vm', (q, b)) ->
  (* ranges *)
  let lat := cumulative_premium_fraction (w_eng w) v in
  let X := Z.abs ((toZ lat - toZ (p_lupf p)) * toZ (p_size p)) in
  let tb := bal (w_tok w) A_ENGINE in let fund := bal (w_tok w) A_IFUND in
  pos_wf p -> cpf_wf (w_eng w) v -> 0 < e_dec c -> 0 <= q -> 0 <= e_liqfee c ->
  0 <= e_bad_debt st -> 0 <= tb -> 0 <= bal (w_tok w) s ->
  sval lat < MAXU -> sval (p_lupf p) < MAXU -> sval (p_size p) < MAXU -> e_dec c < MAXU ->
  Z.abs (toZ lat - toZ (p_lupf p)) < MAXU ->
  X + p_notional p + q + p_margin p + q * e_liqfee c + e_bad_debt st + tb + fund + bal (w_tok w) s < MAXU ->
  (* the registered insurance fund pays the engine; the liquidator is neither the vault nor the fund *)
  e_ifund c = A_IFUND -> if_engine (w_if w) = A_ENGINE -> s <> A_ENGINE -> s <> A_IFUND ->
  (* the fund covers any shortfall; the vault holds the position's remaining equity *)
  X + p_notional p + q + p_margin p + q * e_liqfee c <= fund ->
  liq_equity w v p (p_notional p) q <= tb ->
  exists w', exec_op f w (OEngine s (ELiquidate v t lim) 0) = Ok w'.
Proof.
  intros Hf wl c st Hfind Hsz Hr Hm Hv Hfull Hvm Hswap lat X tb fund Hp Hc HD Hq Hlf Hbd Htb Hlb B1 B2 B3 B4 R1 R2 Hif Hie Hs1 Hs2 Hfund Hvault.
  assert (Hrp : read_position (w_eng w) v t = p) by (unfold read_position; rewrite Hfind; reflexivity).
  pose proof (liquidate_execute_live w s v t lim mr Hr Hv Hm ltac:(rewrite Hrp; exact Hsz) Hfull) as Hex.
  rewrite Hrp in Hex. unfold internal_close_position in Hex. cbn [fst snd] in Hex. unfold swap_output_msg in Hex.
  remember (mkTmp v t (direction_to_side (p_dir p)) (sval (p_size p)) 0 (p_notional p) 0 szero szero false) as tm eqn:Htm.
  remember (set_eng (with_liquidator w s) (eng_set_tmp (w_eng (with_liquidator w s)) (Some tm))) as w1 eqn:Hw1.
  rewrite (exec_liquidate_unfold f w s v t lim _ _ Hex).
  assert (E1 : get_vamm w1 v = Ok vm) by (subst w1; exact Hvm).
  assert (E2 : w_env w1 = w_env w) by (subst w1; reflexivity).
  assert (E3 : e_tmp (w_eng (set_vamm w1 v vm')) = Some tm) by (subst w1; reflexivity).
  assert (E4 : e_liq (w_eng (set_vamm w1 v vm')) = Some s) by (subst w1; reflexivity).
  assert (E5 : find_position (w_eng (set_vamm w1 v vm')) v t = Some p) by (subst w1; exact Hfind).
  assert (E6 : ec (w_eng (set_vamm w1 v vm')) = ec (w_eng w)) by (subst w1; reflexivity).
  assert (E7 : es (w_eng (set_vamm w1 v vm')) = es (w_eng w)) by (subst w1; reflexivity).
  assert (E8 : w_tok (set_vamm w1 v vm') = w_tok w) by (subst w1; reflexivity).
  assert (E9 : e_vmap (w_eng (set_vamm w1 v vm')) = e_vmap (w_eng w)) by (subst w1; reflexivity).
  assert (E10 : w_if (set_vamm w1 v vm') = w_if w) by (subst w1; reflexivity).
  assert (T1 : ts_vamm tm = v) by (subst tm; reflexivity).
  assert (T2 : ts_trader tm = t) by (subst tm; reflexivity).
  assert (T3 : ts_open_notional tm = p_notional p) by (subst tm; reflexivity).
  clear Hw1 Hex.
  remember (set_vamm w1 v vm') as w2 eqn:Hw2.
  assert (Hgp : get_position (w_eng w2) (w_env w2) (ts_vamm tm) (ts_trader tm) (ts_side tm) = p).
  { unfold get_position. rewrite T1, T2, E5. reflexivity. }
  assert (Hlat : cumulative_premium_fraction (w_eng w2) v = cumulative_premium_fraction (w_eng w) v).
  { unfold cumulative_premium_fraction, read_vmap. rewrite E9. reflexivity. }
  assert (Hfo : funding_owed w2 v p = funding_owed w v p) by (unfold funding_owed; rewrite Hlat, E6; reflexivity).
  assert (Heq : liq_equity w2 v p (p_notional p) q = liq_equity w v p (p_notional p) q) by (unfold liq_equity; rewrite Hfo; reflexivity).
  destruct Hp as (Hp1 & Hp2 & Hp3 & Hp4).
  destruct (liquidate_reply_ledger_live w2 b q tm s E3 E4) as (w3 & msgs & t' & Hlr & Hrun & (e' & ->) & Hlen);
    rewrite ?Hgp, ?T1, ?T3, ?Hlat, ?E6, ?E7, ?E8, ?Heq; try assumption; try (repeat split; assumption);
    try (unfold cpf_wf; rewrite Hlat; exact Hc).
  rewrite E8 in Hrun.
  assert (Hie2 : if_engine (w_if (set_eng w2 e')) = A_ENGINE) by (cbn [w_if set_eng]; rewrite E10; exact Hie).
  assert (Hrun2 : lrun (w_tok (set_eng w2 e')) msgs = Ok t') by (cbn [w_tok set_eng]; rewrite E8; exact Hrun).
  destruct (dispatch_lrun msgs 63%nat f (set_eng w2 e') (0 + 1) t' Hf ltac:(lia) Hie2 Hrun2 ltac:(lia)) as (n' & Hd & _).
  rewrite <- E2 in Hswap.
  assert (Hfu : FUEL = S 63) by reflexivity. rewrite Hfu. subst w2.
  rewrite (dispatch_liquidation_swap 63 f w1 v _ _ lim vm vm' q b _ msgs _ n' Hf E1 Hswap Hlr Hd (dispatch_nil 62 f _ n' A_ENGINE)).
  cbn [bind fst]. eexists. reflexivity.
Qed.
