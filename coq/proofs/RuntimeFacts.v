(* Facts about the sub-message runtime: invariants lift through dispatch (by induction on fuel),
   errors are never swallowed (C08). *)
From MP.Model Require Import Prelude U128 SInt Feed Vamm VammOps Token World Engine Runtime.
From MP.Proofs Require Import Tactics.

(* an invariant kept by every leaf execution, by the insurance fund's withdraw handler and by
   every reply handler is kept by dispatch *)
Lemma dispatch_inv (P : world -> Prop) :
  (forall w sender m w' ev, exec_simple w sender m = Ok (w', ev) -> P w -> P w') ->
  (forall w sender amt w' subs, if_withdraw w sender amt = Ok (w', subs) -> P w -> P w') ->
  (forall w sender id r w' subs, contract_reply w sender id r = Ok (w', subs) -> P w -> P w') ->
  forall fuel f w n sender subs w' n',
    dispatch fuel f w n sender subs = Ok (w', n') -> P w -> P w'.
Proof.
  intros Hs Hi Hr. induction fuel as [|k IH]; intros f w n sender subs w' n' H Pw; [discriminate|].
  cbn [dispatch] in H. destruct subs as [|s rest]; [inv_ok; exact Pw|].
  destruct (n =? f).
  - (* injected fault *)
    destruct (wants_err (sm_reply s)); [|discriminate].
    minv H. destruct x as [w1 s1], x0 as [w2 n2]. cbn [fst snd] in *.
    eapply IH; [exact H|]. eapply IH; [exact Hx0|]. eapply Hr; eauto.
  - destruct (sm_msg s) eqn:Em;
    try (destruct (exec_simple w sender _) as [[w1 ev]|e] eqn:Ex; cbn [bind fst snd] in H;
         [ destruct (wants_ok (sm_reply s));
           [ minv H; destruct x as [w2 s2], x0 as [w3 n3]; cbn [fst snd] in *;
             eapply IH; [exact H|]; eapply IH; [exact Hx0|]; eapply Hr; [exact Hx|]; eapply Hs; eauto
           | eapply IH; [exact H|]; eapply Hs; eauto ]
         | destruct (wants_err (sm_reply s)); [|discriminate];
           minv H; destruct x as [w2 s2], x0 as [w3 n3]; cbn [fst snd] in *;
           eapply IH; [exact H|]; eapply IH; [exact Hx0|]; eapply Hr; eauto ]).
    (* MIfWithdraw *)
    destruct (target =? A_IFUND); cbn [bind] in H.
    + destruct (if_withdraw w sender amt) as [[w1 s1]|e] eqn:Ew; cbn [bind fst snd] in H.
      * destruct (dispatch k f w1 (n + 1) A_IFUND s1) as [[w2 n2]|e] eqn:Ed; cbn [bind fst snd] in H.
        -- assert (P2 : P w2) by (eapply IH; [exact Ed|]; eapply Hi; eauto).
           destruct (wants_ok (sm_reply s)).
           ++ minv H. destruct x as [w3 s3], x0 as [w4 n4]. cbn [fst snd] in *.
              eapply IH; [exact H|]. eapply IH; [exact Hx0|]. eapply Hr; eauto.
           ++ eapply IH; eauto.
        -- destruct (wants_err (sm_reply s)); [|discriminate].
           minv H. destruct x as [w3 s3], x0 as [w4 n4]. cbn [fst snd] in *.
           eapply IH; [exact H|]. eapply IH; [exact Hx0|]. eapply Hr; eauto.
      * destruct (wants_err (sm_reply s)); [|discriminate].
        minv H. destruct x as [w3 s3], x0 as [w4 n4]. cbn [fst snd] in *.
        eapply IH; [exact H|]. eapply IH; [exact Hx0|]. eapply Hr; eauto.
    + destruct (wants_err (sm_reply s)); [|discriminate].
      minv H. destruct x as [w3 s3], x0 as [w4 n4]. cbn [fst snd] in *.
      eapply IH; [exact H|]. eapply IH; [exact Hx0|]. eapply Hr; eauto.
Qed.

(* ---------- errors are never swallowed (C08) ---------- *)
Lemma contract_reply_err w c id e : exists e', contract_reply w c id (Err e) = Err e'.
Proof. unfold contract_reply, engine_reply. destruct (c =? A_ENGINE); eauto. Qed.

(* the dispatch counter only grows *)
Lemma dispatch_counter fuel : forall f w n sender subs w' n',
  dispatch fuel f w n sender subs = Ok (w', n') -> n <= n'.
Proof.
  induction fuel as [|k IH]; intros f w n sender subs w' n' H; [discriminate|].
  cbn [dispatch] in H. destruct subs as [|s rest]; [inv_ok; lia|].
  destruct (n =? f).
  - destruct (wants_err (sm_reply s)); [|discriminate].
    destruct (contract_reply_err w sender (sm_id s) ESub) as [e' He]. rewrite He in H. discriminate.
  - destruct (sm_msg s) eqn:Em;
    try (destruct (exec_simple w sender _) as [[w1 ev]|e] eqn:Ex; cbn [bind fst snd] in H;
         [ destruct (wants_ok (sm_reply s));
           [ minv H; destruct x as [w2 s2], x0 as [w3 n3]; cbn [fst snd] in *;
             apply IH in H; apply IH in Hx0; lia
           | apply IH in H; lia ]
         | destruct (wants_err (sm_reply s)); [|discriminate];
           destruct (contract_reply_err w sender (sm_id s) e) as [e' He]; rewrite He in H; discriminate ]).
    destruct (target =? A_IFUND); cbn [bind] in H.
    + destruct (if_withdraw w sender amt) as [[w1 s1]|e] eqn:Ew; cbn [bind fst snd] in H.
      * destruct (dispatch k f w1 (n + 1) A_IFUND s1) as [[w2 n2]|e] eqn:Ed; cbn [bind fst snd] in H.
        -- apply IH in Ed. destruct (wants_ok (sm_reply s)).
           ++ minv H. destruct x as [w3 s3], x0 as [w4 n4]. cbn [fst snd] in *.
              apply IH in H. apply IH in Hx0. lia.
           ++ apply IH in H. lia.
        -- destruct (wants_err (sm_reply s)); [|discriminate].
           destruct (contract_reply_err w sender (sm_id s) e) as [e' He]; rewrite He in H; discriminate.
      * destruct (wants_err (sm_reply s)); [|discriminate].
        destruct (contract_reply_err w sender (sm_id s) e) as [e' He]; rewrite He in H; discriminate.
    + destruct (wants_err (sm_reply s)); [|discriminate].
      destruct (contract_reply_err w sender (sm_id s) EDecode) as [e' He]; rewrite He in H; discriminate.
Qed.

(* if dispatch succeeds, the fault index was not among the sub-messages it dispatched:
   a fault at any dispatched sub-message makes the whole dispatch fail *)
Lemma dispatch_fault_propagates fuel : forall f w n sender subs w' n',
  dispatch fuel f w n sender subs = Ok (w', n') -> f < n \/ n' <= f.
Proof.
  induction fuel as [|k IH]; intros f w n sender subs w' n' H; [discriminate|].
  cbn [dispatch] in H. destruct subs as [|s rest]; [inv_ok; lia|].
  destruct (Z.eqb_spec n f) as [E|E].
  - destruct (wants_err (sm_reply s)); [|discriminate].
    destruct (contract_reply_err w sender (sm_id s) ESub) as [e' He]. rewrite He in H. discriminate.
  - destruct (sm_msg s) eqn:Em;
    try (destruct (exec_simple w sender _) as [[w1 ev]|e] eqn:Ex; cbn [bind fst snd] in H;
         [ destruct (wants_ok (sm_reply s));
           [ minv H; destruct x as [w2 s2], x0 as [w3 n3]; cbn [fst snd] in *;
             pose proof (dispatch_counter _ _ _ _ _ _ _ _ Hx0); pose proof (dispatch_counter _ _ _ _ _ _ _ _ H);
             apply IH in H; apply IH in Hx0; lia
           | pose proof (dispatch_counter _ _ _ _ _ _ _ _ H); apply IH in H; lia ]
         | destruct (wants_err (sm_reply s)); [|discriminate];
           destruct (contract_reply_err w sender (sm_id s) e) as [e' He]; rewrite He in H; discriminate ]).
    destruct (target =? A_IFUND); cbn [bind] in H.
    + destruct (if_withdraw w sender amt) as [[w1 s1]|e] eqn:Ew; cbn [bind fst snd] in H.
      * destruct (dispatch k f w1 (n + 1) A_IFUND s1) as [[w2 n2]|e] eqn:Ed; cbn [bind fst snd] in H.
        -- pose proof (dispatch_counter _ _ _ _ _ _ _ _ Ed). apply IH in Ed. destruct (wants_ok (sm_reply s)).
           ++ minv H. destruct x as [w3 s3], x0 as [w4 n4]. cbn [fst snd] in *.
              pose proof (dispatch_counter _ _ _ _ _ _ _ _ Hx0). pose proof (dispatch_counter _ _ _ _ _ _ _ _ H).
              apply IH in H. apply IH in Hx0. lia.
           ++ pose proof (dispatch_counter _ _ _ _ _ _ _ _ H). apply IH in H. lia.
        -- destruct (wants_err (sm_reply s)); [|discriminate].
           destruct (contract_reply_err w sender (sm_id s) e) as [e' He]; rewrite He in H; discriminate.
      * destruct (wants_err (sm_reply s)); [|discriminate].
        destruct (contract_reply_err w sender (sm_id s) e) as [e' He]; rewrite He in H; discriminate.
    + destruct (wants_err (sm_reply s)); [|discriminate].
      destruct (contract_reply_err w sender (sm_id s) EDecode) as [e' He]; rewrite He in H; discriminate.
Qed.

(* a failed transaction returns the very same world *)
Lemma step_f_atomic f w o : snd (step_f f w o) = false -> fst (step_f f w o) = w.
Proof. unfold step_f. destruct (exec_op f w o); cbn; [discriminate|reflexivity]. Qed.

Lemma step_f_fail_iff f w o : snd (step_f f w o) = false <-> exists e, exec_op f w o = Err e.
Proof.
  unfold step_f. destruct (exec_op f w o); cbn; split; try discriminate; eauto.
  intros [e H]; discriminate.
Qed.
