(* Time-weighted prices stay within the prices observed in the window (C18). *)
From Coq Require Import Sorted.
From MP.Model Require Import Prelude U128 SInt Feed Vamm.
From MP.Proofs Require Import Tactics.

Lemma div_between lo hi W T : 0 < T -> lo * T <= W <= hi * T -> lo <= W / T <= hi.
Proof.
  intros HT [H1 H2]. split.
  - apply Z.div_le_lower_bound; lia.
  - apply Z.div_le_upper_bound; lia.
Qed.

Lemma sub64_ok a b r : sub64 a b = Ok r -> r = a - b /\ b <= a.
Proof. unfold sub64. intros H. destr_if_in H; [|discriminate]. inv_ok. zb. auto. Qed.

(* ---------- vAMM ---------- *)
(* the snapshots the TWAP walk looks at: up to and including the first one at or before `base` *)
Fixpoint window (base : Z) (l : list snapshot) : list snapshot :=
  match l with
  | [] => []
  | s :: rest => if s_time s <=? base then [s] else s :: window base rest
  end.

Definition prices_within (dec : Z) (o : twap_opt) (lo hi : Z) (l : list snapshot) : Prop :=
  forall s p, In s l -> snapshot_price dec o s = Ok p -> lo <= p <= hi.

Lemma twap_loop_bounds dec o lo hi : forall rest base prev period weighted interval nowt r,
  twap_loop dec o rest base prev period weighted interval = Ok r ->
  prices_within dec o lo hi (window base rest) ->
  period = nowt - prev -> interval = nowt - base -> base <= prev -> 0 < interval ->
  lo * period <= weighted <= hi * period -> 0 <= period ->
  lo <= r <= hi.
Proof.
  induction rest as [|s rest IH]; intros base prev period weighted interval nowt r H Hp Ep Ei Hb Hi Hw Hp0;
    cbn [twap_loop] in H.
  - apply cdiv_ok in H. destruct H as [-> Hne]. apply div_between; lia.
  - inv_bind H. cbn [window] in Hp.
    assert (Hx' : lo <= x <= hi).
    { apply (Hp s x); [|exact Hx]. destruct (s_time s <=? base); left; reflexivity. }
    destruct (Z.leb_spec (s_time s) base) as [Hle|Hgt].
    + inv_bind H. inv_bind H. inv_bind H. apply sub64_ok in Hx0. destruct Hx0 as [-> _]. arith_ok. subst.
      apply div_between; [lia|]. nia.
    + inv_bind H. inv_bind H. inv_bind H. inv_bind H. apply sub64_ok in Hx0. destruct Hx0 as [-> Hle]. arith_ok. subst.
      eapply (IH base (s_time s) _ _ _ nowt); try exact H; try reflexivity; try lia.
      * intros s' p' Hin Hs'. apply (Hp s' p'); [right; exact Hin|exact Hs'].
      * nia.
Qed.

(* the TWAP over `interval` lies between the lowest and highest price in effect during the window
   (or during the whole history if shorter) *)
Lemma calc_twap_bounds v e o interval lo hi r :
  calc_twap v e o interval = Ok r ->
  0 <= interval ->
  (forall s, In s (snaps v) -> s_time s <= now e) ->
  prices_within (v_dec (vc v)) o lo hi (window (now e - interval) (snaps v)) ->
  lo <= r <= hi.
Proof.
  unfold calc_twap. intros H Hi Ht Hp. destruct (snaps v) as [|cur rest] eqn:Es; [discriminate|].
  inv_bind H. cbn [window] in Hp.
  assert (Hx' : lo <= x <= hi).
  { apply (Hp cur x); [|exact Hx]. destruct (s_time cur <=? now e - interval); left; reflexivity. }
  destruct (Z.eqb_spec interval 0); [inv_ok; exact Hx'|].
  inv_bind H. apply sub64_ok in Hx0. destruct Hx0 as [-> Hle].
  destruct (Z.leb_spec (s_time cur) (now e - interval)) as [Hc|Hc].
  - rewrite orb_true_r in H. inv_ok. exact Hx'.
  - destruct (Z.of_nat (length (cur :: rest)) =? 1); cbn [orb] in H; [inv_ok; exact Hx'|].
    inv_bind H. inv_bind H. apply sub64_ok in Hx0. destruct Hx0 as [-> Hle2]. arith_ok. subst.
    eapply (twap_loop_bounds _ _ lo hi rest (now e - interval) (s_time cur) _ _ _ (now e)); try exact H; try reflexivity; try lia.
    + intros s' p' Hin Hs'. apply (Hp s' p'); [right; exact Hin|exact Hs'].
    + nia.
Qed.

(* unchanged price: the TWAP equals it *)
Lemma calc_twap_const v e o interval p r :
  calc_twap v e o interval = Ok r -> 0 <= interval ->
  (forall s, In s (snaps v) -> s_time s <= now e) ->
  prices_within (v_dec (vc v)) o p p (window (now e - interval) (snaps v)) -> r = p.
Proof. intros H Hi Ht Hp. pose proof (calc_twap_bounds v e o interval p p r H Hi Ht Hp). lia. Qed.

(* one snapshot per block, carrying the block's final reserves *)
Definition snaps_ok (l : list snapshot) : Prop :=
  StronglySorted (fun a b => s_height b < s_height a) l.

Lemma add_reserve_snapshot_sorted sn e q b sn' :
  add_reserve_snapshot sn e q b = Ok sn' -> snaps_ok sn ->
  (forall s, In s sn -> s_height s <= height e) ->
  snaps_ok sn' /\ (exists s, hd_error sn' = Some s /\ s_q s = q /\ s_b s = b /\ s_height s = height e) /\
  (forall s, In s sn' -> s_height s <= height e) /\
  (length sn' = length sn \/ length sn' = S (length sn)).
Proof.
  unfold add_reserve_snapshot. intros H Hs Hh. destruct sn as [|latest older]; [discriminate|].
  destruct (Z.eqb_spec (s_height latest) (height e)) as [E|E]; inv_ok.
  - split; [|split; [|split]].
    + inversion Hs as [|? ? Hs' Hf]; subst. constructor; [exact Hs'|]. cbn. exact Hf.
    + eexists; split; [reflexivity|]. cbn. auto.
    + intros s [<-|Hin]; cbn; [lia|]. apply Hh. right. exact Hin.
    + left. reflexivity.
  - split; [|split; [|split]].
    + constructor; [exact Hs|]. apply Forall_forall. intros s Hin. cbn.
      assert (Hl : s_height latest <= height e) by (apply Hh; left; reflexivity).
      destruct Hin as [<-|Hin]; [lia|].
      inversion Hs as [|? ? Hs' Hf]; subst. rewrite Forall_forall in Hf. specialize (Hf s Hin). cbn in Hf. lia.
    + eexists; split; [reflexivity|]. cbn. auto.
    + intros s [<-|Hin]; cbn; [lia|]. apply Hh. exact Hin.
    + right. reflexivity.
Qed.

(* ---------- price feed ---------- *)
Fixpoint rwindow (base : Z) (l : list round) : list round :=
  match l with
  | [] => []
  | r :: rest => if r_time r <=? base then [r] else r :: rwindow base rest
  end.

Lemma rf_twap_loop_bounds lo hi : forall rest base ts cumulative weighted interval nowt r,
  rf_twap_loop rest base ts cumulative weighted interval = Ok r ->
  (forall x, In x (rwindow base rest) -> lo <= r_price x <= hi) ->
  cumulative = nowt - ts -> interval = nowt - base -> base <= ts -> 0 < interval ->
  lo * cumulative <= weighted <= hi * cumulative -> 0 <= cumulative ->
  lo <= r <= hi.
Proof.
  induction rest as [|x rest IH]; intros base ts cumulative weighted interval nowt r H Hp Ec Ei Hb Hi Hw Hc0;
    cbn [rf_twap_loop] in H.
  - apply cdiv_ok in H. destruct H as [-> Hne]. apply div_between; lia.
  - cbn [rwindow] in Hp.
    assert (Hx' : lo <= r_price x <= hi).
    { apply Hp. destruct (r_time x <=? base); left; reflexivity. }
    destruct (Z.leb_spec (r_time x) base) as [Hle|Hgt].
    + inv_bind H. inv_bind H. inv_bind H. apply sub64_ok in Hx. destruct Hx as [-> _]. arith_ok. subst.
      apply div_between; [lia|]. nia.
    + inv_bind H. inv_bind H. inv_bind H. inv_bind H. apply sub64_ok in Hx. destruct Hx as [-> Hle]. arith_ok. subst.
      eapply (IH base (r_time x) _ _ _ nowt); try exact H; try reflexivity; try lia.
      * intros y Hin. apply Hp. right. exact Hin.
      * nia.
Qed.

(* the feed TWAP lies between the lowest and highest submitted price overlapping the window;
   timestamps are assumed non-decreasing and not in the future (as the property states) *)
Lemma rf_twap_bounds f nowt interval lo hi r :
  rf_twap f nowt interval = Ok r -> 0 <= interval ->
  (forall x, In x (rf_rounds f) -> r_time x <= nowt) ->
  (forall x, In x (match rf_rounds f with
                   | latest :: rest => if r_time latest <? nowt - interval then [latest] else latest :: rwindow (nowt - interval) rest
                   | [] => [] end) -> lo <= r_price x <= hi) ->
  lo <= r <= hi.
Proof.
  unfold rf_twap. intros H Hi0 Ht Hp. destruct (Z.eqb_spec interval 0); [discriminate|]. cbn [negb] in H.
  inv_bind H. apply sub64_ok in Hx. destruct Hx as [-> Hle].
  destruct (rf_rounds f) as [|latest rest] eqn:Er; [discriminate|].
  destruct (Z.ltb_spec (r_time latest) (nowt - interval)) as [Hl|Hl]; cbn [orb] in H.
  - inv_ok. apply Hp. left. reflexivity.
  - destruct (Z.of_nat (length (latest :: rest)) =? 1).
    + inv_ok. apply Hp. left. reflexivity.
    + inv_bind H. inv_bind H. apply sub64_ok in Hx. destruct Hx as [-> Hle2]. arith_ok. subst.
      assert (Hlat : lo <= r_price latest <= hi) by (apply Hp; left; reflexivity).
      eapply (rf_twap_loop_bounds lo hi rest (nowt - interval) (r_time latest) _ _ _ nowt r H); try reflexivity; try lia.
      * intros y Hin. apply Hp. right. exact Hin.
      * nia.
Qed.
