(* What a list of leaf messages (transfers, pulls from a wallet, insurance-fund draws), executed by the engine,
   does to every account's balance; and the shape of a transaction that is one replying swap. *)
From MP.Model Require Import Prelude U128 SInt Feed Vamm VammOps Token World Engine Runtime.
From MP.Proofs Require Import Tactics MapFacts SIntFacts RuntimeFacts LedgerFacts ResidueFacts MirrorFacts.

Definition ind (c : bool) (x : Z) : Z := if c then x else 0.

Lemma tok_move_bal t from to amt t' a : tok_move t from to amt = Ok t' ->
  bal t' a = bal t a + ind (a =? to) amt - ind (a =? from) amt.
Proof.
  unfold tok_move, ind. intros H. minv H. inv_ok. arith_ok. subst.
  destruct (Z.eqb_spec a to) as [E1|Hto]; destruct (Z.eqb_spec a from) as [E2|Hfr]; subst.
  - rewrite bal_set_same. rewrite bal_set_same. lia.
  - rewrite bal_set_same. rewrite bal_set_other by auto. lia.
  - rewrite bal_set_other by auto. rewrite bal_set_same. lia.
  - rewrite bal_set_other by auto. rewrite bal_set_other by auto. lia.
Qed.

Lemma tok_move_from_bal t sp owner to amt t' a : tok_move_from t sp owner to amt = Ok t' ->
  bal t' a = bal t a + ind (a =? to) amt - ind (a =? owner) amt.
Proof.
  unfold tok_move_from, ind. intros H. minv H. inv_ok. arith_ok. subst.
  match goal with |- context [set_bal (set_bal ?T1 _ _) _ _] => assert (Hbt : forall x, bal T1 x = bal t x) by reflexivity end.
  destruct (Z.eqb_spec a to) as [E1|Hto]; destruct (Z.eqb_spec a owner) as [E2|Hfr]; subst.
  - rewrite bal_set_same. rewrite bal_set_same. rewrite Hbt. lia.
  - rewrite bal_set_same. rewrite bal_set_other by auto. rewrite Hbt. lia.
  - rewrite bal_set_other by auto. rewrite bal_set_same. rewrite Hbt. lia.
  - rewrite bal_set_other by auto. rewrite bal_set_other by auto. rewrite Hbt. lia.
Qed.

(* net flow into account a of a leaf-message list sent by `sdr`; ie = the address the insurance fund pays *)
Fixpoint flow (sdr ie a : addr) (msgs : list submsg) : Z :=
  match msgs with
  | [] => 0
  | s :: rest =>
      (match sm_msg s with
       | MTransfer to amt => ind (a =? to) amt - ind (a =? sdr) amt
       | MTransferFrom owner to amt => ind (a =? to) amt - ind (a =? owner) amt
       | MIfWithdraw _ amt => ind (a =? ie) amt - ind (a =? A_IFUND) amt
       | _ => 0
       end) + flow sdr ie a rest
  end.

Lemma flow_app sdr ie a l1 l2 : flow sdr ie a (l1 ++ l2) = flow sdr ie a l1 + flow sdr ie a l2.
Proof. induction l1 as [|s l IH]; cbn [flow app]; [lia|]. rewrite IH. lia. Qed.

Lemma dispatch_leafy_flow fuel : forall f w n sdr msgs w' n',
  dispatch fuel f w n sdr msgs = Ok (w', n') -> Forall leafy msgs ->
  w_if w' = w_if w /\ forall a, bal (w_tok w') a = bal (w_tok w) a + flow sdr (if_engine (w_if w)) a msgs.
Proof.
  induction fuel as [|k IH]; intros f w n sdr msgs w' n' H Hn; [discriminate|].
  cbn [dispatch] in H. destruct msgs as [|s rest]; [inv_ok; split; [reflexivity|intros a; cbn [flow]; lia]|].
  inversion Hn as [|? ? [Hs1 Hs2] Hrest]; subst. rewrite Hs1 in H.
  destruct (n =? f).
  - destruct (wants_err (sm_reply s)); [|discriminate H].
    match type of H with context [contract_reply ?W ?S ?I (Err ?E)] => destruct (contract_reply_err W S I E) as [e' He]; rewrite He in H; discriminate H end.
  - cbn [flow]. destruct (sm_msg s) eqn:Em; try discriminate Hs2.
    + (* Transfer *)
      destruct (exec_simple w sdr (MTransfer to amt)) as [[w1 ev]|e] eqn:Ex; cbn [bind fst snd] in H.
      * cbn [exec_simple] in Ex. inv_bind Ex. inv_ok.
        pose proof (IH _ _ _ _ _ _ _ H Hrest) as [Hi Hb]. cbn [w_if set_tok w_tok] in *. split; [exact Hi|].
        intros a. rewrite Hb. rewrite (tok_move_bal _ _ _ _ _ a Hx). lia.
      * destruct (wants_err (sm_reply s)); [|discriminate H].
        match type of H with context [contract_reply ?W ?S ?I (Err ?E)] => destruct (contract_reply_err W S I E) as [e' He]; rewrite He in H; discriminate H end.
    + (* TransferFrom *)
      destruct (exec_simple w sdr (MTransferFrom owner to amt)) as [[w1 ev]|e] eqn:Ex; cbn [bind fst snd] in H.
      * cbn [exec_simple] in Ex. inv_bind Ex. inv_ok.
        pose proof (IH _ _ _ _ _ _ _ H Hrest) as [Hi Hb]. cbn [w_if set_tok w_tok] in *. split; [exact Hi|].
        intros a. rewrite Hb. rewrite (tok_move_from_bal _ _ _ _ _ _ a Hx). lia.
      * destruct (wants_err (sm_reply s)); [|discriminate H].
        match type of H with context [contract_reply ?W ?S ?I (Err ?E)] => destruct (contract_reply_err W S I E) as [e' He]; rewrite He in H; discriminate H end.
    + (* insurance-fund draw: the fund sends the amount to its beneficiary *)
      destruct (target =? A_IFUND); cbn [bind] in H.
      * destruct (if_withdraw w sdr amt) as [[w1 s1]|e] eqn:Ew; cbn [bind fst snd] in H.
        -- unfold if_withdraw in Ew. minv Ew. inv_ok.
           match type of H with context [dispatch k f ?W (n + 1) A_IFUND ?L] =>
             destruct (dispatch k f W (n + 1) A_IFUND L) as [[w2 n2]|e] eqn:Ed; cbn [bind fst snd] in H end.
           ++ match type of Ed with dispatch _ _ _ _ _ ?L = _ => assert (Hl1 : Forall leafy L) by (repeat constructor) end.
              pose proof (IH _ _ _ _ _ _ _ Ed Hl1) as [Hi1 Hbal1].
              pose proof (IH _ _ _ _ _ _ _ H Hrest) as [Hi2 Hbal2]. split; [congruence|].
              intros a. rewrite Hbal2, Hbal1, Hi1. cbn [flow sm_msg]. lia.
           ++ destruct (wants_err (sm_reply s)); [|discriminate H].
              match type of H with context [contract_reply ?W ?S ?I (Err ?E)] => destruct (contract_reply_err W S I E) as [e' He]; rewrite He in H; discriminate H end.
        -- destruct (wants_err (sm_reply s)); [|discriminate H].
           match type of H with context [contract_reply ?W ?S ?I (Err ?E)] => destruct (contract_reply_err W S I E) as [e' He]; rewrite He in H; discriminate H end.
      * destruct (wants_err (sm_reply s)); [|discriminate H].
        match type of H with context [contract_reply ?W ?S ?I (Err ?E)] => destruct (contract_reply_err W S I E) as [e' He]; rewrite He in H; discriminate H end.
Qed.

(* a transaction whose message list is one replying swap: the swap runs, the engine's reply runs on the
   result, the reply's messages are dispatched *)
Lemma dispatch_single fuel f w n s w' n' :
  dispatch fuel f w n A_ENGINE [s] = Ok (w', n') -> sm_reply s = RAlways -> is_swap (sm_msg s) = true ->
  exists k w1 ev w2 subs, fuel = S k /\
    exec_simple w A_ENGINE (sm_msg s) = Ok (w1, ev) /\
    contract_reply w1 A_ENGINE (sm_id s) (Ok ev) = Ok (w2, subs) /\
    exists n1, dispatch k f w2 (n + 1) A_ENGINE subs = Ok (w', n1).
Proof.
  intros H Hra Hsw. destruct fuel as [|k]; [discriminate|]. cbn [dispatch] in H. rewrite Hra in H. cbn [wants_ok wants_err] in H.
  destruct (n =? f).
  - destruct (contract_reply_err w A_ENGINE (sm_id s) ESub) as [e' He]. rewrite He in H. discriminate.
  - destruct (sm_msg s) eqn:Em; try discriminate Hsw;
    (destruct (exec_simple w A_ENGINE _) as [[w1 ev]|e] eqn:Ex; cbn [bind fst snd] in H;
     [ destruct (contract_reply w1 A_ENGINE (sm_id s) (Ok ev)) as [[w2 s2]|] eqn:Er; cbn [bind fst snd] in H; [|discriminate];
       destruct (dispatch k f w2 (n + 1) A_ENGINE s2) as [[w3 n3]|] eqn:Ed; cbn [bind fst snd] in H; [|discriminate];
       destruct k as [|k2]; [discriminate|]; cbn [dispatch] in H; inv_ok;
       exists (S k2), w1, ev, w2, s2; split; [reflexivity|split; [reflexivity|split; [exact Er|eexists; exact Ed]]]
     | destruct (contract_reply_err w A_ENGINE (sm_id s) e) as [e' He]; rewrite He in H; discriminate ]).
Qed.
