(* C11: a reversing OpenPosition settles the funding its old position owes.  What the old position releases is its
   margin after the charge, max(0, margin - owed): the charge is capped at the margin there is. *)
From MP.Model Require Import Prelude U128 SInt Feed Vamm VammOps Token World Engine Runtime.
From MP.Proofs Require Import Tactics MapFacts SIntFacts EngineGuards EngineArith ResidueFacts.

Lemma reverse_position_reply_funding w i o w' subs tm :
  reverse_position_reply w i o = Ok (w', subs) -> e_tmp (w_eng w) = Some tm ->
  let v := ts_vamm tm in let t := ts_trader tm in
  let p := get_position (w_eng w) (w_env w) v t (ts_side tm) in
  pos_wf p -> cpf_wf (w_eng w) v -> 0 < e_dec (ec (w_eng w)) ->
  let released := Z.max 0 (p_margin p - funding_owed w v p) in
  exists x, schecked_sub (sneg_ released) (ts_upnl tm) = Ok x /\
    ((exists fees, subs = fees ++ [execute_transfer t (sval x)] /\ e_tmp (w_eng w') = None) \/
     (exists tm', e_tmp (w_eng w') = Some tm' /\ ts_mtv tm' = x /\ ts_fees_paid tm' = true)).
Proof.
  intros H Htmp v t p Hp Hc HD released.
  unfold reverse_position_reply, need_tmp in H. rewrite Htmp in H. cbn [bind] in H.
  fold v t p in H.
  arm H.
  all: assert (W0 : wf0 szero) by (unfold wf0; cbn; lia).
  all: match goal with Hx : calc_remain_margin _ _ _ _ = Ok _ |- _ =>
         pose proof (calc_remain_margin_spec _ _ _ _ _ _ _ _ Hp Hc W0 HD Hx) as (_ & _ & HH); cbv zeta in HH;
         destruct HH as (Hlt & Hge & _) end.
  all: match goal with Hs : schecked_sub (sneg_ ?m) _ = Ok ?x |- _ =>
         assert (Hm : m = released) by (subst released; cbn [toZ szero sval sneg] in Hlt, Hge; lia);
         exists x; rewrite <- Hm; split; [exact Hs|] end.
  all: cbn [w_eng set_eng e_tmp eng_set_state eng_set_sent eng_set_tmp].
  all: first [ left; eexists; split; reflexivity | right; eexists; split; [reflexivity|split; reflexivity] ].
Qed.
