(* Collateral ledger facts: conservation through every primitive, handler and dispatch (C03). *)
From MP.Model Require Import Prelude U128 SInt Feed Vamm VammOps Token World Engine Runtime.
From MP.Proofs Require Import Tactics MapFacts RuntimeFacts.

Definition lookup0 (k : Z) (l : list (Z * Z)) : Z := match zfind k l with Some b => b | None => 0 end.

Lemma sum_bal_zset k v l : sum_bal (zset k v l) = sum_bal l - lookup0 k l + v.
Proof.
  unfold lookup0. induction l as [|[k' b] t IH]; cbn [zset zfind sum_bal].
  - rewrite Z.eqb_refl || idtac. cbn. lia.
  - destruct (k =? k') eqn:E; cbn [sum_bal]; [lia|]. rewrite IH. lia.
Qed.

Lemma bal_set_same t a v : bal (set_bal t a v) a = v.
Proof. unfold bal, set_bal; cbn. rewrite zfind_zset_same. reflexivity. Qed.
Lemma bal_set_other t a b v : b <> a -> bal (set_bal t a v) b = bal t b.
Proof. intros H. unfold bal, set_bal; cbn. rewrite zfind_zset_other by auto. reflexivity. Qed.

Lemma total_set_bal t a v : total_supply (set_bal t a v) = total_supply t - bal t a + v.
Proof. unfold total_supply, set_bal, bal; cbn. apply sum_bal_zset. Qed.

Lemma tok_move_total t from to amt t' : tok_move t from to amt = Ok t' ->
  total_supply t' = total_supply t /\ t_native t' = t_native t.
Proof.
  unfold tok_move. intros H. minv H. inv_ok. arith_ok. subst.
  rewrite !total_set_bal. cbn [t_native set_bal]. split; [|reflexivity].
  lia.
Qed.

Lemma tok_move_from_total t sp owner to amt t' : tok_move_from t sp owner to amt = Ok t' ->
  total_supply t' = total_supply t /\ t_native t' = t_native t.
Proof.
  unfold tok_move_from. intros H. minv H. inv_ok. arith_ok. subst.
  rewrite !total_set_bal. cbn [t_native set_bal]. split; [|reflexivity].
  match goal with |- context [total_supply ?T] => assert (Htot : total_supply T = total_supply t) by reflexivity; rewrite Htot end.
  lia.
Qed.

(* who can be affected by a move *)
Lemma tok_move_frame t from to amt t' a : tok_move t from to amt = Ok t' -> a <> from -> a <> to -> bal t' a = bal t a.
Proof.
  unfold tok_move. intros H Hf Ht. minv H. inv_ok.
  rewrite bal_set_other by auto. rewrite bal_set_other by auto. reflexivity.
Qed.
Lemma tok_move_from_frame t sp owner to amt t' a : tok_move_from t sp owner to amt = Ok t' -> a <> owner -> a <> to -> bal t' a = bal t a.
Proof.
  unfold tok_move_from. intros H Hf Ht. minv H. inv_ok.
  rewrite bal_set_other by auto. rewrite bal_set_other by auto. unfold bal. reflexivity.
Qed.

Definition wtotal (w : world) : Z := total_supply (w_tok w).

Lemma exec_simple_total w sender m w' ev : exec_simple w sender m = Ok (w', ev) -> wtotal w' = wtotal w.
Proof.
  unfold exec_simple, wtotal. intros H. destruct m; minv H; inv_ok; cbn [w_tok set_vamm set_tok]; try reflexivity.
  - apply tok_move_total in Hx. tauto.
  - apply tok_move_from_total in Hx. tauto.
Qed.

Lemma if_withdraw_tok w sender amt w' subs : if_withdraw w sender amt = Ok (w', subs) -> w' = w.
Proof. unfold if_withdraw. intros H. minv H. inv_ok. reflexivity. Qed.

(* no engine reply handler touches the ledger: they only build messages *)
Ltac reply_tok H :=
  minv H; inv_ok; cbn [w_tok set_eng]; try reflexivity.

Lemma update_position_reply_tok w i o id w' subs : update_position_reply w i o id = Ok (w', subs) -> w_tok w' = w_tok w.
Proof. unfold update_position_reply. intros H. reply_tok H. Qed.
Lemma reverse_position_reply_tok w i o w' subs : reverse_position_reply w i o = Ok (w', subs) -> w_tok w' = w_tok w.
Proof. unfold reverse_position_reply. intros H. reply_tok H. Qed.
Lemma close_position_reply_tok w i o w' subs : close_position_reply w i o = Ok (w', subs) -> w_tok w' = w_tok w.
Proof. unfold close_position_reply. intros H. reply_tok H. Qed.
Lemma partial_close_position_reply_tok w i o w' subs : partial_close_position_reply w i o = Ok (w', subs) -> w_tok w' = w_tok w.
Proof. unfold partial_close_position_reply. intros H. reply_tok H. Qed.
Lemma liquidate_reply_tok w i o w' subs : liquidate_reply w i o = Ok (w', subs) -> w_tok w' = w_tok w.
Proof. unfold liquidate_reply. intros H. reply_tok H. Qed.
Lemma partial_liquidation_reply_tok w i o w' subs : partial_liquidation_reply w i o = Ok (w', subs) -> w_tok w' = w_tok w.
Proof. unfold partial_liquidation_reply. intros H. reply_tok H. Qed.
Lemma pay_funding_reply_tok w pf v w' subs : pay_funding_reply w pf v = Ok (w', subs) -> w_tok w' = w_tok w.
Proof. unfold pay_funding_reply. intros H. reply_tok H. Qed.

Lemma contract_reply_tok w c id r w' subs : contract_reply w c id r = Ok (w', subs) -> w_tok w' = w_tok w.
Proof.
  unfold contract_reply, engine_reply. intros H.
  destruct (c =? A_ENGINE); [|discriminate].
  destruct r as [ev|]; [|discriminate]. destruct ev; try discriminate.
  - repeat (destr_if_in H; [eauto using update_position_reply_tok, reverse_position_reply_tok, close_position_reply_tok,
      partial_close_position_reply_tok, liquidate_reply_tok, partial_liquidation_reply_tok|]). discriminate.
  - destr_if_in H; [|discriminate]. eauto using pay_funding_reply_tok.
Qed.

Lemma dispatch_total fuel f w n sender subs w' n' :
  dispatch fuel f w n sender subs = Ok (w', n') -> wtotal w' = wtotal w.
Proof.
  intros H. eapply (dispatch_inv (fun x => wtotal x = wtotal w)); try exact H; try reflexivity.
  - intros w0 s0 m w1 ev Hx Hp. rewrite <- Hp. eapply exec_simple_total; eauto.
  - intros w0 s0 amt w1 sb Hx Hp. apply if_withdraw_tok in Hx. subst. exact Hp.
  - intros w0 s0 id r w1 sb Hx Hp. apply contract_reply_tok in Hx. unfold wtotal in *. rewrite Hx. exact Hp.
Qed.

(* ---------- execute arms do not touch the ledger either ---------- *)
Lemma partial_liquidation_tok w v t l r : partial_liquidation w v t l = Ok r -> w_tok (fst r) = w_tok w.
Proof. unfold partial_liquidation. intros H. minv H. inv_ok. reflexivity. Qed.

Lemma engine_execute_tok w s m f w' subs : engine_execute w s m f = Ok (w', subs) -> w_tok w' = w_tok w.
Proof.
  unfold engine_execute. intros H. destruct m.
  - unfold e_update_config in H. reply_tok H.
  - unfold e_update_pauser in H. reply_tok H.
  - unfold e_add_whitelist in H. reply_tok H.
  - unfold e_remove_whitelist in H. reply_tok H.
  - unfold e_open_position in H. reply_tok H.
  - unfold e_close_position, internal_close_position in H. reply_tok H.
  - unfold e_liquidate, internal_close_position in H. minv H; inv_ok; cbn [w_tok set_eng]; try reflexivity;
    match goal with Hp : partial_liquidation _ _ _ _ = Ok _ |- _ => apply partial_liquidation_tok in Hp; rewrite Hp; reflexivity end.
  - unfold e_pay_funding in H. reply_tok H.
  - unfold e_deposit_margin in H. reply_tok H.
  - unfold e_withdraw_margin in H. reply_tok H.
  - unfold e_set_pause in H. reply_tok H.
Qed.

Lemma attach_funds_total w s c f w' : attach_funds w s c f = Ok w' -> wtotal w' = wtotal w.
Proof.
  unfold attach_funds, wtotal. intros H. minv H; inv_ok; auto.
  cbn [w_tok set_tok]. apply tok_move_total in Hx. tauto.
Qed.

Definition is_mint (o : op) : bool :=
  match o with OToken _ (TMint _ _) => true | _ => false end.

(* C03: every transaction other than the set-up mint leaves the total collateral unchanged *)
Lemma exec_op_total f w o w' : exec_op f w o = Ok w' -> is_mint o = false -> wtotal w' = wtotal w.
Proof.
  intros H Hm. destruct o; cbn [exec_op] in H; revert H; generalize FUEL; intros fuel H.
  - inv_ok. reflexivity.
  - minv H. inv_ok. destruct x0 as [w1 subs], x1 as [w2 n2]. cbn [fst snd] in *.
    apply dispatch_total in Hx1. apply engine_execute_tok in Hx0. apply attach_funds_total in Hx.
    unfold wtotal in *. congruence.
  - minv H; inv_ok; reflexivity.
  - destruct m; minv H; inv_ok; destruct x as [w1 subs], x0 as [w2 n2]; cbn [fst snd] in *;
    apply dispatch_total in Hx0; rewrite Hx0;
    [ unfold if_update_owner in Hx | unfold if_add_vamm in Hx | unfold if_remove_vamm in Hx
    | unfold if_withdraw in Hx | unfold if_shutdown in Hx ]; minv Hx; inv_ok; reflexivity.
  - destruct m; minv H; inv_ok; destruct x as [w1 subs], x0 as [w2 n2]; cbn [fst snd] in *;
    apply dispatch_total in Hx0; rewrite Hx0;
    [ unfold fp_update_owner in Hx | unfold fp_add_token in Hx | unfold fp_remove_token in Hx
    | unfold fp_send_token in Hx ]; minv Hx; inv_ok; reflexivity.
  - destruct m; minv H; inv_ok; reflexivity.
  - destruct m; cbn [is_mint] in Hm; try discriminate; minv H; inv_ok; unfold wtotal; cbn [w_tok set_tok].
    + unfold tok_increase_allowance in Hx. minv Hx. inv_ok. reflexivity.
    + apply tok_move_total in Hx. tauto.
Qed.

Lemma step_total f w o : is_mint o = false -> wtotal (fst (step_f f w o)) = wtotal w.
Proof.
  intros Hm. unfold step_f. destruct (exec_op f w o) eqn:E; cbn [fst]; [|reflexivity].
  eapply exec_op_total; eauto.
Qed.

Lemma run_total ops : forall w, forallb (fun o => negb (is_mint o)) ops = true -> wtotal (run w ops) = wtotal w.
Proof.
  induction ops as [|o ops IH]; intros w H; cbn [run fold_left]; [reflexivity|].
  cbn [forallb] in H. apply andb_true_iff in H. destruct H as [H1 H2].
  fold (run (step w o) ops). rewrite IH by exact H2. unfold step. apply step_total.
  apply negb_true_iff. exact H1.
Qed.
