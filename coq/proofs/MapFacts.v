(* Association-list maps keyed by Z. *)
From MP.Model Require Import Prelude.
From MP.Proofs Require Import Tactics.

Lemma zfind_zset_same {A} k (v : A) l : zfind k (zset k v l) = Some v.
Proof.
  induction l as [|[k' b] t IH]; cbn [zset zfind].
  - rewrite Z.eqb_refl. reflexivity.
  - destruct (k =? k') eqn:E; cbn [zfind]; rewrite ?Z.eqb_refl, ?E; auto.
Qed.

Lemma zfind_zset_other {A} k k2 (v : A) l : k2 <> k -> zfind k2 (zset k v l) = zfind k2 l.
Proof.
  intros Hn. induction l as [|[k' b] t IH]; cbn [zset zfind].
  - destruct (Z.eqb_spec k2 k); [lia|reflexivity].
  - destruct (Z.eqb_spec k k'); cbn [zfind].
    + subst. destruct (Z.eqb_spec k2 k'); [lia|reflexivity].
    + destruct (k2 =? k'); auto.
Qed.


Lemma zfind_zdel_same {A} k (l : list (Z * A)) : zfind k (zdel k l) = None.
Proof.
  induction l as [|[k' b] t IH]; cbn [zdel zfind]; [reflexivity|].
  destruct (k =? k') eqn:E; [exact IH|]. cbn [zfind]. rewrite E. exact IH.
Qed.

Lemma zfind_zdel_other {A} k k2 (l : list (Z * A)) : k2 <> k -> zfind k2 (zdel k l) = zfind k2 l.
Proof.
  intros Hn. induction l as [|[k' b] t IH]; cbn [zdel zfind]; [reflexivity|].
  destruct (Z.eqb_spec k k').
  - subst. destruct (Z.eqb_spec k2 k'); [lia|exact IH].
  - cbn [zfind]. destruct (k2 =? k'); auto.
Qed.
