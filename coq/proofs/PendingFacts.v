(* A generic way to carry a goal through the engine's message tree: while a replying swap is pending the
   predicate P describes the world; once only leaf messages (transfers, insurance-fund draws) remain the goal G
   holds.  Both must be insensitive to what leaf messages change (balances, fund and pool state). *)
From MP.Model Require Import Prelude U128 SInt Feed Vamm VammOps Token World Engine Runtime.
From MP.Proofs Require Import Tactics MapFacts RuntimeFacts ResidueFacts MirrorFacts.

Fixpoint readyg (G : world -> Prop) (P : world -> msg -> Z -> Prop) (w : world) (subs : list submsg) : Prop :=
  match subs with
  | [] => G w
  | s :: rest =>
      if wants_ok (sm_reply s) then rest = [] /\ sm_reply s = RAlways /\ P w (sm_msg s) (sm_id s)
      else is_leaf (sm_msg s) = true /\ readyg G P w rest
  end.

Definition core_closed (G : world -> Prop) : Prop := forall w w1, same_core w w1 -> G w -> G w1.
Definition core_closed_p (P : world -> msg -> Z -> Prop) : Prop := forall w w1 m id, same_core w w1 -> P w m id -> P w1 m id.

Lemma readyg_core G P w w1 subs : core_closed G -> core_closed_p P -> same_core w w1 -> readyg G P w subs -> readyg G P w1 subs.
Proof.
  intros HG HP Hc. induction subs as [|s rest IH]; cbn [readyg]; [apply HG; exact Hc|].
  destruct (wants_ok (sm_reply s)).
  - intros (E & R & Q). split; [exact E|split; [exact R|eapply HP; eauto]].
  - intros (L & R). split; auto.
Qed.

Lemma readyg_leafy_app G P w l1 l2 : Forall leafy l1 -> (readyg G P w (l1 ++ l2) <-> readyg G P w l2).
Proof.
  induction l1 as [|s l IH]; intros H; cbn [app readyg]; [tauto|].
  inversion H as [|? ? [Hs1 Hs2] Hl]; subst. rewrite Hs1. rewrite IH by assumption. tauto.
Qed.
Lemma readyg_leafy G P w l : Forall leafy l -> (readyg G P w l <-> G w).
Proof. intros H. rewrite <- (app_nil_r l). rewrite readyg_leafy_app by assumption. cbn. tauto. Qed.

Lemma dispatch_pending (G : world -> Prop) (P : world -> msg -> Z -> Prop) :
  core_closed G -> core_closed_p P ->
  (forall w m id, P w m id -> is_swap m = true) ->
  (forall w m id w1 ev w2 subs, P w m id -> exec_simple w A_ENGINE m = Ok (w1, ev) ->
     contract_reply w1 A_ENGINE id (Ok ev) = Ok (w2, subs) -> readyg G P w2 subs) ->
  forall fuel f w n subs w' n',
    dispatch fuel f w n A_ENGINE subs = Ok (w', n') -> readyg G P w subs -> G w'.
Proof.
  intros HG HP Hswap Hpair.
  induction fuel as [|k IH]; intros f w n subs w' n' H Hr; [discriminate|].
  cbn [dispatch] in H. destruct subs as [|s rest]; [inv_ok; exact Hr|].
  cbn [readyg] in Hr.
  destruct (n =? f).
  - destruct (wants_err (sm_reply s)); [|discriminate].
    destruct (contract_reply_err w A_ENGINE (sm_id s) ESub) as [e' He]. rewrite He in H. discriminate.
  - destruct (wants_ok (sm_reply s)) eqn:Ewo.
    + destruct Hr as (-> & Hra & Hpe). rewrite Hra in H. cbn [wants_err] in H.
      pose proof (Hswap _ _ _ Hpe) as Hsw.
      destruct (sm_msg s) eqn:Em; try discriminate Hsw;
      (destruct (exec_simple w A_ENGINE _) as [[w1 ev]|e] eqn:Ex; cbn [bind fst snd] in H;
       [ destruct (contract_reply w1 A_ENGINE (sm_id s) (Ok ev)) as [[w2 s2]|] eqn:Er; cbn [bind fst snd] in H; [|discriminate];
         destruct (dispatch k f w2 (n + 1) A_ENGINE s2) as [[w3 n3]|] eqn:Ed; cbn [bind fst snd] in H; [|discriminate];
         pose proof (Hpair _ _ _ _ _ _ _ Hpe Ex Er) as Hr2;
         apply IH in Ed; [|exact Hr2];
         apply IH in H; [exact H | exact Ed]
       | destruct (contract_reply_err w A_ENGINE (sm_id s) e) as [e' He]; rewrite He in H; discriminate ]).
    + destruct Hr as (Hlf & Hr).
      destruct (sm_msg s) eqn:Em; try discriminate Hlf;
      try (destruct (exec_simple w A_ENGINE _) as [[w1 ev]|e] eqn:Ex; cbn [bind fst snd] in H;
           [ apply exec_leaf_core in Ex; [|reflexivity]; apply IH in H; [exact H | eapply readyg_core; eauto]
           | destruct (wants_err (sm_reply s)); [|discriminate];
             destruct (contract_reply_err w A_ENGINE (sm_id s) e) as [e' He]; rewrite He in H; discriminate ]).
      destruct (target =? A_IFUND); cbn [bind] in H.
      * destruct (if_withdraw w A_ENGINE amt) as [[w1 s1]|e] eqn:Ew; cbn [bind fst snd] in H.
        -- apply if_withdraw_leafy in Ew. destruct Ew as [-> Hs1'].
           destruct (dispatch k f w (n + 1) A_IFUND s1) as [[w2 n2]|e] eqn:Ed; cbn [bind fst snd] in H.
           ++ apply dispatch_leafy_core in Ed; [|assumption]. apply IH in H; [exact H | eapply readyg_core; eauto].
           ++ destruct (wants_err (sm_reply s)); [|discriminate].
              destruct (contract_reply_err w A_ENGINE (sm_id s) e) as [e' He]; rewrite He in H; discriminate.
        -- destruct (wants_err (sm_reply s)); [|discriminate].
           destruct (contract_reply_err w A_ENGINE (sm_id s) e) as [e' He]; rewrite He in H; discriminate.
      * destruct (wants_err (sm_reply s)); [|discriminate].
        destruct (contract_reply_err w A_ENGINE (sm_id s) EDecode) as [e' He]; rewrite He in H; discriminate.
Qed.
