(* A concrete deployment and history used by the non-vacuity examples of the end-to-end theorems:
   cw20 collateral, 6 decimals, one vAMM (10 quote per base) with a 5% price band, two funded traders;
   trader 21 is long 5 x 2, trader 22 short 2 x 3; the block has advanced since the vAMM's first snapshot. *)
From MP.Model Require Import Prelude U128 SInt Feed Vamm VammOps Token World Engine Runtime.

Definition scenario : res world :=
  let e := mkEnv 1000 10 in
  do w0 <- init_world e (mkDeploy false 6 false 50000 50000 50000 1);
  do w1 <- add_vamm_instance w0 11 1 (mkVinit 6 5 (Some 2) (Some 3) 1000000000 100000000 3600 0 0 50000);
  let ops := [OIfund 1 (IAddVamm 11); OVamm 1 11 (WSetOpen true); OFeed 1 (PAppend 10000000 1000);
              OToken 1 (TMint 21 1000000000000); OToken 21 (TIncreaseAllowance 1000000000000);
              OToken 1 (TMint 22 1000000000000); OToken 22 (TIncreaseAllowance 1000000000000);
              OToken 1 (TMint 3 1000000000000);
              OBlock 10 1;
              OEngine 21 (EOpenPosition 11 Buy 5000000 2000000 0) 0;
              OBlock 10 1;
              OEngine 22 (EOpenPosition 11 Sell 2000000 3000000 0) 0;
              OBlock 10 1] in
  Ok (run w1 ops).

Definition wf0b (a : sint) : bool := 0 <=? sval a.
Definition pos_wfb (p : position) : bool :=
  wf0b (p_size p) && wf0b (p_lupf p) && (0 <=? p_margin p) && (0 <=? p_notional p).
Definition wfvb (v : vamm) : bool :=
  (0 <? v_dec (vc v)) && (0 <=? v_q (vs v)) && (0 <=? v_b (vs v)) && wf0b (v_total (vs v)).
Definition stableb (vm : vamm) (e : env) : bool :=
  match snaps vm with
  | [] => false
  | latest :: older => negb (s_height latest =? height e) || negb (match older with [] => true | _ => false end)
  end.
