(* C12 end to end: what an OpenPosition transaction that opens a new position pays to the insurance fund
   and to the fee pool. *)
From MP.Model Require Import Prelude U128 SInt Feed Vamm VammOps Token World Engine Runtime.
From MP.Proofs Require Import Tactics MapFacts SIntFacts VammFacts SwapFacts EngineGuards EngineArith CloseFacts RuntimeFacts
  LedgerFacts FrameFacts ResidueFacts MirrorFacts MirrorReach MoreFacts BandFacts FlowFacts CloseTxFacts.

Definition no_draws (msgs : list submsg) : Prop :=
  Forall (fun s => match sm_msg s with MIfWithdraw _ _ => False | _ => True end) msgs.

(* without insurance-fund draws the net flow into any account other than the engine is what is paid to it
   minus what is pulled from it - the insurance fund's own address included *)
Lemma flow_split_nodraw ie a msgs : a <> A_ENGINE -> no_draws msgs ->
  flow A_ENGINE ie a msgs = paid_to a msgs - pulled_from a msgs.
Proof.
  intros H1. induction 1 as [|s rest Hs Hr IH]; cbn [flow paid_to pulled_from]; [lia|]. rewrite IH.
  unfold ind. destruct (sm_msg s); try contradiction; try lia.
  - rewrite (Z.eqb_sym to a). destruct (Z.eqb_spec a to); destruct (Z.eqb_spec a A_ENGINE); try lia; contradiction.
  - rewrite (Z.eqb_sym to a). destruct (Z.eqb_spec a to); destruct (Z.eqb_spec a owner); lia.
Qed.

Lemma no_draws_app l1 l2 : no_draws l1 -> no_draws l2 -> no_draws (l1 ++ l2).
Proof. intros. apply Forall_app; split; assumption. Qed.

Lemma no_draws_fees w from vamm notional msgs spread toll :
  transfer_fees w from vamm notional = Ok (msgs, spread, toll) -> no_draws msgs.
Proof.
  intros H. unfold transfer_fees in H. minv H. inv_ok. unfold execute_transfer_from, no_draws.
  repeat destr_if; cbn [app]; repeat constructor.
Qed.

(* what the fee messages pay: the spread fee to the insurance fund, the toll fee to the fee pool *)
Lemma paid_fees_exact w from vamm notional msgs spread toll a : 0 <= notional ->
  transfer_fees w from vamm notional = Ok (msgs, spread, toll) ->
  e_ifund (ec (w_eng w)) <> e_feepool (ec (w_eng w)) ->
  paid_to a msgs = ind (a =? e_ifund (ec (w_eng w))) spread + ind (a =? e_feepool (ec (w_eng w))) toll.
Proof.
  intros Hn H Hd. apply transfer_fees_spec in H; [|exact Hn]. destruct H as (v & _ & _ & _ & ->).
  rewrite paid_to_app. unfold execute_transfer_from, ind.
  destruct (t_native (w_tok w)); destruct (Z.eqb_spec spread 0); destruct (Z.eqb_spec toll 0); cbn [negb paid_to sm_msg];
  rewrite ?(Z.eqb_sym _ a); repeat destr_if; zb; subst; try lia; try congruence.
Qed.

(* the increase reply of a fresh OpenPosition (nothing owed back to the trader): before the fee messages it
   emits at most the pull of the new margin into the vault *)
Lemma update_position_reply_fresh w i o w' subs tm :
  update_position_reply w i o INCREASE_ID = Ok (w', subs) -> e_tmp (w_eng w) = Some tm ->
  ts_fees_paid tm = false -> ts_mtv tm = szero -> 0 <= ts_open_notional tm -> 0 < ts_leverage tm -> 0 <= e_dec (ec (w_eng w)) ->
  exists msgs1 w1 fmsgs spread toll,
    subs = msgs1 ++ fmsgs /\ no_draws msgs1 /\
    (forall a, a <> A_ENGINE -> paid_to a msgs1 = 0) /\ (forall a, a <> ts_trader tm -> pulled_from a msgs1 = 0) /\
    w_vamms w1 = w_vamms w /\ ec (w_eng w1) = ec (w_eng w) /\ t_native (w_tok w1) = t_native (w_tok w) /\
    transfer_fees w1 (ts_trader tm) (ts_vamm tm) (ts_open_notional tm) = Ok (fmsgs, spread, toll).
Proof.
  intros H Htmp Hfp Hmtv Hon Hlev HD. unfold update_position_reply, need_tmp in H. rewrite Htmp in H. cbn [bind] in H.
  rewrite Hfp, Hmtv in H. cbn [negb] in H. rewrite Z.eqb_refl in H.
  destruct (need_sent w) as [funds|]; [|discriminate]. cbn [bind] in H. cbv zeta in H.
  destruct (update_open_interest_notional w (es (w_eng w)) (ts_vamm tm) (spos i) (ts_trader tm)) as [st1|]; [|discriminate]. cbn [bind] in H.
  destruct (cmul (ts_open_notional tm) (e_dec (ec (w_eng w)))) as [sm1|] eqn:E1; [|discriminate]. cbn [bind] in H.
  destruct (cdiv sm1 (ts_leverage tm)) as [swap_margin|] eqn:E2; [|discriminate]. cbn [bind] in H.
  apply cmul_ok in E1. destruct E1 as [-> _]. apply cdiv_ok in E2. destruct E2 as [-> _].
  set (swap_margin := ts_open_notional tm * e_dec (ec (w_eng w)) / ts_leverage tm) in *.
  assert (Hsm : 0 <= swap_margin) by (apply Z.div_pos; [apply Z.mul_nonneg_nonneg; lia|lia]).
  destruct (schecked_add szero (spos swap_margin)) as [mtv|] eqn:Em; [|discriminate]. cbn [bind] in H.
  apply schecked_add_toZ0 in Em; [|unfold wf0; cbn; lia|apply spos_wf0; exact Hsm]. destruct Em as (Zm & Wm & _).
  change (toZ szero) with 0 in Zm. rewrite toZ_spos in Zm.
  assert (Hlt : sltb mtv szero = false).
  { change szero with (spos 0). rewrite sltb_spos0 by (auto; lia). apply Z.ltb_ge. lia. }
  match type of H with context [cadd ?a ?b] => destruct (cadd a b) as [nn|]; [|discriminate] end. cbn [bind] in H.
  match type of H with context [calc_remain_margin ?a ?b ?c ?d] => destruct (calc_remain_margin a b c d) as [[[[fp margin] bad] latest]|]; [|discriminate] end. cbn [bind] in H.
  match type of H with bind ?r _ = _ => destruct r as [new_size|]; [|discriminate] end. cbn [bind] in H.
  match type of H with bind ?r _ = _ => destruct r as [[]|]; [|discriminate] end. cbn [bind] in H.
  rewrite Hlt in H.
  match type of H with context [store_position (w_eng w) ?V ?T ?P] => set (w1 := set_eng w (store_position (w_eng w) V T P)) in * end.
  assert (Hr2 : exists msgs1 rq, (if sgtb mtv szero then if t_native (w_tok w1) then do rq0 <- cadd (sf_required funds) (sval mtv); Ok (st1, [], rq0)
                                  else Ok (st1, [execute_transfer_from w1 (ts_trader tm) A_ENGINE (sval mtv)], sf_required funds)
                                  else Ok (st1, [], sf_required funds)) = Ok (st1, msgs1, rq) /\
                  no_draws msgs1 /\ (forall a, a <> A_ENGINE -> paid_to a msgs1 = 0) /\ (forall a, a <> ts_trader tm -> pulled_from a msgs1 = 0)).
  { match type of H with bind ?r _ = _ => destruct r as [[[st2 m1] rq1]|] eqn:Er; [|discriminate] end.
    destruct (sgtb mtv szero).
    - destruct (t_native (w_tok w1)) eqn:En.
      + minv Er. inv_ok. do 2 eexists. split; [reflexivity|]. split; [constructor|]. split; intros; reflexivity.
      + inv_ok. do 2 eexists. split; [reflexivity|]. unfold execute_transfer_from. rewrite En.
        split; [repeat constructor|]. split; intros a Ha; cbn [paid_to pulled_from sm_msg]; unfold ind;
        [destruct (Z.eqb_spec A_ENGINE a); [congruence|lia] | destruct (Z.eqb_spec a (ts_trader tm)); [contradiction|lia]].
    - inv_ok. do 2 eexists. split; [reflexivity|]. split; [constructor|]. split; intros; reflexivity. }
  destruct Hr2 as (msgs1 & rq & Hr2 & Hnd & Hpaid & Hpull). rewrite Hr2 in H. cbn [bind] in H.
  match type of H with context [transfer_fees ?W ?T ?V ?N] => destruct (transfer_fees W T V N) as [[[fmsgs spread] toll]|] eqn:Ef; [|discriminate] end. cbn [bind] in H.
  assert (Hsubs : subs = msgs1 ++ fmsgs) by (arm H; reflexivity).
  exists msgs1, w1, fmsgs, spread, toll. split; [exact Hsubs|]. split; [exact Hnd|]. split; [exact Hpaid|]. split; [exact Hpull|].
  split; [reflexivity|]. split; [reflexivity|]. split; [reflexivity|exact Ef].
Qed.

Lemma open_new_position_shape w t v s m l lim f w1 subs :
  e_open_position w t v s m l lim f = Ok (w1, subs) -> find_position (w_eng w) v t = None -> 0 < e_dec (ec (w_eng w)) ->
  subs = [internal_increase_position v s (m * l / e_dec (ec (w_eng w))) lim] /\ 0 < l /\
  w_tok w1 = w_tok w /\ w_if w1 = w_if w /\ w_vamms w1 = w_vamms w /\ ec (w_eng w1) = ec (w_eng w).
Proof.
  intros H Hnone HD. unfold e_open_position in H. unfold get_position in H. rewrite Hnone in H. cbn [p_dir p_size] in H.
  change (s_is_zero szero) with true in H. cbn [orb] in H.
  arm H. arith_ok. zb. subst. repeat split; lia.
Qed.

Theorem open_new_position_tx_fees f w t v s m l lim funds w' vm :
  exec_op f w (OEngine t (EOpenPosition v s m l lim) funds) = Ok w' ->
  find_position (w_eng w) v t = None ->
  get_vamm w v = Ok vm -> 0 <= m -> 0 <= l -> 0 < e_dec (ec (w_eng w)) ->
  let ifund := e_ifund (ec (w_eng w)) in let pool := e_feepool (ec (w_eng w)) in
  ifund <> pool -> ifund <> A_ENGINE -> pool <> A_ENGINE -> t <> ifund -> t <> pool ->
  let notional := m * l / e_dec (ec (w_eng w)) in
  bal (w_tok w') ifund = bal (w_tok w) ifund + fee_of vm notional (v_spread (vc vm)) /\
  bal (w_tok w') pool = bal (w_tok w) pool + fee_of vm notional (v_toll (vc vm)).
Proof.
  intros H Hnone Hvm Hm Hl HD ifund pool Hd1 Hd2 Hd3 Hd4 Hd5 notional.
  cbn [exec_op] in H. revert H. generalize FUEL. intros fuel H.
  destruct (attach_funds w t A_ENGINE funds) as [w0|] eqn:Ea; [|discriminate]. cbn [bind] in H.
  cbn [engine_execute] in H.
  destruct (e_open_position w0 t v s m l lim funds) as [[w1 subs]|] eqn:Eo; [|discriminate]. cbn [bind fst snd] in H.
  destruct (dispatch fuel f w1 0 A_ENGINE subs) as [[wf nf]|] eqn:Ed; [|discriminate]. cbn [bind fst] in H. inv_ok.
  pose proof (attach_funds_core _ _ _ _ _ Ea) as [E1 E2].
  assert (E3 : w_vamms w0 = w_vamms w /\ w_if w0 = w_if w) by (unfold attach_funds in Ea; destruct (funds =? 0); [inv_ok; auto|]; minv Ea; inv_ok; auto).
  destruct E3 as (E3 & E4).
  assert (Hbal0 : forall a, a <> A_ENGINE -> a <> t -> bal (w_tok w0) a = bal (w_tok w) a).
  { intros a Ha1 Ha2. unfold attach_funds in Ea. destruct (Z.eqb_spec funds 0) as [->|Hf]; [inv_ok; reflexivity|]. minv Ea. inv_ok. cbn [w_tok set_tok].
    match goal with Hx : tok_move _ _ _ _ = Ok _ |- _ => apply (tok_move_frame _ _ _ _ _ a Hx); auto end. }
  pose proof (open_position_tmp _ _ _ _ _ _ _ _ _ _ Eo) as (tm & Htm & Hv & Ht & _ & Hon & Hlev & _ & Hfp & Hmtv).
  pose proof (open_new_position_shape _ _ _ _ _ _ _ _ _ _ Eo ltac:(rewrite E1; exact Hnone) ltac:(rewrite E1; exact HD)) as (-> & Hl0 & Etok & Eif & Evm & Eec).
  apply dispatch_single in Ed; [|reflexivity|reflexivity].
  destruct Ed as (k & wa & ev & wb & sb & _ & Ex & Er & n1 & Ed).
  cbn [internal_increase_position swap_input_msg sm_msg sm_id] in Ex, Er.
  apply exec_swap_input in Ex. destruct Ex as (vm0 & vm' & qa & ba & Hz & Hsw & -> & ->).
  assert (vm0 = vm) by (unfold get_vamm in Hvm; rewrite Evm, E3 in Hz; rewrite Hz in Hvm; congruence). subst vm0.
  pose proof (swap_input_vc _ _ _ _ _ _ _ _ Hsw) as Hvc. cbn [fst] in Hvc.
  unfold contract_reply, engine_reply in Er. rewrite Z.eqb_refl in Er.
  change (INCREASE_ID =? INCREASE_ID) with true in Er. cbn iota in Er.
  set (wsw := set_vamm w1 v vm') in *.
  pose proof (update_position_reply_leafy _ _ _ _ _ _ Er) as Hlf.
  assert (Htok : w_tok wb = w_tok wsw) by (apply (update_position_reply_tok _ _ _ _ _ _ Er)).
  assert (Hifb : w_if wb = w_if wsw) by (unfold update_position_reply in Er; arm Er; reflexivity).
  eapply update_position_reply_fresh in Er; [|cbn [wsw w_eng set_vamm]; exact Htm|exact Hfp|exact Hmtv| | |].
  2: { rewrite Hon. apply Z.div_pos; [apply Z.mul_nonneg_nonneg; lia|rewrite E1; lia]. }
  2: { rewrite Hlev. exact Hl0. }
  2: { cbn [wsw w_eng set_vamm]. rewrite Eec, E1. lia. }
  destruct Er as (msgs1 & wx & fmsgs & spread & toll & -> & Hnd & Hpaid & Hpull & Evx & Eecx & _ & Hfees).
  rewrite Ht, Hv, Hon in Hfees. rewrite Ht in Hpull.
  assert (Hecx : ec (w_eng wx) = ec (w_eng w)) by (rewrite Eecx; cbn [wsw w_eng set_vamm]; rewrite Eec, E1; reflexivity).
  assert (Hn : 0 <= m * l / e_dec (ec (w_eng w0))) by (apply Z.div_pos; [apply Z.mul_nonneg_nonneg; lia|rewrite E1; lia]).
  pose proof (no_draws_fees _ _ _ _ _ _ _ Hfees) as Hndf.
  pose proof (dispatch_leafy_flow _ _ _ _ _ _ _ _ Ed Hlf) as [_ Hflow].
  assert (Hfee_vals : spread = fee_of vm notional (v_spread (vc vm)) /\ toll = fee_of vm notional (v_toll (vc vm))).
  { pose proof Hfees as Hf2. apply transfer_fees_spec in Hf2; [|exact Hn]. destruct Hf2 as (v1 & Hv1 & Htl & Hsp & _).
    assert (v1 = vm') by (unfold get_vamm in Hv1; rewrite Evx in Hv1; cbn [wsw w_vamms set_vamm] in Hv1; rewrite zfind_zset_same in Hv1; congruence). subst v1.
    unfold fee_of, notional. rewrite Htl, Hsp, Hvc, E1. split; reflexivity. }
  destruct Hfee_vals as [Hsp Htl].
  assert (Hflow_a : forall a, a <> A_ENGINE -> a <> t ->
            bal (w_tok w') a = bal (w_tok w) a + ind (a =? ifund) spread + ind (a =? pool) toll).
  { intros a Ha1 Ha2. rewrite (Hflow a). rewrite flow_split_nodraw; [|exact Ha1|apply no_draws_app; assumption].
    rewrite paid_to_app, pulled_from_app. rewrite (Hpaid a Ha1), (Hpull a Ha2).
    rewrite (paid_fees_exact _ _ _ _ _ _ _ a Hn Hfees) by (rewrite Hecx; exact Hd1). rewrite Hecx. fold ifund pool.
    assert (Hpf : pulled_from a fmsgs = 0).
    { pose proof Hfees as Hf2. apply transfer_fees_spec in Hf2; [|exact Hn]. destruct Hf2 as (v1 & _ & _ & _ & ->).
      rewrite pulled_from_app. unfold execute_transfer_from, ind.
      repeat destr_if; cbn [pulled_from sm_msg]; unfold ind; repeat destr_if; zb; try lia; congruence. }
    rewrite Hpf. rewrite Htok. cbn [wsw w_tok set_vamm]. rewrite Etok. rewrite (Hbal0 a Ha1 Ha2). lia. }
  split.
  - rewrite (Hflow_a ifund Hd2 ltac:(congruence)). unfold ind. rewrite Z.eqb_refl.
    destruct (Z.eqb_spec ifund pool); [contradiction|]. rewrite Hsp. lia.
  - rewrite (Hflow_a pool Hd3 ltac:(congruence)). unfold ind. rewrite Z.eqb_refl.
    destruct (Z.eqb_spec pool ifund); [congruence|]. rewrite Htl. lia.
Qed.

(* C17 at the engine: the swap a new-position OpenPosition executes is the swap_input of the requested notional
   carrying the caller's limit unchanged, and the stored position holds exactly the base it exchanged *)
Theorem open_new_position_tx_swap f w t v s m l lim funds w' vm :
  exec_op f w (OEngine t (EOpenPosition v s m l lim) funds) = Ok w' ->
  find_position (w_eng w) v t = None -> get_vamm w v = Ok vm -> 0 < e_dec (ec (w_eng w)) ->
  wf0 (v_total (vs vm)) ->
  let notional := m * l / e_dec (ec (w_eng w)) in
  exists vm' ba, swap_input vm (w_env w) A_ENGINE (side_to_direction s) notional lim false = Ok (vm', (notional, ba)) /\
    0 <= ba /\
    exists p, find_position (w_eng w') v t = Some p /\ toZ (p_size p) = match s with Buy => ba | Sell => - ba end.
Proof.
  intros H Hnone Hvm HD Hwt notional.
  cbn [exec_op] in H. revert H. generalize FUEL. intros fuel H.
  destruct (attach_funds w t A_ENGINE funds) as [w0|] eqn:Ea; [|discriminate]. cbn [bind] in H.
  cbn [engine_execute] in H.
  destruct (e_open_position w0 t v s m l lim funds) as [[w1 subs]|] eqn:Eo; [|discriminate]. cbn [bind fst snd] in H.
  destruct (dispatch fuel f w1 0 A_ENGINE subs) as [[wf nf]|] eqn:Ed; [|discriminate]. cbn [bind fst] in H. inv_ok.
  pose proof (attach_funds_core _ _ _ _ _ Ea) as [E1 E2].
  assert (E3 : w_vamms w0 = w_vamms w) by (unfold attach_funds in Ea; destruct (funds =? 0); [inv_ok; auto|]; minv Ea; inv_ok; auto).
  pose proof (open_position_tmp _ _ _ _ _ _ _ _ _ _ Eo) as (tm & Htm & Hv & Ht & Hside & _).
  pose proof (open_new_position_shape _ _ _ _ _ _ _ _ _ _ Eo ltac:(rewrite E1; exact Hnone) ltac:(rewrite E1; exact HD)) as (-> & Hl0 & Etok & Eif & Evm & Eec).
  assert (Hpos1 : find_position (w_eng w1) v t = None /\ w_env w1 = w_env w0).
  { unfold e_open_position in Eo. arm Eo. cbn [w_eng set_eng w_env]. rewrite find_set_sent, find_set_tmp. rewrite E1. auto. }
  destruct Hpos1 as [Hnone1 Eenv].
  apply dispatch_single in Ed; [|reflexivity|reflexivity].
  destruct Ed as (k & wa & ev & wb & sb & _ & Ex & Er & n1 & Ed).
  cbn [internal_increase_position swap_input_msg sm_msg sm_id] in Ex, Er.
  apply exec_swap_input in Ex. destruct Ex as (vm0 & vm' & qa & ba & Hz & Hsw & -> & ->).
  assert (vm0 = vm) by (unfold get_vamm in Hvm; rewrite Evm, E3 in Hz; rewrite Hz in Hvm; congruence). subst vm0.
  rewrite Eenv, E2, E1 in Hsw. fold notional in Hsw.
  pose proof (swap_input_total _ _ _ _ _ _ _ _ _ _ Hsw Hwt) as (Hba & _ & _).
  assert (qa = notional) by (unfold swap_input in Hsw; minv Hsw; inv_ok; reflexivity). subst qa.
  unfold contract_reply, engine_reply in Er. rewrite Z.eqb_refl in Er.
  change (INCREASE_ID =? INCREASE_ID) with true in Er. cbn iota in Er.
  pose proof (update_position_reply_leafy _ _ _ _ _ _ Er) as Hlf.
  eapply update_position_reply_shape in Er; [|cbn [w_eng set_vamm]; exact Htm].
  cbv zeta in Er. rewrite Hv, Ht, Hside in Er. cbn [w_eng set_vamm w_env] in Er.
  destruct Er as (p' & Hw & Hadd & _).
  unfold get_position in Hadd. rewrite Hnone1 in Hadd. cbn [p_size] in Hadd.
  destruct (signed_out_facts s ba Hba) as (Hso1 & _ & Hso3).
  apply sadd_toZ0 in Hadd; [|unfold wf0; cbn; lia|exact Hso1]. destruct Hadd as (Za & _ & _).
  change (toZ szero) with 0 in Za.
  exists vm', ba. split; [exact Hsw|]. split; [exact Hba|].
  exists p'. split.
  - apply dispatch_leafy_core in Ed; [|exact Hlf]. destruct Ed as (Ee & _). rewrite Ee.
    destruct Hw as (Wp & _). unfold find_position. rewrite Wp. apply zfind_zset_same.
  - rewrite Za, Hso3. destruct s; cbn [side_to_direction]; lia.
Qed.
