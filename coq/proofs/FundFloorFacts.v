(* C04, third clause, through the whole message tree: in a trader-initiated transaction the insurance fund's balance
   never falls by more than the amount the engine records as prepaid bad debt in the same transaction.
   Potential: fund balance + recorded prepaid bad debt - draws still queued; it never decreases along the dispatch. *)
From MP.Model Require Import Prelude U128 SInt Feed Vamm VammOps Token World Engine Runtime.
From MP.Proofs Require Import Tactics MapFacts SIntFacts EngineGuards RuntimeFacts LedgerFacts ResidueFacts MirrorFacts MoreFacts
  CloseFacts FrameFacts FlowFacts CloseTxFacts PartiesFacts FeeFlowFacts.

Fixpoint draws (msgs : list submsg) : Z :=
  match msgs with
  | [] => 0
  | s :: rest => (match sm_msg s with MIfWithdraw _ amt => amt | _ => 0 end) + draws rest
  end.
Lemma draws_app l1 l2 : draws (l1 ++ l2) = draws l1 + draws l2.
Proof. induction l1 as [|s l IH]; cbn [draws app]; [lia|]. rewrite IH. lia. Qed.

(* a leaf message that cannot lower the fund's balance except by a non-negative draw *)
Definition okleaf (s : submsg) : Prop :=
  match sm_msg s with
  | MTransfer to amt => to = A_IFUND -> 0 <= amt
  | MTransferFrom owner to amt => owner <> A_IFUND /\ (to = A_IFUND -> 0 <= amt)
  | MIfWithdraw _ amt => 0 <= amt
  | _ => True
  end.

Definition fsum (w : world) : Z := bal (w_tok w) A_IFUND + e_bad_debt (es (w_eng w)).

Fixpoint readyF (pendF : world -> msg -> Z -> Prop) (w : world) (subs : list submsg) : Prop :=
  match subs with
  | [] => True
  | s :: rest =>
      if wants_ok (sm_reply s) then rest = [] /\ sm_reply s = RAlways /\ pendF w (sm_msg s) (sm_id s)
      else is_leaf (sm_msg s) = true /\ okleaf s /\ readyF pendF w rest
  end.

Definition pendF_closed (pendF : world -> msg -> Z -> Prop) : Prop :=
  forall w w1 m id, same_core w w1 -> pendF w m id -> pendF w1 m id.

Lemma readyF_core pendF w w1 subs : pendF_closed pendF -> same_core w w1 -> readyF pendF w subs -> readyF pendF w1 subs.
Proof.
  intros HP Hc. induction subs as [|s rest IH]; cbn [readyF]; [auto|].
  destruct (wants_ok (sm_reply s)).
  - intros (E & R & Q). split; [exact E|split; [exact R|eapply HP; eauto]].
  - intros (L & O & R). auto.
Qed.

Lemma readyF_leafy pendF w l : Forall leafy l -> Forall okleaf l -> readyF pendF w l.
Proof.
  induction 1 as [|s l [Hs1 Hs2] Hl IH]; intros Ho; cbn [readyF]; [exact Logic.I|].
  inversion Ho; subst. rewrite Hs1. auto.
Qed.

Lemma readyF_leafy_app pendF w l1 l2 : Forall leafy l1 -> Forall okleaf l1 -> readyF pendF w l2 -> readyF pendF w (l1 ++ l2).
Proof.
  induction 1 as [|s l [Hs1 Hs2] Hl IH]; intros Ho Hr; cbn [readyF app]; [exact Hr|].
  inversion Ho; subst. rewrite Hs1. auto.
Qed.

Lemma same_core_fsum w w1 : same_core w w1 -> e_bad_debt (es (w_eng w1)) = e_bad_debt (es (w_eng w)).
Proof. intros (E & _). rewrite E. reflexivity. Qed.

Lemma dispatch_floor (pendF : world -> msg -> Z -> Prop) :
  pendF_closed pendF ->
  (forall w m id, pendF w m id -> is_swap m = true) ->
  (forall w m id w1 ev w2 subs, pendF w m id -> exec_simple w A_ENGINE m = Ok (w1, ev) ->
     contract_reply w1 A_ENGINE id (Ok ev) = Ok (w2, subs) ->
     readyF pendF w2 subs /\ e_bad_debt (es (w_eng w2)) = e_bad_debt (es (w_eng w)) + draws subs) ->
  forall fuel f w n subs w' n',
    dispatch fuel f w n A_ENGINE subs = Ok (w', n') -> readyF pendF w subs ->
    fsum w - draws subs <= fsum w'.
Proof.
  intros HP Hswap Hpair.
  induction fuel as [|k IH]; intros f w n subs w' n' H Hr; [discriminate|].
  cbn [dispatch] in H. destruct subs as [|s rest]; [inv_ok; cbn [draws]; lia|].
  cbn [readyF] in Hr. cbn [draws].
  destruct (n =? f).
  - destruct (wants_err (sm_reply s)); [|discriminate].
    destruct (contract_reply_err w A_ENGINE (sm_id s) ESub) as [e' He]. rewrite He in H. discriminate.
  - destruct (wants_ok (sm_reply s)) eqn:Ewo.
    + destruct Hr as (-> & Hra & Hpe). rewrite Hra in H. cbn [wants_err] in H.
      pose proof (Hswap _ _ _ Hpe) as Hsw. cbn [draws].
      destruct (sm_msg s) eqn:Em; try discriminate Hsw;
      (destruct (exec_simple w A_ENGINE _) as [[w1 ev]|e] eqn:Ex; cbn [bind fst snd] in H;
       [ destruct (contract_reply w1 A_ENGINE (sm_id s) (Ok ev)) as [[w2 s2]|] eqn:Er; cbn [bind fst snd] in H; [|discriminate];
         destruct (dispatch k f w2 (n + 1) A_ENGINE s2) as [[w3 n3]|] eqn:Ed; cbn [bind fst snd] in H; [|discriminate];
         destruct (Hpair _ _ _ _ _ _ _ Hpe Ex Er) as [Hr2 Hbd];
         assert (T2 : w_tok w2 = w_tok w)
           by (rewrite (contract_reply_tok _ _ _ _ _ _ Er); cbn [exec_simple] in Ex; minv Ex; inv_ok; reflexivity);
         apply IH in Ed; [|exact Hr2];
         destruct k as [|k2]; [discriminate|]; cbn [dispatch] in H; inv_ok;
         unfold fsum in *; rewrite T2, Hbd in Ed; lia
       | destruct (contract_reply_err w A_ENGINE (sm_id s) e) as [e' He]; rewrite He in H; discriminate ]).
    + destruct Hr as (Hlf & Hok & Hr). unfold okleaf in Hok.
      destruct (sm_msg s) eqn:Em; try discriminate Hlf.
      * (* Transfer *)
        destruct (exec_simple w A_ENGINE (MTransfer to amt)) as [[w1 ev]|e] eqn:Ex; cbn [bind fst snd] in H.
        -- pose proof (exec_leaf_core _ _ _ _ _ Ex eq_refl) as Hc. pose proof (same_core_fsum _ _ Hc) as Hb.
           cbn [exec_simple] in Ex. inv_bind Ex. inv_ok.
           apply IH in H; [|eapply readyF_core; eauto].
           unfold fsum in *. cbn [w_tok set_tok w_eng] in *. rewrite (tok_move_bal _ _ _ _ _ A_IFUND Hx) in H.
           unfold ind in H. change (A_IFUND =? A_ENGINE) with false in H.
           destruct (Z.eqb_spec A_IFUND to) as [E|E]; [specialize (Hok (eq_sym E))|]; lia.
        -- destruct (wants_err (sm_reply s)); [|discriminate].
           destruct (contract_reply_err w A_ENGINE (sm_id s) e) as [e' He]; rewrite He in H; discriminate.
      * (* TransferFrom *)
        destruct (exec_simple w A_ENGINE (MTransferFrom owner to amt)) as [[w1 ev]|e] eqn:Ex; cbn [bind fst snd] in H.
        -- pose proof (exec_leaf_core _ _ _ _ _ Ex eq_refl) as Hc. cbn [exec_simple] in Ex. inv_bind Ex. inv_ok.
           apply IH in H; [|eapply readyF_core; eauto].
           destruct Hok as [Ho1 Ho2].
           unfold fsum in *. cbn [w_tok set_tok w_eng] in *. rewrite (tok_move_from_bal _ _ _ _ _ _ A_IFUND Hx) in H.
           unfold ind in H. destruct (Z.eqb_spec A_IFUND owner) as [E|E]; [congruence|].
           destruct (Z.eqb_spec A_IFUND to) as [E2|E2]; [specialize (Ho2 (eq_sym E2))|]; lia.
        -- destruct (wants_err (sm_reply s)); [|discriminate].
           destruct (contract_reply_err w A_ENGINE (sm_id s) e) as [e' He]; rewrite He in H; discriminate.
      * (* insurance-fund draw *)
        destruct (target =? A_IFUND); cbn [bind] in H.
        -- destruct (if_withdraw w A_ENGINE amt) as [[w1 s1]|e] eqn:Ew; cbn [bind fst snd] in H.
           ++ pose proof Ew as Ew2. apply if_withdraw_leafy in Ew. destruct Ew as [-> Hs1'].
              destruct (dispatch k f w (n + 1) A_IFUND s1) as [[w2 n2]|e] eqn:Ed; cbn [bind fst snd] in H.
              ** pose proof (dispatch_leafy_core _ _ _ _ _ _ _ _ Ed Hs1') as Hc. pose proof (same_core_fsum _ _ Hc) as Hb.
                 pose proof (dispatch_leafy_flow _ _ _ _ _ _ _ _ Ed Hs1') as [I2 B2].
                 apply IH in H; [|eapply readyF_core; eauto].
                 unfold fsum in *. rewrite Hb, (B2 A_IFUND) in H.
                 unfold if_withdraw in Ew2. minv Ew2. inv_ok. cbn [flow sm_msg] in H. unfold ind in H.
                 rewrite Z.eqb_refl in H. destruct (A_IFUND =? if_engine (w_if w)); lia.
              ** destruct (wants_err (sm_reply s)); [|discriminate].
                 destruct (contract_reply_err w A_ENGINE (sm_id s) e) as [e' He]; rewrite He in H; discriminate.
           ++ destruct (wants_err (sm_reply s)); [|discriminate].
              destruct (contract_reply_err w A_ENGINE (sm_id s) e) as [e' He]; rewrite He in H; discriminate.
        -- destruct (wants_err (sm_reply s)); [|discriminate].
           destruct (contract_reply_err w A_ENGINE (sm_id s) EDecode) as [e' He]; rewrite He in H; discriminate.
Qed.

(* ---------- the trader-initiated arms ---------- *)
Definition fees_ok (w : world) : Prop :=
  forall v vm, zfind v (w_vamms w) = Some vm -> 0 <= v_spread (vc vm) /\ 0 <= v_toll (vc vm) /\ 0 < v_dec (vc vm).

Lemma okleaf_fees w from v n msgs sp tl :
  transfer_fees w from v n = Ok (msgs, sp, tl) -> 0 <= n -> fees_ok w -> from <> A_IFUND ->
  Forall okleaf msgs /\ draws msgs = 0.
Proof.
  intros H Hn Hf Hfr. apply transfer_fees_spec in H; [|exact Hn]. destruct H as (vm & Hv & -> & -> & ->).
  unfold get_vamm in Hv. destruct (zfind v (w_vamms w)) as [vm0|] eqn:Ez; [|discriminate]. injection Hv as ->.
  destruct (Hf _ _ Ez) as (H1 & H2 & H3).
  assert (0 <= n * v_spread (vc vm) / v_dec (vc vm)) by (apply Z.div_pos; nia).
  assert (0 <= n * v_toll (vc vm) / v_dec (vc vm)) by (apply Z.div_pos; nia).
  unfold execute_transfer_from. split.
  - apply Forall_app; split; destr_if; repeat constructor; unfold okleaf; destruct (t_native (w_tok w)); cbn [sm_msg]; auto.
  - rewrite draws_app. repeat destr_if; cbn [draws sm_msg]; destruct (t_native (w_tok w)); cbn [sm_msg]; lia.
Qed.

Lemma okleaf_withdraw w st r amt pre st' msgs :
  withdraw w st r amt pre = Ok (st', msgs) -> r <> A_IFUND ->
  Forall okleaf msgs /\ e_bad_debt st' = e_bad_debt st + draws msgs.
Proof.
  intros H Hr. apply withdraw_spec in H. destruct H as (sf & [(-> & _ & ->) | (-> & Hs & _ & Hb & _)]).
  - split; [repeat constructor; unfold okleaf, execute_transfer; cbn [sm_msg]; intros E; congruence|cbn [draws execute_transfer sm_msg]; lia].
  - split; [repeat constructor; unfold okleaf, execute_transfer, execute_insurance_fund_withdrawal; cbn [sm_msg]; [lia|intros E; congruence]|].
    cbn [draws execute_transfer execute_insurance_fund_withdrawal sm_msg]. lia.
Qed.

Lemma uoin_bd w st v a t st1 : update_open_interest_notional w st v a t = Ok st1 -> e_bad_debt st1 = e_bad_debt st.
Proof. unfold update_open_interest_notional. intros H. minv H. inv_ok. reflexivity. Qed.

Lemma okleaf_pull w t amt : t <> A_IFUND -> okleaf (execute_transfer_from w t A_ENGINE amt).
Proof.
  intros H. unfold okleaf, execute_transfer_from. destruct (t_native (w_tok w)); cbn [sm_msg].
  - intros E. discriminate E.
  - split; [exact H|intros E; discriminate E].
Qed.
Lemma okleaf_pay t amt : t <> A_IFUND -> okleaf (execute_transfer t amt).
Proof. intros H. unfold okleaf, execute_transfer. cbn [sm_msg]. intros E. congruence. Qed.

Ltac ok_goal Ht :=
  repeat first
  [ apply Forall_nil
  | apply Forall_app; split
  | match goal with
    | Hw : withdraw _ _ _ _ _ = Ok (_, ?m) |- Forall okleaf ?m => exact (proj1 (okleaf_withdraw _ _ _ _ _ _ _ Hw Ht))
    | |- Forall _ (if ?c then _ else _) => destruct c
    | |- Forall _ (fst _) => cbn [fst]
    | |- Forall _ (snd _) => cbn [snd]
    end
  | match goal with
    | |- Forall _ (?s :: _) =>
        apply Forall_cons;
        [ lazymatch s with
          | execute_transfer _ _ => apply okleaf_pay; exact Ht
          | execute_transfer_from _ _ _ _ => apply okleaf_pull; exact Ht
          end | ]
    end ].

Lemma update_position_reply_floor w i o id w' subs tm :
  update_position_reply w i o id = Ok (w', subs) -> e_tmp (w_eng w) = Some tm ->
  ts_trader tm <> A_IFUND -> 0 <= ts_open_notional tm -> fees_ok w ->
  Forall okleaf subs /\ e_bad_debt (es (w_eng w')) = e_bad_debt (es (w_eng w)) + draws subs.
Proof.
  intros H Htmp Ht Hn Hf. unfold update_position_reply, need_tmp in H. rewrite Htmp in H. cbn [bind] in H.
  arm H.
  all: cbn [w_eng set_eng es eng_set_sent eng_set_tmp eng_set_state].
  all: repeat match goal with Hu : update_open_interest_notional _ _ _ _ _ = Ok _ |- _ => apply uoin_bd in Hu end.
  all: rewrite ?draws_app.
  all: repeat match goal with
       | Hf1 : transfer_fees ?w1 _ _ _ = Ok (?m, _, _) |- _ =>
           let A := fresh "A" in let B := fresh "B" in
           destruct (okleaf_fees w1 _ _ _ _ _ _ Hf1 Hn Hf Ht) as [A B]; clear Hf1
       end.
  all: repeat match goal with
       | Hw : withdraw _ _ _ _ _ = Ok (_, ?m) |- _ =>
           let A := fresh "A" in let B := fresh "B" in
           destruct (okleaf_withdraw _ _ _ _ _ _ _ Hw Ht) as [A B]; clear Hw
       end.
  all: split; [repeat first [apply Forall_nil | apply Forall_app; split | assumption
                            | apply Forall_cons; [apply okleaf_pull; exact Ht|]] |].
  all: cbn [draws]; unfold execute_transfer_from; repeat destr_if; cbn [draws sm_msg]; try lia.
Qed.

Ltac floor_tac Ht Hf :=
  cbn [w_eng set_eng es eng_set_sent eng_set_tmp eng_set_state remove_position store_position];
  repeat match goal with Hu : update_open_interest_notional _ _ _ _ _ = Ok _ |- _ => apply uoin_bd in Hu end;
  rewrite ?draws_app;
  repeat match goal with
       | Hf1 : transfer_fees ?w1 _ _ ?n = Ok (?m, _, _), Hn : 0 <= ?n |- _ =>
           let A := fresh "A" in let B := fresh "B" in
           destruct (okleaf_fees w1 _ _ _ _ _ _ Hf1 Hn Hf Ht) as [A B]; clear Hf1
       end;
  repeat match goal with
       | Hw : withdraw _ _ _ _ _ = Ok (_, ?m) |- _ =>
           let A := fresh "A" in let B := fresh "B" in
           destruct (okleaf_withdraw _ _ _ _ _ _ _ Hw Ht) as [A B]; clear Hw
       end;
  (split; [repeat first [apply Forall_nil | apply Forall_app; split | assumption
                        | apply Forall_cons; [first [apply okleaf_pull; exact Ht | apply okleaf_pay; exact Ht]|]] |]);
  cbn [draws fst snd]; unfold execute_transfer_from, execute_transfer; repeat destr_if; cbn [draws sm_msg]; try lia.

Lemma close_position_reply_floor w i o w' subs tm :
  close_position_reply w i o = Ok (w', subs) -> e_tmp (w_eng w) = Some tm ->
  ts_trader tm <> A_IFUND ->
  0 <= p_notional (get_position (w_eng w) (w_env w) (ts_vamm tm) (ts_trader tm) (ts_side tm)) -> fees_ok w ->
  Forall okleaf subs /\ e_bad_debt (es (w_eng w')) = e_bad_debt (es (w_eng w)) + draws subs.
Proof.
  intros H Htmp Ht Hn Hf. unfold close_position_reply, need_tmp in H. rewrite Htmp in H. cbn [bind] in H.
  arm H.
  all: floor_tac Ht Hf.
Qed.

Lemma partial_close_position_reply_floor w i o w' subs tm :
  partial_close_position_reply w i o = Ok (w', subs) -> e_tmp (w_eng w) = Some tm ->
  ts_trader tm <> A_IFUND -> 0 <= ts_open_notional tm -> fees_ok w ->
  Forall okleaf subs /\ e_bad_debt (es (w_eng w')) = e_bad_debt (es (w_eng w)) + draws subs.
Proof.
  intros H Htmp Ht Hn Hf. unfold partial_close_position_reply, need_tmp in H. rewrite Htmp in H. cbn [bind] in H.
  arm H.
  all: floor_tac Ht Hf.
Qed.

Lemma reverse_position_reply_bd w i o w' subs :
  reverse_position_reply w i o = Ok (w', subs) -> e_bad_debt (es (w_eng w')) = e_bad_debt (es (w_eng w)).
Proof.
  intros H. unfold reverse_position_reply in H. arm H.
  all: cbn [w_eng set_eng es eng_set_sent eng_set_tmp eng_set_state store_position].
  all: match goal with Hu : update_open_interest_notional _ _ _ _ _ = Ok _ |- _ => apply uoin_bd in Hu; exact Hu end.
Qed.

(* the pending swap of a trader-initiated transaction *)
Definition pendT (w : world) (m : msg) (id : Z) : Prop :=
  is_swap m = true /\ fees_ok w /\
  (id = INCREASE_ID \/ id = DECREASE_ID \/ id = REVERSE_ID \/ id = CLOSE_ID \/ id = PARTIAL_CLOSE_ID) /\
  exists tm, e_tmp (w_eng w) = Some tm /\ ts_trader tm <> A_IFUND /\ 0 <= ts_open_notional tm /\
    0 <= p_notional (get_position (w_eng w) (w_env w) (ts_vamm tm) (ts_trader tm) (ts_side tm)).

Lemma pendT_closed : pendF_closed pendT.
Proof.
  intros w w1 m id (E1 & E2 & E3) (Hs & Hf & Hid & tm & H1 & H2 & H3 & H4).
  split; [exact Hs|]. split; [unfold fees_ok in *; rewrite E2; exact Hf|]. split; [exact Hid|].
  exists tm. rewrite E1, E3. auto.
Qed.

Lemma fees_ok_swap w m w1 ev : is_swap m = true -> exec_simple w A_ENGINE m = Ok (w1, ev) -> fees_ok w ->
  fees_ok w1 /\ w_eng w1 = w_eng w /\ w_env w1 = w_env w /\ exists i o, ev = EvSwap i o \/ exists pf v, ev = EvFunding pf v.
Proof.
  intros Hs Hex Hf. destruct m; try discriminate Hs.
  - apply exec_swap_input in Hex. destruct Hex as (vm0 & vm' & qa & ba & Hz & Hsi & -> & ->).
    pose proof (MirrorReach.swap_input_vc _ _ _ _ _ _ _ _ Hsi) as Hvc. cbn [fst] in Hvc.
    split; [|split; [reflexivity|split; [reflexivity|exists qa, ba; left; reflexivity]]].
    intros v1 vm1 Hz1. cbn [w_vamms set_vamm] in Hz1. destruct (Z.eq_dec v1 v) as [->|Hne].
    + rewrite zfind_zset_same in Hz1. injection Hz1 as <-. rewrite Hvc. exact (Hf _ _ Hz).
    + rewrite zfind_zset_other in Hz1 by exact Hne. exact (Hf _ _ Hz1).
  - apply exec_swap_output in Hex. destruct Hex as (vm0 & vm' & qa & ba & Hz & Hso & -> & ->).
    pose proof (MirrorReach.swap_output_vc _ _ _ _ _ _ _ Hso) as Hvc. cbn [fst] in Hvc.
    split; [|split; [reflexivity|split; [reflexivity|exists ba, qa; left; reflexivity]]].
    intros v1 vm1 Hz1. cbn [w_vamms set_vamm] in Hz1. destruct (Z.eq_dec v1 v) as [->|Hne].
    + rewrite zfind_zset_same in Hz1. injection Hz1 as <-. rewrite Hvc. exact (Hf _ _ Hz).
    + rewrite zfind_zset_other in Hz1 by exact Hne. exact (Hf _ _ Hz1).
  - cbn [exec_simple] in Hex. minv Hex. inv_ok. split; [|split; [reflexivity|split; [reflexivity|exists 0, 0; right; eauto]]].
    match goal with Hsf : settle_funding _ _ _ _ = Ok _ |- _ => pose proof Hsf as Hsf2 end.
    intros v1 vm1 Hz1. cbn [w_vamms set_vamm] in Hz1. destruct (Z.eq_dec v1 v) as [->|Hne].
    + rewrite zfind_zset_same in Hz1. injection Hz1 as <-.
      unfold get_vamm in *. destruct (zfind v (w_vamms w)) as [vm0|] eqn:Ez; [|discriminate]. inv_ok.
      unfold settle_funding in Hsf2. minv Hsf2. inv_ok. cbn [fst vc]. exact (Hf _ _ Ez).
    + rewrite zfind_zset_other in Hz1 by exact Hne. exact (Hf _ _ Hz1).
Qed.

Lemma reverse_position_reply_stored w i o w' subs tm :
  reverse_position_reply w i o = Ok (w', subs) -> e_tmp (w_eng w) = Some tm ->
  exists p', find_position (w_eng w') (ts_vamm tm) (ts_trader tm) = Some p' /\ p_notional p' = 0.
Proof.
  intros H Htmp. unfold reverse_position_reply, need_tmp in H. rewrite Htmp in H. cbn [bind] in H. arm H.
  all: eexists; split; [cbn [w_eng set_eng]; rewrite ?find_set_state, ?find_set_sent, ?find_set_tmp; apply find_store_same|reflexivity].
Qed.

Lemma pendT_pair w m id w1 ev w2 subs :
  pendT w m id -> exec_simple w A_ENGINE m = Ok (w1, ev) ->
  contract_reply w1 A_ENGINE id (Ok ev) = Ok (w2, subs) ->
  readyF pendT w2 subs /\ e_bad_debt (es (w_eng w2)) = e_bad_debt (es (w_eng w)) + draws subs.
Proof.
  intros (Hs & Hf & Hid & tm & Htmp & Ht & Hn & Hpn) Hex Hr.
  destruct (fees_ok_swap _ _ _ _ Hs Hex Hf) as (Hf1 & He1 & Hv1 & i & o & Hev).
  rewrite <- He1. rewrite <- He1 in Htmp, Hpn. rewrite <- Hv1 in Hpn.
  unfold contract_reply, engine_reply in Hr. destruct (A_ENGINE =? A_ENGINE); [|discriminate].
  destruct Hev as [-> | (pf & v & ->)].
  2: { destruct Hid as [ -> | [ -> | [ -> | [ -> | -> ] ] ] ]; discriminate Hr. }
  destruct Hid as [ -> | [ -> | [ -> | [ -> | -> ] ] ] ].
  - assert (Hr' : update_position_reply w1 i o INCREASE_ID = Ok (w2, subs)) by exact Hr.
    destruct (update_position_reply_floor _ _ _ _ _ _ _ Hr' Htmp Ht Hn Hf1) as [Hok Hbd].
    split; [apply readyF_leafy; [exact (update_position_reply_leafy _ _ _ _ _ _ Hr')|exact Hok]|exact Hbd].
  - assert (Hr' : update_position_reply w1 i o DECREASE_ID = Ok (w2, subs)) by exact Hr.
    destruct (update_position_reply_floor _ _ _ _ _ _ _ Hr' Htmp Ht Hn Hf1) as [Hok Hbd].
    split; [apply readyF_leafy; [exact (update_position_reply_leafy _ _ _ _ _ _ Hr')|exact Hok]|exact Hbd].
  - assert (Hr' : reverse_position_reply w1 i o = Ok (w2, subs)) by exact Hr.
    rewrite (reverse_position_reply_bd _ _ _ _ _ Hr').
    destruct (reverse_position_reply_fees _ _ _ _ _ _ Hr' Htmp) as (fmsgs & spread & toll & last & Hfe & -> & Hlast).
    destruct (okleaf_fees _ _ _ _ _ _ _ Hfe Hn Hf1 Ht) as [Hokf Hdr].
    pose proof (leafy_fees _ _ _ _ _ _ _ Hfe) as Hlf.
    rewrite draws_app, Hdr.
    destruct (BandFacts.reverse_position_reply_reopen _ _ _ _ _ _ Hr' Htmp) as (Hvm2 & Henv2 & Hre).
    destruct Hlast as [Hl1 | Hl2].
    + destruct Hl1 as [[amt ->] _]. split; [|cbn [draws execute_transfer sm_msg]; lia].
      apply readyF_leafy_app; [exact Hlf|exact Hokf|]. unfold execute_transfer. cbn [readyF sm_reply wants_ok sm_msg is_leaf].
      split; [reflexivity|]. split; [apply (okleaf_pay _ amt Ht)|exact Logic.I].
    + destruct Hl2 as (tm' & Htmp2 & Hfp2 & ->). split; [|unfold internal_increase_position, swap_input_msg; cbn [draws sm_msg]; lia].
      apply readyF_leafy_app; [exact Hlf|exact Hokf|].
      unfold internal_increase_position, swap_input_msg. cbn [readyF sm_reply wants_ok sm_msg sm_id].
      split; [reflexivity|]. split; [reflexivity|]. split; [reflexivity|].
      split; [unfold fees_ok in *; rewrite Hvm2; exact Hf1|]. split; [left; reflexivity|].
      destruct Hre as [[Hl0 _]|(fees & q & _ & Hsub & Hq & tm2 & Htm2 & Hv2 & Ht2)].
      * exfalso. apply Forall_app in Hl0. destruct Hl0 as [_ Hl0]. inversion Hl0 as [|? ? [Hbad _] _]; subst. discriminate Hbad.
      * rewrite Htmp2 in Htm2. injection Htm2 as <-.
        apply app_inj_tail in Hsub. destruct Hsub as [_ Hsub]. unfold internal_increase_position, swap_input_msg in Hsub. injection Hsub as Hq2.
        exists tm'. split; [exact Htmp2|]. split; [rewrite Ht2; exact Ht|]. split; [lia|].
        destruct (reverse_position_reply_stored _ _ _ _ _ _ Hr' Htmp) as (p' & Hfp & Hpn').
        unfold get_position. rewrite Hv2, Ht2, Hfp. lia.
  - assert (Hr' : close_position_reply w1 i o = Ok (w2, subs)) by exact Hr.
    destruct (close_position_reply_floor _ _ _ _ _ _ Hr' Htmp Ht Hpn Hf1) as [Hok Hbd].
    split; [apply readyF_leafy; [exact (close_position_reply_leafy _ _ _ _ _ Hr')|exact Hok]|exact Hbd].
  - assert (Hr' : partial_close_position_reply w1 o i = Ok (w2, subs)) by exact Hr.
    destruct (partial_close_position_reply_floor _ _ _ _ _ _ Hr' Htmp Ht Hn Hf1) as [Hok Hbd].
    split; [apply readyF_leafy; [exact (partial_close_position_reply_leafy _ _ _ _ _ Hr')|exact Hok]|exact Hbd].
Qed.

(* ---------- END TO END ---------- *)
From MP.Proofs Require Import VammFacts EngineArith.

Lemma attach_funds_fund w s funds w0 :
  attach_funds w s A_ENGINE funds = Ok w0 -> s <> A_IFUND ->
  bal (w_tok w0) A_IFUND = bal (w_tok w) A_IFUND /\ w_eng w0 = w_eng w /\ w_env w0 = w_env w /\ w_vamms w0 = w_vamms w.
Proof.
  intros Ea H1. unfold attach_funds in Ea. destruct (funds =? 0); [inv_ok; auto|]. minv Ea. inv_ok. cbn [w_tok w_eng w_env w_vamms set_tok].
  split; [|auto].
  match goal with Hx : tok_move _ _ _ _ = Ok _ |- _ => rewrite (tok_move_bal _ _ _ _ _ A_IFUND Hx) end.
  unfold ind. change (A_IFUND =? A_ENGINE) with false. destruct (Z.eqb_spec A_IFUND s); [congruence|]. lia.
Qed.

Definition floor_hyps (w : world) (t v : addr) : Prop :=
  fees_ok w /\ t <> A_IFUND /\ 0 <= p_notional (read_position (w_eng w) v t).

Lemma get_position_notional w t v s : 0 <= p_notional (read_position (w_eng w) v t) ->
  0 <= p_notional (get_position (w_eng w) (w_env w) v t s).
Proof. unfold read_position, get_position. destruct (find_position (w_eng w) v t); cbn [p_notional]; [auto|lia]. Qed.

Theorem open_position_tx_fund_floor f w t v s m l lim funds w' :
  exec_op f w (OEngine t (EOpenPosition v s m l lim) funds) = Ok w' ->
  floor_hyps w t v -> 0 <= m -> 0 <= l -> 0 < e_dec (ec (w_eng w)) ->
  fsum w <= fsum w'.
Proof.
  intros H (Hf & Ht & Hpn) Hm Hl HD.
  cbn [exec_op] in H. revert H. generalize FUEL. intros fuel H.
  destruct (attach_funds w t A_ENGINE funds) as [w0|] eqn:Ea; [|discriminate]. cbn [bind] in H.
  cbn [engine_execute] in H.
  destruct (e_open_position w0 t v s m l lim funds) as [[w1 subs]|] eqn:Eo; [|discriminate]. cbn [bind fst snd] in H.
  destruct (dispatch fuel f w1 0 A_ENGINE subs) as [[wf nf]|] eqn:Ed; [|discriminate]. cbn [bind fst] in H. inv_ok.
  destruct (attach_funds_fund _ _ _ _ Ea Ht) as (B0 & E0 & V0 & M0).
  destruct (open_position_shape _ _ _ _ _ _ _ _ _ _ Eo) as (msg & -> & Hra & Hsw & Hid & Hec & Hvs & Htk & Hif).
  destruct (open_position_tmp _ _ _ _ _ _ _ _ _ _ Eo) as (tm & Htmp & T1 & T2 & T3 & T4 & T5 & T6 & T7 & T8).
  assert (Hes : es (w_eng w1) = es (w_eng w0) /\ e_pos (w_eng w1) = e_pos (w_eng w0) /\ w_env w1 = w_env w0)
    by (unfold e_open_position in Eo; arm Eo; repeat split; reflexivity).
  destruct Hes as (Hes & Hpos & Henv).
  assert (Hr : readyF pendT w1 [msg]).
  { cbn [readyF]. rewrite Hra. cbn [wants_ok]. split; [reflexivity|]. split; [reflexivity|].
    split; [destruct (sm_msg msg); try contradiction; reflexivity|].
    split; [unfold fees_ok in *; rewrite Hvs, M0; exact Hf|].
    split; [destruct Hid as [E|[E|E]]; rewrite E; auto|].
    exists tm. split; [exact Htmp|]. rewrite T2. split; [exact Ht|]. rewrite T4, E0. split; [apply Z.div_pos; nia|].
    rewrite T1. unfold get_position, find_position, positions_of. rewrite Hpos. fold (positions_of (w_eng w0) v). fold (find_position (w_eng w0) v t).
    rewrite E0. unfold read_position in Hpn. destruct (find_position (w_eng w) v t); cbn [p_notional]; [exact Hpn|lia]. }
  pose proof (dispatch_floor pendT pendT_closed (fun w m id H => match H with conj Hs _ => Hs end) pendT_pair _ _ _ _ _ _ _ Ed Hr) as Hfl.
  cbn [draws] in Hfl. destruct (sm_msg msg) eqn:Em; try contradiction; unfold fsum in *; rewrite Htk, Hes, B0, E0 in Hfl; lia.
Qed.

Lemma output_price_nonneg dec d base q b n : 0 < dec -> 0 <= q -> 0 <= b -> 0 <= base ->
  output_price dec d base q b = Ok n -> 0 <= n.
Proof.
  intros Hd Hq Hb Hbs H. destruct (Z.eq_dec base 0) as [->|Hne].
  - unfold output_price in H. cbn in H. injection H as <-. lia.
  - destruct d; [apply output_price_add in H|apply output_price_remove in H]; try lia; destruct H as [H _]; lia.
Qed.

Lemma close_position_shape w t v lim w1 subs vm :
  e_close_position w t v lim = Ok (w1, subs) -> get_vamm w v = Ok vm -> wfv vm ->
  0 <= p_notional (read_position (w_eng w) v t) -> 0 <= sval (p_size (read_position (w_eng w) v t)) ->
  0 <= e_plr (ec (w_eng w)) -> 0 < e_dec (ec (w_eng w)) ->
  exists msg tm, subs = [msg] /\ sm_reply msg = RAlways /\ is_swap (sm_msg msg) = true /\
    (sm_id msg = CLOSE_ID \/ sm_id msg = PARTIAL_CLOSE_ID) /\
    e_tmp (w_eng w1) = Some tm /\ ts_vamm tm = v /\ ts_trader tm = t /\ 0 <= ts_open_notional tm /\
    es (w_eng w1) = es (w_eng w) /\ e_pos (w_eng w1) = e_pos (w_eng w) /\ w_env w1 = w_env w /\
    w_vamms w1 = w_vamms w /\ w_tok w1 = w_tok w.
Proof.
  intros H Hv (Hd & Hq & Hb & _) Hpn Hsz Hpl HD. unfold e_close_position in H. rewrite Hv in H. cbn [bind] in H.
  unfold internal_close_position in H. arm H.
  - do 2 eexists. split; [reflexivity|]. unfold swap_output_msg. cbn [sm_reply sm_msg sm_id is_swap w_eng set_eng eng_set_tmp e_tmp ts_vamm ts_trader ts_open_notional es e_pos w_env w_vamms w_tok].
    repeat split; auto.
    match goal with Hx : q_output_amount _ _ _ = Ok ?n |- 0 <= ?n => unfold q_output_amount in Hx; eapply output_price_nonneg; [exact Hd|exact Hq|exact Hb| |exact Hx] end.
    arith_ok. subst. apply Z.div_pos; nia.
  - do 2 eexists. split; [reflexivity|]. unfold swap_output_msg. cbn [sm_reply sm_msg sm_id is_swap w_eng set_eng eng_set_tmp e_tmp ts_vamm ts_trader ts_open_notional es e_pos w_env w_vamms w_tok].
    repeat split; auto.
Qed.

Theorem close_position_tx_fund_floor f w t v lim funds w' vm :
  exec_op f w (OEngine t (EClosePosition v lim) funds) = Ok w' ->
  floor_hyps w t v -> get_vamm w v = Ok vm -> wfv vm ->
  0 <= sval (p_size (read_position (w_eng w) v t)) -> 0 <= e_plr (ec (w_eng w)) -> 0 < e_dec (ec (w_eng w)) ->
  fsum w <= fsum w'.
Proof.
  intros H (Hf & Ht & Hpn) Hvm Hwf Hsz Hpl HD.
  cbn [exec_op] in H. revert H. generalize FUEL. intros fuel H.
  destruct (attach_funds w t A_ENGINE funds) as [w0|] eqn:Ea; [|discriminate]. cbn [bind] in H.
  cbn [engine_execute] in H.
  destruct (e_close_position w0 t v lim) as [[w1 subs]|] eqn:Eo; [|discriminate]. cbn [bind fst snd] in H.
  destruct (dispatch fuel f w1 0 A_ENGINE subs) as [[wf nf]|] eqn:Ed; [|discriminate]. cbn [bind fst] in H. inv_ok.
  destruct (attach_funds_fund _ _ _ _ Ea Ht) as (B0 & E0 & V0 & M0).
  assert (Hvm0 : get_vamm w0 v = Ok vm) by (unfold get_vamm in *; rewrite M0; exact Hvm).
  destruct (close_position_shape _ _ _ _ _ _ vm Eo Hvm0 Hwf) as (msg & tm & -> & Hra & Hsw & Hid & Htmp & T1 & T2 & T3 & Hes & Hpos & Henv & Hvs & Htk);
    try (rewrite E0; assumption).
  assert (Hr : readyF pendT w1 [msg]).
  { cbn [readyF]. rewrite Hra. cbn [wants_ok]. split; [reflexivity|]. split; [reflexivity|].
    split; [exact Hsw|]. split; [unfold fees_ok in *; rewrite Hvs, M0; exact Hf|].
    split; [destruct Hid as [E|E]; rewrite E; auto|].
    exists tm. split; [exact Htmp|]. rewrite T2. split; [exact Ht|]. split; [exact T3|].
    rewrite T1. unfold get_position, find_position, positions_of. rewrite Hpos. fold (positions_of (w_eng w0) v). fold (find_position (w_eng w0) v t).
    rewrite E0. unfold read_position in Hpn. destruct (find_position (w_eng w) v t); cbn [p_notional]; [exact Hpn|lia]. }
  pose proof (dispatch_floor pendT pendT_closed (fun w m id H => match H with conj Hs _ => Hs end) pendT_pair _ _ _ _ _ _ _ Ed Hr) as Hfl.
  cbn [draws] in Hfl. destruct (sm_msg msg) eqn:Em; try discriminate Hsw; unfold fsum in *; rewrite Htk, Hes, B0, E0 in Hfl; lia.
Qed.

Definition pend_none (w : world) (m : msg) (id : Z) : Prop := False.

Lemma leaf_tx_floor fuel f w1 subs wf nf :
  dispatch fuel f w1 0 A_ENGINE subs = Ok (wf, nf) -> Forall leafy subs -> Forall okleaf subs ->
  fsum w1 - draws subs <= fsum wf.
Proof.
  intros Ed Hl Ho.
  apply (dispatch_floor pend_none) with (fuel := fuel) (f := f) (n := 0) (n' := nf) (subs := subs).
  - intros w w1' m id _ H. exact H.
  - intros w m id H. destruct H.
  - intros w m id w1' ev w2 subs2 H. destruct H.
  - exact Ed.
  - apply readyF_leafy; assumption.
Qed.

Theorem deposit_margin_tx_fund_floor f w t v amount funds w' :
  exec_op f w (OEngine t (EDepositMargin v amount) funds) = Ok w' -> t <> A_IFUND ->
  fsum w <= fsum w'.
Proof.
  intros H Ht.
  cbn [exec_op] in H. revert H. generalize FUEL. intros fuel H.
  destruct (attach_funds w t A_ENGINE funds) as [w0|] eqn:Ea; [|discriminate]. cbn [bind] in H.
  cbn [engine_execute] in H.
  destruct (e_deposit_margin w0 t v amount funds) as [[w1 subs]|] eqn:Eo; [|discriminate]. cbn [bind fst snd] in H.
  destruct (dispatch fuel f w1 0 A_ENGINE subs) as [[wf nf]|] eqn:Ed; [|discriminate]. cbn [bind fst] in H. inv_ok.
  destruct (attach_funds_fund _ _ _ _ Ea Ht) as (B0 & E0 & V0 & M0).
  assert (Hs : w_tok w1 = w_tok w0 /\ es (w_eng w1) = es (w_eng w0)) by (unfold e_deposit_margin in Eo; arm Eo; split; reflexivity).
  destruct Hs as [Htk Hes].
  pose proof (deposit_margin_spec _ _ _ _ _ _ _ Eo) as (p & _ & _ & _ & _ & Hm).
  assert (Hsub : Forall leafy subs /\ Forall okleaf subs /\ draws subs = 0).
  { destruct (t_native (w_tok w0)); [destruct Hm as [_ ->]; repeat split; constructor|].
    subst subs. split; [|split].
    - constructor; [apply noreply_leafy_transfer_from|constructor].
    - constructor; [apply okleaf_pull; exact Ht|constructor].
    - unfold execute_transfer_from. destruct (t_native (w_tok w0)); reflexivity. }
  destruct Hsub as (Hl & Ho & Hd).
  pose proof (leaf_tx_floor _ _ _ _ _ _ Ed Hl Ho) as Hfl. unfold fsum in *. rewrite Htk, Hes, B0, E0, Hd in Hfl. lia.
Qed.

Theorem withdraw_margin_tx_fund_floor f w t v amount funds w' :
  exec_op f w (OEngine t (EWithdrawMargin v amount) funds) = Ok w' -> t <> A_IFUND ->
  fsum w <= fsum w'.
Proof.
  intros H Ht.
  cbn [exec_op] in H. revert H. generalize FUEL. intros fuel H.
  destruct (attach_funds w t A_ENGINE funds) as [w0|] eqn:Ea; [|discriminate]. cbn [bind] in H.
  cbn [engine_execute] in H.
  destruct (e_withdraw_margin w0 t v amount) as [[w1 subs]|] eqn:Eo; [|discriminate]. cbn [bind fst snd] in H.
  destruct (dispatch fuel f w1 0 A_ENGINE subs) as [[wf nf]|] eqn:Ed; [|discriminate]. cbn [bind fst] in H. inv_ok.
  destruct (attach_funds_fund _ _ _ _ Ea Ht) as (B0 & E0 & V0 & M0).
  assert (Hs : w_tok w1 = w_tok w0 /\ Forall leafy subs /\ Forall okleaf subs /\
               e_bad_debt (es (w_eng w1)) = e_bad_debt (es (w_eng w0)) + draws subs).
  { unfold e_withdraw_margin in Eo. arm Eo.
    match goal with Hw : withdraw _ _ _ _ _ = Ok _ |- _ =>
      destruct (okleaf_withdraw _ _ _ _ _ _ _ Hw Ht) as [A B];
      split; [reflexivity|split; [exact (leafy_withdraw _ _ _ _ _ _ _ Hw)|split; [exact A|]]] end.
    cbn [w_eng set_eng es eng_set_state store_position]. assumption. }
  destruct Hs as (Htk & Hl & Ho & Hbd).
  pose proof (leaf_tx_floor _ _ _ _ _ _ Ed Hl Ho) as Hfl. unfold fsum in *. rewrite Htk, Hbd, B0, E0 in Hfl. lia.
Qed.

(* the same four, stated as the property states it: the fund's balance falls by no more than the prepaid bad debt
   recorded in the same transaction *)
Definition fund_drop (w w' : world) : Z := bal (w_tok w) A_IFUND - bal (w_tok w') A_IFUND.
Definition recorded (w w' : world) : Z := e_bad_debt (es (w_eng w')) - e_bad_debt (es (w_eng w)).

Corollary open_position_tx_draw_recorded f w t v s m l lim funds w' :
  exec_op f w (OEngine t (EOpenPosition v s m l lim) funds) = Ok w' ->
  floor_hyps w t v -> 0 <= m -> 0 <= l -> 0 < e_dec (ec (w_eng w)) ->
  fund_drop w w' <= recorded w w'.
Proof. intros H H1 H2 H3 H4. pose proof (open_position_tx_fund_floor _ _ _ _ _ _ _ _ _ _ H H1 H2 H3 H4). unfold fsum, fund_drop, recorded in *. lia. Qed.

Corollary close_position_tx_draw_recorded f w t v lim funds w' vm :
  exec_op f w (OEngine t (EClosePosition v lim) funds) = Ok w' ->
  floor_hyps w t v -> get_vamm w v = Ok vm -> wfv vm ->
  0 <= sval (p_size (read_position (w_eng w) v t)) -> 0 <= e_plr (ec (w_eng w)) -> 0 < e_dec (ec (w_eng w)) ->
  fund_drop w w' <= recorded w w'.
Proof. intros H H1 H2 H3 H4 H5 H6. pose proof (close_position_tx_fund_floor _ _ _ _ _ _ _ _ H H1 H2 H3 H4 H5 H6). unfold fsum, fund_drop, recorded in *. lia. Qed.

Corollary deposit_margin_tx_draw_recorded f w t v amount funds w' :
  exec_op f w (OEngine t (EDepositMargin v amount) funds) = Ok w' -> t <> A_IFUND -> fund_drop w w' <= recorded w w'.
Proof. intros H H1. pose proof (deposit_margin_tx_fund_floor _ _ _ _ _ _ _ H H1). unfold fsum, fund_drop, recorded in *. lia. Qed.

Corollary withdraw_margin_tx_draw_recorded f w t v amount funds w' :
  exec_op f w (OEngine t (EWithdrawMargin v amount) funds) = Ok w' -> t <> A_IFUND -> fund_drop w w' <= recorded w w'.
Proof. intros H H1. pose proof (withdraw_margin_tx_fund_floor _ _ _ _ _ _ _ H H1). unfold fsum, fund_drop, recorded in *. lia. Qed.
