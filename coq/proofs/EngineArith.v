(* The engine's margin arithmetic in terms of mathematical integers. *)
From MP.Model Require Import Prelude U128 SInt Feed Vamm VammOps Token World Engine Runtime.
From MP.Proofs Require Import Tactics SIntFacts.

(* well-formed stored position: magnitudes are non-negative *)
Definition pos_wf (p : position) : Prop :=
  wf0 (p_size p) /\ wf0 (p_lupf p) /\ 0 <= p_margin p /\ 0 <= p_notional p.

Definition cpf_wf (e : engine) (v : addr) : Prop := wf0 (cumulative_premium_fraction e v).

(* funding owed: (cumulative fraction - checkpoint) x size / D, truncated toward zero *)
Definition funding_owed (w : world) (v : addr) (p : position) : Z :=
  Z.quot ((toZ (cumulative_premium_fraction (w_eng w) v) - toZ (p_lupf p)) * toZ (p_size p)) (e_dec (ec (w_eng w))).

Lemma calc_remain_margin_spec w v p delta fp margin bad latest :
  pos_wf p -> cpf_wf (w_eng w) v -> wf0 delta -> 0 < e_dec (ec (w_eng w)) ->
  calc_remain_margin w v p delta = Ok (fp, margin, bad, latest) ->
  latest = cumulative_premium_fraction (w_eng w) v /\
  toZ fp = funding_owed w v p /\
  let r := toZ delta - funding_owed w v p + p_margin p in
  (r < 0 -> margin = 0 /\ bad = - r) /\ (0 <= r -> margin = r /\ bad = 0) /\ 0 <= margin /\ 0 <= bad.
Proof.
  intros (Hs & Hl & Hm & Hn) Hc Hd HD H. unfold calc_remain_margin in H. cbv zeta in H.
  unfold cpf_wf in Hc. set (lat := cumulative_premium_fraction (w_eng w) v) in *.
  destruct (ssub lat (p_lupf p)) as [d|] eqn:E1; [|discriminate]. cbn [bind] in H.
  destruct (smul d (p_size p)) as [m|] eqn:E2; [|discriminate]. cbn [bind] in H.
  destruct (sdiv m (spos (e_dec (ec (w_eng w))))) as [fp0|] eqn:E3; [|discriminate]. cbn [bind] in H.
  destruct (ssub delta fp0) as [r1|] eqn:E4; [|discriminate]. cbn [bind] in H.
  destruct (sadd r1 (spos (p_margin p))) as [rem|] eqn:E5; [|discriminate]. cbn [bind] in H.
  apply ssub_toZ0 in E1; [|assumption|assumption]. destruct E1 as (Z1 & W1 & _).
  apply smul_toZ0 in E2; [|assumption|assumption]. destruct E2 as (Z2 & W2 & _).
  apply sdiv_toZ0 in E3; [|assumption|apply spos_wf0; lia]. destruct E3 as (Z3 & W3 & _).
  apply ssub_toZ0 in E4; [|assumption|assumption]. destruct E4 as (Z4 & W4 & _).
  apply sadd_toZ0 in E5; [|assumption|apply spos_wf0; lia]. destruct E5 as (Z5 & W5 & _).
  rewrite toZ_spos in *.
  assert (Hfp : toZ fp0 = funding_owed w v p).
  { unfold funding_owed. fold lat. rewrite Z3, Z2, Z1. reflexivity. }
  rewrite s_is_negative_toZ0 in H by assumption.
  destruct (Z.ltb_spec (toZ rem) 0) as [Hneg|Hpos]; injection H as <- <- <- <-.
  - split; [reflexivity|]. split; [exact Hfp|]. cbv zeta.
    cbn [sval sinvert].
    rewrite (wf0_toZ_abs rem W5). rewrite Z5, Z4, Hfp in *. repeat split; intros; lia.
  - split; [reflexivity|]. split; [exact Hfp|]. cbv zeta.
    rewrite (wf0_toZ_abs rem W5). rewrite Z5, Z4, Hfp in *. repeat split; intros; lia.
Qed.
