(* Guard lemmas of the engine, vAMM, insurance fund, fee pool and feed entry points. *)
From MP.Model Require Import Prelude U128 SInt Feed Vamm VammOps Token World Engine Runtime.
From MP.Proofs Require Import Tactics SIntFacts.

(* ---------- pause (C14) ---------- *)
Lemma open_paused w t v s m l lim f : e_pause (es (w_eng w)) = true -> e_open_position w t v s m l lim f = Err EGuard.
Proof. intros H. unfold e_open_position. rewrite H. reflexivity. Qed.
Lemma close_paused w t v lim : e_pause (es (w_eng w)) = true -> e_close_position w t v lim = Err EGuard.
Proof. intros H. unfold e_close_position. rewrite H. reflexivity. Qed.
Lemma deposit_paused w t v a f : e_pause (es (w_eng w)) = true -> e_deposit_margin w t v a f = Err EGuard.
Proof. intros H. unfold e_deposit_margin. rewrite H. reflexivity. Qed.
Lemma withdraw_paused w t v a : e_pause (es (w_eng w)) = true -> exists e, e_withdraw_margin w t v a = Err e.
Proof.
  intros H. unfold e_withdraw_margin. destruct (require_vamm w v); cbn [bind]; [|eauto].
  rewrite H. cbn. eauto.
Qed.

(* liquidate and pay_funding do not read the pause flag: flipping it changes nothing *)
Definition set_pause_flag (w : world) (b : bool) : world :=
  set_eng w (eng_set_state (w_eng w) (mkEstate (e_oi (es (w_eng w))) (e_bad_debt (es (w_eng w))) b)).

Lemma pay_funding_ignores_pause w v b :
  match e_pay_funding w v, e_pay_funding (set_pause_flag w b) v with
  | Ok (_, m1), Ok (_, m2) => m1 = m2
  | Err _, Err _ => True
  | _, _ => False
  end.
Proof.
  unfold e_pay_funding, require_vamm, query_is_vamm, get_vamm, set_pause_flag. cbn.
  destruct (e_ifund (ec (w_eng w)) =? A_IFUND); cbn; auto.
  destruct (zmem v (if_vamms (w_if w))); cbn; auto.
  destruct (zfind v (w_vamms w)); cbn; auto.
  destruct (v_open (vs v0)); cbn; auto.
Qed.

(* ---------- closed / unregistered vAMM (C14) ---------- *)
Lemma require_vamm_ok w v : require_vamm w v = Ok tt ->
  e_ifund (ec (w_eng w)) = A_IFUND /\ zmem v (if_vamms (w_if w)) = true /\
  exists vm, get_vamm w v = Ok vm /\ v_open (vs vm) = true.
Proof.
  unfold require_vamm, query_is_vamm. intros H. minv_all. zb. repeat split; eauto.
Qed.

Lemma open_requires_vamm w t v s m l lim f r : e_open_position w t v s m l lim f = Ok r -> require_vamm w v = Ok tt.
Proof. unfold e_open_position. intros H. minv H; repeat match goal with u : unit |- _ => destruct u end; first [reflexivity | assumption]. Qed.
Lemma withdraw_requires_vamm w t v a r : e_withdraw_margin w t v a = Ok r -> require_vamm w v = Ok tt.
Proof. unfold e_withdraw_margin. intros H. destruct (require_vamm w v) as [[]|]; [reflexivity|discriminate]. Qed.
Lemma pay_funding_requires_vamm w v r : e_pay_funding w v = Ok r -> require_vamm w v = Ok tt.
Proof. unfold e_pay_funding. intros H. destruct (require_vamm w v) as [[]|]; [reflexivity|discriminate]. Qed.
Lemma liquidate_requires_vamm w s v t lim r : e_liquidate w s v t lim = Ok r ->
  require_vamm (set_eng w (eng_set_liq (w_eng w) (Some s))) v = Ok tt.
Proof. unfold e_liquidate. intros H. minv H; repeat match goal with u : unit |- _ => destruct u end; first [reflexivity | assumption]. Qed.

(* the vAMM itself refuses swaps and funding when closed *)
Lemma swap_input_closed v e s d q l c : v_open (vs v) = false -> swap_input v e s d q l c = Err EGuard.
Proof. intros H. unfold swap_input. rewrite H. reflexivity. Qed.
Lemma swap_output_closed v e s d b l : v_open (vs v) = false -> swap_output v e s d b l = Err EGuard.
Proof. intros H. unfold swap_output. rewrite H. reflexivity. Qed.
Lemma settle_funding_closed v e s o : v_open (vs v) = false -> settle_funding v e s o = Err EGuard.
Proof. intros H. unfold settle_funding. rewrite H. reflexivity. Qed.

(* ---------- leverage bounds (C05) ---------- *)
Lemma require_additional_margin_pos a b u : require_additional_margin (spos a) b = Ok u -> 0 <= a -> 0 <= b -> b <= a.
Proof.
  unfold require_additional_margin. intros H Ha Hb.
  destruct (sltb (spos a) (spos b)) eqn:E; [discriminate|].
  unfold sltb, scmp, s_is_negative, s_is_positive, spos in E. cbn in E.
  destruct (a ?= b) eqn:Ec; try discriminate E.
  - apply Z.compare_eq in Ec. lia.
  - apply Z.compare_gt_iff in Ec. lia.
Qed.

Lemma open_leverage_bounds w t v s m l lim f r :
  e_open_position w t v s m l lim f = Ok r ->
  0 <= e_init (ec (w_eng w)) -> 0 < e_dec (ec (w_eng w)) ->
  e_dec (ec (w_eng w)) <= l /\ l * e_init (ec (w_eng w)) <= e_dec (ec (w_eng w)) * e_dec (ec (w_eng w)).
Proof.
  unfold e_open_position. intros H Hi Hd. minv H.
  all: match goal with
       | Hm : cmul ?d ?d = Ok ?x1, Hq : cdiv ?x1 ?L = Ok ?x2,
         Hr : require_additional_margin (spos ?x2) _ = Ok _, Hl : negb (?L <? ?d) = true |- _ =>
           apply negb_true_iff in Hl; apply Z.ltb_ge in Hl;
           apply cmul_ok in Hm; destruct Hm as [Hm _];
           apply cdiv_ok in Hq; destruct Hq as [Hq _];
           apply require_additional_margin_pos in Hr;
           [ | subst x2 x1; apply Z.div_pos; nia | assumption ];
           subst x2 x1; split; [lia|];
           pose proof (Z.mul_div_le (d * d) L ltac:(lia)); nia
       end.
Qed.

(* ---------- restriction mode (C16) ---------- *)
Lemma restriction_blocks w v t :
  vm_lrb (read_vmap (w_eng w) v) = height (w_env w) ->
  p_block (read_position (w_eng w) v t) = height (w_env w) ->
  require_not_restriction_mode w v t = Err EGuard.
Proof. intros H1 H2. unfold require_not_restriction_mode. rewrite H1, H2, !Z.eqb_refl. reflexivity. Qed.

Lemma restriction_passes w v t :
  vm_lrb (read_vmap (w_eng w) v) <> height (w_env w) \/ p_block (read_position (w_eng w) v t) <> height (w_env w) ->
  require_not_restriction_mode w v t = Ok tt.
Proof.
  intros H. unfold require_not_restriction_mode.
  destruct H as [H|H]; apply Z.eqb_neq in H; rewrite H; cbn; rewrite ?andb_false_r; reflexivity.
Qed.

Lemma open_restricted w t v s m l lim f r :
  e_open_position w t v s m l lim f = Ok r -> require_not_restriction_mode w v t = Ok tt.
Proof. unfold e_open_position. intros H. minv H;
  repeat match goal with u : unit |- _ => destruct u end; first [reflexivity | assumption]. Qed.
Lemma close_restricted w t v lim r :
  e_close_position w t v lim = Ok r -> require_not_restriction_mode w v t = Ok tt.
Proof. unfold e_close_position. intros H. minv H;
  repeat match goal with u : unit |- _ => destruct u end; first [reflexivity | assumption]. Qed.

(* ---------- funding schedule (C11) ---------- *)
Lemma settle_funding_too_early v e s o : now e < v_next_funding (vs v) -> exists er, settle_funding v e s o = Err er.
Proof.
  intros H. unfold settle_funding. destruct (v_open (vs v)); [|eauto].
  destruct (s =? v_engine (vc v)); [|eauto].
  apply Z.ltb_lt in H. rewrite H. cbn. eauto.
Qed.

Lemma settle_funding_spec v e s o v' pf :
  settle_funding v e s o = Ok (v', pf) ->
  v_open (vs v) = true /\ s = v_engine (vc v) /\ v_next_funding (vs v) <= now e /\
  exists underlying index premium p1,
    o_twap o (v_twap_interval (vc v)) = Ok underlying /\
    q_twap_price v e (v_twap_interval (vc v)) = Ok index /\
    schecked_sub (spos index) (spos underlying) = Ok premium /\
    schecked_mul premium (spos (v_fperiod (vc v))) = Ok p1 /\
    schecked_div p1 (spos ONE_DAY) = Ok pf /\
    now e + v_fbuffer (vc v) <= v_next_funding (vs v') /\
    (now e + v_fperiod (vc v)) / ONE_HOUR * ONE_HOUR <= v_next_funding (vs v').
Proof.
  unfold settle_funding. intros H. minv H. inv_ok. zb. cbn.
  repeat match goal with H : add64 _ _ = Ok _ |- _ => unfold add64 in H; destr_if_in H; [|discriminate H]; inv_ok end.
  repeat split; auto.
  do 4 eexists. repeat split; eauto; destr_if; zb; lia.
Qed.
