(* C14: Liquidate does not read the pause flag - pausing or unpausing the engine changes neither whether a
   liquidation's execute arm accepts nor the message it emits; the worlds differ in the flag only. *)
From MP.Model Require Import Prelude U128 SInt Feed Vamm VammOps Token World Engine Runtime.
From MP.Proofs Require Import Tactics EngineGuards.

Lemma with_liq_pause w s b :
  set_eng (set_pause_flag w b) (eng_set_liq (w_eng (set_pause_flag w b)) (Some s)) =
  set_pause_flag (set_eng w (eng_set_liq (w_eng w) (Some s))) b.
Proof. reflexivity. Qed.

Lemma qmr_pause w v t b : query_margin_ratio (set_pause_flag w b) v t = query_margin_ratio w v t.
Proof. reflexivity. Qed.
Lemma mrco_pause w v t o b : margin_ratio_calc_option (set_pause_flag w b) v t o = margin_ratio_calc_option w v t o.
Proof. reflexivity. Qed.
Lemma get_vamm_pause w v b : get_vamm (set_pause_flag w b) v = get_vamm w v.
Proof. reflexivity. Qed.
Lemma oracle_pause w vm b : oracle_of (set_pause_flag w b) vm = oracle_of w vm.
Proof. reflexivity. Qed.
Lemma require_vamm_pause w v b : require_vamm (set_pause_flag w b) v = require_vamm w v.
Proof. reflexivity. Qed.
Lemma get_pnl_pause w v p o b : get_pnl (set_pause_flag w b) v p o = get_pnl w v p o.
Proof. reflexivity. Qed.

Lemma partial_liquidation_pause w v t lim b :
  partial_liquidation (set_pause_flag w b) v t lim =
  match partial_liquidation w v t lim with Ok (w1, m) => Ok (set_pause_flag w1 b, m) | Err e => Err e end.
Proof.
  unfold partial_liquidation. cbv zeta.
  change (ec (w_eng (set_pause_flag w b))) with (ec (w_eng w)).
  change (read_position (w_eng (set_pause_flag w b)) v t) with (read_position (w_eng w) v t).
  rewrite get_vamm_pause, get_pnl_pause.
  repeat match goal with |- (do _ <- ?X; _) = _ => destruct X; cbn [bind]; [|reflexivity] end. reflexivity.
Qed.

Lemma liquidate_ignores_pause w s v t lim b :
  e_liquidate (set_pause_flag w b) s v t lim =
  match e_liquidate w s v t lim with Ok (w1, ms) => Ok (set_pause_flag w1 b, ms) | Err e => Err e end.
Proof.
  unfold e_liquidate. rewrite with_liq_pause.
  set (wl := set_eng w (eng_set_liq (w_eng w) (Some s))).
  rewrite qmr_pause, get_vamm_pause.
  destruct (query_margin_ratio wl v t) as [mr0|]; [|reflexivity]. cbn [bind].
  destruct (get_vamm wl v) as [vm|]; [|reflexivity]. cbn [bind].
  rewrite oracle_pause. destruct (q_is_over_spread_limit vm (oracle_of wl vm)) as [over|]; [|reflexivity]. cbn [bind].
  rewrite mrco_pause, require_vamm_pause.
  match goal with |- (do mr <- ?X; _) = _ => destruct X as [mr|]; [|reflexivity] end. cbn [bind].
  destruct (require_vamm wl v) as [[]|]; [|reflexivity]. cbn [bind].
  change (ec (w_eng (set_pause_flag w b))) with (ec (w_eng w)).
  destruct (require_insufficient_margin mr (e_maint (ec (w_eng w)))) as [[]|]; [|reflexivity]. cbn [bind].
  change (read_position (w_eng (set_pause_flag wl b)) v t) with (read_position (w_eng wl) v t).
  destruct (negb (sval (p_size (read_position (w_eng wl) v t)) =? 0)); [|reflexivity].
  destruct ((e_liqfee (ec (w_eng w)) <? sval mr) && negb (e_plr (ec (w_eng w)) =? 0)).
  - rewrite partial_liquidation_pause. destruct (partial_liquidation wl v t lim) as [[w1 m]|]; reflexivity.
  - unfold internal_close_position. reflexivity.
Qed.

(* and, positively: with the engine paused a full liquidation goes through under the same hypotheses as unpaused *)
From MP.Proofs Require Import SIntFacts EngineArith LiqFacts LiveFacts.
Theorem paused_full_liquidation_succeeds f w s v t lim mr p vm vm' q b :
  e_pause (es (w_eng w)) = true ->
  f < 0 ->
  let wl := with_liquidator w s in
  let c := ec (w_eng w) in let st := es (w_eng w) in
  find_position (w_eng w) v t = Some p -> sval (p_size p) <> 0 ->
  liq_ratio wl v t = Ok mr -> sgtb mr (spos (e_maint c)) = false ->
  require_vamm wl v = Ok tt ->
  (e_liqfee c <? sval mr) && negb (e_plr c =? 0) = false ->
  get_vamm w v = Ok vm ->
  swap_output vm (w_env w) A_ENGINE (side_to_direction (direction_to_side (p_dir p))) (sval (p_size p)) lim = Ok (vm', (q, b)) ->
  let lat := cumulative_premium_fraction (w_eng w) v in
  let X := Z.abs ((toZ lat - toZ (p_lupf p)) * toZ (p_size p)) in
  let tb := bal (w_tok w) A_ENGINE in let fund := bal (w_tok w) A_IFUND in
  pos_wf p -> cpf_wf (w_eng w) v -> 0 < e_dec c -> 0 <= q -> 0 <= e_liqfee c ->
  0 <= e_bad_debt st -> 0 <= tb -> 0 <= bal (w_tok w) s ->
  sval lat < MAXU -> sval (p_lupf p) < MAXU -> sval (p_size p) < MAXU -> e_dec c < MAXU ->
  Z.abs (toZ lat - toZ (p_lupf p)) < MAXU ->
  X + p_notional p + q + p_margin p + q * e_liqfee c + e_bad_debt st + tb + fund + bal (w_tok w) s < MAXU ->
  e_ifund c = A_IFUND -> if_engine (w_if w) = A_ENGINE -> s <> A_ENGINE -> s <> A_IFUND ->
  X + p_notional p + q + p_margin p + q * e_liqfee c <= fund ->
  liq_equity w v p (p_notional p) q <= tb ->
  exists w', exec_op f w (OEngine s (ELiquidate v t lim) 0) = Ok w'.
Proof. intros _. exact (liquidate_full_tx_live f w s v t lim mr p vm vm' q b). Qed.
