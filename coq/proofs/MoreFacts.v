(* Further arm-level facts: post-trade margin ratio, withdraw/deposit (C05); funding on the engine
   side (C11); fee notional (C12); restriction marker (C16); opening swaps may not go over the band (C15). *)
From MP.Model Require Import Prelude U128 SInt Feed Vamm VammOps Token World Engine Runtime.
From MP.Proofs Require Import Tactics MapFacts SIntFacts EngineArith CloseFacts RuntimeFacts FrameFacts ResidueFacts.

(* ---------- C05: the last guard of update_position_reply is the post-state margin ratio ---------- *)
Lemma update_position_reply_ratio w i o id w' subs tm :
  update_position_reply w i o id = Ok (w', subs) -> e_tmp (w_eng w) = Some tm ->
  exists mr, query_margin_ratio w' (ts_vamm tm) (ts_trader tm) = Ok mr /\
             sltb mr (spos (e_maint (ec (w_eng w')))) = false.
Proof.
  intros H Htmp. unfold update_position_reply, need_tmp in H. rewrite Htmp in H. cbn [bind] in H.
  arm H.
  all: match goal with
       | Hq : query_margin_ratio ?W1 _ _ = Ok ?mr, Hr : require_additional_margin ?mr _ = Ok _ |- _ =>
           exists mr; split; [exact Hq|];
           unfold require_additional_margin in Hr;
           match type of Hr with context [sltb ?a ?b] => destruct (sltb a b) eqn:Es; [discriminate Hr|exact Es] end
       end.
Qed.

(* ---------- C05: WithdrawMargin ---------- *)
Lemma withdraw_margin_spec w t v amount w' msgs :
  e_withdraw_margin w t v amount = Ok (w', msgs) ->
  let p := read_position (w_eng w) v t in
  pos_wf p -> cpf_wf (w_eng w) v -> 0 < e_dec (ec (w_eng w)) -> 0 <= amount ->
  exists p', find_position (w_eng w') v t = Some p' /\
    p_margin p' = p_margin p - amount - funding_owed w v p /\ 0 <= p_margin p' /\
    p_lupf p' = cumulative_premium_fraction (w_eng w) v /\
    p_size p' = p_size p /\ p_dir p' = p_dir p /\ p_notional p' = p_notional p /\
    transfers_to t msgs = amount /\
    amount <> 0 /\ e_pause (es (w_eng w)) = false /\
    exists fc fc', query_free_collateral w v t = Ok fc /\ schecked_sub fc (spos amount) = Ok fc' /\ s_is_negative fc' = false.
Proof.
  intros H p Hp Hc HD Ha. unfold e_withdraw_margin in H. fold p in H. cbv zeta in H.
  destruct (require_vamm w v) as [[]|]; [|discriminate]. cbn [bind] in H.
  destruct (e_pause (es (w_eng w))) eqn:Epause; [discriminate|]. cbn [negb] in H.
  destruct (Z.eqb_spec amount 0) as [|Hnz]; [discriminate|]. cbn [negb] in H.
  destruct (calc_remain_margin w v p (sneg_ amount)) as [[[[fp margin] bad] latest]|] eqn:Erm; [|discriminate]. cbn [bind] in H.
  apply calc_remain_margin_spec in Erm; [|exact Hp|exact Hc|apply sneg_wf0; exact Ha|exact HD]. destruct Erm as (El & _ & Hr). cbv zeta in Hr. rewrite sneg_toZ in Hr.
  destruct Hr as (Hneg & Hpos & Hm0 & Hb0).
  destruct (Z.eqb_spec bad 0) as [Eb|]; [|discriminate].
  destruct (query_free_collateral w v t) as [fc|] eqn:Efc; [|discriminate]. cbn [bind] in H.
  destruct (schecked_sub fc (spos amount)) as [fc'|] eqn:Efc'; [|discriminate]. cbn [bind] in H.
  destruct (s_is_negative fc') eqn:Eneg; [discriminate|]. cbn [negb] in H.
  destruct (withdraw w (es (w_eng w)) t amount 0) as [[st' ms]|] eqn:Ew; [|discriminate]. cbn [bind] in H.
  inv_ok.
  assert (Hmargin : margin = p_margin p - amount - funding_owed w v p).
  { destruct (Z_lt_ge_dec (- amount - funding_owed w v p + p_margin p) 0) as [Hlt|Hge];
    [destruct (Hneg Hlt); lia | destruct (Hpos ltac:(lia)); lia]. }
  eexists. split; [cbn [w_eng set_eng]; rewrite find_set_state; apply find_store_same|].
  cbn [p_margin p_lupf p_size p_dir p_notional]. repeat split; auto; try lia.
  - rewrite (transfers_to_withdraw _ _ _ _ _ _ _ t Ew). rewrite Z.eqb_refl. reflexivity.
  - exists fc, fc'. auto.
Qed.

(* ---------- C05: DepositMargin ---------- *)
Lemma deposit_margin_spec w t v amount funds w' msgs :
  e_deposit_margin w t v amount funds = Ok (w', msgs) ->
  exists p, find_position (w_eng w) v t = Some p /\
    find_position (w_eng w') v t = Some (mkPos (p_dir p) (p_size p) (p_margin p + amount) (p_notional p) (p_lupf p) (p_block p)) /\
    amount <> 0 /\ e_pause (es (w_eng w)) = false /\
    (if t_native (w_tok w) then funds = amount /\ msgs = [] else msgs = [execute_transfer_from w t A_ENGINE amount]).
Proof.
  unfold e_deposit_margin. intros H. arm H; zb; arith_ok; subst.
  all: eexists; split; [reflexivity|]; split; [cbn [w_eng set_eng]; apply find_store_same|].
  all: repeat split; auto.
  all: try (match goal with Hn : t_native _ = _ |- _ => rewrite Hn end; auto).
Qed.
