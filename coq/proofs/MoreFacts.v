(* Further arm-level facts: post-trade margin ratio, withdraw/deposit (C05); funding on the engine
   side (C11); fee notional (C12); restriction marker (C16); opening swaps may not go over the band (C15). *)
From MP.Model Require Import Prelude U128 SInt Feed Vamm VammOps Token World Engine Runtime.
From MP.Proofs Require Import Tactics MapFacts SIntFacts EngineGuards EngineArith CloseFacts RuntimeFacts FrameFacts ResidueFacts.

(* ---------- C05: the last guard of update_position_reply is the post-state margin ratio ---------- *)
Lemma update_position_reply_ratio w i o id w' subs tm :
  update_position_reply w i o id = Ok (w', subs) -> e_tmp (w_eng w) = Some tm ->
  exists mr, query_margin_ratio w' (ts_vamm tm) (ts_trader tm) = Ok mr /\
             sltb mr (spos (e_maint (ec (w_eng w')))) = false.
Proof.
  intros H Htmp. unfold update_position_reply, need_tmp in H. rewrite Htmp in H. cbn [bind] in H.
  arm H.
  all: match goal with
       | Hq : query_margin_ratio ?W1 _ _ = Ok ?mr, Hr : require_additional_margin ?mr _ = Ok _ |- _ =>
           exists mr; split; [exact Hq|];
           unfold require_additional_margin in Hr;
           match type of Hr with context [sltb ?a ?b] => destruct (sltb a b) eqn:Es; [discriminate Hr|exact Es] end
       end.
Qed.

(* ---------- C05: WithdrawMargin ---------- *)
Lemma withdraw_margin_spec w t v amount w' msgs :
  e_withdraw_margin w t v amount = Ok (w', msgs) ->
  let p := read_position (w_eng w) v t in
  pos_wf p -> cpf_wf (w_eng w) v -> 0 < e_dec (ec (w_eng w)) -> 0 <= amount ->
  exists p', find_position (w_eng w') v t = Some p' /\
    p_margin p' = p_margin p - amount - funding_owed w v p /\ 0 <= p_margin p' /\
    p_lupf p' = cumulative_premium_fraction (w_eng w) v /\
    p_size p' = p_size p /\ p_dir p' = p_dir p /\ p_notional p' = p_notional p /\
    transfers_to t msgs = amount /\
    amount <> 0 /\ e_pause (es (w_eng w)) = false /\
    exists fc fc', query_free_collateral w v t = Ok fc /\ schecked_sub fc (spos amount) = Ok fc' /\ s_is_negative fc' = false.
Proof.
  intros H p Hp Hc HD Ha. unfold e_withdraw_margin in H. fold p in H. cbv zeta in H.
  destruct (require_vamm w v) as [[]|]; [|discriminate]. cbn [bind] in H.
  destruct (e_pause (es (w_eng w))) eqn:Epause; [discriminate|]. cbn [negb] in H.
  destruct (Z.eqb_spec amount 0) as [|Hnz]; [discriminate|]. cbn [negb] in H.
  destruct (calc_remain_margin w v p (sneg_ amount)) as [[[[fp margin] bad] latest]|] eqn:Erm; [|discriminate]. cbn [bind] in H.
  apply calc_remain_margin_spec in Erm; [|exact Hp|exact Hc|apply sneg_wf0; exact Ha|exact HD]. destruct Erm as (El & _ & Hr). cbv zeta in Hr. rewrite sneg_toZ in Hr.
  destruct Hr as (Hneg & Hpos & Hm0 & Hb0).
  destruct (Z.eqb_spec bad 0) as [Eb|]; [|discriminate].
  destruct (query_free_collateral w v t) as [fc|] eqn:Efc; [|discriminate]. cbn [bind] in H.
  destruct (schecked_sub fc (spos amount)) as [fc'|] eqn:Efc'; [|discriminate]. cbn [bind] in H.
  destruct (s_is_negative fc') eqn:Eneg; [discriminate|]. cbn [negb] in H.
  destruct (withdraw w (es (w_eng w)) t amount 0) as [[st' ms]|] eqn:Ew; [|discriminate]. cbn [bind] in H.
  inv_ok.
  assert (Hmargin : margin = p_margin p - amount - funding_owed w v p).
  { destruct (Z_lt_ge_dec (- amount - funding_owed w v p + p_margin p) 0) as [Hlt|Hge];
    [destruct (Hneg Hlt); lia | destruct (Hpos ltac:(lia)); lia]. }
  eexists. split; [cbn [w_eng set_eng]; rewrite find_set_state; apply find_store_same|].
  cbn [p_margin p_lupf p_size p_dir p_notional]. repeat split; auto; try lia.
  - rewrite (transfers_to_withdraw _ _ _ _ _ _ _ t Ew). rewrite Z.eqb_refl. reflexivity.
  - exists fc, fc'. auto.
Qed.

(* ---------- C05: DepositMargin ---------- *)
Lemma deposit_margin_spec w t v amount funds w' msgs :
  e_deposit_margin w t v amount funds = Ok (w', msgs) ->
  exists p, find_position (w_eng w) v t = Some p /\
    find_position (w_eng w') v t = Some (mkPos (p_dir p) (p_size p) (p_margin p + amount) (p_notional p) (p_lupf p) (p_block p)) /\
    amount <> 0 /\ e_pause (es (w_eng w)) = false /\
    (if t_native (w_tok w) then funds = amount /\ msgs = [] else msgs = [execute_transfer_from w t A_ENGINE amount]).
Proof.
  unfold e_deposit_margin. intros H. arm H; zb; arith_ok; subst.
  all: eexists; split; [reflexivity|]; split; [cbn [w_eng set_eng]; apply find_store_same|].
  all: repeat split; auto.
  all: try (match goal with Hn : t_native _ = _ |- _ => rewrite Hn end; auto).
Qed.

(* ---------- C11: the engine side of a settlement ---------- *)
Definition funding_msgs (w : world) (fp : Z) : list submsg :=
  if fp <? 0 then [execute_insurance_fund_withdrawal w (- fp)]
  else if 0 <? fp then [execute_transfer (e_ifund (ec (w_eng w))) (Z.min (engine_balance w) fp)]
  else [].

Lemma cpf_after_set e vamm m : cumulative_premium_fraction (eng_set_vmap e vamm m) vamm =
  match vm_cpf m with [] => szero | c :: _ => c end.
Proof. unfold cumulative_premium_fraction, read_vmap, eng_set_vmap; cbn [e_vmap]. rewrite zfind_zset_same. reflexivity. Qed.

Lemma pay_funding_reply_spec w pf vamm w' msgs :
  pay_funding_reply w pf vamm = Ok (w', msgs) ->
  wf0 pf -> cpf_wf (w_eng w) vamm -> 0 < e_dec (ec (w_eng w)) ->
  (forall v, get_vamm w vamm = Ok v -> wf0 (v_total (vs v))) ->
  toZ (cumulative_premium_fraction (w_eng w') vamm) = toZ (cumulative_premium_fraction (w_eng w) vamm) + toZ pf /\
  wf0 (cumulative_premium_fraction (w_eng w') vamm) /\
  (exists v, get_vamm w vamm = Ok v /\
     msgs = funding_msgs w (Z.quot (toZ (v_total (vs v)) * toZ pf) (e_dec (ec (w_eng w))))) /\
  w_tok w' = w_tok w /\ w_vamms w' = w_vamms w /\ w_if w' = w_if w /\ w_fp w' = w_fp w /\
  es (w_eng w') = es (w_eng w) /\ ec (w_eng w') = ec (w_eng w) /\ e_pos (w_eng w') = e_pos (w_eng w) /\
  vm_lrb (read_vmap (w_eng w') vamm) = vm_lrb (read_vmap (w_eng w) vamm).
Proof.
  intros H Hpf Hc HD Hv. unfold pay_funding_reply in H.
  destruct (append_cumulative_premium_fraction (w_eng w) vamm pf) as [e1|] eqn:Ea; [|discriminate]. cbn [bind] in H.
  unfold get_vamm in H. cbn [w_vamms set_eng] in H.
  destruct (zfind vamm (w_vamms w)) as [v|] eqn:Ev; [|discriminate]. cbn [bind] in H.
  assert (Hvt : wf0 (v_total (vs v))) by (apply Hv; unfold get_vamm; rewrite Ev; reflexivity).
  destruct (smul (v_total (vs v)) pf) as [m|] eqn:Em; [|discriminate]. cbn [bind] in H.
  apply smul_toZ0 in Em; auto. destruct Em as (Zm & Wm & _).
  destruct (sdiv m (spos (e_dec (ec (w_eng w))))) as [fp|] eqn:Ed; [|discriminate]. cbn [bind] in H.
  apply sdiv_toZ0 in Ed; auto; [|apply spos_wf0; lia]. destruct Ed as (Zf & Wf & Cf). rewrite toZ_spos, Zm in Zf.
  unfold append_cumulative_premium_fraction in Ea. unfold cpf_wf, cumulative_premium_fraction in Hc.
  assert (Hcpf : toZ (cumulative_premium_fraction e1 vamm) = toZ (cumulative_premium_fraction (w_eng w) vamm) + toZ pf /\
                 wf0 (cumulative_premium_fraction e1 vamm) /\
                 es e1 = es (w_eng w) /\ ec e1 = ec (w_eng w) /\ e_pos e1 = e_pos (w_eng w) /\
                 vm_lrb (read_vmap e1 vamm) = vm_lrb (read_vmap (w_eng w) vamm)).
  { unfold cumulative_premium_fraction at 2.
    destruct (vm_cpf (read_vmap (w_eng w) vamm)) as [|c rest] eqn:El; cbn [bind] in Ea.
    - inv_ok. rewrite cpf_after_set. cbn [vm_cpf]. change (toZ szero) with 0.
      repeat split; auto; try lia. unfold read_vmap, eng_set_vmap; cbn [e_vmap]; rewrite zfind_zset_same; reflexivity.
    - destruct (sadd pf c) as [l|] eqn:Es; [|discriminate]. cbn [bind] in Ea. inv_ok.
      apply sadd_toZ0 in Es; auto. destruct Es as (Zl & Wl & _).
      rewrite cpf_after_set. cbn [vm_cpf]. repeat split; auto; try lia.
      unfold read_vmap, eng_set_vmap; cbn [e_vmap]; rewrite zfind_zset_same; reflexivity. }
  destruct Hcpf as (Z1 & W1 & Hes & Hec & Hep & Hl).
  inv_ok. cbn [w_eng set_eng w_tok w_vamms w_if w_fp].
  repeat split; auto.
  exists v. split; [unfold get_vamm; rewrite Ev; reflexivity|].
  unfold funding_msgs.
  rewrite (s_is_negative_toZ0 fp Wf). rewrite s_is_zero_toZ. rewrite Zf.
  set (q := Z.quot (toZ (v_total (vs v)) * toZ pf) (e_dec (ec (w_eng w)))) in *.
  assert (Hsv : sval fp = Z.abs q) by (rewrite (wf0_toZ_abs fp Wf); rewrite Zf; reflexivity).
  destruct (Z.ltb_spec q 0) as [Hn|Hn].
  - destruct (Z.eqb_spec q 0); [lia|]. cbn [andb negb].
    unfold execute_insurance_fund_withdrawal. cbn [w_eng set_eng]. rewrite Hec, Hsv. f_equal. f_equal. f_equal. lia.
  - cbn [andb]. destruct (Z.ltb_spec 0 q) as [Hp|Hp].
    + destruct (Z.eqb_spec q 0); [lia|]. unfold s_is_positive. rewrite (s_is_negative_toZ0 fp Wf), Zf. fold q.
      destruct (Z.ltb_spec q 0); [lia|]. cbn [andb negb].
      unfold execute_transfer_to_insurance_fund, engine_balance. cbn [w_eng set_eng w_tok]. rewrite Hec, Hsv.
      f_equal. f_equal. f_equal. destruct (Z.ltb_spec (bal (w_tok w) A_ENGINE) (Z.abs q)); lia.
    + destruct (Z.eqb_spec q 0); [|lia]. rewrite Bool.andb_false_r. reflexivity.
Qed.

(* ---------- C11: a trade charges the funding owed once and moves the checkpoint ---------- *)
Lemma funding_owed_settled w v p : 0 < e_dec (ec (w_eng w)) ->
  p_lupf p = cumulative_premium_fraction (w_eng w) v -> funding_owed w v p = 0.
Proof. intros HD E. unfold funding_owed. rewrite E. rewrite Z.sub_diag. rewrite Z.mul_0_l. apply Z.quot_0_l. lia. Qed.

Lemma update_position_reply_funding w i o id w' subs tm :
  update_position_reply w i o id = Ok (w', subs) -> e_tmp (w_eng w) = Some tm ->
  let v := ts_vamm tm in let t := ts_trader tm in
  let p := get_position (w_eng w) (w_env w) v t (ts_side tm) in
  pos_wf p -> cpf_wf (w_eng w) v -> 0 < e_dec (ec (w_eng w)) ->
  wf0 (ts_upnl tm) -> 0 <= o -> 0 <= ts_open_notional tm -> 0 < ts_leverage tm ->
  exists p' delta, find_position (w_eng w') v t = Some p' /\
    p_lupf p' = cumulative_premium_fraction (w_eng w) v /\
    p_block p' = height (w_env w) /\
    p_margin p' = Z.max 0 (delta - funding_owed w v p + p_margin p) /\
    (id = INCREASE_ID -> delta = ts_open_notional tm * e_dec (ec (w_eng w)) / ts_leverage tm) /\
    cumulative_premium_fraction (w_eng w') v = cumulative_premium_fraction (w_eng w) v /\
    funding_owed w' v p' = 0.
Proof.
  intros H Htmp v t p Hp Hc HD Hup Ho Hon Hlev.
  unfold update_position_reply, need_tmp in H. rewrite Htmp in H. cbn [bind] in H.
  destruct (need_sent w) as [funds|]; [|discriminate]. cbn [bind] in H. cbv zeta in H. fold v t in H. fold p in H.
  destruct (update_open_interest_notional w (es (w_eng w)) v _ t) as [st1|]; [|discriminate]. cbn [bind] in H.
  match type of H with bind ?r _ = _ => destruct r as [[[[[sm mtv] md] nd] nn]|] eqn:Er; [|discriminate] end. cbn [bind] in H.
  assert (Hmd : wf0 md /\ (id = INCREASE_ID -> toZ md = ts_open_notional tm * e_dec (ec (w_eng w)) / ts_leverage tm)).
  { destruct (Z.eqb_spec id INCREASE_ID) as [Ei|Ei].
    - minv Er. inv_ok. arith_ok. subst. split; [apply spos_wf0; apply Z.div_pos; nia|]. intros _. rewrite toZ_spos. reflexivity.
    - split; [|intros; contradiction].
      destruct (sgtb _ _) in Er; [discriminate|]. cbn [negb bind] in Er.
      destruct (negb (s_is_zero (p_size p))) eqn:Enz.
      + destruct (schecked_mul (ts_upnl tm) _) as [m|] eqn:Em; [|discriminate]. cbn [bind] in Er.
        rewrite schecked_mul_eq in Em. apply smul_toZ0 in Em; auto; [|unfold wf0, sabs; cbn [sval]; destruct (ts_side tm); cbn; lia].
        destruct Em as (_ & Wm & _).
        destruct (sdiv m (sabs (p_size p))) as [rp|] eqn:Ed; [|discriminate]. cbn [bind] in Er.
        apply sdiv_toZ0 in Ed; auto; [|unfold wf0, sabs; cbn [sval]; apply Hp]. destruct Ed as (_ & Wr & _).
        minv Er; inv_ok; exact Wr.
      + cbn [bind] in Er. minv Er; inv_ok; unfold wf0; cbn; lia. }
  destruct Hmd as (Wmd & Hdelta).
  destruct (calc_remain_margin w v p md) as [[[[fp margin] bad] latest]|] eqn:Erm; [|discriminate]. cbn [bind] in H.
  apply calc_remain_margin_spec in Erm; auto. destruct Erm as (El & _ & Hr). cbv zeta in Hr. destruct Hr as (Hneg & Hpos & _ & _).
  destruct (sadd (p_size p) _) as [ns|]; [|discriminate]. cbn [bind] in H.
  match type of H with context [store_position (w_eng w) v t ?P] => set (p' := P) in * end.
  assert (Hf : find_position (w_eng w') v t = Some p' /\ cumulative_premium_fraction (w_eng w') v = cumulative_premium_fraction (w_eng w) v /\ ec (w_eng w') = ec (w_eng w)).
  { arm H; cbn [w_eng set_eng]; rewrite ?find_set_sent, ?find_set_tmp, ?find_set_state; (split; [apply find_store_same|split; reflexivity]). }
  destruct Hf as (Hf & Hcpf & Hec).
  exists p', (toZ md). split; [exact Hf|]. subst p'. cbn [p_lupf p_block p_margin].
  split; [exact El|]. split; [reflexivity|]. split.
  { destruct (Z_lt_ge_dec (toZ md - funding_owed w v p + p_margin p) 0) as [Hlt|Hge];
    [destruct (Hneg Hlt) | destruct (Hpos ltac:(lia))]; lia. }
  split; [exact Hdelta|]. split; [exact Hcpf|].
  apply funding_owed_settled; [rewrite Hec; exact HD|]. cbn [p_lupf]. rewrite Hcpf. exact El.
Qed.

(* ---------- C12: which notional the fee is charged on, once; fee-free operations ---------- *)
(* everything a message list moves to address a (vault payouts and pulls from a wallet alike) *)
Fixpoint paid_to (a : addr) (msgs : list submsg) : Z :=
  match msgs with
  | [] => 0
  | s :: rest =>
      (match sm_msg s with
       | MTransfer to amt => if to =? a then amt else 0
       | MTransferFrom _ to amt => if to =? a then amt else 0
       | _ => 0 end) + paid_to a rest
  end.

Lemma paid_to_app a l1 l2 : paid_to a (l1 ++ l2) = paid_to a l1 + paid_to a l2.
Proof. induction l1 as [|s l IH]; cbn [paid_to app]; [lia|]. rewrite IH. lia. Qed.

Lemma paid_to_withdraw w st receiver amount pre st' msgs a :
  withdraw w st receiver amount pre = Ok (st', msgs) -> receiver <> a -> paid_to a msgs = 0.
Proof.
  intros H Hn. apply withdraw_spec in H. destruct H as (sf & [ (E & _) | (E & _) ]); subst msgs;
  cbn [paid_to sm_msg execute_transfer execute_insurance_fund_withdrawal]; destr_if; lia.
Qed.

(* OpenPosition records the requested quote amount margin x leverage / D as the notional to trade and
   to charge, with the fee not yet paid *)
Lemma open_position_tmp w t v s m l lim f w' subs :
  e_open_position w t v s m l lim f = Ok (w', subs) ->
  exists tm, e_tmp (w_eng w') = Some tm /\ ts_vamm tm = v /\ ts_trader tm = t /\ ts_side tm = s /\
    ts_open_notional tm = m * l / e_dec (ec (w_eng w)) /\ ts_leverage tm = l /\ ts_margin_amount tm = m /\
    ts_fees_paid tm = false /\ ts_mtv tm = szero.
Proof.
  unfold e_open_position. intros H. arm H. arith_ok. subst.
  all: eexists; cbn [w_eng set_eng e_tmp eng_set_sent eng_set_tmp]; split; [reflexivity|];
       cbn [ts_vamm ts_trader ts_side ts_open_notional ts_leverage ts_margin_amount ts_fees_paid ts_mtv]; repeat split; reflexivity.
Qed.

(* the increase / reduce reply charges the fee on the recorded notional unless the reversal's first leg
   already did; the fee messages are the last ones it emits *)
Lemma update_position_reply_fees w i o id w' subs tm :
  update_position_reply w i o id = Ok (w', subs) -> e_tmp (w_eng w) = Some tm ->
  exists msgs1, 
    (ts_fees_paid tm = true -> subs = msgs1 ++ []) /\
    (ts_fees_paid tm = false -> exists w1 fmsgs spread toll,
        w_vamms w1 = w_vamms w /\ ec (w_eng w1) = ec (w_eng w) /\ w_tok w1 = w_tok w /\
        transfer_fees w1 (ts_trader tm) (ts_vamm tm) (ts_open_notional tm) = Ok (fmsgs, spread, toll) /\
        subs = msgs1 ++ fmsgs).
Proof.
  intros H Htmp. unfold update_position_reply, need_tmp in H. rewrite Htmp in H. cbn [bind] in H.
  destruct (ts_fees_paid tm) eqn:Efp; cbn [negb] in H; arm H.
  all: eexists; split; intros Hfp; try discriminate Hfp; try reflexivity.
  all: match goal with Hf : transfer_fees ?w1 _ _ _ = Ok _ |- _ => exists w1; do 3 eexists; split; [reflexivity|split; [reflexivity|split; [reflexivity|split; [exact Hf|reflexivity]]]] end.
Qed.

(* the reversal's first leg charges the fee once on the requested notional and marks it paid for the
   re-opening leg *)
Lemma reverse_position_reply_fees w i o w' subs tm :
  reverse_position_reply w i o = Ok (w', subs) -> e_tmp (w_eng w) = Some tm ->
  exists fmsgs spread toll last,
    transfer_fees w (ts_trader tm) (ts_vamm tm) (ts_open_notional tm) = Ok (fmsgs, spread, toll) /\
    subs = fmsgs ++ [last] /\
    ((exists amt, last = execute_transfer (ts_trader tm) amt) /\ e_tmp (w_eng w') = None \/
     (exists tm', e_tmp (w_eng w') = Some tm' /\ ts_fees_paid tm' = true /\
        last = internal_increase_position (ts_vamm tm) (ts_side tm) (ts_open_notional tm') 0)).
Proof.
  intros H Htmp. unfold reverse_position_reply, need_tmp in H. rewrite Htmp in H. cbn [bind] in H.
  arm H.
  all: do 4 eexists; split; [reflexivity|]; split; [reflexivity|].
  all: cbn [w_eng set_eng e_tmp eng_set_state eng_set_sent eng_set_tmp].
  all: first [ left; split; [eexists; reflexivity|reflexivity]
             | right; eexists; split; [reflexivity|]; split; reflexivity ].
Qed.

(* deposits, withdrawals, funding settlements and liquidations pay nothing to the fee pool *)
Lemma deposit_no_fee w t v amount funds w' msgs :
  e_deposit_margin w t v amount funds = Ok (w', msgs) -> e_feepool (ec (w_eng w)) <> A_ENGINE ->
  paid_to (e_feepool (ec (w_eng w))) msgs = 0.
Proof.
  intros H Hn. apply deposit_margin_spec in H. destruct H as (p & _ & _ & _ & _ & Hm).
  destruct (t_native (w_tok w)).
  - destruct Hm as [_ ->]. reflexivity.
  - subst msgs. unfold execute_transfer_from. destruct (t_native (w_tok w)); cbn [paid_to sm_msg]; destr_if; lia.
Qed.

Lemma withdraw_no_fee w t v amount w' msgs :
  e_withdraw_margin w t v amount = Ok (w', msgs) -> t <> e_feepool (ec (w_eng w)) ->
  paid_to (e_feepool (ec (w_eng w))) msgs = 0.
Proof.
  unfold e_withdraw_margin. intros H Hn. arm H.
  match goal with Hw : withdraw _ _ _ _ _ = Ok _ |- _ => apply (paid_to_withdraw _ _ _ _ _ _ _ _ Hw Hn) end.
Qed.

Lemma pay_funding_no_fee w pf vamm w' msgs :
  pay_funding_reply w pf vamm = Ok (w', msgs) -> e_ifund (ec (w_eng w)) <> e_feepool (ec (w_eng w)) ->
  paid_to (e_feepool (ec (w_eng w))) msgs = 0.
Proof.
  unfold pay_funding_reply, append_cumulative_premium_fraction. intros H Hn. arm H.
  all: repeat destr_if; cbn [paid_to sm_msg execute_transfer_to_insurance_fund execute_transfer execute_insurance_fund_withdrawal set_eng w_eng ec eng_set_vmap];
       repeat destr_if; zb; try lia; try congruence.
Qed.

Lemma liquidate_reply_no_fee w i o w' msgs liq :
  liquidate_reply w i o = Ok (w', msgs) -> e_liq (w_eng w) = Some liq ->
  liq <> e_feepool (ec (w_eng w)) -> e_ifund (ec (w_eng w)) <> e_feepool (ec (w_eng w)) ->
  paid_to (e_feepool (ec (w_eng w))) msgs = 0.
Proof.
  intros H Hl Hn Hi. unfold liquidate_reply, need_liq in H. rewrite Hl in H.
  arm H.
  all: rewrite ?paid_to_app.
  all: repeat match goal with
       | Hw : withdraw _ _ _ _ _ = Ok _ |- _ => rewrite (paid_to_withdraw _ _ _ _ _ _ _ _ Hw Hn); clear Hw
       | Hr : realize_bad_debt _ _ _ = Ok _ |- _ => unfold realize_bad_debt in Hr; minv Hr; inv_ok
       end.
  all: cbn [paid_to sm_msg execute_transfer execute_insurance_fund_withdrawal]; repeat destr_if;
       cbn [paid_to sm_msg execute_transfer execute_insurance_fund_withdrawal]; repeat destr_if; zb; try lia; try congruence.
Qed.

Lemma partial_liquidation_reply_no_fee w i o w' msgs liq :
  partial_liquidation_reply w i o = Ok (w', msgs) -> e_liq (w_eng w) = Some liq ->
  liq <> e_feepool (ec (w_eng w)) -> e_ifund (ec (w_eng w)) <> e_feepool (ec (w_eng w)) ->
  paid_to (e_feepool (ec (w_eng w))) msgs = 0.
Proof.
  intros H Hl Hn Hi. unfold partial_liquidation_reply, need_liq in H. rewrite Hl in H.
  arm H.
  all: cbn [paid_to sm_msg execute_transfer fst snd].
  all: repeat match goal with
       | Hw : withdraw _ _ _ _ _ = Ok _ |- _ => rewrite (paid_to_withdraw _ _ _ _ _ _ _ _ Hw Hn); clear Hw
       end.
  all: repeat destr_if; zb; try lia; try congruence.
Qed.

(* ---------- C16: who sets the restriction marker, who stamps positions ---------- *)
Lemma lrb_after_enter e v h : vm_lrb (read_vmap (enter_restriction_mode e v h) v) = h.
Proof. unfold enter_restriction_mode, read_vmap, eng_set_vmap; cbn [e_vmap]. rewrite zfind_zset_same. reflexivity. Qed.

Lemma lrb_after_enter_other e v h v2 : v2 <> v -> read_vmap (enter_restriction_mode e v h) v2 = read_vmap e v2.
Proof. intros Hn. unfold enter_restriction_mode, read_vmap, eng_set_vmap; cbn [e_vmap]. rewrite zfind_zset_other by exact Hn. reflexivity. Qed.

Lemma liquidate_reply_marks w i o w' msgs tm :
  liquidate_reply w i o = Ok (w', msgs) -> e_tmp (w_eng w) = Some tm ->
  vm_lrb (read_vmap (w_eng w') (ts_vamm tm)) = height (w_env w) /\
  (forall v2, v2 <> ts_vamm tm -> read_vmap (w_eng w') v2 = read_vmap (w_eng w) v2) /\
  find_position (w_eng w') (ts_vamm tm) (ts_trader tm) = None.
Proof.
  intros H Htmp. unfold liquidate_reply, need_tmp in H. rewrite Htmp in H. cbn [bind] in H. arm H.
  all: cbn [w_eng set_eng]; split; [apply lrb_after_enter|]; split;
       [intros v2 Hn; rewrite lrb_after_enter_other by exact Hn; reflexivity|].
  all: rewrite find_enter, find_set_liq, find_set_tmp, find_set_state;
       unfold find_position, positions_of, remove_position; cbn [e_pos]; rewrite zfind_zset_same; apply zfind_zdel_same.
Qed.

Lemma partial_liquidation_reply_marks w i o w' msgs tm :
  partial_liquidation_reply w i o = Ok (w', msgs) -> e_tmp (w_eng w) = Some tm ->
  vm_lrb (read_vmap (w_eng w') (ts_vamm tm)) = height (w_env w) /\
  (forall v2, v2 <> ts_vamm tm -> read_vmap (w_eng w') v2 = read_vmap (w_eng w) v2).
Proof.
  intros H Htmp. unfold partial_liquidation_reply, need_tmp in H. rewrite Htmp in H. cbn [bind] in H. arm H.
  all: cbn [w_eng set_eng]; split; [apply lrb_after_enter|];
       intros v2 Hn; rewrite lrb_after_enter_other by exact Hn; reflexivity.
Qed.

(* every other reply arm leaves every vAMM's marker alone *)
Lemma update_position_reply_lrb w i o id w' subs : update_position_reply w i o id = Ok (w', subs) -> e_vmap (w_eng w') = e_vmap (w_eng w).
Proof. unfold update_position_reply. intros H. arm H; reflexivity. Qed.
Lemma reverse_position_reply_lrb w i o w' subs : reverse_position_reply w i o = Ok (w', subs) -> e_vmap (w_eng w') = e_vmap (w_eng w).
Proof. unfold reverse_position_reply. intros H. arm H; reflexivity. Qed.
Lemma close_position_reply_lrb w i o w' subs : close_position_reply w i o = Ok (w', subs) -> e_vmap (w_eng w') = e_vmap (w_eng w).
Proof. unfold close_position_reply. intros H. arm H; reflexivity. Qed.
Lemma partial_close_position_reply_lrb w i o w' subs : partial_close_position_reply w i o = Ok (w', subs) -> e_vmap (w_eng w') = e_vmap (w_eng w).
Proof. unfold partial_close_position_reply. intros H. arm H; reflexivity. Qed.

(* the position-updating replies of a trader's own actions stamp the current block *)
Lemma reverse_position_reply_stamps w i o w' subs tm :
  reverse_position_reply w i o = Ok (w', subs) -> e_tmp (w_eng w) = Some tm ->
  exists p', find_position (w_eng w') (ts_vamm tm) (ts_trader tm) = Some p' /\ p_block p' = height (w_env w).
Proof.
  intros H Htmp. unfold reverse_position_reply, need_tmp in H. rewrite Htmp in H. cbn [bind] in H. arm H.
  all: eexists; cbn [w_eng set_eng]; rewrite ?find_set_state, ?find_set_sent, ?find_set_tmp; split; [apply find_store_same|reflexivity].
Qed.

Lemma partial_close_position_reply_stamps w i o w' subs tm :
  partial_close_position_reply w i o = Ok (w', subs) -> e_tmp (w_eng w) = Some tm ->
  exists p', find_position (w_eng w') (ts_vamm tm) (ts_trader tm) = Some p' /\ p_block p' = height (w_env w).
Proof.
  intros H Htmp. unfold partial_close_position_reply, need_tmp in H. rewrite Htmp in H. cbn [bind] in H. arm H.
  all: eexists; cbn [w_eng set_eng]; rewrite ?find_set_state, ?find_set_sent, ?find_set_tmp; split; [apply find_store_same|reflexivity].
Qed.

(* a partial liquidation does not stamp the liquidated position: its owner stays free to act unless they
   themselves acted in this block *)
Lemma partial_liquidation_reply_no_stamp w i o w' msgs tm :
  partial_liquidation_reply w i o = Ok (w', msgs) -> e_tmp (w_eng w) = Some tm ->
  exists p', find_position (w_eng w') (ts_vamm tm) (ts_trader tm) = Some p' /\
    p_block p' = p_block (get_position (w_eng w) (w_env w) (ts_vamm tm) (ts_trader tm) (ts_side tm)).
Proof.
  intros H Htmp. unfold partial_liquidation_reply, need_tmp in H. rewrite Htmp in H. cbn [bind] in H. arm H.
  all: eexists; cbn [w_eng set_eng]; rewrite find_enter, find_set_liq, find_set_tmp, find_set_state; split; [apply find_store_same|reflexivity].
Qed.

(* end to end: with the marker and the stamp both at the current height, an OpenPosition / ClosePosition
   transaction by that trader on that vAMM fails and returns the very same world *)
Lemma attach_funds_core w s c funds w0 : attach_funds w s c funds = Ok w0 -> w_eng w0 = w_eng w /\ w_env w0 = w_env w.
Proof. unfold attach_funds. intros H. minv H; inv_ok; split; reflexivity. Qed.

Lemma restricted_same w w0 v t : w_eng w0 = w_eng w -> w_env w0 = w_env w ->
  require_not_restriction_mode w0 v t = require_not_restriction_mode w v t.
Proof. intros E1 E2. unfold require_not_restriction_mode. rewrite E1, E2. reflexivity. Qed.

Lemma restricted_open_changes_nothing f w t v s m l lim funds :
  vm_lrb (read_vmap (w_eng w) v) = height (w_env w) ->
  p_block (read_position (w_eng w) v t) = height (w_env w) ->
  step_f f w (OEngine t (EOpenPosition v s m l lim) funds) = (w, false).
Proof.
  intros H1 H2. unfold step_f. cbn [exec_op].
  destruct (attach_funds w t A_ENGINE funds) as [w0|] eqn:Ea; [|reflexivity]. cbn [bind].
  destruct (attach_funds_core _ _ _ _ _ Ea) as [E1 E2]. cbn [engine_execute].
  destruct (e_open_position w0 t v s m l lim funds) as [r|] eqn:Eo; [|reflexivity].
  apply open_restricted in Eo. rewrite (restricted_same w w0 v t E1 E2) in Eo.
  rewrite (restriction_blocks w v t H1 H2) in Eo. discriminate.
Qed.

Lemma restricted_close_changes_nothing f w t v lim funds :
  vm_lrb (read_vmap (w_eng w) v) = height (w_env w) ->
  p_block (read_position (w_eng w) v t) = height (w_env w) ->
  step_f f w (OEngine t (EClosePosition v lim) funds) = (w, false).
Proof.
  intros H1 H2. unfold step_f. cbn [exec_op].
  destruct (attach_funds w t A_ENGINE funds) as [w0|] eqn:Ea; [|reflexivity]. cbn [bind].
  destruct (attach_funds_core _ _ _ _ _ Ea) as [E1 E2]. cbn [engine_execute].
  destruct (e_close_position w0 t v lim) as [r|] eqn:Eo; [|reflexivity].
  apply close_restricted in Eo. rewrite (restricted_same w w0 v t E1 E2) in Eo.
  rewrite (restriction_blocks w v t H1 H2) in Eo. discriminate.
Qed.

(* ---------- C15: opening swaps may not go over the band, and so end inside it ---------- *)
From MP.Proofs Require Import VammFacts SwapFacts MirrorFacts.

Lemma swap_input_in_band v e s d quote lim v' qa ba :
  wfv v -> 0 <= quote -> v_fluct (vc v) <> 0 ->
  swap_input v e s d quote lim false = Ok (v', (qa, ba)) ->
  exists upper lower cur post,
    price_boundaries v e = Ok (upper, lower) /\
    spot_of (v_dec (vc v)) (v_q (vs v)) (v_b (vs v)) = Ok cur /\ in_band cur upper lower /\
    spot_of (v_dec (vc v')) (v_q (vs v')) (v_b (vs v')) = Ok post /\ in_band post upper lower.
Proof.
  intros Hw Hq Hf H. unfold swap_input in H.
  destruct (v_open (vs v)); [|discriminate]. cbn [bind] in H.
  destruct (s =? v_engine (vc v)); [|discriminate]. cbn [bind] in H.
  destruct (input_price (v_dec (vc v)) d quote (v_q (vs v)) (v_b (vs v))) as [base|] eqn:Ei; [|discriminate]. cbn [bind] in H.
  pose proof (input_price_nonneg _ _ _ _ _ _ Ei) as Hb.
  match type of H with bind ?r _ = _ => destruct r; [|discriminate] end. cbn [bind] in H.
  destruct (update_reserve v e d quote base false) as [v1|] eqn:Eu; [|discriminate]. cbn [bind] in H.
  injection H as <- <- <-.
  pose proof Eu as Eu2. unfold update_reserve in Eu2.
  destruct (check_fluctuation v e d quote base false) as [[]|] eqn:Ec; [|discriminate].
  apply check_fluctuation_band in Ec; [|exact Hf].
  destruct Ec as (upper & lower & cur & price & Hpb & Hcur & Hin & Hpost & Hin2).
  apply update_reserve_spec in Eu; auto. destruct Eu as (Hvc & _ & _ & _ & _ & _ & Hres).
  exists upper, lower, cur, price. repeat split; try assumption; try apply Hin; try apply Hin2.
  rewrite Hvc. destruct d; destruct Hres as (Eq & Eb & _); rewrite Eq, Eb; exact Hpost.
Qed.

(* the swaps an OpenPosition emits: a swap_input that may not go over the band (new / increase / reduce), or -
   only for a reversal - the swap_output of the whole old position followed later by a swap_input that may
   not go over it either (reverse_position_reply emits internal_increase_position) *)
Lemma open_position_swaps w t v s m l lim f w' subs :
  e_open_position w t v s m l lim f = Ok (w', subs) ->
  exists msg, subs = [msg] /\
    ((exists q id, sm_msg msg = MSwapInput v (side_to_direction s) q lim false /\ sm_id msg = id /\ (id = INCREASE_ID \/ id = DECREASE_ID)) \/
     (exists d b, sm_msg msg = MSwapOutput v d b 0 /\ sm_id msg = REVERSE_ID)).
Proof.
  unfold e_open_position. intros H. arm H.
  all: eexists; split; [reflexivity|].
  all: match goal with |- context [if ?c then _ else _] => destruct c end;
       [left; do 2 eexists; cbn [internal_increase_position swap_input_msg sm_msg sm_id]; split; [reflexivity|split; [reflexivity|left; reflexivity]]|].
  all: match goal with |- context [if ?c then _ else _] => destruct c end;
       [left; do 2 eexists; cbn [swap_input_msg sm_msg sm_id]; split; [reflexivity|split; [reflexivity|right; reflexivity]]
       |right; do 2 eexists; cbn [swap_output_msg sm_msg sm_id]; split; reflexivity].
Qed.

Lemma reopen_leg_cannot_go_over v s n l : sm_msg (internal_increase_position v s n l) = MSwapInput v (side_to_direction s) n l false.
Proof. reflexivity. Qed.

(* what the vAMM answers to "would swapping this base amount out leave the price outside the band?" *)
Lemma over_limit_spec v e d base r :
  v_fluct (vc v) <> 0 -> q_is_over_fluctuation_limit v e d base = Ok r ->
  exists upper lower quote price,
    price_boundaries v e = Ok (upper, lower) /\ q_output_amount v d base = Ok quote /\
    (match d with
     | RemoveFromAmm => spot_of (v_dec (vc v)) (v_q (vs v) + quote) (v_b (vs v) - base)
     | AddToAmm => spot_of (v_dec (vc v)) (v_q (vs v) - quote) (v_b (vs v) + base)
     end) = Ok price /\
    r = out_of_band price upper lower.
Proof.
  intros Hf H. unfold q_is_over_fluctuation_limit in H. apply Z.eqb_neq in Hf. rewrite Hf in H.
  destruct (price_boundaries v e) as [[upper lower]|]; [|discriminate]. cbn [bind] in H.
  destruct (q_output_amount v d base) as [quote|]; [|discriminate]. cbn [bind] in H.
  match type of H with bind ?m _ = _ => destruct m as [price|] eqn:Em; [|discriminate] end. cbn [bind] in H.
  inv_ok. exists upper, lower, quote, price. repeat split.
  destruct d; inv_bind Em; inv_bind Em; inv_bind Em; unfold spot_of;
  match goal with
  | Ha : cadd _ _ = Ok _, Hsb : csub _ _ = Ok _ |- _ =>
      apply cadd_ok in Ha; destruct Ha as [Ha _]; apply csub_ok in Hsb; destruct Hsb as [Hsb _]; subst
  end;
  match goal with Hmul : cmul _ _ = Ok _ |- _ => rewrite Hmul end; cbn [bind]; assumption.
Qed.

(* ClosePosition: the whole position is swapped out unless doing so would leave the price outside the band
   and the partial ratio is below 100%; then exactly floor(|size| x ratio / D) base is swapped out *)
Lemma close_position_choice w t v lim w' subs :
  e_close_position w t v lim = Ok (w', subs) ->
  let p := read_position (w_eng w) v t in
  let c := ec (w_eng w) in
  let dir := if sgtb (p_size p) szero then AddToAmm else RemoveFromAmm in
  exists vm over, get_vamm w v = Ok vm /\ q_is_over_fluctuation_limit vm (w_env w) dir (sval (p_size p)) = Ok over /\
    sval (p_size p) <> 0 /\
    (if over && (e_plr c <? e_dec c)
     then subs = [swap_output_msg v (direction_to_side (p_dir p)) (sval (p_size p) * e_plr c / e_dec c) 0 PARTIAL_CLOSE_ID]
     else subs = [swap_output_msg v (direction_to_side (p_dir p)) (sval (p_size p)) lim CLOSE_ID]).
Proof.
  intros H p c dir. unfold e_close_position in H. fold p c in H. cbv zeta in H. fold dir in H.
  destruct (negb (e_pause (es (w_eng w)))); [|discriminate]. cbn [bind] in H.
  destruct (Z.eqb_spec (sval (p_size p)) 0) as [|Hnz]; [discriminate|]. cbn [negb bind] in H.
  destruct (require_not_restriction_mode w v t); [|discriminate]. cbn [bind] in H.
  destruct (get_vamm w v) as [vm|] eqn:Ev; [|discriminate]. cbn [bind] in H.
  destruct (q_is_over_fluctuation_limit vm (w_env w) dir (sval (p_size p))) as [over|] eqn:Eo; [|discriminate]. cbn [bind] in H.
  exists vm, over. split; [reflexivity|]. split; [exact Eo|]. split; [exact Hnz|].
  destruct (over && (e_plr c <? e_dec c)).
  - minv H. inv_ok. arith_ok. subst. reflexivity.
  - unfold internal_close_position in H. inv_ok. reflexivity.
Qed.
