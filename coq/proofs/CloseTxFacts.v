(* C04 end to end: what a whole-position ClosePosition transaction does to the closer's wallet. *)
From MP.Model Require Import Prelude U128 SInt Feed Vamm VammOps Token World Engine Runtime.
From MP.Proofs Require Import Tactics MapFacts SIntFacts VammFacts SwapFacts EngineGuards EngineArith CloseFacts RuntimeFacts
  LedgerFacts FrameFacts ResidueFacts MirrorFacts MirrorReach MoreFacts BandFacts FlowFacts.

(* what a message list pulls out of a's wallet through the engine's allowance *)
Fixpoint pulled_from (a : addr) (msgs : list submsg) : Z :=
  match msgs with
  | [] => 0
  | s :: rest => (match sm_msg s with MTransferFrom owner _ amt => ind (a =? owner) amt | _ => 0 end) + pulled_from a rest
  end.

Lemma pulled_from_app a l1 l2 : pulled_from a (l1 ++ l2) = pulled_from a l1 + pulled_from a l2.
Proof. induction l1 as [|s l IH]; cbn [pulled_from app]; [lia|]. rewrite IH. lia. Qed.

(* for an account that is neither the engine, the insurance fund nor the fund's beneficiary, the net flow is
   what is paid to it (by transfer or by a pull from someone else's wallet) minus what is pulled from it *)
Lemma flow_split ie a msgs : a <> A_ENGINE -> a <> A_IFUND -> a <> ie ->
  flow A_ENGINE ie a msgs = paid_to a msgs - pulled_from a msgs.
Proof.
  intros H1 H2 H3. induction msgs as [|s rest IH]; cbn [flow paid_to pulled_from]; [lia|]. rewrite IH.
  unfold ind. destruct (sm_msg s); try lia.
  - rewrite (Z.eqb_sym to a). destruct (Z.eqb_spec a to); destruct (Z.eqb_spec a A_ENGINE); try lia; contradiction.
  - rewrite (Z.eqb_sym to a). destruct (Z.eqb_spec a to); destruct (Z.eqb_spec a owner); lia.
  - destruct (Z.eqb_spec a ie); destruct (Z.eqb_spec a A_IFUND); try lia; contradiction.
Qed.

Lemma paid_eq_transfers_withdraw w st receiver amount pre st' msgs a :
  withdraw w st receiver amount pre = Ok (st', msgs) -> paid_to a msgs = transfers_to a msgs.
Proof.
  intros H. apply withdraw_spec in H. destruct H as (sf & [ (E & _) | (E & _) ]); subst msgs; reflexivity.
Qed.

Lemma paid_to_fees w from vamm notional msgs spread toll a :
  transfer_fees w from vamm notional = Ok (msgs, spread, toll) ->
  a <> e_ifund (ec (w_eng w)) -> a <> e_feepool (ec (w_eng w)) -> paid_to a msgs = 0.
Proof.
  intros H Hi Hf. unfold transfer_fees in H. minv H. inv_ok.
  unfold execute_transfer_from.
  repeat destr_if; cbn [paid_to app sm_msg]; repeat destr_if; zb; try lia.
Qed.

Lemma pulled_from_withdraw w st receiver amount pre st' msgs a :
  withdraw w st receiver amount pre = Ok (st', msgs) -> pulled_from a msgs = 0.
Proof.
  intros H. apply withdraw_spec in H. destruct H as (sf & [ (E & _) | (E & _) ]); subst msgs; reflexivity.
Qed.

(* the fee messages pull spread + toll from the payer's wallet on a cw20 deployment, nothing on a native one *)
Lemma pulled_from_fees w from vamm notional msgs spread toll : 0 <= notional ->
  transfer_fees w from vamm notional = Ok (msgs, spread, toll) ->
  pulled_from from msgs = if t_native (w_tok w) then 0 else spread + toll.
Proof.
  intros Hn H. apply transfer_fees_spec in H; [|exact Hn]. destruct H as (v & _ & _ & _ & ->).
  rewrite pulled_from_app. unfold execute_transfer_from.
  destruct (t_native (w_tok w)); destruct (Z.eqb_spec spread 0); destruct (Z.eqb_spec toll 0); cbn [negb pulled_from sm_msg];
  unfold ind; rewrite ?Z.eqb_refl; lia.
Qed.

Lemma close_position_reply_pulled w i o w' msgs swap :
  e_tmp (w_eng w) = Some swap ->
  let v := ts_vamm swap in let t := ts_trader swap in
  let p := get_position (w_eng w) (w_env w) v t (ts_side swap) in
  0 <= p_notional p ->
  close_position_reply w i o = Ok (w', msgs) ->
  (p_notional p = 0 /\ pulled_from t msgs = 0) \/
  (exists fm spread toll, transfer_fees w t v (p_notional p) = Ok (fm, spread, toll) /\
     pulled_from t msgs = if t_native (w_tok w) then 0 else spread + toll).
Proof.
  intros Htmp v t p Hn H. unfold close_position_reply, need_tmp in H. rewrite Htmp in H. cbn [bind] in H.
  fold v t in H. cbv zeta in H. fold p in H.
  arm H.
  all: rewrite ?pulled_from_app.
  all: repeat match goal with
       | Hw : withdraw _ _ _ _ _ = Ok _ |- _ => rewrite (pulled_from_withdraw _ _ _ _ _ _ _ t Hw); clear Hw
       end.
  all: try (left; split; [zb; assumption | cbn [pulled_from]; lia]).
  all: right; match goal with Hf : transfer_fees _ _ _ _ = Ok (?fm, ?sp, ?tl) |- _ =>
         exists fm, sp, tl; split; [reflexivity|]; rewrite (pulled_from_fees _ _ _ _ _ _ _ Hn Hf); cbn [pulled_from]; lia end.
Qed.

Lemma close_position_reply_paid w i o w' msgs swap :
  e_tmp (w_eng w) = Some swap ->
  ts_trader swap <> e_ifund (ec (w_eng w)) -> ts_trader swap <> e_feepool (ec (w_eng w)) ->
  close_position_reply w i o = Ok (w', msgs) ->
  paid_to (ts_trader swap) msgs = transfers_to (ts_trader swap) msgs.
Proof.
  intros Htmp Hi Hf H. unfold close_position_reply, need_tmp in H. rewrite Htmp in H. cbn [bind] in H.
  arm H.
  all: rewrite ?paid_to_app, ?transfers_to_app.
  all: repeat match goal with
       | Hw : withdraw _ _ _ _ _ = Ok _ |- _ => rewrite (paid_eq_transfers_withdraw _ _ _ _ _ _ _ (ts_trader swap) Hw); clear Hw
       | Hx : transfer_fees _ _ _ _ = Ok _ |- _ =>
           rewrite (paid_to_fees _ _ _ _ _ _ _ (ts_trader swap) Hx) by assumption;
           rewrite (transfers_to_fees _ _ _ _ _ _ _ (ts_trader swap) Hx) by assumption; clear Hx
       end.
  all: cbn [paid_to transfers_to]; lia.
Qed.

(* ClosePosition on the whole-close branch: the state handed to the swap *)
Lemma close_position_whole w t v lim w1 subs :
  e_close_position w t v lim = Ok (w1, subs) ->
  let p := read_position (w_eng w) v t in
  (exists b, subs = [swap_output_msg v (direction_to_side (p_dir p)) b lim CLOSE_ID]) ->
  w1 = fst (internal_close_position w v t p lim CLOSE_ID) /\
  subs = [snd (internal_close_position w v t p lim CLOSE_ID)] /\ sval (p_size p) <> 0 /\ e_pause (es (w_eng w)) = false.
Proof.
  intros H p [b Hb]. unfold e_close_position in H. fold p in H. cbv zeta in H.
  destruct (e_pause (es (w_eng w))) eqn:Ep; [discriminate|]. cbn [negb bind] in H.
  destruct (Z.eqb_spec (sval (p_size p)) 0) as [|Hnz]; [discriminate|]. cbn [negb bind] in H.
  destruct (require_not_restriction_mode w v t); [|discriminate]. cbn [bind] in H.
  destruct (get_vamm w v) as [vm|]; [|discriminate]. cbn [bind] in H.
  match type of H with bind ?r _ = _ => destruct r as [over|]; [|discriminate] end. cbn [bind] in H.
  destruct (over && (e_plr (ec (w_eng w)) <? e_dec (ec (w_eng w)))).
  - minv H. inv_ok. unfold swap_output_msg, PARTIAL_CLOSE_ID, CLOSE_ID in Hb. congruence.
  - unfold internal_close_position in *. inv_ok. cbn [fst snd]. auto.
Qed.

Definition fee_of (vm : vamm) (notional ratio : Z) : Z := notional * ratio / v_dec (vc vm).

(* END TO END *)
Theorem close_position_tx_pays f w t v lim funds w' :
  exec_op f w (OEngine t (EClosePosition v lim) funds) = Ok w' ->
  let p := read_position (w_eng w) v t in
  pos_wf p -> cpf_wf (w_eng w) v -> 0 < e_dec (ec (w_eng w)) ->
  t <> A_ENGINE -> t <> A_IFUND -> t <> if_engine (w_if w) ->
  t <> e_ifund (ec (w_eng w)) -> t <> e_feepool (ec (w_eng w)) ->
  (* the position was closed whole (no position left) *)
  find_position (w_eng w') v t = None ->
  exists vm vm' o, get_vamm w v = Ok vm /\
    swap_output vm (w_env w) A_ENGINE (p_dir p) (sval (p_size p)) lim = Ok (vm', (o, sval (p_size p))) /\
    let equity := p_margin p + close_rpnl p o (p_notional p) - funding_owed w v p in
    0 <= equity /\
    bal (w_tok w') t = bal (w_tok w) t - funds + equity
      - (if t_native (w_tok w) then 0 else fee_of vm (p_notional p) (v_spread (vc vm)) + fee_of vm (p_notional p) (v_toll (vc vm))).
Proof.
  intros H p Hp Hc HD Ht1 Ht2 Ht3 Ht4 Ht5 Hnone.
  cbn [exec_op] in H. revert H. generalize FUEL. intros fuel H.
  destruct (attach_funds w t A_ENGINE funds) as [w0|] eqn:Ea; [|discriminate]. cbn [bind] in H.
  cbn [engine_execute] in H.
  destruct (e_close_position w0 t v lim) as [[w1 subs]|] eqn:Ec; [|discriminate]. cbn [bind fst snd] in H.
  destruct (dispatch fuel f w1 0 A_ENGINE subs) as [[wf nf]|] eqn:Ed; [|discriminate]. cbn [bind fst] in H. inv_ok.
  pose proof (attach_funds_core _ _ _ _ _ Ea) as [E1 E2].
  assert (E3 : w_vamms w0 = w_vamms w /\ w_if w0 = w_if w /\ t_native (w_tok w0) = t_native (w_tok w)).
  { unfold attach_funds in Ea. destruct (funds =? 0); [inv_ok; auto|]. minv Ea. inv_ok. cbn [w_vamms w_if set_tok w_tok].
    match goal with Hx : tok_move _ _ _ _ = Ok _ |- _ => apply tok_move_total in Hx; destruct Hx as [_ Hx]; rewrite Hx end. auto. }
  destruct E3 as (E3 & E4 & E5).
  assert (Hbal0 : bal (w_tok w0) t = bal (w_tok w) t - funds).
  { unfold attach_funds in Ea. destruct (Z.eqb_spec funds 0) as [->|Hf]; [inv_ok; lia|]. minv Ea. inv_ok. cbn [w_tok set_tok].
    match goal with Hx : tok_move _ _ _ _ = Ok _ |- _ => rewrite (tok_move_bal _ _ _ _ _ t Hx) end.
    unfold ind. rewrite Z.eqb_refl. destruct (Z.eqb_spec t A_ENGINE); [contradiction|]. lia. }
  assert (Hp0 : read_position (w_eng w0) v t = p) by (unfold p; rewrite E1; reflexivity).
  pose proof (close_position_choice _ _ _ _ _ _ Ec) as (vm & over & Hvm & _ & Hnz & Hbranch). cbv zeta in Hbranch.
  rewrite Hp0, E1 in Hbranch. rewrite Hp0 in Hnz.
  assert (Hfound : find_position (w_eng w0) v t = Some p).
  { rewrite <- Hp0. apply read_position_found. rewrite Hp0. exact Hnz. }
  destruct (over && (e_plr (ec (w_eng w)) <? e_dec (ec (w_eng w)))).
  - (* partial close: a position is left, contradicting the hypothesis *)
    exfalso. subst subs.
    apply dispatch_single in Ed; [|reflexivity|reflexivity].
    destruct Ed as (k & wa & ev & wb & sb & _ & Ex & Er & n1 & Ed).
    cbn [swap_output_msg sm_msg sm_id] in Ex, Er.
    apply exec_swap_output in Ex. destruct Ex as (vm1 & vm' & qa & ba & _ & _ & -> & ->).
    unfold contract_reply, engine_reply in Er. rewrite Z.eqb_refl in Er.
    change (PARTIAL_CLOSE_ID =? INCREASE_ID) with false in Er. change (PARTIAL_CLOSE_ID =? DECREASE_ID) with false in Er.
    change (PARTIAL_CLOSE_ID =? REVERSE_ID) with false in Er. change (PARTIAL_CLOSE_ID =? CLOSE_ID) with false in Er.
    change (PARTIAL_CLOSE_ID =? PARTIAL_CLOSE_ID) with true in Er. cbn iota in Er.
    pose proof (partial_close_position_reply_leafy _ _ _ _ _ Er) as Hl.
    assert (Htm : exists tm, e_tmp (w_eng (set_vamm w1 v vm')) = Some tm /\ ts_vamm tm = v /\ ts_trader tm = t).
    { unfold e_close_position in Ec. arm Ec; try discriminate.
      all: eexists; cbn [w_eng set_vamm set_eng e_tmp eng_set_tmp]; split; [reflexivity|split; reflexivity]. }
    destruct Htm as (tm & Htm & Hv & Htt).
    pose proof (partial_close_position_reply_stamps _ _ _ _ _ tm Er Htm) as (p' & Hf' & _). rewrite Hv, Htt in Hf'.
    apply dispatch_leafy_core in Ed; [|exact Hl]. destruct Ed as (Ee & _). rewrite Ee in Hnone. congruence.
  - (* whole close *)
    pose proof (close_position_whole _ _ _ _ _ _ Ec) as Hwh. cbv zeta in Hwh. rewrite Hp0 in Hwh.
    destruct Hwh as (-> & -> & _ & Hpause); [eexists; exact Hbranch|].
    unfold internal_close_position in Ed. cbn [fst snd] in Ed.
    apply dispatch_single in Ed; [|reflexivity|reflexivity].
    destruct Ed as (k & wa & ev & wb & sb & _ & Ex & Er & n1 & Ed).
    cbn [swap_output_msg sm_msg sm_id] in Ex, Er. rewrite dir_side_inv in Ex.
    apply exec_swap_output in Ex. destruct Ex as (vm1 & vm' & qa & ba & Hz1 & Hsw & -> & ->).
    cbn [w_vamms set_eng w_env] in Hz1, Hsw. rewrite E3 in Hz1. rewrite E2 in Hsw.
    assert (vm1 = vm) by (unfold get_vamm in Hvm; rewrite E3, Hz1 in Hvm; congruence). subst vm1.
    unfold contract_reply, engine_reply in Er. rewrite Z.eqb_refl in Er.
    change (CLOSE_ID =? INCREASE_ID) with false in Er. change (CLOSE_ID =? DECREASE_ID) with false in Er.
    change (CLOSE_ID =? REVERSE_ID) with false in Er. change (CLOSE_ID =? CLOSE_ID) with true in Er. cbn iota in Er.
    set (tmp := mkTmp v t (direction_to_side (p_dir p)) (sval (p_size p)) 0 (p_notional p) 0 szero szero false) in *.
    set (wsw := set_vamm (set_eng w0 (eng_set_tmp (w_eng w0) (Some tmp))) v vm') in *.
    assert (Htmp : e_tmp (w_eng wsw) = Some tmp) by reflexivity.
    assert (Hget : get_position (w_eng wsw) (w_env wsw) (ts_vamm tmp) (ts_trader tmp) (ts_side tmp) = p).
    { unfold get_position. cbn [wsw w_eng set_vamm set_eng tmp ts_vamm ts_trader]. rewrite find_set_tmp, Hfound. reflexivity. }
    assert (Hqa : 0 <= qa /\ ba = sval (p_size p) /\ vc vm' = vc vm).
    { pose proof (swap_output_vc _ _ _ _ _ _ _ Hsw) as Hvc. cbn [fst] in Hvc.
      unfold swap_output in Hsw. minv Hsw. inv_ok.
      match goal with Ho : output_price _ _ _ _ _ = Ok _ |- _ => apply output_price_nonneg in Ho end. auto. }
    destruct Hqa as (Hqa & -> & Hvc).
    assert (Hfo : funding_owed wsw v p = funding_owed w v p).
    { unfold funding_owed. cbn [wsw w_eng set_vamm set_eng]. unfold cumulative_premium_fraction, read_vmap. cbn [e_vmap eng_set_tmp ec]. rewrite E1. reflexivity. }
    pose proof (close_position_reply_leafy _ _ _ _ _ Er) as Hl.
    pose proof (close_position_reply_pulled wsw (sval (p_size p)) qa wb sb tmp Htmp) as Hpull. cbv zeta in Hpull. rewrite Hget in Hpull.
    specialize (Hpull ltac:(apply Hp) Er).
    pose proof (close_position_reply_spec wsw (sval (p_size p)) qa wb sb tmp Htmp) as Hspec. cbv zeta in Hspec. rewrite Hget in Hspec.
    cbn [tmp ts_vamm ts_trader ts_open_notional ts_upnl] in Hspec, Hpull.
    assert (Hec : ec (w_eng wsw) = ec (w_eng w)) by (cbn [wsw w_eng set_vamm set_eng eng_set_tmp ec]; rewrite E1; reflexivity).
    specialize (Hspec Hp).
    assert (Hcw : cpf_wf (w_eng wsw) v).
    { unfold cpf_wf, cumulative_premium_fraction, read_vmap in *. cbn [wsw w_eng set_vamm set_eng e_vmap eng_set_tmp]. rewrite E1. exact Hc. }
    specialize (Hspec Hcw ltac:(rewrite Hec; exact HD) Hqa ltac:(apply Hp) eq_refl ltac:(rewrite Hec; exact Ht4) ltac:(rewrite Hec; exact Ht5) Er).
    rewrite Hfo in Hspec. destruct Hspec as (Heq & Htr & _ & _ & Htok & _).
    assert (Hif : w_if wb = w_if w).
    { assert (Hx : w_if wb = w_if wsw) by (unfold close_position_reply in Er; arm Er; reflexivity). rewrite Hx. cbn [wsw w_if set_vamm set_eng]. exact E4. }
    pose proof (dispatch_leafy_flow _ _ _ _ _ _ _ _ Ed Hl) as [_ Hflow].
    exists vm, vm', qa. split; [unfold get_vamm in *; rewrite E3 in Hvm; exact Hvm|]. split; [exact Hsw|]. cbv zeta. split; [exact Heq|].
    pose proof (close_position_reply_paid wsw (sval (p_size p)) qa wb sb tmp Htmp ltac:(rewrite Hec; exact Ht4) ltac:(rewrite Hec; exact Ht5) Er) as Hpaid.
    cbn [tmp ts_trader] in Hpaid.
    rewrite (Hflow t). rewrite Hif. rewrite flow_split by assumption. rewrite Hpaid, Htr.
    rewrite Htok. cbn [wsw w_tok set_vamm set_eng]. rewrite Hbal0.
    destruct Hpull as [[Hn0 Hpl] | (fm & spread & toll & Hfees & Hpl)].
    + rewrite Hpl. unfold fee_of. rewrite Hn0. rewrite !Z.mul_0_l. unfold Z.div; cbn. destruct (t_native (w_tok w)); lia.
    + rewrite Hpl. apply transfer_fees_spec in Hfees; [|apply Hp].
      destruct Hfees as (v1 & Hv1 & Htoll & Hspread & _).
      assert (v1 = vm') by (unfold get_vamm in Hv1; cbn [wsw w_vamms set_vamm] in Hv1; rewrite zfind_zset_same in Hv1; congruence). subst v1.
      cbn [wsw w_tok set_vamm set_eng]. rewrite E5. unfold fee_of. rewrite Htoll, Hspread, Hvc.
      destruct (t_native (w_tok w)); lia.
Qed.

(* what the fee messages pay to the fee pool, and that they pull from nobody but the payer *)
Lemma paid_fees_pool w from vamm notional msgs spread toll : 0 <= notional ->
  transfer_fees w from vamm notional = Ok (msgs, spread, toll) ->
  e_ifund (ec (w_eng w)) <> e_feepool (ec (w_eng w)) ->
  paid_to (e_feepool (ec (w_eng w))) msgs = toll.
Proof.
  intros Hn H Hd. apply transfer_fees_spec in H; [|exact Hn]. destruct H as (v & _ & _ & _ & ->).
  rewrite paid_to_app. unfold execute_transfer_from.
  destruct (t_native (w_tok w)); destruct (Z.eqb_spec spread 0); destruct (Z.eqb_spec toll 0); cbn [negb paid_to sm_msg];
  rewrite ?Z.eqb_refl; repeat destr_if; zb; subst; try lia; try congruence.
Qed.

Lemma pulled_fees_other w from vamm notional msgs spread toll a : 0 <= notional ->
  transfer_fees w from vamm notional = Ok (msgs, spread, toll) -> a <> from -> pulled_from a msgs = 0.
Proof.
  intros Hn H Ha. apply transfer_fees_spec in H; [|exact Hn]. destruct H as (v & _ & _ & _ & ->).
  rewrite pulled_from_app. unfold execute_transfer_from.
  repeat destr_if; cbn [pulled_from sm_msg]; unfold ind; repeat destr_if; zb; try lia; congruence.
Qed.

(* the pools' side of the same transaction: the fee pool receives exactly the toll fee on the open notional,
   and the insurance fund's balance changes by the spread fee minus whatever it was drawn for the payout *)
Theorem close_position_tx_pool f w t v lim funds w' :
  exec_op f w (OEngine t (EClosePosition v lim) funds) = Ok w' ->
  let p := read_position (w_eng w) v t in
  pos_wf p -> cpf_wf (w_eng w) v -> 0 < e_dec (ec (w_eng w)) ->
  t <> A_ENGINE -> t <> A_IFUND -> t <> if_engine (w_if w) ->
  t <> e_ifund (ec (w_eng w)) -> t <> e_feepool (ec (w_eng w)) ->
  find_position (w_eng w') v t = None ->
  let pool := e_feepool (ec (w_eng w)) in
  pool <> A_ENGINE -> pool <> A_IFUND -> pool <> if_engine (w_if w) -> pool <> e_ifund (ec (w_eng w)) ->
  exists vm, get_vamm w v = Ok vm /\
    bal (w_tok w') pool = bal (w_tok w) pool + fee_of vm (p_notional p) (v_toll (vc vm)).
Proof.
  intros H p Hp Hc HD Ht1 Ht2 Ht3 Ht4 Ht5 Hnone pool Hq1 Hq2 Hq3 Hq4.
  cbn [exec_op] in H. revert H. generalize FUEL. intros fuel H.
  destruct (attach_funds w t A_ENGINE funds) as [w0|] eqn:Ea; [|discriminate]. cbn [bind] in H.
  cbn [engine_execute] in H.
  destruct (e_close_position w0 t v lim) as [[w1 subs]|] eqn:Ec; [|discriminate]. cbn [bind fst snd] in H.
  destruct (dispatch fuel f w1 0 A_ENGINE subs) as [[wf nf]|] eqn:Ed; [|discriminate]. cbn [bind fst] in H. inv_ok.
  pose proof (attach_funds_core _ _ _ _ _ Ea) as [E1 E2].
  assert (E3 : w_vamms w0 = w_vamms w /\ w_if w0 = w_if w /\ t_native (w_tok w0) = t_native (w_tok w)).
  { unfold attach_funds in Ea. destruct (funds =? 0); [inv_ok; auto|]. minv Ea. inv_ok. cbn [w_vamms w_if set_tok w_tok].
    match goal with Hx : tok_move _ _ _ _ = Ok _ |- _ => apply tok_move_total in Hx; destruct Hx as [_ Hx]; rewrite Hx end. auto. }
  destruct E3 as (E3 & E4 & E5).
  assert (Hbal0 : bal (w_tok w0) t = bal (w_tok w) t - funds).
  { unfold attach_funds in Ea. destruct (Z.eqb_spec funds 0) as [->|Hf]; [inv_ok; lia|]. minv Ea. inv_ok. cbn [w_tok set_tok].
    match goal with Hx : tok_move _ _ _ _ = Ok _ |- _ => rewrite (tok_move_bal _ _ _ _ _ t Hx) end.
    unfold ind. rewrite Z.eqb_refl. destruct (Z.eqb_spec t A_ENGINE); [contradiction|]. lia. }
  assert (Hp0 : read_position (w_eng w0) v t = p) by (unfold p; rewrite E1; reflexivity).
  pose proof (close_position_choice _ _ _ _ _ _ Ec) as (vm & over & Hvm & _ & Hnz & Hbranch). cbv zeta in Hbranch.
  rewrite Hp0, E1 in Hbranch. rewrite Hp0 in Hnz.
  assert (Hfound : find_position (w_eng w0) v t = Some p).
  { rewrite <- Hp0. apply read_position_found. rewrite Hp0. exact Hnz. }
  destruct (over && (e_plr (ec (w_eng w)) <? e_dec (ec (w_eng w)))).
  - (* partial close: a position is left, contradicting the hypothesis *)
    exfalso. subst subs.
    apply dispatch_single in Ed; [|reflexivity|reflexivity].
    destruct Ed as (k & wa & ev & wb & sb & _ & Ex & Er & n1 & Ed).
    cbn [swap_output_msg sm_msg sm_id] in Ex, Er.
    apply exec_swap_output in Ex. destruct Ex as (vm1 & vm' & qa & ba & _ & _ & -> & ->).
    unfold contract_reply, engine_reply in Er. rewrite Z.eqb_refl in Er.
    change (PARTIAL_CLOSE_ID =? INCREASE_ID) with false in Er. change (PARTIAL_CLOSE_ID =? DECREASE_ID) with false in Er.
    change (PARTIAL_CLOSE_ID =? REVERSE_ID) with false in Er. change (PARTIAL_CLOSE_ID =? CLOSE_ID) with false in Er.
    change (PARTIAL_CLOSE_ID =? PARTIAL_CLOSE_ID) with true in Er. cbn iota in Er.
    pose proof (partial_close_position_reply_leafy _ _ _ _ _ Er) as Hl.
    assert (Htm : exists tm, e_tmp (w_eng (set_vamm w1 v vm')) = Some tm /\ ts_vamm tm = v /\ ts_trader tm = t).
    { unfold e_close_position in Ec. arm Ec; try discriminate.
      all: eexists; cbn [w_eng set_vamm set_eng e_tmp eng_set_tmp]; split; [reflexivity|split; reflexivity]. }
    destruct Htm as (tm & Htm & Hv & Htt).
    pose proof (partial_close_position_reply_stamps _ _ _ _ _ tm Er Htm) as (p' & Hf' & _). rewrite Hv, Htt in Hf'.
    apply dispatch_leafy_core in Ed; [|exact Hl]. destruct Ed as (Ee & _). rewrite Ee in Hnone. congruence.
  - (* whole close *)
    pose proof (close_position_whole _ _ _ _ _ _ Ec) as Hwh. cbv zeta in Hwh. rewrite Hp0 in Hwh.
    destruct Hwh as (-> & -> & _ & Hpause); [eexists; exact Hbranch|].
    unfold internal_close_position in Ed. cbn [fst snd] in Ed.
    apply dispatch_single in Ed; [|reflexivity|reflexivity].
    destruct Ed as (k & wa & ev & wb & sb & _ & Ex & Er & n1 & Ed).
    cbn [swap_output_msg sm_msg sm_id] in Ex, Er. rewrite dir_side_inv in Ex.
    apply exec_swap_output in Ex. destruct Ex as (vm1 & vm' & qa & ba & Hz1 & Hsw & -> & ->).
    cbn [w_vamms set_eng w_env] in Hz1, Hsw. rewrite E3 in Hz1. rewrite E2 in Hsw.
    assert (vm1 = vm) by (unfold get_vamm in Hvm; rewrite E3, Hz1 in Hvm; congruence). subst vm1.
    unfold contract_reply, engine_reply in Er. rewrite Z.eqb_refl in Er.
    change (CLOSE_ID =? INCREASE_ID) with false in Er. change (CLOSE_ID =? DECREASE_ID) with false in Er.
    change (CLOSE_ID =? REVERSE_ID) with false in Er. change (CLOSE_ID =? CLOSE_ID) with true in Er. cbn iota in Er.
    set (tmp := mkTmp v t (direction_to_side (p_dir p)) (sval (p_size p)) 0 (p_notional p) 0 szero szero false) in *.
    set (wsw := set_vamm (set_eng w0 (eng_set_tmp (w_eng w0) (Some tmp))) v vm') in *.
    assert (Htmp : e_tmp (w_eng wsw) = Some tmp) by reflexivity.
    assert (Hget : get_position (w_eng wsw) (w_env wsw) (ts_vamm tmp) (ts_trader tmp) (ts_side tmp) = p).
    { unfold get_position. cbn [wsw w_eng set_vamm set_eng tmp ts_vamm ts_trader]. rewrite find_set_tmp, Hfound. reflexivity. }
    assert (Hqa : 0 <= qa /\ ba = sval (p_size p) /\ vc vm' = vc vm).
    { pose proof (swap_output_vc _ _ _ _ _ _ _ Hsw) as Hvc. cbn [fst] in Hvc.
      unfold swap_output in Hsw. minv Hsw. inv_ok.
      match goal with Ho : output_price _ _ _ _ _ = Ok _ |- _ => apply output_price_nonneg in Ho end. auto. }
    destruct Hqa as (Hqa & -> & Hvc).
    assert (Hfo : funding_owed wsw v p = funding_owed w v p).
    { unfold funding_owed. cbn [wsw w_eng set_vamm set_eng]. unfold cumulative_premium_fraction, read_vmap. cbn [e_vmap eng_set_tmp ec]. rewrite E1. reflexivity. }
    pose proof (close_position_reply_leafy _ _ _ _ _ Er) as Hl.
    pose proof (close_position_reply_pulled wsw (sval (p_size p)) qa wb sb tmp Htmp) as Hpull. cbv zeta in Hpull. rewrite Hget in Hpull.
    specialize (Hpull ltac:(apply Hp) Er).
    pose proof (close_position_reply_spec wsw (sval (p_size p)) qa wb sb tmp Htmp) as Hspec. cbv zeta in Hspec. rewrite Hget in Hspec.
    cbn [tmp ts_vamm ts_trader ts_open_notional ts_upnl] in Hspec, Hpull.
    assert (Hec : ec (w_eng wsw) = ec (w_eng w)) by (cbn [wsw w_eng set_vamm set_eng eng_set_tmp ec]; rewrite E1; reflexivity).
    specialize (Hspec Hp).
    assert (Hcw : cpf_wf (w_eng wsw) v).
    { unfold cpf_wf, cumulative_premium_fraction, read_vmap in *. cbn [wsw w_eng set_vamm set_eng e_vmap eng_set_tmp]. rewrite E1. exact Hc. }
    specialize (Hspec Hcw ltac:(rewrite Hec; exact HD) Hqa ltac:(apply Hp) eq_refl ltac:(rewrite Hec; exact Ht4) ltac:(rewrite Hec; exact Ht5) Er).
    rewrite Hfo in Hspec. destruct Hspec as (Heq & Htr & _ & _ & Htok & _).
    assert (Hif : w_if wb = w_if w).
    { assert (Hx : w_if wb = w_if wsw) by (unfold close_position_reply in Er; arm Er; reflexivity). rewrite Hx. cbn [wsw w_if set_vamm set_eng]. exact E4. }
    pose proof (dispatch_leafy_flow _ _ _ _ _ _ _ _ Ed Hl) as [_ Hflow].
    exists vm. split; [unfold get_vamm in *; rewrite E3 in Hvm; exact Hvm|].
    rewrite (Hflow pool). rewrite Hif. rewrite flow_split by assumption.
    assert (Hbalp : bal (w_tok w0) pool = bal (w_tok w) pool).
    { unfold attach_funds in Ea. destruct (Z.eqb_spec funds 0) as [->|Hf]; [inv_ok; reflexivity|]. minv Ea. inv_ok. cbn [w_tok set_tok].
      match goal with Hx : tok_move _ _ _ _ = Ok _ |- _ => apply (tok_move_frame _ _ _ _ _ pool Hx) end; [unfold pool; congruence|exact Hq1]. }
    rewrite Htok. cbn [wsw w_tok set_vamm set_eng]. rewrite Hbalp.
    assert (Hpw : pool = e_feepool (ec (w_eng wsw))) by (unfold pool; rewrite Hec; reflexivity).
    assert (Hpt : pool <> t) by (unfold pool; congruence).
    assert (Hpi : e_ifund (ec (w_eng wsw)) <> e_feepool (ec (w_eng wsw))) by (rewrite Hec; unfold pool in Hq4; congruence).
    (* what the reply's messages pay to / pull from the pool *)
    unfold close_position_reply, need_tmp in Er. rewrite Htmp in Er. cbn [bind] in Er.
    cbv zeta in Er. rewrite Hget in Er.
    arm Er.
    all: rewrite ?paid_to_app, ?pulled_from_app.
    all: repeat match goal with
         | Hw : withdraw _ _ _ _ _ = Ok _ |- _ =>
             rewrite (paid_to_withdraw _ _ _ _ _ _ _ pool Hw) by (cbn [tmp ts_trader]; congruence);
             rewrite (pulled_from_withdraw _ _ _ _ _ _ _ pool Hw); clear Hw
         end.
    all: cbn [paid_to pulled_from].
    all: try (zb; match goal with Hz : p_notional _ = 0 |- _ => unfold fee_of; rewrite Hz, Z.mul_0_l; unfold Z.div; cbn; lia end).
    all: match goal with Hf : transfer_fees _ _ _ _ = Ok (?fm, ?sp, ?tl) |- _ =>
           pose proof Hf as Hf2; apply transfer_fees_spec in Hf2; [|apply Hp];
           destruct Hf2 as (v1 & Hv1 & Htoll & _ & _);
           assert (v1 = vm') by (unfold get_vamm in Hv1; cbn [wsw w_vamms set_vamm] in Hv1; rewrite zfind_zset_same in Hv1; congruence); subst v1;
           rewrite (pulled_fees_other _ _ _ _ _ _ _ pool ltac:(apply Hp) Hf) by exact Hpt;
           rewrite Hpw; rewrite (paid_fees_pool _ _ _ _ _ _ _ ltac:(apply Hp) Hf) by exact Hpi;
           unfold fee_of; rewrite Htoll, Hvc; lia
         end.
Qed.
