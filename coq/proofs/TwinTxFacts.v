(* C13, transaction level: twin deployments (same engine, vAMM, fund and ledger state; one on native collateral, one on
   cw20) that both carry out the same transaction end with the same stored position and the same net amounts for the
   caller, when the native call attaches what the cw20 deployment pulls from the caller's wallet. *)
From MP.Model Require Import Prelude U128 SInt Feed Vamm VammOps Token World Engine Runtime.
From MP.Proofs Require Import Tactics MapFacts SIntFacts EngineGuards EngineArith CloseFacts RuntimeFacts LedgerFacts FrameFacts
  ResidueFacts MirrorFacts MirrorReach MoreFacts BandFacts FlowFacts CloseTxFacts LiqTxFacts PartialLiqTxFacts MarginTxFacts.

Definition twin (wc wn : world) : Prop :=
  t_native (w_tok wc) = false /\ t_native (w_tok wn) = true /\
  w_eng wc = w_eng wn /\ w_vamms wc = w_vamms wn /\ w_env wc = w_env wn /\ w_if wc = w_if wn /\
  forall a, bal (w_tok wc) a = bal (w_tok wn) a.

Lemma twin_get_vamm wc wn v : twin wc wn -> get_vamm wn v = get_vamm wc v.
Proof. intros (_ & _ & _ & Hv & _). unfold get_vamm. rewrite Hv. reflexivity. Qed.

Lemma twin_funding_owed wc wn v p : twin wc wn -> funding_owed wn v p = funding_owed wc v p.
Proof. intros (_ & _ & He & _). unfold funding_owed. rewrite He. reflexivity. Qed.

(* DepositMargin: cw20 pulls `amount` from the wallet, the native call attaches it *)
Theorem twin_deposit fc fn wc wn t v amount fundsn wc' wn' :
  twin wc wn ->
  exec_op fc wc (OEngine t (EDepositMargin v amount) 0) = Ok wc' ->
  exec_op fn wn (OEngine t (EDepositMargin v amount) fundsn) = Ok wn' ->
  t <> A_ENGINE -> t <> A_IFUND -> t <> if_engine (w_if wc) ->
  find_position (w_eng wc') v t = find_position (w_eng wn') v t /\
  bal (w_tok wc') t = bal (w_tok wn') t.
Proof.
  intros Htw Hc Hn H1 H2 H3. pose proof Htw as (_ & _ & He & _ & _ & Hif & Hb).
  destruct (deposit_margin_tx _ _ _ _ _ _ _ Hc H1 H2 H3) as (pc & Hfc & Hfc' & _ & Hbc).
  rewrite Hif in H3.
  destruct (deposit_margin_tx _ _ _ _ _ _ _ Hn H1 H2 H3) as (pn & Hfn & Hfn' & _ & Hbn).
  rewrite He in Hfc. rewrite Hfc in Hfn. injection Hfn as <-.
  split; [rewrite Hfc', Hfn'; reflexivity|]. rewrite Hbc, Hbn, Hb. reflexivity.
Qed.

(* WithdrawMargin: nothing is attached or pulled on either side *)
Theorem twin_withdraw fc fn wc wn t v amount wc' wn' :
  twin wc wn ->
  exec_op fc wc (OEngine t (EWithdrawMargin v amount) 0) = Ok wc' ->
  exec_op fn wn (OEngine t (EWithdrawMargin v amount) 0) = Ok wn' ->
  let p := read_position (w_eng wc) v t in
  pos_wf p -> cpf_wf (w_eng wc) v -> 0 < e_dec (ec (w_eng wc)) -> 0 <= amount ->
  t <> A_ENGINE -> t <> A_IFUND -> t <> if_engine (w_if wc) ->
  bal (w_tok wc') t = bal (w_tok wn') t /\
  exists pc pn, find_position (w_eng wc') v t = Some pc /\ find_position (w_eng wn') v t = Some pn /\
    p_margin pc = p_margin pn /\ p_size pc = p_size pn /\ p_notional pc = p_notional pn /\ p_lupf pc = p_lupf pn.
Proof.
  intros Htw Hc Hn p Hp Hcw HD Ha H1 H2 H3. subst p. pose proof Htw as (_ & _ & He & _ & _ & Hif & Hb).
  destruct (withdraw_margin_tx _ _ _ _ _ _ _ Hc Hp Hcw HD Ha H1 H2 H3) as (Hbc & pc & Hfc & Hmc & _ & Hsc & Hnc & Hlc).
  assert (Hn' := Hn). apply withdraw_margin_tx in Hn'; try assumption; try (rewrite <- He; assumption); try (rewrite <- Hif; assumption).
  cbv zeta in Hn'. rewrite <- He in Hn'.
  destruct Hn' as (Hbn & pn & Hfn & Hmn & _ & Hsn & Hnn & Hln).
  rewrite (twin_funding_owed _ _ _ _ Htw) in Hmn.
  split; [rewrite Hbc, Hbn, Hb; reflexivity|].
  exists pc, pn. repeat split; try assumption; congruence.
Qed.

(* ClosePosition of a whole position: the same amount is exchanged on the vAMM and the trader's wallet ends the same
   when the native call attaches the fees the cw20 deployment pulls *)
Theorem twin_close fc fn wc wn t v lim fundsn wc' wn' :
  twin wc wn ->
  exec_op fc wc (OEngine t (EClosePosition v lim) 0) = Ok wc' ->
  exec_op fn wn (OEngine t (EClosePosition v lim) fundsn) = Ok wn' ->
  let p := read_position (w_eng wc) v t in
  pos_wf p -> cpf_wf (w_eng wc) v -> 0 < e_dec (ec (w_eng wc)) ->
  t <> A_ENGINE -> t <> A_IFUND -> t <> if_engine (w_if wc) ->
  t <> e_ifund (ec (w_eng wc)) -> t <> e_feepool (ec (w_eng wc)) ->
  find_position (w_eng wc') v t = None -> find_position (w_eng wn') v t = None ->
  exists vm, get_vamm wc v = Ok vm /\
    bal (w_tok wn') t + fundsn =
    bal (w_tok wc') t + fee_of vm (p_notional p) (v_spread (vc vm)) + fee_of vm (p_notional p) (v_toll (vc vm)).
Proof.
  intros Htw Hc Hn p Hp Hcw HD H1 H2 H3 H4 H5 Hgc Hgn. subst p. pose proof Htw as (Hnc & Hnn & He & _ & Henv & Hif & Hb).
  destruct (close_position_tx_pays _ _ _ _ _ _ _ Hc Hp Hcw HD H1 H2 H3 H4 H5 Hgc) as (vm & vm' & o & Hv & Hs & _ & Hbc).
  assert (Hn' := Hn). apply close_position_tx_pays in Hn'; try assumption; try (rewrite <- He; assumption); try (rewrite <- Hif; assumption).
  cbv zeta in Hn'. rewrite <- He in Hn'.
  destruct Hn' as (vm2 & vm2' & o2 & Hv2 & Hs2 & _ & Hbn).
  rewrite (twin_get_vamm _ _ _ Htw), Hv in Hv2. injection Hv2 as <-.
  rewrite <- Henv, Hs in Hs2. injection Hs2 as <- <-.
  rewrite (twin_funding_owed _ _ _ _ Htw) in Hbn.
  exists vm. split; [exact Hv|]. rewrite Hnc in Hbc. rewrite Hnn in Hbn. rewrite Hbc, Hbn, Hb. lia.
Qed.

(* full liquidation: nothing attached or pulled; the liquidator is paid the same and the liquidated trader nothing *)
Theorem twin_liquidate_full fc fn wc wn s v t lim wc' wn' :
  twin wc wn ->
  exec_op fc wc (OEngine s (ELiquidate v t lim) 0) = Ok wc' ->
  exec_op fn wn (OEngine s (ELiquidate v t lim) 0) = Ok wn' ->
  0 < e_dec (ec (w_eng wc)) -> 0 <= e_liqfee (ec (w_eng wc)) ->
  s <> A_ENGINE -> s <> A_IFUND -> s <> if_engine (w_if wc) -> s <> e_ifund (ec (w_eng wc)) ->
  find_position (w_eng wc') v t = None -> find_position (w_eng wn') v t = None ->
  bal (w_tok wc') s = bal (w_tok wn') s /\
  (t <> s -> t <> A_ENGINE -> t <> A_IFUND -> t <> if_engine (w_if wc) -> t <> e_ifund (ec (w_eng wc)) ->
     bal (w_tok wc') t = bal (w_tok wn') t).
Proof.
  intros Htw Hc Hn HD Hlf H1 H2 H3 H4 Hgc Hgn. pose proof Htw as (_ & _ & He & _ & Henv & Hif & Hb).
  destruct (liquidate_tx_pays _ _ _ _ _ _ _ _ Hc HD Hlf H1 H2 H3 H4 Hgc) as (vm & vm' & o & Hv & Hs & Hbc & Htc).
  assert (Hn' := Hn). apply liquidate_tx_pays in Hn'; try assumption; try (rewrite <- He; assumption); try (rewrite <- Hif; assumption).
  cbv zeta in Hn'. rewrite <- He, <- Hif in Hn'.
  destruct Hn' as (vm2 & vm2' & o2 & Hv2 & Hs2 & Hbn & Htn).
  rewrite (twin_get_vamm _ _ _ Htw), Hv in Hv2. injection Hv2 as <-.
  rewrite <- Henv, Hs in Hs2. injection Hs2 as <- <-.
  split; [rewrite Hbc, Hbn, Hb; reflexivity|].
  intros T1 T2 T3 T4 T5. rewrite (Htc T1 T2 T3 T4 T5), (Htn T1 T2 T3 T4 T5). apply Hb.
Qed.

(* partial liquidation: the same part is closed, the same size and direction are left, the liquidator is paid the same *)
Theorem twin_liquidate_partial fc fn wc wn s v t lim wc' wn' :
  twin wc wn ->
  exec_op fc wc (OEngine s (ELiquidate v t lim) 0) = Ok wc' ->
  exec_op fn wn (OEngine s (ELiquidate v t lim) 0) = Ok wn' ->
  let p := read_position (w_eng wc) v t in let c := ec (w_eng wc) in
  coherent p -> 0 <= e_plr c -> 0 < e_dec c ->
  s <> A_ENGINE -> s <> A_IFUND -> s <> if_engine (w_if wc) -> s <> e_ifund c ->
  (exists p1, find_position (w_eng wc') v t = Some p1) -> (exists p1, find_position (w_eng wn') v t = Some p1) ->
  bal (w_tok wc') s = bal (w_tok wn') s /\
  exists pc pn, find_position (w_eng wc') v t = Some pc /\ find_position (w_eng wn') v t = Some pn /\
    toZ (p_size pc) = toZ (p_size pn) /\ p_dir pc = p_dir pn.
Proof.
  intros Htw Hc Hn p c Hco Hpl HD H1 H2 H3 H4 Hlc Hln. subst p c. pose proof Htw as (_ & _ & He & _ & Henv & Hif & Hb).
  destruct (partial_liquidation_tx _ _ _ _ _ _ _ _ Hc Hco Hpl HD H1 H2 H3 H4 Hlc) as (pc & vm & vm' & o & Hfc & Hv & Hs & Hsz & Hdir & Hbc).
  assert (Hn' := Hn). apply partial_liquidation_tx in Hn'; try assumption; try (rewrite <- He; assumption); try (rewrite <- Hif; rewrite <- ?He; assumption).
  cbv zeta in Hn'. rewrite <- He in Hn'.
  destruct Hn' as (pn & vm2 & vm2' & o2 & Hfn & Hv2 & Hs2 & Hsz2 & Hdir2 & Hbn).
  rewrite (twin_get_vamm _ _ _ Htw), Hv in Hv2. injection Hv2 as <-.
  cbv zeta in Hs, Hs2. rewrite <- Henv, Hs in Hs2. injection Hs2 as <- <-.
  split; [rewrite Hbc, Hbn, Hb; reflexivity|].
  exists pc, pn. repeat split; try assumption; cbv zeta in Hsz, Hsz2; congruence.
Qed.

(* OpenPosition with no position yet: the same quote is swapped for the same base, the same fees reach the insurance fund
   and the fee pool *)
From MP.Proofs Require Import OpenTxFacts.
Theorem twin_open_new fc fn wc wn t v s m l lim fundsn wc' wn' vm :
  twin wc wn ->
  exec_op fc wc (OEngine t (EOpenPosition v s m l lim) 0) = Ok wc' ->
  exec_op fn wn (OEngine t (EOpenPosition v s m l lim) fundsn) = Ok wn' ->
  find_position (w_eng wc) v t = None -> get_vamm wc v = Ok vm -> 0 <= m -> 0 <= l -> 0 < e_dec (ec (w_eng wc)) ->
  wf0 (v_total (vs vm)) ->
  let ifund := e_ifund (ec (w_eng wc)) in let pool := e_feepool (ec (w_eng wc)) in
  ifund <> pool -> ifund <> A_ENGINE -> pool <> A_ENGINE -> t <> ifund -> t <> pool ->
  bal (w_tok wc') ifund = bal (w_tok wn') ifund /\ bal (w_tok wc') pool = bal (w_tok wn') pool /\
  exists pc pn, find_position (w_eng wc') v t = Some pc /\ find_position (w_eng wn') v t = Some pn /\
    toZ (p_size pc) = toZ (p_size pn).
Proof.
  intros Htw Hc Hn Hnone Hv Hm Hl HD Hwt ifund pool D1 D2 D3 D4 D5. subst ifund pool.
  pose proof Htw as (_ & _ & He & _ & Henv & Hif & Hb).
  assert (Hv2 : get_vamm wn v = Ok vm) by (rewrite (twin_get_vamm _ _ _ Htw); exact Hv).
  destruct (open_new_position_tx_fees _ _ _ _ _ _ _ _ _ _ _ Hc Hnone Hv Hm Hl HD D1 D2 D3 D4 D5) as [Hic Hpc].
  destruct (open_new_position_tx_swap _ _ _ _ _ _ _ _ _ _ _ Hc Hnone Hv HD Hwt) as (vm1 & ba & Hs & _ & pc & Hfc & Hsz).
  assert (Hn1 := Hn). apply (open_new_position_tx_fees _ _ _ _ _ _ _ _ _ _ vm) in Hn1; try assumption; try (rewrite <- He; assumption).
  assert (Hn2 := Hn). apply (open_new_position_tx_swap _ _ _ _ _ _ _ _ _ _ vm) in Hn2; try assumption; try (rewrite <- He; assumption).
  cbv zeta in Hn1, Hn2. rewrite <- He in Hn1, Hn2. destruct Hn1 as [Hin Hpn].
  destruct Hn2 as (vm2 & ba2 & Hs2 & _ & pn & Hfn & Hsz2).
  cbv zeta in Hs. rewrite <- Henv, Hs in Hs2. injection Hs2 as <- <-.
  split; [rewrite Hic, Hin, Hb; reflexivity|]. split; [rewrite Hpc, Hpn, Hb; reflexivity|].
  exists pc, pn. repeat split; try assumption. congruence.
Qed.

(* OpenPosition on any path (existing position included): both deployments pay the fee pool the same toll *)
From MP.Proofs Require Import FeeFlowFacts.
Theorem twin_open_pool fc fn wc wn t v s m l lim fundsn wc' wn' vm :
  twin wc wn ->
  exec_op fc wc (OEngine t (EOpenPosition v s m l lim) 0) = Ok wc' ->
  exec_op fn wn (OEngine t (EOpenPosition v s m l lim) fundsn) = Ok wn' ->
  get_vamm wc v = Ok vm -> 0 <= m -> 0 <= l -> 0 < e_dec (ec (w_eng wc)) ->
  let pool := e_feepool (ec (w_eng wc)) in
  pool <> A_ENGINE -> pool <> A_IFUND -> pool <> if_engine (w_if wc) -> e_ifund (ec (w_eng wc)) <> pool -> t <> pool ->
  bal (w_tok wc') pool = bal (w_tok wn') pool.
Proof.
  intros Htw Hc Hn Hv Hm Hl HD pool P1 P2 P3 P4 P5. subst pool. pose proof Htw as (_ & _ & He & _ & _ & Hif & Hb).
  rewrite (open_position_tx_toll _ _ _ _ _ _ _ _ _ _ _ Hc Hv Hm Hl HD P1 P2 P3 P4 P5).
  assert (Hv2 : get_vamm wn v = Ok vm) by (rewrite (twin_get_vamm _ _ _ Htw); exact Hv).
  rewrite He, Hif in *.
  rewrite (open_position_tx_toll _ _ _ _ _ _ _ _ _ _ _ Hn Hv2 Hm Hl HD P1 P2 P3 P4 P5).
  rewrite Hb. reflexivity.
Qed.
