(* C03, second clause: an engine transaction changes the balance of no account other than its sender, the
   engine, the insurance fund and the fee pool. *)
From MP.Model Require Import Prelude U128 SInt Feed Vamm VammOps Token World Engine Runtime.
From MP.Proofs Require Import Tactics MapFacts SIntFacts EngineGuards CloseFacts RuntimeFacts LedgerFacts FrameFacts ResidueFacts
  MirrorFacts MirrorReach MoreFacts BandFacts FlowFacts RestrictFacts.

(* an invariant I and a predicate Q on messages: if executing a Q-message keeps I, and every handler that
   emits messages keeps I and emits only Q-messages, then dispatching a list of Q-messages keeps I *)
Lemma dispatch_inv2 (I : world -> Prop) (Q : submsg -> Prop) (S : addr -> Prop) :
  S A_IFUND ->
  (forall w sender s w' ev, S sender -> Q s -> exec_simple w sender (sm_msg s) = Ok (w', ev) -> I w -> I w') ->
  (forall w sender amt w' subs, if_withdraw w sender amt = Ok (w', subs) -> I w -> I w' /\ Forall Q subs) ->
  (forall w sender s r w' subs, Q s -> contract_reply w sender (sm_id s) r = Ok (w', subs) ->
     (forall ev, r = Ok ev -> wants_ok (sm_reply s) = true) -> I w -> I w' /\ Forall Q subs) ->
  forall fuel f w n sender subs w' n',
    dispatch fuel f w n sender subs = Ok (w', n') -> S sender -> I w -> Forall Q subs -> I w'.
Proof.
  intros HSI Hs Hi Hr. induction fuel as [|k IH]; intros f w n sender subs w' n' H Ssnd Pw HQ; [discriminate|].
  cbn [dispatch] in H. destruct subs as [|s rest]; [inv_ok; exact Pw|].
  inversion HQ as [|? ? Qs Qrest]; subst.
  destruct (n =? f).
  - destruct (wants_err (sm_reply s)); [|discriminate].
    minv H. destruct x as [w1 s1], x0 as [w2 n2]. cbn [fst snd] in *.
    edestruct (Hr _ _ _ _ _ _ Qs Hx) as [P1 Q1]; [intros ? Heq; first [discriminate Heq | exact Ewo] | exact Pw | ].
    eapply IH; [exact H|exact Ssnd| |exact Qrest]. eapply IH; [exact Hx0|exact Ssnd|exact P1|exact Q1].
  - destruct (sm_msg s) eqn:Em;
    try (destruct (exec_simple w sender _) as [[w1 ev]|e] eqn:Ex; cbn [bind fst snd] in H;
         [ assert (P1 : I w1) by (eapply Hs; [exact Ssnd|exact Qs|rewrite Em; exact Ex|exact Pw]);
           destruct (wants_ok (sm_reply s)) eqn:Ewo;
           [ minv H; destruct x as [w2 s2], x0 as [w3 n3]; cbn [fst snd] in *;
             edestruct (Hr _ _ _ _ _ _ Qs Hx) as [P2 Q2]; [intros ? Heq; exact Ewo | exact P1 | ];
             eapply IH; [exact H|exact Ssnd| |exact Qrest]; eapply IH; [exact Hx0|exact Ssnd|exact P2|exact Q2]
           | eapply IH; [exact H|exact Ssnd|exact P1|exact Qrest] ]
         | destruct (wants_err (sm_reply s)); [|discriminate];
           minv H; destruct x as [w2 s2], x0 as [w3 n3]; cbn [fst snd] in *;
           edestruct (Hr _ _ _ _ _ _ Qs Hx) as [P2 Q2]; [intros ? Heq; first [discriminate Heq | exact Ewo] | exact Pw | ];
           eapply IH; [exact H|exact Ssnd| |exact Qrest]; eapply IH; [exact Hx0|exact Ssnd|exact P2|exact Q2] ]).
    (* MIfWithdraw *)
    destruct (target =? A_IFUND); cbn [bind] in H.
    + destruct (if_withdraw w sender amt) as [[w1 s1]|e] eqn:Ew; cbn [bind fst snd] in H.
      * destruct (Hi _ _ _ _ _ Ew Pw) as [P1 Q1].
        destruct (dispatch k f w1 (n + 1) A_IFUND s1) as [[w2 n2]|e] eqn:Ed; cbn [bind fst snd] in H.
        -- assert (P2 : I w2) by (eapply IH; [exact Ed|exact HSI|exact P1|exact Q1]).
           destruct (wants_ok (sm_reply s)) eqn:Ewo.
           ++ minv H. destruct x as [w3 s3], x0 as [w4 n4]. cbn [fst snd] in *.
              edestruct (Hr _ _ _ _ _ _ Qs Hx) as [P3 Q3]; [intros ? Heq; exact Ewo | exact P2 | ].
              eapply IH; [exact H|exact Ssnd| |exact Qrest]. eapply IH; [exact Hx0|exact Ssnd|exact P3|exact Q3].
           ++ eapply IH; [exact H|exact Ssnd|exact P2|exact Qrest].
        -- destruct (wants_err (sm_reply s)); [|discriminate].
           minv H. destruct x as [w3 s3], x0 as [w4 n4]. cbn [fst snd] in *.
           edestruct (Hr _ _ _ _ _ _ Qs Hx) as [P3 Q3]; [intros ? Heq; first [discriminate Heq | exact Ewo] | exact Pw | ].
           eapply IH; [exact H|exact Ssnd| |exact Qrest]. eapply IH; [exact Hx0|exact Ssnd|exact P3|exact Q3].
      * destruct (wants_err (sm_reply s)); [|discriminate].
        minv H. destruct x as [w3 s3], x0 as [w4 n4]. cbn [fst snd] in *.
        edestruct (Hr _ _ _ _ _ _ Qs Hx) as [P3 Q3]; [intros ? Heq; first [discriminate Heq | exact Ewo] | exact Pw | ].
        eapply IH; [exact H|exact Ssnd| |exact Qrest]. eapply IH; [exact Hx0|exact Ssnd|exact P3|exact Q3].
    + destruct (wants_err (sm_reply s)); [|discriminate].
      minv H. destruct x as [w3 s3], x0 as [w4 n4]. cbn [fst snd] in *.
      edestruct (Hr _ _ _ _ _ _ Qs Hx) as [P3 Q3]; [intros ? Heq; first [discriminate Heq | exact Ewo] | exact Pw | ].
      eapply IH; [exact H|exact Ssnd| |exact Qrest]. eapply IH; [exact Hx0|exact Ssnd|exact P3|exact Q3].
Qed.

(* ---------- messages that do not touch account a ---------- *)
Definition avoids (a : addr) (s : submsg) : Prop :=
  match sm_msg s with
  | MTransfer to _ => to <> a
  | MTransferFrom owner to _ => owner <> a /\ to <> a
  | _ => True
  end.

Lemma avoids_transfer a r x : r <> a -> avoids a (execute_transfer r x).
Proof. intros H. exact H. Qed.
Lemma avoids_transfer_from a w o r x : o <> a -> r <> a -> avoids a (execute_transfer_from w o r x).
Proof. intros H1 H2. unfold execute_transfer_from, avoids. destruct (t_native (w_tok w)); cbn [sm_msg]; auto. Qed.
Lemma avoids_ifw a w x : avoids a (execute_insurance_fund_withdrawal w x).
Proof. exact Logic.I. Qed.
Lemma avoids_to_if a w x : e_ifund (ec (w_eng w)) <> a -> avoids a (execute_transfer_to_insurance_fund w x).
Proof. intros H. exact H. Qed.

Lemma avoids_withdraw a w st r amt pre st' msgs : withdraw w st r amt pre = Ok (st', msgs) -> r <> a -> Forall (avoids a) msgs.
Proof.
  intros H Hr. apply withdraw_spec in H. destruct H as (sf & [ (E & _) | (E & _) ]); subst msgs; repeat constructor; exact Hr.
Qed.
Lemma avoids_fees a w from v n msgs sp tl : transfer_fees w from v n = Ok (msgs, sp, tl) ->
  from <> a -> e_ifund (ec (w_eng w)) <> a -> e_feepool (ec (w_eng w)) <> a -> Forall (avoids a) msgs.
Proof.
  intros H H1 H2 H3. unfold transfer_fees in H. minv H. inv_ok.
  apply Forall_app. split; destr_if; repeat constructor; apply avoids_transfer_from; assumption.
Qed.
Lemma avoids_realize a w st bd msgs st' pp : realize_bad_debt w st bd = Ok (msgs, st', pp) -> Forall (avoids a) msgs.
Proof. unfold realize_bad_debt. intros H. minv H; inv_ok; repeat constructor. Qed.

Ltac avoid_goal :=
  repeat first
  [ apply Forall_nil
  | apply Forall_app; split
  | match goal with
    | Hw : withdraw _ _ _ _ _ = Ok (_, ?m) |- Forall (avoids _) ?m => apply (avoids_withdraw _ _ _ _ _ _ _ _ Hw); assumption
    | Hf : transfer_fees _ _ _ _ = Ok (?m, _, _) |- Forall (avoids _) ?m => apply (avoids_fees _ _ _ _ _ _ _ _ Hf); assumption
    | Hr : realize_bad_debt _ _ _ = Ok (?m, _, _) |- Forall (avoids _) ?m => exact (avoids_realize _ _ _ _ _ _ _ Hr)
    | |- Forall _ (if ?c then _ else _) => destruct c
    | |- Forall _ (fst _) => cbn [fst]
    | |- Forall _ (snd _) => cbn [snd]
    end
  | match goal with
    | |- Forall _ (?s :: _) =>
        apply Forall_cons;
        [ lazymatch s with
          | execute_transfer _ _ => apply avoids_transfer; assumption
          | execute_transfer_from _ _ _ _ => apply avoids_transfer_from; assumption
          | execute_insurance_fund_withdrawal _ _ => exact Logic.I
          | execute_transfer_to_insurance_fund _ _ => apply avoids_to_if; assumption
          | _ => exact Logic.I
          end | ]
    end
  ].

(* ---------- the engine-state side of "a is not a party" ---------- *)
(* liq = true: a liquidation is in flight; the record of the trade then names the liquidated trader, who is
   paid nothing by the liquidation arms, so nothing is required of it *)
Definition outsider (liq : bool) (a : addr) (w : world) : Prop :=
  e_ifund (ec (w_eng w)) <> a /\ e_feepool (ec (w_eng w)) <> a /\ if_engine (w_if w) <> a /\
  (liq = false -> forall tm, e_tmp (w_eng w) = Some tm -> ts_trader tm <> a) /\
  (forall l, e_liq (w_eng w) = Some l -> l <> a).

Definition qmsg (liq : bool) (a : addr) (s : submsg) : Prop :=
  avoids a s /\ (liq = true -> wants_ok (sm_reply s) = true -> sm_id s = LIQUIDATION_ID \/ sm_id s = PARTIAL_LIQUIDATION_ID).

Lemma qmsg_leaf liq a s : avoids a s -> wants_ok (sm_reply s) = false -> qmsg liq a s.
Proof. intros H1 H2. split; [exact H1|]. intros _ H3. rewrite H2 in H3. discriminate. Qed.

Lemma Forall_qmsg_leafy liq a msgs : Forall (avoids a) msgs -> Forall leafy msgs -> Forall (qmsg liq a) msgs.
Proof.
  intros H1 H2. induction msgs as [|s rest IH]; [constructor|].
  inversion H1; inversion H2; subst. constructor; [apply qmsg_leaf; [assumption|]|auto].
  match goal with Hl : leafy s |- _ => destruct Hl as [Hl _]; exact Hl end.
Qed.

Ltac out_goal :=
  unfold outsider;
  cbn [w_eng set_eng set_vamm w_if ec e_tmp e_liq eng_set_state eng_set_tmp eng_set_sent eng_set_liq eng_set_vmap
       store_position remove_position enter_restriction_mode];
  repeat split; try assumption; try (intros; discriminate);
  try (intros; match goal with Hq : Some _ = Some _ |- _ => injection Hq as <- end; cbn; auto).

(* every reply arm, on a state where a is an outsider, emits only messages that avoid a and leaves a an outsider *)
Lemma update_position_reply_out a w i o id w' subs :
  update_position_reply w i o id = Ok (w', subs) -> outsider false a w -> A_ENGINE <> a ->
  outsider false a w' /\ Forall (avoids a) subs.
Proof.
  intros H (Hi & Hp & Hie & Ht & Hl) Hen. unfold update_position_reply in H.
  destruct (e_tmp (w_eng w)) as [tm|] eqn:Etmp; [|unfold need_tmp in H; rewrite Etmp in H; discriminate].
  pose proof (Ht eq_refl tm eq_refl) as Htr.
  unfold need_tmp in H. rewrite Etmp in H. cbn [bind] in H. arm H.
  all: split; [out_goal | avoid_goal].
Qed.

Lemma reverse_position_reply_out a w i o w' subs :
  reverse_position_reply w i o = Ok (w', subs) -> outsider false a w -> A_ENGINE <> a ->
  outsider false a w' /\ Forall (avoids a) subs.
Proof.
  intros H (Hi & Hp & Hie & Ht & Hl) Hen. unfold reverse_position_reply in H.
  destruct (e_tmp (w_eng w)) as [tm|] eqn:Etmp; [|unfold need_tmp in H; rewrite Etmp in H; discriminate].
  pose proof (Ht eq_refl tm eq_refl) as Htr.
  unfold need_tmp in H. rewrite Etmp in H. cbn [bind] in H. arm H.
  all: split; [out_goal | avoid_goal].
Qed.

Lemma close_position_reply_out a w i o w' subs :
  close_position_reply w i o = Ok (w', subs) -> outsider false a w -> A_ENGINE <> a ->
  outsider false a w' /\ Forall (avoids a) subs.
Proof.
  intros H (Hi & Hp & Hie & Ht & Hl) Hen. unfold close_position_reply in H.
  destruct (e_tmp (w_eng w)) as [tm|] eqn:Etmp; [|unfold need_tmp in H; rewrite Etmp in H; discriminate].
  pose proof (Ht eq_refl tm eq_refl) as Htr.
  unfold need_tmp in H. rewrite Etmp in H. cbn [bind] in H. arm H.
  all: split; [out_goal | avoid_goal].
Qed.

Lemma partial_close_position_reply_out a w i o w' subs :
  partial_close_position_reply w i o = Ok (w', subs) -> outsider false a w -> A_ENGINE <> a ->
  outsider false a w' /\ Forall (avoids a) subs.
Proof.
  intros H (Hi & Hp & Hie & Ht & Hl) Hen. unfold partial_close_position_reply in H.
  destruct (e_tmp (w_eng w)) as [tm|] eqn:Etmp; [|unfold need_tmp in H; rewrite Etmp in H; discriminate].
  pose proof (Ht eq_refl tm eq_refl) as Htr.
  unfold need_tmp in H. rewrite Etmp in H. cbn [bind] in H. arm H.
  all: split; [out_goal | avoid_goal].
Qed.

Lemma liquidate_reply_out liq a w i o w' subs :
  liquidate_reply w i o = Ok (w', subs) -> outsider liq a w -> A_ENGINE <> a ->
  outsider liq a w' /\ Forall (avoids a) subs.
Proof.
  intros H (Hi & Hp & Hie & Ht & Hl) Hen. unfold liquidate_reply in H.
  destruct (e_liq (w_eng w)) as [lq|] eqn:Eliq; [|unfold need_liq in H; rewrite Eliq in H; minv H; discriminate].
  pose proof (Hl lq eq_refl) as Hlq.
  unfold need_liq in H. rewrite Eliq in H. arm H.
  all: split; [out_goal | avoid_goal].
Qed.

Lemma partial_liquidation_reply_out liq a w i o w' subs :
  partial_liquidation_reply w i o = Ok (w', subs) -> outsider liq a w -> A_ENGINE <> a ->
  outsider liq a w' /\ Forall (avoids a) subs.
Proof.
  intros H (Hi & Hp & Hie & Ht & Hl) Hen. unfold partial_liquidation_reply in H.
  destruct (e_liq (w_eng w)) as [lq|] eqn:Eliq; [|unfold need_liq in H; rewrite Eliq in H; minv H; discriminate].
  pose proof (Hl lq eq_refl) as Hlq.
  unfold need_liq in H. rewrite Eliq in H. arm H.
  all: split; [out_goal | avoid_goal].
Qed.

Lemma pay_funding_reply_out liq a w pf v w' subs :
  pay_funding_reply w pf v = Ok (w', subs) -> outsider liq a w ->
  outsider liq a w' /\ Forall (avoids a) subs.
Proof.
  intros H (Hi & Hp & Hie & Ht & Hl). unfold pay_funding_reply, append_cumulative_premium_fraction in H. arm H.
  all: split; [out_goal | avoid_goal].
Qed.

(* ---------- the invariant through the message tree ---------- *)
Definition iout (liq : bool) (a : addr) (B : Z) (w : world) : Prop := bal (w_tok w) a = B /\ outsider liq a w.
Definition esender (a s : addr) : Prop := (s = A_ENGINE \/ s = A_IFUND) /\ s <> a.

Lemma exec_simple_if w s m w' ev : exec_simple w s m = Ok (w', ev) -> w_if w' = w_if w.
Proof. unfold exec_simple. intros H. destruct m; minv H; inv_ok; reflexivity. Qed.

Lemma iout_exec liq a B w sender s w' ev :
  esender a sender -> qmsg liq a s -> exec_simple w sender (sm_msg s) = Ok (w', ev) -> iout liq a B w -> iout liq a B w'.
Proof.
  intros [_ Hsa] [Hav _] Hex [Hb Ho]. split.
  - rewrite <- Hb. unfold avoids in Hav. unfold exec_simple in Hex. destruct (sm_msg s); minv Hex; inv_ok; cbn [w_tok set_vamm set_tok]; try reflexivity.
    + match goal with Hx : tok_move _ _ _ _ = Ok _ |- _ => apply (tok_move_frame _ _ _ _ _ a Hx); congruence end.
    + destruct Hav. match goal with Hx : tok_move_from _ _ _ _ _ = Ok _ |- _ => apply (tok_move_from_frame _ _ _ _ _ _ a Hx); congruence end.
  - unfold outsider in *. rewrite (exec_simple_eng _ _ _ _ _ Hex), (exec_simple_if _ _ _ _ _ Hex). exact Ho.
Qed.

Lemma iout_ifw liq a B w sender amt w' subs :
  if_withdraw w sender amt = Ok (w', subs) -> iout liq a B w -> iout liq a B w' /\ Forall (qmsg liq a) subs.
Proof.
  intros H [Hb Ho]. unfold if_withdraw in H. minv H. inv_ok. split; [split; [reflexivity|assumption]|].
  constructor; [|constructor]. apply qmsg_leaf; [|reflexivity]. destruct Ho as (_ & _ & Hie & _). exact Hie.
Qed.

Lemma iout_reply liq a B w sender s r w' subs :
  A_ENGINE <> a -> qmsg liq a s -> contract_reply w sender (sm_id s) r = Ok (w', subs) ->
  (forall ev, r = Ok ev -> wants_ok (sm_reply s) = true) ->
  iout liq a B w -> iout liq a B w' /\ Forall (qmsg liq a) subs.
Proof.
  intros Hen [_ Hq] H Hwo [Hb Ho].
  pose proof (contract_reply_tok _ _ _ _ _ _ H) as Htok.
  unfold contract_reply, engine_reply in H.
  destruct (sender =? A_ENGINE); [|discriminate].
  destruct r as [ev|]; [|discriminate]. specialize (Hwo ev eq_refl).
  assert (Hmode : liq = true -> sm_id s = LIQUIDATION_ID \/ sm_id s = PARTIAL_LIQUIDATION_ID) by (intros Hl; exact (Hq Hl Hwo)).
  assert (Hfin : forall subs0 w0, outsider liq a w0 /\ Forall (avoids a) subs0 -> Forall leafy subs0 \/ True -> True) by (intros; exact Logic.I). clear Hfin.
  destruct ev; try discriminate.
  - destruct (Z.eqb_spec (sm_id s) INCREASE_ID) as [E|_].
    { destruct liq; [destruct (Hmode eq_refl) as [E2|E2]; rewrite E in E2; discriminate E2|].
      pose proof (update_position_reply_leafy _ _ _ _ _ _ H) as Hl.
      destruct (update_position_reply_out a _ _ _ _ _ _ H Ho Hen) as [Ho' Hav]. split; [split; [rewrite Htok; exact Hb|exact Ho']|apply Forall_qmsg_leafy; assumption]. }
    destruct (Z.eqb_spec (sm_id s) DECREASE_ID) as [E|_].
    { destruct liq; [destruct (Hmode eq_refl) as [E2|E2]; rewrite E in E2; discriminate E2|].
      pose proof (update_position_reply_leafy _ _ _ _ _ _ H) as Hl.
      destruct (update_position_reply_out a _ _ _ _ _ _ H Ho Hen) as [Ho' Hav]. split; [split; [rewrite Htok; exact Hb|exact Ho']|apply Forall_qmsg_leafy; assumption]. }
    destruct (Z.eqb_spec (sm_id s) REVERSE_ID) as [E|_].
    { destruct liq; [destruct (Hmode eq_refl) as [E2|E2]; rewrite E in E2; discriminate E2|].
      destruct (reverse_position_reply_out a _ _ _ _ _ H Ho Hen) as [Ho' Hav]. split; [split; [rewrite Htok; exact Hb|exact Ho']|].
      clear -Hav. induction Hav as [|x l Hx Hl IH]; constructor; [split; [exact Hx|intros Hc; discriminate Hc]|exact IH]. }
    destruct (Z.eqb_spec (sm_id s) CLOSE_ID) as [E|_].
    { destruct liq; [destruct (Hmode eq_refl) as [E2|E2]; rewrite E in E2; discriminate E2|].
      pose proof (close_position_reply_leafy _ _ _ _ _ H) as Hl.
      destruct (close_position_reply_out a _ _ _ _ _ H Ho Hen) as [Ho' Hav]. split; [split; [rewrite Htok; exact Hb|exact Ho']|apply Forall_qmsg_leafy; assumption]. }
    destruct (Z.eqb_spec (sm_id s) PARTIAL_CLOSE_ID) as [E|_].
    { destruct liq; [destruct (Hmode eq_refl) as [E2|E2]; rewrite E in E2; discriminate E2|].
      pose proof (partial_close_position_reply_leafy _ _ _ _ _ H) as Hl.
      destruct (partial_close_position_reply_out a _ _ _ _ _ H Ho Hen) as [Ho' Hav]. split; [split; [rewrite Htok; exact Hb|exact Ho']|apply Forall_qmsg_leafy; assumption]. }
    destruct (Z.eqb_spec (sm_id s) LIQUIDATION_ID) as [E|_].
    { pose proof (liquidate_reply_leafy _ _ _ _ _ H) as Hl.
      destruct (liquidate_reply_out liq a _ _ _ _ _ H Ho Hen) as [Ho' Hav]. split; [split; [rewrite Htok; exact Hb|exact Ho']|apply Forall_qmsg_leafy; assumption]. }
    destruct (Z.eqb_spec (sm_id s) PARTIAL_LIQUIDATION_ID) as [E|_]; [|discriminate].
    { pose proof (partial_liquidation_reply_leafy _ _ _ _ _ H) as Hl.
      destruct (partial_liquidation_reply_out liq a _ _ _ _ _ H Ho Hen) as [Ho' Hav]. split; [split; [rewrite Htok; exact Hb|exact Ho']|apply Forall_qmsg_leafy; assumption]. }
  - destruct (Z.eqb_spec (sm_id s) PAY_FUNDING_ID) as [E|_]; [|discriminate].
    destruct liq; [destruct (Hmode eq_refl) as [E2|E2]; rewrite E in E2; discriminate E2|].
    pose proof (pay_funding_reply_leafy _ _ _ _ _ H) as Hl.
    destruct (pay_funding_reply_out false a _ _ _ _ _ H Ho) as [Ho' Hav]. split; [split; [rewrite Htok; exact Hb|exact Ho']|apply Forall_qmsg_leafy; assumption].
Qed.

Lemma dispatch_iout liq a B fuel f w n subs w' n' :
  dispatch fuel f w n A_ENGINE subs = Ok (w', n') -> A_ENGINE <> a -> A_IFUND <> a ->
  iout liq a B w -> Forall (qmsg liq a) subs -> iout liq a B w'.
Proof.
  intros H He Hi Hio Hq.
  eapply (dispatch_inv2 (iout liq a B) (qmsg liq a) (esender a)); try exact H; try exact Hio; try exact Hq.
  - split; [right; reflexivity|exact Hi].
  - intros w0 s0 m0 w1 ev Hs0 Hq0 Hx Hi0. eapply iout_exec; eauto.
  - intros w0 s0 amt w1 sb Hx Hi0. eapply iout_ifw; eauto.
  - intros w0 s0 m0 r w1 sb Hq0 Hx Hwo Hi0. eapply iout_reply; eauto.
  - split; [left; reflexivity|exact He].
Qed.

(* ---------- the execute arms ---------- *)
Definition is_liquidate (m : emsg) : bool := match m with ELiquidate _ _ _ => true | _ => false end.

Lemma engine_execute_out a w s m funds w1 subs :
  engine_execute w s m funds = Ok (w1, subs) ->
  e_tmp (w_eng w) = None -> e_liq (w_eng w) = None ->
  s <> a -> A_ENGINE <> a -> if_engine (w_if w) <> a -> e_ifund (ec (w_eng w)) <> a -> e_feepool (ec (w_eng w)) <> a ->
  w_tok w1 = w_tok w /\
  (subs = [] \/ (outsider (is_liquidate m) a w1 /\ Forall (qmsg (is_liquidate m) a) subs)).
Proof.
  intros H Htmp Hliq Hs He Hie Hif Hfp. unfold engine_execute in H. destruct m; cbn [is_liquidate].
  - unfold e_update_config in H. arm H; split; auto.
  - unfold e_update_pauser in H. arm H; split; auto.
  - unfold e_add_whitelist in H. arm H; split; auto.
  - unfold e_remove_whitelist in H. arm H; split; auto.
  - (* open *)
    unfold e_open_position in H. arm H. split; [reflexivity|]. right. split.
    + unfold outsider. cbn [w_eng set_eng w_if ec e_tmp e_liq eng_set_tmp eng_set_sent].
      repeat split; try assumption; intros; try congruence.
      match goal with Hq : Some _ = Some _ |- _ => injection Hq as <- end. cbn. assumption.
    + constructor; [|constructor]. split; [|intros Hc; discriminate Hc].
      repeat match goal with |- context [if ?c then _ else _] => destruct c end; exact Logic.I.
  - (* close *)
    unfold e_close_position, internal_close_position in H. arm H.
    all: split; [reflexivity|]; right; split;
      [ unfold outsider; cbn [w_eng set_eng w_if ec e_tmp e_liq eng_set_tmp eng_set_sent];
        repeat split; try assumption; intros; try congruence;
        match goal with Hq : Some _ = Some _ |- _ => injection Hq as <- end; cbn; assumption
      | constructor; [|constructor]; split; [exact Logic.I|intros Hc; discriminate Hc] ].
  - (* liquidate *)
    unfold e_liquidate, partial_liquidation, internal_close_position in H. arm H.
    all: split; [reflexivity|]; right; split;
      [ unfold outsider; cbn [w_eng set_eng w_if ec e_tmp e_liq eng_set_tmp eng_set_sent eng_set_liq];
        repeat split; try assumption; intros; try congruence; try discriminate
      | constructor; [|constructor]; split; [exact Logic.I|intros _ _; cbn [sm_id swap_output_msg]; auto] ].
  - (* pay funding *)
    unfold e_pay_funding in H. arm H. split; [reflexivity|]. right. split.
    + unfold outsider. rewrite Htmp, Hliq. repeat split; try assumption; intros; discriminate.
    + constructor; [|constructor]. split; [exact Logic.I|intros Hc; discriminate Hc].
  - (* deposit *)
    unfold e_deposit_margin in H. arm H.
    all: split; [reflexivity|]; right; split;
      [ unfold outsider; cbn [w_eng set_eng w_if ec e_tmp e_liq store_position];
        repeat split; try assumption; intros; congruence
      | first [ apply Forall_nil
              | apply Forall_cons; [apply qmsg_leaf; [apply avoids_transfer_from; assumption
                                                     |unfold execute_transfer_from; destruct (t_native _); reflexivity]
                                   |apply Forall_nil] ] ].
  - (* withdraw *)
    unfold e_withdraw_margin in H. arm H.
    all: split; [reflexivity|]; right; split;
      [ unfold outsider; cbn [w_eng set_eng w_if ec e_tmp e_liq store_position eng_set_state];
        repeat split; try assumption; intros; congruence
      | match goal with Hw : withdraw _ _ _ _ _ = Ok (_, ?m) |- _ =>
          apply Forall_qmsg_leafy; [apply (avoids_withdraw _ _ _ _ _ _ _ _ Hw); assumption | exact (leafy_withdraw _ _ _ _ _ _ _ Hw)] end ].
  - unfold e_set_pause in H. arm H; split; auto.
Qed.

Theorem engine_tx_parties f w s m funds w' a :
  exec_op f w (OEngine s m funds) = Ok w' ->
  e_tmp (w_eng w) = None -> e_liq (w_eng w) = None ->
  a <> s -> a <> A_ENGINE -> a <> A_IFUND -> a <> if_engine (w_if w) ->
  a <> e_ifund (ec (w_eng w)) -> a <> e_feepool (ec (w_eng w)) ->
  bal (w_tok w') a = bal (w_tok w) a.
Proof.
  intros H Htmp Hliq Hs He Hi Hie Hif Hfp.
  cbn [exec_op] in H. revert H. generalize FUEL. intros fuel H.
  destruct (attach_funds w s A_ENGINE funds) as [w0|] eqn:Ea; [|discriminate]. cbn [bind] in H.
  destruct (engine_execute w0 s m funds) as [[w1 subs]|] eqn:Ee; [|discriminate]. cbn [bind fst snd] in H.
  destruct (dispatch fuel f w1 0 A_ENGINE subs) as [[wf nf]|] eqn:Ed; [|discriminate]. cbn [bind fst] in H. inv_ok.
  pose proof (attach_funds_core _ _ _ _ _ Ea) as [E1 E2].
  assert (E4 : w_if w0 = w_if w) by (unfold attach_funds in Ea; destruct (funds =? 0); [inv_ok; auto|]; minv Ea; inv_ok; auto).
  assert (Hbal0 : bal (w_tok w0) a = bal (w_tok w) a).
  { unfold attach_funds in Ea. destruct (Z.eqb_spec funds 0) as [->|Hf]; [inv_ok; reflexivity|]. minv Ea. inv_ok. cbn [w_tok set_tok].
    match goal with Hx : tok_move _ _ _ _ = Ok _ |- _ => apply (tok_move_frame _ _ _ _ _ a Hx); auto end. }
  destruct (engine_execute_out a _ _ _ _ _ _ Ee) as [Htok Hcase]; try (rewrite ?E1, ?E4; auto; congruence).
  destruct Hcase as [-> | [Ho Hq]].
  - destruct fuel as [|k]; [discriminate|]. cbn [dispatch] in Ed. inv_ok. rewrite Htok. exact Hbal0.
  - assert (Hio : iout (is_liquidate m) a (bal (w_tok w) a) w1) by (split; [rewrite Htok; exact Hbal0|exact Ho]).
    assert (Ha1 : A_ENGINE <> a) by (intros Hc; apply He; symmetry; exact Hc).
    assert (Ha2 : A_IFUND <> a) by (intros Hc; apply Hi; symmetry; exact Hc).
    destruct (dispatch_iout _ _ _ _ _ _ _ _ _ _ Ed Ha1 Ha2 Hio Hq) as [Hb _]. exact Hb.
Qed.
