(* C14: the insurance fund's registry holds no duplicates and at most three vAMMs in every reachable state, the
   membership query is the registry; an emergency shutdown leaves every registered vAMM closed. *)
From MP.Model Require Import Prelude U128 SInt Feed Vamm VammOps Token World Engine Runtime.
From MP.Proofs Require Import Tactics MapFacts RuntimeFacts PartiesFacts FeeFlowFacts.

Definition reg_ok (w : world) : Prop :=
  NoDup (if_vamms (w_if w)) /\ (length (if_vamms (w_if w)) <= 3)%nat.

(* ---------- swap_remove ---------- *)
Lemma zmem_In a l : zmem a l = true <-> In a l.
Proof.
  unfold zmem. rewrite existsb_exists. split.
  - intros (x & Hx & E). apply Z.eqb_eq in E. subst. exact Hx.
  - intros H. exists a. split; [exact H|apply Z.eqb_refl].
Qed.

Lemma swap_remove_In a l x : In x (swap_remove a l) -> In x l.
Proof.
  induction l as [|y t IH]; cbn [swap_remove]; [auto|].
  destruct (Z.eqb_spec y a) as [->|Hne].
  - destruct (rev t) as [|lst rt] eqn:Er; [intros []|].
    intros H. right. apply in_rev. rewrite Er. destruct H as [<-|H]; [left; reflexivity|right; apply in_rev in H; exact H].
  - intros [<-|H]; [left; reflexivity|right; auto].
Qed.

Lemma swap_remove_length a l : (length (swap_remove a l) <= length l)%nat.
Proof.
  induction l as [|y t IH]; cbn [swap_remove length]; [lia|].
  destruct (y =? a).
  - destruct (rev t) as [|lst rt] eqn:Er; cbn [length]; [lia|].
    rewrite rev_length. assert (length (rev t) = length t) by apply rev_length. rewrite Er in H. cbn [length] in H. lia.
  - cbn [length]. lia.
Qed.

Lemma swap_remove_NoDup a l : NoDup l -> NoDup (swap_remove a l).
Proof.
  induction 1 as [|y t Hy Ht IH]; cbn [swap_remove]; [constructor|].
  destruct (Z.eqb_spec y a) as [->|Hne].
  - destruct (rev t) as [|lst rt] eqn:Er; [constructor|].
    pose proof (NoDup_rev Ht) as Hr. rewrite Er in Hr. inversion Hr as [|? ? Hl Hrt]; subst.
    constructor; [intros H; apply in_rev in H; contradiction|exact (NoDup_rev Hrt)].
  - constructor; [intros H; apply swap_remove_In in H; contradiction|exact IH].
Qed.

(* ---------- the registry through operations ---------- *)
From MP.Proofs Require Import LedgerFacts ResidueFacts MoreFacts.

Lemma dispatch_if fuel f w n sender subs w' n' : dispatch fuel f w n sender subs = Ok (w', n') -> w_if w' = w_if w.
Proof.
  intros H. apply (dispatch_inv (fun w0 => w_if w0 = w_if w)) with (1 := fun w0 s0 m w1 ev Hx Hq => eq_trans (exec_simple_if _ _ _ _ _ Hx) Hq)
    (4 := H); [| |reflexivity].
  - intros w0 s0 amt w1 sb Hx Hq. apply if_withdraw_tok in Hx. subst. exact Hq.
  - intros w0 s0 id r w1 sb Hx Hq. rewrite (contract_reply_if _ _ _ _ _ _ Hx). exact Hq.
Qed.

Lemma engine_execute_if w s m funds w1 subs : engine_execute w s m funds = Ok (w1, subs) -> w_if w1 = w_if w.
Proof.
  unfold engine_execute. intros H. destruct m.
  - unfold e_update_config in H. arm H; reflexivity.
  - unfold e_update_pauser in H. arm H; reflexivity.
  - unfold e_add_whitelist in H. arm H; reflexivity.
  - unfold e_remove_whitelist in H. arm H; reflexivity.
  - unfold e_open_position in H. arm H; reflexivity.
  - unfold e_close_position, internal_close_position in H. arm H; reflexivity.
  - unfold e_liquidate, partial_liquidation, internal_close_position in H. arm H; reflexivity.
  - unfold e_pay_funding in H. arm H; reflexivity.
  - unfold e_deposit_margin in H. arm H; reflexivity.
  - unfold e_withdraw_margin in H. arm H; reflexivity.
  - unfold e_set_pause in H. arm H; reflexivity.
Qed.

Lemma reg_ok_same w w' : w_if w' = w_if w -> reg_ok w -> reg_ok w'.
Proof. intros E H. unfold reg_ok. rewrite E. exact H. Qed.

Lemma exec_op_reg f w o w' : exec_op f w o = Ok w' -> reg_ok w -> reg_ok w'.
Proof.
  intros H Hr. destruct o; cbn [exec_op] in H; revert H; generalize FUEL; intros fuel H.
  - inv_ok. exact Hr.
  - inv_bind H. inv_bind H. inv_bind H. inv_ok. destruct x0 as [w1 subs], x1 as [w2 n2]. cbn [fst snd] in *.
    apply (reg_ok_same w); [|exact Hr].
    rewrite (dispatch_if _ _ _ _ _ _ _ _ Hx1), (engine_execute_if _ _ _ _ _ _ Hx0).
    unfold attach_funds in Hx. destruct (funds =? 0); [inv_ok; reflexivity|]. minv Hx. inv_ok. reflexivity.
  - unfold get_vamm in H. destruct (zfind v (w_vamms w)) as [vm|]; [|discriminate]. cbn [bind] in H.
    inv_bind H. inv_ok. exact Hr.
  - inv_bind H. inv_bind H. inv_ok. destruct x as [w1 subs], x0 as [w2 n2]. cbn [fst snd] in *.
    apply (reg_ok_same w1); [exact (dispatch_if _ _ _ _ _ _ _ _ Hx0)|].
    destruct Hr as [Hnd Hlen].
    destruct m; [unfold if_update_owner in Hx|unfold if_add_vamm in Hx|unfold if_remove_vamm in Hx|unfold if_withdraw in Hx|unfold if_shutdown in Hx];
    minv Hx; inv_ok; unfold reg_ok; cbn [w_if set_if if_vamms]; try (split; assumption).
    + (* add: not a member, fewer than three *)
      zb. split.
      * apply NoDup_rev in Hnd. rewrite <- (rev_involutive (if_vamms (w_if w) ++ [v])). apply NoDup_rev. rewrite rev_app_distr. cbn [rev app].
        constructor; [|exact Hnd]. intros Hin. apply in_rev in Hin.
        match goal with Hm : zmem v _ = false |- _ => rewrite (proj2 (zmem_In v _) Hin) in Hm; discriminate end.
      * rewrite app_length. cbn [length]. lia.
    + split; [apply swap_remove_NoDup; exact Hnd|]. pose proof (swap_remove_length v (if_vamms (w_if w))). lia.
  - inv_bind H. inv_bind H. inv_ok. destruct x as [w1 subs], x0 as [w2 n2]. cbn [fst snd] in *.
    apply (reg_ok_same w); [|exact Hr]. rewrite (dispatch_if _ _ _ _ _ _ _ _ Hx0).
    destruct m; [unfold fp_update_owner in Hx|unfold fp_add_token in Hx|unfold fp_remove_token in Hx|unfold fp_send_token in Hx];
    minv Hx; inv_ok; reflexivity.
  - destruct m; minv H; inv_ok; exact Hr.
  - minv H; inv_ok; exact Hr.
Qed.

Lemma step_reg f w o : reg_ok w -> reg_ok (fst (step_f f w o)).
Proof. intros Hr. unfold step_f. destruct (exec_op f w o) eqn:E; cbn [fst]; [eapply exec_op_reg; eauto|exact Hr]. Qed.

Theorem run_reg ops : forall w, reg_ok w -> reg_ok (run w ops).
Proof.
  induction ops as [|o rest IH]; intros w Hr; [exact Hr|]. cbn [run fold_left]. apply IH. apply step_reg. exact Hr.
Qed.

Lemma init_world_reg e d w : init_world e d = Ok w -> reg_ok w.
Proof.
  unfold init_world. intros H. minv H. minv_all. inv_ok. unfold reg_ok. cbn [w_if if_vamms length]. split; [constructor|lia].
Qed.

(* the membership query is the registry *)
Lemma query_is_vamm_registry w v b : query_is_vamm w A_IFUND v = Ok b -> (b = true <-> In v (if_vamms (w_if w))).
Proof. unfold query_is_vamm. intros H. minv H. inv_ok. apply zmem_In. Qed.

(* ---------- emergency shutdown ---------- *)
Definition closed_at (w : world) (v : addr) : Prop := exists vm, get_vamm w v = Ok vm /\ v_open (vs vm) = false.

Lemma set_open_false_closed vm e s vm' : set_open vm e s false = Ok vm' -> v_open (vs vm') = false.
Proof. unfold set_open. intros H. minv H. inv_ok. reflexivity. Qed.

Lemma closed_at_set_vamm w v vm' u : v_open (vs vm') = false -> closed_at w u -> closed_at (set_vamm w v vm') u.
Proof.
  intros Hc (vm & Hg & Ho). unfold closed_at, get_vamm. cbn [w_vamms set_vamm].
  destruct (Z.eq_dec u v) as [->|Hne].
  - rewrite zfind_zset_same. eauto.
  - rewrite zfind_zset_other by exact Hne. unfold get_vamm in Hg. exists vm. split; [exact Hg|exact Ho].
Qed.

Definition close_msg (v : addr) : submsg := mkSub (MSetOpen v false) 0 RNever.

Lemma dispatch_close_all l : forall fuel f w n w' n',
  dispatch fuel f w n A_IFUND (map close_msg l) = Ok (w', n') ->
  (forall v, In v l -> closed_at w' v) /\ (forall u, closed_at w u -> closed_at w' u) /\ w_if w' = w_if w.
Proof.
  induction l as [|v rest IH]; intros fuel f w n w' n' H.
  - destruct fuel as [|k]; [discriminate|]. cbn [map dispatch] in H. inv_ok. split; [intros v []|split; [auto|reflexivity]].
  - destruct fuel as [|k]; [discriminate|]. cbn [map dispatch] in H. unfold close_msg at 1 in H. cbn [sm_msg sm_reply sm_id wants_ok wants_err] in H.
    destruct (n =? f); [discriminate|].
    cbn [exec_simple] in H.
    destruct (get_vamm w v) as [vm|] eqn:Eg; [|discriminate]. cbn [bind] in H.
    destruct (set_open vm (w_env w) A_IFUND false) as [vm'|] eqn:Es; [|discriminate]. cbn [bind fst snd] in H.
    pose proof (set_open_false_closed _ _ _ _ Es) as Hc.
    destruct (IH _ _ _ _ _ _ H) as (H1 & H2 & H3).
    split; [|split].
    + intros u [<-|Hin]; [|exact (H1 u Hin)].
      apply H2. unfold closed_at, get_vamm. cbn [w_vamms set_vamm]. rewrite zfind_zset_same. eauto.
    + intros u Hu. apply H2. apply closed_at_set_vamm; assumption.
    + rewrite H3. reflexivity.
Qed.

Lemma vamms_open_spec w l opens : vamms_open w l = Ok opens ->
  forall v, In v l -> In v opens \/ closed_at w v.
Proof.
  revert opens. induction l as [|x rest IH]; intros opens H v Hin; [destruct Hin|].
  cbn [vamms_open] in H. destruct (get_vamm w x) as [vm|] eqn:Eg; [|discriminate]. cbn [bind] in H.
  destruct (vamms_open w rest) as [r|] eqn:Er; [|discriminate]. cbn [bind] in H. inv_ok.
  destruct Hin as [<-|Hin].
  - destruct (v_open (vs vm)) eqn:Eo; [left; left; reflexivity|right; exists vm; auto].
  - destruct (IH r eq_refl v Hin) as [Hi|Hc]; [|right; exact Hc].
    left. destruct (v_open (vs vm)); [right; exact Hi|exact Hi].
Qed.

Lemma firstn_all_le {A} (l : list A) n : (length l <= n)%nat -> firstn n l = l.
Proof. intros H. apply firstn_all2. exact H. Qed.

(* END TO END: a successful ShutdownVamms leaves every registered vAMM closed, whatever state each was in *)
Theorem shutdown_tx_closes_all f w s w' :
  exec_op f w (OIfund s IShutdown) = Ok w' -> reg_ok w ->
  forall v, In v (if_vamms (w_if w)) -> closed_at w' v.
Proof.
  intros H [_ Hlen] v Hin.
  cbn [exec_op] in H. revert H. generalize FUEL. intros fuel H.
  destruct (if_shutdown w s) as [[w1 subs]|] eqn:Es; [|discriminate]. cbn [bind fst snd] in H.
  destruct (dispatch fuel f w1 0 A_IFUND subs) as [[w2 n2]|] eqn:Ed; [|discriminate]. cbn [bind fst] in H. inv_ok.
  unfold if_shutdown in Es. minv Es. inv_ok.
  rewrite (firstn_all_le _ 3 Hlen) in *.
  match goal with Hv : vamms_open _ _ = Ok ?o |- _ => pose proof (vamms_open_spec _ _ _ Hv v Hin) as Hcase end.
  change (map (fun v0 : addr => mkSub (MSetOpen v0 false) 0 RNever) x) with (map close_msg x) in Ed.
  destruct (dispatch_close_all _ _ _ _ _ _ _ Ed) as (H1 & H2 & _).
  destruct Hcase as [Hi|Hc]; [exact (H1 v Hi)|exact (H2 v Hc)].
Qed.

(* and only the fund's owner (or the fund itself) can trigger it *)
Theorem shutdown_tx_only_owner f w s w' :
  exec_op f w (OIfund s IShutdown) = Ok w' -> is_admin (if_owner (w_if w)) s = true \/ s = A_IFUND.
Proof.
  intros H. cbn [exec_op] in H. destruct (if_shutdown w s) as [[w1 subs]|] eqn:Es; [|discriminate].
  unfold if_shutdown in Es. minv Es. zb.
  match goal with Hb : (_ || _) = true |- _ => apply orb_true_iff in Hb; destruct Hb as [Hb|Hb]; [left; exact Hb|right; zb; assumption] end.
Qed.

(* ---------- a closed vAMM: no close and no liquidation goes through (transaction level) ---------- *)
From MP.Proofs Require Import EngineGuards VammFacts MirrorFacts FlowFacts.

Theorem closed_vamm_close_tx f w t v lim funds vm :
  get_vamm w v = Ok vm -> v_open (vs vm) = false ->
  step_f f w (OEngine t (EClosePosition v lim) funds) = (w, false).
Proof.
  intros Hv Hc. unfold step_f.
  destruct (exec_op f w (OEngine t (EClosePosition v lim) funds)) as [w'|e] eqn:E; [|reflexivity]. exfalso.
  cbn [exec_op] in E. revert E. generalize FUEL. intros fuel H.
  destruct (attach_funds w t A_ENGINE funds) as [w0|] eqn:Ea; [|discriminate]. cbn [bind] in H.
  cbn [engine_execute] in H.
  destruct (e_close_position w0 t v lim) as [[w1 subs]|] eqn:Ec; [|discriminate]. cbn [bind fst snd] in H.
  destruct (dispatch fuel f w1 0 A_ENGINE subs) as [[wf nf]|] eqn:Ed; [|discriminate].
  assert (E3 : w_vamms w0 = w_vamms w) by (unfold attach_funds in Ea; destruct (funds =? 0); [inv_ok; auto|]; minv Ea; inv_ok; auto).
  assert (E4 : w_vamms w1 = w_vamms w0).
  { unfold e_close_position, internal_close_position in Ec. arm Ec; reflexivity. }
  destruct (close_position_choice _ _ _ _ _ _ Ec) as (vm0 & over & _ & _ & _ & Hsub). cbv zeta in Hsub.
  assert (Hm : exists d b l id, subs = [mkSub (MSwapOutput v d b l) id RAlways]).
  { destruct (over && _); subst subs; unfold swap_output_msg; do 4 eexists; reflexivity. }
  destruct Hm as (d & b & l & id & ->).
  apply dispatch_single in Ed; [|reflexivity|reflexivity].
  destruct Ed as (k & wa & ev & wb & sb & _ & Ex & _).
  cbn [sm_msg] in Ex. apply exec_swap_output in Ex. destruct Ex as (vmx & vm' & qa & ba & Hz & Hsw & _ & _).
  rewrite E4, E3 in Hz. unfold get_vamm in Hv. rewrite Hz in Hv. injection Hv as ->.
  rewrite (swap_output_closed _ _ _ _ _ _ Hc) in Hsw. discriminate.
Qed.

Theorem closed_vamm_liquidate_tx f w s v t lim funds vm :
  get_vamm w v = Ok vm -> v_open (vs vm) = false ->
  step_f f w (OEngine s (ELiquidate v t lim) funds) = (w, false).
Proof.
  intros Hv Hc. unfold step_f.
  destruct (exec_op f w (OEngine s (ELiquidate v t lim) funds)) as [w'|e] eqn:E; [|reflexivity]. exfalso.
  cbn [exec_op] in E. revert E. generalize FUEL. intros fuel H.
  destruct (attach_funds w s A_ENGINE funds) as [w0|] eqn:Ea; [|discriminate]. cbn [bind] in H.
  cbn [engine_execute] in H.
  destruct (e_liquidate w0 s v t lim) as [[w1 subs]|] eqn:Ec; [|discriminate].
  assert (E3 : w_vamms w0 = w_vamms w) by (unfold attach_funds in Ea; destruct (funds =? 0); [inv_ok; auto|]; minv Ea; inv_ok; auto).
  apply liquidate_requires_vamm in Ec. apply require_vamm_ok in Ec. destruct Ec as (_ & _ & vm0 & Hg & Ho).
  unfold get_vamm in Hg, Hv. cbn [w_vamms set_eng] in Hg. rewrite E3 in Hg.
  destruct (zfind v (w_vamms w)); [|discriminate]. inv_ok. congruence.
Qed.
