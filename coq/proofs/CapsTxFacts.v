(* C20, caps, end to end for the opening / increasing route: after a successful OpenPosition by a trader who is not
   whitelisted, the engine's open interest is at or below a non-zero cap and the trader's size at or below a non-zero
   holding cap. *)
From MP.Model Require Import Prelude U128 SInt Feed Vamm VammOps Token World Engine Runtime.
From MP.Proofs Require Import Tactics MapFacts SIntFacts ConfigFacts CloseFacts EngineGuards RuntimeFacts LedgerFacts FrameFacts
  ResidueFacts MirrorFacts MirrorReach MoreFacts FlowFacts LimitTxFacts.

Lemma withdraw_oi w st r a p st' msgs : withdraw w st r a p = Ok (st', msgs) -> e_oi st' = e_oi st.
Proof. intros H. apply withdraw_spec in H. destruct H as (sf & [(_ & _ & ->) | (_ & _ & _ & _ & Ho & _)]); auto. Qed.

Lemma increase_reply_caps w i o w' subs tm vm :
  update_position_reply w i o INCREASE_ID = Ok (w', subs) -> e_tmp (w_eng w) = Some tm ->
  get_vamm w (ts_vamm tm) = Ok vm -> is_whitelisted w (ts_trader tm) = false -> 0 <= i -> 0 <= e_oi (es (w_eng w)) ->
  (0 < v_oi_cap (vc vm) -> e_oi (es (w_eng w')) <= v_oi_cap (vc vm)) /\
  (v_hold_cap (vc vm) <> 0 ->
     exists p', find_position (w_eng w') (ts_vamm tm) (ts_trader tm) = Some p' /\ sval (p_size p') <= v_hold_cap (vc vm)).
Proof.
  intros H Htmp Hv Hwl Hi Hoi. unfold update_position_reply, need_tmp in H. rewrite Htmp in H. cbn [bind] in H.
  rewrite Z.eqb_refl in H.
  destruct (need_sent w) as [funds|]; [|discriminate]. cbn [bind] in H. cbv zeta in H.
  destruct (update_open_interest_notional w (es (w_eng w)) (ts_vamm tm) (spos i) (ts_trader tm)) as [st1|] eqn:Eo; [|discriminate]. cbn [bind] in H.
  destruct (update_oi_cap _ _ _ _ _ _ (spos_wf0 _ Hi) Hoi Eo) as (vm1 & Hv1 & Hcap & Hnn).
  rewrite Hv in Hv1. injection Hv1 as <-.
  assert (Hpos : s_is_positive (spos i) = true) by (unfold s_is_positive, s_is_negative; cbn [sneg spos]; reflexivity).
  arm H.
  all: match goal with Hh : check_base_asset_holding_cap ?w1 _ ?sz _ = Ok _ |- _ =>
         destruct (holding_cap _ _ _ _ _ Hh) as (vm2 & Hv2 & Hhold);
         assert (vm2 = vm) by (unfold get_vamm in *; cbn [w_vamms set_eng] in Hv2; rewrite Hv in Hv2; congruence); subst vm2 end.
  all: cbn [w_eng set_eng es eng_set_sent eng_set_tmp eng_set_state].
  all: split; [intros Hc; repeat match goal with Hw : withdraw _ _ _ _ _ = Ok _ |- _ => apply withdraw_oi in Hw; cbn [fst] in Hw; rewrite ?Hw end;
               exact (Hcap Hc Hpos Hwl)
              | intros Hc; eexists; split; [rewrite ?find_set_state, ?find_set_sent, ?find_set_tmp; apply find_store_same|]; cbn [p_size];
                apply Hhold; [exact Hc|exact Hwl] ].
Qed.

Theorem open_increase_tx_caps f w t v s m l lim funds w' vm :
  exec_op f w (OEngine t (EOpenPosition v s m l lim) funds) = Ok w' ->
  get_vamm w v = Ok vm ->
  is_increase_of (get_position (w_eng w) (w_env w) v t s) s = true ->
  is_whitelisted w t = false -> 0 <= e_oi (es (w_eng w)) -> 0 <= m -> 0 <= l -> 0 < e_dec (ec (w_eng w)) ->
  (0 < v_oi_cap (vc vm) -> e_oi (es (w_eng w')) <= v_oi_cap (vc vm)) /\
  (v_hold_cap (vc vm) <> 0 -> exists p', find_position (w_eng w') v t = Some p' /\ sval (p_size p') <= v_hold_cap (vc vm)).
Proof.
  intros H Hvm Hinc Hwl Hoi Hm Hl HD.
  cbn [exec_op] in H. revert H. generalize FUEL. intros fuel H.
  destruct (attach_funds w t A_ENGINE funds) as [w0|] eqn:Ea; [|discriminate]. cbn [bind] in H.
  cbn [engine_execute] in H.
  destruct (e_open_position w0 t v s m l lim funds) as [[w1 subs]|] eqn:Eo; [|discriminate]. cbn [bind fst snd] in H.
  destruct (dispatch fuel f w1 0 A_ENGINE subs) as [[wf nf]|] eqn:Ed; [|discriminate]. cbn [bind fst] in H. inv_ok.
  pose proof (attach_funds_core _ _ _ _ _ Ea) as [E1 E2].
  assert (E3 : w_vamms w0 = w_vamms w) by (unfold attach_funds in Ea; destruct (funds =? 0); [inv_ok; auto|]; minv Ea; inv_ok; auto).
  destruct (open_position_msg _ _ _ _ _ _ _ _ _ _ Eo) as (pn0 & upnl0 & _ & -> & Hvs & Henv).
  rewrite E1, E2, Hinc in Ed.
  destruct (open_position_tmp _ _ _ _ _ _ _ _ _ _ Eo) as (tm & Htmp & T1 & T2 & _).
  assert (Hes : es (w_eng w1) = es (w_eng w0) /\ e_wl (w_eng w1) = e_wl (w_eng w0))
    by (unfold e_open_position in Eo; arm Eo; split; reflexivity).
  destruct Hes as [Hes Hwl1].
  apply dispatch_single in Ed; [|reflexivity|reflexivity].
  destruct Ed as (k & wa & ev & wb & sb & _ & Ex & Er & n1 & Ed).
  cbn [internal_increase_position swap_input_msg sm_msg sm_id] in Ex, Er.
  apply exec_swap_input in Ex. destruct Ex as (vm0 & vm' & qa & ba & Hz & Hsw & -> & ->).
  assert (vm0 = vm) by (unfold get_vamm in Hvm; rewrite Hvs, E3 in Hz; rewrite Hz in Hvm; congruence). subst vm0.
  assert (Er' : update_position_reply (set_vamm w1 v vm') qa ba INCREASE_ID = Ok (wb, sb)) by exact Er.
  pose proof (swap_input_vc _ _ _ _ _ _ _ _ Hsw) as Hvc. cbn [fst] in Hvc.
  assert (Hqa : 0 <= qa).
  { assert (Hq : qa = m * l / e_dec (ec (w_eng w))) by (unfold swap_input in Hsw; minv Hsw; inv_ok; reflexivity).
    rewrite Hq. apply Z.div_pos; nia. }
  destruct (increase_reply_caps (set_vamm w1 v vm') qa ba wb sb tm vm' Er' Htmp) as [Hc1 Hc2].
  - rewrite T1. unfold get_vamm. cbn [w_vamms set_vamm]. rewrite zfind_zset_same. reflexivity.
  - rewrite T2. unfold is_whitelisted in *. cbn [w_eng set_vamm]. rewrite Hwl1, E1. exact Hwl.
  - exact Hqa.
  - cbn [w_eng set_vamm]. rewrite Hes, E1. exact Hoi.
  - pose proof (update_position_reply_leafy _ _ _ _ _ _ Er') as Hlf.
    pose proof (dispatch_leafy_core _ _ _ _ _ _ _ _ Ed Hlf) as (Ee & _).
    rewrite Ee. rewrite Hvc in Hc1, Hc2. rewrite T1, T2 in Hc2. split; assumption.
Qed.
