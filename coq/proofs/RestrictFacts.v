(* C16 end to end: a successful Liquidate transaction leaves the vAMM's restriction marker at the current
   height; a successful OpenPosition transaction leaves the sender's stored position stamped with it. *)
From MP.Model Require Import Prelude U128 SInt Feed Vamm VammOps Token World Engine Runtime.
From MP.Proofs Require Import Tactics MapFacts SIntFacts VammFacts SwapFacts EngineGuards RuntimeFacts FrameFacts
  ResidueFacts MirrorFacts MoreFacts BandFacts PendingFacts.

(* ---------- the block environment is constant through a message tree ---------- *)
Lemma update_position_reply_env w i o id w' subs : update_position_reply w i o id = Ok (w', subs) -> w_env w' = w_env w.
Proof. unfold update_position_reply. intros H. arm H; reflexivity. Qed.
Lemma reverse_position_reply_env w i o w' subs : reverse_position_reply w i o = Ok (w', subs) -> w_env w' = w_env w.
Proof. unfold reverse_position_reply. intros H. arm H; reflexivity. Qed.
Lemma close_position_reply_env w i o w' subs : close_position_reply w i o = Ok (w', subs) -> w_env w' = w_env w.
Proof. unfold close_position_reply. intros H. arm H; reflexivity. Qed.
Lemma partial_close_position_reply_env w i o w' subs : partial_close_position_reply w i o = Ok (w', subs) -> w_env w' = w_env w.
Proof. unfold partial_close_position_reply. intros H. arm H; reflexivity. Qed.
Lemma liquidate_reply_env w i o w' msgs : liquidate_reply w i o = Ok (w', msgs) -> w_env w' = w_env w.
Proof. unfold liquidate_reply. intros H. arm H; reflexivity. Qed.
Lemma partial_liquidation_reply_env w i o w' msgs : partial_liquidation_reply w i o = Ok (w', msgs) -> w_env w' = w_env w.
Proof. unfold partial_liquidation_reply. intros H. arm H; reflexivity. Qed.
Lemma pay_funding_reply_env w pf a w' subs : pay_funding_reply w pf a = Ok (w', subs) -> w_env w' = w_env w.
Proof. unfold pay_funding_reply, append_cumulative_premium_fraction. intros H. arm H; reflexivity. Qed.

Lemma contract_reply_env w c id r w' subs : contract_reply w c id r = Ok (w', subs) -> w_env w' = w_env w.
Proof.
  unfold contract_reply, engine_reply. intros H.
  destruct (c =? A_ENGINE); [|discriminate].
  destruct r as [ev|]; [|discriminate]. destruct ev; try discriminate.
  - repeat (destr_if_in H; [eauto using update_position_reply_env, reverse_position_reply_env, close_position_reply_env,
      partial_close_position_reply_env, liquidate_reply_env, partial_liquidation_reply_env|]). discriminate.
  - destr_if_in H; [|discriminate]. eauto using pay_funding_reply_env.
Qed.

Lemma exec_simple_env w s m w' ev : exec_simple w s m = Ok (w', ev) -> w_env w' = w_env w.
Proof. unfold exec_simple. intros H. destruct m; minv H; inv_ok; reflexivity. Qed.

Lemma dispatch_env fuel f w n sender subs w' n' : dispatch fuel f w n sender subs = Ok (w', n') -> w_env w' = w_env w.
Proof.
  intros H. apply (dispatch_inv (fun x => w_env x = w_env w)) in H; [exact H| | | |reflexivity].
  - intros w0 s0 m w1 ev Hx E. rewrite (exec_simple_env _ _ _ _ _ Hx). exact E.
  - intros w0 s0 amt w1 sb Hx E. unfold if_withdraw in Hx. minv Hx. inv_ok. exact E.
  - intros w0 s0 id r w1 sb Hx E. rewrite (contract_reply_env _ _ _ _ _ _ Hx). exact E.
Qed.

(* ---------- Liquidate sets the marker ---------- *)
Definition marked (v0 : addr) (w : world) : Prop := vm_lrb (read_vmap (w_eng w) v0) = height (w_env w).

Lemma marked_core v0 : core_closed (marked v0).
Proof. intros w w1 (E1 & _ & E3) H. unfold marked in *. rewrite E1, E3. exact H. Qed.

Definition pendl (v0 : addr) (w : world) (m : msg) (id : Z) : Prop :=
  exists tm, e_tmp (w_eng w) = Some tm /\ ts_vamm tm = v0 /\
    (id = LIQUIDATION_ID \/ id = PARTIAL_LIQUIDATION_ID) /\ exists d b l, m = MSwapOutput v0 d b l.

Lemma pendl_core v0 : core_closed_p (pendl v0).
Proof. intros w w1 m id (E1 & _) H. unfold pendl in *. rewrite E1. exact H. Qed.

Lemma pendl_swap v0 w m id : pendl v0 w m id -> is_swap m = true.
Proof. intros (tm & _ & _ & _ & d & b & l & ->). reflexivity. Qed.

Lemma pair_marked v0 w m id w1 ev w2 subs :
  pendl v0 w m id -> exec_simple w A_ENGINE m = Ok (w1, ev) ->
  contract_reply w1 A_ENGINE id (Ok ev) = Ok (w2, subs) -> readyg (marked v0) (pendl v0) w2 subs.
Proof.
  intros (tm & Htmp & Hv & Hid & d & b & l & ->) Hex Hre.
  unfold contract_reply, engine_reply in Hre. rewrite Z.eqb_refl in Hre.
  apply exec_swap_output in Hex. destruct Hex as (vm & vm' & qa & ba & Hz & Hsw & -> & ->).
  destruct Hid as [-> | ->].
  - change (LIQUIDATION_ID =? INCREASE_ID) with false in Hre. change (LIQUIDATION_ID =? DECREASE_ID) with false in Hre.
    change (LIQUIDATION_ID =? REVERSE_ID) with false in Hre. change (LIQUIDATION_ID =? CLOSE_ID) with false in Hre.
    change (LIQUIDATION_ID =? PARTIAL_CLOSE_ID) with false in Hre. change (LIQUIDATION_ID =? LIQUIDATION_ID) with true in Hre. cbn iota in Hre.
    pose proof (liquidate_reply_leafy _ _ _ _ _ Hre) as Hl. apply readyg_leafy; [exact Hl|].
    pose proof (liquidate_reply_env _ _ _ _ _ Hre) as He.
    eapply liquidate_reply_marks in Hre; [|cbn [w_eng set_vamm]; exact Htmp].
    destruct Hre as (Hm & _). unfold marked. rewrite He. rewrite Hv in Hm. exact Hm.
  - change (PARTIAL_LIQUIDATION_ID =? INCREASE_ID) with false in Hre. change (PARTIAL_LIQUIDATION_ID =? DECREASE_ID) with false in Hre.
    change (PARTIAL_LIQUIDATION_ID =? REVERSE_ID) with false in Hre. change (PARTIAL_LIQUIDATION_ID =? CLOSE_ID) with false in Hre.
    change (PARTIAL_LIQUIDATION_ID =? PARTIAL_CLOSE_ID) with false in Hre. change (PARTIAL_LIQUIDATION_ID =? LIQUIDATION_ID) with false in Hre.
    change (PARTIAL_LIQUIDATION_ID =? PARTIAL_LIQUIDATION_ID) with true in Hre. cbn iota in Hre.
    pose proof (partial_liquidation_reply_leafy _ _ _ _ _ Hre) as Hl. apply readyg_leafy; [exact Hl|].
    pose proof (partial_liquidation_reply_env _ _ _ _ _ Hre) as He.
    eapply partial_liquidation_reply_marks in Hre; [|cbn [w_eng set_vamm]; exact Htmp].
    destruct Hre as (Hm & _). unfold marked. rewrite He. rewrite Hv in Hm. exact Hm.
Qed.

Lemma liquidate_readyl w s v t lim w1 subs :
  e_liquidate w s v t lim = Ok (w1, subs) -> readyg (marked v) (pendl v) w1 subs.
Proof.
  unfold e_liquidate, partial_liquidation, internal_close_position. intros H. arm H.
  all: cbn [readyg swap_output_msg sm_reply wants_ok sm_msg sm_id].
  all: split; [reflexivity|split; [reflexivity|]].
  all: eexists; cbn [w_eng set_eng e_tmp eng_set_tmp eng_set_liq]; split; [reflexivity|]; cbn [ts_vamm]; split; [reflexivity|].
  all: split; [first [left; reflexivity | right; reflexivity]|]; do 3 eexists; reflexivity.
Qed.

Lemma liquidate_env w s v t lim w1 subs : e_liquidate w s v t lim = Ok (w1, subs) -> w_env w1 = w_env w.
Proof. unfold e_liquidate, partial_liquidation, internal_close_position. intros H. arm H; reflexivity. Qed.

Theorem liquidate_tx_marks f w s v t lim funds w' :
  exec_op f w (OEngine s (ELiquidate v t lim) funds) = Ok w' ->
  vm_lrb (read_vmap (w_eng w') v) = height (w_env w) /\ w_env w' = w_env w.
Proof.
  intros H. cbn [exec_op] in H. revert H. generalize FUEL. intros fuel H.
  destruct (attach_funds w s A_ENGINE funds) as [w0|] eqn:Ea; [|discriminate]. cbn [bind] in H.
  cbn [engine_execute] in H.
  destruct (e_liquidate w0 s v t lim) as [[w1 subs]|] eqn:Eo; [|discriminate]. cbn [bind fst snd] in H.
  destruct (dispatch fuel f w1 0 A_ENGINE subs) as [[w2 n2]|] eqn:Ed; [|discriminate]. cbn [bind fst] in H. inv_ok.
  assert (Henv : w_env w' = w_env w).
  { rewrite (dispatch_env _ _ _ _ _ _ _ _ Ed), (liquidate_env _ _ _ _ _ _ _ Eo). apply (attach_funds_core _ _ _ _ _ Ea). }
  split; [|exact Henv]. rewrite <- Henv.
  apply liquidate_readyl in Eo.
  exact (dispatch_pending (marked v) (pendl v) (marked_core v) (pendl_core v) (pendl_swap v) (pair_marked v) _ _ _ _ _ _ _ Ed Eo).
Qed.

(* ---------- OpenPosition stamps the sender's position ---------- *)
Definition stamped (v0 t0 : addr) (w : world) : Prop :=
  exists p, find_position (w_eng w) v0 t0 = Some p /\ p_block p = height (w_env w).

Lemma stamped_core v0 t0 : core_closed (stamped v0 t0).
Proof. intros w w1 (E1 & _ & E3) H. unfold stamped in *. rewrite E1, E3. exact H. Qed.

Lemma update_position_reply_stamps w i o id w' subs tm :
  update_position_reply w i o id = Ok (w', subs) -> e_tmp (w_eng w) = Some tm ->
  exists p', find_position (w_eng w') (ts_vamm tm) (ts_trader tm) = Some p' /\ p_block p' = height (w_env w).
Proof.
  intros H Htmp. unfold update_position_reply, need_tmp in H. rewrite Htmp in H. cbn [bind] in H. arm H.
  all: eexists; cbn [w_eng set_eng]; rewrite ?find_set_state, ?find_set_sent, ?find_set_tmp; split; [apply find_store_same|reflexivity].
Qed.

Definition pends (v0 t0 : addr) (w : world) (m : msg) (id : Z) : Prop :=
  exists tm, e_tmp (w_eng w) = Some tm /\ ts_vamm tm = v0 /\ ts_trader tm = t0 /\
    (((id = INCREASE_ID \/ id = DECREASE_ID) /\ exists d q l c, m = MSwapInput v0 d q l c) \/
     (id = REVERSE_ID /\ exists d b l, m = MSwapOutput v0 d b l)).

Lemma pends_core v0 t0 : core_closed_p (pends v0 t0).
Proof. intros w w1 m id (E1 & _) H. unfold pends in *. rewrite E1. exact H. Qed.
Lemma pends_swap v0 t0 w m id : pends v0 t0 w m id -> is_swap m = true.
Proof. intros (tm & _ & _ & _ & [(_ & d & q & l & c & ->) | (_ & d & b & l & ->)]); reflexivity. Qed.

Lemma pair_stamped v0 t0 w m id w1 ev w2 subs :
  pends v0 t0 w m id -> exec_simple w A_ENGINE m = Ok (w1, ev) ->
  contract_reply w1 A_ENGINE id (Ok ev) = Ok (w2, subs) -> readyg (stamped v0 t0) (pends v0 t0) w2 subs.
Proof.
  intros (tm & Htmp & Hv & Ht & Hcase) Hex Hre.
  unfold contract_reply, engine_reply in Hre. rewrite Z.eqb_refl in Hre.
  destruct Hcase as [(Hid & d & q & l & c & ->) | (-> & d & b & l & ->)].
  - apply exec_swap_input in Hex. destruct Hex as (vm & vm' & qa & ba & Hz & Hsw & -> & ->).
    assert (Hrep : exists id', update_position_reply (set_vamm w v0 vm') qa ba id' = Ok (w2, subs)).
    { destruct Hid as [-> | ->].
      - change (INCREASE_ID =? INCREASE_ID) with true in Hre. cbn iota in Hre. eauto.
      - change (DECREASE_ID =? INCREASE_ID) with false in Hre. change (DECREASE_ID =? DECREASE_ID) with true in Hre. cbn iota in Hre. eauto. }
    destruct Hrep as [id' Hrep].
    pose proof (update_position_reply_leafy _ _ _ _ _ _ Hrep) as Hl.
    pose proof (update_position_reply_env _ _ _ _ _ _ Hrep) as He.
    apply readyg_leafy; [exact Hl|].
    eapply update_position_reply_stamps in Hrep; [|cbn [w_eng set_vamm]; exact Htmp].
    rewrite Hv, Ht in Hrep. unfold stamped. rewrite He. exact Hrep.
  - apply exec_swap_output in Hex. destruct Hex as (vm & vm' & qa & ba & Hz & Hsw & -> & ->).
    change (REVERSE_ID =? INCREASE_ID) with false in Hre. change (REVERSE_ID =? DECREASE_ID) with false in Hre.
    change (REVERSE_ID =? REVERSE_ID) with true in Hre. cbn iota in Hre.
    pose proof (reverse_position_reply_env _ _ _ _ _ Hre) as He.
    pose proof (reverse_position_reply_stamps _ _ _ _ _ tm Hre Htmp) as Hst.
    eapply reverse_position_reply_reopen in Hre; [|cbn [w_eng set_vamm]; exact Htmp].
    destruct Hre as (_ & _ & [[Hl Hsz] | (fees & q & Hl & -> & Hq & tm' & Htm' & Hv' & Ht')]).
    + apply readyg_leafy; [exact Hl|]. unfold stamped. rewrite He. rewrite Hv, Ht in Hst. exact Hst.
    + apply readyg_leafy_app; [exact Hl|].
      cbn [readyg internal_increase_position swap_input_msg sm_reply wants_ok sm_msg sm_id].
      split; [reflexivity|split; [reflexivity|]].
      exists tm'. split; [exact Htm'|]. split; [congruence|]. split; [congruence|].
      left. split; [left; reflexivity|]. rewrite Hv. do 4 eexists. reflexivity.
Qed.

Lemma open_position_env w t v s m l lim f w1 subs : e_open_position w t v s m l lim f = Ok (w1, subs) -> w_env w1 = w_env w.
Proof. unfold e_open_position. intros H. arm H; reflexivity. Qed.

Lemma open_position_readys w t v s m l lim f w1 subs :
  e_open_position w t v s m l lim f = Ok (w1, subs) -> readyg (stamped v t) (pends v t) w1 subs.
Proof.
  intros H.
  pose proof (open_position_swaps _ _ _ _ _ _ _ _ _ _ H) as (msg & -> & Hshape).
  pose proof (open_position_tmp _ _ _ _ _ _ _ _ _ _ H) as (tm & Htm & Hv & Ht & _).
  assert (Hra : sm_reply msg = RAlways).
  { unfold e_open_position in H. arm H.
    all: match goal with Heq : [_] = [msg] |- _ => injection Heq as <- | Heq : [msg] = [_] |- _ => injection Heq as -> | _ => idtac end.
    all: repeat match goal with |- context [if ?c then _ else _] => destruct c end; reflexivity. }
  cbn [readyg]. rewrite Hra. cbn [wants_ok]. split; [reflexivity|split; [reflexivity|]].
  exists tm. split; [exact Htm|]. split; [exact Hv|]. split; [exact Ht|].
  destruct Hshape as [(q & id & Hmsg & Hid & Hids) | (d & b & Hmsg & Hid)].
  - left. rewrite Hid. split; [exact Hids|]. rewrite Hmsg. do 4 eexists. reflexivity.
  - right. rewrite Hid. split; [reflexivity|]. rewrite Hmsg. do 3 eexists. reflexivity.
Qed.

Theorem open_position_tx_stamps f w t v s m l lim funds w' :
  exec_op f w (OEngine t (EOpenPosition v s m l lim) funds) = Ok w' ->
  (exists p, find_position (w_eng w') v t = Some p /\ p_block p = height (w_env w)) /\ w_env w' = w_env w.
Proof.
  intros H. cbn [exec_op] in H. revert H. generalize FUEL. intros fuel H.
  destruct (attach_funds w t A_ENGINE funds) as [w0|] eqn:Ea; [|discriminate]. cbn [bind] in H.
  cbn [engine_execute] in H.
  destruct (e_open_position w0 t v s m l lim funds) as [[w1 subs]|] eqn:Eo; [|discriminate]. cbn [bind fst snd] in H.
  destruct (dispatch fuel f w1 0 A_ENGINE subs) as [[w2 n2]|] eqn:Ed; [|discriminate]. cbn [bind fst] in H. inv_ok.
  assert (Henv : w_env w' = w_env w).
  { rewrite (dispatch_env _ _ _ _ _ _ _ _ Ed), (open_position_env _ _ _ _ _ _ _ _ _ _ Eo). apply (attach_funds_core _ _ _ _ _ Ea). }
  split; [|exact Henv]. rewrite <- Henv.
  apply open_position_readys in Eo.
  exact (dispatch_pending (stamped v t) (pends v t) (stamped_core v t) (pends_core v t) (pends_swap v t) (pair_stamped v t) _ _ _ _ _ _ _ Ed Eo).
Qed.

(* the two together with the guard: in a block where a liquidation on v succeeded and the trader's OpenPosition
   on v succeeded (in either order, nothing in between touching the marker or the stamp), the trader's next
   OpenPosition / ClosePosition on v in that block fails and changes nothing *)
Theorem restricted_after_both f w t v s m l lim funds :
  vm_lrb (read_vmap (w_eng w) v) = height (w_env w) ->
  (exists p, find_position (w_eng w) v t = Some p /\ p_block p = height (w_env w)) ->
  step_f f w (OEngine t (EOpenPosition v s m l lim) funds) = (w, false) /\
  step_f f w (OEngine t (EClosePosition v lim) funds) = (w, false).
Proof.
  intros Hm (p & Hf & Hb).
  assert (Hs : p_block (read_position (w_eng w) v t) = height (w_env w)) by (unfold read_position; rewrite Hf; exact Hb).
  split; [apply restricted_open_changes_nothing | apply restricted_close_changes_nothing]; assumption.
Qed.

(* a trader with no stored record on the vAMM is never met by the one-action refusal (the default record carries
   block 0), whatever happened in the block *)
Lemma fresh_trader_unrestricted w v t :
  find_position (w_eng w) v t = None -> height (w_env w) <> 0 -> require_not_restriction_mode w v t = Ok tt.
Proof.
  intros Hf Hh. apply restriction_passes. right. unfold read_position. rewrite Hf. cbn [default_position p_block]. congruence.
Qed.
