(* C05 end to end: a successful OpenPosition transaction leaves the sender either without a position on
   that vAMM or with one whose margin ratio - recomputed on the final state - is not below maintenance. *)
From MP.Model Require Import Prelude U128 SInt Feed Vamm VammOps Token World Engine Runtime.
From MP.Proofs Require Import Tactics MapFacts SIntFacts VammFacts SwapFacts EngineGuards RuntimeFacts FrameFacts
  ResidueFacts MirrorFacts MoreFacts BandFacts PendingFacts.

Lemma get_pnl_core w w1 v p o : same_core w w1 -> o <> POracle -> get_pnl w1 v p o = get_pnl w v p o.
Proof.
  intros (E1 & E2 & E3) Ho. unfold get_pnl, get_vamm. rewrite E1, E2, E3.
  destruct o; try contradiction; reflexivity.
Qed.

Lemma calc_remain_margin_core w w1 v p d : same_core w w1 -> calc_remain_margin w1 v p d = calc_remain_margin w v p d.
Proof. intros (E1 & _). unfold calc_remain_margin. rewrite E1. reflexivity. Qed.

Lemma query_margin_ratio_core w w1 v t : same_core w w1 -> query_margin_ratio w1 v t = query_margin_ratio w v t.
Proof.
  intros Hc. unfold query_margin_ratio, margin_ratio_of.
  rewrite !(get_pnl_core w w1) by (try exact Hc; discriminate).
  destruct Hc as (E1 & E2 & E3). rewrite E1.
  destruct (s_is_zero _); [reflexivity|].
  destruct (get_pnl w v _ PSpot) as [sp|]; [|reflexivity]. cbn [bind].
  destruct (get_pnl w v _ PTwap) as [tw|]; [|reflexivity]. cbn [bind].
  destruct (pick_pnl sp tw) as [n pn].
  rewrite (calc_remain_margin_core w w1) by (repeat split; assumption). reflexivity.
Qed.

Definition ratio_ok (v0 t0 : addr) (w : world) : Prop :=
  sval (p_size (read_position (w_eng w) v0 t0)) = 0 \/
  exists mr, query_margin_ratio w v0 t0 = Ok mr /\ sltb mr (spos (e_maint (ec (w_eng w)))) = false.

Lemma ratio_ok_core v0 t0 : core_closed (ratio_ok v0 t0).
Proof.
  intros w w1 Hc [H|(mr & H1 & H2)]; pose proof Hc as (E1 & _).
  - left. rewrite E1. exact H.
  - right. exists mr. rewrite (query_margin_ratio_core w w1) by exact Hc. rewrite E1. auto.
Qed.

Definition pendr (v0 t0 : addr) (w : world) (m : msg) (id : Z) : Prop :=
  exists tm, e_tmp (w_eng w) = Some tm /\ ts_vamm tm = v0 /\ ts_trader tm = t0 /\
    (((id = INCREASE_ID \/ id = DECREASE_ID) /\ exists d q l c, m = MSwapInput v0 d q l c) \/
     (id = REVERSE_ID /\ exists d b l, m = MSwapOutput v0 d b l)).

Lemma pendr_core v0 t0 : core_closed_p (pendr v0 t0).
Proof. intros w w1 m id (E1 & _) H. unfold pendr in *. rewrite E1. exact H. Qed.

Lemma pendr_swap v0 t0 w m id : pendr v0 t0 w m id -> is_swap m = true.
Proof. intros (tm & _ & _ & _ & [(_ & d & q & l & c & ->) | (_ & d & b & l & ->)]); reflexivity. Qed.

Lemma pair_ratio v0 t0 w m id w1 ev w2 subs :
  pendr v0 t0 w m id -> exec_simple w A_ENGINE m = Ok (w1, ev) ->
  contract_reply w1 A_ENGINE id (Ok ev) = Ok (w2, subs) -> readyg (ratio_ok v0 t0) (pendr v0 t0) w2 subs.
Proof.
  intros (tm & Htmp & Hv & Ht & Hcase) Hex Hre.
  unfold contract_reply, engine_reply in Hre. rewrite Z.eqb_refl in Hre.
  destruct Hcase as [(Hid & d & q & l & c & ->) | (-> & d & b & l & ->)].
  - apply exec_swap_input in Hex. destruct Hex as (vm & vm' & qa & ba & Hz & Hsw & -> & ->).
    assert (Hrep : exists id', update_position_reply (set_vamm w v0 vm') qa ba id' = Ok (w2, subs)).
    { destruct Hid as [-> | ->].
      - change (INCREASE_ID =? INCREASE_ID) with true in Hre. cbn iota in Hre. eauto.
      - change (DECREASE_ID =? INCREASE_ID) with false in Hre. change (DECREASE_ID =? DECREASE_ID) with true in Hre. cbn iota in Hre. eauto. }
    destruct Hrep as [id' Hrep].
    pose proof (update_position_reply_leafy _ _ _ _ _ _ Hrep) as Hl.
    apply readyg_leafy; [exact Hl|].
    eapply update_position_reply_ratio in Hrep; [|cbn [w_eng set_vamm]; exact Htmp].
    rewrite Hv, Ht in Hrep. right. exact Hrep.
  - apply exec_swap_output in Hex. destruct Hex as (vm & vm' & qa & ba & Hz & Hsw & -> & ->).
    change (REVERSE_ID =? INCREASE_ID) with false in Hre. change (REVERSE_ID =? DECREASE_ID) with false in Hre.
    change (REVERSE_ID =? REVERSE_ID) with true in Hre. cbn iota in Hre.
    eapply reverse_position_reply_reopen in Hre; [|cbn [w_eng set_vamm]; exact Htmp].
    destruct Hre as (_ & _ & [[Hl Hsz] | (fees & q & Hl & -> & Hq & tm' & Htm' & Hv' & Ht')]).
    + apply readyg_leafy; [exact Hl|]. left. rewrite Hv, Ht in Hsz. exact Hsz.
    + apply readyg_leafy_app; [exact Hl|].
      cbn [readyg internal_increase_position swap_input_msg sm_reply wants_ok sm_msg sm_id].
      split; [reflexivity|split; [reflexivity|]].
      exists tm'. split; [exact Htm'|]. split; [congruence|]. split; [congruence|].
      left. split; [left; reflexivity|]. rewrite Hv. do 4 eexists. reflexivity.
Qed.

Lemma open_position_readyr w t v s m l lim f w1 subs :
  e_open_position w t v s m l lim f = Ok (w1, subs) ->
  readyg (ratio_ok v t) (pendr v t) w1 subs.
Proof.
  intros H.
  pose proof (open_position_swaps _ _ _ _ _ _ _ _ _ _ H) as (msg & -> & Hshape).
  pose proof (open_position_tmp _ _ _ _ _ _ _ _ _ _ H) as (tm & Htm & Hv & Ht & _ & _ & Hlev & _).
  assert (Hra : sm_reply msg = RAlways).
  { unfold e_open_position in H. arm H.
    all: match goal with Heq : [_] = [msg] |- _ => injection Heq as <- | Heq : [msg] = [_] |- _ => injection Heq as -> | _ => idtac end.
    all: repeat match goal with |- context [if ?c then _ else _] => destruct c end; reflexivity. }
  cbn [readyg]. rewrite Hra. cbn [wants_ok]. split; [reflexivity|split; [reflexivity|]].
  exists tm. split; [exact Htm|]. split; [exact Hv|]. split; [exact Ht|].
  destruct Hshape as [(q & id & Hmsg & Hid & Hids) | (d & b & Hmsg & Hid)].
  - left. rewrite Hid. split; [exact Hids|]. rewrite Hmsg. do 4 eexists. reflexivity.
  - right. rewrite Hid. split; [reflexivity|]. rewrite Hmsg. do 3 eexists. reflexivity.
Qed.

Theorem open_position_ends_margined f w t v s m l lim funds w' :
  exec_op f w (OEngine t (EOpenPosition v s m l lim) funds) = Ok w' ->
  sval (p_size (read_position (w_eng w') v t)) = 0 \/
  exists mr, query_margin_ratio w' v t = Ok mr /\ sltb mr (spos (e_maint (ec (w_eng w')))) = false.
Proof.
  intros H. cbn [exec_op] in H. revert H. generalize FUEL. intros fuel H.
  destruct (attach_funds w t A_ENGINE funds) as [w0|] eqn:Ea; [|discriminate]. cbn [bind] in H.
  cbn [engine_execute] in H.
  destruct (e_open_position w0 t v s m l lim funds) as [[w1 subs]|] eqn:Eo; [|discriminate]. cbn [bind fst snd] in H.
  destruct (dispatch fuel f w1 0 A_ENGINE subs) as [[w2 n2]|] eqn:Ed; [|discriminate]. cbn [bind fst] in H. inv_ok.
  apply open_position_readyr in Eo.
  exact (dispatch_pending (ratio_ok v t) (pendr v t) (ratio_ok_core v t) (pendr_core v t) (pendr_swap v t) (pair_ratio v t)
           _ _ _ _ _ _ _ Ed Eo).
Qed.
