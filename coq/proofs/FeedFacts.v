(* Price feed: latest and n-rounds-back return exactly the submitted values (C18). *)
From MP.Model Require Import Prelude U128 SInt Feed Vamm.
From MP.Proofs Require Import Tactics.

(* submissions in order of submission (oldest first) *)
Definition submissions (f : rfeed) : list round := rev (rf_rounds f).

Lemma drop_length {A} n (l : list A) : length (drop n l) = (length l - n)%nat.
Proof. revert l. induction n as [|n IH]; intros [|x l]; cbn; auto; lia. Qed.

Lemma nth_drop {A} n (l : list A) d : nth 0 (drop n l) d = nth n l d.
Proof. revert l. induction n as [|n IH]; intros [|x l]; cbn; auto; destruct n; reflexivity. Qed.

(* after k submissions, n rounds back (n < k) is the (k-1-n)-th submission, with round id k-n *)
Lemma rf_previous_exact f n r :
  rf_previous f n = Ok r ->
  0 <= n < Z.of_nat (length (rf_rounds f)) /\
  exists sub, nth_error (rf_rounds f) (Z.to_nat n) = Some sub /\
  r = (Z.of_nat (length (rf_rounds f)) - n, r_price sub, r_time sub).
Proof.
  unfold rf_previous. intros H. minv H. inv_ok. zb. split; [lia|].
  unfold rf_latest. cbn [rf_rounds].
  remember (Z.to_nat n) as k eqn:Ek.
  assert (Hk : (k < length (rf_rounds f))%nat) by lia.
  destruct (drop k (rf_rounds f)) as [|sub rest] eqn:Ed.
  - pose proof (drop_length k (rf_rounds f)) as Hl. rewrite Ed in Hl. cbn in Hl. lia.
  - exists sub. split.
    + pose proof (nth_drop k (rf_rounds f) sub) as Hn. rewrite Ed in Hn. cbn in Hn.
      apply nth_error_nth' with (d := sub) in Hk. rewrite Hk. f_equal. auto.
    + pose proof (drop_length k (rf_rounds f)) as Hl. rewrite Ed in Hl.
      replace (length (sub :: rest)) with (length (rf_rounds f) - k)%nat by lia.
      f_equal. f_equal. lia.
Qed.

Lemma rf_previous_beyond f n : Z.of_nat (length (rf_rounds f)) <= n -> rf_previous f n = Err EGuard.
Proof. intros H. unfold rf_previous. destruct (Z.ltb_spec n (Z.of_nat (length (rf_rounds f)))); [lia|reflexivity]. Qed.

Lemma rf_append_latest f s p t f' : rf_append f s p t = Ok f' ->
  rf_latest f' = (Z.of_nat (length (rf_rounds f)) + 1, p, t) /\ rf_rounds f' = mkRound p t :: rf_rounds f.
Proof.
  unfold rf_append. intros H. minv H. inv_ok. unfold rf_latest. cbn. split; [|reflexivity].
  f_equal. f_equal. lia.
Qed.

(* the vAMM TWAP equals the spot price of the only / current snapshot when the window does not
   reach behind it *)
Lemma calc_twap_single v e o interval cur :
  snaps v = [cur] -> calc_twap v e o interval = snapshot_price (v_dec (vc v)) o cur \/
  exists er, calc_twap v e o interval = Err er.
Proof.
  intros Hs. unfold calc_twap. rewrite Hs. destruct (snapshot_price _ _ _) as [p|er] eqn:E; cbn [bind]; [|eauto].
  destruct (interval =? 0); [auto|]. destruct (sub64 (now e) interval); cbn [bind]; [|eauto].
  cbn [length Z.of_nat Z.eqb Pos.of_succ_nat Pos.eqb orb]. auto.
Qed.
