(* Configuration bounds under any update sequence, caps (C20); access control (C09). *)
From MP.Model Require Import Prelude U128 SInt Feed Vamm VammOps Token World Engine Runtime.
From MP.Proofs Require Import Tactics SIntFacts.

(* ---------- engine configuration ---------- *)
Definition ecfg_ok (c : ecfg) : Prop :=
  0 < e_dec c /\ 0 <= e_init c <= e_dec c /\ 0 <= e_maint c <= e_dec c /\ e_maint c <= e_init c /\
  0 <= e_plr c <= e_dec c /\ 0 <= e_liqfee c <= e_dec c.

Definition opt_nonneg (o : option Z) : Prop := match o with Some v => 0 <= v | None => True end.

Lemma validate_ratio_ok v d u : validate_ratio v d = Ok u -> v <= d.
Proof. unfold validate_ratio. intros H. destr_if_in H; [|discriminate]. zb. lia. Qed.
Lemma validate_margin_ratios_ok i m u : validate_margin_ratios i m = Ok u -> m <= i.
Proof. unfold validate_margin_ratios. intros H. destr_if_in H; [|discriminate]. zb. lia. Qed.
Lemma validate_decimal_places_ok d r : validate_decimal_places d = Ok r -> r = 10 ^ d /\ 6 <= d /\ 0 < r.
Proof.
  unfold validate_decimal_places. intros H. minv H. inv_ok. zb.
  repeat split; try lia; try (apply Z.pow_pos_nonneg; lia).
Qed.

Lemma engine_instantiate_cfg s p i fpool d init maint liqfee e :
  0 <= init -> 0 <= maint -> 0 <= liqfee ->
  engine_instantiate s p i fpool d init maint liqfee = Ok e -> ecfg_ok (ec e).
Proof.
  intros H1 H2 H3 H. unfold engine_instantiate in H. minv H. inv_ok.
  repeat match goal with Hv : validate_ratio _ _ = Ok _ |- _ => apply validate_ratio_ok in Hv end.
  match goal with Hv : validate_margin_ratios _ _ = Ok _ |- _ => apply validate_margin_ratios_ok in Hv end.
  match goal with Hv : validate_decimal_places _ = Ok _ |- _ => apply validate_decimal_places_ok in Hv; destruct Hv as (_ & _ & Hv) end.
  unfold ecfg_ok. cbn. lia.
Qed.

Lemma e_update_config_cfg w s o i f a b c d w' subs :
  opt_nonneg a -> opt_nonneg b -> opt_nonneg c -> opt_nonneg d ->
  e_update_config w s o i f a b c d = Ok (w', subs) ->
  ecfg_ok (ec (w_eng w)) ->
  ecfg_ok (ec (w_eng w')) /\ e_dec (ec (w_eng w')) = e_dec (ec (w_eng w)) /\ s = e_owner (ec (w_eng w)) /\
  w_vamms w' = w_vamms w /\ w_if w' = w_if w.
Proof.
  intros Ha Hb Hc Hd H Hok. unfold e_update_config in H.
  destruct (Z.eqb_spec s (e_owner (ec (w_eng w)))) as [Es|]; [|discriminate].
  unfold ecfg_ok in *. cbv beta zeta in H.
  destruct a as [a|], b as [b|], c as [c|], d as [d|]; cbn [opt_nonneg] in *;
  cbn [e_dec e_maint e_init e_owner e_ifund e_feepool e_plr e_liqfee bind] in H; minv H; minv_all; inv_ok; subst;
  cbn [e_dec e_maint e_init e_owner e_ifund e_feepool e_plr e_liqfee ec w_eng set_eng eng_set_cfg w_vamms w_if] in *;
  repeat match goal with Hv : validate_ratio _ _ = Ok _ |- _ => apply validate_ratio_ok in Hv end;
  repeat match goal with Hv : validate_margin_ratios _ _ = Ok _ |- _ => apply validate_margin_ratios_ok in Hv end;
  repeat split; auto; lia.
Qed.

(* ---------- vAMM configuration ---------- *)
Definition vcfg_ok (c : vcfg) : Prop :=
  0 < v_dec c /\ 0 <= v_toll c <= v_dec c /\ 0 <= v_spread c <= v_dec c /\ 0 <= v_fluct c <= v_dec c /\
  ONE_MINUTE <= v_twap_interval c <= ONE_WEEK.

Lemma vamm_instantiate_cfg e s m v :
  0 <= i_toll m -> 0 <= i_spread m -> 0 <= i_fluct m ->
  vamm_instantiate e s m = Ok v -> vcfg_ok (vc v).
Proof.
  intros H1 H2 H3 H. unfold vamm_instantiate in H. minv H. inv_ok.
  repeat match goal with Hv : validate_ratio _ _ = Ok _ |- _ => apply validate_ratio_ok in Hv end.
  match goal with Hv : validate_decimal_places _ = Ok _ |- _ => apply validate_decimal_places_ok in Hv; destruct Hv as (_ & _ & Hv) end.
  unfold vcfg_ok, ONE_MINUTE, ONE_WEEK, ONE_HOUR. cbn. lia.
Qed.

Lemma vamm_update_config_cfg v s u v' :
  opt_nonneg (u_toll u) -> opt_nonneg (u_spread u) -> opt_nonneg (u_fluct u) ->
  vamm_update_config v s u = Ok v' -> vcfg_ok (vc v) ->
  vcfg_ok (vc v') /\ v_dec (vc v') = v_dec (vc v) /\ is_admin (v_owner v) s = true /\ vs v' = vs v.
Proof.
  intros Ht Hs Hf H Hok. unfold vamm_update_config in H. unfold vcfg_ok in *.
  destruct u as [hc oc tl sp fl en ifd fd tw]. cbn [u_toll u_spread u_fluct u_hold_cap u_oi_cap u_engine u_ifund u_feed u_twap_interval] in *.
  destruct tl as [tl|], sp as [sp|], fl as [fl|], tw as [tw|]; cbn [opt_nonneg] in *; minv H; minv_all; inv_ok; subst;
  cbn [vc vs v_dec v_toll v_spread v_fluct v_twap_interval opt_or] in *;
  repeat match goal with Hv : validate_ratio _ _ = Ok _ |- _ => apply validate_ratio_ok in Hv end; zb;
  repeat split; auto; lia.
Qed.

(* ---------- a vAMM is registered only if its decimals equal the engine's ---------- *)
Lemma if_add_vamm_decimals w s v w' subs : if_add_vamm w s v = Ok (w', subs) ->
  exists vm, get_vamm w v = Ok vm /\ v_dec (vc vm) = e_dec (ec (w_eng w)) /\
  if_vamms (w_if w') = if_vamms (w_if w) ++ [v] /\ is_admin (if_owner (w_if w)) s = true /\
  zmem v (if_vamms (w_if w)) = false /\ (length (if_vamms (w_if w)) < 3)%nat.
Proof.
  unfold if_add_vamm. intros H. minv H. inv_ok. zb. cbn. eexists; repeat split; eauto; try lia;
  try (apply negb_true_iff; auto).
Qed.

(* ---------- caps (engine side guards) ---------- *)
Lemma update_oi_cap w st v amount t st' :
  wf0 amount -> 0 <= e_oi st ->
  update_open_interest_notional w st v amount t = Ok st' ->
  exists vm, get_vamm w v = Ok vm /\
  (0 < v_oi_cap (vc vm) -> s_is_positive amount = true -> is_whitelisted w t = false ->
   e_oi st' <= v_oi_cap (vc vm)) /\ 0 <= e_oi st'.
Proof.
  intros Hwa Hoi. unfold update_open_interest_notional. intros H. minv H. inv_ok.
  assert (Hwo : wf0 (spos (e_oi st))) by (unfold wf0, spos; cbn; lia).
  match goal with Hs : schecked_add _ _ = Ok ?u0 |- _ =>
    destruct (schecked_add_toZ0 _ _ _ Hwa Hwo Hs) as (Hz & Hw0 & _) end.
  eexists; split; [reflexivity|]. cbn [e_oi].
  match goal with |- context [if s_is_negative ?u then _ else _] => set (u0 := u) in * end.
  assert (Hnn : 0 <= sval (if s_is_negative u0 then szero else u0)).
  { destruct (s_is_negative u0); [cbn; lia|exact Hw0]. }
  split; [|exact Hnn].
  intros Hc Hp Hw. rewrite Hp, Hw in *.
  assert (Hc0 : (v_oi_cap (vc x) =? 0) = false) by (apply Z.eqb_neq; lia). rewrite Hc0 in *. cbn [negb andb] in *.
  apply negb_true_iff in Hb. rewrite andb_true_r in Hb.
  rewrite sgtb_spos0 in Hb by first [lia | destruct (s_is_negative u0); [unfold wf0; cbn; lia|exact Hw0]].
  apply Z.ltb_ge in Hb.
  destruct (s_is_negative u0) eqn:En; [cbn in *; lia|].
  rewrite s_is_negative_toZ0 in En by exact Hw0. apply Z.ltb_ge in En.
  unfold toZ in *. destruct (sneg u0); lia.
Qed.

Lemma holding_cap w v size t u :
  check_base_asset_holding_cap w v size t = Ok u ->
  exists vm, get_vamm w v = Ok vm /\
  (v_hold_cap (vc vm) <> 0 -> is_whitelisted w t = false -> size <= v_hold_cap (vc vm)).
Proof.
  unfold check_base_asset_holding_cap. intros H. minv H. eexists; split; [reflexivity|].
  intros Hc Hw. rewrite Hw in Hb. apply Z.eqb_neq in Hc. rewrite Hc in Hb. cbn in Hb.
  rewrite andb_true_r in Hb. apply negb_true_iff in Hb. zb. lia.
Qed.

(* ---------- access control (C09) ---------- *)
Lemma swap_input_only_engine v e s d q l c r : swap_input v e s d q l c = Ok r -> s = v_engine (vc v) /\ v_open (vs v) = true.
Proof. unfold swap_input. intros H. minv H. zb. auto. Qed.
Lemma swap_output_only_engine v e s d b l r : swap_output v e s d b l = Ok r -> s = v_engine (vc v) /\ v_open (vs v) = true.
Proof. unfold swap_output. intros H. minv H. zb. auto. Qed.
Lemma settle_funding_only_engine v e s o r : settle_funding v e s o = Ok r -> s = v_engine (vc v).
Proof. unfold settle_funding. intros H. minv H. zb. auto. Qed.
Lemma set_open_only_owner_or_fund v e s o v' : set_open v e s o = Ok v' ->
  (is_admin (v_owner v) s = true \/ s = v_ifund (vc v)) /\ v_open (vs v) <> o /\ v_open (vs v') = o.
Proof.
  unfold set_open. intros H. minv H. inv_ok. cbn.
  apply negb_true_iff in Hb. apply orb_false_iff in Hb. destruct Hb as [H1 H2].
  apply andb_false_iff in H1. split; [|split; [|reflexivity]].
  - destruct H1 as [H1|H1]; apply negb_false_iff in H1; zb; auto.
  - apply eqb_false_iff in H2. exact H2.
Qed.
Lemma vamm_update_owner_only_owner v s n v' : vamm_update_owner v s n = Ok v' -> is_admin (v_owner v) s = true /\ v_owner v' = Some n.
Proof. unfold vamm_update_owner. intros H. minv H. inv_ok. auto. Qed.

Lemma e_update_config_only_owner w s o i f a b c d r : e_update_config w s o i f a b c d = Ok r -> s = e_owner (ec (w_eng w)).
Proof. unfold e_update_config. intros H. cbv beta zeta in H. destr_if_in H; [|discriminate]. zb. auto. Qed.
Lemma e_set_pause_only_pauser w s p r : e_set_pause w s p = Ok r -> is_admin (e_pauser (w_eng w)) s = true.
Proof. unfold e_set_pause. intros H. minv H. apply negb_true_iff in Hb. apply orb_false_iff in Hb. destruct Hb as [H1 _]. apply negb_false_iff in H1. auto. Qed.
Lemma e_update_pauser_only_pauser w s p r : e_update_pauser w s p = Ok r -> is_admin (e_pauser (w_eng w)) s = true.
Proof. unfold e_update_pauser. intros H. minv H. auto. Qed.
Lemma e_add_whitelist_only_pauser w s a r : e_add_whitelist w s a = Ok r -> is_admin (e_pauser (w_eng w)) s = true.
Proof. unfold e_add_whitelist. intros H. minv H. auto. Qed.
Lemma e_remove_whitelist_only_pauser w s a r : e_remove_whitelist w s a = Ok r -> is_admin (e_pauser (w_eng w)) s = true.
Proof. unfold e_remove_whitelist. intros H. minv H. auto. Qed.

Lemma if_withdraw_only_engine w s amt r : if_withdraw w s amt = Ok r -> s = if_engine (w_if w).
Proof. unfold if_withdraw. intros H. minv H. zb. auto. Qed.
Lemma if_add_vamm_only_owner w s v r : if_add_vamm w s v = Ok r -> is_admin (if_owner (w_if w)) s = true.
Proof. unfold if_add_vamm. intros H. minv H. auto. Qed.
Lemma if_remove_vamm_only_owner w s v r : if_remove_vamm w s v = Ok r -> is_admin (if_owner (w_if w)) s = true.
Proof. unfold if_remove_vamm. intros H. minv H. auto. Qed.
Lemma if_update_owner_only_owner w s n r : if_update_owner w s n = Ok r -> is_admin (if_owner (w_if w)) s = true /\ if_owner (w_if (fst r)) = Some n.
Proof. unfold if_update_owner. intros H. minv H. inv_ok. auto. Qed.
Lemma if_shutdown_only_owner w s r : if_shutdown w s = Ok r -> is_admin (if_owner (w_if w)) s = true \/ s = A_IFUND.
Proof. unfold if_shutdown. intros H. minv H. apply orb_true_iff in Hb. destruct Hb; zb; auto. Qed.

Lemma fp_add_token_only_owner w s t r : fp_add_token w s t = Ok r -> is_admin (fp_owner (w_fp w)) s = true.
Proof. unfold fp_add_token. intros H. minv H. auto. Qed.
Lemma fp_remove_token_only_owner w s t r : fp_remove_token w s t = Ok r -> is_admin (fp_owner (w_fp w)) s = true.
Proof. unfold fp_remove_token. intros H. minv H. auto. Qed.
Lemma fp_send_token_only_owner w s t a rc r : fp_send_token w s t a rc = Ok r -> is_admin (fp_owner (w_fp w)) s = true.
Proof. unfold fp_send_token. intros H. minv H. auto. Qed.
Lemma fp_update_owner_only_owner w s n r : fp_update_owner w s n = Ok r -> is_admin (fp_owner (w_fp w)) s = true /\ fp_owner (w_fp (fst r)) = Some n.
Proof. unfold fp_update_owner. intros H. minv H. inv_ok. auto. Qed.

Lemma rf_append_only_owner f s p t f' : rf_append f s p t = Ok f' -> is_admin (rf_owner f) s = true.
Proof. unfold rf_append. intros H. minv H. auto. Qed.
Lemma rf_append_multiple_only_owner f s ps ts f' : rf_append_multiple f s ps ts = Ok f' -> is_admin (rf_owner f) s = true.
Proof. unfold rf_append_multiple. intros H. minv H. auto. Qed.
Lemma rf_update_owner_only_owner f s n f' : rf_update_owner f s n = Ok f' -> is_admin (rf_owner f) s = true /\ rf_owner f' = Some n.
Proof. unfold rf_update_owner. intros H. minv H. inv_ok. auto. Qed.

(* after a transfer of a role the new holder has it and the old one has not *)
Lemma is_admin_some a s : is_admin (Some a) s = true <-> s = a.
Proof. unfold is_admin. split; intros H; zb; auto. subst. apply Z.eqb_refl. Qed.
