(* C15, close clause, end to end: what a successful ClosePosition transaction leaves behind is decided by the vAMM's
   answer to "would closing the whole position leave the band?": if not (or the partial ratio is 100%) the position is
   gone; otherwise exactly floor(size x ratio / D) base is taken off it, direction kept. *)
From MP.Model Require Import Prelude U128 SInt Feed Vamm VammOps Token World Engine Runtime.
From MP.Proofs Require Import Tactics MapFacts SIntFacts EngineGuards RuntimeFacts LedgerFacts ResidueFacts MirrorFacts MoreFacts
  SwapFacts FlowFacts.

Lemma writes_find w w' v t p' : writes w w' v t p' -> find_position (w_eng w') v t = p'.
Proof.
  intros (H & _). unfold find_position. rewrite H. destruct p'; [apply zfind_zset_same|apply zfind_zdel_same].
Qed.

Lemma close_position_tmp w t v lim w1 subs :
  e_close_position w t v lim = Ok (w1, subs) ->
  let p := read_position (w_eng w) v t in
  exists tm, e_tmp (w_eng w1) = Some tm /\ ts_vamm tm = v /\ ts_trader tm = t /\
    ((exists b, subs = [swap_output_msg v (direction_to_side (p_dir p)) b 0 PARTIAL_CLOSE_ID]) -> ts_side tm = position_to_side (p_size p)) /\
    e_pos (w_eng w1) = e_pos (w_eng w) /\ w_env w1 = w_env w.
Proof.
  intros H p. unfold e_close_position in H. fold p in H. cbv zeta in H.
  destruct (negb (e_pause (es (w_eng w)))); [|discriminate]. cbn [bind] in H.
  destruct (Z.eqb_spec (sval (p_size p)) 0) as [|Hnz]; [discriminate|]. cbn [negb bind] in H.
  destruct (require_not_restriction_mode w v t); [|discriminate]. cbn [bind] in H.
  destruct (get_vamm w v) as [vm|] eqn:Ev; [|discriminate]. cbn [bind] in H.
  match type of H with bind ?r _ = _ => destruct r as [over|]; [|discriminate] end. cbn [bind] in H.
  destruct (over && (e_plr (ec (w_eng w)) <? e_dec (ec (w_eng w)))).
  - minv H. inv_ok. eexists. cbn [w_eng set_eng e_tmp eng_set_tmp ts_vamm ts_trader ts_side e_pos w_env]. repeat split; auto.
  - unfold internal_close_position in H. inv_ok. eexists. cbn [w_eng set_eng e_tmp eng_set_tmp ts_vamm ts_trader ts_side e_pos w_env].
    repeat split; auto. intros [b Hb]. unfold swap_output_msg, PARTIAL_CLOSE_ID, CLOSE_ID in Hb. congruence.
Qed.

Theorem close_position_tx_choice f w t v lim funds w' :
  exec_op f w (OEngine t (EClosePosition v lim) funds) = Ok w' ->
  let p := read_position (w_eng w) v t in
  let c := ec (w_eng w) in
  let dir := if sgtb (p_size p) szero then AddToAmm else RemoveFromAmm in
  exists vm over, get_vamm w v = Ok vm /\ q_is_over_fluctuation_limit vm (w_env w) dir (sval (p_size p)) = Ok over /\
    (over && (e_plr c <? e_dec c) = false -> find_position (w_eng w') v t = None) /\
    (over && (e_plr c <? e_dec c) = true ->
       exists p', find_position (w_eng w') v t = Some p' /\ p_dir p' = p_dir p /\
         sadd (p_size p) (signed_out (position_to_side (p_size p)) (sval (p_size p) * e_plr c / e_dec c)) = Ok (p_size p')).
Proof.
  intros H p c dir.
  cbn [exec_op] in H. revert H. generalize FUEL. intros fuel H.
  destruct (attach_funds w t A_ENGINE funds) as [w0|] eqn:Ea; [|discriminate]. cbn [bind] in H.
  cbn [engine_execute] in H.
  destruct (e_close_position w0 t v lim) as [[w1 subs]|] eqn:Ec; [|discriminate]. cbn [bind fst snd] in H.
  destruct (dispatch fuel f w1 0 A_ENGINE subs) as [[wf nf]|] eqn:Ed; [|discriminate]. cbn [bind fst] in H. inv_ok.
  pose proof (attach_funds_core _ _ _ _ _ Ea) as [E1 E2].
  assert (E3 : w_vamms w0 = w_vamms w) by (unfold attach_funds in Ea; destruct (funds =? 0); [inv_ok; auto|]; minv Ea; inv_ok; auto).
  destruct (close_position_choice _ _ _ _ _ _ Ec) as (vm & over & Hv & Hov & Hnz & Hsub). cbv zeta in Hov, Hnz, Hsub.
  rewrite E1, E2 in Hov. rewrite E1 in Hnz, Hsub. fold p c in Hov, Hnz, Hsub. fold dir in Hov.
  exists vm, over. split; [unfold get_vamm in *; rewrite <- E3; exact Hv|]. split; [exact Hov|].
  destruct (close_position_tmp _ _ _ _ _ _ Ec) as (tm & Htmp & T1 & T2 & T3 & Hpos & Henv).
  rewrite E1 in T3. fold p in T3.
  destruct (over && (e_plr c <? e_dec c)) eqn:Eov; subst subs.
  - (* partial close *)
    split; [intros Hc; discriminate Hc|]. intros _.
    apply dispatch_single in Ed; [|reflexivity|reflexivity].
    destruct Ed as (k & wa & ev & wb & sb & _ & Ex & Er & n1 & Ed).
    unfold swap_output_msg in Ex, Er. cbn [sm_msg sm_id] in Ex, Er.
    apply exec_swap_output in Ex. destruct Ex as (vm0 & vm' & qa & ba & Hz & Hsw & -> & ->).
    destruct (swap_output_quote _ _ _ _ _ _ _ _ _ Hsw) as [-> _].
    assert (Er' : partial_close_position_reply (set_vamm w1 v vm') qa (sval (p_size p) * e_plr c / e_dec c) = Ok (wb, sb)) by exact Er.
    destruct (partial_close_position_reply_shape _ _ _ _ _ tm Er' Htmp) as (p' & Hw & Hadd & Hdir & _).
    cbv zeta in Hw, Hadd, Hdir. rewrite T1, T2 in Hw, Hadd, Hdir. rewrite (T3 ltac:(eexists; reflexivity)) in Hadd.
    pose proof (partial_close_position_reply_leafy _ _ _ _ _ Er') as Hlf.
    pose proof (dispatch_leafy_core _ _ _ _ _ _ _ _ Ed Hlf) as (Ee & _).
    assert (Hgp : forall sd, get_position (w_eng (set_vamm w1 v vm')) (w_env (set_vamm w1 v vm')) v t sd = p).
    { intros sd. unfold get_position, find_position, positions_of. cbn [w_eng set_vamm]. rewrite Hpos. fold (positions_of (w_eng w0) v). fold (find_position (w_eng w0) v t).
      rewrite E1. unfold p, read_position. destruct (find_position (w_eng w) v t) eqn:Ef; [reflexivity|].
      exfalso. apply Hnz. unfold p, read_position. rewrite Ef. reflexivity. }
    rewrite !Hgp in Hadd, Hdir.
    exists p'. rewrite Ee. split; [exact (writes_find _ _ _ _ _ Hw)|]. split; [exact Hdir|exact Hadd].
  - (* whole close *)
    split; [|intros Hc; discriminate Hc]. intros _.
    apply dispatch_single in Ed; [|reflexivity|reflexivity].
    destruct Ed as (k & wa & ev & wb & sb & _ & Ex & Er & n1 & Ed).
    unfold swap_output_msg in Ex, Er. cbn [sm_msg sm_id] in Ex, Er.
    apply exec_swap_output in Ex. destruct Ex as (vm0 & vm' & qa & ba & Hz & Hsw & -> & ->).
    assert (Er' : close_position_reply (set_vamm w1 v vm') ba qa = Ok (wb, sb)) by exact Er.
    pose proof (close_position_reply_shape _ _ _ _ _ tm Er' Htmp) as Hw. rewrite T1, T2 in Hw.
    pose proof (close_position_reply_leafy _ _ _ _ _ Er') as Hlf.
    pose proof (dispatch_leafy_core _ _ _ _ _ _ _ _ Ed Hlf) as (Ee & _).
    rewrite Ee. exact (writes_find _ _ _ _ _ Hw).
Qed.
