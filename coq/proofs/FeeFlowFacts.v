(* What an engine transaction pays to a third account (the fee pool), through the whole message tree: leaf messages
   pay what they say; a replying swap is worth what its reply (transitively) will pay, given by a predicate on the
   in-flight record.  Instantiated for OpenPosition: on every path - new position, increase, reduce, reversal with
   or without a re-opening leg - the fee pool receives the toll on the requested notional exactly once. *)
From MP.Model Require Import Prelude U128 SInt Feed Vamm VammOps Token World Engine Runtime.
From MP.Proofs Require Import Tactics MapFacts SIntFacts EngineGuards RuntimeFacts LedgerFacts ResidueFacts MirrorFacts MoreFacts
  CloseFacts FlowFacts CloseTxFacts PartiesFacts.

Ltac reply_if H := minv H; inv_ok; cbn [w_if set_eng]; try reflexivity.
Lemma contract_reply_if w c id r w' subs : contract_reply w c id r = Ok (w', subs) -> w_if w' = w_if w.
Proof.
  unfold contract_reply, engine_reply. intros H.
  destruct (c =? A_ENGINE); [|discriminate].
  destruct r as [ev|]; [|discriminate]. destruct ev; try discriminate.
  - destr_if_in H; [unfold update_position_reply in H; reply_if H|].
    destr_if_in H; [unfold update_position_reply in H; reply_if H|].
    destr_if_in H; [unfold reverse_position_reply in H; reply_if H|].
    destr_if_in H; [unfold close_position_reply in H; reply_if H|].
    destr_if_in H; [unfold partial_close_position_reply in H; reply_if H|].
    destr_if_in H; [unfold liquidate_reply in H; reply_if H|].
    destr_if_in H; [unfold partial_liquidation_reply in H; reply_if H|]. discriminate.
  - destr_if_in H; [|discriminate]. unfold pay_funding_reply in H. reply_if H.
Qed.

(* net amount the leaf message pays to `a` (a is not the engine, the fund or the fund's beneficiary) *)
Definition pays1 (a : addr) (s : submsg) : Z := paid_to a [s] - pulled_from a [s].

Fixpoint owed (pend : world -> msg -> Z -> Z -> Prop) (a : addr) (w : world) (subs : list submsg) (x : Z) : Prop :=
  match subs with
  | [] => x = 0
  | s :: rest =>
      if wants_ok (sm_reply s) then rest = [] /\ sm_reply s = RAlways /\ pend w (sm_msg s) (sm_id s) x
      else is_leaf (sm_msg s) = true /\ owed pend a w rest (x - pays1 a s)
  end.

Definition pend_closed (pend : world -> msg -> Z -> Z -> Prop) : Prop :=
  forall w w1 m id x, same_core w w1 -> pend w m id x -> pend w1 m id x.

Lemma owed_core pend a w w1 subs : pend_closed pend -> same_core w w1 -> forall x, owed pend a w subs x -> owed pend a w1 subs x.
Proof.
  intros HP Hc. induction subs as [|s rest IH]; intros x; cbn [owed]; [auto|].
  destruct (wants_ok (sm_reply s)).
  - intros (E & R & Q). split; [exact E|split; [exact R|eapply HP; eauto]].
  - intros (L & R). split; auto.
Qed.

Lemma owed_leafy pend a w l : Forall leafy l -> forall x, owed pend a w l x <-> x = paid_to a l - pulled_from a l.
Proof.
  induction 1 as [|s l [Hs1 Hs2] Hl IH]; intros x; cbn [owed paid_to pulled_from]; [lia|].
  rewrite Hs1. rewrite IH. unfold pays1. cbn [paid_to pulled_from]. split; [intros [_ E]; lia|intros E; split; [exact Hs2|lia]].
Qed.

Lemma owed_leafy_app pend a w l1 l2 : Forall leafy l1 -> forall x,
  owed pend a w (l1 ++ l2) x <-> owed pend a w l2 (x - (paid_to a l1 - pulled_from a l1)).
Proof.
  induction 1 as [|s l [Hs1 Hs2] Hl IH]; intros x; cbn [owed app paid_to pulled_from]; [replace (x - (0 - 0)) with x by lia; tauto|].
  rewrite Hs1. rewrite IH. unfold pays1. cbn [paid_to pulled_from].
  match goal with |- _ /\ owed _ _ _ _ ?u <-> owed _ _ _ _ ?v => replace u with v by lia end. tauto.
Qed.

Lemma dispatch_owed (pend : world -> msg -> Z -> Z -> Prop) (a : addr) :
  a <> A_ENGINE -> a <> A_IFUND ->
  pend_closed pend ->
  (forall w m id x, pend w m id x -> is_swap m = true) ->
  (forall w m id x w1 ev w2 subs, a <> if_engine (w_if w) -> pend w m id x -> exec_simple w A_ENGINE m = Ok (w1, ev) ->
     contract_reply w1 A_ENGINE id (Ok ev) = Ok (w2, subs) -> owed pend a w2 subs x) ->
  forall fuel f w n subs w' n' x,
    dispatch fuel f w n A_ENGINE subs = Ok (w', n') -> a <> if_engine (w_if w) -> owed pend a w subs x ->
    bal (w_tok w') a = bal (w_tok w) a + x /\ w_if w' = w_if w.
Proof.
  intros Ha1 Ha2 HP Hswap Hpair.
  induction fuel as [|k IH]; intros f w n subs w' n' x H HI Hr; [discriminate|].
  cbn [dispatch] in H. destruct subs as [|s rest]; [inv_ok; cbn [owed] in Hr; rewrite Hr; split; [lia|reflexivity]|].
  cbn [owed] in Hr.
  destruct (n =? f).
  - destruct (wants_err (sm_reply s)); [|discriminate].
    destruct (contract_reply_err w A_ENGINE (sm_id s) ESub) as [e' He]. rewrite He in H. discriminate.
  - destruct (wants_ok (sm_reply s)) eqn:Ewo.
    + destruct Hr as (-> & Hra & Hpe). rewrite Hra in H. cbn [wants_err] in H.
      pose proof (Hswap _ _ _ _ Hpe) as Hsw.
      destruct (sm_msg s) eqn:Em; try discriminate Hsw;
      (destruct (exec_simple w A_ENGINE _) as [[w1 ev]|e] eqn:Ex; cbn [bind fst snd] in H;
       [ destruct (contract_reply w1 A_ENGINE (sm_id s) (Ok ev)) as [[w2 s2]|] eqn:Er; cbn [bind fst snd] in H; [|discriminate];
         destruct (dispatch k f w2 (n + 1) A_ENGINE s2) as [[w3 n3]|] eqn:Ed; cbn [bind fst snd] in H; [|discriminate];
         pose proof (Hpair _ _ _ _ _ _ _ _ HI Hpe Ex Er) as Hr2;
         assert (Ht : w_tok w2 = w_tok w /\ w_if w2 = w_if w)
           by (split; [rewrite (contract_reply_tok _ _ _ _ _ _ Er); cbn [exec_simple] in Ex; minv Ex; inv_ok; reflexivity
                      |rewrite (contract_reply_if _ _ _ _ _ _ Er); exact (exec_simple_if _ _ _ _ _ Ex)]);
         destruct Ht as [T2 T3];
         apply IH with (x := x) in Ed; [|rewrite T3; exact HI|exact Hr2];
         destruct Ed as [B3 I3];
         destruct k as [|k2]; [discriminate|]; cbn [dispatch] in H; inv_ok;
         split; [rewrite B3, T2; reflexivity|rewrite I3; exact T3]
       | destruct (contract_reply_err w A_ENGINE (sm_id s) e) as [e' He]; rewrite He in H; discriminate ]).
    + destruct Hr as (Hlf & Hr).
      destruct (sm_msg s) eqn:Em; try discriminate Hlf.
      * (* Transfer *)
        destruct (exec_simple w A_ENGINE (MTransfer to amt)) as [[w1 ev]|e] eqn:Ex; cbn [bind fst snd] in H.
        -- pose proof (exec_leaf_core _ _ _ _ _ Ex eq_refl) as Hc. pose proof (exec_simple_if _ _ _ _ _ Ex) as I0.
           cbn [exec_simple] in Ex. inv_bind Ex. inv_ok.
           apply IH with (x := x - pays1 a s) in H; [|cbn [w_if set_tok]; exact HI|eapply owed_core; eauto].
           destruct H as [B I1]. split; [|rewrite I1; reflexivity]. rewrite B. cbn [w_tok set_tok]. rewrite (tok_move_bal _ _ _ _ _ a Hx).
           unfold pays1. cbn [paid_to pulled_from]. rewrite Em. unfold ind. rewrite (Z.eqb_sym to a).
           destruct (Z.eqb_spec a A_ENGINE); [contradiction|]. destruct (a =? to); lia.
        -- destruct (wants_err (sm_reply s)); [|discriminate].
           destruct (contract_reply_err w A_ENGINE (sm_id s) e) as [e' He]; rewrite He in H; discriminate.
      * (* TransferFrom *)
        destruct (exec_simple w A_ENGINE (MTransferFrom owner to amt)) as [[w1 ev]|e] eqn:Ex; cbn [bind fst snd] in H.
        -- pose proof (exec_leaf_core _ _ _ _ _ Ex eq_refl) as Hc. cbn [exec_simple] in Ex. inv_bind Ex. inv_ok.
           apply IH with (x := x - pays1 a s) in H; [|cbn [w_if set_tok]; exact HI|eapply owed_core; eauto].
           destruct H as [B I1]. split; [|rewrite I1; reflexivity]. rewrite B. cbn [w_tok set_tok]. rewrite (tok_move_from_bal _ _ _ _ _ _ a Hx).
           unfold pays1. cbn [paid_to pulled_from]. rewrite Em. unfold ind. rewrite (Z.eqb_sym to a).
           destruct (a =? to); destruct (a =? owner); lia.
        -- destruct (wants_err (sm_reply s)); [|discriminate].
           destruct (contract_reply_err w A_ENGINE (sm_id s) e) as [e' He]; rewrite He in H; discriminate.
      * (* insurance-fund draw: nothing for a *)
        destruct (target =? A_IFUND); cbn [bind] in H.
        -- destruct (if_withdraw w A_ENGINE amt) as [[w1 s1]|e] eqn:Ew; cbn [bind fst snd] in H.
           ++ pose proof Ew as Ew2. apply if_withdraw_leafy in Ew. destruct Ew as [-> Hs1'].
              destruct (dispatch k f w (n + 1) A_IFUND s1) as [[w2 n2]|e] eqn:Ed; cbn [bind fst snd] in H.
              ** pose proof (dispatch_leafy_core _ _ _ _ _ _ _ _ Ed Hs1') as Hc.
                 pose proof (dispatch_leafy_flow _ _ _ _ _ _ _ _ Ed Hs1') as [I2 B2].
                 apply IH with (x := x - pays1 a s) in H; [|rewrite I2; exact HI|eapply owed_core; eauto].
                 destruct H as [B I1]. split; [|rewrite I1; exact I2]. rewrite B, (B2 a).
                 unfold if_withdraw in Ew2. minv Ew2. inv_ok. cbn [flow sm_msg]. unfold ind.
                 destruct (Z.eqb_spec a (if_engine (w_if w))); [contradiction|]. destruct (Z.eqb_spec a A_IFUND); [contradiction|].
                 unfold pays1. cbn [paid_to pulled_from]. rewrite Em. lia.
              ** destruct (wants_err (sm_reply s)); [|discriminate].
                 destruct (contract_reply_err w A_ENGINE (sm_id s) e) as [e' He]; rewrite He in H; discriminate.
           ++ destruct (wants_err (sm_reply s)); [|discriminate].
              destruct (contract_reply_err w A_ENGINE (sm_id s) e) as [e' He]; rewrite He in H; discriminate.
        -- destruct (wants_err (sm_reply s)); [|discriminate].
           destruct (contract_reply_err w A_ENGINE (sm_id s) EDecode) as [e' He]; rewrite He in H; discriminate.
Qed.

(* ---------- the fee pool's share of an OpenPosition, on every path ---------- *)
Lemma avoids_nothing a l : Forall (avoids a) l -> paid_to a l = 0 /\ pulled_from a l = 0.
Proof.
  induction 1 as [|s l Hs Hl [IH1 IH2]]; cbn [paid_to pulled_from]; [split; reflexivity|].
  rewrite IH1, IH2. unfold avoids in Hs. unfold ind. destruct (sm_msg s); try (split; lia).
  - destruct (Z.eqb_spec to a); [contradiction|]. split; lia.
  - destruct Hs as [H1 H2]. destruct (Z.eqb_spec to a); [contradiction|]. destruct (Z.eqb_spec a owner); [congruence|]. split; lia.
Qed.

Definition toll_of (vm : vamm) (n : Z) : Z := fee_of vm n (v_toll (vc vm)).

Lemma fees_pool_net w from vamm notional msgs spread toll vm : 0 <= notional ->
  transfer_fees w from vamm notional = Ok (msgs, spread, toll) -> get_vamm w vamm = Ok vm ->
  let pool := e_feepool (ec (w_eng w)) in
  e_ifund (ec (w_eng w)) <> pool -> from <> pool ->
  paid_to pool msgs - pulled_from pool msgs = toll_of vm notional.
Proof.
  intros Hn H Hv pool H1 H2. subst pool.
  rewrite (paid_fees_pool _ _ _ _ _ _ _ Hn H H1).
  rewrite (pulled_fees_other _ _ _ _ _ _ _ (e_feepool (ec (w_eng w))) Hn H) by congruence.
  apply transfer_fees_spec in H; [|exact Hn]. destruct H as (v & Hv2 & -> & _). rewrite Hv in Hv2. injection Hv2 as <-.
  unfold toll_of, fee_of. lia.
Qed.

Lemma update_position_reply_pool w i o id w' subs tm vm :
  update_position_reply w i o id = Ok (w', subs) -> e_tmp (w_eng w) = Some tm ->
  get_vamm w (ts_vamm tm) = Ok vm -> 0 <= ts_open_notional tm ->
  ts_trader tm <> e_feepool (ec (w_eng w)) -> e_ifund (ec (w_eng w)) <> e_feepool (ec (w_eng w)) -> A_ENGINE <> e_feepool (ec (w_eng w)) ->
  Forall leafy subs /\
  paid_to (e_feepool (ec (w_eng w))) subs - pulled_from (e_feepool (ec (w_eng w))) subs =
    if ts_fees_paid tm then 0 else toll_of vm (ts_open_notional tm).
Proof.
  intros H Htmp Hv Hn Ht Hi He. split; [exact (update_position_reply_leafy _ _ _ _ _ _ H)|].
  unfold update_position_reply, need_tmp in H. rewrite Htmp in H. cbn [bind] in H.
  destruct (ts_fees_paid tm) eqn:Efp; cbn [negb] in H; arm H.
  all: rewrite ?paid_to_app, ?pulled_from_app.
  all: repeat match goal with
       | Hw : withdraw _ _ _ _ _ = Ok (_, ?m) |- context [paid_to ?a ?m] =>
           let A := fresh "A" in let B := fresh "B" in
           pose proof (avoids_nothing a m (avoids_withdraw _ _ _ _ _ _ _ _ Hw Ht)) as [A B]; rewrite ?A, ?B; clear A B
       end.
  all: try match goal with
       | Hf : transfer_fees ?w1 _ _ _ = Ok (?m, _, _) |- _ =>
           let A := fresh "A" in
           pose proof (fees_pool_net w1 _ _ _ _ _ _ vm Hn Hf Hv Hi Ht) as A; cbv zeta in A; cbn [w_eng set_eng store_position ec] in A
       end.
  all: unfold execute_transfer_from; repeat destr_if; cbn [paid_to pulled_from sm_msg app]; unfold ind.
  all: repeat match goal with |- context [?x =? ?y] => destruct (Z.eqb_spec x y) end; try lia; try congruence.
Qed.

From MP.Proofs Require Import MirrorReach BandFacts.

Definition swap_on (m : msg) (v : addr) : Prop :=
  match m with MSwapInput v' _ _ _ _ | MSwapOutput v' _ _ _ => v' = v | _ => False end.

(* what the reply to the pending swap of an OpenPosition will (transitively) pay to the fee pool *)
Definition pend_toll (a : addr) (w : world) (m : msg) (id : Z) (x : Z) : Prop :=
  (id = INCREASE_ID \/ id = DECREASE_ID \/ id = REVERSE_ID) /\
  exists tm vm, e_tmp (w_eng w) = Some tm /\ get_vamm w (ts_vamm tm) = Ok vm /\ swap_on m (ts_vamm tm) /\
    0 <= ts_open_notional tm /\ a = e_feepool (ec (w_eng w)) /\
    ts_trader tm <> a /\ e_ifund (ec (w_eng w)) <> a /\
    (id = REVERSE_ID -> ts_fees_paid tm = false) /\
    x = if ts_fees_paid tm then 0 else toll_of vm (ts_open_notional tm).

Lemma pend_toll_closed a : pend_closed (pend_toll a).
Proof.
  intros w w1 m id x (E1 & E2 & E3) (Hid & tm & vm & H1 & H2 & H3). split; [exact Hid|].
  exists tm, vm. rewrite E1. unfold get_vamm in *. rewrite E2. exact (conj H1 (conj H2 H3)).
Qed.

Lemma pend_toll_swap a w m id x : pend_toll a w m id x -> is_swap m = true.
Proof. intros (_ & tm & vm & _ & _ & Hs & _). destruct m; try contradiction; reflexivity. Qed.

Lemma toll_of_vc vm vm' n : vc vm' = vc vm -> toll_of vm' n = toll_of vm n.
Proof. intros E. unfold toll_of, fee_of. rewrite E. reflexivity. Qed.

Lemma pend_toll_pair a w m id x w1 ev w2 subs :
  a <> A_ENGINE ->
  pend_toll a w m id x -> exec_simple w A_ENGINE m = Ok (w1, ev) ->
  contract_reply w1 A_ENGINE id (Ok ev) = Ok (w2, subs) -> owed (pend_toll a) a w2 subs x.
Proof.
  intros HaE (Hid & tm & vm & Htmp & Hv & Hs & Hn & Ha & Ht & Hi & Hrev & Hx) Hex Hr.
  assert (Hsw : exists v vm' i o, w1 = set_vamm w v vm' /\ v = ts_vamm tm /\ vc vm' = vc vm /\ ev = EvSwap i o).
  { destruct m; try contradiction; cbn [swap_on] in Hs; subst v.
    - apply exec_swap_input in Hex. destruct Hex as (vm0 & vm' & qa & ba & Hz & Hsi & -> & ->).
      unfold get_vamm in Hv. rewrite Hz in Hv. injection Hv as <-.
      exists (ts_vamm tm), vm', qa, ba. repeat split. exact (swap_input_vc _ _ _ _ _ _ _ _ Hsi).
    - apply exec_swap_output in Hex. destruct Hex as (vm0 & vm' & qa & ba & Hz & Hso & -> & ->).
      unfold get_vamm in Hv. rewrite Hz in Hv. injection Hv as <-.
      exists (ts_vamm tm), vm', ba, qa. repeat split. exact (swap_output_vc _ _ _ _ _ _ _ Hso). }
  destruct Hsw as (v & vm' & i & o & -> & -> & Hvc & ->).
  assert (Htmp1 : e_tmp (w_eng (set_vamm w (ts_vamm tm) vm')) = Some tm) by exact Htmp.
  assert (Hv1 : get_vamm (set_vamm w (ts_vamm tm) vm') (ts_vamm tm) = Ok vm').
  { unfold get_vamm. cbn [w_vamms set_vamm]. rewrite zfind_zset_same. reflexivity. }
  assert (HaE' : A_ENGINE <> a) by congruence.
  destruct Hid as [ -> | [ -> | -> ] ].
  - assert (Hr' : update_position_reply (set_vamm w (ts_vamm tm) vm') i o INCREASE_ID = Ok (w2, subs)) by exact Hr.
    destruct (update_position_reply_pool _ _ _ _ _ _ tm vm' Hr' Htmp1 Hv1 Hn) as [Hl Hp];
      try (cbn [w_eng set_vamm]; rewrite <- Ha; assumption).
    apply owed_leafy; [exact Hl|]. cbn [w_eng set_vamm] in Hp. rewrite <- Ha in Hp. rewrite Hp, Hx. rewrite (toll_of_vc _ _ _ Hvc). reflexivity.
  - assert (Hr' : update_position_reply (set_vamm w (ts_vamm tm) vm') i o DECREASE_ID = Ok (w2, subs)) by exact Hr.
    destruct (update_position_reply_pool _ _ _ _ _ _ tm vm' Hr' Htmp1 Hv1 Hn) as [Hl Hp];
      try (cbn [w_eng set_vamm]; rewrite <- Ha; assumption).
    apply owed_leafy; [exact Hl|]. cbn [w_eng set_vamm] in Hp. rewrite <- Ha in Hp. rewrite Hp, Hx. rewrite (toll_of_vc _ _ _ Hvc). reflexivity.
  - assert (Hr' : reverse_position_reply (set_vamm w (ts_vamm tm) vm') i o = Ok (w2, subs)) by exact Hr.
    specialize (Hrev eq_refl). rewrite Hrev in Hx.
    destruct (reverse_position_reply_fees _ _ _ _ _ _ Hr' Htmp1) as (fmsgs & spread & toll & last & Hf & -> & Hlast).
    pose proof (leafy_fees _ _ _ _ _ _ _ Hf) as Hlf.
    pose proof (fees_pool_net _ _ _ _ _ _ _ vm' Hn Hf Hv1) as Hnet. cbv zeta in Hnet. cbn [w_eng set_vamm] in Hnet.
    rewrite <- Ha in Hnet. specialize (Hnet Hi Ht). rewrite (toll_of_vc _ _ _ Hvc) in Hnet.
    apply owed_leafy_app; [exact Hlf|]. rewrite Hnet, Hx.
    replace (toll_of vm (ts_open_notional tm) - toll_of vm (ts_open_notional tm)) with 0 by lia.
    destruct Hlast as [Hl1 | Hl2]; [destruct Hl1 as [[amt Hl1] _]; subst last | destruct Hl2 as (tm' & Htmp2 & Hfp2 & Hl2); subst last].
    + unfold execute_transfer. cbn [owed sm_reply wants_ok sm_msg is_leaf]. split; [reflexivity|]. unfold pays1. cbn [paid_to pulled_from sm_msg].
      destruct (Z.eqb_spec (ts_trader tm) a); [contradiction|]. lia.
    + unfold internal_increase_position, swap_input_msg. cbn [owed sm_reply wants_ok sm_msg sm_id].
      split; [reflexivity|]. split; [reflexivity|]. split; [left; reflexivity|].
      destruct (reverse_position_reply_reopen _ _ _ _ _ _ Hr' Htmp1) as (Hvm2 & _ & [[Hl0 _]|(fees & q & _ & Hsub & Hq & tm2 & Htm2 & Hv2 & Ht2)]).
      * exfalso. apply Forall_app in Hl0. destruct Hl0 as [_ Hl0]. inversion Hl0 as [|? ? [Hbad _] _]; subst. discriminate Hbad.
      * rewrite Htmp2 in Htm2. injection Htm2 as <-.
        apply app_inj_tail in Hsub. destruct Hsub as [_ Hsub]. unfold internal_increase_position, swap_input_msg in Hsub. injection Hsub as Hq2.
        exists tm', vm'. split; [exact Htmp2|]. split; [unfold get_vamm; rewrite Hvm2; rewrite Hv2; exact Hv1|].
        split; [cbn [swap_on]; symmetry; exact Hv2|]. split; [lia|].
        assert (Hec : ec (w_eng w2) = ec (w_eng w)).
        { unfold reverse_position_reply, need_tmp in Hr'. rewrite Htmp1 in Hr'. cbn [bind] in Hr'. arm Hr'; reflexivity. }
        rewrite Hec. split; [exact Ha|]. split; [rewrite Ht2; exact Ht|]. split; [exact Hi|]. split; [intros Hc; discriminate Hc|].
        rewrite Hfp2. reflexivity.
Qed.

Lemma open_position_shape w t v s m l lim f w' subs :
  e_open_position w t v s m l lim f = Ok (w', subs) ->
  exists msg, subs = [msg] /\ sm_reply msg = RAlways /\ swap_on (sm_msg msg) v /\
    (sm_id msg = INCREASE_ID \/ sm_id msg = DECREASE_ID \/ sm_id msg = REVERSE_ID) /\
    ec (w_eng w') = ec (w_eng w) /\ w_vamms w' = w_vamms w /\ w_tok w' = w_tok w /\ w_if w' = w_if w.
Proof.
  unfold e_open_position. intros H. arm H.
  all: eexists; split; [reflexivity|].
  all: match goal with |- context [if ?c then _ else _] => destruct c end;
       [cbn [internal_increase_position swap_input_msg sm_msg sm_id sm_reply swap_on]; repeat split; auto|].
  all: match goal with |- context [if ?c then _ else _] => destruct c end;
       [cbn [swap_input_msg sm_msg sm_id sm_reply swap_on]; repeat split; auto
       |cbn [swap_output_msg sm_msg sm_id sm_reply swap_on]; repeat split; auto].
Qed.

(* END TO END: every successful OpenPosition - new position, increase, reduce, reversal with or without a
   re-opening leg - pays the fee pool the toll on the requested notional, once *)
Theorem open_position_tx_toll f w t v s m l lim funds w' vm :
  exec_op f w (OEngine t (EOpenPosition v s m l lim) funds) = Ok w' ->
  get_vamm w v = Ok vm -> 0 <= m -> 0 <= l -> 0 < e_dec (ec (w_eng w)) ->
  let pool := e_feepool (ec (w_eng w)) in
  pool <> A_ENGINE -> pool <> A_IFUND -> pool <> if_engine (w_if w) -> e_ifund (ec (w_eng w)) <> pool -> t <> pool ->
  bal (w_tok w') pool = bal (w_tok w) pool + toll_of vm (m * l / e_dec (ec (w_eng w))).
Proof.
  intros H Hvm Hm Hl HD pool P1 P2 P3 P4 P5.
  cbn [exec_op] in H. revert H. generalize FUEL. intros fuel H.
  destruct (attach_funds w t A_ENGINE funds) as [w0|] eqn:Ea; [|discriminate]. cbn [bind] in H.
  cbn [engine_execute] in H.
  destruct (e_open_position w0 t v s m l lim funds) as [[w1 subs]|] eqn:Eo; [|discriminate]. cbn [bind fst snd] in H.
  destruct (dispatch fuel f w1 0 A_ENGINE subs) as [[wf nf]|] eqn:Ed; [|discriminate]. cbn [bind fst] in H. inv_ok.
  pose proof (attach_funds_core _ _ _ _ _ Ea) as [E1 E2].
  assert (E3 : w_vamms w0 = w_vamms w /\ w_if w0 = w_if w /\ bal (w_tok w0) pool = bal (w_tok w) pool).
  { unfold attach_funds in Ea. destruct (funds =? 0); [inv_ok; auto|]. minv Ea. inv_ok. cbn [w_vamms w_if w_tok set_tok]. repeat split.
    match goal with Hx : tok_move _ _ _ _ = Ok _ |- _ => rewrite (tok_move_bal _ _ _ _ _ pool Hx) end.
    unfold ind. destruct (Z.eqb_spec pool A_ENGINE); [contradiction|]. destruct (Z.eqb_spec pool t); [congruence|]. lia. }
  destruct E3 as (E3 & E4 & E5).
  destruct (open_position_shape _ _ _ _ _ _ _ _ _ _ Eo) as (msg & -> & Hra & Hsw & Hid & Hec & Hvs & Htk & Hif).
  destruct (open_position_tmp _ _ _ _ _ _ _ _ _ _ Eo) as (tm & Htmp & T1 & T2 & T3 & T4 & T5 & T6 & T7 & T8).
  assert (Hpend : pend_toll pool w1 (sm_msg msg) (sm_id msg) (toll_of vm (m * l / e_dec (ec (w_eng w))))).
  { split; [exact Hid|]. exists tm, vm. split; [exact Htmp|]. rewrite T1.
    split; [unfold get_vamm in *; rewrite Hvs, E3; exact Hvm|]. split; [exact Hsw|].
    rewrite T4, E1. split; [apply Z.div_pos; nia|]. rewrite Hec, E1. split; [reflexivity|].
    rewrite T2. split; [exact P5|]. split; [exact P4|]. split; [intros _; exact T7|]. rewrite T7. reflexivity. }
  assert (How : owed (pend_toll pool) pool w1 [msg] (toll_of vm (m * l / e_dec (ec (w_eng w))))).
  { cbn [owed]. rewrite Hra. cbn [wants_ok]. split; [reflexivity|]. split; [reflexivity|exact Hpend]. }
  destruct (dispatch_owed (pend_toll pool) pool P1 P2 (pend_toll_closed pool) (pend_toll_swap pool)
              (fun w m id x w1 ev w2 subs _ => pend_toll_pair pool w m id x w1 ev w2 subs P1)
              _ _ _ _ _ _ _ _ Ed ltac:(rewrite Hif, E4; exact P3) How) as [Hb _].
  rewrite Hb, Htk, E5. reflexivity.
Qed.

(* ---------- liquidations, funding settlements, deposits and withdrawals pay the fee pool nothing ---------- *)
From MP.Proofs Require Import LiqTxFacts.

Lemma liquidate_reply_avoids a w i o w' subs :
  liquidate_reply w i o = Ok (w', subs) -> (forall l, e_liq (w_eng w) = Some l -> l <> a) -> e_ifund (ec (w_eng w)) <> a ->
  Forall (avoids a) subs.
Proof.
  intros H Hl Hi. unfold liquidate_reply in H.
  destruct (e_liq (w_eng w)) as [lq|] eqn:Eliq; [|unfold need_liq in H; rewrite Eliq in H; minv H; discriminate].
  pose proof (Hl lq eq_refl) as Hlq.
  unfold need_liq in H. rewrite Eliq in H. arm H.
  all: avoid_goal.
Qed.

Lemma partial_liquidation_reply_avoids a w i o w' subs :
  partial_liquidation_reply w i o = Ok (w', subs) -> (forall l, e_liq (w_eng w) = Some l -> l <> a) -> e_ifund (ec (w_eng w)) <> a ->
  Forall (avoids a) subs.
Proof.
  intros H Hl Hi. unfold partial_liquidation_reply in H.
  destruct (e_liq (w_eng w)) as [lq|] eqn:Eliq; [|unfold need_liq in H; rewrite Eliq in H; minv H; discriminate].
  pose proof (Hl lq eq_refl) as Hlq.
  unfold need_liq in H. rewrite Eliq in H. arm H.
  all: avoid_goal.
Qed.

Lemma pay_funding_reply_avoids a w pf v w' subs :
  pay_funding_reply w pf v = Ok (w', subs) -> e_ifund (ec (w_eng w)) <> a -> Forall (avoids a) subs.
Proof.
  intros H Hi. unfold pay_funding_reply, append_cumulative_premium_fraction in H. arm H.
  all: avoid_goal.
Qed.

Definition pend_zero (a : addr) (w : world) (m : msg) (id : Z) (x : Z) : Prop :=
  x = 0 /\ is_swap m = true /\ e_ifund (ec (w_eng w)) <> a /\ (forall l, e_liq (w_eng w) = Some l -> l <> a) /\
  (id = LIQUIDATION_ID \/ id = PARTIAL_LIQUIDATION_ID \/ id = PAY_FUNDING_ID).

Lemma pend_zero_closed a : pend_closed (pend_zero a).
Proof. intros w w1 m id x (E1 & _ & _) H. unfold pend_zero in *. rewrite E1. exact H. Qed.

Lemma pend_zero_pair a w m id x w1 ev w2 subs :
  pend_zero a w m id x -> exec_simple w A_ENGINE m = Ok (w1, ev) ->
  contract_reply w1 A_ENGINE id (Ok ev) = Ok (w2, subs) -> owed (pend_zero a) a w2 subs x.
Proof.
  intros (-> & Hsw & Hi & Hl & Hid) Hex Hr.
  assert (He : w_eng w1 = w_eng w).
  { destruct m; try discriminate Hsw; cbn [exec_simple] in Hex; minv Hex; inv_ok; reflexivity. }
  rewrite <- He in Hi, Hl.
  assert (Hav : Forall leafy subs /\ Forall (avoids a) subs).
  { unfold contract_reply, engine_reply in Hr. destruct (A_ENGINE =? A_ENGINE); [|discriminate].
    destruct ev as [i o|pf v|]; [| |discriminate].
    - destruct Hid as [ -> | [ -> | -> ] ].
      + assert (Hr' : liquidate_reply w1 i o = Ok (w2, subs)) by exact Hr.
        split; [exact (liquidate_reply_leafy _ _ _ _ _ Hr')|exact (liquidate_reply_avoids a _ _ _ _ _ Hr' Hl Hi)].
      + assert (Hr' : partial_liquidation_reply w1 i o = Ok (w2, subs)) by exact Hr.
        split; [exact (partial_liquidation_reply_leafy _ _ _ _ _ Hr')|exact (partial_liquidation_reply_avoids a _ _ _ _ _ Hr' Hl Hi)].
      + discriminate Hr.
    - destruct Hid as [ -> | [ -> | -> ] ]; try discriminate Hr.
      assert (Hr' : pay_funding_reply w1 pf v = Ok (w2, subs)) by exact Hr.
      split; [exact (pay_funding_reply_leafy _ _ _ _ _ Hr')|exact (pay_funding_reply_avoids a _ _ _ _ _ Hr' Hi)]. }
  destruct Hav as [Hl1 Hav]. apply owed_leafy; [exact Hl1|]. destruct (avoids_nothing a subs Hav) as [-> ->]. reflexivity.
Qed.

Lemma attach_funds_third w s funds w0 a :
  attach_funds w s A_ENGINE funds = Ok w0 -> a <> s -> a <> A_ENGINE ->
  bal (w_tok w0) a = bal (w_tok w) a /\ w_if w0 = w_if w /\ w_eng w0 = w_eng w.
Proof.
  intros Ea H1 H2. unfold attach_funds in Ea. destruct (funds =? 0); [inv_ok; auto|]. minv Ea. inv_ok. cbn [w_if w_tok w_eng set_tok]. split; [|split; reflexivity].
  match goal with Hx : tok_move _ _ _ _ = Ok _ |- _ => rewrite (tok_move_bal _ _ _ _ _ a Hx) end.
  unfold ind. destruct (Z.eqb_spec a A_ENGINE); [contradiction|]. destruct (Z.eqb_spec a s); [contradiction|]. lia.
Qed.

(* END TO END: a Liquidate (full or partial) leaves the fee pool's balance as it was *)
Theorem liquidate_tx_no_fee f w s v t lim funds w' :
  exec_op f w (OEngine s (ELiquidate v t lim) funds) = Ok w' ->
  let pool := e_feepool (ec (w_eng w)) in
  pool <> A_ENGINE -> pool <> A_IFUND -> pool <> if_engine (w_if w) -> e_ifund (ec (w_eng w)) <> pool -> s <> pool ->
  bal (w_tok w') pool = bal (w_tok w) pool.
Proof.
  intros H pool P1 P2 P3 P4 P5.
  cbn [exec_op] in H. revert H. generalize FUEL. intros fuel H.
  destruct (attach_funds w s A_ENGINE funds) as [w0|] eqn:Ea; [|discriminate]. cbn [bind] in H.
  cbn [engine_execute] in H.
  destruct (e_liquidate w0 s v t lim) as [[w1 subs]|] eqn:Eo; [|discriminate]. cbn [bind fst snd] in H.
  destruct (dispatch fuel f w1 0 A_ENGINE subs) as [[wf nf]|] eqn:Ed; [|discriminate]. cbn [bind fst] in H. inv_ok.
  destruct (attach_funds_third _ _ _ _ pool Ea ltac:(congruence) P1) as (B0 & I0 & E0).
  pose proof (liquidate_branches _ _ _ _ _ _ _ Eo) as Hbr. cbv zeta in Hbr.
  assert (Hshape : exists msg, subs = [msg] /\ sm_reply msg = RAlways /\ is_swap (sm_msg msg) = true /\
            (sm_id msg = LIQUIDATION_ID \/ sm_id msg = PARTIAL_LIQUIDATION_ID \/ sm_id msg = PAY_FUNDING_ID) /\
            ec (w_eng w1) = ec (w_eng w0) /\ e_liq (w_eng w1) = Some s /\ w_tok w1 = w_tok w0 /\ w_if w1 = w_if w0).
  { destruct Hbr as [_ [[-> ->] | (r & Hpl & -> & ->)]].
    - eexists. split; [reflexivity|]. unfold internal_close_position, swap_output_msg. cbn [fst snd sm_reply sm_msg sm_id is_swap w_eng set_eng eng_set_tmp eng_set_liq ec e_liq w_tok w_if].
      repeat split; auto.
    - unfold partial_liquidation in Hpl. minv Hpl. inv_ok. eexists. split; [reflexivity|].
      unfold swap_output_msg. cbn [fst snd sm_reply sm_msg sm_id is_swap w_eng set_eng eng_set_tmp eng_set_liq ec e_liq w_tok w_if].
      repeat split; auto. }
  destruct Hshape as (msg & -> & Hra & Hsw & Hid & Hec & Hlq & Htk & Hif).
  assert (How : owed (pend_zero pool) pool w1 [msg] 0).
  { cbn [owed]. rewrite Hra. cbn [wants_ok]. split; [reflexivity|]. split; [reflexivity|].
    split; [reflexivity|]. split; [exact Hsw|]. rewrite Hec, E0. split; [exact P4|]. split; [|exact Hid].
    intros l Hl. rewrite Hlq in Hl. injection Hl as <-. exact P5. }
  destruct (dispatch_owed (pend_zero pool) pool P1 P2 (pend_zero_closed pool)
              (fun w m id x H => match H with conj _ (conj Hs _) => Hs end)
              (fun w m id x w1 ev w2 subs _ => pend_zero_pair pool w m id x w1 ev w2 subs)
              _ _ _ _ _ _ _ _ Ed ltac:(rewrite Hif, I0; exact P3) How) as [Hb _].
  rewrite Hb, Htk, B0. lia.
Qed.

(* END TO END: a PayFunding settlement leaves the fee pool's balance as it was *)
Theorem pay_funding_tx_no_fee f w s v funds w' :
  exec_op f w (OEngine s (EPayFunding v) funds) = Ok w' ->
  let pool := e_feepool (ec (w_eng w)) in
  pool <> A_ENGINE -> pool <> A_IFUND -> pool <> if_engine (w_if w) -> e_ifund (ec (w_eng w)) <> pool -> s <> pool ->
  (forall l, e_liq (w_eng w) = Some l -> l <> pool) ->
  bal (w_tok w') pool = bal (w_tok w) pool.
Proof.
  intros H pool P1 P2 P3 P4 P5 P6.
  cbn [exec_op] in H. revert H. generalize FUEL. intros fuel H.
  destruct (attach_funds w s A_ENGINE funds) as [w0|] eqn:Ea; [|discriminate]. cbn [bind] in H.
  cbn [engine_execute] in H.
  destruct (e_pay_funding w0 v) as [[w1 subs]|] eqn:Eo; [|discriminate]. cbn [bind fst snd] in H.
  destruct (dispatch fuel f w1 0 A_ENGINE subs) as [[wf nf]|] eqn:Ed; [|discriminate]. cbn [bind fst] in H. inv_ok.
  destruct (attach_funds_third _ _ _ _ pool Ea ltac:(congruence) P1) as (B0 & I0 & E0).
  unfold e_pay_funding in Eo. minv Eo. inv_ok.
  assert (How : owed (pend_zero pool) pool w1 [mkSub (MSettleFunding v) PAY_FUNDING_ID RAlways] 0).
  { cbn [owed sm_reply wants_ok sm_msg sm_id]. split; [reflexivity|]. split; [reflexivity|].
    split; [reflexivity|]. split; [reflexivity|]. rewrite E0. split; [exact P4|]. split; [exact P6|]. right. right. reflexivity. }
  destruct (dispatch_owed (pend_zero pool) pool P1 P2 (pend_zero_closed pool)
              (fun w m id x H => match H with conj _ (conj Hs _) => Hs end)
              (fun w m id x w1 ev w2 subs _ => pend_zero_pair pool w m id x w1 ev w2 subs)
              _ _ _ _ _ _ _ _ Ed ltac:(rewrite I0; exact P3) How) as [Hb _].
  rewrite Hb, B0. lia.
Qed.

(* END TO END: DepositMargin and WithdrawMargin leave the fee pool's balance as it was *)
Lemma leafy_avoids_tx f fuel w1 subs wf nf a :
  dispatch fuel f w1 0 A_ENGINE subs = Ok (wf, nf) -> Forall leafy subs -> Forall (avoids a) subs ->
  a <> A_ENGINE -> a <> A_IFUND -> a <> if_engine (w_if w1) ->
  bal (w_tok wf) a = bal (w_tok w1) a.
Proof.
  intros Ed Hl Hav P1 P2 P3.
  destruct (dispatch_owed (pend_zero a) a P1 P2 (pend_zero_closed a)
              (fun w m id x H => match H with conj _ (conj Hs _) => Hs end)
              (fun w m id x w1 ev w2 subs _ => pend_zero_pair a w m id x w1 ev w2 subs)
              _ _ _ _ _ _ _ 0 Ed P3) as [Hb _].
  - apply owed_leafy; [exact Hl|]. destruct (avoids_nothing a subs Hav) as [-> ->]. reflexivity.
  - rewrite Hb. lia.
Qed.

Theorem deposit_margin_tx_no_fee f w t v amount funds w' :
  exec_op f w (OEngine t (EDepositMargin v amount) funds) = Ok w' ->
  let pool := e_feepool (ec (w_eng w)) in
  pool <> A_ENGINE -> pool <> A_IFUND -> pool <> if_engine (w_if w) -> t <> pool ->
  bal (w_tok w') pool = bal (w_tok w) pool.
Proof.
  intros H pool P1 P2 P3 P5.
  cbn [exec_op] in H. revert H. generalize FUEL. intros fuel H.
  destruct (attach_funds w t A_ENGINE funds) as [w0|] eqn:Ea; [|discriminate]. cbn [bind] in H.
  cbn [engine_execute] in H.
  destruct (e_deposit_margin w0 t v amount funds) as [[w1 subs]|] eqn:Eo; [|discriminate]. cbn [bind fst snd] in H.
  destruct (dispatch fuel f w1 0 A_ENGINE subs) as [[wf nf]|] eqn:Ed; [|discriminate]. cbn [bind fst] in H. inv_ok.
  destruct (attach_funds_third _ _ _ _ pool Ea ltac:(congruence) P1) as (B0 & I0 & E0).
  assert (Hs : w_tok w1 = w_tok w0 /\ w_if w1 = w_if w0) by (unfold e_deposit_margin in Eo; arm Eo; split; reflexivity).
  destruct Hs as [Htk Hif].
  pose proof (deposit_margin_spec _ _ _ _ _ _ _ Eo) as (p & _ & _ & _ & _ & Hm).
  assert (Hsub : Forall leafy subs /\ Forall (avoids pool) subs).
  { destruct (t_native (w_tok w0)); [destruct Hm as [_ ->]; split; constructor|].
    subst subs. split; (constructor; [|constructor]); [apply noreply_leafy_transfer_from|apply avoids_transfer_from; congruence]. }
  destruct Hsub as [Hl Hav].
  rewrite (leafy_avoids_tx _ _ _ _ _ _ pool Ed Hl Hav P1 P2 ltac:(rewrite Hif, I0; exact P3)). rewrite Htk. exact B0.
Qed.

Theorem withdraw_margin_tx_no_fee f w t v amount funds w' :
  exec_op f w (OEngine t (EWithdrawMargin v amount) funds) = Ok w' ->
  let pool := e_feepool (ec (w_eng w)) in
  pool <> A_ENGINE -> pool <> A_IFUND -> pool <> if_engine (w_if w) -> t <> pool ->
  bal (w_tok w') pool = bal (w_tok w) pool.
Proof.
  intros H pool P1 P2 P3 P5.
  cbn [exec_op] in H. revert H. generalize FUEL. intros fuel H.
  destruct (attach_funds w t A_ENGINE funds) as [w0|] eqn:Ea; [|discriminate]. cbn [bind] in H.
  cbn [engine_execute] in H.
  destruct (e_withdraw_margin w0 t v amount) as [[w1 subs]|] eqn:Eo; [|discriminate]. cbn [bind fst snd] in H.
  destruct (dispatch fuel f w1 0 A_ENGINE subs) as [[wf nf]|] eqn:Ed; [|discriminate]. cbn [bind fst] in H. inv_ok.
  destruct (attach_funds_third _ _ _ _ pool Ea ltac:(congruence) P1) as (B0 & I0 & E0).
  assert (Hs : w_tok w1 = w_tok w0 /\ w_if w1 = w_if w0 /\ Forall leafy subs /\ Forall (avoids pool) subs).
  { unfold e_withdraw_margin in Eo. arm Eo.
    match goal with Hw : withdraw _ _ _ _ _ = Ok _ |- _ =>
      split; [reflexivity|split; [reflexivity|split; [exact (leafy_withdraw _ _ _ _ _ _ _ Hw)|exact (avoids_withdraw _ _ _ _ _ _ _ _ Hw P5)]]] end. }
  destruct Hs as (Htk & Hif & Hl & Hav).
  rewrite (leafy_avoids_tx _ _ _ _ _ _ pool Ed Hl Hav P1 P2 ltac:(rewrite Hif, I0; exact P3)). rewrite Htk. exact B0.
Qed.
