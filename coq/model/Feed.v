(* Price feeds: the repository's own feed (margined_pricefeed) and the mock used by the fixtures
   (mock_pricefeed).  One key per feed instance is modelled (the vAMM always asks for its base asset). *)
From MP.Model Require Import Prelude U128.

Record round := mkRound { r_price : Z; r_time : Z }.

(* real feed: owner (cw_controllers::Admin) and the submitted rounds, newest first.
   The stored vector starts with a dummy round 0 = {0, 0, 0}; round ids are positions. *)
Record rfeed := mkRFeed { rf_owner : option addr; rf_rounds : list round }.

Definition rf_init (sender : addr) : rfeed := mkRFeed (Some sender) [].

Definition is_admin (o : option addr) (s : addr) : bool :=
  match o with Some a => a =? s | None => false end.

Definition rf_append (f : rfeed) (sender : addr) (price t : Z) : res rfeed :=
  check is_admin (rf_owner f) sender else EGuard;
  Ok (mkRFeed (rf_owner f) (mkRound price t :: rf_rounds f)).

Fixpoint rf_append_list (f : rfeed) (pts : list (Z * Z)) : rfeed :=
  match pts with
  | [] => f
  | (p, t) :: rest => rf_append_list (mkRFeed (rf_owner f) (mkRound p t :: rf_rounds f)) rest
  end.

Definition rf_append_multiple (f : rfeed) (sender : addr) (prices times : list Z) : res rfeed :=
  check is_admin (rf_owner f) sender else EGuard;
  check (Z.of_nat (length prices) =? Z.of_nat (length times)) else EGuard;
  Ok (rf_append_list f (combine prices times)).

Definition rf_update_owner (f : rfeed) (sender new : addr) : res rfeed :=
  check is_admin (rf_owner f) sender else EGuard;
  Ok (mkRFeed (Some new) (rf_rounds f)).

(* (round_id, price, timestamp) *)
Definition rf_latest (f : rfeed) : Z * Z * Z :=
  match rf_rounds f with
  | [] => (0, 0, 0)
  | r :: _ => (Z.of_nat (length (rf_rounds f)), r_price r, r_time r)
  end.

Fixpoint drop {A} (n : nat) (l : list A) : list A :=
  match n, l with
  | O, _ => l
  | S k, [] => []
  | S k, _ :: t => drop k t
  end.

Definition rf_previous (f : rfeed) (n : Z) : res (Z * Z * Z) :=
  let len := Z.of_nat (length (rf_rounds f)) in
  check (n <? len) else EGuard;
  check (0 <=? n) else EGuard;
  let rest := drop (Z.to_nat n) (rf_rounds f) in
  Ok (rf_latest (mkRFeed (rf_owner f) rest)).

(* query_get_twap_price: `rounds` is what is left after the latest round was taken;
   the walk ends at round 1 (the oldest submission). *)
Fixpoint rf_twap_loop (rest : list round) (base ts cumulative weighted interval : Z) : res Z :=
  match rest with
  | [] => cdiv weighted cumulative
  | r :: rest' =>
      if r_time r <=? base then
        do d <- sub64 ts base;
        do m <- cmul (r_price r) d;
        do w <- cadd weighted m;
        cdiv w interval
      else
        do d <- sub64 ts (r_time r);
        do m <- cmul (r_price r) d;
        do w <- cadd weighted m;
        do c <- cadd cumulative d;
        rf_twap_loop rest' base (r_time r) c w interval
  end.

Definition rf_twap (f : rfeed) (now interval : Z) : res Z :=
  check negb (interval =? 0) else EGuard;
  do base <- sub64 now interval;
  match rf_rounds f with
  | [] => Err EGuard                                    (* "Insufficient history" *)
  | latest :: rest =>
      if (r_time latest <? base) || (Z.of_nat (length (rf_rounds f)) =? 1) then Ok (r_price latest)
      else
        do c <- sub64 now (r_time latest);
        do w <- cmul (r_price latest) c;
        rf_twap_loop rest base (r_time latest) c w interval
  end.

(* mock feed: a single stored price, no owner check on submissions *)
Record mfeed := mkMFeed { mf_owner : addr; mf_price : option Z }.
Definition mf_get (f : mfeed) : res Z :=
  match mf_price f with Some p => Ok p | None => Err EDecode end.

Inductive feed := FMock (m : mfeed) | FReal (r : rfeed).

(* what the vAMM sees: GetPrice decoded as a bare Uint128.  The real feed answers with a
   PriceData object, which does not decode. *)
Definition feed_price_as_u128 (f : feed) : res Z :=
  match f with
  | FMock m => mf_get m
  | FReal _ => Err EDecode
  end.

Definition feed_twap_as_u128 (f : feed) (now interval : Z) : res Z :=
  match f with
  | FMock m => mf_get m
  | FReal r => rf_twap r now interval
  end.

Definition feed_append (f : feed) (sender : addr) (price t : Z) : res feed :=
  match f with
  | FMock m => Ok (FMock (mkMFeed (mf_owner m) (Some price)))
  | FReal r => do r' <- rf_append r sender price t; Ok (FReal r')
  end.
