(* cosmwasm_std::Uint128 and u64 arithmetic, as Z with the range guard written out.
   Checked operations return Err EArith on overflow / underflow / division by zero;
   the panicking operators (+ - * / on Uint128) fail the same way: a panic aborts the
   call and the transaction reverts. *)
From MP.Model Require Import Prelude.

Definition MAXU : Z := 2 ^ 128.
Definition MAX64 : Z := 2 ^ 64.

Definition in_u128 (z : Z) : bool := (0 <=? z) && (z <? MAXU).

Definition cadd (a b : Z) : res Z := if a + b <? MAXU then Ok (a + b) else Err EArith.
Definition csub (a b : Z) : res Z := if b <=? a then Ok (a - b) else Err EArith.
Definition cmul (a b : Z) : res Z := if a * b <? MAXU then Ok (a * b) else Err EArith.
Definition cdiv (a b : Z) : res Z := if b =? 0 then Err EArith else Ok (a / b).

(* u64 (block time, height, periods) *)
Definition add64 (a b : Z) : res Z := if a + b <? MAX64 then Ok (a + b) else Err EArith.
Definition sub64 (a b : Z) : res Z := if b <=? a then Ok (a - b) else Err EArith.
Definition mul64 (a b : Z) : res Z := if a * b <? MAX64 then Ok (a * b) else Err EArith.
Definition div64 (a b : Z) : res Z := if b =? 0 then Err EArith else Ok (a / b).
