(* The deployment: five contracts, the collateral ledger, the block environment. *)
From MP.Model Require Import Prelude U128 SInt Feed Vamm Token.

Inductive side := Buy | Sell.
Definition side_to_direction (s : side) : direction := match s with Buy => AddToAmm | Sell => RemoveFromAmm end.
Definition direction_to_side (d : direction) : side := match d with AddToAmm => Buy | RemoveFromAmm => Sell end.
Definition position_to_side (size : sint) : side := if sgtb size szero then Sell else Buy.
Definition side_eqb (a b : side) : bool := match a, b with Buy, Buy | Sell, Sell => true | _, _ => false end.

Record position := mkPos {
  p_dir : direction; p_size : sint; p_margin : Z; p_notional : Z; p_lupf : sint; p_block : Z }.

(* what read_position returns when nothing is stored (vamm = trader = "") *)
Definition default_position : position := mkPos AddToAmm szero 0 0 szero 0.

Record ecfg := mkEcfg {
  e_owner : addr; e_ifund : addr; e_feepool : addr; e_dec : Z;
  e_init : Z; e_maint : Z; e_plr : Z; e_liqfee : Z }.

Record estate := mkEstate { e_oi : Z; e_bad_debt : Z; e_pause : bool }.

Record tmpswap := mkTmp {
  ts_vamm : addr; ts_trader : addr; ts_side : side; ts_margin_amount : Z; ts_leverage : Z;
  ts_open_notional : Z; ts_position_notional : Z; ts_upnl : sint; ts_mtv : sint; ts_fees_paid : bool }.

Record sentfunds := mkSent { sf_amount : Z; sf_required : Z }.

(* per-vAMM engine record: last restriction block, cumulative premium fractions (newest first) *)
Record vmap := mkVmap { vm_lrb : Z; vm_cpf : list sint }.
Definition default_vmap : vmap := mkVmap 0 [].

Record engine := mkEngine {
  ec : ecfg; es : estate;
  e_pos : list (addr * list (addr * position));     (* vamm -> trader -> position *)
  e_vmap : list (addr * vmap);
  e_tmp : option tmpswap; e_sent : option sentfunds; e_liq : option addr;
  e_pauser : option addr; e_wl : list addr }.

(* if_stored: the vAMM list has been saved at least once (queries fail before that) *)
Record ifund := mkIfund { if_owner : option addr; if_engine : addr; if_vamms : list addr; if_stored : bool }.
(* token ids: 0 = the deployment's collateral, k > 0 = other assets (balances not modelled) *)
Record feepool := mkFeepool { fp_owner : option addr; fp_tokens : list Z; fp_stored : bool }.

(* fixed contract addresses of a deployment *)
Definition A_ENGINE : addr := 2.
Definition A_IFUND : addr := 3.
Definition A_FEEPOOL : addr := 4.
Definition A_FEED : addr := 5.
Definition A_TOKEN : addr := 6.
(* vAMMs live at 11, 12, 13 *)

Record world := mkWorld {
  w_env : env; w_tok : token; w_eng : engine; w_vamms : list (addr * vamm);
  w_if : ifund; w_fp : feepool; w_feed : feed }.

Definition set_tok (w : world) (t : token) : world :=
  mkWorld (w_env w) t (w_eng w) (w_vamms w) (w_if w) (w_fp w) (w_feed w).
Definition set_eng (w : world) (e : engine) : world :=
  mkWorld (w_env w) (w_tok w) e (w_vamms w) (w_if w) (w_fp w) (w_feed w).
Definition set_vamm (w : world) (a : addr) (v : vamm) : world :=
  mkWorld (w_env w) (w_tok w) (w_eng w) (zset a v (w_vamms w)) (w_if w) (w_fp w) (w_feed w).
Definition set_if (w : world) (i : ifund) : world :=
  mkWorld (w_env w) (w_tok w) (w_eng w) (w_vamms w) i (w_fp w) (w_feed w).
Definition set_fp (w : world) (f : feepool) : world :=
  mkWorld (w_env w) (w_tok w) (w_eng w) (w_vamms w) (w_if w) f (w_feed w).
Definition set_feed (w : world) (f : feed) : world :=
  mkWorld (w_env w) (w_tok w) (w_eng w) (w_vamms w) (w_if w) (w_fp w) f.
Definition set_env (w : world) (e : env) : world :=
  mkWorld e (w_tok w) (w_eng w) (w_vamms w) (w_if w) (w_fp w) (w_feed w).

(* a smart query to an address that is not a vAMM fails *)
Definition get_vamm (w : world) (a : addr) : res vamm :=
  match zfind a (w_vamms w) with Some v => Ok v | None => Err EDecode end.

(* the oracle as the vAMM at address `a` sees it *)
Definition oracle_of (w : world) (v : vamm) : oracle :=
  if v_feed (vc v) =? A_FEED then
    mkOracle (feed_price_as_u128 (w_feed w)) (fun i => feed_twap_as_u128 (w_feed w) (now (w_env w)) i)
  else mkOracle (Err EDecode) (fun _ => Err EDecode).

(* engine-side setters *)
Definition eng_set_state (e : engine) (s : estate) : engine :=
  mkEngine (ec e) s (e_pos e) (e_vmap e) (e_tmp e) (e_sent e) (e_liq e) (e_pauser e) (e_wl e).
Definition eng_set_cfg (e : engine) (c : ecfg) : engine :=
  mkEngine c (es e) (e_pos e) (e_vmap e) (e_tmp e) (e_sent e) (e_liq e) (e_pauser e) (e_wl e).
Definition eng_set_tmp (e : engine) (t : option tmpswap) : engine :=
  mkEngine (ec e) (es e) (e_pos e) (e_vmap e) t (e_sent e) (e_liq e) (e_pauser e) (e_wl e).
Definition eng_set_sent (e : engine) (s : option sentfunds) : engine :=
  mkEngine (ec e) (es e) (e_pos e) (e_vmap e) (e_tmp e) s (e_liq e) (e_pauser e) (e_wl e).
Definition eng_set_liq (e : engine) (l : option addr) : engine :=
  mkEngine (ec e) (es e) (e_pos e) (e_vmap e) (e_tmp e) (e_sent e) l (e_pauser e) (e_wl e).
Definition eng_set_pauser (e : engine) (p : option addr) : engine :=
  mkEngine (ec e) (es e) (e_pos e) (e_vmap e) (e_tmp e) (e_sent e) (e_liq e) p (e_wl e).
Definition eng_set_wl (e : engine) (l : list addr) : engine :=
  mkEngine (ec e) (es e) (e_pos e) (e_vmap e) (e_tmp e) (e_sent e) (e_liq e) (e_pauser e) l.
Definition eng_set_vmap (e : engine) (v : addr) (m : vmap) : engine :=
  mkEngine (ec e) (es e) (e_pos e) (zset v m (e_vmap e)) (e_tmp e) (e_sent e) (e_liq e) (e_pauser e) (e_wl e).

Definition positions_of (e : engine) (v : addr) : list (addr * position) :=
  match zfind v (e_pos e) with Some l => l | None => [] end.
Definition find_position (e : engine) (v t : addr) : option position := zfind t (positions_of e v).
Definition read_position (e : engine) (v t : addr) : position :=
  match find_position e v t with Some p => p | None => default_position end.
Definition store_position (e : engine) (v t : addr) (p : position) : engine :=
  mkEngine (ec e) (es e) (zset v (zset t p (positions_of e v)) (e_pos e)) (e_vmap e)
           (e_tmp e) (e_sent e) (e_liq e) (e_pauser e) (e_wl e).
Definition remove_position (e : engine) (v t : addr) : engine :=
  mkEngine (ec e) (es e) (zset v (zdel t (positions_of e v)) (e_pos e)) (e_vmap e)
           (e_tmp e) (e_sent e) (e_liq e) (e_pauser e) (e_wl e).
Definition read_vmap (e : engine) (v : addr) : vmap :=
  match zfind v (e_vmap e) with Some m => m | None => default_vmap end.

(* get_position: a missing record is completed with the call's vamm/trader/side/height *)
Definition get_position (e : engine) (en : env) (v t : addr) (s : side) : position :=
  match find_position e v t with
  | Some p => p
  | None => mkPos (side_to_direction s) szero 0 0 szero (height en)
  end.
