(* The collateral ledger: cw20-base (balances + allowances towards a spender) or the bank module
   (balances; funds attached to an execute move before the handler runs). *)
From MP.Model Require Import Prelude U128.

Record token := mkToken {
  t_native : bool;
  t_bal : list (addr * Z);
  t_allow : list (addr * Z)        (* owner -> allowance granted to the margin engine; absent = none *)
}.

Definition bal (t : token) (a : addr) : Z := match zfind a (t_bal t) with Some b => b | None => 0 end.

Definition set_bal (t : token) (a : addr) (v : Z) : token :=
  mkToken (t_native t) (zset a v (t_bal t)) (t_allow t).

(* both cw20 `Transfer` and bank `Send` reject a zero amount and an insufficient balance *)
Definition tok_move (t : token) (from to amt : Z) : res token :=
  check negb (amt =? 0) else ESub;
  check (amt <=? bal t from) else ESub;
  let t1 := set_bal t from (bal t from - amt) in
  do nb <- cadd (bal t1 to) amt;
  Ok (set_bal t1 to nb).

(* cw20 `TransferFrom` by the engine: the allowance entry must exist and cover the amount *)
Definition tok_move_from (t : token) (spender_is_engine : bool) (owner to amt : Z) : res token :=
  check negb (t_native t) else ESub;
  check spender_is_engine else ESub;
  match zfind owner (t_allow t) with
  | None => Err ESub
  | Some a =>
      check (amt <=? a) else ESub;
      check (amt <=? bal t owner) else ESub;
      let t1 := mkToken (t_native t) (t_bal t) (zset owner (a - amt) (t_allow t)) in
      let t2 := set_bal t1 owner (bal t1 owner - amt) in
      do nb <- cadd (bal t2 to) amt;
      Ok (set_bal t2 to nb)
  end.

Definition tok_increase_allowance (t : token) (owner amt : Z) : res token :=
  check negb (t_native t) else ESub;
  let cur := match zfind owner (t_allow t) with Some a => a | None => 0 end in
  do n <- cadd cur amt;
  Ok (mkToken (t_native t) (t_bal t) (zset owner n (t_allow t))).

Definition tok_mint (t : token) (to amt : Z) : res token :=
  do nb <- cadd (bal t to) amt; Ok (set_bal t to nb).

Fixpoint sum_bal (l : list (addr * Z)) : Z :=
  match l with [] => 0 | (_, b) :: r => b + sum_bal r end.
Definition total_supply (t : token) : Z := sum_bal (t_bal t).
