(* margined_vamm: constant-product virtual AMM.  Transcribed from contract.rs, handle.rs,
   utils.rs, query.rs, state.rs.  Oracle answers are passed in (they come from the feed). *)
From MP.Model Require Import Prelude U128 SInt Feed.

Inductive direction := AddToAmm | RemoveFromAmm.
Definition dir_eqb (a b : direction) : bool :=
  match a, b with AddToAmm, AddToAmm | RemoveFromAmm, RemoveFromAmm => true | _, _ => false end.
Definition flip (d : direction) : direction :=
  match d with AddToAmm => RemoveFromAmm | RemoveFromAmm => AddToAmm end.

Record vcfg := mkVcfg {
  v_engine : addr; v_ifund : addr; v_feed : addr;
  v_hold_cap : Z; v_oi_cap : Z;
  v_dec : Z; v_toll : Z; v_spread : Z; v_fluct : Z;
  v_twap_interval : Z; v_fperiod : Z; v_fbuffer : Z }.

Record vstate := mkVstate {
  v_open : bool; v_q : Z; v_b : Z; v_total : sint; v_frate : sint; v_next_funding : Z }.

Record snapshot := mkSnap { s_q : Z; s_b : Z; s_time : Z; s_height : Z }.

(* snaps: newest first; the stored counter is the length *)
Record vamm := mkVamm { vc : vcfg; vs : vstate; snaps : list snapshot; v_owner : option addr }.

Record env := mkEnv { now : Z; height : Z }.

Record oracle := mkOracle { o_price : res Z; o_twap : Z -> res Z }.

Definition ONE_HOUR : Z := 3600.
Definition ONE_DAY : Z := 86400.
Definition ONE_MINUTE : Z := 60.
Definition ONE_WEEK : Z := 604800.
Definition FIFTEEN_MINUTES : Z := 900.

(* ---------- validate.rs ---------- *)
Definition validate_decimal_places (d : Z) : res Z :=
  check negb (d <? 6) else EGuard;
  check (10 ^ d <? MAXU) else EArith;
  Ok (10 ^ d).
Definition validate_ratio (v dec : Z) : res unit := check negb (dec <? v) else EGuard; Ok tt.
Definition validate_non_fraction (v dec : Z) : res unit := check negb (v <? dec) else EGuard; Ok tt.
Definition validate_margin_ratios (initial maintenance : Z) : res unit :=
  check negb (initial <? maintenance) else EGuard; Ok tt.

(* ---------- instantiate ---------- *)
Record vinit := mkVinit {
  i_decimals : Z; i_feed : addr; i_engine : option addr; i_ifund : option addr;
  i_q : Z; i_b : Z; i_fperiod : Z; i_toll : Z; i_spread : Z; i_fluct : Z }.

Definition NOADDR : addr := 0.

Definition vamm_instantiate (e : env) (sender : addr) (m : vinit) : res vamm :=
  do dec <- validate_decimal_places (i_decimals m);
  do _ <- validate_ratio (i_toll m) dec;
  do _ <- validate_ratio (i_spread m) dec;
  do _ <- validate_ratio (i_fluct m) dec;
  do _ <- validate_non_fraction (i_b m) dec;
  do _ <- validate_non_fraction (i_q m) dec;
  let c := mkVcfg (match i_engine m with Some a => a | None => NOADDR end)
                  (match i_ifund m with Some a => a | None => NOADDR end)
                  (i_feed m) 0 0 dec (i_toll m) (i_spread m) (i_fluct m)
                  ONE_HOUR (i_fperiod m) (i_fperiod m / 2) in
  let s := mkVstate false (i_q m) (i_b m) szero szero 0 in
  Ok (mkVamm c s [mkSnap (i_q m) (i_b m) (now e) (height e)] (Some sender)).

(* ---------- pricing (handle.rs) ---------- *)
Definition modulo_dec (a b dec : Z) : res Z :=
  do ad <- cmul a dec;
  do integral <- cdiv ad b;
  do p <- cmul b integral;
  csub ad p.

Definition input_price (dec : Z) (d : direction) (quote q b : Z) : res Z :=
  if quote =? 0 then Ok 0 else
  do qb <- cmul q b;
  do k <- cdiv qb dec;
  do q' <- match d with AddToAmm => cadd q quote | RemoveFromAmm => csub q quote end;
  do kd <- cmul k dec;
  do b' <- cdiv kd q';
  let bought := if b <? b' then b' - b else b - b' in
  do rem <- modulo_dec k q' dec;
  if negb (rem =? 0) then
    match d with AddToAmm => csub bought 1 | RemoveFromAmm => cadd bought 1 end
  else Ok bought.

Definition output_price (dec : Z) (d : direction) (base q b : Z) : res Z :=
  if base =? 0 then Ok 0 else
  do qb <- cmul q b;
  do k <- cdiv qb dec;
  do b' <- match d with AddToAmm => cadd b base | RemoveFromAmm => csub b base end;
  do kd <- cmul k dec;
  do q' <- cdiv kd b';
  let sold := if q <? q' then q' - q else q - q' in
  do rem <- modulo_dec k b' dec;
  if negb (rem =? 0) then
    match d with AddToAmm => csub sold 1 | RemoveFromAmm => cadd sold 1 end
  else Ok sold.

(* ---------- utils.rs ---------- *)
Definition spot_of (dec q b : Z) : res Z := do m <- cmul q dec; cdiv m b.

Definition price_boundaries (v : vamm) (e : env) : res (Z * Z) :=
  match snaps v with
  | [] => Err EDecode
  | latest :: older =>
      let ref :=
        if (s_height latest =? height e) then
          match older with prev :: _ => prev | [] => latest end
        else latest in
      let dec := v_dec (vc v) in
      do last <- spot_of dec (s_q ref) (s_b ref);
      do up <- cadd dec (v_fluct (vc v));
      do lo <- csub dec (v_fluct (vc v));
      do u1 <- cmul last up; do upper <- cdiv u1 dec;
      do l1 <- cmul last lo; do lower <- cdiv l1 dec;
      Ok (upper, lower)
  end.

Definition out_of_band (p upper lower : Z) : bool := (upper <? p) || (p <? lower).

Definition check_fluctuation (v : vamm) (e : env) (d : direction) (qa ba : Z) (can_go_over : bool) : res unit :=
  let c := vc v in let s := vs v in
  if v_fluct c =? 0 then Ok tt else
  do ul <- price_boundaries v e;
  let '(upper, lower) := ul in
  do cur <- spot_of (v_dec c) (v_q s) (v_b s);
  check negb (out_of_band cur upper lower) else EGuard;
  if can_go_over then Ok tt else
  do price <- match d with
              | AddToAmm => do q' <- cadd (v_q s) qa; do m <- cmul q' (v_dec c); do b' <- csub (v_b s) ba; cdiv m b'
              | RemoveFromAmm => do q' <- csub (v_q s) qa; do m <- cmul q' (v_dec c); do b' <- cadd (v_b s) ba; cdiv m b'
              end;
  check negb (out_of_band price upper lower) else EGuard;
  Ok tt.

Definition add_reserve_snapshot (sn : list snapshot) (e : env) (q b : Z) : res (list snapshot) :=
  match sn with
  | [] => Err EDecode
  | latest :: older =>
      if s_height latest =? height e then Ok (mkSnap q b (s_time latest) (s_height latest) :: older)
      else Ok (mkSnap q b (now e) (height e) :: sn)
  end.

Definition set_vs_reserves (s : vstate) (q b : Z) (t : sint) : vstate :=
  mkVstate (v_open s) q b t (v_frate s) (v_next_funding s).

Definition update_reserve (v : vamm) (e : env) (d : direction) (qa ba : Z) (can_go_over : bool) : res vamm :=
  do _ <- check_fluctuation v e d qa ba can_go_over;
  let s := vs v in
  do s' <- match d with
           | AddToAmm =>
               do q' <- cadd (v_q s) qa; do b' <- csub (v_b s) ba;
               do t <- sadd (v_total s) (spos ba);
               Ok (set_vs_reserves s q' b' t)
           | RemoveFromAmm =>
               do b' <- cadd (v_b s) ba; do q' <- csub (v_q s) qa;
               do t <- ssub (v_total s) (spos ba);
               Ok (set_vs_reserves s q' b' t)
           end;
  do sn <- add_reserve_snapshot (snaps v) e (v_q s') (v_b s');
  Ok (mkVamm (vc v) s' sn (v_owner v)).

(* ---------- execute: swaps ---------- *)
(* result: new state and the (quote, base) amounts reported in the event *)
Definition swap_input (v : vamm) (e : env) (sender : addr) (d : direction) (quote limit : Z) (can_go_over : bool)
  : res (vamm * (Z * Z)) :=
  check v_open (vs v) else EGuard;
  check (sender =? v_engine (vc v)) else EGuard;
  do base <- input_price (v_dec (vc v)) d quote (v_q (vs v)) (v_b (vs v));
  do _ <- (if negb (limit =? 0) then
             match d with
             | AddToAmm => check negb (base <? limit) else EGuard; Ok tt
             | RemoveFromAmm => check negb (limit <? base) else EGuard; Ok tt
             end
           else Ok tt);
  do v' <- update_reserve v e d quote base can_go_over;
  Ok (v', (quote, base)).

Definition swap_output (v : vamm) (e : env) (sender : addr) (d : direction) (base limit : Z)
  : res (vamm * (Z * Z)) :=
  check v_open (vs v) else EGuard;
  check (sender =? v_engine (vc v)) else EGuard;
  let ud := flip d in
  do quote <- output_price (v_dec (vc v)) d base (v_q (vs v)) (v_b (vs v));
  do _ <- (if negb (limit =? 0) then
             match ud with
             | RemoveFromAmm => check negb (quote <? limit) else EGuard; Ok tt
             | AddToAmm => check negb (limit <? quote) else EGuard; Ok tt
             end
           else Ok tt);
  do v' <- update_reserve v e ud quote base true;
  Ok (v', (quote, base)).

(* ---------- TWAP (utils.rs calc_twap) ---------- *)
Inductive twap_opt := TwReserve | TwInput (d : direction) (amount : Z) (quote : bool).

Definition snapshot_price (dec : Z) (o : twap_opt) (s : snapshot) : res Z :=
  match o with
  | TwReserve => spot_of dec (s_q s) (s_b s)
  | TwInput d amount quote =>
      if amount =? 0 then Ok 0
      else if quote then input_price dec d amount (s_q s) (s_b s)
      else output_price dec d amount (s_q s) (s_b s)
  end.

Fixpoint twap_loop (dec : Z) (o : twap_opt) (rest : list snapshot)
                   (base prev period weighted interval : Z) : res Z :=
  match rest with
  | [] => cdiv weighted period
  | s :: rest' =>
      do p <- snapshot_price dec o s;
      if s_time s <=? base then
        do d <- sub64 prev base;
        do m <- cmul p d;
        do w <- cadd weighted m;
        cdiv w interval
      else
        do d <- sub64 prev (s_time s);
        do m <- cmul p d;
        do w <- cadd weighted m;
        do per <- cadd period d;
        twap_loop dec o rest' base (s_time s) per w interval
  end.

Definition calc_twap (v : vamm) (e : env) (o : twap_opt) (interval : Z) : res Z :=
  match snaps v with
  | [] => Err EDecode
  | cur :: rest =>
      let dec := v_dec (vc v) in
      do p <- snapshot_price dec o cur;
      if interval =? 0 then Ok p else
      do base <- sub64 (now e) interval;
      if (Z.of_nat (length (snaps v)) =? 1) || (s_time cur <=? base) then Ok p else
      do period <- sub64 (now e) (s_time cur);
      do w <- cmul p period;
      twap_loop dec o rest base (s_time cur) period w interval
  end.

(* ---------- queries ---------- *)
Definition q_spot (v : vamm) : res Z := spot_of (v_dec (vc v)) (v_q (vs v)) (v_b (vs v)).
Definition q_input_amount (v : vamm) (d : direction) (amt : Z) : res Z :=
  input_price (v_dec (vc v)) d amt (v_q (vs v)) (v_b (vs v)).
Definition q_output_amount (v : vamm) (d : direction) (amt : Z) : res Z :=
  output_price (v_dec (vc v)) d amt (v_q (vs v)) (v_b (vs v)).
Definition q_input_price (v : vamm) (d : direction) (amt : Z) : res Z :=
  do out <- q_input_amount v d amt;
  if out =? 0 then Ok 0 else do m <- cmul amt (v_dec (vc v)); cdiv m out.
Definition q_output_price (v : vamm) (d : direction) (amt : Z) : res Z :=
  do out <- q_output_amount v d amt;
  if out =? 0 then Ok 0 else do m <- cmul amt (v_dec (vc v)); cdiv m out.
Definition q_twap_price (v : vamm) (e : env) (interval : Z) : res Z := calc_twap v e TwReserve interval.
Definition q_input_twap (v : vamm) (e : env) (d : direction) (amt : Z) : res Z :=
  calc_twap v e (TwInput d amt true) FIFTEEN_MINUTES.
Definition q_output_twap (v : vamm) (e : env) (d : direction) (amt : Z) : res Z :=
  calc_twap v e (TwInput d amt false) FIFTEEN_MINUTES.

(* (toll, spread) *)
Definition q_calc_fee (v : vamm) (quote : Z) : res (Z * Z) :=
  if quote =? 0 then Ok (0, 0) else
  do t1 <- cmul quote (v_toll (vc v)); do toll <- cdiv t1 (v_dec (vc v));
  do s1 <- cmul quote (v_spread (vc v)); do spread <- cdiv s1 (v_dec (vc v));
  Ok (toll, spread).

Definition q_is_over_spread_limit (v : vamm) (orc : oracle) : res bool :=
  do op <- o_price orc;
  check negb (op =? 0) else EGuard;
  do mp <- q_spot v;
  do diff <- ssub (spos mp) (spos op);
  do sc <- smul diff (spos (v_dec (vc v)));
  do cur <- sdiv sc (spos op);
  do mx <- schecked_div (spos (v_dec (vc v))) (spos 10);
  Ok (sgeb (sabs cur) mx).

Definition q_is_over_fluctuation_limit (v : vamm) (e : env) (d : direction) (base : Z) : res bool :=
  let c := vc v in let s := vs v in
  if v_fluct c =? 0 then Ok false else
  do ul <- price_boundaries v e;
  let '(upper, lower) := ul in
  do quote <- q_output_amount v d base;
  do price <- match d with
              | RemoveFromAmm => do q' <- cadd (v_q s) quote; do m <- cmul q' (v_dec c); do b' <- csub (v_b s) base; cdiv m b'
              | AddToAmm => do q' <- csub (v_q s) quote; do m <- cmul q' (v_dec c); do b' <- cadd (v_b s) base; cdiv m b'
              end;
  Ok (out_of_band price upper lower).

(* ---------- execute: funding, open/close, config, owner ---------- *)
(* result: new state and the premium fraction reported in the event *)
Definition settle_funding (v : vamm) (e : env) (sender : addr) (orc : oracle) : res (vamm * sint) :=
  let c := vc v in let s := vs v in
  check v_open s else EGuard;
  check (sender =? v_engine c) else EGuard;
  check negb (now e <? v_next_funding s) else EGuard;
  do underlying <- o_twap orc (v_twap_interval c);
  do index <- q_twap_price v e (v_twap_interval c);
  do premium <- schecked_sub (spos index) (spos underlying);
  do p1 <- schecked_mul premium (spos (v_fperiod c));
  do pf <- schecked_div p1 (spos ONE_DAY);
  do f1 <- schecked_mul pf (spos (v_dec c));
  do frate <- schecked_div f1 (spos underlying);
  do min_next <- add64 (now e) (v_fbuffer c);
  do n1 <- add64 (now e) (v_fperiod c);
  let next := n1 / ONE_HOUR * ONE_HOUR in
  let nft := if min_next <? next then next else min_next in
  Ok (mkVamm c (mkVstate (v_open s) (v_q s) (v_b s) (v_total s) frate nft) (snaps v) (v_owner v), pf).

Definition set_open (v : vamm) (e : env) (sender : addr) (open : bool) : res vamm :=
  let c := vc v in let s := vs v in
  check negb ((negb (is_admin (v_owner v) sender) && negb (sender =? v_ifund c)) || Bool.eqb (v_open s) open) else EGuard;
  do nft <- if open then add64 (now e) (v_fperiod c / ONE_HOUR * ONE_HOUR) else Ok (v_next_funding s);
  Ok (mkVamm c (mkVstate open (v_q s) (v_b s) (v_total s) (v_frate s) nft) (snaps v) (v_owner v)).

Record vupdate := mkVupdate {
  u_hold_cap : option Z; u_oi_cap : option Z; u_toll : option Z; u_spread : option Z; u_fluct : option Z;
  u_engine : option addr; u_ifund : option addr; u_feed : option addr; u_twap_interval : option Z }.

Definition opt_or {A} (o : option A) (d : A) : A := match o with Some a => a | None => d end.

Definition vamm_update_config (v : vamm) (sender : addr) (u : vupdate) : res vamm :=
  let c := vc v in
  check is_admin (v_owner v) sender else EGuard;
  do _ <- match u_toll u with Some r => validate_ratio r (v_dec c) | None => Ok tt end;
  do _ <- match u_spread u with Some r => validate_ratio r (v_dec c) | None => Ok tt end;
  do _ <- match u_fluct u with Some r => validate_ratio r (v_dec c) | None => Ok tt end;
  do _ <- match u_twap_interval u with
          | Some i => check ((ONE_MINUTE <=? i) && (i <=? ONE_WEEK)) else EGuard; Ok tt
          | None => Ok tt end;
  let c' := mkVcfg (opt_or (u_engine u) (v_engine c)) (opt_or (u_ifund u) (v_ifund c)) (opt_or (u_feed u) (v_feed c))
                   (opt_or (u_hold_cap u) (v_hold_cap c)) (opt_or (u_oi_cap u) (v_oi_cap c))
                   (v_dec c) (opt_or (u_toll u) (v_toll c)) (opt_or (u_spread u) (v_spread c))
                   (opt_or (u_fluct u) (v_fluct c)) (opt_or (u_twap_interval u) (v_twap_interval c))
                   (v_fperiod c) (v_fbuffer c) in
  Ok (mkVamm c' (vs v) (snaps v) (v_owner v)).

Definition vamm_update_owner (v : vamm) (sender new : addr) : res vamm :=
  check is_admin (v_owner v) sender else EGuard;
  Ok (mkVamm (vc v) (vs v) (snaps v) (Some new)).
