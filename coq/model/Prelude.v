(* Prelude: result monad, error classes, small helpers.  Executable definitions only. *)
From Coq Require Export ZArith List Bool.
Export ListNotations.
Open Scope Z_scope.

Inductive err := EGuard | EArith | EDecode | ESub | EFuel.

Inductive res (A : Type) := Ok (a : A) | Err (e : err).
Arguments Ok {A} a.
Arguments Err {A} e.

Definition bind {A B} (r : res A) (f : A -> res B) : res B :=
  match r with Ok a => f a | Err e => Err e end.

Notation "'do' x <- r ; k" := (bind r (fun x => k))
  (at level 200, x pattern, r at level 100, k at level 200, right associativity).
Notation "'check' b 'else' e ; k" := (if b then k else Err e)
  (at level 200, b at level 100, e at level 0, k at level 200, right associativity).

Definition is_ok {A} (r : res A) : bool := match r with Ok _ => true | Err _ => false end.

Definition addr := Z.

(* association lists keyed by Z *)
Fixpoint zfind {A} (k : Z) (l : list (Z * A)) : option A :=
  match l with
  | [] => None
  | (k', v) :: t => if k =? k' then Some v else zfind k t
  end.

Fixpoint zset {A} (k : Z) (v : A) (l : list (Z * A)) : list (Z * A) :=
  match l with
  | [] => [(k, v)]
  | (k', v') :: t => if k =? k' then (k, v) :: t else (k', v') :: zset k v t
  end.

Fixpoint zdel {A} (k : Z) (l : list (Z * A)) : list (Z * A) :=
  match l with
  | [] => []
  | (k', v') :: t => if k =? k' then zdel k t else (k', v') :: zdel k t
  end.

Definition zmem (k : Z) (l : list Z) : bool := existsb (Z.eqb k) l.
