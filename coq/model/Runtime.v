(* CosmWasm sub-message semantics (as cw-multi-test 0.13.4 execute_submsg / process_response):
   depth-first dispatch, each sub-message in its own cache, reply on Ok / Err per ReplyOn,
   errors propagate unless a reply handler returns Ok; a failed top-level call changes nothing.
   Plus the insurance fund, fee pool, feed and token entry points and the top-level `step`. *)
From MP.Model Require Import Prelude U128 SInt Feed Vamm Token World Engine.

Inductive event :=
| EvSwap (input output : Z)
| EvFunding (pf : sint) (vamm : addr)
| EvNone.

(* ---------- insurance fund ---------- *)
Definition if_update_owner (w : world) (sender new : addr) : res (world * list submsg) :=
  let i := w_if w in
  check is_admin (if_owner i) sender else EGuard;
  Ok (set_if w (mkIfund (Some new) (if_engine i) (if_vamms i) (if_stored i)), []).

Definition if_add_vamm (w : world) (sender vamm : addr) : res (world * list submsg) :=
  let i := w_if w in
  check is_admin (if_owner i) sender else EGuard;
  check (if_engine i =? A_ENGINE) else EDecode;
  do v <- get_vamm w vamm;
  check (e_dec (ec (w_eng w)) =? v_dec (vc v)) else EGuard;
  check negb (zmem vamm (if_vamms i)) else EGuard;
  check (Z.of_nat (length (if_vamms i)) <? 3) else EGuard;
  Ok (set_if w (mkIfund (if_owner i) (if_engine i) (if_vamms i ++ [vamm]) true), []).

(* Vec::swap_remove: the last element takes the place of the removed one *)
Fixpoint swap_remove (a : addr) (l : list addr) : list addr :=
  match l with
  | [] => []
  | x :: t => if x =? a then match rev t with [] => [] | last :: rt => last :: rev rt end
              else x :: swap_remove a t
  end.

Definition if_remove_vamm (w : world) (sender vamm : addr) : res (world * list submsg) :=
  let i := w_if w in
  check is_admin (if_owner i) sender else EGuard;
  check if_stored i else EGuard;
  check zmem vamm (if_vamms i) else EGuard;
  Ok (set_if w (mkIfund (if_owner i) (if_engine i) (swap_remove vamm (if_vamms i)) true), []).

Fixpoint vamms_open (w : world) (l : list addr) : res (list addr) :=
  match l with
  | [] => Ok []
  | v :: rest =>
      do vm <- get_vamm w v;
      do r <- vamms_open w rest;
      Ok (if v_open (vs vm) then v :: r else r)
  end.

Definition if_shutdown (w : world) (sender : addr) : res (world * list submsg) :=
  let i := w_if w in
  check (is_admin (if_owner i) sender || (sender =? A_IFUND)) else EGuard;
  check if_stored i else EGuard;
  (* only the vAMMs that are still open are addressed; none left to close: error *)
  do opens <- vamms_open w (firstn 3 (if_vamms i));
  check negb (Z.of_nat (length opens) =? 0) else EGuard;
  Ok (w, map (fun v => mkSub (MSetOpen v false) 0 RNever) opens).

Definition if_withdraw (w : world) (sender amt : Z) : res (world * list submsg) :=
  let i := w_if w in
  check (sender =? if_engine i) else EGuard;
  Ok (w, [mkSub (MTransfer (if_engine i) amt) 0 RNever]).

(* ---------- fee pool ---------- *)
Definition fp_update_owner (w : world) (sender new : addr) : res (world * list submsg) :=
  let f := w_fp w in
  check is_admin (fp_owner f) sender else EGuard;
  Ok (set_fp w (mkFeepool (Some new) (fp_tokens f) (fp_stored f)), []).
Definition fp_add_token (w : world) (sender tok : Z) : res (world * list submsg) :=
  let f := w_fp w in
  check is_admin (fp_owner f) sender else EGuard;
  check negb (zmem tok (fp_tokens f)) else EGuard;
  check (Z.of_nat (length (fp_tokens f)) <? 3) else EGuard;
  Ok (set_fp w (mkFeepool (fp_owner f) (fp_tokens f ++ [tok]) true), []).
Definition fp_remove_token (w : world) (sender tok : Z) : res (world * list submsg) :=
  let f := w_fp w in
  check is_admin (fp_owner f) sender else EGuard;
  check fp_stored f else EGuard;
  check zmem tok (fp_tokens f) else EGuard;
  Ok (set_fp w (mkFeepool (fp_owner f) (swap_remove tok (fp_tokens f)) true), []).
Definition fp_send_token (w : world) (sender tok amt recipient : Z) : res (world * list submsg) :=
  let f := w_fp w in
  check negb (amt =? 0) else EGuard;
  check is_admin (fp_owner f) sender else EGuard;
  check zmem tok (fp_tokens f) else EGuard;
  check (tok =? 0) else EDecode;                       (* other assets: balance query fails *)
  check negb (bal (w_tok w) A_FEEPOOL <? amt) else EGuard;
  Ok (w, [mkSub (MTransfer recipient amt) 0 RNever]).

(* ---------- engine reply entry point (contract.rs reply) ---------- *)
Definition engine_reply (w : world) (id : Z) (r : res event) : res (world * list submsg) :=
  match r with
  | Ok ev =>
      match ev with
      | EvSwap i o =>
          if id =? INCREASE_ID then update_position_reply w i o INCREASE_ID
          else if id =? DECREASE_ID then update_position_reply w i o DECREASE_ID
          else if id =? REVERSE_ID then reverse_position_reply w i o
          else if id =? CLOSE_ID then close_position_reply w i o
          else if id =? PARTIAL_CLOSE_ID then partial_close_position_reply w o i   (* swap_output: base in, quote out *)
          else if id =? LIQUIDATION_ID then liquidate_reply w i o
          else if id =? PARTIAL_LIQUIDATION_ID then partial_liquidation_reply w i o
          else Err EDecode
      | EvFunding pf v => if id =? PAY_FUNDING_ID then pay_funding_reply w pf v else Err EDecode
      | EvNone => Err EDecode
      end
  | Err _ => Err ESub         (* every id: "... failure - reply (id n)" *)
  end.

Definition contract_reply (w : world) (contract : addr) (id : Z) (r : res event) : res (world * list submsg) :=
  if contract =? A_ENGINE then engine_reply w id r else Err EDecode.

Definition wants_ok (r : reply_on) : bool := match r with RAlways | RSuccess => true | _ => false end.
Definition wants_err (r : reply_on) : bool := match r with RAlways | RError => true | _ => false end.

(* ---------- dispatch ---------- *)
(* messages whose execution emits no further sub-messages *)
Definition exec_simple (w : world) (sender : addr) (m : msg) : res (world * event) :=
  match m with
  | MSwapInput v d q l c =>
      do vm <- get_vamm w v;
      do x <- swap_input vm (w_env w) sender d q l c;
      Ok (set_vamm w v (fst x), EvSwap (fst (snd x)) (snd (snd x)))
  | MSwapOutput v d b l =>
      do vm <- get_vamm w v;
      do x <- swap_output vm (w_env w) sender d b l;
      Ok (set_vamm w v (fst x), EvSwap (snd (snd x)) (fst (snd x)))
  | MSettleFunding v =>
      do vm <- get_vamm w v;
      do x <- settle_funding vm (w_env w) sender (oracle_of w vm);
      Ok (set_vamm w v (fst x), EvFunding (snd x) v)
  | MSetOpen v o =>
      do vm <- get_vamm w v;
      do vm' <- set_open vm (w_env w) sender o;
      Ok (set_vamm w v vm', EvNone)
  | MTransfer to amt =>
      do t <- tok_move (w_tok w) sender to amt;
      Ok (set_tok w t, EvNone)
  | MTransferFrom owner to amt =>
      do t <- tok_move_from (w_tok w) (sender =? A_ENGINE) owner to amt;
      Ok (set_tok w t, EvNone)
  | MIfWithdraw _ _ => Err EDecode
  end.

(* f = index (in dispatch order, from 0) of the sub-message that fails instead of executing;
   f < 0 : no fault.  n = number of sub-messages dispatched so far in this transaction. *)
Fixpoint dispatch (fuel : nat) (f : Z) (w : world) (n : Z) (sender : addr) (subs : list submsg) {struct fuel}
  : res (world * Z) :=
  match fuel with
  | O => Err EFuel
  | S k =>
      match subs with
      | [] => Ok (w, n)
      | s :: rest =>
          let r : res (world * Z * event) :=
            if n =? f then Err ESub else
            match sm_msg s with
            | MIfWithdraw target amt =>
                check (target =? A_IFUND) else EDecode;
                do x <- if_withdraw w sender amt;
                do y <- dispatch k f (fst x) (n + 1) A_IFUND (snd x);
                Ok (fst y, snd y, EvNone)
            | m => do x <- exec_simple w sender m; Ok (fst x, n + 1, snd x)
            end in
          match r with
          | Ok (w1, n1, ev) =>
              if wants_ok (sm_reply s) then
                do x <- contract_reply w1 sender (sm_id s) (Ok ev);
                do y <- dispatch k f (fst x) n1 sender (snd x);
                dispatch k f (fst y) (snd y) sender rest
              else dispatch k f w1 n1 sender rest
          | Err e =>
              if wants_err (sm_reply s) then
                do x <- contract_reply w sender (sm_id s) (Err e);
                do y <- dispatch k f (fst x) (n + 1) sender (snd x);
                dispatch k f (fst y) (snd y) sender rest
              else Err e
          end
      end
  end.

Definition FUEL : nat := 64.

(* ---------- top-level messages ---------- *)
Inductive emsg :=
| EUpdateConfig (owner ifnd fpool : option addr) (init maint plr liqfee : option Z)
| EUpdatePauser (p : addr)
| EAddWhitelist (a : addr)
| ERemoveWhitelist (a : addr)
| EOpenPosition (vamm : addr) (s : side) (margin leverage limit : Z)
| EClosePosition (vamm : addr) (limit : Z)
| ELiquidate (vamm trader : addr) (limit : Z)
| EPayFunding (vamm : addr)
| EDepositMargin (vamm : addr) (amount : Z)
| EWithdrawMargin (vamm : addr) (amount : Z)
| ESetPause (p : bool).

Definition engine_execute (w : world) (sender : addr) (m : emsg) (funds : Z) : res (world * list submsg) :=
  match m with
  | EUpdateConfig o i f a b c d => e_update_config w sender o i f a b c d
  | EUpdatePauser p => e_update_pauser w sender p
  | EAddWhitelist a => e_add_whitelist w sender a
  | ERemoveWhitelist a => e_remove_whitelist w sender a
  | EOpenPosition v s m l b => e_open_position w sender v s m l b funds
  | EClosePosition v l => e_close_position w sender v l
  | ELiquidate v t l => e_liquidate w sender v t l
  | EPayFunding v => e_pay_funding w v
  | EDepositMargin v a => e_deposit_margin w sender v a funds
  | EWithdrawMargin v a => e_withdraw_margin w sender v a
  | ESetPause p => e_set_pause w sender p
  end.

Inductive imsg := IUpdateOwner (a : addr) | IAddVamm (v : addr) | IRemoveVamm (v : addr) | IWithdraw (amt : Z) | IShutdown.
Inductive fmsg := FUpdateOwner (a : addr) | FAddToken (t : Z) | FRemoveToken (t : Z) | FSendToken (t amt recipient : Z).
Inductive feedmsg := PAppend (price t : Z) | PAppendMultiple (prices times : list Z) | PUpdateOwner (a : addr).
Inductive tokmsg := TIncreaseAllowance (amt : Z) | TMint (to amt : Z) | TSend (to amt : Z).

Inductive op :=
| OBlock (dt dh : Z)
| OEngine (sender : addr) (m : emsg) (funds : Z)
| OVamm (sender v : addr) (o : VammOps_vop)
| OIfund (sender : addr) (m : imsg)
| OFeepool (sender : addr) (m : fmsg)
| OFeed (sender : addr) (m : feedmsg)
| OToken (sender : addr) (m : tokmsg)
with VammOps_vop :=
| WSwapInput (d : direction) (quote limit : Z) (cgo : bool)
| WSwapOutput (d : direction) (base limit : Z)
| WSettleFunding
| WSetOpen (open : bool)
| WUpdateConfig (u : vupdate)
| WUpdateOwner (new : addr).

Definition attach_funds (w : world) (sender contract funds : Z) : res world :=
  if funds =? 0 then Ok w else
  check t_native (w_tok w) else ESub;
  do t <- tok_move (w_tok w) sender contract funds;
  Ok (set_tok w t).

Definition exec_op (f : Z) (w : world) (o : op) : res world :=
  match o with
  | OBlock dt dh => Ok (set_env w (mkEnv (now (w_env w) + dt) (height (w_env w) + dh)))
  | OEngine sender m funds =>
      do w0 <- attach_funds w sender A_ENGINE funds;
      do x <- engine_execute w0 sender m funds;
      do y <- dispatch FUEL f (fst x) 0 A_ENGINE (snd x);
      Ok (fst y)
  | OVamm sender v vo =>
      do vm <- get_vamm w v;
      do vm' <- match vo with
                | WSwapInput d q l c => do x <- swap_input vm (w_env w) sender d q l c; Ok (fst x)
                | WSwapOutput d b l => do x <- swap_output vm (w_env w) sender d b l; Ok (fst x)
                | WSettleFunding => do x <- settle_funding vm (w_env w) sender (oracle_of w vm); Ok (fst x)
                | WSetOpen o => set_open vm (w_env w) sender o
                | WUpdateConfig u => vamm_update_config vm sender u
                | WUpdateOwner n => vamm_update_owner vm sender n
                end;
      Ok (set_vamm w v vm')
  | OIfund sender m =>
      do x <- match m with
              | IUpdateOwner a => if_update_owner w sender a
              | IAddVamm v => if_add_vamm w sender v
              | IRemoveVamm v => if_remove_vamm w sender v
              | IWithdraw amt => if_withdraw w sender amt
              | IShutdown => if_shutdown w sender
              end;
      do y <- dispatch FUEL f (fst x) 0 A_IFUND (snd x);
      Ok (fst y)
  | OFeepool sender m =>
      do x <- match m with
              | FUpdateOwner a => fp_update_owner w sender a
              | FAddToken t => fp_add_token w sender t
              | FRemoveToken t => fp_remove_token w sender t
              | FSendToken t amt r => fp_send_token w sender t amt r
              end;
      do y <- dispatch FUEL f (fst x) 0 A_FEEPOOL (snd x);
      Ok (fst y)
  | OFeed sender m =>
      match m with
      | PAppend p t => do fd <- feed_append (w_feed w) sender p t; Ok (set_feed w fd)
      | PAppendMultiple ps ts =>
          match w_feed w with
          | FReal r => do r' <- rf_append_multiple r sender ps ts; Ok (set_feed w (FReal r'))
          | FMock m => match ps with p :: _ => Ok (set_feed w (FMock (mkMFeed (mf_owner m) (Some p)))) | [] => Err EArith end
          end
      | PUpdateOwner a =>
          match w_feed w with
          | FReal r => do r' <- rf_update_owner r sender a; Ok (set_feed w (FReal r'))
          | FMock m => check (sender =? mf_owner m) else EGuard; Ok (set_feed w (FMock (mkMFeed a (mf_price m))))
          end
      end
  | OToken sender m =>
      do t <- match m with
              | TIncreaseAllowance amt => tok_increase_allowance (w_tok w) sender amt
              | TMint to amt => tok_mint (w_tok w) to amt
              | TSend to amt => tok_move (w_tok w) sender to amt
              end;
      Ok (set_tok w t)
  end.

(* a failed transaction leaves the world untouched *)
Definition step_f (f : Z) (w : world) (o : op) : world * bool :=
  match exec_op f w o with Ok w' => (w', true) | Err _ => (w, false) end.
Definition step (w : world) (o : op) : world := fst (step_f (-1) w o).
Definition run (w : world) (ops : list op) : world := fold_left step ops w.

(* ---------- deployment ---------- *)
Record deploy := mkDeploy {
  d_native : bool; d_decimals : Z; d_real_feed : bool;
  d_init : Z; d_maint : Z; d_liqfee : Z;
  d_owner : addr }.

Definition engine_instantiate (sender pauser ifnd fpool : addr) (decimals init maint liqfee : Z) : res engine :=
  do dec <- validate_decimal_places decimals;
  do _ <- validate_ratio init dec;
  do _ <- validate_ratio maint dec;
  do _ <- validate_ratio liqfee dec;
  do _ <- validate_margin_ratios init maint;
  Ok (mkEngine (mkEcfg sender ifnd fpool dec init maint 0 liqfee) (mkEstate 0 0 false) [] [] None None None (Some pauser) []).

Definition init_world (e : env) (d : deploy) : res world :=
  do eng <- engine_instantiate (d_owner d) (d_owner d) A_IFUND A_FEEPOOL (d_decimals d) (d_init d) (d_maint d) (d_liqfee d);
  let fd := if d_real_feed d then FReal (rf_init (d_owner d)) else FMock (mkMFeed (d_owner d) None) in
  Ok (mkWorld e (mkToken (d_native d) [] []) eng []
              (mkIfund (Some (d_owner d)) A_ENGINE [] false)
              (mkFeepool (Some (d_owner d)) [] false) fd).

Definition add_vamm_instance (w : world) (a sender : addr) (m : vinit) : res world :=
  do v <- vamm_instantiate (w_env w) sender m;
  Ok (set_vamm w a v).
