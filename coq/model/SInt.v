(* margined_common::integer::Integer, transcribed method by method.
   { value : Uint128; negative : bool } with derived structural equality, the hand-written
   ordering, checked and panicking arithmetic, Display and FromStr. *)
From Coq Require Import String Ascii DecimalString DecimalN.
From MP.Model Require Import Prelude U128.

Record sint := mkS { sval : Z; sneg : bool }.

Definition toZ (a : sint) : Z := if sneg a then - sval a else sval a.

Definition szero : sint := mkS 0 false.
Definition spos (v : Z) : sint := mkS v false.
(* new_negative: the sign flag is never set on a zero value *)
Definition sneg_ (v : Z) : sint := mkS v (negb (v =? 0)).
Definition sinvert (a : sint) : sint := mkS (sval a) (negb (sneg a) && negb (sval a =? 0)).
Definition sabs (a : sint) : sint := mkS (sval a) false.
Definition s_is_negative (a : sint) : bool := sneg a && negb (sval a =? 0).
Definition s_is_positive (a : sint) : bool := negb (s_is_negative a).
Definition s_is_zero (a : sint) : bool := sval a =? 0.

(* impl PartialEq: value and is_negative() *)
Definition seqb (a b : sint) : bool :=
  (sval a =? sval b) && Bool.eqb (s_is_negative a) (s_is_negative b).

(* checked_add *)
Definition schecked_add (a b : sint) : res sint :=
  match sneg a, sneg b with
  | false, false => do v <- cadd (sval a) (sval b); Ok (spos v)
  | true, true => do v <- cadd (sval a) (sval b); Ok (sneg_ v)
  | false, true =>
      if sval b <=? sval a then do v <- csub (sval a) (sval b); Ok (spos v)
      else do v <- csub (sval b) (sval a); Ok (sneg_ v)
  | true, false =>
      if sval b <? sval a then do v <- csub (sval a) (sval b); Ok (sneg_ v)
      else do v <- csub (sval b) (sval a); Ok (spos v)
  end.

(* checked_sub *)
Definition schecked_sub (a b : sint) : res sint :=
  match sneg a, sneg b with
  | false, true => do v <- cadd (sval a) (sval b); Ok (spos v)
  | true, false => do v <- cadd (sval a) (sval b); Ok (sneg_ v)
  | false, false =>
      if sval b <=? sval a then do v <- csub (sval a) (sval b); Ok (spos v)
      else do v <- csub (sval b) (sval a); Ok (sneg_ v)
  | true, true =>
      if sval b <? sval a then do v <- csub (sval a) (sval b); Ok (sneg_ v)
      else do v <- csub (sval b) (sval a); Ok (spos v)
  end.

Definition sign_of_product (a b : sint) (v : Z) : sint :=
  if Bool.eqb (sneg a) (sneg b) then spos v else sneg_ v.

(* checked_mul / checked_div *)
Definition schecked_mul (a b : sint) : res sint :=
  do v <- cmul (sval a) (sval b); Ok (sign_of_product a b v).
Definition schecked_div (a b : sint) : res sint :=
  do v <- cdiv (sval a) (sval b); Ok (sign_of_product a b v).

(* impl Mul / Div : the Uint128 operators panic on overflow / zero divisor *)
Definition smul (a b : sint) : res sint :=
  do v <- cmul (sval a) (sval b); Ok (sign_of_product a b v).
Definition sdiv (a b : sint) : res sint :=
  do v <- cdiv (sval a) (sval b); Ok (sign_of_product a b v).

(* impl Add *)
Definition sadd (a b : sint) : res sint :=
  match sneg a, sneg b with
  | false, false => do v <- cadd (sval a) (sval b); Ok (spos v)
  | true, true => do v <- cadd (sval a) (sval b); Ok (sneg_ v)
  | false, true =>
      if sval b <=? sval a then do v <- csub (sval a) (sval b); Ok (spos v)
      else do v <- csub (sval b) (sval a); Ok (sneg_ v)
  | true, false =>
      if sval b <=? sval a then do v <- csub (sval a) (sval b); Ok (sneg_ v)
      else do v <- csub (sval b) (sval a); Ok (spos v)
  end.

(* impl Sub : self + rhs.invert_sign() *)
Definition ssub (a b : sint) : res sint := sadd a (sinvert b).

(* impl Ord / PartialOrd (identical bodies) *)
Definition scmp (a b : sint) : comparison :=
  if s_is_negative a && s_is_positive b then Lt
  else if s_is_positive a && s_is_negative b then Gt
  else if s_is_positive a then sval a ?= sval b
  else sval b ?= sval a.

Definition sltb (a b : sint) : bool := match scmp a b with Lt => true | _ => false end.
Definition sgtb (a b : sint) : bool := match scmp a b with Gt => true | _ => false end.
Definition sleb (a b : sint) : bool := negb (sgtb a b).
Definition sgeb (a b : sint) : bool := negb (sltb a b).

(* Display : '-' only when negative and non-zero, then the decimal digits *)
Definition dec_string (v : Z) : string := NilEmpty.string_of_uint (N.to_uint (Z.to_N v)).
Definition s_to_string (a : sint) : string :=
  if sneg a && negb (sval a =? 0) then String "-"%char (dec_string (sval a))
  else dec_string (sval a).

(* str::parse::<u128> : optional '+', at least one digit, digits only, value < 2^128 *)
Definition parse_digits (s : string) : res Z :=
  match s with
  | EmptyString => Err EDecode
  | _ =>
      match NilEmpty.uint_of_string s with
      | Some d => let v := Z.of_N (N.of_uint d) in if v <? MAXU then Ok v else Err EDecode
      | None => Err EDecode
      end
  end.
Definition parse_u128 (s : string) : res Z :=
  match s with
  | String "+"%char rest => parse_digits rest
  | _ => parse_digits s
  end.

(* FromStr : `&input[..1]` panics on the empty string *)
Definition s_from_str (s : string) : res sint :=
  match s with
  | EmptyString => Err EArith
  | String "-"%char rest => do v <- parse_u128 rest; Ok (sneg_ v)
  | _ => do v <- parse_u128 s; Ok (spos v)
  end.

(* what storage / JSON does to a value: Serialize = to_string, Deserialize = from_str *)
Definition s_store (a : sint) : sint :=
  if sval a =? 0 then szero else a.

(* the raw encoding {value; negative: true} as a struct literal can still write it *)
Definition sraw (v : Z) (n : bool) : sint := mkS v n.
