(* A concrete deployment and history used by the non-vacuity examples of the end-to-end theorems:
   cw20 collateral, 6 decimals, one vAMM (10 quote per base) with a 5% price band, two funded traders;
   trader 21 is long 5 x 2, trader 22 short 2 x 3; the block has advanced since the vAMM's first snapshot. *)
From MP.Model Require Import Prelude U128 SInt Feed Vamm VammOps Token World Engine Runtime.

Definition scenario_of (native : bool) : res world :=
  let e := mkEnv 1000 10 in
  do w0 <- init_world e (mkDeploy native 6 false 50000 50000 50000 1);
  do w1 <- add_vamm_instance w0 11 1 (mkVinit 6 5 (Some 2) (Some 3) 1000000000 100000000 3600 0 0 50000);
  let ops := [OIfund 1 (IAddVamm 11); OVamm 1 11 (WSetOpen true); OFeed 1 (PAppend 10000000 1000);
              OToken 1 (TMint 21 1000000000000); OToken 21 (TIncreaseAllowance 1000000000000);
              OToken 1 (TMint 22 1000000000000); OToken 22 (TIncreaseAllowance 1000000000000);
              OToken 1 (TMint 3 1000000000000);
              OBlock 10 1;
              OEngine 21 (EOpenPosition 11 Buy 5000000 2000000 0) (if native then 5000000 else 0);
              OBlock 10 1;
              OEngine 22 (EOpenPosition 11 Sell 2000000 3000000 0) (if native then 2000000 else 0);
              OBlock 10 1] in
  Ok (run w1 ops).

Definition scenario : res world := scenario_of false.
Definition scenario_native : res world := scenario_of true.

Definition wf0b (a : sint) : bool := 0 <=? sval a.
Definition pos_wfb (p : position) : bool :=
  wf0b (p_size p) && wf0b (p_lupf p) && (0 <=? p_margin p) && (0 <=? p_notional p).
Definition wfvb (v : vamm) : bool :=
  (0 <? v_dec (vc v)) && (0 <=? v_q (vs v)) && (0 <=? v_b (vs v)) && wf0b (v_total (vs v)).
Definition stableb (vm : vamm) (e : env) : bool :=
  match snaps vm with
  | [] => false
  | latest :: older => negb (s_height latest =? height e) || negb (match older with [] => true | _ => false end)
  end.

(* ---------- golden values: one computation evaluated twice ----------
   `golden tt` runs a history through the model (open, reverse, funding, partial close under a tight band,
   liquidation, deposit, withdraw, native deployment) and collects observations; `golden_expected` is the list
   the Coq kernel computes for it (proofs/GoldenFacts.v proves golden = golden_expected by vm_compute).  Both
   are extracted; the OCaml driver recomputes `golden` with the extracted code and compares: a disagreement
   means the extraction or the OCaml build does not compute what the kernel does. *)
Definition obs_world (w : world) : list Z :=
  let pos t := let p := read_position (w_eng w) 11 t in
               [toZ (p_size p); p_margin p; p_notional p; toZ (p_lupf p); p_block p] in
  let vm := match zfind 11 (w_vamms w) with Some v => [v_q (vs v); v_b (vs v); toZ (v_total (vs v)); v_next_funding (vs v)] | None => [] end in
  [bal (w_tok w) 21; bal (w_tok w) 22; bal (w_tok w) 31; bal (w_tok w) A_ENGINE; bal (w_tok w) A_IFUND; bal (w_tok w) A_FEEPOOL;
   e_oi (es (w_eng w)); e_bad_debt (es (w_eng w)); toZ (cumulative_premium_fraction (w_eng w) 11)]
  ++ pos 21 ++ pos 22 ++ vm.

Definition golden_ops (native : bool) : list op :=
  let fn x := if native then x else 0 in
  [OVamm 1 11 (WUpdateConfig (mkVupdate None None (Some 3000) (Some 1000) None None None None None));
   OEngine 21 (EOpenPosition 11 Buy 1000000 2000000 0) (fn 1008000);
   OBlock 4000 1; OFeed 1 (PAppend 9000000 5030); OEngine 41 (EPayFunding 11) 0;
   OEngine 21 (EDepositMargin 11 500000) (fn 500000);
   OEngine 21 (EWithdrawMargin 11 200000) 0;
   OEngine 1 (EUpdateConfig None None None None None (Some 250000) None) 0;
   OBlock 20 1;
   OEngine 21 (EOpenPosition 11 Sell 3000000 2000000 0) (fn 24000);
   OEngine 1 (EUpdateConfig None None None (Some 900000) (Some 900000) None None) 0;
   OEngine 31 (ELiquidate 11 22 0) 0;
   OBlock 20 1;
   OEngine 21 (EClosePosition 11 0) (fn 100000)].

Definition golden (u : unit) : list Z :=
  let run_all sc := match sc with Ok w => let w' := run w (golden_ops false) in obs_world w' | Err _ => [] end in
  let run_nat sc := match sc with Ok w => let w' := run w (golden_ops true) in obs_world w' | Err _ => [] end in
  run_all scenario ++ run_nat scenario_native.

Definition golden_expected (u : unit) : list Z :=
  [999999788281; 999998000000; 37035; 2054046; 1000000078816; 41822;
   6100495; 0; 46681; 0; 0; 0; 0; 0; -443770; 1913967; 4530540; 0; 12;
   995581917; 100443770; -443770; 7200; 999999712043; 999998000000;
   37035; 2130284; 1000000078816; 41822; 6100495; 0; 46681; 0; 0; 0; 0;
   0; -443770; 1913967; 4530540; 0; 12; 995581917; 100443770; -443770;
   7200]%Z.
