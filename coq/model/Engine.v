(* margined_engine: execute arms, reply arms, messages.rs, utils.rs, query.rs.
   Each handler returns the new world and the ordered list of sub-messages of its Response. *)
From MP.Model Require Import Prelude U128 SInt Feed Vamm Token World.

(* ---------- messages a contract can emit ---------- *)
Inductive msg :=
| MSwapInput (v : addr) (d : direction) (quote limit : Z) (can_go_over : bool)
| MSwapOutput (v : addr) (d : direction) (base limit : Z)
| MSettleFunding (v : addr)
| MSetOpen (v : addr) (open : bool)
| MTransfer (to amt : Z)                 (* cw20 Transfer / bank Send, from the emitting contract *)
| MTransferFrom (owner to amt : Z)       (* cw20 TransferFrom, spender = the emitting contract *)
| MIfWithdraw (target amt : Z).

Inductive reply_on := RAlways | RSuccess | RError | RNever.
Record submsg := mkSub { sm_msg : msg; sm_id : Z; sm_reply : reply_on }.

Definition INCREASE_ID : Z := 1.
Definition DECREASE_ID : Z := 2.
Definition REVERSE_ID : Z := 3.
Definition CLOSE_ID : Z := 4.
Definition PARTIAL_CLOSE_ID : Z := 5.
Definition LIQUIDATION_ID : Z := 6.
Definition PARTIAL_LIQUIDATION_ID : Z := 7.
Definition PAY_FUNDING_ID : Z := 8.
Definition TRANSFER_FAILURE_ID : Z := 9.

(* ---------- messages.rs ---------- *)
Definition execute_transfer_from (w : world) (owner receiver amt : Z) : submsg :=
  if t_native (w_tok w) then mkSub (MTransfer receiver amt) TRANSFER_FAILURE_ID RError
  else mkSub (MTransferFrom owner receiver amt) TRANSFER_FAILURE_ID RError.

Definition execute_transfer (receiver amt : Z) : submsg :=
  mkSub (MTransfer receiver amt) TRANSFER_FAILURE_ID RError.

Definition execute_insurance_fund_withdrawal (w : world) (amt : Z) : submsg :=
  mkSub (MIfWithdraw (e_ifund (ec (w_eng w))) amt) TRANSFER_FAILURE_ID RError.

Definition engine_balance (w : world) : Z := bal (w_tok w) A_ENGINE.

Definition execute_transfer_to_insurance_fund (w : world) (amt : Z) : submsg :=
  let b := engine_balance w in
  execute_transfer (e_ifund (ec (w_eng w))) (if b <? amt then b else amt).

(* (messages, spread_fee, toll_fee) *)
Definition transfer_fees (w : world) (from vamm notional : Z) : res (list submsg * Z * Z) :=
  do v <- get_vamm w vamm;
  do ts <- q_calc_fee v notional;
  let '(toll, spread) := ts in
  let c := ec (w_eng w) in
  let m1 := if negb (spread =? 0) then [execute_transfer_from w from (e_ifund c) spread] else [] in
  let m2 := if negb (toll =? 0) then [execute_transfer_from w from (e_feepool c) toll] else [] in
  Ok (m1 ++ m2, spread, toll).

(* withdraw: returns the updated engine state record and the messages *)
Definition withdraw (w : world) (st : estate) (receiver amount pre_paid_shortfall : Z) : res (estate * list submsg) :=
  let tb := engine_balance w in
  do avail <- cadd tb pre_paid_shortfall;
  if avail <? amount then
    do shortfall <- csub amount avail;
    do bd <- cadd (e_bad_debt st) shortfall;
    Ok (mkEstate (e_oi st) bd (e_pause st),
        [execute_insurance_fund_withdrawal w shortfall; execute_transfer receiver amount])
  else Ok (st, [execute_transfer receiver amount]).

(* ---------- cross-contract queries ---------- *)
Definition query_is_vamm (w : world) (insurance vamm : addr) : res bool :=
  check (insurance =? A_IFUND) else EDecode;
  Ok (zmem vamm (if_vamms (w_if w))).

Definition require_vamm (w : world) (vamm : addr) : res unit :=
  do isv <- query_is_vamm w (e_ifund (ec (w_eng w))) vamm;
  check isv else EGuard;
  do v <- get_vamm w vamm;
  check v_open (vs v) else EGuard;
  Ok tt.

Definition is_whitelisted (w : world) (t : addr) : bool := zmem t (e_wl (w_eng w)).

(* ---------- utils.rs ---------- *)
Inductive pnl_option := PSpot | PTwap | POracle.

Definition cumulative_premium_fraction (e : engine) (vamm : addr) : sint :=
  match vm_cpf (read_vmap e vamm) with [] => szero | c :: _ => c end.

(* (position_notional, unrealized_pnl) *)
Definition get_pnl (w : world) (vamm : addr) (p : position) (o : pnl_option) : res (Z * sint) :=
  if s_is_zero (p_size p) then Ok (0, szero) else
  do v <- get_vamm w vamm;
  do out <- match o with
            | PTwap => q_output_twap v (w_env w) (p_dir p) (sval (p_size p))
            | PSpot => q_output_amount v (p_dir p) (sval (p_size p))
            | POracle =>
                do op <- o_price (oracle_of w v);
                do m <- cmul op (sval (p_size p));
                cdiv m (e_dec (ec (w_eng w)))
            end;
  do pnl <- match p_dir p with
            | AddToAmm => ssub (spos out) (spos (p_notional p))
            | RemoveFromAmm => ssub (spos (p_notional p)) (spos out)
            end;
  Ok (out, pnl).

(* (funding_payment, margin, bad_debt, latest_premium_fraction) *)
Definition calc_remain_margin (w : world) (vamm : addr) (p : position) (margin_delta : sint)
  : res (sint * Z * Z * sint) :=
  let latest := cumulative_premium_fraction (w_eng w) vamm in
  do d <- ssub latest (p_lupf p);
  do m <- smul d (p_size p);
  do fp <- sdiv m (spos (e_dec (ec (w_eng w))));
  do r1 <- ssub margin_delta fp;
  do remaining <- sadd r1 (spos (p_margin p));
  if s_is_negative remaining then Ok (fp, 0, sval (sinvert remaining), latest)
  else Ok (fp, sval remaining, 0, latest).

Definition calc_funding_payment (p : position) (latest : sint) (dec : Z) : res sint :=
  if negb (s_is_zero (p_size p)) then
    do d <- ssub latest (p_lupf p);
    do m <- smul d (p_size p);
    do q <- sdiv m (spos dec);
    smul q (sneg_ 1)
  else Ok szero.

Definition require_not_restriction_mode (w : world) (vamm trader : addr) : res unit :=
  let m := read_vmap (w_eng w) vamm in
  let p := read_position (w_eng w) vamm trader in
  check negb ((vm_lrb m =? height (w_env w)) && (p_block p =? height (w_env w))) else EGuard;
  Ok tt.

(* require_additional_margin: Err if margin_ratio < base *)
Definition require_additional_margin (mr : sint) (base : Z) : res unit :=
  check negb (sltb mr (spos base)) else EGuard; Ok tt.
(* require_insufficient_margin: Err if margin_ratio > base *)
Definition require_insufficient_margin (mr : sint) (base : Z) : res unit :=
  check negb (sgtb mr (spos base)) else EGuard; Ok tt.

Definition update_open_interest_notional (w : world) (st : estate) (vamm : addr) (amount : sint) (trader : addr)
  : res estate :=
  do v <- get_vamm w vamm;
  let cap := v_oi_cap (vc v) in
  do u0 <- schecked_add amount (spos (e_oi st));
  let u := if s_is_negative u0 then szero else u0 in
  check negb ((negb (cap =? 0) && s_is_positive amount && sgtb u (spos cap)) && negb (is_whitelisted w trader)) else EGuard;
  Ok (mkEstate (sval u) (e_bad_debt st) (e_pause st)).

Definition check_base_asset_holding_cap (w : world) (vamm : addr) (size : Z) (trader : addr) : res unit :=
  do v <- get_vamm w vamm;
  let cap := v_hold_cap (vc v) in
  check negb ((negb (cap =? 0) && (cap <? size)) && negb (is_whitelisted w trader)) else EGuard;
  Ok tt.

(* realize_bad_debt: (messages to prepend, new state, pre-paid shortfall) *)
Definition realize_bad_debt (w : world) (st : estate) (bad_debt : Z) : res (list submsg * estate * Z) :=
  if bad_debt <=? e_bad_debt st then
    do n <- csub (e_bad_debt st) bad_debt;
    Ok ([], mkEstate (e_oi st) n (e_pause st), 0)
  else
    do delta <- csub bad_debt (e_bad_debt st);
    Ok ([execute_insurance_fund_withdrawal w delta], mkEstate (e_oi st) 0 (e_pause st), delta).

(* ---------- query.rs ---------- *)
Definition pick_pnl (spot twap : Z * sint) : Z * sint :=
  if sgtb (sabs (snd spot)) (sabs (snd twap)) then twap else spot.

Definition margin_ratio_of (w : world) (vamm : addr) (p : position) (np : Z * sint) : res sint :=
  let '(notional, pnl) := np in
  do r <- calc_remain_margin w vamm p pnl;
  let '(_, margin, bad_debt, _) := r in
  do d <- ssub (spos margin) (spos bad_debt);
  do m <- smul d (spos (e_dec (ec (w_eng w))));
  sdiv m (spos notional).

Definition query_margin_ratio (w : world) (vamm trader : addr) : res sint :=
  let p := read_position (w_eng w) vamm trader in
  if s_is_zero (p_size p) then Ok szero else
  do spot <- get_pnl w vamm p PSpot;
  do twap <- get_pnl w vamm p PTwap;
  margin_ratio_of w vamm p (pick_pnl spot twap).

Definition margin_ratio_calc_option (w : world) (vamm trader : addr) (o : pnl_option) : res sint :=
  let p := read_position (w_eng w) vamm trader in
  if s_is_zero (p_size p) then Ok szero else
  do np <- get_pnl w vamm p o;
  margin_ratio_of w vamm p np.

Definition position_with_funding_payment (w : world) (vamm trader : addr) : res position :=
  let p := read_position (w_eng w) vamm trader in
  let latest := cumulative_premium_fraction (w_eng w) vamm in
  do fp <- calc_funding_payment p latest (e_dec (ec (w_eng w)));
  do m <- sadd (spos (p_margin p)) fp;
  let margin := if s_is_positive m then sval m else 0 in
  Ok (mkPos (p_dir p) (p_size p) margin (p_notional p) (p_lupf p) (p_block p)).

Definition query_free_collateral (w : world) (vamm trader : addr) : res sint :=
  do p <- position_with_funding_payment w vamm trader;
  do spot <- get_pnl w vamm p PSpot;
  do twap <- get_pnl w vamm p PTwap;
  let '(position_notional, upnl) := pick_pnl spot twap in
  do account_value <- schecked_add upnl (spos (p_margin p));
  do diff <- schecked_sub account_value (spos (p_margin p));
  let minimum_collateral := if s_is_positive diff then spos (p_margin p) else account_value in
  let c := ec (w_eng w) in
  do req <- if s_is_positive (p_size p) then
              do m <- cmul (p_notional p) (e_init c); cdiv m (e_dec c)
            else
              do m <- cmul position_notional (e_init c); cdiv m (e_dec c);
  schecked_sub minimum_collateral (spos req).

(* ---------- handle.rs: sub-message builders ---------- *)
Definition swap_input_msg (vamm : addr) (s : side) (notional limit : Z) (cgo : bool) (id : Z) : submsg :=
  mkSub (MSwapInput vamm (side_to_direction s) notional limit cgo) id RAlways.
Definition swap_output_msg (vamm : addr) (s : side) (base limit : Z) (id : Z) : submsg :=
  mkSub (MSwapOutput vamm (side_to_direction s) base limit) id RAlways.

Definition internal_increase_position (vamm : addr) (s : side) (notional limit : Z) : submsg :=
  swap_input_msg vamm s notional limit false INCREASE_ID.

Definition internal_close_position (w : world) (vamm trader : addr) (p : position) (limit id : Z) : world * submsg :=
  let t := mkTmp vamm trader (direction_to_side (p_dir p)) (sval (p_size p)) 0 (p_notional p) 0 szero szero false in
  (set_eng w (eng_set_tmp (w_eng w) (Some t)),
   swap_output_msg vamm (direction_to_side (p_dir p)) (sval (p_size p)) limit id).

(* ---------- execute arms ---------- *)
Definition e_update_config (w : world) (sender : addr)
  (owner ifnd fpool : option addr) (init maint plr liqfee : option Z) : res (world * list submsg) :=
  let c := ec (w_eng w) in
  check (sender =? e_owner c) else EGuard;
  let c1 := mkEcfg (opt_or owner (e_owner c)) (opt_or ifnd (e_ifund c)) (opt_or fpool (e_feepool c)) (e_dec c)
                   (e_init c) (e_maint c) (e_plr c) (e_liqfee c) in
  do c2 <- match init with
           | Some r => do _ <- validate_ratio r (e_dec c1); do _ <- validate_margin_ratios r (e_maint c1);
                       Ok (mkEcfg (e_owner c1) (e_ifund c1) (e_feepool c1) (e_dec c1) r (e_maint c1) (e_plr c1) (e_liqfee c1))
           | None => Ok c1 end;
  do c3 <- match maint with
           | Some r => do _ <- validate_ratio r (e_dec c2); do _ <- validate_margin_ratios (e_init c2) r;
                       Ok (mkEcfg (e_owner c2) (e_ifund c2) (e_feepool c2) (e_dec c2) (e_init c2) r (e_plr c2) (e_liqfee c2))
           | None => Ok c2 end;
  do c4 <- match plr with
           | Some r => do _ <- validate_ratio r (e_dec c3);
                       Ok (mkEcfg (e_owner c3) (e_ifund c3) (e_feepool c3) (e_dec c3) (e_init c3) (e_maint c3) r (e_liqfee c3))
           | None => Ok c3 end;
  do c5 <- match liqfee with
           | Some r => do _ <- validate_ratio r (e_dec c4);
                       Ok (mkEcfg (e_owner c4) (e_ifund c4) (e_feepool c4) (e_dec c4) (e_init c4) (e_maint c4) (e_plr c4) r)
           | None => Ok c4 end;
  Ok (set_eng w (eng_set_cfg (w_eng w) c5), []).

Definition e_update_pauser (w : world) (sender new : addr) : res (world * list submsg) :=
  check is_admin (e_pauser (w_eng w)) sender else EGuard;
  Ok (set_eng w (eng_set_pauser (w_eng w) (Some new)), []).

(* cw_controllers::Hooks: add fails when present, remove fails when absent *)
Definition e_add_whitelist (w : world) (sender a : addr) : res (world * list submsg) :=
  check is_admin (e_pauser (w_eng w)) sender else EGuard;
  check negb (zmem a (e_wl (w_eng w))) else EGuard;
  Ok (set_eng w (eng_set_wl (w_eng w) (e_wl (w_eng w) ++ [a])), []).
Definition e_remove_whitelist (w : world) (sender a : addr) : res (world * list submsg) :=
  check is_admin (e_pauser (w_eng w)) sender else EGuard;
  check zmem a (e_wl (w_eng w)) else EGuard;
  Ok (set_eng w (eng_set_wl (w_eng w) (filter (fun x => negb (x =? a)) (e_wl (w_eng w)))), []).

Definition e_set_pause (w : world) (sender : addr) (pause : bool) : res (world * list submsg) :=
  let st := es (w_eng w) in
  check negb (negb (is_admin (e_pauser (w_eng w)) sender) || Bool.eqb (e_pause st) pause) else EGuard;
  Ok (set_eng w (eng_set_state (w_eng w) (mkEstate (e_oi st) (e_bad_debt st) pause)), []).

(* `funds` = amount of the collateral denom attached to the call (0 for cw20 deployments) *)
Definition e_open_position (w : world) (trader vamm : addr) (s : side) (margin_amount leverage limit funds : Z)
  : res (world * list submsg) :=
  let c := ec (w_eng w) in let st := es (w_eng w) in
  check negb (e_pause st) else EGuard;
  do _ <- require_vamm w vamm;
  do _ <- require_not_restriction_mode w vamm trader;
  check negb (margin_amount =? 0) else EGuard;
  check negb (leverage =? 0) else EGuard;
  check negb (leverage <? e_dec c) else EGuard;
  do dd <- cmul (e_dec c) (e_dec c);
  do mr <- cdiv dd leverage;
  do _ <- require_additional_margin (spos mr) (e_init c);
  let p := get_position (w_eng w) (w_env w) vamm trader s in
  let is_increase := s_is_zero (p_size p) || (dir_eqb (p_dir p) AddToAmm && side_eqb s Buy) || (dir_eqb (p_dir p) RemoveFromAmm && side_eqb s Sell) in
  do on1 <- cmul margin_amount leverage;
  do open_notional <- cdiv on1 (e_dec c);
  do np <- get_pnl w vamm p PSpot;
  let '(position_notional, upnl) := np in
  let m := if is_increase then internal_increase_position vamm s open_notional limit
           else if open_notional <? position_notional then swap_input_msg vamm s open_notional limit false DECREASE_ID
           else swap_output_msg vamm (direction_to_side (p_dir p)) (sval (p_size p)) 0 REVERSE_ID in
  let t := mkTmp vamm trader s margin_amount leverage open_notional position_notional upnl szero false in
  let sf := mkSent (if t_native (w_tok w) then funds else 0) 0 in
  Ok (set_eng w (eng_set_sent (eng_set_tmp (w_eng w) (Some t)) (Some sf)), [m]).

Definition e_close_position (w : world) (trader vamm : addr) (limit : Z) : res (world * list submsg) :=
  let c := ec (w_eng w) in let st := es (w_eng w) in
  let p := read_position (w_eng w) vamm trader in
  check negb (e_pause st) else EGuard;
  check negb (sval (p_size p) =? 0) else EGuard;
  do _ <- require_not_restriction_mode w vamm trader;
  let base_direction := if sgtb (p_size p) szero then AddToAmm else RemoveFromAmm in
  do v <- get_vamm w vamm;
  do over <- q_is_over_fluctuation_limit v (w_env w) base_direction (sval (p_size p));
  if over && (e_plr c <? e_dec c) then
    let s := position_to_side (p_size p) in
    do pc1 <- cmul (sval (p_size p)) (e_plr c);
    do partial_close_amount <- cdiv pc1 (e_dec c);
    do partial_close_notional <- q_output_amount v base_direction partial_close_amount;
    do np <- get_pnl w vamm p PSpot;
    let '(position_notional, upnl) := np in
    let t := mkTmp vamm trader s (sval (p_size p)) (e_dec c) partial_close_notional position_notional upnl szero false in
    Ok (set_eng w (eng_set_tmp (w_eng w) (Some t)),
        [swap_output_msg vamm (direction_to_side (p_dir p)) partial_close_amount 0 PARTIAL_CLOSE_ID])
  else
    let '(w', m) := internal_close_position w vamm trader p limit CLOSE_ID in
    Ok (w', [m]).

Definition partial_liquidation (w : world) (vamm trader : addr) (limit : Z) : res (world * submsg) :=
  let c := ec (w_eng w) in
  let p := read_position (w_eng w) vamm trader in
  do ps1 <- cmul (sval (p_size p)) (e_plr c);
  do partial_position_size <- cdiv ps1 (e_dec c);
  do pl1 <- cmul limit (e_plr c);
  do partial_asset_limit <- cdiv pl1 (e_dec c);
  do v <- get_vamm w vamm;
  do current_notional <- q_output_amount v (p_dir p) partial_position_size;
  do np <- get_pnl w vamm p PSpot;
  let upnl := snd np in
  let s := position_to_side (p_size p) in
  let t := mkTmp vamm trader s partial_position_size 0 current_notional 0 upnl szero false in
  let m := swap_output_msg vamm (direction_to_side (p_dir p)) partial_position_size partial_asset_limit PARTIAL_LIQUIDATION_ID in
  Ok (set_eng w (eng_set_tmp (w_eng w) (Some t)), m).

Definition e_liquidate (w0 : world) (sender vamm trader : addr) (limit : Z) : res (world * list submsg) :=
  let c := ec (w_eng w0) in
  let w := set_eng w0 (eng_set_liq (w_eng w0) (Some sender)) in
  do mr0 <- query_margin_ratio w vamm trader;
  do v <- get_vamm w vamm;
  do over <- q_is_over_spread_limit v (oracle_of w v);
  do mr <- if over then
             do omr <- margin_ratio_calc_option w vamm trader POracle;
             do d <- schecked_sub omr mr0;
             Ok (if sgtb d szero then omr else mr0)
           else Ok mr0;
  do _ <- require_vamm w vamm;
  do _ <- require_insufficient_margin mr (e_maint c);
  let p := read_position (w_eng w) vamm trader in
  check negb (sval (p_size p) =? 0) else EGuard;
  if (e_liqfee c <? sval mr) && negb (e_plr c =? 0) then
    do r <- partial_liquidation w vamm trader limit;
    Ok (fst r, [snd r])
  else
    let '(w', m) := internal_close_position w vamm trader p limit LIQUIDATION_ID in
    Ok (w', [m]).

Definition e_pay_funding (w : world) (vamm : addr) : res (world * list submsg) :=
  do _ <- require_vamm w vamm;
  Ok (w, [mkSub (MSettleFunding vamm) PAY_FUNDING_ID RAlways]).

Definition e_deposit_margin (w : world) (trader vamm : addr) (amount funds : Z) : res (world * list submsg) :=
  let st := es (w_eng w) in
  check negb (e_pause st) else EGuard;
  check negb (amount =? 0) else EGuard;
  do msgs <- if t_native (w_tok w) then
               (* must_pay: exactly one coin of the denom, non-zero; then equal to `amount` *)
               check negb (funds =? 0) else EGuard;
               check (funds =? amount) else EGuard;
               Ok []
             else Ok [execute_transfer_from w trader A_ENGINE amount];
  match find_position (w_eng w) vamm trader with
  | None => Err EGuard
  | Some p =>
      do m <- cadd (p_margin p) amount;
      let p' := mkPos (p_dir p) (p_size p) m (p_notional p) (p_lupf p) (p_block p) in
      Ok (set_eng w (store_position (w_eng w) vamm trader p'), msgs)
  end.

Definition e_withdraw_margin (w : world) (trader vamm : addr) (amount : Z) : res (world * list submsg) :=
  let st := es (w_eng w) in
  do _ <- require_vamm w vamm;
  check negb (e_pause st) else EGuard;
  check negb (amount =? 0) else EGuard;
  let p := read_position (w_eng w) vamm trader in
  do r <- calc_remain_margin w vamm p (sneg_ amount);
  let '(_, margin, bad_debt, latest) := r in
  check (bad_debt =? 0) else EGuard;
  let p' := mkPos (p_dir p) (p_size p) margin (p_notional p) latest (p_block p) in
  do fc <- query_free_collateral w vamm trader;
  do fc' <- schecked_sub fc (spos amount);
  check negb (s_is_negative fc') else EGuard;
  do wm <- withdraw w st trader amount 0;
  let '(st', msgs) := wm in
  Ok (set_eng w (eng_set_state (store_position (w_eng w) vamm trader p') st'), msgs).

(* ---------- reply arms (reply.rs) ---------- *)
Definition need_tmp (w : world) : res tmpswap :=
  match e_tmp (w_eng w) with Some t => Ok t | None => Err EDecode end.
Definition need_sent (w : world) : res sentfunds :=
  match e_sent (w_eng w) with Some t => Ok t | None => Err EDecode end.
Definition need_liq (w : world) : res addr :=
  match e_liq (w_eng w) with Some t => Ok t | None => Err EDecode end.

Definition are_sufficient (f : sentfunds) : res unit :=
  check (sf_amount f =? sf_required f) else EGuard; Ok tt.

Definition update_position_reply (w : world) (input output reply_id : Z) : res (world * list submsg) :=
  let c := ec (w_eng w) in let st := es (w_eng w) in
  do swap <- need_tmp w;
  do funds <- need_sent w;
  let vamm := ts_vamm swap in let trader := ts_trader swap in
  let p := get_position (w_eng w) (w_env w) vamm trader (ts_side swap) in
  let signed_output := match ts_side swap with Buy => spos output | Sell => sneg_ output end in
  do st1 <- update_open_interest_notional w st vamm
              (if reply_id =? INCREASE_ID then spos input else sneg_ input) trader;
  do r <- (if reply_id =? INCREASE_ID then
             do sm1 <- cmul (ts_open_notional swap) (e_dec c);
             do swap_margin <- cdiv sm1 (ts_leverage swap);
             do mtv <- schecked_add (ts_mtv swap) (spos swap_margin);
             do nn <- cadd (p_notional p) (ts_open_notional swap);
             Ok (swap_margin, mtv, spos swap_margin, side_to_direction (ts_side swap), nn)
           else
             check negb (sgtb (sabs signed_output) (sabs (p_size p))) else EGuard;
             do realized_pnl <- if negb (s_is_zero (p_size p)) then
                                  do m <- schecked_mul (ts_upnl swap) (sabs signed_output);
                                  sdiv m (sabs (p_size p))
                                else Ok szero;
             do upnl_after <- ssub (ts_upnl swap) realized_pnl;
             do remaining <- if sgtb (p_size p) szero then
                               do a <- ssub (spos (ts_position_notional swap)) (spos (ts_open_notional swap));
                               ssub a upnl_after
                             else
                               do a <- sadd upnl_after (spos (ts_position_notional swap));
                               ssub a (spos (ts_open_notional swap));
             Ok (0, ts_mtv swap, realized_pnl, p_dir p, sval remaining));
  let '(swap_margin, mtv, margin_delta, new_direction, new_notional) := r in
  do rm <- calc_remain_margin w vamm p margin_delta;
  let '(_, margin, _, latest) := rm in
  do new_size <- sadd (p_size p) signed_output;
  let p' := mkPos new_direction new_size margin new_notional latest (height (w_env w)) in
  let w1 := set_eng w (store_position (w_eng w) vamm trader p') in
  do _ <- check_base_asset_holding_cap w1 vamm (sval new_size) trader;
  do r2 <- (if sltb mtv szero then
              do wm <- withdraw w1 st1 trader (sval mtv) 0;
              Ok (fst wm, snd wm, sf_required funds)
            else if sgtb mtv szero then
              if t_native (w_tok w1) then
                do rq <- cadd (sf_required funds) (sval mtv);
                Ok (st1, [], rq)
              else Ok (st1, [execute_transfer_from w1 trader A_ENGINE (sval mtv)], sf_required funds)
            else Ok (st1, [], sf_required funds));
  let '(st2, msgs1, required1) := r2 in
  do r3 <- (if negb (ts_fees_paid swap) then
              do f <- transfer_fees w1 trader vamm (ts_open_notional swap);
              let '(fmsgs, spread, toll) := f in
              do rq1 <- cadd required1 spread;
              do rq2 <- cadd rq1 toll;
              Ok (fmsgs, rq2)
            else Ok ([], required1));
  let '(msgs2, required2) := r3 in
  do _ <- if t_native (w_tok w1) then are_sufficient (mkSent (sf_amount funds) required2) else Ok tt;
  do mr <- query_margin_ratio w1 vamm trader;
  do _ <- require_additional_margin mr (e_maint c);
  let e2 := eng_set_sent (eng_set_tmp (eng_set_state (w_eng w1) st2) None) None in
  Ok (set_eng w1 e2, msgs1 ++ msgs2).

Definition clear_position (p : position) (h : Z) : position :=
  mkPos (p_dir p) szero 0 0 szero h.

Definition reverse_position_reply (w : world) (input output : Z) : res (world * list submsg) :=
  let c := ec (w_eng w) in let st := es (w_eng w) in
  do swap <- need_tmp w;
  do funds <- need_sent w;
  let vamm := ts_vamm swap in let trader := ts_trader swap in
  let p := get_position (w_eng w) (w_env w) vamm trader (ts_side swap) in
  do st1 <- update_open_interest_notional w st vamm (sneg_ output) trader;
  do rm0 <- calc_remain_margin w vamm p szero;       (* the old position is settled here: funding owed is charged *)
  let '(_, margin_after_funding, _, _) := rm0 in
  let previous_margin := sneg_ margin_after_funding in
  let p' := clear_position p (height (w_env w)) in
  let current_open_notional := ts_open_notional swap in
  do new_on <- if output <? ts_open_notional swap then csub (ts_open_notional swap) output
               else csub output (ts_open_notional swap);
  do f <- transfer_fees w trader vamm current_open_notional;
  let '(fmsgs, spread, toll) := f in
  do rq1 <- cadd (sf_required funds) spread;
  do required <- cadd rq1 toll;
  do q <- cdiv new_on (ts_leverage swap);
  if q =? 0 then
    do margin <- schecked_sub previous_margin (ts_upnl swap);
    do _ <- if t_native (w_tok w) then are_sufficient (mkSent (sf_amount funds) required) else Ok tt;
    let e1 := store_position (w_eng w) vamm trader p' in
    let e2 := eng_set_state (eng_set_sent (eng_set_tmp e1 None) None) st1 in
    Ok (set_eng w e2, fmsgs ++ [execute_transfer trader (sval margin)])
  else
    do mtv <- schecked_sub previous_margin (ts_upnl swap);
    (* the margin of the re-opened position is counted, net of what the old position releases, when the
       re-opening swap is answered (update_position_reply) *)
    let required2 := required in
    let swap' := mkTmp vamm trader (ts_side swap) (ts_margin_amount swap) (ts_leverage swap) new_on
                       (ts_position_notional swap) szero mtv true in
    let e1 := store_position (w_eng w) vamm trader p' in
    let e2 := eng_set_state (eng_set_sent (eng_set_tmp e1 (Some swap')) (Some (mkSent (sf_amount funds) required2))) st1 in
    Ok (set_eng w e2, fmsgs ++ [internal_increase_position vamm (ts_side swap) new_on 0]).

Definition close_position_reply (w : world) (input output : Z) : res (world * list submsg) :=
  let c := ec (w_eng w) in let st := es (w_eng w) in
  do swap <- need_tmp w;
  let vamm := ts_vamm swap in let trader := ts_trader swap in
  let p := get_position (w_eng w) (w_env w) vamm trader (ts_side swap) in
  do margin_delta <- match p_dir p with
                     | AddToAmm => ssub (spos output) (spos (ts_open_notional swap))
                     | RemoveFromAmm => ssub (spos (ts_open_notional swap)) (spos output)
                     end;
  do rm <- calc_remain_margin w vamm p margin_delta;
  let '(_, margin, bad_debt, _) := rm in
  do withdraw_amount <- schecked_add (spos margin) (ts_upnl swap);
  check (bad_debt =? 0) else EGuard;
  do r1 <- (if negb (s_is_zero withdraw_amount) then withdraw w st trader (sval withdraw_amount) 0
            else Ok (st, []));
  let '(st1, msgs1) := r1 in
  do msgs2 <- (if negb (p_notional p =? 0) then
                 do f <- transfer_fees w trader vamm (p_notional p);
                 Ok (fst (fst f))
               else Ok []);
  do v1 <- sadd margin_delta (spos bad_debt);
  do value <- sadd v1 (spos (p_notional p));
  do st2 <- update_open_interest_notional w st1 vamm (sinvert value) trader;
  let e1 := remove_position (w_eng w) vamm trader in
  let e2 := eng_set_tmp (eng_set_state e1 st2) None in
  Ok (set_eng w e2, msgs1 ++ msgs2).

Definition partial_close_position_reply (w : world) (input output : Z) : res (world * list submsg) :=
  let st := es (w_eng w) in
  do swap <- need_tmp w;
  let vamm := ts_vamm swap in let trader := ts_trader swap in
  let p := get_position (w_eng w) (w_env w) vamm trader (ts_side swap) in
  do st1 <- update_open_interest_notional w st vamm (sneg_ input) trader;
  let signed_output := match ts_side swap with Buy => spos output | Sell => sneg_ output end in
  check negb (sgtb (sabs signed_output) (sabs (p_size p))) else EGuard;
  do realized_pnl <- if negb (s_is_zero (p_size p)) then
                       do m <- schecked_mul (ts_upnl swap) (sabs signed_output);
                       sdiv m (sabs (p_size p))
                     else Ok szero;
  do rm <- calc_remain_margin w vamm p realized_pnl;
  let '(_, margin, bad_debt, latest) := rm in
  do upnl_after <- ssub (ts_upnl swap) realized_pnl;
  do remaining <- if sgtb (p_size p) szero then
                    do a <- ssub (spos (ts_position_notional swap)) (spos (ts_open_notional swap));
                    ssub a upnl_after
                  else
                    do a <- sadd upnl_after (spos (ts_position_notional swap));
                    ssub a (spos (ts_open_notional swap));
  do f <- transfer_fees w trader vamm (ts_open_notional swap);
  do new_size <- sadd (p_size p) signed_output;
  let p' := mkPos (p_dir p) new_size margin (sval remaining) latest (height (w_env w)) in
  check (bad_debt =? 0) else EGuard;
  let e1 := store_position (w_eng w) vamm trader p' in
  let e2 := eng_set_tmp (eng_set_state e1 st1) None in
  Ok (set_eng w e2, fst (fst f)).

Definition enter_restriction_mode (e : engine) (vamm h : Z) : engine :=
  let m := read_vmap e vamm in eng_set_vmap e vamm (mkVmap h (vm_cpf m)).

Definition liquidate_reply (w : world) (input output : Z) : res (world * list submsg) :=
  let c := ec (w_eng w) in let st := es (w_eng w) in
  do swap <- need_tmp w;
  do liquidator <- need_liq w;
  let vamm := ts_vamm swap in let trader := ts_trader swap in
  let p := get_position (w_eng w) (w_env w) vamm trader (ts_side swap) in
  do margin_delta <- match p_dir p with
                     | RemoveFromAmm => ssub (spos (ts_open_notional swap)) (spos output)
                     | AddToAmm => ssub (spos output) (spos (ts_open_notional swap))
                     end;
  do rm <- calc_remain_margin w vamm p margin_delta;
  let '(_, margin0, bad_debt0, _) := rm in
  do lp1 <- cmul output (e_liqfee c);
  do liquidation_penalty <- cdiv lp1 (e_dec c);
  do liquidation_fee <- cdiv liquidation_penalty 2;
  do mb <- (if margin0 <? liquidation_fee then
              do bd <- csub liquidation_fee margin0;
              do bd' <- cadd bad_debt0 bd;
              Ok (0, bd')
            else do m <- csub margin0 liquidation_fee; Ok (m, bad_debt0));
  let '(margin, bad_debt) := mb in
  do rb <- (if negb (bad_debt =? 0) then realize_bad_debt w st bad_debt else Ok ([], st, 0));
  let '(msgs0, st1, pre_paid_shortfall) := rb in
  let msgs1 := if negb (margin =? 0) then [execute_transfer (e_ifund c) margin] else [] in
  do wm <- (if negb (liquidation_fee =? 0) then withdraw w st1 liquidator liquidation_fee pre_paid_shortfall
            else Ok (st1, []));
  let '(st2, msgs2) := wm in
  let e1 := remove_position (w_eng w) vamm trader in
  let e2 := eng_set_liq (eng_set_tmp (eng_set_state e1 st2) None) None in
  let e3 := enter_restriction_mode e2 vamm (height (w_env w)) in
  Ok (set_eng w e3, msgs0 ++ msgs1 ++ msgs2).

Definition partial_liquidation_reply (w : world) (input output : Z) : res (world * list submsg) :=
  let c := ec (w_eng w) in let st := es (w_eng w) in
  do swap <- need_tmp w;
  do liquidator <- need_liq w;
  let vamm := ts_vamm swap in let trader := ts_trader swap in
  let p := get_position (w_eng w) (w_env w) vamm trader (ts_side swap) in
  do rp1 <- smul (ts_upnl swap) (spos (e_plr c));
  do realized_pnl <- sdiv rp1 (spos (e_dec c));
  do lp1 <- cmul output (e_liqfee c);
  do liquidation_penalty <- cdiv lp1 (e_dec c);
  do liquidation_fee <- cdiv liquidation_penalty 2;
  do new_size <- if sltb (p_size p) szero then sadd (p_size p) (spos input) else sadd (p_size p) (sneg_ input);
  do m1 <- csub (p_margin p) (sval realized_pnl);
  do margin <- csub m1 liquidation_penalty;
  do notional <- if sneg new_size then
                   do a <- cadd (sval realized_pnl) (p_notional p); csub a (ts_open_notional swap)
                 else
                   do a <- csub (p_notional p) (ts_open_notional swap); csub a (sval realized_pnl);
  do r <- (if negb (liquidation_fee =? 0) then
             do wm <- withdraw w st liquidator liquidation_fee 0;
             Ok (fst wm, execute_transfer (e_ifund c) liquidation_fee :: snd wm)
           else Ok (st, []));
  let '(st1, msgs) := r in
  let p' := mkPos (p_dir p) new_size margin notional (p_lupf p) (p_block p) in
  let e1 := store_position (w_eng w) vamm trader p' in
  let e2 := eng_set_liq (eng_set_tmp (eng_set_state e1 st1) None) None in
  let e3 := enter_restriction_mode e2 vamm (height (w_env w)) in
  Ok (set_eng w e3, msgs).

Definition append_cumulative_premium_fraction (e : engine) (vamm : addr) (pf : sint) : res engine :=
  let m := read_vmap e vamm in
  do latest <- match vm_cpf m with [] => Ok pf | c :: _ => sadd pf c end;
  Ok (eng_set_vmap e vamm (mkVmap (vm_lrb m) (latest :: vm_cpf m))).

Definition pay_funding_reply (w : world) (pf : sint) (vamm : addr) : res (world * list submsg) :=
  let c := ec (w_eng w) in
  do e1 <- append_cumulative_premium_fraction (w_eng w) vamm pf;
  let w1 := set_eng w e1 in
  do v <- get_vamm w1 vamm;
  do m <- smul (v_total (vs v)) pf;
  do funding_payment <- sdiv m (spos (e_dec c));
  let msgs := if s_is_negative funding_payment && negb (s_is_zero funding_payment) then
                [execute_insurance_fund_withdrawal w1 (sval funding_payment)]
              else if s_is_positive funding_payment && negb (s_is_zero funding_payment) then
                [execute_transfer_to_insurance_fund w1 (sval funding_payment)]
              else [] in
  Ok (w1, msgs).
