(* vAMM-level operation alphabet: every ExecuteMsg of the vAMM, each with its block environment,
   sender and (for funding) the oracle answers.  A failed call leaves the state unchanged. *)
From MP.Model Require Import Prelude U128 SInt Feed Vamm.

Inductive vop :=
| VSwapInput (e : env) (sender : addr) (d : direction) (quote limit : Z) (can_go_over : bool)
| VSwapOutput (e : env) (sender : addr) (d : direction) (base limit : Z)
| VSettleFunding (e : env) (sender : addr) (orc : oracle)
| VSetOpen (e : env) (sender : addr) (open : bool)
| VUpdateConfig (sender : addr) (u : vupdate)
| VUpdateOwner (sender new : addr).

Definition vexec (v : vamm) (o : vop) : res vamm :=
  match o with
  | VSwapInput e s d q l c => do r <- swap_input v e s d q l c; Ok (fst r)
  | VSwapOutput e s d b l => do r <- swap_output v e s d b l; Ok (fst r)
  | VSettleFunding e s orc => do r <- settle_funding v e s orc; Ok (fst r)
  | VSetOpen e s o => set_open v e s o
  | VUpdateConfig s u => vamm_update_config v s u
  | VUpdateOwner s n => vamm_update_owner v s n
  end.

Definition vstep (v : vamm) (o : vop) : vamm :=
  match vexec v o with Ok v' => v' | Err _ => v end.

Definition vrun (v : vamm) (ops : list vop) : vamm := fold_left vstep ops v.
