(* C14: pause, closed markets and emergency shutdown.  Statements only. *)
From MP.Model Require Import Prelude U128 SInt Feed Vamm VammOps Token World Engine Runtime.
From MP.Proofs Require Import Tactics EngineGuards StepFacts.

Theorem C14_paused_open : forall w t v s m l lim f, e_pause (es (w_eng w)) = true -> e_open_position w t v s m l lim f = Err EGuard.
Proof. exact open_paused. Qed.
Print Assumptions C14_paused_open.
Theorem C14_paused_close : forall w t v lim, e_pause (es (w_eng w)) = true -> e_close_position w t v lim = Err EGuard.
Proof. exact close_paused. Qed.
Print Assumptions C14_paused_close.
Theorem C14_paused_deposit : forall w t v a f, e_pause (es (w_eng w)) = true -> e_deposit_margin w t v a f = Err EGuard.
Proof. exact deposit_paused. Qed.
Print Assumptions C14_paused_deposit.
Theorem C14_paused_withdraw : forall w t v a, e_pause (es (w_eng w)) = true -> exists e, e_withdraw_margin w t v a = Err e.
Proof. exact withdraw_paused. Qed.
Print Assumptions C14_paused_withdraw.

(* PayFunding does not read the pause flag *)
Theorem C14_pay_funding_ignores_pause : forall w v b,
  match e_pay_funding w v, e_pay_funding (set_pause_flag w b) v with
  | Ok (_, m1), Ok (_, m2) => m1 = m2
  | Err _, Err _ => True
  | _, _ => False
  end.
Proof. exact pay_funding_ignores_pause. Qed.
Print Assumptions C14_pay_funding_ignores_pause.

(* open / withdraw / funding / liquidation need a registered, open vAMM *)
Theorem C14_require_vamm : forall w v, require_vamm w v = Ok tt ->
  e_ifund (ec (w_eng w)) = A_IFUND /\ zmem v (if_vamms (w_if w)) = true /\
  exists vm, get_vamm w v = Ok vm /\ v_open (vs vm) = true.
Proof. exact require_vamm_ok. Qed.
Print Assumptions C14_require_vamm.
Theorem C14_open_requires_vamm : forall w t v s m l lim f r, e_open_position w t v s m l lim f = Ok r -> require_vamm w v = Ok tt.
Proof. exact open_requires_vamm. Qed.
Print Assumptions C14_open_requires_vamm.
Theorem C14_withdraw_requires_vamm : forall w t v a r, e_withdraw_margin w t v a = Ok r -> require_vamm w v = Ok tt.
Proof. exact withdraw_requires_vamm. Qed.
Print Assumptions C14_withdraw_requires_vamm.
Theorem C14_pay_funding_requires_vamm : forall w v r, e_pay_funding w v = Ok r -> require_vamm w v = Ok tt.
Proof. exact pay_funding_requires_vamm. Qed.
Print Assumptions C14_pay_funding_requires_vamm.
Theorem C14_liquidate_requires_vamm : forall w s v t lim r, e_liquidate w s v t lim = Ok r ->
  require_vamm (set_eng w (eng_set_liq (w_eng w) (Some s))) v = Ok tt.
Proof. exact liquidate_requires_vamm. Qed.
Print Assumptions C14_liquidate_requires_vamm.

(* a closed vAMM refuses every swap (hence every close and liquidation) and funding settlement *)
Theorem C14_closed_swap_input : forall v e s d q l c, v_open (vs v) = false -> swap_input v e s d q l c = Err EGuard.
Proof. exact swap_input_closed. Qed.
Print Assumptions C14_closed_swap_input.
Theorem C14_closed_swap_output : forall v e s d b l, v_open (vs v) = false -> swap_output v e s d b l = Err EGuard.
Proof. exact swap_output_closed. Qed.
Print Assumptions C14_closed_swap_output.
Theorem C14_closed_settle_funding : forall v e s o, v_open (vs v) = false -> settle_funding v e s o = Err EGuard.
Proof. exact settle_funding_closed. Qed.
Print Assumptions C14_closed_settle_funding.

(* TRANSACTION LEVEL.  While the engine is paused, an OpenPosition / ClosePosition / DepositMargin /
   WithdrawMargin transaction - with any funds attached, for any fault index - fails and returns the very
   same world. *)
Theorem C14_paused_open_tx : forall f w t v s m l lim funds, e_pause (es (w_eng w)) = true ->
  step_f f w (OEngine t (EOpenPosition v s m l lim) funds) = (w, false).
Proof. exact paused_open_tx. Qed.
Print Assumptions C14_paused_open_tx.
Theorem C14_paused_close_tx : forall f w t v lim funds, e_pause (es (w_eng w)) = true ->
  step_f f w (OEngine t (EClosePosition v lim) funds) = (w, false).
Proof. exact paused_close_tx. Qed.
Print Assumptions C14_paused_close_tx.
Theorem C14_paused_deposit_tx : forall f w t v a funds, e_pause (es (w_eng w)) = true ->
  step_f f w (OEngine t (EDepositMargin v a) funds) = (w, false).
Proof. exact paused_deposit_tx. Qed.
Print Assumptions C14_paused_deposit_tx.
Theorem C14_paused_withdraw_tx : forall f w t v a funds, e_pause (es (w_eng w)) = true ->
  step_f f w (OEngine t (EWithdrawMargin v a) funds) = (w, false).
Proof. exact paused_withdraw_tx. Qed.
Print Assumptions C14_paused_withdraw_tx.

(* on a vAMM that is not registered with the insurance fund or not open, OpenPosition / WithdrawMargin /
   PayFunding transactions fail and return the very same world *)
Theorem C14_no_vamm_open_tx : forall f w t v s m l lim funds, require_vamm w v <> Ok tt ->
  step_f f w (OEngine t (EOpenPosition v s m l lim) funds) = (w, false).
Proof. exact no_vamm_open_tx. Qed.
Print Assumptions C14_no_vamm_open_tx.
Theorem C14_no_vamm_withdraw_tx : forall f w t v a funds, require_vamm w v <> Ok tt ->
  step_f f w (OEngine t (EWithdrawMargin v a) funds) = (w, false).
Proof. exact no_vamm_withdraw_tx. Qed.
Print Assumptions C14_no_vamm_withdraw_tx.
Theorem C14_no_vamm_pay_funding_tx : forall f w s v funds, require_vamm w v <> Ok tt ->
  step_f f w (OEngine s (EPayFunding v) funds) = (w, false).
Proof. exact no_vamm_pay_funding_tx. Qed.
Print Assumptions C14_no_vamm_pay_funding_tx.
