(* C14: pause, closed markets and emergency shutdown.  Statements only. *)
From MP.Model Require Import Prelude U128 SInt Feed Vamm VammOps Token World Engine Runtime.
From MP.Proofs Require Import Tactics EngineGuards StepFacts SIntFacts EngineArith LiqFacts LiveFacts PauseFacts RegistryFacts.

Theorem C14_paused_open : forall w t v s m l lim f, e_pause (es (w_eng w)) = true -> e_open_position w t v s m l lim f = Err EGuard.
Proof. exact open_paused. Qed.
Print Assumptions C14_paused_open.
Theorem C14_paused_close : forall w t v lim, e_pause (es (w_eng w)) = true -> e_close_position w t v lim = Err EGuard.
Proof. exact close_paused. Qed.
Print Assumptions C14_paused_close.
Theorem C14_paused_deposit : forall w t v a f, e_pause (es (w_eng w)) = true -> e_deposit_margin w t v a f = Err EGuard.
Proof. exact deposit_paused. Qed.
Print Assumptions C14_paused_deposit.
Theorem C14_paused_withdraw : forall w t v a, e_pause (es (w_eng w)) = true -> exists e, e_withdraw_margin w t v a = Err e.
Proof. exact withdraw_paused. Qed.
Print Assumptions C14_paused_withdraw.

(* PayFunding does not read the pause flag *)
Theorem C14_pay_funding_ignores_pause : forall w v b,
  match e_pay_funding w v, e_pay_funding (set_pause_flag w b) v with
  | Ok (_, m1), Ok (_, m2) => m1 = m2
  | Err _, Err _ => True
  | _, _ => False
  end.
Proof. exact pay_funding_ignores_pause. Qed.
Print Assumptions C14_pay_funding_ignores_pause.

(* open / withdraw / funding / liquidation need a registered, open vAMM *)
Theorem C14_require_vamm : forall w v, require_vamm w v = Ok tt ->
  e_ifund (ec (w_eng w)) = A_IFUND /\ zmem v (if_vamms (w_if w)) = true /\
  exists vm, get_vamm w v = Ok vm /\ v_open (vs vm) = true.
Proof. exact require_vamm_ok. Qed.
Print Assumptions C14_require_vamm.
Theorem C14_open_requires_vamm : forall w t v s m l lim f r, e_open_position w t v s m l lim f = Ok r -> require_vamm w v = Ok tt.
Proof. exact open_requires_vamm. Qed.
Print Assumptions C14_open_requires_vamm.
Theorem C14_withdraw_requires_vamm : forall w t v a r, e_withdraw_margin w t v a = Ok r -> require_vamm w v = Ok tt.
Proof. exact withdraw_requires_vamm. Qed.
Print Assumptions C14_withdraw_requires_vamm.
Theorem C14_pay_funding_requires_vamm : forall w v r, e_pay_funding w v = Ok r -> require_vamm w v = Ok tt.
Proof. exact pay_funding_requires_vamm. Qed.
Print Assumptions C14_pay_funding_requires_vamm.
Theorem C14_liquidate_requires_vamm : forall w s v t lim r, e_liquidate w s v t lim = Ok r ->
  require_vamm (set_eng w (eng_set_liq (w_eng w) (Some s))) v = Ok tt.
Proof. exact liquidate_requires_vamm. Qed.
Print Assumptions C14_liquidate_requires_vamm.

(* a closed vAMM refuses every swap (hence every close and liquidation) and funding settlement *)
Theorem C14_closed_swap_input : forall v e s d q l c, v_open (vs v) = false -> swap_input v e s d q l c = Err EGuard.
Proof. exact swap_input_closed. Qed.
Print Assumptions C14_closed_swap_input.
Theorem C14_closed_swap_output : forall v e s d b l, v_open (vs v) = false -> swap_output v e s d b l = Err EGuard.
Proof. exact swap_output_closed. Qed.
Print Assumptions C14_closed_swap_output.
Theorem C14_closed_settle_funding : forall v e s o, v_open (vs v) = false -> settle_funding v e s o = Err EGuard.
Proof. exact settle_funding_closed. Qed.
Print Assumptions C14_closed_settle_funding.

(* TRANSACTION LEVEL.  While the engine is paused, an OpenPosition / ClosePosition / DepositMargin /
   WithdrawMargin transaction - with any funds attached, for any fault index - fails and returns the very
   same world. *)
Theorem C14_paused_open_tx : forall f w t v s m l lim funds, e_pause (es (w_eng w)) = true ->
  step_f f w (OEngine t (EOpenPosition v s m l lim) funds) = (w, false).
Proof. exact paused_open_tx. Qed.
Print Assumptions C14_paused_open_tx.
Theorem C14_paused_close_tx : forall f w t v lim funds, e_pause (es (w_eng w)) = true ->
  step_f f w (OEngine t (EClosePosition v lim) funds) = (w, false).
Proof. exact paused_close_tx. Qed.
Print Assumptions C14_paused_close_tx.
Theorem C14_paused_deposit_tx : forall f w t v a funds, e_pause (es (w_eng w)) = true ->
  step_f f w (OEngine t (EDepositMargin v a) funds) = (w, false).
Proof. exact paused_deposit_tx. Qed.
Print Assumptions C14_paused_deposit_tx.
Theorem C14_paused_withdraw_tx : forall f w t v a funds, e_pause (es (w_eng w)) = true ->
  step_f f w (OEngine t (EWithdrawMargin v a) funds) = (w, false).
Proof. exact paused_withdraw_tx. Qed.
Print Assumptions C14_paused_withdraw_tx.

(* on a vAMM that is not registered with the insurance fund or not open, OpenPosition / WithdrawMargin /
   PayFunding transactions fail and return the very same world *)
Theorem C14_no_vamm_open_tx : forall f w t v s m l lim funds, require_vamm w v <> Ok tt ->
  step_f f w (OEngine t (EOpenPosition v s m l lim) funds) = (w, false).
Proof. exact no_vamm_open_tx. Qed.
Print Assumptions C14_no_vamm_open_tx.
Theorem C14_no_vamm_withdraw_tx : forall f w t v a funds, require_vamm w v <> Ok tt ->
  step_f f w (OEngine t (EWithdrawMargin v a) funds) = (w, false).
Proof. exact no_vamm_withdraw_tx. Qed.
Print Assumptions C14_no_vamm_withdraw_tx.
Theorem C14_no_vamm_pay_funding_tx : forall f w s v funds, require_vamm w v <> Ok tt ->
  step_f f w (OEngine s (EPayFunding v) funds) = (w, false).
Proof. exact no_vamm_pay_funding_tx. Qed.
Print Assumptions C14_no_vamm_pay_funding_tx.

(* Liquidate does not read the pause flag: with the flag set either way the execute arm accepts or refuses alike,
   emits the same message, and the resulting worlds differ in the flag only *)
Theorem C14_liquidate_ignores_pause : forall w s v t lim b,
  e_liquidate (set_pause_flag w b) s v t lim =
  match e_liquidate w s v t lim with Ok (w1, ms) => Ok (set_pause_flag w1 b, ms) | Err e => Err e end.
Proof. exact liquidate_ignores_pause. Qed.
Print Assumptions C14_liquidate_ignores_pause.

(* and positively, END TO END: with the engine paused a full liquidation transaction succeeds under the hypotheses
   of C07's liveness theorem (none of which mentions the pause flag) *)
Theorem C14_paused_liquidation_succeeds : forall f w s v t lim mr p vm vm' q b,
  e_pause (es (w_eng w)) = true ->
  f < 0 ->
  let wl := with_liquidator w s in
  let c := ec (w_eng w) in let st := es (w_eng w) in
  find_position (w_eng w) v t = Some p -> sval (p_size p) <> 0 ->
  liq_ratio wl v t = Ok mr -> sgtb mr (spos (e_maint c)) = false ->
  require_vamm wl v = Ok tt ->
  (e_liqfee c <? sval mr) && negb (e_plr c =? 0) = false ->
  get_vamm w v = Ok vm ->
  swap_output vm (w_env w) A_ENGINE (side_to_direction (direction_to_side (p_dir p))) (sval (p_size p)) lim = Ok (vm', (q, b)) ->
  let lat := cumulative_premium_fraction (w_eng w) v in
  let X := Z.abs ((toZ lat - toZ (p_lupf p)) * toZ (p_size p)) in
  let tb := bal (w_tok w) A_ENGINE in let fund := bal (w_tok w) A_IFUND in
  pos_wf p -> cpf_wf (w_eng w) v -> 0 < e_dec c -> 0 <= q -> 0 <= e_liqfee c ->
  0 <= e_bad_debt st -> 0 <= tb -> 0 <= bal (w_tok w) s ->
  sval lat < MAXU -> sval (p_lupf p) < MAXU -> sval (p_size p) < MAXU -> e_dec c < MAXU ->
  Z.abs (toZ lat - toZ (p_lupf p)) < MAXU ->
  X + p_notional p + q + p_margin p + q * e_liqfee c + e_bad_debt st + tb + fund + bal (w_tok w) s < MAXU ->
  e_ifund c = A_IFUND -> if_engine (w_if w) = A_ENGINE -> s <> A_ENGINE -> s <> A_IFUND ->
  X + p_notional p + q + p_margin p + q * e_liqfee c <= fund ->
  liq_equity w v p (p_notional p) q <= tb ->
  exists w', exec_op f w (OEngine s (ELiquidate v t lim) 0) = Ok w'.
Proof. exact paused_full_liquidation_succeeds. Qed.
Print Assumptions C14_paused_liquidation_succeeds.

(* the registry: no duplicates and at most three vAMMs in every state reachable by any history of operations from a
   fresh deployment; the membership query is the registry *)
Theorem C14_registry_step : forall f w o w', exec_op f w o = Ok w' -> reg_ok w -> reg_ok w'.
Proof. exact exec_op_reg. Qed.
Print Assumptions C14_registry_step.

Theorem C14_registry_reachable : forall ops w, reg_ok w -> reg_ok (run w ops).
Proof. exact run_reg. Qed.
Print Assumptions C14_registry_reachable.

Theorem C14_registry_initial : forall e d w, init_world e d = Ok w -> reg_ok w.
Proof. exact init_world_reg. Qed.
Print Assumptions C14_registry_initial.

Theorem C14_membership_query_is_registry : forall w v b,
  query_is_vamm w A_IFUND v = Ok b -> (b = true <-> In v (if_vamms (w_if w))).
Proof. exact query_is_vamm_registry. Qed.
Print Assumptions C14_membership_query_is_registry.

(* END TO END: a successful ShutdownVamms transaction leaves every registered vAMM closed, whatever state each was
   in before; only the fund's owner (or the fund) can send it *)
Theorem C14_shutdown_tx_closes_all : forall f w s w',
  exec_op f w (OIfund s IShutdown) = Ok w' -> reg_ok w ->
  forall v, In v (if_vamms (w_if w)) -> exists vm, get_vamm w' v = Ok vm /\ v_open (vs vm) = false.
Proof. exact shutdown_tx_closes_all. Qed.
Print Assumptions C14_shutdown_tx_closes_all.

Theorem C14_shutdown_tx_only_owner : forall f w s w',
  exec_op f w (OIfund s IShutdown) = Ok w' -> is_admin (if_owner (w_if w)) s = true \/ s = A_IFUND.
Proof. exact shutdown_tx_only_owner. Qed.
Print Assumptions C14_shutdown_tx_only_owner.

(* TRANSACTION LEVEL, closed vAMM: a ClosePosition or a Liquidate on a closed vAMM fails - with any funds attached,
   for any fault index - and returns the very same world *)
Theorem C14_closed_vamm_close_tx : forall f w t v lim funds vm,
  get_vamm w v = Ok vm -> v_open (vs vm) = false ->
  step_f f w (OEngine t (EClosePosition v lim) funds) = (w, false).
Proof. exact closed_vamm_close_tx. Qed.
Print Assumptions C14_closed_vamm_close_tx.

Theorem C14_closed_vamm_liquidate_tx : forall f w s v t lim funds vm,
  get_vamm w v = Ok vm -> v_open (vs vm) = false ->
  step_f f w (OEngine s (ELiquidate v t lim) funds) = (w, false).
Proof. exact closed_vamm_liquidate_tx. Qed.
Print Assumptions C14_closed_vamm_liquidate_tx.
