(* C05: trader actions never leave the trader under-margined.  Statements only. *)
From MP.Model Require Import Prelude U128 SInt Feed Vamm VammOps Token World Engine Runtime.
From MP.Proofs Require Import Tactics EngineGuards.

(* leverage below 1 or above 1/initial-margin-ratio is rejected *)
Theorem C05_leverage_bounds : forall w t v s m l lim f r,
  e_open_position w t v s m l lim f = Ok r ->
  0 <= e_init (ec (w_eng w)) -> 0 < e_dec (ec (w_eng w)) ->
  e_dec (ec (w_eng w)) <= l /\ l * e_init (ec (w_eng w)) <= e_dec (ec (w_eng w)) * e_dec (ec (w_eng w)).
Proof. exact open_leverage_bounds. Qed.
Print Assumptions C05_leverage_bounds.
