(* C05: trader actions never leave the trader under-margined.  Statements only. *)
From MP.Model Require Import Prelude U128 SInt Feed Vamm VammOps Token World Engine Runtime.
From MP.Proofs Require Import Tactics EngineGuards EngineArith CloseFacts MoreFacts OpenRatioFacts MarginTxFacts LimitTxFacts.
From MP.Model Require Import Scenario.

(* leverage below 1 or above 1/initial-margin-ratio is rejected *)
Theorem C05_leverage_bounds : forall w t v s m l lim f r,
  e_open_position w t v s m l lim f = Ok r ->
  0 <= e_init (ec (w_eng w)) -> 0 < e_dec (ec (w_eng w)) ->
  e_dec (ec (w_eng w)) <= l /\ l * e_init (ec (w_eng w)) <= e_dec (ec (w_eng w)) * e_dec (ec (w_eng w)).
Proof. exact open_leverage_bounds. Qed.
Print Assumptions C05_leverage_bounds.

(* every successful increase / reduce / reverse reply ends with the margin-ratio guard evaluated on the
   state it stores: the ratio of the stored position, recomputed from the post-swap vAMM, is not below
   the maintenance ratio *)
Theorem C05_post_trade_ratio : forall w i o id w' subs tm,
  update_position_reply w i o id = Ok (w', subs) -> e_tmp (w_eng w) = Some tm ->
  exists mr, query_margin_ratio w' (ts_vamm tm) (ts_trader tm) = Ok mr /\
             sltb mr (spos (e_maint (ec (w_eng w')))) = false.
Proof. exact update_position_reply_ratio. Qed.
Print Assumptions C05_post_trade_ratio.

(* WithdrawMargin: the wallet receives exactly `amount`, the stored margin falls by amount + funding
   owed and stays non-negative (a withdrawal that creates bad debt is rejected), the checkpoint moves,
   and free collateral after subtracting the amount is non-negative *)
Theorem C05_withdraw : forall w t v amount w' msgs,
  e_withdraw_margin w t v amount = Ok (w', msgs) ->
  let p := read_position (w_eng w) v t in
  pos_wf p -> cpf_wf (w_eng w) v -> 0 < e_dec (ec (w_eng w)) -> 0 <= amount ->
  exists p', find_position (w_eng w') v t = Some p' /\
    p_margin p' = p_margin p - amount - funding_owed w v p /\ 0 <= p_margin p' /\
    p_lupf p' = cumulative_premium_fraction (w_eng w) v /\
    p_size p' = p_size p /\ p_dir p' = p_dir p /\ p_notional p' = p_notional p /\
    transfers_to t msgs = amount /\
    amount <> 0 /\ e_pause (es (w_eng w)) = false /\
    exists fc fc', query_free_collateral w v t = Ok fc /\ schecked_sub fc (spos amount) = Ok fc' /\ s_is_negative fc' = false.
Proof. exact withdraw_margin_spec. Qed.
Print Assumptions C05_withdraw.

(* DepositMargin raises the stored margin by exactly the amount taken from the wallet and changes
   nothing else of the position *)
Theorem C05_deposit : forall w t v amount funds w' msgs,
  e_deposit_margin w t v amount funds = Ok (w', msgs) ->
  exists p, find_position (w_eng w) v t = Some p /\
    find_position (w_eng w') v t = Some (mkPos (p_dir p) (p_size p) (p_margin p + amount) (p_notional p) (p_lupf p) (p_block p)) /\
    amount <> 0 /\ e_pause (es (w_eng w)) = false /\
    (if t_native (w_tok w) then funds = amount /\ msgs = [] else msgs = [execute_transfer_from w t A_ENGINE amount]).
Proof. exact deposit_margin_spec. Qed.
Print Assumptions C05_deposit.

(* END TO END.  A successful OpenPosition transaction - the whole message tree (swap, reply, a reversal's
   second swap and reply, fee and margin transfers, insurance-fund draws), for every fault index - leaves
   the sender either without a position on that vAMM or with one whose margin ratio, recomputed on the
   final state of the transaction, is not below the maintenance ratio.  No side condition. *)
Theorem C05_open_position_ends_margined : forall f w t v s m l lim funds w',
  exec_op f w (OEngine t (EOpenPosition v s m l lim) funds) = Ok w' ->
  sval (p_size (read_position (w_eng w') v t)) = 0 \/
  exists mr, query_margin_ratio w' v t = Ok mr /\ sltb mr (spos (e_maint (ec (w_eng w')))) = false.
Proof. exact open_position_ends_margined. Qed.
Print Assumptions C05_open_position_ends_margined.

(* non-vacuity: in the concrete scenario an increasing, a reducing and a reversing OpenPosition all succeed *)
Definition c05_example : bool :=
  match scenario with
  | Ok w =>
      let ok o := match exec_op (-1) w o with Ok w' => negb (sval (p_size (read_position (w_eng w') 11 21)) =? 0) | Err _ => false end in
      ok (OEngine 21 (EOpenPosition 11 Buy 1000000 2000000 0) 0) &&
      ok (OEngine 21 (EOpenPosition 11 Sell 1000000 2000000 0) 0) &&
      ok (OEngine 21 (EOpenPosition 11 Sell 8000000 2000000 0) 0)
  | Err _ => false
  end.
Example C05_nonvacuous : c05_example = true.
Proof. vm_compute. reflexivity. Qed.

(* END TO END.  A successful WithdrawMargin transaction: the wallet receives exactly the requested amount
   (minus whatever the caller attached), the stored margin falls by amount + funding owed and stays >= 0,
   size / notional unchanged, checkpoint moved.  A successful DepositMargin transaction: the stored margin
   rises by exactly the amount, the wallet falls by exactly the amount (cw20: pulled; native: attached),
   nothing else of the position changes. *)
Theorem C05_withdraw_margin_tx : forall f w t v amount funds w',
  exec_op f w (OEngine t (EWithdrawMargin v amount) funds) = Ok w' ->
  let p := read_position (w_eng w) v t in
  pos_wf p -> cpf_wf (w_eng w) v -> 0 < e_dec (ec (w_eng w)) -> 0 <= amount ->
  t <> A_ENGINE -> t <> A_IFUND -> t <> if_engine (w_if w) ->
  bal (w_tok w') t = bal (w_tok w) t - funds + amount /\
  exists p', find_position (w_eng w') v t = Some p' /\
    p_margin p' = p_margin p - amount - funding_owed w v p /\ 0 <= p_margin p' /\
    p_size p' = p_size p /\ p_notional p' = p_notional p /\ p_lupf p' = cumulative_premium_fraction (w_eng w) v.
Proof. exact withdraw_margin_tx. Qed.
Print Assumptions C05_withdraw_margin_tx.
Theorem C05_deposit_margin_tx : forall f w t v amount funds w',
  exec_op f w (OEngine t (EDepositMargin v amount) funds) = Ok w' ->
  t <> A_ENGINE -> t <> A_IFUND -> t <> if_engine (w_if w) ->
  exists p, find_position (w_eng w) v t = Some p /\
    find_position (w_eng w') v t = Some (mkPos (p_dir p) (p_size p) (p_margin p + amount) (p_notional p) (p_lupf p) (p_block p)) /\
    amount <> 0 /\ bal (w_tok w') t = bal (w_tok w) t - amount.
Proof. exact deposit_margin_tx. Qed.
Print Assumptions C05_deposit_margin_tx.

(* non-vacuity: both succeed in the concrete scenario (cw20 and native) *)
Definition c05_margin_example : bool :=
  match scenario, scenario_native with
  | Ok w, Ok wn =>
      let ok w0 o := match exec_op (-1) w0 o with Ok _ => true | Err _ => false end in
      ok w (OEngine 21 (EWithdrawMargin 11 1000000) 0) && ok w (OEngine 21 (EDepositMargin 11 1000000) 0) &&
      ok wn (OEngine 21 (EWithdrawMargin 11 1000000) 0) && ok wn (OEngine 21 (EDepositMargin 11 1000000) 1000000) &&
      pos_wfb (read_position (w_eng w) 11 21) && wf0b (cumulative_premium_fraction (w_eng w) 11)
  | _, _ => false
  end.
Example C05_margin_nonvacuous : c05_margin_example = true.
Proof. vm_compute. reflexivity. Qed.

(* the leverage clause at transaction level: an OpenPosition transaction succeeds only with
   1 <= leverage <= 1 / initial margin ratio; outside those bounds the step fails and the world is unchanged *)
Theorem C05_open_position_tx_leverage : forall f w t v s m l lim funds w',
  exec_op f w (OEngine t (EOpenPosition v s m l lim) funds) = Ok w' ->
  0 <= e_init (ec (w_eng w)) -> 0 < e_dec (ec (w_eng w)) ->
  e_dec (ec (w_eng w)) <= l /\ l * e_init (ec (w_eng w)) <= e_dec (ec (w_eng w)) * e_dec (ec (w_eng w)).
Proof. exact open_position_tx_leverage. Qed.
Print Assumptions C05_open_position_tx_leverage.

Theorem C05_open_position_tx_leverage_refused : forall f w t v s m l lim funds,
  0 <= e_init (ec (w_eng w)) -> 0 < e_dec (ec (w_eng w)) ->
  l < e_dec (ec (w_eng w)) \/ e_dec (ec (w_eng w)) * e_dec (ec (w_eng w)) < l * e_init (ec (w_eng w)) ->
  step_f f w (OEngine t (EOpenPosition v s m l lim) funds) = (w, false).
Proof. exact open_position_tx_leverage_refused. Qed.
Print Assumptions C05_open_position_tx_leverage_refused.
