(* C06: liquidation only of under-margined positions, with exact payouts.  Statements only. *)
From MP.Model Require Import Prelude U128 SInt Feed Vamm VammOps Token World Engine Runtime.
From MP.Proofs Require Import Tactics SIntFacts EngineArith CloseFacts LiqFacts LiqTxFacts MirrorFacts PartialLiqTxFacts LimitTxFacts.
From MP.Model Require Import Scenario.

(* Liquidate is accepted only if the liquidation ratio (spot/TWAP ratio, overridden by the oracle
   ratio when the spread limit is exceeded and it is higher) is not above the maintenance ratio,
   the position is non-empty and the vAMM is registered and open *)
Theorem C06_only_if_under_margined : forall w s v t lim r,
  e_liquidate w s v t lim = Ok r ->
  exists mr, liq_ratio (with_liquidator w s) v t = Ok mr /\
             sgtb mr (spos (e_maint (ec (w_eng w)))) = false /\
             sval (p_size (read_position (w_eng w) v t)) <> 0 /\
             require_vamm (with_liquidator w s) v = Ok tt.
Proof. exact liquidate_only_if. Qed.
Print Assumptions C06_only_if_under_margined.

(* `not greater` on the type = `<=` on the integers *)
Theorem C06_ratio_le_maintenance : forall mr m, wf0 mr -> 0 <= m -> sgtb mr (spos m) = false -> toZ mr <= m.
Proof. exact not_sgtb_le. Qed.
Print Assumptions C06_ratio_le_maintenance.

(* a full liquidation pays the liquidator exactly floor(floor(quote x fee / D) / 2), pays the
   liquidated trader nothing, removes the position and marks the block *)
Theorem C06_full_liquidation : forall w i o w' msgs swap liquidator,
  e_tmp (w_eng w) = Some swap -> e_liq (w_eng w) = Some liquidator ->
  let v := ts_vamm swap in let t := ts_trader swap in
  0 <= o -> 0 < e_dec (ec (w_eng w)) -> 0 <= e_liqfee (ec (w_eng w)) ->
  liquidator <> e_ifund (ec (w_eng w)) ->
  liquidate_reply w i o = Ok (w', msgs) ->
  let fee := o * e_liqfee (ec (w_eng w)) / e_dec (ec (w_eng w)) / 2 in
  transfers_to liquidator msgs = fee /\
  (t <> liquidator -> t <> e_ifund (ec (w_eng w)) -> transfers_to t msgs = 0) /\
  find_position (w_eng w') v t = None /\
  vm_lrb (read_vmap (w_eng w') v) = height (w_env w) /\
  w_tok w' = w_tok w /\ w_vamms w' = w_vamms w.
Proof. exact liquidate_reply_spec. Qed.
Print Assumptions C06_full_liquidation.

(* END TO END.  A Liquidate transaction that liquidates the position in full (nothing is left stored for the
   trader) - swap, reply, insurance-fund draws, transfers; any fault index - pays the liquidator exactly
   floor(floor(exchanged quote x liquidation fee ratio / D) / 2) and leaves the liquidated trader's wallet
   exactly as it was. *)
Theorem C06_full_liquidation_tx_pays : forall f w s v t lim funds w',
  exec_op f w (OEngine s (ELiquidate v t lim) funds) = Ok w' ->
  let p := read_position (w_eng w) v t in
  0 < e_dec (ec (w_eng w)) -> 0 <= e_liqfee (ec (w_eng w)) ->
  s <> A_ENGINE -> s <> A_IFUND -> s <> if_engine (w_if w) -> s <> e_ifund (ec (w_eng w)) ->
  find_position (w_eng w') v t = None ->
  exists vm vm' o, get_vamm w v = Ok vm /\
    swap_output vm (w_env w) A_ENGINE (p_dir p) (sval (p_size p)) lim = Ok (vm', (o, sval (p_size p))) /\
    bal (w_tok w') s = bal (w_tok w) s - funds + o * e_liqfee (ec (w_eng w)) / e_dec (ec (w_eng w)) / 2 /\
    (t <> s -> t <> A_ENGINE -> t <> A_IFUND -> t <> if_engine (w_if w) -> t <> e_ifund (ec (w_eng w)) ->
       bal (w_tok w') t = bal (w_tok w) t).
Proof. exact liquidate_tx_pays. Qed.
Print Assumptions C06_full_liquidation_tx_pays.

(* non-vacuity: in the concrete scenario trader 22, made liquidatable by raising the maintenance ratio, is
   liquidated in full by account 31, whose wallet grows *)
Definition c06_example : bool :=
  match scenario with
  | Ok w =>
      let w1 := run w [OEngine 1 (EUpdateConfig None None None (Some 900000) (Some 900000) None None) 0] in
      match exec_op (-1) w1 (OEngine 31 (ELiquidate 11 22 0) 0) with
      | Ok w' =>
          (0 <? e_dec (ec (w_eng w1))) && (0 <=? e_liqfee (ec (w_eng w1))) &&
          negb (31 =? A_ENGINE) && negb (31 =? A_IFUND) && negb (31 =? if_engine (w_if w1)) && negb (31 =? e_ifund (ec (w_eng w1))) &&
          match find_position (w_eng w') 11 22 with None => true | Some _ => false end &&
          (bal (w_tok w1) 31 <? bal (w_tok w') 31) && (bal (w_tok w') 22 =? bal (w_tok w1) 22)
      | Err _ => false
      end
  | Err _ => false
  end.
Example C06_nonvacuous : c06_example = true.
Proof. vm_compute. reflexivity. Qed.

(* END TO END, partial liquidation.  A Liquidate transaction after which the position is still stored - the
   partial path - has swapped out exactly b = floor(|size| x partial ratio / D) base, leaves the position with
   size moved by exactly b toward zero and its direction unchanged, and pays the liquidator exactly
   floor(floor(exchanged quote x fee ratio / D) / 2). *)
Theorem C06_partial_liquidation_tx : forall f w s v t lim funds w',
  exec_op f w (OEngine s (ELiquidate v t lim) funds) = Ok w' ->
  let p := read_position (w_eng w) v t in
  let c := ec (w_eng w) in
  coherent p -> 0 <= e_plr c -> 0 < e_dec c ->
  s <> A_ENGINE -> s <> A_IFUND -> s <> if_engine (w_if w) -> s <> e_ifund c ->
  (exists p1, find_position (w_eng w') v t = Some p1) ->
  exists p' vm vm' o,
    find_position (w_eng w') v t = Some p' /\
    get_vamm w v = Ok vm /\
    let b := sval (p_size p) * e_plr c / e_dec c in
    swap_output vm (w_env w) A_ENGINE (p_dir p) b (lim * e_plr c / e_dec c) = Ok (vm', (o, b)) /\
    toZ (p_size p') = (if toZ (p_size p) <? 0 then toZ (p_size p) + b else toZ (p_size p) - b) /\
    p_dir p' = p_dir p /\
    bal (w_tok w') s = bal (w_tok w) s - funds + o * e_liqfee c / e_dec c / 2.
Proof. exact partial_liquidation_tx. Qed.
Print Assumptions C06_partial_liquidation_tx.

(* non-vacuity: with a 25% partial ratio and a margin ratio between the liquidation fee and maintenance,
   trader 22 is liquidated in part *)
Definition c06_partial_example : bool :=
  match scenario with
  | Ok w =>
      let w1 := run w [OEngine 1 (EUpdateConfig None None None (Some 900000) (Some 900000) (Some 250000) None) 0] in
      match exec_op (-1) w1 (OEngine 31 (ELiquidate 11 22 0) 0) with
      | Ok w' =>
          let p := read_position (w_eng w1) 11 22 in
          match find_position (w_eng w') 11 22 with
          | Some p' => (sval (p_size p') <? sval (p_size p)) && negb (sval (p_size p') =? 0) && (bal (w_tok w1) 31 <? bal (w_tok w') 31)
          | None => false
          end
      | Err _ => false
      end
  | Err _ => false
  end.
Example C06_partial_nonvacuous : c06_partial_example = true.
Proof. vm_compute. reflexivity. Qed.

(* the first clause at TRANSACTION level: a Liquidate transaction (any caller, any funds, any fault index) succeeds
   only if, on the state it starts from, the ratio as defined for liquidation is computable and not above the
   maintenance ratio, the named position is not empty and the vAMM is registered and open *)
Theorem C06_liquidate_tx_only_if : forall f w s v t lim funds w',
  exec_op f w (OEngine s (ELiquidate v t lim) funds) = Ok w' ->
  exists mr, liq_ratio (with_liquidator w s) v t = Ok mr /\
             sgtb mr (spos (e_maint (ec (w_eng w)))) = false /\
             sval (p_size (read_position (w_eng w) v t)) <> 0 /\
             require_vamm (with_liquidator w s) v = Ok tt.
Proof. exact liquidate_tx_only_if. Qed.
Print Assumptions C06_liquidate_tx_only_if.
