(* C06: liquidation only of under-margined positions, with exact payouts.  Statements only. *)
From MP.Model Require Import Prelude U128 SInt Feed Vamm VammOps Token World Engine Runtime.
From MP.Proofs Require Import Tactics SIntFacts EngineArith CloseFacts LiqFacts.

(* Liquidate is accepted only if the liquidation ratio (spot/TWAP ratio, overridden by the oracle
   ratio when the spread limit is exceeded and it is higher) is not above the maintenance ratio,
   the position is non-empty and the vAMM is registered and open *)
Theorem C06_only_if_under_margined : forall w s v t lim r,
  e_liquidate w s v t lim = Ok r ->
  exists mr, liq_ratio (with_liquidator w s) v t = Ok mr /\
             sgtb mr (spos (e_maint (ec (w_eng w)))) = false /\
             sval (p_size (read_position (w_eng w) v t)) <> 0 /\
             require_vamm (with_liquidator w s) v = Ok tt.
Proof. exact liquidate_only_if. Qed.
Print Assumptions C06_only_if_under_margined.

(* `not greater` on the type = `<=` on the integers *)
Theorem C06_ratio_le_maintenance : forall mr m, wf0 mr -> 0 <= m -> sgtb mr (spos m) = false -> toZ mr <= m.
Proof. exact not_sgtb_le. Qed.
Print Assumptions C06_ratio_le_maintenance.

(* a full liquidation pays the liquidator exactly floor(floor(quote x fee / D) / 2), pays the
   liquidated trader nothing, removes the position and marks the block *)
Theorem C06_full_liquidation : forall w i o w' msgs swap liquidator,
  e_tmp (w_eng w) = Some swap -> e_liq (w_eng w) = Some liquidator ->
  let v := ts_vamm swap in let t := ts_trader swap in
  0 <= o -> 0 < e_dec (ec (w_eng w)) -> 0 <= e_liqfee (ec (w_eng w)) ->
  liquidator <> e_ifund (ec (w_eng w)) ->
  liquidate_reply w i o = Ok (w', msgs) ->
  let fee := o * e_liqfee (ec (w_eng w)) / e_dec (ec (w_eng w)) / 2 in
  transfers_to liquidator msgs = fee /\
  (t <> liquidator -> t <> e_ifund (ec (w_eng w)) -> transfers_to t msgs = 0) /\
  find_position (w_eng w') v t = None /\
  vm_lrb (read_vmap (w_eng w') v) = height (w_env w) /\
  w_tok w' = w_tok w /\ w_vamms w' = w_vamms w.
Proof. exact liquidate_reply_spec. Qed.
Print Assumptions C06_full_liquidation.
