(* C13: outcomes do not depend on whether collateral is native or cw20.  Statements only.
   Proved so far (the full two-world simulation was refuted for reversals until fix 4c6978e, and is still
   refuted when a native payout needs an insurance-fund draw, see known_findings):
   the single builder that depends on the collateral kind; for the open/increase path that a
   native call is accepted only with exactly the amount a cw20 deployment pulls; and, at transaction level,
   that twin deployments which both carry out a DepositMargin, WithdrawMargin, whole ClosePosition, full or
   partial Liquidate end with the same stored position and the same wallets for the caller (the native call
   attaching what the cw20 deployment pulls).  Not proved: that the native call succeeds whenever the cw20
   one does (false when a payout needs an insurance-fund draw, known finding), and the two-world statement
   for OpenPosition on an existing position. *)
From MP.Model Require Import Prelude U128 SInt Feed Vamm VammOps Token World Engine Runtime.
From MP.Proofs Require Import Tactics SIntFacts EngineArith CloseFacts MirrorFacts CloseTxFacts TwinFacts TwinTxFacts.
From MP.Model Require Import Scenario.

Theorem C13_only_transfer_from_differs : forall w owner receiver amt,
  execute_transfer_from w owner receiver amt =
    if t_native (w_tok w) then mkSub (MTransfer receiver amt) TRANSFER_FAILURE_ID RError
    else mkSub (MTransferFrom owner receiver amt) TRANSFER_FAILURE_ID RError.
Proof. exact transfer_from_kinds. Qed.
Print Assumptions C13_only_transfer_from_differs.

Theorem C13_sent_funds_exact : forall f, are_sufficient f = Ok tt <-> sf_amount f = sf_required f.
Proof. exact are_sufficient_iff. Qed.
Print Assumptions C13_sent_funds_exact.

Theorem C13_increase_native_needs_cw20_pull_partial : forall w i o w' subs swap funds,
  t_native (w_tok w) = true ->
  e_tmp (w_eng w) = Some swap -> e_sent (w_eng w) = Some funds ->
  ts_fees_paid swap = false -> ts_mtv swap = szero -> 0 <= ts_open_notional swap -> 0 < ts_leverage swap -> 0 <= e_dec (ec (w_eng w)) ->
  update_position_reply w i o INCREASE_ID = Ok (w', subs) ->
  exists vm toll spread,
    get_vamm w (ts_vamm swap) = Ok vm /\ q_calc_fee vm (ts_open_notional swap) = Ok (toll, spread) /\
    sf_amount funds = sf_required funds + ts_open_notional swap * e_dec (ec (w_eng w)) / ts_leverage swap + spread + toll.
Proof. exact increase_native_exact_funds. Qed.
Print Assumptions C13_increase_native_needs_cw20_pull_partial.

(* twin deployments: same engine, vAMM, fund state and ledger; one on native collateral, one on cw20 *)
Theorem C13_twin_deposit : forall fc fn wc wn t v amount fundsn wc' wn',
  twin wc wn ->
  exec_op fc wc (OEngine t (EDepositMargin v amount) 0) = Ok wc' ->
  exec_op fn wn (OEngine t (EDepositMargin v amount) fundsn) = Ok wn' ->
  t <> A_ENGINE -> t <> A_IFUND -> t <> if_engine (w_if wc) ->
  find_position (w_eng wc') v t = find_position (w_eng wn') v t /\
  bal (w_tok wc') t = bal (w_tok wn') t.
Proof. exact twin_deposit. Qed.
Print Assumptions C13_twin_deposit.

Theorem C13_twin_withdraw : forall fc fn wc wn t v amount wc' wn',
  twin wc wn ->
  exec_op fc wc (OEngine t (EWithdrawMargin v amount) 0) = Ok wc' ->
  exec_op fn wn (OEngine t (EWithdrawMargin v amount) 0) = Ok wn' ->
  let p := read_position (w_eng wc) v t in
  pos_wf p -> cpf_wf (w_eng wc) v -> 0 < e_dec (ec (w_eng wc)) -> 0 <= amount ->
  t <> A_ENGINE -> t <> A_IFUND -> t <> if_engine (w_if wc) ->
  bal (w_tok wc') t = bal (w_tok wn') t /\
  exists pc pn, find_position (w_eng wc') v t = Some pc /\ find_position (w_eng wn') v t = Some pn /\
    p_margin pc = p_margin pn /\ p_size pc = p_size pn /\ p_notional pc = p_notional pn /\ p_lupf pc = p_lupf pn.
Proof. exact twin_withdraw. Qed.
Print Assumptions C13_twin_withdraw.

(* whole close: the native wallet plus what was attached equals the cw20 wallet plus the fees it was charged; with
   exactly the fees attached the two wallets are equal *)
Theorem C13_twin_close : forall fc fn wc wn t v lim fundsn wc' wn',
  twin wc wn ->
  exec_op fc wc (OEngine t (EClosePosition v lim) 0) = Ok wc' ->
  exec_op fn wn (OEngine t (EClosePosition v lim) fundsn) = Ok wn' ->
  let p := read_position (w_eng wc) v t in
  pos_wf p -> cpf_wf (w_eng wc) v -> 0 < e_dec (ec (w_eng wc)) ->
  t <> A_ENGINE -> t <> A_IFUND -> t <> if_engine (w_if wc) ->
  t <> e_ifund (ec (w_eng wc)) -> t <> e_feepool (ec (w_eng wc)) ->
  find_position (w_eng wc') v t = None -> find_position (w_eng wn') v t = None ->
  exists vm, get_vamm wc v = Ok vm /\
    bal (w_tok wn') t + fundsn =
    bal (w_tok wc') t + fee_of vm (p_notional p) (v_spread (vc vm)) + fee_of vm (p_notional p) (v_toll (vc vm)).
Proof. exact twin_close. Qed.
Print Assumptions C13_twin_close.

Theorem C13_twin_liquidate_full : forall fc fn wc wn s v t lim wc' wn',
  twin wc wn ->
  exec_op fc wc (OEngine s (ELiquidate v t lim) 0) = Ok wc' ->
  exec_op fn wn (OEngine s (ELiquidate v t lim) 0) = Ok wn' ->
  0 < e_dec (ec (w_eng wc)) -> 0 <= e_liqfee (ec (w_eng wc)) ->
  s <> A_ENGINE -> s <> A_IFUND -> s <> if_engine (w_if wc) -> s <> e_ifund (ec (w_eng wc)) ->
  find_position (w_eng wc') v t = None -> find_position (w_eng wn') v t = None ->
  bal (w_tok wc') s = bal (w_tok wn') s /\
  (t <> s -> t <> A_ENGINE -> t <> A_IFUND -> t <> if_engine (w_if wc) -> t <> e_ifund (ec (w_eng wc)) ->
     bal (w_tok wc') t = bal (w_tok wn') t).
Proof. exact twin_liquidate_full. Qed.
Print Assumptions C13_twin_liquidate_full.

Theorem C13_twin_liquidate_partial : forall fc fn wc wn s v t lim wc' wn',
  twin wc wn ->
  exec_op fc wc (OEngine s (ELiquidate v t lim) 0) = Ok wc' ->
  exec_op fn wn (OEngine s (ELiquidate v t lim) 0) = Ok wn' ->
  let p := read_position (w_eng wc) v t in let c := ec (w_eng wc) in
  coherent p -> 0 <= e_plr c -> 0 < e_dec c ->
  s <> A_ENGINE -> s <> A_IFUND -> s <> if_engine (w_if wc) -> s <> e_ifund c ->
  (exists p1, find_position (w_eng wc') v t = Some p1) -> (exists p1, find_position (w_eng wn') v t = Some p1) ->
  bal (w_tok wc') s = bal (w_tok wn') s /\
  exists pc pn, find_position (w_eng wc') v t = Some pc /\ find_position (w_eng wn') v t = Some pn /\
    toZ (p_size pc) = toZ (p_size pn) /\ p_dir pc = p_dir pn.
Proof. exact twin_liquidate_partial. Qed.
Print Assumptions C13_twin_liquidate_partial.

Theorem C13_twin_open_new : forall fc fn wc wn t v s m l lim fundsn wc' wn' vm,
  twin wc wn ->
  exec_op fc wc (OEngine t (EOpenPosition v s m l lim) 0) = Ok wc' ->
  exec_op fn wn (OEngine t (EOpenPosition v s m l lim) fundsn) = Ok wn' ->
  find_position (w_eng wc) v t = None -> get_vamm wc v = Ok vm -> 0 <= m -> 0 <= l -> 0 < e_dec (ec (w_eng wc)) ->
  wf0 (v_total (vs vm)) ->
  let ifund := e_ifund (ec (w_eng wc)) in let pool := e_feepool (ec (w_eng wc)) in
  ifund <> pool -> ifund <> A_ENGINE -> pool <> A_ENGINE -> t <> ifund -> t <> pool ->
  bal (w_tok wc') ifund = bal (w_tok wn') ifund /\ bal (w_tok wc') pool = bal (w_tok wn') pool /\
  exists pc pn, find_position (w_eng wc') v t = Some pc /\ find_position (w_eng wn') v t = Some pn /\
    toZ (p_size pc) = toZ (p_size pn).
Proof. exact twin_open_new. Qed.
Print Assumptions C13_twin_open_new.

(* OpenPosition on ANY path (new, increase, reduce, reversal): both deployments pay the fee pool the same amount *)
Theorem C13_twin_open_pool : forall fc fn wc wn t v s m l lim fundsn wc' wn' vm,
  twin wc wn ->
  exec_op fc wc (OEngine t (EOpenPosition v s m l lim) 0) = Ok wc' ->
  exec_op fn wn (OEngine t (EOpenPosition v s m l lim) fundsn) = Ok wn' ->
  get_vamm wc v = Ok vm -> 0 <= m -> 0 <= l -> 0 < e_dec (ec (w_eng wc)) ->
  let pool := e_feepool (ec (w_eng wc)) in
  pool <> A_ENGINE -> pool <> A_IFUND -> pool <> if_engine (w_if wc) -> e_ifund (ec (w_eng wc)) <> pool -> t <> pool ->
  bal (w_tok wc') pool = bal (w_tok wn') pool.
Proof. exact twin_open_pool. Qed.
Print Assumptions C13_twin_open_pool.

(* non-vacuity: the cw20 and the native scenario are twins as far as the relation can be computed (engine, vAMMs,
   fund, environment, the balances of every account of the scenario), and both carry out a whole close - the native
   one with exactly the fees attached - ending with equal wallets *)
Definition c13_twin_close_example : bool :=
  match scenario, scenario_native with
  | Ok wc, Ok wn =>
      negb (t_native (w_tok wc)) && t_native (w_tok wn) &&
      forallb (fun a => bal (w_tok wc) a =? bal (w_tok wn) a) [1; 2; 3; 4; 21; 22; 23; 31] &&
      match get_vamm wc 11 with
      | Ok vm =>
          let p := read_position (w_eng wc) 11 21 in
          let fees := fee_of vm (p_notional p) (v_spread (vc vm)) + fee_of vm (p_notional p) (v_toll (vc vm)) in
          match exec_op (-1) wc (OEngine 21 (EClosePosition 11 0) 0), exec_op (-1) wn (OEngine 21 (EClosePosition 11 0) fees) with
          | Ok wc', Ok wn' => (bal (w_tok wc') 21 =? bal (w_tok wn') 21) && negb (bal (w_tok wc') 21 =? bal (w_tok wc) 21)
          | _, _ => false
          end
      | Err _ => false
      end
  | _, _ => false
  end.
Example C13_twin_close_nonvacuous : c13_twin_close_example = true.
Proof. vm_compute. reflexivity. Qed.

(* FIXED FINDING (reverse_required_funds, fix 4c6978e in /repo): before the fix the native engine demanded the whole
   margin of the re-opened position (6058939 in this scenario) instead of that margin net of the equity the
   old position releases.  The twin scenarios that were the refutation witness now agree: the cw20 deployment
   pulls 1176817 from the trader; the native call with exactly that amount attached succeeds and costs the
   trader exactly that; the old amount is refused as excessive. *)
Definition c13_cw20_reversal : option Z :=
  match scenario with
  | Ok w => match exec_op (-1) w (OEngine 21 (EOpenPosition 11 Sell 11000000 2000000 0) 0) with
            | Ok w' => Some (bal (w_tok w) 21 - bal (w_tok w') 21) | Err _ => None end
  | Err _ => None
  end.
Definition c13_native_reversal (funds : Z) : option Z :=
  match scenario_native with
  | Ok w => match exec_op (-1) w (OEngine 21 (EOpenPosition 11 Sell 11000000 2000000 0) funds) with
            | Ok w' => Some (bal (w_tok w) 21 - bal (w_tok w') 21) | Err _ => None end
  | Err _ => None
  end.
Example C13_reversal_twins_agree_example :
  c13_cw20_reversal = Some 1176817 /\ c13_native_reversal 1176817 = Some 1176817 /\ c13_native_reversal 6058939 = None.
Proof. repeat split; vm_compute; reflexivity. Qed.
