(* C13: outcomes do not depend on whether collateral is native or cw20.  Statements only.
   Proved so far (the full two-world simulation was refuted for reversals until fix 4c6978e, and is still
   refuted when a native payout needs an insurance-fund draw, see known_findings):
   the single builder that depends on the collateral kind, and for the open/increase path that a
   native call is accepted only with exactly the amount a cw20 deployment pulls. *)
From MP.Model Require Import Prelude U128 SInt Feed Vamm VammOps Token World Engine Runtime.
From MP.Proofs Require Import Tactics SIntFacts TwinFacts.
From MP.Model Require Import Scenario.

Theorem C13_only_transfer_from_differs : forall w owner receiver amt,
  execute_transfer_from w owner receiver amt =
    if t_native (w_tok w) then mkSub (MTransfer receiver amt) TRANSFER_FAILURE_ID RError
    else mkSub (MTransferFrom owner receiver amt) TRANSFER_FAILURE_ID RError.
Proof. exact transfer_from_kinds. Qed.
Print Assumptions C13_only_transfer_from_differs.

Theorem C13_sent_funds_exact : forall f, are_sufficient f = Ok tt <-> sf_amount f = sf_required f.
Proof. exact are_sufficient_iff. Qed.
Print Assumptions C13_sent_funds_exact.

Theorem C13_increase_native_needs_cw20_pull_partial : forall w i o w' subs swap funds,
  t_native (w_tok w) = true ->
  e_tmp (w_eng w) = Some swap -> e_sent (w_eng w) = Some funds ->
  ts_fees_paid swap = false -> ts_mtv swap = szero -> 0 <= ts_open_notional swap -> 0 < ts_leverage swap -> 0 <= e_dec (ec (w_eng w)) ->
  update_position_reply w i o INCREASE_ID = Ok (w', subs) ->
  exists vm toll spread,
    get_vamm w (ts_vamm swap) = Ok vm /\ q_calc_fee vm (ts_open_notional swap) = Ok (toll, spread) /\
    sf_amount funds = sf_required funds + ts_open_notional swap * e_dec (ec (w_eng w)) / ts_leverage swap + spread + toll.
Proof. exact increase_native_exact_funds. Qed.
Print Assumptions C13_increase_native_needs_cw20_pull_partial.

(* FIXED FINDING (reverse_required_funds, fix 4c6978e in /repo): before the fix the native engine demanded the whole
   margin of the re-opened position (6058939 in this scenario) instead of that margin net of the equity the
   old position releases.  The twin scenarios that were the refutation witness now agree: the cw20 deployment
   pulls 1176817 from the trader; the native call with exactly that amount attached succeeds and costs the
   trader exactly that; the old amount is refused as excessive. *)
Definition c13_cw20_reversal : option Z :=
  match scenario with
  | Ok w => match exec_op (-1) w (OEngine 21 (EOpenPosition 11 Sell 11000000 2000000 0) 0) with
            | Ok w' => Some (bal (w_tok w) 21 - bal (w_tok w') 21) | Err _ => None end
  | Err _ => None
  end.
Definition c13_native_reversal (funds : Z) : option Z :=
  match scenario_native with
  | Ok w => match exec_op (-1) w (OEngine 21 (EOpenPosition 11 Sell 11000000 2000000 0) funds) with
            | Ok w' => Some (bal (w_tok w) 21 - bal (w_tok w') 21) | Err _ => None end
  | Err _ => None
  end.
Example C13_reversal_twins_agree_example :
  c13_cw20_reversal = Some 1176817 /\ c13_native_reversal 1176817 = Some 1176817 /\ c13_native_reversal 6058939 = None.
Proof. repeat split; vm_compute; reflexivity. Qed.
