(* C11: funding settles on schedule, exactly.  Statements only. *)
From MP.Model Require Import Prelude U128 SInt Feed Vamm VammOps Token World Engine Runtime.
From MP.Proofs Require Import Tactics SIntFacts EngineGuards EngineArith MoreFacts FundingTxFacts ReverseFundingFacts.
From MP.Model Require Import Scenario.

Theorem C11_too_early_fails : forall v e s o, now e < v_next_funding (vs v) -> exists er, settle_funding v e s o = Err er.
Proof. exact settle_funding_too_early. Qed.
Print Assumptions C11_too_early_fails.

(* an accepted settlement: premium fraction = (vAMM TWAP - oracle TWAP) x period / day (checked
   signed arithmetic, truncating), next funding time at least half a period (the buffer) later *)
Theorem C11_settlement : forall v e s o v' pf,
  settle_funding v e s o = Ok (v', pf) ->
  v_open (vs v) = true /\ s = v_engine (vc v) /\ v_next_funding (vs v) <= now e /\
  exists underlying index premium p1,
    o_twap o (v_twap_interval (vc v)) = Ok underlying /\
    q_twap_price v e (v_twap_interval (vc v)) = Ok index /\
    schecked_sub (spos index) (spos underlying) = Ok premium /\
    schecked_mul premium (spos (v_fperiod (vc v))) = Ok p1 /\
    schecked_div p1 (spos ONE_DAY) = Ok pf /\
    now e + v_fbuffer (vc v) <= v_next_funding (vs v') /\
    (now e + v_fperiod (vc v)) / ONE_HOUR * ONE_HOUR <= v_next_funding (vs v').
Proof. exact settle_funding_spec. Qed.
Print Assumptions C11_settlement.

(* the engine side of an accepted settlement: the cumulative premium fraction advances by exactly the
   fraction the vAMM reported; with payment = trunc(net position x fraction / D), a negative payment
   draws |payment| from the insurance fund into the vault, a positive one sends min(payment, vault
   balance) from the vault to the insurance fund, zero moves nothing; nothing else changes *)
Theorem C11_engine_settlement : forall w pf vamm w' msgs,
  pay_funding_reply w pf vamm = Ok (w', msgs) ->
  wf0 pf -> cpf_wf (w_eng w) vamm -> 0 < e_dec (ec (w_eng w)) ->
  (forall v, get_vamm w vamm = Ok v -> wf0 (v_total (vs v))) ->
  toZ (cumulative_premium_fraction (w_eng w') vamm) = toZ (cumulative_premium_fraction (w_eng w) vamm) + toZ pf /\
  wf0 (cumulative_premium_fraction (w_eng w') vamm) /\
  (exists v, get_vamm w vamm = Ok v /\
     msgs = funding_msgs w (Z.quot (toZ (v_total (vs v)) * toZ pf) (e_dec (ec (w_eng w))))) /\
  w_tok w' = w_tok w /\ w_vamms w' = w_vamms w /\ w_if w' = w_if w /\ w_fp w' = w_fp w /\
  es (w_eng w') = es (w_eng w) /\ ec (w_eng w') = ec (w_eng w) /\ e_pos (w_eng w') = e_pos (w_eng w) /\
  vm_lrb (read_vmap (w_eng w') vamm) = vm_lrb (read_vmap (w_eng w) vamm).
Proof. exact pay_funding_reply_spec. Qed.
Print Assumptions C11_engine_settlement.

(* a trade (increase or reduce) charges exactly the funding owed since the checkpoint - the stored margin
   is max(0, delta - owed + old margin) - moves the checkpoint to the current cumulative fraction, and
   afterwards nothing is owed: the same settlement cannot be charged again *)
Theorem C11_trade_charges_once : forall w i o id w' subs tm,
  update_position_reply w i o id = Ok (w', subs) -> e_tmp (w_eng w) = Some tm ->
  let v := ts_vamm tm in let t := ts_trader tm in
  let p := get_position (w_eng w) (w_env w) v t (ts_side tm) in
  pos_wf p -> cpf_wf (w_eng w) v -> 0 < e_dec (ec (w_eng w)) ->
  wf0 (ts_upnl tm) -> 0 <= o -> 0 <= ts_open_notional tm -> 0 < ts_leverage tm ->
  exists p' delta, find_position (w_eng w') v t = Some p' /\
    p_lupf p' = cumulative_premium_fraction (w_eng w) v /\
    p_block p' = height (w_env w) /\
    p_margin p' = Z.max 0 (delta - funding_owed w v p + p_margin p) /\
    (id = INCREASE_ID -> delta = ts_open_notional tm * e_dec (ec (w_eng w)) / ts_leverage tm) /\
    cumulative_premium_fraction (w_eng w') v = cumulative_premium_fraction (w_eng w) v /\
    funding_owed w' v p' = 0.
Proof. exact update_position_reply_funding. Qed.
Print Assumptions C11_trade_charges_once.

(* a reversal settles the old position too: what it releases is the margin after the charge, max(0, margin - owed)
   (the charge is capped at the margin there is; a shortfall is bad debt, which C04 / C07 speak about).  The
   released amount minus the unrealised PnL is what an exact reversal transfers to the trader, and what the
   re-opening leg of a larger reversal carries as margin-to-vault (with the fees marked as paid, so they are
   not charged a second time) *)
Theorem C11_reversal_charges_once : forall w i o w' subs tm,
  reverse_position_reply w i o = Ok (w', subs) -> e_tmp (w_eng w) = Some tm ->
  let v := ts_vamm tm in let t := ts_trader tm in
  let p := get_position (w_eng w) (w_env w) v t (ts_side tm) in
  pos_wf p -> cpf_wf (w_eng w) v -> 0 < e_dec (ec (w_eng w)) ->
  let released := Z.max 0 (p_margin p - funding_owed w v p) in
  exists x, schecked_sub (sneg_ released) (ts_upnl tm) = Ok x /\
    ((exists fees, subs = fees ++ [execute_transfer t (sval x)] /\ e_tmp (w_eng w') = None) \/
     (exists tm', e_tmp (w_eng w') = Some tm' /\ ts_mtv tm' = x /\ ts_fees_paid tm' = true)).
Proof. exact reverse_position_reply_funding. Qed.
Print Assumptions C11_reversal_charges_once.

(* END TO END.  A successful PayFunding transaction (vAMM settlement, engine reply, the transfer; any fault
   index) advances the cumulative premium fraction by exactly the fraction the vAMM computed, and with
   payment = trunc(net position x fraction / D) moves exactly |payment| of collateral: from the vault to the
   insurance fund when positive (capped at the vault's balance), from the insurance fund to the vault when
   negative, nothing when zero; no other account's balance changes.  Side conditions: both TWAPs
   non-negative, the fund pays the engine, the engine's fund address is the fund. *)
Theorem C11_pay_funding_tx : forall f w s v w' vm,
  exec_op f w (OEngine s (EPayFunding v) 0) = Ok w' ->
  get_vamm w v = Ok vm -> wf0 (v_total (vs vm)) -> cpf_wf (w_eng w) v -> 0 < e_dec (ec (w_eng w)) ->
  (forall x, o_twap (oracle_of w vm) (v_twap_interval (vc vm)) = Ok x -> 0 <= x) ->
  (forall x, q_twap_price vm (w_env w) (v_twap_interval (vc vm)) = Ok x -> 0 <= x) ->
  0 <= v_fperiod (vc vm) ->
  if_engine (w_if w) = A_ENGINE -> e_ifund (ec (w_eng w)) = A_IFUND ->
  exists vm' pf, settle_funding vm (w_env w) A_ENGINE (oracle_of w vm) = Ok (vm', pf) /\
    toZ (cumulative_premium_fraction (w_eng w') v) = toZ (cumulative_premium_fraction (w_eng w) v) + toZ pf /\
    let payment := Z.quot (toZ (v_total (vs vm)) * toZ pf) (e_dec (ec (w_eng w))) in
    let moved := if payment <? 0 then payment else if 0 <? payment then Z.min (bal (w_tok w) A_ENGINE) payment else 0 in
    bal (w_tok w') A_ENGINE = bal (w_tok w) A_ENGINE - moved /\
    bal (w_tok w') A_IFUND = bal (w_tok w) A_IFUND + moved /\
    forall a, a <> A_ENGINE -> a <> A_IFUND -> bal (w_tok w') a = bal (w_tok w) a.
Proof. exact pay_funding_tx. Qed.
Print Assumptions C11_pay_funding_tx.

(* "no settlement is charged twice or skipped", the accrual side.  funding_num w v p = (cumulative fraction -
   checkpoint of p) x size of p is the numerator of what p owes (funding_owed = funding_num / D, truncated).  A
   PayFunding transaction writes no stored position, and raises funding_num of every position on that vAMM by
   exactly premium fraction x size; a touch by the owner charges funding_owed and moves the checkpoint to the
   current value (C11_trade_charges_once, C05_withdraw_margin_tx, C04_close_position_tx_pays_equity), i.e.
   resets funding_num to zero.  So what a position is charged at a touch is the sum of the settlements since
   its previous touch, each counted once. *)
Theorem C11_settlement_accrues_once : forall f w s v w' vm,
  exec_op f w (OEngine s (EPayFunding v) 0) = Ok w' ->
  get_vamm w v = Ok vm -> wf0 (v_total (vs vm)) -> cpf_wf (w_eng w) v -> 0 < e_dec (ec (w_eng w)) ->
  (forall x, o_twap (oracle_of w vm) (v_twap_interval (vc vm)) = Ok x -> 0 <= x) ->
  (forall x, q_twap_price vm (w_env w) (v_twap_interval (vc vm)) = Ok x -> 0 <= x) ->
  0 <= v_fperiod (vc vm) ->
  if_engine (w_if w) = A_ENGINE -> e_ifund (ec (w_eng w)) = A_IFUND -> e_tmp (w_eng w) = None ->
  exists vm' pf, settle_funding vm (w_env w) A_ENGINE (oracle_of w vm) = Ok (vm', pf) /\
    (forall u t, find_position (w_eng w') u t = find_position (w_eng w) u t) /\
    (forall p, funding_num w' v p = funding_num w v p + toZ pf * toZ (p_size p)).
Proof. exact pay_funding_tx_accrues. Qed.
Print Assumptions C11_settlement_accrues_once.

(* non-vacuity: in the concrete scenario, after the funding time has passed and the oracle price was moved,
   PayFunding by a stranger succeeds, every premise holds, and collateral moves between vault and fund *)
Definition c11_example : bool :=
  match scenario with
  | Ok w0 =>
      let w := run w0 [OBlock 4000 1; OFeed 1 (PAppend 9000000 5030)] in
      match zfind 11 (w_vamms w) with
      | Some vm =>
          let nonneg r := match r with Ok x => 0 <=? x | Err _ => true end in
          wf0b (v_total (vs vm)) && wf0b (cumulative_premium_fraction (w_eng w) 11) && (0 <? e_dec (ec (w_eng w))) &&
          nonneg (o_twap (oracle_of w vm) (v_twap_interval (vc vm))) &&
          nonneg (q_twap_price vm (w_env w) (v_twap_interval (vc vm))) && (0 <=? v_fperiod (vc vm)) &&
          (if_engine (w_if w) =? A_ENGINE) && (e_ifund (ec (w_eng w)) =? A_IFUND) &&
          match exec_op (-1) w (OEngine 41 (EPayFunding 11) 0) with
          | Ok w' => negb (bal (w_tok w') A_ENGINE =? bal (w_tok w) A_ENGINE) &&
                     (bal (w_tok w') A_ENGINE + bal (w_tok w') A_IFUND =? bal (w_tok w) A_ENGINE + bal (w_tok w) A_IFUND)
          | Err _ => false
          end
      | None => false
      end
  | Err _ => false
  end.
Example C11_nonvacuous : c11_example = true.
Proof. vm_compute. reflexivity. Qed.

(* FIXED FINDING (reverse_skips_funding, fix b30e5da in /repo): before the fix a reversing OpenPosition never
   charged the funding its old position owed.  The concrete scenario that was the refutation witness now shows
   the charge: a settlement leaves trader 21 owing 44560; after the reversal the trader's wallet is exactly
   44560 lower than in the run without the settlement, the new position's margin is the same. *)
Definition c11_reversal_outcome (settle : bool) : option (Z * Z * Z) :=
  match scenario with
  | Ok w0 =>
      let w := run w0 ([OBlock 4000 1; OFeed 1 (PAppend 9000000 5030)] ++ (if settle then [OEngine 41 (EPayFunding 11) 0] else [])) in
      let p := read_position (w_eng w) 11 21 in
      match exec_op (-1) w (OEngine 21 (EOpenPosition 11 Sell 11000000 2000000 0) 0) with
      | Ok w' => Some (funding_owed w 11 p, bal (w_tok w') 21, p_margin (read_position (w_eng w') 11 21))
      | Err _ => None
      end
  | Err _ => None
  end.
Example C11_reversal_charges_funding_example :
  c11_reversal_outcome true = Some (44560, 999993823183 - 44560, 6058939) /\
  c11_reversal_outcome false = Some (0, 999993823183, 6058939).
Proof. split; vm_compute; reflexivity. Qed.
