(* C11: funding settles on schedule, exactly.  Statements only. *)
From MP.Model Require Import Prelude U128 SInt Feed Vamm VammOps Token World Engine Runtime.
From MP.Proofs Require Import Tactics EngineGuards.

Theorem C11_too_early_fails : forall v e s o, now e < v_next_funding (vs v) -> exists er, settle_funding v e s o = Err er.
Proof. exact settle_funding_too_early. Qed.
Print Assumptions C11_too_early_fails.

(* an accepted settlement: premium fraction = (vAMM TWAP - oracle TWAP) x period / day (checked
   signed arithmetic, truncating), next funding time at least half a period (the buffer) later *)
Theorem C11_settlement : forall v e s o v' pf,
  settle_funding v e s o = Ok (v', pf) ->
  v_open (vs v) = true /\ s = v_engine (vc v) /\ v_next_funding (vs v) <= now e /\
  exists underlying index premium p1,
    o_twap o (v_twap_interval (vc v)) = Ok underlying /\
    q_twap_price v e (v_twap_interval (vc v)) = Ok index /\
    schecked_sub (spos index) (spos underlying) = Ok premium /\
    schecked_mul premium (spos (v_fperiod (vc v))) = Ok p1 /\
    schecked_div p1 (spos ONE_DAY) = Ok pf /\
    now e + v_fbuffer (vc v) <= v_next_funding (vs v') /\
    (now e + v_fperiod (vc v)) / ONE_HOUR * ONE_HOUR <= v_next_funding (vs v').
Proof. exact settle_funding_spec. Qed.
Print Assumptions C11_settlement.
