(* C09: privileged operations are restricted to their role.  Statements only.
   Each theorem: the entry point succeeds only for its role.  (A failed call changes nothing:
   C08_failed_tx_changes_nothing.) *)
From MP.Model Require Import Prelude U128 SInt Feed Vamm VammOps Token World Engine Runtime.
From MP.Proofs Require Import Tactics ConfigFacts StepFacts.

Theorem C09_vamm_swap_input : forall v e s d q l c r, swap_input v e s d q l c = Ok r -> s = v_engine (vc v) /\ v_open (vs v) = true.
Proof. exact swap_input_only_engine. Qed.
Print Assumptions C09_vamm_swap_input.
Theorem C09_vamm_swap_output : forall v e s d b l r, swap_output v e s d b l = Ok r -> s = v_engine (vc v) /\ v_open (vs v) = true.
Proof. exact swap_output_only_engine. Qed.
Print Assumptions C09_vamm_swap_output.
Theorem C09_vamm_settle_funding : forall v e s o r, settle_funding v e s o = Ok r -> s = v_engine (vc v).
Proof. exact settle_funding_only_engine. Qed.
Print Assumptions C09_vamm_settle_funding.
Theorem C09_vamm_update_config : forall v s u v',
  opt_nonneg (u_toll u) -> opt_nonneg (u_spread u) -> opt_nonneg (u_fluct u) ->
  vamm_update_config v s u = Ok v' -> vcfg_ok (vc v) ->
  vcfg_ok (vc v') /\ v_dec (vc v') = v_dec (vc v) /\ is_admin (v_owner v) s = true /\ vs v' = vs v.
Proof. exact vamm_update_config_cfg. Qed.
Print Assumptions C09_vamm_update_config.
Theorem C09_vamm_set_open : forall v e s o v', set_open v e s o = Ok v' ->
  (is_admin (v_owner v) s = true \/ s = v_ifund (vc v)) /\ v_open (vs v) <> o /\ v_open (vs v') = o.
Proof. exact set_open_only_owner_or_fund. Qed.
Print Assumptions C09_vamm_set_open.
Theorem C09_vamm_update_owner : forall v s n v', vamm_update_owner v s n = Ok v' -> is_admin (v_owner v) s = true /\ v_owner v' = Some n.
Proof. exact vamm_update_owner_only_owner. Qed.
Print Assumptions C09_vamm_update_owner.

Theorem C09_engine_update_config : forall w s o i f a b c d r, e_update_config w s o i f a b c d = Ok r -> s = e_owner (ec (w_eng w)).
Proof. exact e_update_config_only_owner. Qed.
Print Assumptions C09_engine_update_config.
Theorem C09_engine_set_pause : forall w s p r, e_set_pause w s p = Ok r -> is_admin (e_pauser (w_eng w)) s = true.
Proof. exact e_set_pause_only_pauser. Qed.
Print Assumptions C09_engine_set_pause.
Theorem C09_engine_update_pauser : forall w s p r, e_update_pauser w s p = Ok r -> is_admin (e_pauser (w_eng w)) s = true.
Proof. exact e_update_pauser_only_pauser. Qed.
Print Assumptions C09_engine_update_pauser.
Theorem C09_engine_add_whitelist : forall w s a r, e_add_whitelist w s a = Ok r -> is_admin (e_pauser (w_eng w)) s = true.
Proof. exact e_add_whitelist_only_pauser. Qed.
Print Assumptions C09_engine_add_whitelist.
Theorem C09_engine_remove_whitelist : forall w s a r, e_remove_whitelist w s a = Ok r -> is_admin (e_pauser (w_eng w)) s = true.
Proof. exact e_remove_whitelist_only_pauser. Qed.
Print Assumptions C09_engine_remove_whitelist.

Theorem C09_fund_withdraw : forall w s amt r, if_withdraw w s amt = Ok r -> s = if_engine (w_if w).
Proof. exact if_withdraw_only_engine. Qed.
Print Assumptions C09_fund_withdraw.
Theorem C09_fund_add_vamm : forall w s v r, if_add_vamm w s v = Ok r -> is_admin (if_owner (w_if w)) s = true.
Proof. exact if_add_vamm_only_owner. Qed.
Print Assumptions C09_fund_add_vamm.
Theorem C09_fund_remove_vamm : forall w s v r, if_remove_vamm w s v = Ok r -> is_admin (if_owner (w_if w)) s = true.
Proof. exact if_remove_vamm_only_owner. Qed.
Print Assumptions C09_fund_remove_vamm.
Theorem C09_fund_update_owner : forall w s n r, if_update_owner w s n = Ok r -> is_admin (if_owner (w_if w)) s = true /\ if_owner (w_if (fst r)) = Some n.
Proof. exact if_update_owner_only_owner. Qed.
Print Assumptions C09_fund_update_owner.
Theorem C09_fund_shutdown : forall w s r, if_shutdown w s = Ok r -> is_admin (if_owner (w_if w)) s = true \/ s = A_IFUND.
Proof. exact if_shutdown_only_owner. Qed.
Print Assumptions C09_fund_shutdown.

Theorem C09_feepool_add_token : forall w s t r, fp_add_token w s t = Ok r -> is_admin (fp_owner (w_fp w)) s = true.
Proof. exact fp_add_token_only_owner. Qed.
Print Assumptions C09_feepool_add_token.
Theorem C09_feepool_remove_token : forall w s t r, fp_remove_token w s t = Ok r -> is_admin (fp_owner (w_fp w)) s = true.
Proof. exact fp_remove_token_only_owner. Qed.
Print Assumptions C09_feepool_remove_token.
Theorem C09_feepool_send_token : forall w s t a rc r, fp_send_token w s t a rc = Ok r -> is_admin (fp_owner (w_fp w)) s = true.
Proof. exact fp_send_token_only_owner. Qed.
Print Assumptions C09_feepool_send_token.
Theorem C09_feepool_update_owner : forall w s n r, fp_update_owner w s n = Ok r -> is_admin (fp_owner (w_fp w)) s = true /\ fp_owner (w_fp (fst r)) = Some n.
Proof. exact fp_update_owner_only_owner. Qed.
Print Assumptions C09_feepool_update_owner.

Theorem C09_feed_append : forall f s p t f', rf_append f s p t = Ok f' -> is_admin (rf_owner f) s = true.
Proof. exact rf_append_only_owner. Qed.
Print Assumptions C09_feed_append.
Theorem C09_feed_append_multiple : forall f s ps ts f', rf_append_multiple f s ps ts = Ok f' -> is_admin (rf_owner f) s = true.
Proof. exact rf_append_multiple_only_owner. Qed.
Print Assumptions C09_feed_append_multiple.
Theorem C09_feed_update_owner : forall f s n f', rf_update_owner f s n = Ok f' -> is_admin (rf_owner f) s = true /\ rf_owner f' = Some n.
Proof. exact rf_update_owner_only_owner. Qed.
Print Assumptions C09_feed_update_owner.

(* a role is held by exactly the stored address: after a transfer to n, n passes and nobody else *)
Theorem C09_role_is_exactly_the_holder : forall a s, is_admin (Some a) s = true <-> s = a.
Proof. exact is_admin_some. Qed.
Print Assumptions C09_role_is_exactly_the_holder.

(* TRANSACTION LEVEL.  The engine's privileged messages sent by anyone but the role holder: the transaction
   fails and returns the very same world (any funds attached, any fault index). *)
Theorem C09_not_owner_update_config_tx : forall f w s o i fp a b c d funds, s <> e_owner (ec (w_eng w)) ->
  step_f f w (OEngine s (EUpdateConfig o i fp a b c d) funds) = (w, false).
Proof. exact not_owner_update_config_tx. Qed.
Print Assumptions C09_not_owner_update_config_tx.
Theorem C09_not_pauser_set_pause_tx : forall f w s p funds, is_admin (e_pauser (w_eng w)) s = false ->
  step_f f w (OEngine s (ESetPause p) funds) = (w, false).
Proof. exact not_pauser_set_pause_tx. Qed.
Print Assumptions C09_not_pauser_set_pause_tx.
Theorem C09_not_pauser_update_pauser_tx : forall f w s p funds, is_admin (e_pauser (w_eng w)) s = false ->
  step_f f w (OEngine s (EUpdatePauser p) funds) = (w, false).
Proof. exact not_pauser_update_pauser_tx. Qed.
Print Assumptions C09_not_pauser_update_pauser_tx.
Theorem C09_not_pauser_whitelist_tx : forall f w s a funds, is_admin (e_pauser (w_eng w)) s = false ->
  step_f f w (OEngine s (EAddWhitelist a) funds) = (w, false) /\ step_f f w (OEngine s (ERemoveWhitelist a) funds) = (w, false).
Proof. exact not_pauser_whitelist_tx. Qed.
Print Assumptions C09_not_pauser_whitelist_tx.
