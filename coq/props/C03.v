(* C03: collateral is conserved.  Statements only. *)
From MP.Model Require Import Prelude U128 SInt Feed Vamm VammOps Token World Engine Runtime.
From MP.Proofs Require Import Tactics RuntimeFacts LedgerFacts PartiesFacts.
From MP.Model Require Import Scenario.

(* the two ledger primitives (cw20 Transfer / bank Send, cw20 TransferFrom) move, never mint or burn *)
Theorem C03_move_conserves : forall t from to amt t', tok_move t from to amt = Ok t' ->
  total_supply t' = total_supply t /\ t_native t' = t_native t.
Proof. exact tok_move_total. Qed.
Print Assumptions C03_move_conserves.

Theorem C03_move_from_conserves : forall t sp owner to amt t', tok_move_from t sp owner to amt = Ok t' ->
  total_supply t' = total_supply t /\ t_native t' = t_native t.
Proof. exact tok_move_from_total. Qed.
Print Assumptions C03_move_from_conserves.

(* a move touches only its source and destination *)
Theorem C03_move_frame : forall t from to amt t' a, tok_move t from to amt = Ok t' -> a <> from -> a <> to -> bal t' a = bal t a.
Proof. exact tok_move_frame. Qed.
Print Assumptions C03_move_frame.
Theorem C03_move_from_frame : forall t sp owner to amt t' a, tok_move_from t sp owner to amt = Ok t' -> a <> owner -> a <> to -> bal t' a = bal t a.
Proof. exact tok_move_from_frame. Qed.
Print Assumptions C03_move_from_frame.

(* no reply handler of any contract touches the ledger *)
Theorem C03_replies_do_not_touch_ledger : forall w c id r w' subs,
  contract_reply w c id r = Ok (w', subs) -> w_tok w' = w_tok w.
Proof. exact contract_reply_tok. Qed.
Print Assumptions C03_replies_do_not_touch_ledger.

(* any dispatch of any message tree, with or without an injected fault, conserves the total *)
Theorem C03_dispatch_conserves : forall fuel f w n sender subs w' n',
  dispatch fuel f w n sender subs = Ok (w', n') -> wtotal w' = wtotal w.
Proof. exact dispatch_total. Qed.
Print Assumptions C03_dispatch_conserves.

(* every transaction of every contract (all engine / vAMM / insurance fund / fee pool / feed
   messages, allowances and plain transfers), successful or failed: total collateral unchanged.
   The only exception is the set-up mint. *)
Theorem C03_step_conserves : forall f w o, is_mint o = false -> wtotal (fst (step_f f w o)) = wtotal w.
Proof. exact step_total. Qed.
Print Assumptions C03_step_conserves.

(* over every history *)
Theorem C03_history_conserves : forall ops w,
  forallb (fun o => negb (is_mint o)) ops = true -> wtotal (run w ops) = wtotal w.
Proof. exact run_total. Qed.
Print Assumptions C03_history_conserves.

(* END TO END, second clause.  Whatever the engine message (open, close, liquidate, pay funding, deposit,
   withdraw, configuration), whatever the fault index: a successful engine transaction started from a state
   with no in-flight records leaves the balance of every account other than its sender, the engine, the
   insurance fund (its address, its configured address, its beneficiary) and the fee pool exactly as it was -
   in particular the liquidated trader's, bystanders' and the liquidator's counterparties'. *)
Theorem C03_engine_tx_touches_only_its_parties : forall f w s m funds w' a,
  exec_op f w (OEngine s m funds) = Ok w' ->
  e_tmp (w_eng w) = None -> e_liq (w_eng w) = None ->
  a <> s -> a <> A_ENGINE -> a <> A_IFUND -> a <> if_engine (w_if w) ->
  a <> e_ifund (ec (w_eng w)) -> a <> e_feepool (ec (w_eng w)) ->
  bal (w_tok w') a = bal (w_tok w) a.
Proof. exact engine_tx_parties. Qed.
Print Assumptions C03_engine_tx_touches_only_its_parties.

(* non-vacuity: in the concrete scenario the state has no in-flight records and a liquidation by account 31
   of trader 22 succeeds; trader 22 and trader 21 are such outsiders *)
Definition c03_example : bool :=
  match scenario with
  | Ok w0 =>
      let w := run w0 [OEngine 1 (EUpdateConfig None None None (Some 900000) (Some 900000) None None) 0] in
      match e_tmp (w_eng w), e_liq (w_eng w), exec_op (-1) w (OEngine 31 (ELiquidate 11 22 0) 0) with
      | None, None, Ok w' =>
          let outsider a := negb (a =? 31) && negb (a =? A_ENGINE) && negb (a =? A_IFUND) && negb (a =? if_engine (w_if w)) &&
                            negb (a =? e_ifund (ec (w_eng w))) && negb (a =? e_feepool (ec (w_eng w))) in
          outsider 22 && outsider 21 && negb (bal (w_tok w') 31 =? bal (w_tok w) 31)
      | _, _, _ => false
      end
  | Err _ => false
  end.
Example C03_nonvacuous : c03_example = true.
Proof. vm_compute. reflexivity. Qed.
