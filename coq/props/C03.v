(* C03: collateral is conserved.  Statements only. *)
From MP.Model Require Import Prelude U128 SInt Feed Vamm VammOps Token World Engine Runtime.
From MP.Proofs Require Import Tactics RuntimeFacts LedgerFacts.

(* the two ledger primitives (cw20 Transfer / bank Send, cw20 TransferFrom) move, never mint or burn *)
Theorem C03_move_conserves : forall t from to amt t', tok_move t from to amt = Ok t' ->
  total_supply t' = total_supply t /\ t_native t' = t_native t.
Proof. exact tok_move_total. Qed.
Print Assumptions C03_move_conserves.

Theorem C03_move_from_conserves : forall t sp owner to amt t', tok_move_from t sp owner to amt = Ok t' ->
  total_supply t' = total_supply t /\ t_native t' = t_native t.
Proof. exact tok_move_from_total. Qed.
Print Assumptions C03_move_from_conserves.

(* a move touches only its source and destination *)
Theorem C03_move_frame : forall t from to amt t' a, tok_move t from to amt = Ok t' -> a <> from -> a <> to -> bal t' a = bal t a.
Proof. exact tok_move_frame. Qed.
Print Assumptions C03_move_frame.
Theorem C03_move_from_frame : forall t sp owner to amt t' a, tok_move_from t sp owner to amt = Ok t' -> a <> owner -> a <> to -> bal t' a = bal t a.
Proof. exact tok_move_from_frame. Qed.
Print Assumptions C03_move_from_frame.

(* no reply handler of any contract touches the ledger *)
Theorem C03_replies_do_not_touch_ledger : forall w c id r w' subs,
  contract_reply w c id r = Ok (w', subs) -> w_tok w' = w_tok w.
Proof. exact contract_reply_tok. Qed.
Print Assumptions C03_replies_do_not_touch_ledger.

(* any dispatch of any message tree, with or without an injected fault, conserves the total *)
Theorem C03_dispatch_conserves : forall fuel f w n sender subs w' n',
  dispatch fuel f w n sender subs = Ok (w', n') -> wtotal w' = wtotal w.
Proof. exact dispatch_total. Qed.
Print Assumptions C03_dispatch_conserves.

(* every transaction of every contract (all engine / vAMM / insurance fund / fee pool / feed
   messages, allowances and plain transfers), successful or failed: total collateral unchanged.
   The only exception is the set-up mint. *)
Theorem C03_step_conserves : forall f w o, is_mint o = false -> wtotal (fst (step_f f w o)) = wtotal w.
Proof. exact step_total. Qed.
Print Assumptions C03_step_conserves.

(* over every history *)
Theorem C03_history_conserves : forall ops w,
  forallb (fun o => negb (is_mint o)) ops = true -> wtotal (run w ops) = wtotal w.
Proof. exact run_total. Qed.
Print Assumptions C03_history_conserves.
