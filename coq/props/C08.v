(* C08: engine transactions are all-or-nothing.  Statements only. *)
From MP.Model Require Import Prelude U128 SInt Feed Vamm VammOps Token World Engine Runtime.
From MP.Proofs Require Import Tactics RuntimeFacts.

(* a transaction that fails returns exactly the world it started from: storage of every contract
   and every balance (the world record is the whole deployment state) *)
Theorem C08_failed_tx_changes_nothing : forall f w o, snd (step_f f w o) = false -> fst (step_f f w o) = w.
Proof. exact step_f_atomic. Qed.
Print Assumptions C08_failed_tx_changes_nothing.

(* errors are never swallowed: if a dispatch succeeds, no sub-message it dispatched (at any depth,
   numbered n .. n'-1 in dispatch order) was the failing one.  Equivalently a failure of ANY
   sub-message of the tree - the vAMM swap, a transfer in or out, a fee transfer, the
   insurance-fund withdrawal or its inner transfer - makes the whole transaction fail. *)
Theorem C08_error_propagates : forall fuel f w n sender subs w' n',
  dispatch fuel f w n sender subs = Ok (w', n') -> f < n \/ n' <= f.
Proof. exact dispatch_fault_propagates. Qed.
Print Assumptions C08_error_propagates.

(* every reply handler of every contract answers an error with an error *)
Theorem C08_reply_on_error_is_error : forall w c id e, exists e', contract_reply w c id (Err e) = Err e'.
Proof. exact contract_reply_err. Qed.
Print Assumptions C08_reply_on_error_is_error.

Theorem C08_fail_iff_error : forall f w o, snd (step_f f w o) = false <-> exists e, exec_op f w o = Err e.
Proof. exact step_f_fail_iff. Qed.
Print Assumptions C08_fail_iff_error.

(* ---------- no in-flight residue ---------- *)
From MP.Proofs Require Import ResidueFacts.

(* every transaction of any contract, successful or failed, faulted or not, leaves the engine with
   no in-flight swap, sent-funds or liquidator record *)
Theorem C08_no_residue_step : forall f w o, clean (w_eng w) -> clean (w_eng (fst (step_f f w o))).
Proof. exact step_clean. Qed.
Print Assumptions C08_no_residue_step.

(* a fresh deployment is clean, hence so is every reachable state *)
Theorem C08_initial_clean : forall e d w, init_world e d = Ok w -> clean (w_eng w).
Proof. exact init_world_clean. Qed.
Print Assumptions C08_initial_clean.

Theorem C08_no_residue_reachable : forall ops w, clean (w_eng w) -> clean (w_eng (run w ops)).
Proof. exact run_clean. Qed.
Print Assumptions C08_no_residue_reachable.
