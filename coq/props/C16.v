(* C16: restriction mode after a liquidation.  Statements only. *)
From MP.Model Require Import Prelude U128 SInt Feed Vamm VammOps Token World Engine Runtime.
From MP.Proofs Require Import Tactics EngineGuards MoreFacts RestrictFacts LrbFacts.
From MP.Model Require Import Scenario.

Theorem C16_guard_blocks : forall w v t,
  vm_lrb (read_vmap (w_eng w) v) = height (w_env w) ->
  p_block (read_position (w_eng w) v t) = height (w_env w) ->
  require_not_restriction_mode w v t = Err EGuard.
Proof. exact restriction_blocks. Qed.
Print Assumptions C16_guard_blocks.

Theorem C16_guard_passes : forall w v t,
  vm_lrb (read_vmap (w_eng w) v) <> height (w_env w) \/ p_block (read_position (w_eng w) v t) <> height (w_env w) ->
  require_not_restriction_mode w v t = Ok tt.
Proof. exact restriction_passes. Qed.
Print Assumptions C16_guard_passes.

(* second sentence, the case of a trader with no stored record on the vAMM (never traded there, or the record was
   removed by a whole close or a full liquidation): the one-action refusal never meets them *)
Theorem C16_fresh_trader_unrestricted : forall w v t,
  find_position (w_eng w) v t = None -> height (w_env w) <> 0 -> require_not_restriction_mode w v t = Ok tt.
Proof. exact fresh_trader_unrestricted. Qed.
Print Assumptions C16_fresh_trader_unrestricted.

Theorem C16_open_is_guarded : forall w t v s m l lim f r,
  e_open_position w t v s m l lim f = Ok r -> require_not_restriction_mode w v t = Ok tt.
Proof. exact open_restricted. Qed.
Print Assumptions C16_open_is_guarded.

Theorem C16_close_is_guarded : forall w t v lim r,
  e_close_position w t v lim = Ok r -> require_not_restriction_mode w v t = Ok tt.
Proof. exact close_restricted. Qed.
Print Assumptions C16_close_is_guarded.

(* end to end: marker and stamp both at the current height => the trader's OpenPosition / ClosePosition
   transaction on that vAMM fails and the world is exactly what it was (for every fault index too) *)
Theorem C16_restricted_open_changes_nothing : forall f w t v s m l lim funds,
  vm_lrb (read_vmap (w_eng w) v) = height (w_env w) ->
  p_block (read_position (w_eng w) v t) = height (w_env w) ->
  step_f f w (OEngine t (EOpenPosition v s m l lim) funds) = (w, false).
Proof. exact restricted_open_changes_nothing. Qed.
Print Assumptions C16_restricted_open_changes_nothing.
Theorem C16_restricted_close_changes_nothing : forall f w t v lim funds,
  vm_lrb (read_vmap (w_eng w) v) = height (w_env w) ->
  p_block (read_position (w_eng w) v t) = height (w_env w) ->
  step_f f w (OEngine t (EClosePosition v lim) funds) = (w, false).
Proof. exact restricted_close_changes_nothing. Qed.
Print Assumptions C16_restricted_close_changes_nothing.

(* the marker is set by a liquidation - full or partial - on that vAMM only, to the current height *)
Theorem C16_full_liquidation_marks : forall w i o w' msgs tm,
  liquidate_reply w i o = Ok (w', msgs) -> e_tmp (w_eng w) = Some tm ->
  vm_lrb (read_vmap (w_eng w') (ts_vamm tm)) = height (w_env w) /\
  (forall v2, v2 <> ts_vamm tm -> read_vmap (w_eng w') v2 = read_vmap (w_eng w) v2) /\
  find_position (w_eng w') (ts_vamm tm) (ts_trader tm) = None.
Proof. exact liquidate_reply_marks. Qed.
Print Assumptions C16_full_liquidation_marks.
Theorem C16_partial_liquidation_marks : forall w i o w' msgs tm,
  partial_liquidation_reply w i o = Ok (w', msgs) -> e_tmp (w_eng w) = Some tm ->
  vm_lrb (read_vmap (w_eng w') (ts_vamm tm)) = height (w_env w) /\
  (forall v2, v2 <> ts_vamm tm -> read_vmap (w_eng w') v2 = read_vmap (w_eng w) v2).
Proof. exact partial_liquidation_reply_marks. Qed.
Print Assumptions C16_partial_liquidation_marks.

(* no trading reply touches any marker (funding keeps it too: C11_engine_settlement) *)
Theorem C16_trade_keeps_marker : forall w i o id w' subs, update_position_reply w i o id = Ok (w', subs) -> e_vmap (w_eng w') = e_vmap (w_eng w).
Proof. exact update_position_reply_lrb. Qed.
Print Assumptions C16_trade_keeps_marker.
Theorem C16_reverse_keeps_marker : forall w i o w' subs, reverse_position_reply w i o = Ok (w', subs) -> e_vmap (w_eng w') = e_vmap (w_eng w).
Proof. exact reverse_position_reply_lrb. Qed.
Print Assumptions C16_reverse_keeps_marker.
Theorem C16_close_keeps_marker : forall w i o w' subs, close_position_reply w i o = Ok (w', subs) -> e_vmap (w_eng w') = e_vmap (w_eng w).
Proof. exact close_position_reply_lrb. Qed.
Print Assumptions C16_close_keeps_marker.
Theorem C16_partial_close_keeps_marker : forall w i o w' subs, partial_close_position_reply w i o = Ok (w', subs) -> e_vmap (w_eng w') = e_vmap (w_eng w).
Proof. exact partial_close_position_reply_lrb. Qed.
Print Assumptions C16_partial_close_keeps_marker.

(* the stamp: a reversal and a partial close store the current height (increase / reduce:
   C11_trade_charges_once); a partial liquidation leaves the liquidated position's stamp alone *)
Theorem C16_reverse_stamps : forall w i o w' subs tm,
  reverse_position_reply w i o = Ok (w', subs) -> e_tmp (w_eng w) = Some tm ->
  exists p', find_position (w_eng w') (ts_vamm tm) (ts_trader tm) = Some p' /\ p_block p' = height (w_env w).
Proof. exact reverse_position_reply_stamps. Qed.
Print Assumptions C16_reverse_stamps.
Theorem C16_partial_close_stamps : forall w i o w' subs tm,
  partial_close_position_reply w i o = Ok (w', subs) -> e_tmp (w_eng w) = Some tm ->
  exists p', find_position (w_eng w') (ts_vamm tm) (ts_trader tm) = Some p' /\ p_block p' = height (w_env w).
Proof. exact partial_close_position_reply_stamps. Qed.
Print Assumptions C16_partial_close_stamps.
Theorem C16_partial_liquidation_no_stamp : forall w i o w' msgs tm,
  partial_liquidation_reply w i o = Ok (w', msgs) -> e_tmp (w_eng w) = Some tm ->
  exists p', find_position (w_eng w') (ts_vamm tm) (ts_trader tm) = Some p' /\
    p_block p' = p_block (get_position (w_eng w) (w_env w) (ts_vamm tm) (ts_trader tm) (ts_side tm)).
Proof. exact partial_liquidation_reply_no_stamp. Qed.
Print Assumptions C16_partial_liquidation_no_stamp.

(* END TO END through the whole message tree (any fault index): a successful Liquidate transaction leaves
   the vAMM's marker at the current height; a successful OpenPosition transaction leaves the sender's stored
   position stamped with the current height; and with both in place the trader's next OpenPosition /
   ClosePosition on that vAMM fails and changes nothing *)
Theorem C16_liquidate_tx_marks : forall f w s v t lim funds w',
  exec_op f w (OEngine s (ELiquidate v t lim) funds) = Ok w' ->
  vm_lrb (read_vmap (w_eng w') v) = height (w_env w) /\ w_env w' = w_env w.
Proof. exact liquidate_tx_marks. Qed.
Print Assumptions C16_liquidate_tx_marks.
Theorem C16_open_position_tx_stamps : forall f w t v s m l lim funds w',
  exec_op f w (OEngine t (EOpenPosition v s m l lim) funds) = Ok w' ->
  (exists p, find_position (w_eng w') v t = Some p /\ p_block p = height (w_env w)) /\ w_env w' = w_env w.
Proof. exact open_position_tx_stamps. Qed.
Print Assumptions C16_open_position_tx_stamps.
Theorem C16_restricted_after_both : forall f w t v s m l lim funds,
  vm_lrb (read_vmap (w_eng w) v) = height (w_env w) ->
  (exists p, find_position (w_eng w) v t = Some p /\ p_block p = height (w_env w)) ->
  step_f f w (OEngine t (EOpenPosition v s m l lim) funds) = (w, false) /\
  step_f f w (OEngine t (EClosePosition v lim) funds) = (w, false).
Proof. exact restricted_after_both. Qed.
Print Assumptions C16_restricted_after_both.

(* non-vacuity: in the concrete scenario trader 21 trades, then trader 22 (made liquidatable by raising the
   maintenance ratio) is liquidated in the same block: marker and stamp are both at the current height, and
   trader 21's next OpenPosition and ClosePosition are refused *)
Definition c16_example : bool :=
  match scenario with
  | Ok w =>
      let w1 := run w [OEngine 21 (EOpenPosition 11 Buy 1000000 2000000 0) 0;
                       OEngine 1 (EUpdateConfig None None None (Some 900000) (Some 900000) None None) 0;
                       OEngine 31 (ELiquidate 11 22 0) 0] in
      (vm_lrb (read_vmap (w_eng w1) 11) =? height (w_env w1)) &&
      (p_block (read_position (w_eng w1) 11 21) =? height (w_env w1)) &&
      match find_position (w_eng w1) 11 22 with None => true | Some _ => false end &&
      negb (snd (step_f (-1) w1 (OEngine 21 (EOpenPosition 11 Buy 1000000 2000000 0) 0))) &&
      negb (snd (step_f (-1) w1 (OEngine 21 (EClosePosition 11 0) 0)))
  | Err _ => false
  end.
Example C16_nonvacuous : c16_example = true.
Proof. vm_compute. reflexivity. Qed.

(* HISTORY LEVEL.  In every reachable state the marker of every vAMM is at most the current height (it is
   only ever set to the current height, and heights do not decrease); hence as soon as the height has
   advanced, the guard passes for every trader on every vAMM: traders in later blocks are not restricted. *)
Theorem C16_marker_never_ahead : forall ops w, Forall block_ok ops -> lrb_le w -> lrb_le (run w ops).
Proof. exact run_lrb. Qed.
Print Assumptions C16_marker_never_ahead.
Theorem C16_marker_initial : forall e d w, init_world e d = Ok w -> 0 <= height e -> lrb_le w.
Proof. exact init_world_lrb. Qed.
Print Assumptions C16_marker_initial.
Theorem C16_later_blocks_unrestricted : forall w dt dh v t,
  lrb_le w -> 0 < dh ->
  require_not_restriction_mode (set_env w (mkEnv (now (w_env w) + dt) (height (w_env w) + dh))) v t = Ok tt.
Proof. exact later_blocks_unrestricted. Qed.
Print Assumptions C16_later_blocks_unrestricted.
