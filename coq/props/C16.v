(* C16: restriction mode after a liquidation.  Statements only. *)
From MP.Model Require Import Prelude U128 SInt Feed Vamm VammOps Token World Engine Runtime.
From MP.Proofs Require Import Tactics EngineGuards.

Theorem C16_guard_blocks : forall w v t,
  vm_lrb (read_vmap (w_eng w) v) = height (w_env w) ->
  p_block (read_position (w_eng w) v t) = height (w_env w) ->
  require_not_restriction_mode w v t = Err EGuard.
Proof. exact restriction_blocks. Qed.
Print Assumptions C16_guard_blocks.

Theorem C16_guard_passes : forall w v t,
  vm_lrb (read_vmap (w_eng w) v) <> height (w_env w) \/ p_block (read_position (w_eng w) v t) <> height (w_env w) ->
  require_not_restriction_mode w v t = Ok tt.
Proof. exact restriction_passes. Qed.
Print Assumptions C16_guard_passes.

Theorem C16_open_is_guarded : forall w t v s m l lim f r,
  e_open_position w t v s m l lim f = Ok r -> require_not_restriction_mode w v t = Ok tt.
Proof. exact open_restricted. Qed.
Print Assumptions C16_open_is_guarded.

Theorem C16_close_is_guarded : forall w t v lim r,
  e_close_position w t v lim = Ok r -> require_not_restriction_mode w v t = Ok tt.
Proof. exact close_restricted. Qed.
Print Assumptions C16_close_is_guarded.
