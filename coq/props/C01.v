(* C01: vAMM curve conservation.  Statements only. *)
From MP.Model Require Import Prelude U128 SInt Feed Vamm VammOps.
From MP.Proofs Require Import Tactics SIntFacts VammFacts.

(* an accepted swap_input: the scaled product floor(q*b/D) does not decrease, base + net is
   unchanged, and exactly the requested quote amount moves *)
Theorem C01_swap_input : forall v e s d quote lim cgo v' qa ba,
  wfv v -> 0 <= quote ->
  swap_input v e s d quote lim cgo = Ok (v', (qa, ba)) ->
  wfv v' /\ kof v <= kof v' /\ base_plus_net v' = base_plus_net v /\ vc v' = vc v /\
  qa = quote /\ 0 <= ba /\
  match d with
  | AddToAmm => v_q (vs v') = v_q (vs v) + quote /\ v_b (vs v') = v_b (vs v) - ba
  | RemoveFromAmm => v_q (vs v') = v_q (vs v) - quote /\ v_b (vs v') = v_b (vs v) + ba
  end.
Proof. exact swap_input_c01. Qed.
Print Assumptions C01_swap_input.

Theorem C01_swap_output : forall v e s d base lim v' qa ba,
  wfv v -> 0 <= base ->
  swap_output v e s d base lim = Ok (v', (qa, ba)) ->
  wfv v' /\ kof v <= kof v' /\ base_plus_net v' = base_plus_net v /\ vc v' = vc v /\
  ba = base /\ 0 <= qa /\
  match d with
  | AddToAmm => v_q (vs v') = v_q (vs v) - qa /\ v_b (vs v') = v_b (vs v) + base
  | RemoveFromAmm => v_q (vs v') = v_q (vs v) + qa /\ v_b (vs v') = v_b (vs v) - base
  end.
Proof. exact swap_output_c01. Qed.
Print Assumptions C01_swap_output.

(* every operation of the vAMM, accepted or rejected *)
Theorem C01_step : forall v o, wfv v -> vop_wf o -> c01_rel v (vstep v o).
Proof. exact vstep_c01. Qed.
Print Assumptions C01_step.

(* between any two points of any history of vAMM operations (swaps of both kinds interleaved
   with funding settlements, open/close, configuration and ownership changes) *)
Theorem C01_history : forall v ops1 ops2,
  wfv v -> Forall vop_wf (ops1 ++ ops2) ->
  c01_rel (vrun v ops1) (vrun v (ops1 ++ ops2)).
Proof. exact vrun_between. Qed.
Print Assumptions C01_history.

(* a freshly instantiated vAMM satisfies the invariant, with base + net = the initial base reserve
   and both reserves at least one whole unit *)
Theorem C01_initial : forall e s m v, vamm_instantiate e s m = Ok v ->
  wfv v /\ base_plus_net v = i_b m /\ v_dec (vc v) <= v_b (vs v) /\ v_dec (vc v) <= v_q (vs v) /\
  v_q (vs v) = i_q m /\ v_b (vs v) = i_b m.
Proof. exact instantiate_wfv. Qed.
Print Assumptions C01_initial.

(* consequence: whenever the net position returns to an earlier value (with at least one whole
   unit of base in the pool then), the quote reserve is at least what it was *)
Theorem C01_quote_on_return : forall v1 v2,
  c01_rel v1 v2 -> wfv v1 ->
  toZ (v_total (vs v2)) = toZ (v_total (vs v1)) ->
  v_dec (vc v1) <= v_b (vs v1) ->
  v_q (vs v1) <= v_q (vs v2).
Proof. exact quote_on_return. Qed.
Print Assumptions C01_quote_on_return.

(* non-vacuity: a concrete accepted swap leaving a non-zero division remainder; the scaled
   product strictly grows (rounding resolved in the curve's favour) *)
Definition c01_example : bool :=
  let e := mkEnv 100 10 in
  match vamm_instantiate e 1 (mkVinit 6 9 (Some 2) (Some 3) 1000000007 100000003 86400 0 0 0) with
  | Ok v =>
      match set_open v e 1 true with
      | Ok v1 =>
          match swap_input v1 e 2 AddToAmm 33333333 0 false with
          | Ok (v2, (qa, ba)) => (kof v1 <? kof v2) && (0 <? ba) && (qa =? 33333333)
          | Err _ => false
          end
      | Err _ => false
      end
  | Err _ => false
  end.
Example C01_nonvacuous : c01_example = true.
Proof. vm_compute. reflexivity. Qed.
