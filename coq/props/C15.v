(* C15: per-block price band.  Statements only. *)
From MP.Model Require Import Prelude U128 SInt Feed Vamm VammOps Token World Engine Runtime.
From MP.Proofs Require Import Tactics SIntFacts VammFacts SwapFacts.

(* with a non-zero limit, a trade that may not go over the limit (every opening / increasing /
   reducing swap_input of OpenPosition) is accepted only if the price before it and the price after
   it both lie inside the integer band around the reference snapshot *)
Theorem C15_trade_stays_in_band : forall v e d qa ba,
  v_fluct (vc v) <> 0 ->
  check_fluctuation v e d qa ba false = Ok tt ->
  exists upper lower cur price,
    price_boundaries v e = Ok (upper, lower) /\
    spot_of (v_dec (vc v)) (v_q (vs v)) (v_b (vs v)) = Ok cur /\ in_band cur upper lower /\
    (match d with
     | AddToAmm => spot_of (v_dec (vc v)) (v_q (vs v) + qa) (v_b (vs v) - ba)
     | RemoveFromAmm => spot_of (v_dec (vc v)) (v_q (vs v) - qa) (v_b (vs v) + ba)
     end) = Ok price /\ in_band price upper lower.
Proof. exact check_fluctuation_band. Qed.
Print Assumptions C15_trade_stays_in_band.

(* every trade (of either kind) is rejected when the price is already outside the band *)
Theorem C15_already_outside_rejected : forall v e d qa ba cgo upper lower cur,
  v_fluct (vc v) <> 0 ->
  price_boundaries v e = Ok (upper, lower) ->
  spot_of (v_dec (vc v)) (v_q (vs v)) (v_b (vs v)) = Ok cur ->
  ~ in_band cur upper lower ->
  check_fluctuation v e d qa ba cgo = Err EGuard.
Proof. exact check_fluctuation_already_out. Qed.
Print Assumptions C15_already_outside_rejected.
