(* C15: per-block price band.  Statements only. *)
From MP.Model Require Import Prelude U128 SInt Feed Vamm VammOps Token World Engine Runtime.
From MP.Proofs Require Import Tactics SIntFacts VammFacts SwapFacts MoreFacts BandFacts MirrorFacts CloseChoiceTxFacts.
From MP.Model Require Import Scenario.

(* with a non-zero limit, a trade that may not go over the limit (every opening / increasing /
   reducing swap_input of OpenPosition) is accepted only if the price before it and the price after
   it both lie inside the integer band around the reference snapshot *)
Theorem C15_trade_stays_in_band : forall v e d qa ba,
  v_fluct (vc v) <> 0 ->
  check_fluctuation v e d qa ba false = Ok tt ->
  exists upper lower cur price,
    price_boundaries v e = Ok (upper, lower) /\
    spot_of (v_dec (vc v)) (v_q (vs v)) (v_b (vs v)) = Ok cur /\ in_band cur upper lower /\
    (match d with
     | AddToAmm => spot_of (v_dec (vc v)) (v_q (vs v) + qa) (v_b (vs v) - ba)
     | RemoveFromAmm => spot_of (v_dec (vc v)) (v_q (vs v) - qa) (v_b (vs v) + ba)
     end) = Ok price /\ in_band price upper lower.
Proof. exact check_fluctuation_band. Qed.
Print Assumptions C15_trade_stays_in_band.

(* every trade (of either kind) is rejected when the price is already outside the band *)
Theorem C15_already_outside_rejected : forall v e d qa ba cgo upper lower cur,
  v_fluct (vc v) <> 0 ->
  price_boundaries v e = Ok (upper, lower) ->
  spot_of (v_dec (vc v)) (v_q (vs v)) (v_b (vs v)) = Ok cur ->
  ~ in_band cur upper lower ->
  check_fluctuation v e d qa ba cgo = Err EGuard.
Proof. exact check_fluctuation_already_out. Qed.
Print Assumptions C15_already_outside_rejected.

(* a swap_input that may not go over the limit - accepted on a vAMM with a non-zero limit - starts inside
   the band around the previous block's reference price and leaves the spot price of the state it stores
   inside that same band *)
Theorem C15_swap_input_ends_in_band : forall v e s d quote lim v' qa ba,
  wfv v -> 0 <= quote -> v_fluct (vc v) <> 0 ->
  swap_input v e s d quote lim false = Ok (v', (qa, ba)) ->
  exists upper lower cur post,
    price_boundaries v e = Ok (upper, lower) /\
    spot_of (v_dec (vc v)) (v_q (vs v)) (v_b (vs v)) = Ok cur /\ in_band cur upper lower /\
    spot_of (v_dec (vc v')) (v_q (vs v')) (v_b (vs v')) = Ok post /\ in_band post upper lower.
Proof. exact swap_input_in_band. Qed.
Print Assumptions C15_swap_input_ends_in_band.

(* the swaps of an OpenPosition: one swap_input with can_go_over = false (new / increase / reduce), or - a
   reversal - the swap_output of the whole old position, whose reply re-opens through a swap_input that
   again may not go over the limit *)
Theorem C15_open_swaps : forall w t v s m l lim f w' subs,
  e_open_position w t v s m l lim f = Ok (w', subs) ->
  exists msg, subs = [msg] /\
    ((exists q id, sm_msg msg = MSwapInput v (side_to_direction s) q lim false /\ sm_id msg = id /\ (id = INCREASE_ID \/ id = DECREASE_ID)) \/
     (exists d b, sm_msg msg = MSwapOutput v d b 0 /\ sm_id msg = REVERSE_ID)).
Proof. exact open_position_swaps. Qed.
Print Assumptions C15_open_swaps.
Theorem C15_reopen_leg_cannot_go_over : forall v s n l,
  sm_msg (internal_increase_position v s n l) = MSwapInput v (side_to_direction s) n l false.
Proof. exact reopen_leg_cannot_go_over. Qed.
Print Assumptions C15_reopen_leg_cannot_go_over.

(* the vAMM's answer to IsOverFluctuationLimit: the price after swapping the base amount out, compared
   with the band around the previous block's reference price *)
Theorem C15_over_limit_meaning : forall v e d base r,
  v_fluct (vc v) <> 0 -> q_is_over_fluctuation_limit v e d base = Ok r ->
  exists upper lower quote price,
    price_boundaries v e = Ok (upper, lower) /\ q_output_amount v d base = Ok quote /\
    (match d with
     | RemoveFromAmm => spot_of (v_dec (vc v)) (v_q (vs v) + quote) (v_b (vs v) - base)
     | AddToAmm => spot_of (v_dec (vc v)) (v_q (vs v) - quote) (v_b (vs v) + base)
     end) = Ok price /\
    r = out_of_band price upper lower.
Proof. exact over_limit_spec. Qed.
Print Assumptions C15_over_limit_meaning.

(* ClosePosition swaps the whole position out unless that would leave the price outside the band and the
   partial ratio is below 100%; then it swaps out exactly floor(|size| x ratio / D) base *)
Theorem C15_close_whole_or_exact_fraction : forall w t v lim w' subs,
  e_close_position w t v lim = Ok (w', subs) ->
  let p := read_position (w_eng w) v t in
  let c := ec (w_eng w) in
  let dir := if sgtb (p_size p) szero then AddToAmm else RemoveFromAmm in
  exists vm over, get_vamm w v = Ok vm /\ q_is_over_fluctuation_limit vm (w_env w) dir (sval (p_size p)) = Ok over /\
    sval (p_size p) <> 0 /\
    (if over && (e_plr c <? e_dec c)
     then subs = [swap_output_msg v (direction_to_side (p_dir p)) (sval (p_size p) * e_plr c / e_dec c) 0 PARTIAL_CLOSE_ID]
     else subs = [swap_output_msg v (direction_to_side (p_dir p)) (sval (p_size p)) lim CLOSE_ID]).
Proof. exact close_position_choice. Qed.
Print Assumptions C15_close_whole_or_exact_fraction.

(* END TO END.  A successful OpenPosition transaction (the whole message tree: swap, reply, a reversal's
   second swap and reply, fee and margin transfers, insurance-fund draws; any fault index) on a vAMM with a
   non-zero limit either leaves the sender without a position on that vAMM, or leaves that vAMM's spot price
   inside the band [lower, upper] that its state before the transaction defines around the previous block's
   reference price.  `stable`: the reference snapshot exists (the newest snapshot is from an earlier block,
   or there is an older one). *)
Theorem C15_open_position_ends_in_band : forall f w t v s m l lim funds w' vm0,
  exec_op f w (OEngine t (EOpenPosition v s m l lim) funds) = Ok w' ->
  zfind v (w_vamms w) = Some vm0 -> wfv vm0 -> v_fluct (vc vm0) <> 0 -> stable vm0 (w_env w) ->
  0 <= m -> 0 <= l -> 0 < e_dec (ec (w_eng w)) ->
  (forall p, find_position (w_eng w) v t = Some p -> 0 <= sval (p_size p)) ->
  (exists vm', zfind v (w_vamms w') = Some vm' /\
     exists upper lower p, price_boundaries vm0 (w_env w) = Ok (upper, lower) /\
       spot_of (v_dec (vc vm')) (v_q (vs vm')) (v_b (vs vm')) = Ok p /\ in_band p upper lower) \/
  sval (p_size (read_position (w_eng w') v t)) = 0.
Proof. exact open_position_ends_in_band. Qed.
Print Assumptions C15_open_position_ends_in_band.

(* non-vacuity: in the concrete scenario (non-zero limit, reference snapshot from an earlier block) an
   increasing and a reversing OpenPosition succeed and every premise of the end-to-end theorem holds *)
Definition c15_example : bool :=
  match scenario with
  | Ok w =>
      match zfind 11 (w_vamms w) with
      | Some vm0 =>
          wfvb vm0 && negb (v_fluct (vc vm0) =? 0) && stableb vm0 (w_env w) && (0 <? e_dec (ec (w_eng w))) &&
          (0 <=? sval (p_size (read_position (w_eng w) 11 21))) &&
          match exec_op (-1) w (OEngine 21 (EOpenPosition 11 Buy 1000000 2000000 0) 0) with Ok _ => true | Err _ => false end &&
          match exec_op (-1) w (OEngine 21 (EOpenPosition 11 Sell 8000000 2000000 0) 0) with
          | Ok w' => negb (sval (p_size (read_position (w_eng w') 11 21)) =? 0) | Err _ => false end
      | None => false
      end
  | Err _ => false
  end.
Example C15_nonvacuous : c15_example = true.
Proof. vm_compute. reflexivity. Qed.

(* END TO END, the close clause.  What a successful ClosePosition transaction leaves behind is decided by the vAMM's
   answer (on the state the transaction started from) to "would closing the whole position leave the band?": if not,
   or if the partial ratio is 100%, the position is gone; otherwise exactly floor(size x ratio / D) base is taken off
   it, its direction kept.  (C15_over_limit_meaning says what the answer means; with a zero limit it is always "no".) *)
Theorem C15_close_position_tx_choice : forall f w t v lim funds w',
  exec_op f w (OEngine t (EClosePosition v lim) funds) = Ok w' ->
  let p := read_position (w_eng w) v t in
  let c := ec (w_eng w) in
  let dir := if sgtb (p_size p) szero then AddToAmm else RemoveFromAmm in
  exists vm over, get_vamm w v = Ok vm /\ q_is_over_fluctuation_limit vm (w_env w) dir (sval (p_size p)) = Ok over /\
    (over && (e_plr c <? e_dec c) = false -> find_position (w_eng w') v t = None) /\
    (over && (e_plr c <? e_dec c) = true ->
       exists p', find_position (w_eng w') v t = Some p' /\ p_dir p' = p_dir p /\
         sadd (p_size p) (signed_out (position_to_side (p_size p)) (sval (p_size p) * e_plr c / e_dec c)) = Ok (p_size p')).
Proof. exact close_position_tx_choice. Qed.
Print Assumptions C15_close_position_tx_choice.
