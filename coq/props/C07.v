(* C07: under-margined positions can always be liquidated.  Statements only.
   The full liveness statement is refuted on the current tree for the classes listed in
   known_findings.jsonl; what is proved here: the refutation for deployments on the repository's
   own price feed, and the guard chain of Liquidate (what it demands and nothing more). *)
From MP.Model Require Import Prelude U128 SInt Feed Vamm VammOps Token World Engine Runtime.
From MP.Proofs Require Import Tactics SIntFacts EngineArith CloseFacts LiqFacts.

(* C07_live_refuted (class real_feed_decode): with the repository's own feed behind the vAMM every
   Liquidate fails, whatever the position's state *)
Theorem C07_refuted_with_real_feed : forall w s v t lim vm r,
  get_vamm (with_liquidator w s) v = Ok vm -> v_feed (vc vm) = A_FEED -> w_feed w = FReal r ->
  exists e, e_liquidate w s v t lim = Err e.
Proof. exact liquidate_fails_with_real_feed. Qed.
Print Assumptions C07_refuted_with_real_feed.

(* C07_live_partial: the execute arm of Liquidate demands exactly: a computable liquidation ratio
   not above maintenance, a non-empty position, a registered and open vAMM (nothing about the
   caller, the pause flag or the restriction mode) *)
Theorem C07_guard_chain_partial : forall w s v t lim r,
  e_liquidate w s v t lim = Ok r ->
  exists mr, liq_ratio (with_liquidator w s) v t = Ok mr /\
             sgtb mr (spos (e_maint (ec (w_eng w)))) = false /\
             sval (p_size (read_position (w_eng w) v t)) <> 0 /\
             require_vamm (with_liquidator w s) v = Ok tt.
Proof. exact liquidate_only_if. Qed.
Print Assumptions C07_guard_chain_partial.
