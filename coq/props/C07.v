(* C07: under-margined positions can always be liquidated.  Statements only.
   The full liveness statement is refuted on the current tree for the classes listed in
   known_findings.jsonl; what is proved here: the refutation for deployments on the repository's
   own price feed; the guard chain of Liquidate (what it demands and nothing more); and the positive
   direction for the full-liquidation branch: the execute arm accepts whenever the named guards hold,
   the reply goes through however far under water the position is (margins saturate, the deficit becomes
   bad debt), and the whole transaction succeeds when the vAMM fills the closing trade, the fund covers
   the shortfall and the vault holds the position's remaining equity (the complement of the recorded
   stale_vault_balance class); only 128-bit overflow is excluded, by an explicit range hypothesis.
   Proving the last theorem exposed a defect (a zero insurance-fund draw when the bad debt equals the
   prepaid amount), repaired by fix 40ca1a8.  Not proved: the partial-liquidation branch (refuted, see
   sign_blind_partial / partial_underflow). *)
From MP.Model Require Import Prelude U128 SInt Feed Vamm VammOps Token World Engine Runtime.
From MP.Proofs Require Import Tactics SIntFacts EngineArith CloseFacts LiqFacts LiveFacts.
From MP.Model Require Import Scenario.

(* C07_live_refuted (class real_feed_decode): with the repository's own feed behind the vAMM every
   Liquidate fails, whatever the position's state *)
Theorem C07_refuted_with_real_feed : forall w s v t lim vm r,
  get_vamm (with_liquidator w s) v = Ok vm -> v_feed (vc vm) = A_FEED -> w_feed w = FReal r ->
  exists e, e_liquidate w s v t lim = Err e.
Proof. exact liquidate_fails_with_real_feed. Qed.
Print Assumptions C07_refuted_with_real_feed.

(* C07_live_partial: the execute arm of Liquidate demands exactly: a computable liquidation ratio
   not above maintenance, a non-empty position, a registered and open vAMM (nothing about the
   caller, the pause flag or the restriction mode) *)
Theorem C07_guard_chain_partial : forall w s v t lim r,
  e_liquidate w s v t lim = Ok r ->
  exists mr, liq_ratio (with_liquidator w s) v t = Ok mr /\
             sgtb mr (spos (e_maint (ec (w_eng w)))) = false /\
             sval (p_size (read_position (w_eng w) v t)) <> 0 /\
             require_vamm (with_liquidator w s) v = Ok tt.
Proof. exact liquidate_only_if. Qed.
Print Assumptions C07_guard_chain_partial.

(* C07_live_partial, execute arm: the named guards are sufficient on the full-liquidation branch *)
Theorem C07_execute_arm_accepts : forall w s v t lim mr,
  let wl := with_liquidator w s in
  let c := ec (w_eng w) in
  liq_ratio wl v t = Ok mr ->
  require_vamm wl v = Ok tt ->
  sgtb mr (spos (e_maint c)) = false ->
  sval (p_size (read_position (w_eng w) v t)) <> 0 ->
  (e_liqfee c <? sval mr) && negb (e_plr c =? 0) = false ->
  e_liquidate w s v t lim =
    Ok (fst (internal_close_position wl v t (read_position (w_eng w) v t) lim LIQUIDATION_ID),
        [snd (internal_close_position wl v t (read_position (w_eng w) v t) lim LIQUIDATION_ID)]).
Proof. exact liquidate_execute_live. Qed.
Print Assumptions C07_execute_arm_accepts.

(* the reply of a full liquidation never fails because of the sign or size of the equity *)
Theorem C07_reply_goes_through : forall w i o swap liq,
  e_tmp (w_eng w) = Some swap -> e_liq (w_eng w) = Some liq ->
  let c := ec (w_eng w) in let st := es (w_eng w) in
  let v := ts_vamm swap in let t := ts_trader swap in
  let p := get_position (w_eng w) (w_env w) v t (ts_side swap) in
  let lat := cumulative_premium_fraction (w_eng w) v in
  pos_wf p -> cpf_wf (w_eng w) v -> 0 < e_dec c -> 0 <= o -> 0 <= ts_open_notional swap -> 0 <= e_liqfee c ->
  0 <= e_bad_debt st -> 0 <= engine_balance w ->
  sval lat < MAXU -> sval (p_lupf p) < MAXU -> sval (p_size p) < MAXU -> e_dec c < MAXU ->
  Z.abs (toZ lat - toZ (p_lupf p)) < MAXU ->
  Z.abs ((toZ lat - toZ (p_lupf p)) * toZ (p_size p)) + ts_open_notional swap + o + p_margin p + o * e_liqfee c
    + e_bad_debt st + engine_balance w < MAXU ->
  exists w' msgs, liquidate_reply w i o = Ok (w', msgs).
Proof. exact liquidate_reply_live. Qed.
Print Assumptions C07_reply_goes_through.

(* END TO END: a Liquidate call by any account s (no fault injected: f < 0) on the full-liquidation branch succeeds *)
Theorem C07_full_liquidation_succeeds_partial : forall f w s v t lim mr p vm vm' q b,
  f < 0 ->
  let wl := with_liquidator w s in
  let c := ec (w_eng w) in let st := es (w_eng w) in
  find_position (w_eng w) v t = Some p -> sval (p_size p) <> 0 ->
  liq_ratio wl v t = Ok mr -> sgtb mr (spos (e_maint c)) = false ->
  require_vamm wl v = Ok tt ->
  (e_liqfee c <? sval mr) && negb (e_plr c =? 0) = false ->
  get_vamm w v = Ok vm ->
  swap_output vm (w_env w) A_ENGINE (side_to_direction (direction_to_side (p_dir p))) (sval (p_size p)) lim = Ok (vm', (q, b)) ->
  let lat := cumulative_premium_fraction (w_eng w) v in
  let X := Z.abs ((toZ lat - toZ (p_lupf p)) * toZ (p_size p)) in
  let tb := bal (w_tok w) A_ENGINE in let fund := bal (w_tok w) A_IFUND in
  pos_wf p -> cpf_wf (w_eng w) v -> 0 < e_dec c -> 0 <= q -> 0 <= e_liqfee c ->
  0 <= e_bad_debt st -> 0 <= tb -> 0 <= bal (w_tok w) s ->
  sval lat < MAXU -> sval (p_lupf p) < MAXU -> sval (p_size p) < MAXU -> e_dec c < MAXU ->
  Z.abs (toZ lat - toZ (p_lupf p)) < MAXU ->
  X + p_notional p + q + p_margin p + q * e_liqfee c + e_bad_debt st + tb + fund + bal (w_tok w) s < MAXU ->
  e_ifund c = A_IFUND -> if_engine (w_if w) = A_ENGINE -> s <> A_ENGINE -> s <> A_IFUND ->
  X + p_notional p + q + p_margin p + q * e_liqfee c <= fund ->
  liq_equity w v p (p_notional p) q <= tb ->
  exists w', exec_op f w (OEngine s (ELiquidate v t lim) 0) = Ok w'.
Proof. exact liquidate_full_tx_live. Qed.
Print Assumptions C07_full_liquidation_succeeds_partial.

(* non-vacuity: the theorem's hypotheses hold together on a concrete state - the scenario deployment with the
   maintenance ratio raised to 100% and a 5% liquidation fee; the theorem is applied to it *)
Definition c07_world : option world :=
  match scenario with
  | Ok w =>
      match exec_op (-1) w (OEngine 1 (EUpdateConfig None None None (Some 1000000) None None None) 0) with
      | Ok w1 =>
          match exec_op (-1) w1 (OEngine 1 (EUpdateConfig None None None None (Some 1000000) None (Some 50000)) 0) with
          | Ok w2 => Some w2 | Err _ => None end
      | Err _ => None end
  | Err _ => None
  end.
Ltac dec_goal := first [ reflexivity | (vm_compute; first [reflexivity | discriminate | (intros; discriminate) | (repeat split; intros; discriminate)]) ].
Example C07_live_instance :
  (exists w, c07_world = Some w) /\
  forall w, c07_world = Some w -> exists w', exec_op (-1) w (OEngine 31 (ELiquidate 11 21 0) 0) = Ok w'.
Proof.
  split; [vm_compute; eexists; reflexivity|].
  intros w H. vm_compute in H. injection H as <-.
  eapply liquidate_full_tx_live.
  all: dec_goal.
Qed.
