(* C10: one account's transaction never alters another trader's position.  Statements only. *)
From MP.Model Require Import Prelude U128 SInt Feed Vamm VammOps Token World Engine Runtime.
From MP.Proofs Require Import Tactics RuntimeFacts FrameFacts ResidueFacts.

(* an engine transaction by s may write only the position (vamm, s) - or (vamm, trader) for
   Liquidate { trader }.  Every other stored position is exactly as before: same six fields, not
   created, not removed.  (find_position returns the whole record or None.) *)
Theorem C10_engine_tx_frame : forall f w s m funds w' v t,
  exec_op f w (OEngine s m funds) = Ok w' ->
  not_touching m s v t -> e_tmp (w_eng w) = None ->
  find_position (w_eng w') v t = find_position (w_eng w) v t.
Proof. exact exec_engine_frame. Qed.
Print Assumptions C10_engine_tx_frame.

(* transactions sent to any other contract (vAMM, insurance fund, fee pool, feed, token) and block
   advancement never write a position *)
Theorem C10_other_tx_frame : forall f w o w' v t,
  exec_op f w o = Ok w' -> (forall s m fu, o <> OEngine s m fu) -> e_tmp (w_eng w) = None ->
  find_position (w_eng w') v t = find_position (w_eng w) v t.
Proof. exact exec_other_frame. Qed.
Print Assumptions C10_other_tx_frame.

(* the hypothesis `no in-flight record` holds in every reachable state *)
Theorem C10_clean_reachable : forall ops w, clean (w_eng w) -> clean (w_eng (run w ops)).
Proof. exact run_clean. Qed.
Print Assumptions C10_clean_reachable.

(* sub-message dispatch as such never touches a position the in-flight record is not about *)
Theorem C10_dispatch_frame : forall v t p0 fuel f w n sender subs w' n',
  dispatch fuel f w n sender subs = Ok (w', n') -> frame v t p0 w -> frame v t p0 w'.
Proof. exact dispatch_frame. Qed.
Print Assumptions C10_dispatch_frame.
