(* C20: risk caps and configuration bounds under any update sequence.  Statements only. *)
From MP.Model Require Import Prelude U128 SInt Feed Vamm VammOps Token World Engine Runtime.
From MP.Proofs Require Import Tactics SIntFacts ConfigFacts ConfigReachFacts LimitTxFacts CapsTxFacts.

(* instantiate establishes the engine bounds: every ratio in [0, 1], maintenance <= initial *)
Theorem C20_engine_instantiate : forall s p i fpool d init maint liqfee e,
  0 <= init -> 0 <= maint -> 0 <= liqfee ->
  engine_instantiate s p i fpool d init maint liqfee = Ok e -> ecfg_ok (ec e).
Proof. exact engine_instantiate_cfg. Qed.
Print Assumptions C20_engine_instantiate.

(* every accepted UpdateConfig (any combination of fields) preserves them; decimals immutable *)
Theorem C20_engine_update : forall w s o i f a b c d w' subs,
  opt_nonneg a -> opt_nonneg b -> opt_nonneg c -> opt_nonneg d ->
  e_update_config w s o i f a b c d = Ok (w', subs) ->
  ecfg_ok (ec (w_eng w)) ->
  ecfg_ok (ec (w_eng w')) /\ e_dec (ec (w_eng w')) = e_dec (ec (w_eng w)) /\ s = e_owner (ec (w_eng w)) /\
  w_vamms w' = w_vamms w /\ w_if w' = w_if w.
Proof. exact e_update_config_cfg. Qed.
Print Assumptions C20_engine_update.

Theorem C20_vamm_instantiate : forall e s m v,
  0 <= i_toll m -> 0 <= i_spread m -> 0 <= i_fluct m ->
  vamm_instantiate e s m = Ok v -> vcfg_ok (vc v).
Proof. exact vamm_instantiate_cfg. Qed.
Print Assumptions C20_vamm_instantiate.

(* toll, spread, fluctuation limit in [0, 1]; TWAP interval in [one minute, one week] *)
Theorem C20_vamm_update : forall v s u v',
  opt_nonneg (u_toll u) -> opt_nonneg (u_spread u) -> opt_nonneg (u_fluct u) ->
  vamm_update_config v s u = Ok v' -> vcfg_ok (vc v) ->
  vcfg_ok (vc v') /\ v_dec (vc v') = v_dec (vc v) /\ is_admin (v_owner v) s = true /\ vs v' = vs v.
Proof. exact vamm_update_config_cfg. Qed.
Print Assumptions C20_vamm_update.

(* a vAMM enters the registry only with the engine's decimals, no duplicates, at most three *)
Theorem C20_registered_decimals : forall w s v w' subs, if_add_vamm w s v = Ok (w', subs) ->
  exists vm, get_vamm w v = Ok vm /\ v_dec (vc vm) = e_dec (ec (w_eng w)) /\
  if_vamms (w_if w') = if_vamms (w_if w) ++ [v] /\ is_admin (if_owner (w_if w)) s = true /\
  zmem v (if_vamms (w_if w)) = false /\ (length (if_vamms (w_if w)) < 3)%nat.
Proof. exact if_add_vamm_decimals. Qed.
Print Assumptions C20_registered_decimals.

(* open-interest cap: an accepted update with a non-negative amount by a non-whitelisted trader
   leaves the recorded open interest at or below a non-zero cap *)
Theorem C20_open_interest_cap : forall w st v amount t st',
  wf0 amount -> 0 <= e_oi st ->
  update_open_interest_notional w st v amount t = Ok st' ->
  exists vm, get_vamm w v = Ok vm /\
  (0 < v_oi_cap (vc vm) -> s_is_positive amount = true -> is_whitelisted w t = false ->
   e_oi st' <= v_oi_cap (vc vm)) /\ 0 <= e_oi st'.
Proof. exact update_oi_cap. Qed.
Print Assumptions C20_open_interest_cap.

(* base-asset holding cap: checked on the new absolute size after every open/increase/reduce *)
Theorem C20_holding_cap : forall w v size t u,
  check_base_asset_holding_cap w v size t = Ok u ->
  exists vm, get_vamm w v = Ok vm /\
  (v_hold_cap (vc vm) <> 0 -> is_whitelisted w t = false -> size <= v_hold_cap (vc vm)).
Proof. exact holding_cap. Qed.
Print Assumptions C20_holding_cap.

(* OVER HISTORIES.  c20_inv w: every engine ratio (initial, maintenance, partial-liquidation, liquidation fee) is in
   [0,1] and maintenance <= initial; every vAMM's toll, spread and fluctuation limit are in [0,1] and its TWAP interval
   is between one minute and one week; every vAMM in the insurance fund's registry has the engine's decimals.
   Every operation (of any contract, by any sender, with unsigned configuration values) preserves it - accepted or
   not - hence it holds in every state reachable from a state that satisfies it, e.g. a fresh deployment
   (C20_engine_instantiate, C20_vamm_instantiate, empty registry). *)
Theorem C20_config_step : forall f w o, op_unsigned o -> c20_inv w -> c20_inv (fst (step_f f w o)).
Proof. exact step_c20. Qed.
Print Assumptions C20_config_step.

Theorem C20_config_reachable : forall ops w, Forall op_unsigned ops -> c20_inv w -> c20_inv (run w ops).
Proof. exact run_c20. Qed.
Print Assumptions C20_config_reachable.

Theorem C20_config_initial : forall w,
  ecfg_ok (ec (w_eng w)) -> (forall v vm, zfind v (w_vamms w) = Some vm -> vcfg_ok (vc vm)) -> if_vamms (w_if w) = [] -> c20_inv w.
Proof. exact c20_initial. Qed.
Print Assumptions C20_config_initial.

(* END TO END, caps, on the opening / increasing route (no position yet, or an order on the position's own side):
   after a successful OpenPosition by a trader who is not whitelisted, the engine's open interest is at or below a
   non-zero open-interest cap, and the trader's size at or below a non-zero holding cap.  (The re-opening leg of a
   reversal goes through the same reply arm; its transaction-level statement is not proved.) *)
Theorem C20_open_increase_tx_caps : forall f w t v s m l lim funds w' vm,
  exec_op f w (OEngine t (EOpenPosition v s m l lim) funds) = Ok w' ->
  get_vamm w v = Ok vm ->
  is_increase_of (get_position (w_eng w) (w_env w) v t s) s = true ->
  is_whitelisted w t = false -> 0 <= e_oi (es (w_eng w)) -> 0 <= m -> 0 <= l -> 0 < e_dec (ec (w_eng w)) ->
  (0 < v_oi_cap (vc vm) -> e_oi (es (w_eng w')) <= v_oi_cap (vc vm)) /\
  (v_hold_cap (vc vm) <> 0 -> exists p', find_position (w_eng w') v t = Some p' /\ sval (p_size p') <= v_hold_cap (vc vm)).
Proof. exact open_increase_tx_caps. Qed.
Print Assumptions C20_open_increase_tx_caps.
