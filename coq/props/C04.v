(* C04: closing pays exactly the position's equity; bad debt cannot be cashed out.  Statements only. *)
From MP.Model Require Import Prelude U128 SInt Feed Vamm VammOps Token World Engine Runtime.
From MP.Proofs Require Import Tactics SIntFacts EngineArith CloseFacts CloseTxFacts VammFacts FundFloorFacts.
From MP.Model Require Import Scenario.

(* the margin arithmetic in mathematical integers: funding owed = (cumulative fraction - checkpoint)
   x size / D truncated; remaining margin = delta - funding + margin, negative part = bad debt *)
Theorem C04_remaining_margin : forall w v p delta fp margin bad latest,
  pos_wf p -> cpf_wf (w_eng w) v -> wf0 delta -> 0 < e_dec (ec (w_eng w)) ->
  calc_remain_margin w v p delta = Ok (fp, margin, bad, latest) ->
  latest = cumulative_premium_fraction (w_eng w) v /\
  toZ fp = funding_owed w v p /\
  let r := toZ delta - funding_owed w v p + p_margin p in
  (r < 0 -> margin = 0 /\ bad = - r) /\ (0 <= r -> margin = r /\ bad = 0) /\ 0 <= margin /\ 0 <= bad.
Proof. exact calc_remain_margin_spec. Qed.
Print Assumptions C04_remaining_margin.

(* the reply that completes a whole close: it succeeds only when the equity
   margin + realised PnL - funding owed is non-negative (a close that would leave bad debt is
   rejected); it then pays the trader exactly that amount (sum of all vault transfers to the
   trader in the emitted messages), removes the position and clears the in-flight record *)
Theorem C04_close_pays_equity : forall w i o w' msgs swap,
  e_tmp (w_eng w) = Some swap ->
  let v := ts_vamm swap in let t := ts_trader swap in
  let p := get_position (w_eng w) (w_env w) v t (ts_side swap) in
  pos_wf p -> cpf_wf (w_eng w) v -> 0 < e_dec (ec (w_eng w)) ->
  0 <= o -> 0 <= ts_open_notional swap -> ts_upnl swap = szero ->
  t <> e_ifund (ec (w_eng w)) -> t <> e_feepool (ec (w_eng w)) ->
  close_position_reply w i o = Ok (w', msgs) ->
  let equity := p_margin p + close_rpnl p o (ts_open_notional swap) - funding_owed w v p in
  0 <= equity /\ transfers_to t msgs = equity /\
  find_position (w_eng w') v t = None /\ e_tmp (w_eng w') = None /\ w_tok w' = w_tok w /\ w_vamms w' = w_vamms w.
Proof. exact close_position_reply_spec. Qed.
Print Assumptions C04_close_pays_equity.

(* the insurance fund is drawn only through `withdraw`, and exactly the drawn shortfall is added to
   the engine's prepaid bad debt in the same step *)
Theorem C04_fund_draw_is_recorded : forall w st receiver amount pre st' msgs,
  withdraw w st receiver amount pre = Ok (st', msgs) ->
  exists shortfall,
    (msgs = [execute_transfer receiver amount] /\ shortfall = 0 /\ st' = st \/
     msgs = [execute_insurance_fund_withdrawal w shortfall; execute_transfer receiver amount] /\
     0 < shortfall /\ shortfall = amount - (engine_balance w + pre) /\
     e_bad_debt st' = e_bad_debt st + shortfall /\ e_oi st' = e_oi st /\ e_pause st' = e_pause st).
Proof. exact withdraw_spec. Qed.
Print Assumptions C04_fund_draw_is_recorded.

(* END TO END.  A ClosePosition transaction that closes the whole position (nothing is left stored for the
   sender) - swap, reply, insurance-fund draw, payout and fee transfers, for every fault index - changes the
   closer's wallet by exactly: - funds attached + equity - fees pulled (cw20; a native deployment pays the
   fees out of the vault), where equity = stored margin + realized PnL at the executed price - funding owed,
   and equity >= 0: a close that would have to pay out of bad debt does not succeed. *)
Theorem C04_close_position_tx_pays_equity : forall f w t v lim funds w',
  exec_op f w (OEngine t (EClosePosition v lim) funds) = Ok w' ->
  let p := read_position (w_eng w) v t in
  pos_wf p -> cpf_wf (w_eng w) v -> 0 < e_dec (ec (w_eng w)) ->
  t <> A_ENGINE -> t <> A_IFUND -> t <> if_engine (w_if w) ->
  t <> e_ifund (ec (w_eng w)) -> t <> e_feepool (ec (w_eng w)) ->
  find_position (w_eng w') v t = None ->
  exists vm vm' o, get_vamm w v = Ok vm /\
    swap_output vm (w_env w) A_ENGINE (p_dir p) (sval (p_size p)) lim = Ok (vm', (o, sval (p_size p))) /\
    let equity := p_margin p + close_rpnl p o (p_notional p) - funding_owed w v p in
    0 <= equity /\
    bal (w_tok w') t = bal (w_tok w) t - funds + equity
      - (if t_native (w_tok w) then 0 else fee_of vm (p_notional p) (v_spread (vc vm)) + fee_of vm (p_notional p) (v_toll (vc vm))).
Proof. exact close_position_tx_pays. Qed.
Print Assumptions C04_close_position_tx_pays_equity.

(* non-vacuity: in the concrete scenario (Scenario.v) trader 21's ClosePosition succeeds, leaves no position,
   every premise of the theorem holds, and the wallet moves by exactly margin + PnL (no fees, no funding) *)
Definition c04_example : bool :=
  match scenario with
  | Ok w =>
      match exec_op (-1) w (OEngine 21 (EClosePosition 11 0) 0) with
      | Ok w' =>
          let p := read_position (w_eng w) 11 21 in
          pos_wfb p && wf0b (cumulative_premium_fraction (w_eng w) 11) && (0 <? e_dec (ec (w_eng w))) &&
          negb (21 =? A_ENGINE) && negb (21 =? A_IFUND) && negb (21 =? if_engine (w_if w)) &&
          negb (21 =? e_ifund (ec (w_eng w))) && negb (21 =? e_feepool (ec (w_eng w))) &&
          match find_position (w_eng w') 11 21 with None => true | Some _ => false end &&
          negb (bal (w_tok w') 21 =? bal (w_tok w) 21)
      | Err _ => false
      end
  | Err _ => false
  end.
Example C04_nonvacuous : c04_example = true.
Proof. vm_compute. reflexivity. Qed.

(* END TO END, third clause.  In every trader-initiated transaction - OpenPosition on any path (new, increase,
   reduce, reversal with or without re-opening), ClosePosition (whole or partial), DepositMargin, WithdrawMargin -
   the insurance fund's balance falls by no more than the prepaid bad debt the engine records in that same
   transaction.  Proved through the whole message tree with the potential
   fund balance + recorded prepaid bad debt - draws still queued, which never decreases (dispatch_floor).
   Side conditions: fee ratios and decimals of the vAMMs are non-negative / positive (fees_ok), the trader is not the
   fund, stored notionals and sizes are non-negative magnitudes. *)
Theorem C04_open_position_tx_draw_recorded : forall f w t v s m l lim funds w',
  exec_op f w (OEngine t (EOpenPosition v s m l lim) funds) = Ok w' ->
  (fees_ok w /\ t <> A_IFUND /\ 0 <= p_notional (read_position (w_eng w) v t)) ->
  0 <= m -> 0 <= l -> 0 < e_dec (ec (w_eng w)) ->
  bal (w_tok w) A_IFUND - bal (w_tok w') A_IFUND <= e_bad_debt (es (w_eng w')) - e_bad_debt (es (w_eng w)).
Proof. exact open_position_tx_draw_recorded. Qed.
Print Assumptions C04_open_position_tx_draw_recorded.

Theorem C04_close_position_tx_draw_recorded : forall f w t v lim funds w' vm,
  exec_op f w (OEngine t (EClosePosition v lim) funds) = Ok w' ->
  (fees_ok w /\ t <> A_IFUND /\ 0 <= p_notional (read_position (w_eng w) v t)) ->
  get_vamm w v = Ok vm -> wfv vm ->
  0 <= sval (p_size (read_position (w_eng w) v t)) -> 0 <= e_plr (ec (w_eng w)) -> 0 < e_dec (ec (w_eng w)) ->
  bal (w_tok w) A_IFUND - bal (w_tok w') A_IFUND <= e_bad_debt (es (w_eng w')) - e_bad_debt (es (w_eng w)).
Proof. exact close_position_tx_draw_recorded. Qed.
Print Assumptions C04_close_position_tx_draw_recorded.

Theorem C04_deposit_margin_tx_draw_recorded : forall f w t v amount funds w',
  exec_op f w (OEngine t (EDepositMargin v amount) funds) = Ok w' -> t <> A_IFUND ->
  bal (w_tok w) A_IFUND - bal (w_tok w') A_IFUND <= e_bad_debt (es (w_eng w')) - e_bad_debt (es (w_eng w)).
Proof. exact deposit_margin_tx_draw_recorded. Qed.
Print Assumptions C04_deposit_margin_tx_draw_recorded.

Theorem C04_withdraw_margin_tx_draw_recorded : forall f w t v amount funds w',
  exec_op f w (OEngine t (EWithdrawMargin v amount) funds) = Ok w' -> t <> A_IFUND ->
  bal (w_tok w) A_IFUND - bal (w_tok w') A_IFUND <= e_bad_debt (es (w_eng w')) - e_bad_debt (es (w_eng w)).
Proof. exact withdraw_margin_tx_draw_recorded. Qed.
Print Assumptions C04_withdraw_margin_tx_draw_recorded.

(* non-vacuity: a close that does draw on the fund.  Price band off; trader 23 opens a 5x long, trader 24 a larger
   one on top; 23 closes in profit and its payout exceeds the vault, so the fund is drawn on; the draw equals the
   prepaid bad debt recorded by that transaction, and the hypotheses of the close theorem hold in that state *)
Definition c04_draw_example : bool :=
  match scenario with
  | Ok w0 =>
      let w := run w0 [OVamm 1 11 (WUpdateConfig (mkVupdate None None None None (Some 0) None None None None));
                       OToken 1 (TMint 23 1000000000000); OToken 23 (TIncreaseAllowance 1000000000000);
                       OToken 1 (TMint 24 1000000000000); OToken 24 (TIncreaseAllowance 1000000000000);
                       OEngine 23 (EOpenPosition 11 Buy 25000000 5000000 0) 0; OBlock 10 1;
                       OEngine 24 (EOpenPosition 11 Buy 80000000 5000000 0) 0; OBlock 10 1] in
      match get_vamm w 11, exec_op (-1) w (OEngine 23 (EClosePosition 11 0) 0) with
      | Ok vm, Ok w' =>
          let drop := bal (w_tok w) A_IFUND - bal (w_tok w') A_IFUND in
          let rec := e_bad_debt (es (w_eng w')) - e_bad_debt (es (w_eng w)) in
          (0 <? drop) && (drop =? rec) &&
          (0 <=? p_notional (read_position (w_eng w) 11 23)) && (0 <? v_dec (vc vm)) && (0 <=? v_q (vs vm)) && (0 <=? v_b (vs vm))
      | _, _ => false
      end
  | Err _ => false
  end.
Example C04_draw_recorded_nonvacuous : c04_draw_example = true.
Proof. vm_compute. reflexivity. Qed.
