(* C04: closing pays exactly the position's equity; bad debt cannot be cashed out.  Statements only. *)
From MP.Model Require Import Prelude U128 SInt Feed Vamm VammOps Token World Engine Runtime.
From MP.Proofs Require Import Tactics SIntFacts EngineArith CloseFacts CloseTxFacts.
From MP.Model Require Import Scenario.

(* the margin arithmetic in mathematical integers: funding owed = (cumulative fraction - checkpoint)
   x size / D truncated; remaining margin = delta - funding + margin, negative part = bad debt *)
Theorem C04_remaining_margin : forall w v p delta fp margin bad latest,
  pos_wf p -> cpf_wf (w_eng w) v -> wf0 delta -> 0 < e_dec (ec (w_eng w)) ->
  calc_remain_margin w v p delta = Ok (fp, margin, bad, latest) ->
  latest = cumulative_premium_fraction (w_eng w) v /\
  toZ fp = funding_owed w v p /\
  let r := toZ delta - funding_owed w v p + p_margin p in
  (r < 0 -> margin = 0 /\ bad = - r) /\ (0 <= r -> margin = r /\ bad = 0) /\ 0 <= margin /\ 0 <= bad.
Proof. exact calc_remain_margin_spec. Qed.
Print Assumptions C04_remaining_margin.

(* the reply that completes a whole close: it succeeds only when the equity
   margin + realised PnL - funding owed is non-negative (a close that would leave bad debt is
   rejected); it then pays the trader exactly that amount (sum of all vault transfers to the
   trader in the emitted messages), removes the position and clears the in-flight record *)
Theorem C04_close_pays_equity : forall w i o w' msgs swap,
  e_tmp (w_eng w) = Some swap ->
  let v := ts_vamm swap in let t := ts_trader swap in
  let p := get_position (w_eng w) (w_env w) v t (ts_side swap) in
  pos_wf p -> cpf_wf (w_eng w) v -> 0 < e_dec (ec (w_eng w)) ->
  0 <= o -> 0 <= ts_open_notional swap -> ts_upnl swap = szero ->
  t <> e_ifund (ec (w_eng w)) -> t <> e_feepool (ec (w_eng w)) ->
  close_position_reply w i o = Ok (w', msgs) ->
  let equity := p_margin p + close_rpnl p o (ts_open_notional swap) - funding_owed w v p in
  0 <= equity /\ transfers_to t msgs = equity /\
  find_position (w_eng w') v t = None /\ e_tmp (w_eng w') = None /\ w_tok w' = w_tok w /\ w_vamms w' = w_vamms w.
Proof. exact close_position_reply_spec. Qed.
Print Assumptions C04_close_pays_equity.

(* the insurance fund is drawn only through `withdraw`, and exactly the drawn shortfall is added to
   the engine's prepaid bad debt in the same step *)
Theorem C04_fund_draw_is_recorded : forall w st receiver amount pre st' msgs,
  withdraw w st receiver amount pre = Ok (st', msgs) ->
  exists shortfall,
    (msgs = [execute_transfer receiver amount] /\ shortfall = 0 /\ st' = st \/
     msgs = [execute_insurance_fund_withdrawal w shortfall; execute_transfer receiver amount] /\
     0 < shortfall /\ shortfall = amount - (engine_balance w + pre) /\
     e_bad_debt st' = e_bad_debt st + shortfall /\ e_oi st' = e_oi st /\ e_pause st' = e_pause st).
Proof. exact withdraw_spec. Qed.
Print Assumptions C04_fund_draw_is_recorded.

(* END TO END.  A ClosePosition transaction that closes the whole position (nothing is left stored for the
   sender) - swap, reply, insurance-fund draw, payout and fee transfers, for every fault index - changes the
   closer's wallet by exactly: - funds attached + equity - fees pulled (cw20; a native deployment pays the
   fees out of the vault), where equity = stored margin + realized PnL at the executed price - funding owed,
   and equity >= 0: a close that would have to pay out of bad debt does not succeed. *)
Theorem C04_close_position_tx_pays_equity : forall f w t v lim funds w',
  exec_op f w (OEngine t (EClosePosition v lim) funds) = Ok w' ->
  let p := read_position (w_eng w) v t in
  pos_wf p -> cpf_wf (w_eng w) v -> 0 < e_dec (ec (w_eng w)) ->
  t <> A_ENGINE -> t <> A_IFUND -> t <> if_engine (w_if w) ->
  t <> e_ifund (ec (w_eng w)) -> t <> e_feepool (ec (w_eng w)) ->
  find_position (w_eng w') v t = None ->
  exists vm vm' o, get_vamm w v = Ok vm /\
    swap_output vm (w_env w) A_ENGINE (p_dir p) (sval (p_size p)) lim = Ok (vm', (o, sval (p_size p))) /\
    let equity := p_margin p + close_rpnl p o (p_notional p) - funding_owed w v p in
    0 <= equity /\
    bal (w_tok w') t = bal (w_tok w) t - funds + equity
      - (if t_native (w_tok w) then 0 else fee_of vm (p_notional p) (v_spread (vc vm)) + fee_of vm (p_notional p) (v_toll (vc vm))).
Proof. exact close_position_tx_pays. Qed.
Print Assumptions C04_close_position_tx_pays_equity.

(* non-vacuity: in the concrete scenario (Scenario.v) trader 21's ClosePosition succeeds, leaves no position,
   every premise of the theorem holds, and the wallet moves by exactly margin + PnL (no fees, no funding) *)
Definition c04_example : bool :=
  match scenario with
  | Ok w =>
      match exec_op (-1) w (OEngine 21 (EClosePosition 11 0) 0) with
      | Ok w' =>
          let p := read_position (w_eng w) 11 21 in
          pos_wfb p && wf0b (cumulative_premium_fraction (w_eng w) 11) && (0 <? e_dec (ec (w_eng w))) &&
          negb (21 =? A_ENGINE) && negb (21 =? A_IFUND) && negb (21 =? if_engine (w_if w)) &&
          negb (21 =? e_ifund (ec (w_eng w))) && negb (21 =? e_feepool (ec (w_eng w))) &&
          match find_position (w_eng w') 11 21 with None => true | Some _ => false end &&
          negb (bal (w_tok w') 21 =? bal (w_tok w) 21)
      | Err _ => false
      end
  | Err _ => false
  end.
Example C04_nonvacuous : c04_example = true.
Proof. vm_compute. reflexivity. Qed.
