(* C04: closing pays exactly the position's equity; bad debt cannot be cashed out.  Statements only. *)
From MP.Model Require Import Prelude U128 SInt Feed Vamm VammOps Token World Engine Runtime.
From MP.Proofs Require Import Tactics SIntFacts EngineArith CloseFacts.

(* the margin arithmetic in mathematical integers: funding owed = (cumulative fraction - checkpoint)
   x size / D truncated; remaining margin = delta - funding + margin, negative part = bad debt *)
Theorem C04_remaining_margin : forall w v p delta fp margin bad latest,
  pos_wf p -> cpf_wf (w_eng w) v -> wf0 delta -> 0 < e_dec (ec (w_eng w)) ->
  calc_remain_margin w v p delta = Ok (fp, margin, bad, latest) ->
  latest = cumulative_premium_fraction (w_eng w) v /\
  toZ fp = funding_owed w v p /\
  let r := toZ delta - funding_owed w v p + p_margin p in
  (r < 0 -> margin = 0 /\ bad = - r) /\ (0 <= r -> margin = r /\ bad = 0) /\ 0 <= margin /\ 0 <= bad.
Proof. exact calc_remain_margin_spec. Qed.
Print Assumptions C04_remaining_margin.

(* the reply that completes a whole close: it succeeds only when the equity
   margin + realised PnL - funding owed is non-negative (a close that would leave bad debt is
   rejected); it then pays the trader exactly that amount (sum of all vault transfers to the
   trader in the emitted messages), removes the position and clears the in-flight record *)
Theorem C04_close_pays_equity : forall w i o w' msgs swap,
  e_tmp (w_eng w) = Some swap ->
  let v := ts_vamm swap in let t := ts_trader swap in
  let p := get_position (w_eng w) (w_env w) v t (ts_side swap) in
  pos_wf p -> cpf_wf (w_eng w) v -> 0 < e_dec (ec (w_eng w)) ->
  0 <= o -> 0 <= ts_open_notional swap -> ts_upnl swap = szero ->
  t <> e_ifund (ec (w_eng w)) -> t <> e_feepool (ec (w_eng w)) ->
  close_position_reply w i o = Ok (w', msgs) ->
  let equity := p_margin p + close_rpnl p o (ts_open_notional swap) - funding_owed w v p in
  0 <= equity /\ transfers_to t msgs = equity /\
  find_position (w_eng w') v t = None /\ e_tmp (w_eng w') = None /\ w_tok w' = w_tok w /\ w_vamms w' = w_vamms w.
Proof. exact close_position_reply_spec. Qed.
Print Assumptions C04_close_pays_equity.

(* the insurance fund is drawn only through `withdraw`, and exactly the drawn shortfall is added to
   the engine's prepaid bad debt in the same step *)
Theorem C04_fund_draw_is_recorded : forall w st receiver amount pre st' msgs,
  withdraw w st receiver amount pre = Ok (st', msgs) ->
  exists shortfall,
    (msgs = [execute_transfer receiver amount] /\ shortfall = 0 /\ st' = st \/
     msgs = [execute_insurance_fund_withdrawal w shortfall; execute_transfer receiver amount] /\
     0 < shortfall /\ shortfall = amount - (engine_balance w + pre) /\
     e_bad_debt st' = e_bad_debt st + shortfall /\ e_oi st' = e_oi st /\ e_pause st' = e_pause st).
Proof. exact withdraw_spec. Qed.
Print Assumptions C04_fund_draw_is_recorded.
