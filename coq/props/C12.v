(* C12: trading fees are exact and routed to the right pools.  Statements only. *)
From MP.Model Require Import Prelude U128 SInt Feed Vamm VammOps Token World Engine Runtime.
From MP.Proofs Require Import Tactics SIntFacts EngineArith CloseFacts MoreFacts CloseTxFacts OpenTxFacts FeeFlowFacts.
From MP.Model Require Import Scenario.

Theorem C12_fee_amounts : forall v quote toll spread, 0 <= quote ->
  q_calc_fee v quote = Ok (toll, spread) ->
  toll = quote * v_toll (vc v) / v_dec (vc v) /\ spread = quote * v_spread (vc v) / v_dec (vc v).
Proof. exact q_calc_fee_spec. Qed.
Print Assumptions C12_fee_amounts.

(* exactly one transfer of floor(notional x spread) to the insurance fund and one of
   floor(notional x toll) to the fee pool, each omitted when it rounds to zero *)
Theorem C12_fee_messages : forall w from vamm notional msgs spread toll, 0 <= notional ->
  transfer_fees w from vamm notional = Ok (msgs, spread, toll) ->
  exists v, get_vamm w vamm = Ok v /\
  toll = notional * v_toll (vc v) / v_dec (vc v) /\ spread = notional * v_spread (vc v) / v_dec (vc v) /\
  msgs = (if negb (spread =? 0) then [execute_transfer_from w from (e_ifund (ec (w_eng w))) spread] else []) ++
         (if negb (toll =? 0) then [execute_transfer_from w from (e_feepool (ec (w_eng w))) toll] else []).
Proof. exact transfer_fees_spec. Qed.
Print Assumptions C12_fee_messages.

(* nobody other than the insurance fund and the fee pool is paid by the fee messages *)
Theorem C12_fees_only_to_pools : forall w from vamm notional msgs spread toll a,
  transfer_fees w from vamm notional = Ok (msgs, spread, toll) ->
  a <> e_ifund (ec (w_eng w)) -> a <> e_feepool (ec (w_eng w)) -> transfers_to a msgs = 0.
Proof. exact transfers_to_fees. Qed.
Print Assumptions C12_fees_only_to_pools.

(* OpenPosition records margin x leverage / D - the quote amount requested to trade - as the notional the
   fee will be charged on, and marks the fee as not yet paid *)
Theorem C12_open_records_notional : forall w t v s m l lim f w' subs,
  e_open_position w t v s m l lim f = Ok (w', subs) ->
  exists tm, e_tmp (w_eng w') = Some tm /\ ts_vamm tm = v /\ ts_trader tm = t /\ ts_side tm = s /\
    ts_open_notional tm = m * l / e_dec (ec (w_eng w)) /\ ts_leverage tm = l /\ ts_margin_amount tm = m /\
    ts_fees_paid tm = false /\ ts_mtv tm = szero.
Proof. exact open_position_tmp. Qed.
Print Assumptions C12_open_records_notional.

(* the increase / reduce reply charges the fee on exactly that notional, as its last messages, unless a
   reversal's first leg already charged it - then it emits no fee message at all *)
Theorem C12_trade_fee_once : forall w i o id w' subs tm,
  update_position_reply w i o id = Ok (w', subs) -> e_tmp (w_eng w) = Some tm ->
  exists msgs1,
    (ts_fees_paid tm = true -> subs = msgs1 ++ []) /\
    (ts_fees_paid tm = false -> exists w1 fmsgs spread toll,
        w_vamms w1 = w_vamms w /\ ec (w_eng w1) = ec (w_eng w) /\ w_tok w1 = w_tok w /\
        transfer_fees w1 (ts_trader tm) (ts_vamm tm) (ts_open_notional tm) = Ok (fmsgs, spread, toll) /\
        subs = msgs1 ++ fmsgs).
Proof. exact update_position_reply_fees. Qed.
Print Assumptions C12_trade_fee_once.

(* a reversal charges once, on the requested notional, in its first leg, and hands the re-opening leg a
   record marked as paid *)
Theorem C12_reversal_fee_once : forall w i o w' subs tm,
  reverse_position_reply w i o = Ok (w', subs) -> e_tmp (w_eng w) = Some tm ->
  exists fmsgs spread toll last,
    transfer_fees w (ts_trader tm) (ts_vamm tm) (ts_open_notional tm) = Ok (fmsgs, spread, toll) /\
    subs = fmsgs ++ [last] /\
    ((exists amt, last = execute_transfer (ts_trader tm) amt) /\ e_tmp (w_eng w') = None \/
     (exists tm', e_tmp (w_eng w') = Some tm' /\ ts_fees_paid tm' = true /\
        last = internal_increase_position (ts_vamm tm) (ts_side tm) (ts_open_notional tm') 0)).
Proof. exact reverse_position_reply_fees. Qed.
Print Assumptions C12_reversal_fee_once.

(* deposits, withdrawals, funding settlements and liquidations move nothing to the fee pool *)
Theorem C12_deposit_no_fee : forall w t v amount funds w' msgs,
  e_deposit_margin w t v amount funds = Ok (w', msgs) -> e_feepool (ec (w_eng w)) <> A_ENGINE ->
  paid_to (e_feepool (ec (w_eng w))) msgs = 0.
Proof. exact deposit_no_fee. Qed.
Print Assumptions C12_deposit_no_fee.
Theorem C12_withdraw_no_fee : forall w t v amount w' msgs,
  e_withdraw_margin w t v amount = Ok (w', msgs) -> t <> e_feepool (ec (w_eng w)) ->
  paid_to (e_feepool (ec (w_eng w))) msgs = 0.
Proof. exact withdraw_no_fee. Qed.
Print Assumptions C12_withdraw_no_fee.
Theorem C12_funding_no_fee : forall w pf vamm w' msgs,
  pay_funding_reply w pf vamm = Ok (w', msgs) -> e_ifund (ec (w_eng w)) <> e_feepool (ec (w_eng w)) ->
  paid_to (e_feepool (ec (w_eng w))) msgs = 0.
Proof. exact pay_funding_no_fee. Qed.
Print Assumptions C12_funding_no_fee.
Theorem C12_liquidation_no_fee : forall w i o w' msgs liq,
  liquidate_reply w i o = Ok (w', msgs) -> e_liq (w_eng w) = Some liq ->
  liq <> e_feepool (ec (w_eng w)) -> e_ifund (ec (w_eng w)) <> e_feepool (ec (w_eng w)) ->
  paid_to (e_feepool (ec (w_eng w))) msgs = 0.
Proof. exact liquidate_reply_no_fee. Qed.
Print Assumptions C12_liquidation_no_fee.
Theorem C12_partial_liquidation_no_fee : forall w i o w' msgs liq,
  partial_liquidation_reply w i o = Ok (w', msgs) -> e_liq (w_eng w) = Some liq ->
  liq <> e_feepool (ec (w_eng w)) -> e_ifund (ec (w_eng w)) <> e_feepool (ec (w_eng w)) ->
  paid_to (e_feepool (ec (w_eng w))) msgs = 0.
Proof. exact partial_liquidation_reply_no_fee. Qed.
Print Assumptions C12_partial_liquidation_no_fee.

(* END TO END.  An OpenPosition transaction that opens a new position (cw20 or native; whole message tree;
   any fault index) raises the insurance fund's balance by exactly floor(notional x spread ratio) and the fee
   pool's by exactly floor(notional x toll ratio), notional = margin x leverage / D. *)
Theorem C12_open_new_position_tx_fees : forall f w t v s m l lim funds w' vm,
  exec_op f w (OEngine t (EOpenPosition v s m l lim) funds) = Ok w' ->
  find_position (w_eng w) v t = None ->
  get_vamm w v = Ok vm -> 0 <= m -> 0 <= l -> 0 < e_dec (ec (w_eng w)) ->
  let ifund := e_ifund (ec (w_eng w)) in let pool := e_feepool (ec (w_eng w)) in
  ifund <> pool -> ifund <> A_ENGINE -> pool <> A_ENGINE -> t <> ifund -> t <> pool ->
  let notional := m * l / e_dec (ec (w_eng w)) in
  bal (w_tok w') ifund = bal (w_tok w) ifund + fee_of vm notional (v_spread (vc vm)) /\
  bal (w_tok w') pool = bal (w_tok w) pool + fee_of vm notional (v_toll (vc vm)).
Proof. exact open_new_position_tx_fees. Qed.
Print Assumptions C12_open_new_position_tx_fees.

(* non-vacuity: in the concrete scenario with fees switched on (toll 0.3%, spread 0.1%) a third trader's
   OpenPosition succeeds, every premise holds and both pools grow *)
Definition c12_example : bool :=
  match scenario with
  | Ok w0 =>
      let w := run w0 [OVamm 1 11 (WUpdateConfig (mkVupdate None None (Some 3000) (Some 1000) None None None None None));
                       OToken 1 (TMint 23 1000000000000); OToken 23 (TIncreaseAllowance 1000000000000)] in
      let ifund := e_ifund (ec (w_eng w)) in let pool := e_feepool (ec (w_eng w)) in
      match find_position (w_eng w) 11 23, exec_op (-1) w (OEngine 23 (EOpenPosition 11 Buy 3000000 2000000 0) 0) with
      | None, Ok w' =>
          negb (ifund =? pool) && negb (ifund =? A_ENGINE) && negb (pool =? A_ENGINE) && negb (23 =? ifund) && negb (23 =? pool) &&
          (bal (w_tok w) ifund <? bal (w_tok w') ifund) && (bal (w_tok w) pool <? bal (w_tok w') pool)
      | _, _ => false
      end
  | Err _ => false
  end.
Example C12_nonvacuous : c12_example = true.
Proof. vm_compute. reflexivity. Qed.

(* END TO END, close.  A ClosePosition transaction that closes the whole position raises the fee pool's
   balance by exactly floor(open notional x toll ratio): the close fee is charged on the position's open
   notional, whatever the payout (the trader's side, including the spread fee, is C04's end-to-end theorem). *)
Theorem C12_close_position_tx_pool : forall f w t v lim funds w',
  exec_op f w (OEngine t (EClosePosition v lim) funds) = Ok w' ->
  let p := read_position (w_eng w) v t in
  pos_wf p -> cpf_wf (w_eng w) v -> 0 < e_dec (ec (w_eng w)) ->
  t <> A_ENGINE -> t <> A_IFUND -> t <> if_engine (w_if w) ->
  t <> e_ifund (ec (w_eng w)) -> t <> e_feepool (ec (w_eng w)) ->
  find_position (w_eng w') v t = None ->
  let pool := e_feepool (ec (w_eng w)) in
  pool <> A_ENGINE -> pool <> A_IFUND -> pool <> if_engine (w_if w) -> pool <> e_ifund (ec (w_eng w)) ->
  exists vm, get_vamm w v = Ok vm /\
    bal (w_tok w') pool = bal (w_tok w) pool + fee_of vm (p_notional p) (v_toll (vc vm)).
Proof. exact close_position_tx_pool. Qed.
Print Assumptions C12_close_position_tx_pool.

(* END TO END, every path.  Any successful OpenPosition - on no position, increasing, reducing, reversing with or
   without a re-opening leg - raises the fee pool's balance by exactly floor(notional x toll ratio), notional =
   margin x leverage: the reversal is charged once on the requested notional, not once per leg.  (Proved through
   the whole message tree with a "what is still owed" potential: leaf messages pay what they say, the pending
   replying swap is worth what its reply will pay; dispatch_owed.) *)
Theorem C12_open_position_tx_toll : forall f w t v s m l lim funds w' vm,
  exec_op f w (OEngine t (EOpenPosition v s m l lim) funds) = Ok w' ->
  get_vamm w v = Ok vm -> 0 <= m -> 0 <= l -> 0 < e_dec (ec (w_eng w)) ->
  let pool := e_feepool (ec (w_eng w)) in
  pool <> A_ENGINE -> pool <> A_IFUND -> pool <> if_engine (w_if w) -> e_ifund (ec (w_eng w)) <> pool -> t <> pool ->
  bal (w_tok w') pool = bal (w_tok w) pool + (m * l / e_dec (ec (w_eng w))) * v_toll (vc vm) / v_dec (vc vm).
Proof. exact open_position_tx_toll. Qed.
Print Assumptions C12_open_position_tx_toll.

(* non-vacuity on the reversal path: with a 0.3% toll, trader 21 (long) sells more than the position is worth; the
   transaction succeeds, the position flips, and the fee pool receives the toll on the requested notional once *)
Definition c12_reversal_example : bool :=
  match scenario with
  | Ok w0 =>
      let w := run w0 [OVamm 1 11 (WUpdateConfig (mkVupdate None None (Some 3000) (Some 1000) None None None None None))] in
      let pool := e_feepool (ec (w_eng w)) in
      match find_position (w_eng w) 11 21, get_vamm w 11, exec_op (-1) w (OEngine 21 (EOpenPosition 11 Sell 11000000 2000000 0) 0) with
      | Some p, Ok vm, Ok w' =>
          match find_position (w_eng w') 11 21 with
          | Some p' => negb (sneg (p_size p)) && sneg (p_size p') && negb (sval (p_size p') =? 0) &&
                       (bal (w_tok w') pool =? bal (w_tok w) pool + (11000000 * 2000000 / e_dec (ec (w_eng w))) * 3000 / v_dec (vc vm)) &&
                       (0 <? (11000000 * 2000000 / e_dec (ec (w_eng w))) * 3000 / v_dec (vc vm))
          | None => false
          end
      | _, _, _ => false
      end
  | Err _ => false
  end.
Example C12_reversal_toll_once_example : c12_reversal_example = true.
Proof. vm_compute. reflexivity. Qed.

(* END TO END: liquidations (full or partial), funding settlements, deposits and withdrawals leave the fee pool's
   balance exactly as it was - whole transactions, through the message tree *)
Theorem C12_liquidate_tx_no_fee : forall f w s v t lim funds w',
  exec_op f w (OEngine s (ELiquidate v t lim) funds) = Ok w' ->
  let pool := e_feepool (ec (w_eng w)) in
  pool <> A_ENGINE -> pool <> A_IFUND -> pool <> if_engine (w_if w) -> e_ifund (ec (w_eng w)) <> pool -> s <> pool ->
  bal (w_tok w') pool = bal (w_tok w) pool.
Proof. exact liquidate_tx_no_fee. Qed.
Print Assumptions C12_liquidate_tx_no_fee.

Theorem C12_pay_funding_tx_no_fee : forall f w s v funds w',
  exec_op f w (OEngine s (EPayFunding v) funds) = Ok w' ->
  let pool := e_feepool (ec (w_eng w)) in
  pool <> A_ENGINE -> pool <> A_IFUND -> pool <> if_engine (w_if w) -> e_ifund (ec (w_eng w)) <> pool -> s <> pool ->
  (forall l, e_liq (w_eng w) = Some l -> l <> pool) ->
  bal (w_tok w') pool = bal (w_tok w) pool.
Proof. exact pay_funding_tx_no_fee. Qed.
Print Assumptions C12_pay_funding_tx_no_fee.

Theorem C12_deposit_margin_tx_no_fee : forall f w t v amount funds w',
  exec_op f w (OEngine t (EDepositMargin v amount) funds) = Ok w' ->
  let pool := e_feepool (ec (w_eng w)) in
  pool <> A_ENGINE -> pool <> A_IFUND -> pool <> if_engine (w_if w) -> t <> pool ->
  bal (w_tok w') pool = bal (w_tok w) pool.
Proof. exact deposit_margin_tx_no_fee. Qed.
Print Assumptions C12_deposit_margin_tx_no_fee.

Theorem C12_withdraw_margin_tx_no_fee : forall f w t v amount funds w',
  exec_op f w (OEngine t (EWithdrawMargin v amount) funds) = Ok w' ->
  let pool := e_feepool (ec (w_eng w)) in
  pool <> A_ENGINE -> pool <> A_IFUND -> pool <> if_engine (w_if w) -> t <> pool ->
  bal (w_tok w') pool = bal (w_tok w) pool.
Proof. exact withdraw_margin_tx_no_fee. Qed.
Print Assumptions C12_withdraw_margin_tx_no_fee.
