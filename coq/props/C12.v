(* C12: trading fees are exact and routed to the right pools.  Statements only. *)
From MP.Model Require Import Prelude U128 SInt Feed Vamm VammOps Token World Engine Runtime.
From MP.Proofs Require Import Tactics SIntFacts EngineArith CloseFacts.

Theorem C12_fee_amounts : forall v quote toll spread, 0 <= quote ->
  q_calc_fee v quote = Ok (toll, spread) ->
  toll = quote * v_toll (vc v) / v_dec (vc v) /\ spread = quote * v_spread (vc v) / v_dec (vc v).
Proof. exact q_calc_fee_spec. Qed.
Print Assumptions C12_fee_amounts.

(* exactly one transfer of floor(notional x spread) to the insurance fund and one of
   floor(notional x toll) to the fee pool, each omitted when it rounds to zero *)
Theorem C12_fee_messages : forall w from vamm notional msgs spread toll, 0 <= notional ->
  transfer_fees w from vamm notional = Ok (msgs, spread, toll) ->
  exists v, get_vamm w vamm = Ok v /\
  toll = notional * v_toll (vc v) / v_dec (vc v) /\ spread = notional * v_spread (vc v) / v_dec (vc v) /\
  msgs = (if negb (spread =? 0) then [execute_transfer_from w from (e_ifund (ec (w_eng w))) spread] else []) ++
         (if negb (toll =? 0) then [execute_transfer_from w from (e_feepool (ec (w_eng w))) toll] else []).
Proof. exact transfer_fees_spec. Qed.
Print Assumptions C12_fee_messages.

(* nobody other than the insurance fund and the fee pool is paid by the fee messages *)
Theorem C12_fees_only_to_pools : forall w from vamm notional msgs spread toll a,
  transfer_fees w from vamm notional = Ok (msgs, spread, toll) ->
  a <> e_ifund (ec (w_eng w)) -> a <> e_feepool (ec (w_eng w)) -> transfers_to a msgs = 0.
Proof. exact transfers_to_fees. Qed.
Print Assumptions C12_fees_only_to_pools.
