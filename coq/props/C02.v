(* C02: engine positions mirror the vAMM's net position.  Statements only. *)
From MP.Model Require Import Prelude U128 SInt Feed Vamm VammOps Token World Engine Runtime.
From MP.Proofs Require Import Tactics SIntFacts ConfigFacts ResidueFacts MirrorFacts MirrorReach.

(* mirror v w : the per-vAMM position list has one entry per trader, every stored position's sign
   agrees with its direction, and the sum of the signed sizes equals the vAMM's total_position_size.
   mirror_all : for every vAMM. *)

(* one transaction of any kind (every engine message incl. opens, increases, reductions, reversals,
   closes, partial closes, full and partial liquidations, funding; every message of the other
   contracts; block advancement), successful or failed, with or without an injected fault *)
Theorem C02_step : forall f w o,
  op_ext o -> mirror_all w -> plr_ok w -> good_vamms w -> mirror_all (fst (step_f f w o)).
Proof. exact step_mirror. Qed.
Print Assumptions C02_step.

(* the side conditions (configuration bounds; every vAMM wired to this engine) are invariant too *)
Theorem C02_invariant_step : forall f w o, op_ok o -> c02_inv w -> c02_inv (fst (step_f f w o)).
Proof. exact step_c02. Qed.
Print Assumptions C02_invariant_step.

(* hence in every state reachable by any history of operations *)
Theorem C02_reachable : forall ops w, Forall op_ok ops -> c02_inv w -> c02_inv (run w ops).
Proof. exact run_c02. Qed.
Print Assumptions C02_reachable.

(* a fresh deployment satisfies it *)
Theorem C02_initial : forall w,
  e_pos (w_eng w) = [] -> (forall v vm, zfind v (w_vamms w) = Some vm -> v_total (vs vm) = szero) -> mirror_all w.
Proof. exact mirror_initial. Qed.
Print Assumptions C02_initial.

(* the heart of it: a replying swap in a state consistent with the in-flight record, followed by
   its reply, re-establishes the invariant (and for a reversal hands over to the increase leg) *)
Theorem C02_swap_and_reply : forall v0 w m id w1 ev w2 subs,
  pend v0 w m id ->
  exec_simple w A_ENGINE m = Ok (w1, ev) ->
  contract_reply w1 A_ENGINE id (Ok ev) = Ok (w2, subs) ->
  readym v0 w2 subs.
Proof. exact pair_mirror. Qed.
Print Assumptions C02_swap_and_reply.

(* non-vacuity: a concrete deployment and history (two traders, open long, open short, reduce,
   reverse) stays inside the invariant's hypotheses and ends with non-trivial positions *)
Definition c02_example : bool :=
  let e := mkEnv 1000 10 in
  match init_world e (mkDeploy false 6 false 50000 50000 50000 1) with
  | Ok w0 =>
      match add_vamm_instance w0 11 1 (mkVinit 6 5 (Some 2) (Some 3) 1000000000 100000000 3600 0 0 0) with
      | Ok w1 =>
          let ops := [OIfund 1 (IAddVamm 11); OVamm 1 11 (WSetOpen true); OFeed 1 (PAppend 10000000 1000);
                      OToken 1 (TMint 21 1000000000000); OToken 21 (TIncreaseAllowance 1000000000000);
                      OToken 1 (TMint 22 1000000000000); OToken 22 (TIncreaseAllowance 1000000000000);
                      OEngine 21 (EOpenPosition 11 Buy 60000000 2000000 0) 0;
                      OEngine 22 (EOpenPosition 11 Sell 20000000 3000000 0) 0;
                      OEngine 21 (EOpenPosition 11 Sell 10000000 2000000 0) 0;
                      OEngine 22 (EOpenPosition 11 Buy 90000000 2000000 0) 0] in
          let w := run w1 ops in
          match zfind 11 (w_vamms w) with
          | Some vm =>
              (Z.of_nat (length (positions_of (w_eng w) 11)) =? 2) &&
              (sum_sizes (positions_of (w_eng w) 11) =? toZ (v_total (vs vm))) &&
              negb (toZ (v_total (vs vm)) =? 0)
          | None => false
          end
      | Err _ => false
      end
  | Err _ => false
  end.
Example C02_nonvacuous : c02_example = true.
Proof. vm_compute. reflexivity. Qed.
