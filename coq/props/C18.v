(* C18: time-weighted prices stay within the prices actually observed.  Statements only. *)
From Coq Require Import Sorted.
From MP.Model Require Import Prelude U128 SInt Feed Vamm.
From MP.Proofs Require Import Tactics TwapFacts FeedFacts.

(* the vAMM TWAP (reserve price or quoted input/output amount) over any interval lies between
   the lowest and highest value in effect during the window: the snapshots the walk visits, i.e.
   up to and including the first one at or before now - interval, or the whole history if shorter *)
Theorem C18_vamm_twap_bounds : forall v e o interval lo hi r,
  calc_twap v e o interval = Ok r ->
  0 <= interval ->
  (forall s, In s (snaps v) -> s_time s <= now e) ->
  prices_within (v_dec (vc v)) o lo hi (window (now e - interval) (snaps v)) ->
  lo <= r <= hi.
Proof. exact calc_twap_bounds. Qed.
Print Assumptions C18_vamm_twap_bounds.

(* ... and equals the spot price when it has not changed *)
Theorem C18_vamm_twap_constant : forall v e o interval p r,
  calc_twap v e o interval = Ok r -> 0 <= interval ->
  (forall s, In s (snaps v) -> s_time s <= now e) ->
  prices_within (v_dec (vc v)) o p p (window (now e - interval) (snaps v)) -> r = p.
Proof. exact calc_twap_const. Qed.
Print Assumptions C18_vamm_twap_constant.

(* at most one snapshot per block (strictly decreasing heights from newest to oldest); after any
   reserve update the newest snapshot carries the current block and the final reserves *)
Theorem C18_one_snapshot_per_block : forall sn e q b sn',
  add_reserve_snapshot sn e q b = Ok sn' -> snaps_ok sn ->
  (forall s, In s sn -> s_height s <= height e) ->
  snaps_ok sn' /\ (exists s, hd_error sn' = Some s /\ s_q s = q /\ s_b s = b /\ s_height s = height e) /\
  (forall s, In s sn' -> s_height s <= height e) /\
  (length sn' = length sn \/ length sn' = S (length sn)).
Proof. exact add_reserve_snapshot_sorted. Qed.
Print Assumptions C18_one_snapshot_per_block.

(* the price feed's TWAP lies between the lowest and highest submitted price overlapping the window *)
Theorem C18_feed_twap_bounds : forall f nowt interval lo hi r,
  rf_twap f nowt interval = Ok r -> 0 <= interval ->
  (forall x, In x (rf_rounds f) -> r_time x <= nowt) ->
  (forall x, In x (match rf_rounds f with
                   | latest :: rest => if r_time latest <? nowt - interval then [latest] else latest :: rwindow (nowt - interval) rest
                   | [] => [] end) -> lo <= r_price x <= hi) ->
  lo <= r <= hi.
Proof. exact rf_twap_bounds. Qed.
Print Assumptions C18_feed_twap_bounds.

(* latest = the last submission, with round id = number of submissions *)
Theorem C18_feed_latest : forall f s p t f', rf_append f s p t = Ok f' ->
  rf_latest f' = (Z.of_nat (length (rf_rounds f)) + 1, p, t) /\ rf_rounds f' = mkRound p t :: rf_rounds f.
Proof. exact rf_append_latest. Qed.
Print Assumptions C18_feed_latest.

(* n rounds back, for n below the number of submissions, is exactly the n-th newest submission *)
Theorem C18_feed_previous_exact : forall f n r,
  rf_previous f n = Ok r ->
  0 <= n < Z.of_nat (length (rf_rounds f)) /\
  exists sub, nth_error (rf_rounds f) (Z.to_nat n) = Some sub /\
  r = (Z.of_nat (length (rf_rounds f)) - n, r_price sub, r_time sub).
Proof. exact rf_previous_exact. Qed.
Print Assumptions C18_feed_previous_exact.

(* ... and for n at or beyond the number of submissions nothing is returned *)
Theorem C18_feed_previous_beyond : forall f n, Z.of_nat (length (rf_rounds f)) <= n -> rf_previous f n = Err EGuard.
Proof. exact rf_previous_beyond. Qed.
Print Assumptions C18_feed_previous_beyond.

Example C18_nonvacuous :
  let f := rf_append_list (rf_init 1) [(10, 100); (20, 110); (30, 130)] in
  rf_twap f 140 30 = Ok 23 /\ rf_previous f 2 = Ok (1, 10, 100) /\ rf_previous f 3 = Err EGuard.
Proof. vm_compute. repeat split. Qed.
