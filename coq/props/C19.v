(* C19: signed integers behave like mathematical integers.
   Statements only; every proof is `exact <lemma of proofs/SIntFacts.v>`.
   Operands range over every representable encoding: any sign flag (including the raw encoding of
   zero with the flag set, which a struct literal can still write) and any magnitude in [0, 2^128). *)
From Coq Require Import String Ascii.
From MP.Model Require Import Prelude U128 SInt.
From MP.Proofs Require Import Tactics SIntFacts.

(* --- arithmetic agrees with Z; results are representable and canonical (no negative zero) --- *)
Theorem C19_add : forall a b r, wf a -> wf b -> sadd a b = Ok r -> toZ r = toZ a + toZ b /\ wf r /\ canon r.
Proof. exact sadd_toZ. Qed.
Print Assumptions C19_add.

Theorem C19_add_fails_iff_overflow : forall a b, wf a -> wf b ->
  ((exists e, sadd a b = Err e) <-> MAXU <= Z.abs (toZ a + toZ b)).
Proof. exact sadd_err_iff. Qed.
Print Assumptions C19_add_fails_iff_overflow.

Theorem C19_sub : forall a b r, wf a -> wf b -> ssub a b = Ok r -> toZ r = toZ a - toZ b /\ wf r /\ canon r.
Proof. exact ssub_toZ. Qed.
Print Assumptions C19_sub.

Theorem C19_sub_fails_iff_overflow : forall a b, wf a -> wf b ->
  ((exists e, ssub a b = Err e) <-> MAXU <= Z.abs (toZ a - toZ b)).
Proof. exact ssub_err_iff. Qed.
Print Assumptions C19_sub_fails_iff_overflow.

Theorem C19_mul : forall a b r, wf a -> wf b -> smul a b = Ok r -> toZ r = toZ a * toZ b /\ wf r /\ canon r.
Proof. exact smul_toZ. Qed.
Print Assumptions C19_mul.

Theorem C19_mul_fails_iff_overflow : forall a b, wf a -> wf b ->
  ((exists e, smul a b = Err e) <-> MAXU <= Z.abs (toZ a * toZ b)).
Proof. exact smul_err_iff. Qed.
Print Assumptions C19_mul_fails_iff_overflow.

(* truncating division: Z.quot rounds toward zero *)
Theorem C19_div : forall a b r, wf a -> wf b -> sdiv a b = Ok r -> toZ r = Z.quot (toZ a) (toZ b) /\ wf r /\ canon r.
Proof. exact sdiv_toZ. Qed.
Print Assumptions C19_div.

Theorem C19_div_fails_iff_zero_divisor : forall a b, (exists e, sdiv a b = Err e) <-> toZ b = 0.
Proof. exact sdiv_err_iff. Qed.
Print Assumptions C19_div_fails_iff_zero_divisor.

Theorem C19_neg : forall a, toZ (sinvert a) = - toZ a.
Proof. exact sinvert_toZ. Qed.
Print Assumptions C19_neg.

Theorem C19_neg_canonical : forall a, canon (sinvert a).
Proof. exact sinvert_canon. Qed.
Print Assumptions C19_neg_canonical.

Theorem C19_abs : forall a, wf a -> toZ (sabs a) = Z.abs (toZ a).
Proof. exact sabs_toZ. Qed.
Print Assumptions C19_abs.

(* --- checked forms --- *)
Theorem C19_checked_add : forall a b r, wf a -> wf b -> schecked_add a b = Ok r -> toZ r = toZ a + toZ b /\ wf r /\ canon r.
Proof. exact schecked_add_toZ. Qed.
Print Assumptions C19_checked_add.

Theorem C19_checked_add_fails_iff_overflow : forall a b, wf a -> wf b ->
  ((exists e, schecked_add a b = Err e) <-> MAXU <= Z.abs (toZ a + toZ b)).
Proof. exact schecked_add_err_iff. Qed.
Print Assumptions C19_checked_add_fails_iff_overflow.

Theorem C19_checked_sub : forall a b r, wf a -> wf b -> schecked_sub a b = Ok r -> toZ r = toZ a - toZ b /\ wf r /\ canon r.
Proof. exact schecked_sub_toZ. Qed.
Print Assumptions C19_checked_sub.

Theorem C19_checked_sub_fails_iff_overflow : forall a b, wf a -> wf b ->
  ((exists e, schecked_sub a b = Err e) <-> MAXU <= Z.abs (toZ a - toZ b)).
Proof. exact schecked_sub_err_iff. Qed.
Print Assumptions C19_checked_sub_fails_iff_overflow.

(* checked and unchecked forms return the very same value whenever the checked form succeeds *)
Theorem C19_checked_add_agrees : forall a b r, wf a -> wf b -> schecked_add a b = Ok r -> sadd a b = Ok r.
Proof. exact checked_add_agree. Qed.
Print Assumptions C19_checked_add_agrees.

Theorem C19_checked_sub_agrees : forall a b r, wf a -> wf b -> schecked_sub a b = Ok r -> ssub a b = Ok r.
Proof. exact checked_sub_agree. Qed.
Print Assumptions C19_checked_sub_agrees.

Theorem C19_checked_mul_agrees : forall a b, schecked_mul a b = smul a b.
Proof. exact schecked_mul_eq. Qed.
Print Assumptions C19_checked_mul_agrees.

Theorem C19_checked_div_agrees : forall a b, schecked_div a b = sdiv a b.
Proof. exact schecked_div_eq. Qed.
Print Assumptions C19_checked_div_agrees.

(* --- comparison, equality, sign predicates: the type's own Ord / == / is_negative --- *)
Theorem C19_cmp : forall a b, wf a -> wf b -> scmp a b = (toZ a ?= toZ b).
Proof. exact scmp_toZ. Qed.
Print Assumptions C19_cmp.

Theorem C19_eq : forall a b, wf a -> wf b -> seqb a b = (toZ a =? toZ b).
Proof. exact seqb_toZ. Qed.
Print Assumptions C19_eq.

Theorem C19_is_negative : forall a, wf a -> s_is_negative a = (toZ a <? 0).
Proof. exact s_is_negative_toZ. Qed.
Print Assumptions C19_is_negative.

Theorem C19_is_positive : forall a, wf a -> s_is_positive a = (0 <=? toZ a).
Proof. exact s_is_positive_toZ. Qed.
Print Assumptions C19_is_positive.

Theorem C19_is_zero : forall a, s_is_zero a = (toZ a =? 0).
Proof. exact s_is_zero_toZ. Qed.
Print Assumptions C19_is_zero.

(* --- decimal string form --- *)
Theorem C19_zero_prints_as_0 : forall a, toZ a = 0 -> s_to_string a = "0"%string.
Proof. exact to_string_zero. Qed.
Print Assumptions C19_zero_prints_as_0.

Theorem C19_string_form : forall a, wf a ->
  s_to_string a = if toZ a <? 0 then String "-"%char (dec_string (Z.abs (toZ a))) else dec_string (toZ a).
Proof. exact to_string_sign. Qed.
Print Assumptions C19_string_form.

Theorem C19_parse_print : forall a, wf a -> exists r, s_from_str (s_to_string a) = Ok r /\ seqb r a = true.
Proof. exact from_str_to_string. Qed.
Print Assumptions C19_parse_print.

(* --- non-vacuity: the hypotheses are met by the interesting operands --- *)
Example C19_nonvacuous :
  wf (sraw 5 true) /\ wf (sraw 0 true) /\ wf (spos (2 ^ 128 - 1)) /\
  sadd (sraw 5 true) (spos 5) = Ok szero /\
  smul (sraw 5 true) (spos 0) = Ok szero /\
  sdiv (sraw 3 true) (spos 5) = Ok szero /\
  seqb (sraw 0 true) szero = true /\ sltb (sraw 0 true) szero = false /\
  s_from_str "-0"%string = Ok szero /\
  (exists e, sadd (spos (2 ^ 128 - 1)) (spos 1) = Err e).
Proof. unfold wf. repeat split; try (vm_compute; congruence); try reflexivity. eexists; reflexivity. Qed.
