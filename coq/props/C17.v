(* C17: quoted amounts equal executed amounts; slippage limits are honoured.  Statements only. *)
From MP.Model Require Import Prelude U128 SInt Feed Vamm VammOps Token World Engine Runtime.
From MP.Proofs Require Import Tactics SIntFacts VammFacts SwapFacts OpenTxFacts LimitTxFacts.

(* the swap reports and moves exactly the requested quote amount and the queried base amount *)
Theorem C17_input_quote_is_execution : forall v e s d quote lim cgo v' qa ba,
  swap_input v e s d quote lim cgo = Ok (v', (qa, ba)) ->
  qa = quote /\ q_input_amount v d quote = Ok ba.
Proof. exact swap_input_quote. Qed.
Print Assumptions C17_input_quote_is_execution.

Theorem C17_output_quote_is_execution : forall v e s d base lim v' qa ba,
  swap_output v e s d base lim = Ok (v', (qa, ba)) ->
  ba = base /\ q_output_amount v d base = Ok qa.
Proof. exact swap_output_quote. Qed.
Print Assumptions C17_output_quote_is_execution.

(* reserves move by exactly those amounts (from C01) *)
Theorem C17_input_moves_reserves : forall v e s d quote lim cgo v' qa ba,
  wfv v -> 0 <= quote ->
  swap_input v e s d quote lim cgo = Ok (v', (qa, ba)) ->
  wfv v' /\ kof v <= kof v' /\ base_plus_net v' = base_plus_net v /\ vc v' = vc v /\
  qa = quote /\ 0 <= ba /\
  match d with
  | AddToAmm => v_q (vs v') = v_q (vs v) + quote /\ v_b (vs v') = v_b (vs v) - ba
  | RemoveFromAmm => v_q (vs v') = v_q (vs v) - quote /\ v_b (vs v') = v_b (vs v) + ba
  end.
Proof. exact swap_input_c01. Qed.
Print Assumptions C17_input_moves_reserves.

(* limits: receiving base (AddToAmm) needs base >= limit, owing base (RemoveFromAmm) base <= limit *)
Theorem C17_input_limit : forall v e s d quote lim cgo base r,
  lim <> 0 -> q_input_amount v d quote = Ok base ->
  (swap_input v e s d quote lim cgo = Ok r <->
   input_limit_met d base lim = true /\ swap_input v e s d quote 0 cgo = Ok r).
Proof. exact swap_input_limit_iff. Qed.
Print Assumptions C17_input_limit.

(* selling base (AddToAmm) needs quote >= limit, buying base back (RemoveFromAmm) quote <= limit *)
Theorem C17_output_limit : forall v e s d base lim quote r,
  lim <> 0 -> q_output_amount v d base = Ok quote ->
  (swap_output v e s d base lim = Ok r <->
   output_limit_met d quote lim = true /\ swap_output v e s d base 0 = Ok r).
Proof. exact swap_output_limit_iff. Qed.
Print Assumptions C17_output_limit.

(* END TO END, at the engine.  The swap that a new-position OpenPosition transaction executes is the
   swap_input of the requested notional carrying the caller's limit unchanged (so by C17_input_limit a
   non-zero limit is honoured: a Buy receives at least it, a Sell gives at most it), and the stored position
   holds exactly the base amount that swap exchanged.  For the whole-position ClosePosition the same is part
   of C04_close_position_tx_pays_equity: the executed swap_output carries the caller's limit. *)
Theorem C17_open_new_position_tx_swap : forall f w t v s m l lim funds w' vm,
  exec_op f w (OEngine t (EOpenPosition v s m l lim) funds) = Ok w' ->
  find_position (w_eng w) v t = None -> get_vamm w v = Ok vm -> 0 < e_dec (ec (w_eng w)) ->
  wf0 (v_total (vs vm)) ->
  let notional := m * l / e_dec (ec (w_eng w)) in
  exists vm' ba, swap_input vm (w_env w) A_ENGINE (side_to_direction s) notional lim false = Ok (vm', (notional, ba)) /\
    0 <= ba /\
    exists p, find_position (w_eng w') v t = Some p /\ toZ (p_size p) = match s with Buy => ba | Sell => - ba end.
Proof. exact open_new_position_tx_swap. Qed.
Print Assumptions C17_open_new_position_tx_swap.

(* END TO END, every non-reversing path.  An OpenPosition that opens, increases or reduces a position (the route the
   code takes: the position is empty or on the same side, or the requested notional is below what the position is
   worth at spot) reaches the vAMM as one swap_input of the requested notional carrying the caller's limit unchanged:
   whenever the transaction succeeds, that limited swap executed on the vAMM state the transaction started from -
   so (C17_input_limit) the limit was met. *)
Theorem C17_open_position_tx_limit : forall f w t v s m l lim funds w' vm pn upnl,
  exec_op f w (OEngine t (EOpenPosition v s m l lim) funds) = Ok w' ->
  get_vamm w v = Ok vm ->
  let p := get_position (w_eng w) (w_env w) v t s in
  let N := m * l / e_dec (ec (w_eng w)) in
  get_pnl w v p PSpot = Ok (pn, upnl) ->
  is_increase_of p s = true \/ N < pn ->
  exists vm' ba, swap_input vm (w_env w) A_ENGINE (side_to_direction s) N lim false = Ok (vm', (N, ba)).
Proof. exact open_position_tx_limit. Qed.
Print Assumptions C17_open_position_tx_limit.
