#!/bin/sh
# setup_cmd: build the framework from files on disk only (offline).
#   1. Coq development: full .vo build (coq_makefile + make), never -vos
#   2. extraction of the model (ExtrOcamlBasic only) + OCaml driver -> .cache/model/modelrun
#   3. Rust harness against /repo's working tree -> .cache/target/release/mp_harness
set -e
cd "$(dirname "$0")"
export CARGO_NET_OFFLINE=true
python3 - <<'PY'
import sys, os
sys.path.insert(0, os.path.join(os.getcwd(), "tools"))
import vlib
rc, out = vlib.coq_make(timeout=3400)
if rc != 0:
    print(out[-4000:])
    sys.exit(1)
vlib.ensure_model_binary()
info = vlib.ensure_harness()
print("setup ok", info["build_s"])
PY
