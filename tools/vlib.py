"""Common machinery for ./check: builds, Coq re-check, trace runs, evidence, reporting."""
import fcntl
import hashlib
import json
import os
import re
import subprocess
import sys
import time

VERIF = os.path.dirname(os.path.dirname(os.path.abspath(__file__)))
REPO = os.environ.get("VERIF_REPO", "/repo")
CACHE = os.path.join(VERIF, ".cache")
COQ = os.path.join(VERIF, "coq")
HARNESS = os.path.join(VERIF, "harness")
TARGET = os.path.join(CACHE, "target")
MODEL_DIR = os.path.join(CACHE, "model")
HARNESS_BIN = os.path.join(TARGET, "release", "mp_harness")
MODEL_BIN = os.path.join(MODEL_DIR, "modelrun")
ENV = dict(os.environ, CARGO_NET_OFFLINE="true", CARGO_TARGET_DIR=TARGET)

FORBIDDEN = re.compile(
    r"\b(Admitted|admit|Axiom|Axioms|Parameter|Parameters|Conjecture|Hypothesis|Variable|"
    r"Admit Obligations|bypass_check|native_compute)\b|Unset\s+Guard|Unset\s+Positivity|"
    r"Unset\s+Universe|type-in-type|impredicative-set"
)

# axioms that may appear under Print Assumptions (none expected: the development is stdlib
# ZArith/List/Bool/Lia/String only).
ALLOWED_AXIOMS = set()

CRATES = {
    "margined_common": "packages/margined_common",
    "margined_perp": "packages/margined_perp",
    "margined_utils": "packages/margined_utils",
    "margined_vamm": "contracts/margined_vamm",
    "margined_engine": "contracts/margined_engine",
    "margined_fee_pool": "contracts/margined_fee_pool",
    "margined_insurance_fund": "contracts/margined_insurance_fund",
    "margined_pricefeed": "contracts/margined_pricefeed",
    "mock_pricefeed": "contracts/mocks/mock_pricefeed",
}


class MachineryError(Exception):
    pass


def log(*a):
    print(*a, file=sys.stderr, flush=True)


def run(cmd, cwd=None, timeout=3600, env=None, stdin=None):
    p = subprocess.run(cmd, cwd=cwd, env=env or ENV, stdout=subprocess.PIPE, stderr=subprocess.STDOUT,
                       timeout=timeout, input=stdin, text=True)
    return p.returncode, p.stdout


class Lock:
    def __init__(self, name):
        os.makedirs(CACHE, exist_ok=True)
        self.path = os.path.join(CACHE, name + ".lock")

    def __enter__(self):
        self.f = open(self.path, "w")
        fcntl.flock(self.f, fcntl.LOCK_EX)
        return self

    def __exit__(self, *a):
        fcntl.flock(self.f, fcntl.LOCK_UN)
        self.f.close()


# ---------------------------------------------------------------- source hashing / harness build
def crate_hashes():
    out = {}
    for name, rel in CRATES.items():
        h = hashlib.sha256()
        base = os.path.join(REPO, rel)
        files = []
        for root, dirs, fs in os.walk(base):
            dirs[:] = sorted(d for d in dirs if d not in ("target", "schema", "examples"))
            for f in sorted(fs):
                if f.endswith(".rs") or f == "Cargo.toml":
                    files.append(os.path.join(root, f))
        for f in files:
            h.update(os.path.relpath(f, base).encode())
            with open(f, "rb") as fh:
                h.update(fh.read())
        out[name] = h.hexdigest()
    return out


def ensure_harness():
    """Rebuild the harness against /repo's current working tree.  cargo decides freshness of
    path dependencies by mtime, so crates whose content hash changed are cleaned first."""
    with Lock("build"):
        t0 = time.time()
        hashes = crate_hashes()
        hpath = os.path.join(CACHE, "srchash.json")
        old = {}
        if os.path.exists(hpath):
            try:
                old = json.load(open(hpath))
            except Exception:
                old = {}
        changed = [c for c in hashes if old.get(c) != hashes[c]]
        lock_src = os.path.join(REPO, "Cargo.lock")
        lock_dst = os.path.join(HARNESS, "Cargo.lock")
        if not os.path.exists(lock_dst):
            import shutil
            shutil.copy(lock_src, lock_dst)
        if changed and os.path.exists(HARNESS_BIN):
            for c in changed:
                run(["cargo", "clean", "--release", "--offline", "-p", c], cwd=HARNESS)
        if changed or not os.path.exists(HARNESS_BIN) or _harness_src_newer():
            rc, out = run(["cargo", "build", "--release", "--offline"], cwd=HARNESS, timeout=3000)
            if rc != 0:
                errs = [l for l in out.splitlines() if l.startswith("error")]
                raise MachineryError("harness build failed against /repo working tree:\n" + "\n".join(errs[:20])
                                     + "\n" + out[-3000:])
            json.dump(hashes, open(hpath, "w"))
        return {"crate_hashes": hashes, "rebuilt": changed, "build_s": round(time.time() - t0, 1)}


def _harness_src_newer():
    if not os.path.exists(HARNESS_BIN):
        return True
    bt = os.path.getmtime(HARNESS_BIN)
    for root, _, fs in os.walk(os.path.join(HARNESS, "src")):
        for f in fs:
            if os.path.getmtime(os.path.join(root, f)) > bt:
                return True
    return os.path.getmtime(os.path.join(HARNESS, "Cargo.toml")) > bt


# ---------------------------------------------------------------- Coq
def coq_files(sub):
    d = os.path.join(COQ, sub)
    return sorted(os.path.join(d, f) for f in os.listdir(d) if f.endswith(".v"))


def forbidden_scan():
    bad = []
    for sub in ("model", "proofs", "props", "extract", "golden"):
        d = os.path.join(COQ, sub)
        if not os.path.isdir(d):
            continue
        for f in coq_files(sub):
            txt = open(f).read()
            txt = re.sub(r"\(\*.*?\*\)", "", txt, flags=re.S)
            for m in FORBIDDEN.finditer(txt):
                line = txt[:m.start()].count("\n") + 1
                bad.append(f"{os.path.relpath(f, VERIF)}:{line}: {m.group(0)}")
    return bad


def ensure_coq_project():
    """(Re)generate _CoqProject and the Makefile from the files on disk."""
    lines = ["-Q model MP.Model", "-Q proofs MP.Proofs", "-Q props MP.Props"]
    for sub in ("model", "proofs", "props"):
        for f in coq_files(sub):
            lines.append(os.path.relpath(f, COQ))
    txt = "\n".join(lines) + "\n"
    p = os.path.join(COQ, "_CoqProject")
    if not os.path.exists(p) or open(p).read() != txt or not os.path.exists(os.path.join(COQ, "Makefile")):
        open(p, "w").write(txt)
        rc, out = run(["coq_makefile", "-f", "_CoqProject", "-o", "Makefile"], cwd=COQ)
        if rc != 0:
            raise MachineryError("coq_makefile failed: " + out)


def coq_make(targets=None, timeout=3000):
    with Lock("coq"):
        ensure_coq_project()
        cmd = ["make", "-j16"] + (targets or [])
        rc, out = run(["timeout", str(timeout)] + cmd, cwd=COQ, timeout=timeout + 30)
        return rc, out


def ensure_model_binary():
    """Extract the model to OCaml and compile the driver when any model file is newer."""
    with Lock("coq"):
        os.makedirs(MODEL_DIR, exist_ok=True)
        srcs = coq_files("model") + [os.path.join(COQ, "extract", "Extract.v"), os.path.join(COQ, "extract", "driver.ml")]
        newest = max(os.path.getmtime(f) for f in srcs)
        if os.path.exists(MODEL_BIN) and os.path.getmtime(MODEL_BIN) >= newest:
            return False
        ensure_coq_project()
        model_vos = [os.path.relpath(f, COQ) + "o" for f in coq_files("model")]
        rc, out = run(["timeout", "1500", "make", "-j16"] + model_vos, cwd=COQ, timeout=1600)
        if rc != 0:
            raise MachineryError("model files do not compile:\n" + out[-3000:])
        import shutil
        shutil.copy(os.path.join(COQ, "extract", "Extract.v"), os.path.join(MODEL_DIR, "Extract.v"))
        rc, out = run(["coqc", "-Q", os.path.join(COQ, "model"), "MP.Model", "Extract.v"], cwd=MODEL_DIR, timeout=600)
        if rc != 0:
            raise MachineryError("extraction failed:\n" + out[-3000:])
        shutil.copy(os.path.join(COQ, "extract", "driver.ml"), os.path.join(MODEL_DIR, "driver.ml"))
        rc, out = run(["ocamlfind", "ocamlopt", "-w", "-a", "-O3", "-unboxed-types", "model.mli", "model.ml", "driver.ml", "-o", "modelrun"],
                      cwd=MODEL_DIR, timeout=900)
        if rc != 0:
            rc, out = run(["ocamlfind", "ocamlopt", "-w", "-a", "model.mli", "model.ml", "driver.ml", "-o", "modelrun"],
                          cwd=MODEL_DIR, timeout=900)
        if rc != 0:
            raise MachineryError("OCaml build of the extracted model failed:\n" + out[-3000:])
        return True


def check_props(prop):
    """Make props/<prop>.vo (everything it depends on), then re-run coqc on the props file itself
    to capture Print Assumptions.  Returns dict(obligations, discharged, theorems, assumptions, failed)."""
    pf = os.path.join(COQ, "props", prop + ".v")
    if not os.path.exists(pf):
        raise MachineryError("no props file for " + prop)
    src = open(pf).read()
    theorems = re.findall(r"^Theorem\s+(\w+)", src, flags=re.M)
    rc, out = coq_make([f"props/{prop}.vo"])
    res = {"theorems": theorems, "obligations": len(theorems), "discharged": 0, "assumptions": {}, "failed": None,
           "checker_cmd": f"make -C coq props/{prop}.vo && coqc -Q model MP.Model -Q proofs MP.Proofs -Q props MP.Props props/{prop}.v"}
    if rc != 0:
        m = re.search(r'File "\./([^"]+)", line (\d+)', out)
        res["failed"] = {"where": (m.group(1) + ":" + m.group(2)) if m else "unknown", "log": out[-2500:]}
        # which theorems are affected: all of the props file (conservative)
        return res
    with Lock("coq"):
        os.makedirs(os.path.join(CACHE, "recheck"), exist_ok=True)
        tmpglob = os.path.join(CACHE, "recheck", f"{prop}.glob")
        rc, out = run(["coqc", "-Q", "model", "MP.Model", "-Q", "proofs", "MP.Proofs", "-Q", "props", "MP.Props",
                       "-dump-glob", tmpglob, "-o", os.path.join(CACHE, "recheck", f"{prop}.vo"), f"props/{prop}.v"], cwd=COQ, timeout=1200)
    if rc != 0:
        res["failed"] = {"where": f"props/{prop}.v", "log": out[-2500:]}
        return res
    # parse Print Assumptions blocks, in order of the theorems
    blocks = re.split(r"(?=Closed under the global context|Axioms:)", out)
    reports = [b for b in blocks if b.startswith("Closed under") or b.startswith("Axioms:")]
    for name, rep in zip(theorems, reports):
        if rep.startswith("Closed under"):
            res["assumptions"][name] = []
        else:
            ax = re.findall(r"^(\S+)\s*:", rep[len("Axioms:"):], flags=re.M)
            res["assumptions"][name] = ax
    if len(reports) != len(theorems):
        raise MachineryError(f"props/{prop}.v: {len(theorems)} theorems but {len(reports)} Print Assumptions reports")
    bad = {n: a for n, a in res["assumptions"].items() if any(x not in ALLOWED_AXIOMS for x in a)}
    if bad:
        raise MachineryError(f"axioms outside the allow-list: {bad}")
    res["discharged"] = len(reports)
    return res


def golden_check():
    """The golden computation (model/Scenario.v) is evaluated by the Coq kernel (proofs/GoldenFacts.v proves
    golden tt = golden_expected tt by vm_compute) and by the extracted OCaml code (modelrun --golden); both must
    agree - a check of the extraction and of the OCaml build, not of the contracts."""
    rc, out = coq_make(["proofs/GoldenFacts.vo"])
    if rc != 0:
        raise MachineryError("proofs/GoldenFacts.v does not check (the kernel's golden values differ from golden_expected):\n" + out[-1500:])
    rc, out = run([MODEL_BIN, "--golden"], cwd=MODEL_DIR, timeout=120)
    if rc != 0 or "GOLDEN ok" not in out:
        raise MachineryError("extracted model disagrees with the kernel on the golden computation: " + out[-500:])
    return out.strip()


def coqchk_props(prop):
    """Re-check props/<prop>.vo and everything it depends on with the independent checker; returns the
    report's axiom / type-in-type / unsafe-fixpoint / assumed-positivity sections."""
    rc, out = run(["timeout", "3000", "coqchk", "-silent", "-o", "-Q", "model", "MP.Model", "-Q", "proofs", "MP.Proofs",
                   "-Q", "props", "MP.Props", f"MP.Props.{prop}"], cwd=COQ, timeout=3100)
    if rc != 0:
        raise MachineryError("coqchk failed on " + prop + ":\n" + out[-2000:])
    rep = {}
    for key, pat in (("axioms", r"\* Axioms:(.*?)\n\s*\n"), ("type_in_type", r"type-in-type:(.*?)\n\s*\n"),
                     ("unsafe_fixpoints", r"unsafe \(co\)fixpoints:(.*?)\n\s*\n"), ("assumed_positivity", r"positivity is assumed:(.*?)(\n\s*\n|$)")):
        m = re.search(pat, out, flags=re.S)
        rep[key] = (m.group(1).strip() if m else "?")
    bad = {k: v for k, v in rep.items() if v != "<none>"}
    if bad:
        raise MachineryError(f"coqchk reports for {prop}: {bad}")
    return rep


# ---------------------------------------------------------------- traces
def trace_dir(prop):
    d = os.path.join(CACHE, "traces", prop)
    os.makedirs(d, exist_ok=True)
    for f in os.listdir(d):
        os.unlink(os.path.join(d, f))
    return d


def run_harness(family, out_path, seed, tier, extra=()):
    cmd = [HARNESS_BIN, family, out_path, str(seed), tier] + list(extra)
    return subprocess.Popen(cmd, stdout=subprocess.PIPE, stderr=subprocess.STDOUT, text=True)


def run_model(trace_path):
    with open(trace_path) as f:
        p = subprocess.run([MODEL_BIN], stdin=f, stdout=subprocess.PIPE, stderr=subprocess.STDOUT, text=True, timeout=3000)
    divs = [l for l in p.stdout.splitlines() if l.startswith("DIV")]
    done = [l for l in p.stdout.splitlines() if l.startswith("DONE")]
    if p.returncode != 0 or not done:
        raise MachineryError(f"model driver failed on {trace_path}:\n{p.stdout[-2000:]}")
    m = re.search(r"lines=(\d+) compared=(\d+) div=(\d+)", done[0])
    return {"lines": int(m.group(1)), "compared": int(m.group(2)), "div": int(m.group(3)), "divs": divs}


def parallel(jobs, n=16):
    """jobs: list of zero-arg callables returning Popen; run at most n at a time; returns outputs."""
    outs = [None] * len(jobs)
    running = []
    i = 0
    while i < len(jobs) or running:
        while i < len(jobs) and len(running) < n:
            running.append((i, jobs[i]()))
            i += 1
        still = []
        for k, p in running:
            if p.poll() is None:
                still.append((k, p))
            else:
                outs[k] = (p.returncode, p.stdout.read() if p.stdout else "")
        running = still
        if running:
            time.sleep(0.02)
    return outs


# ---------------------------------------------------------------- known findings
def load_known():
    p = os.path.join(VERIF, "known_findings.jsonl")
    out = []
    if os.path.exists(p):
        for l in open(p):
            l = l.strip()
            if l and not l.startswith("#"):
                out.append(json.loads(l))
    return out


# ---------------------------------------------------------------- evidence / reporting
def write_evidence(prop, ev):
    os.makedirs(os.path.join(VERIF, "evidence"), exist_ok=True)
    p = os.path.join(VERIF, "evidence", prop + ".json")
    tmp = p + ".tmp"
    json.dump(ev, open(tmp, "w"), indent=1, sort_keys=True)
    os.replace(tmp, p)


def write_replay(prop, name, data):
    d = os.path.join(VERIF, "replays")
    os.makedirs(d, exist_ok=True)
    p = os.path.join(d, f"{prop}-{name}.json")
    json.dump(data, open(p, "w"), indent=1)
    return os.path.relpath(p, VERIF)
