#!/bin/bash
# coverage.sh : which lines / regions of /repo's contracts do the quick-tier histories of all properties execute?
# Not part of any registered check: a diagnostic for the generators (uncovered code is where a seeded change is missed).
# Builds the harness with the nightly toolchain and -C instrument-coverage in a scratch directory, runs every quick
# shard of every property once, merges the profiles and prints the per-file summary plus the uncovered lines of the
# contract sources.  Scratch (build output, profiles) lives under $SCRATCH and is removed at the end.
set -eu
SCRATCH=${SCRATCH:-/tmp/mp_cov}
B=$(dirname "$(rustc +nightly --print target-libdir)")/bin
mkdir -p "$SCRATCH/prof"
export LLVM_PROFILE_FILE="$SCRATCH/prof/build-%p-%m.profraw"
(cd /verif/harness && CARGO_NET_OFFLINE=true RUSTFLAGS="-C instrument-coverage" CARGO_TARGET_DIR="$SCRATCH/target" cargo +nightly build --release --offline 2>&1 | tail -1)
rm -f "$SCRATCH"/prof/*.profraw
python3 - "$SCRATCH" <<'PY'
import sys, os, subprocess, concurrent.futures as cf
sys.path.insert(0, "/verif/tools")
import props
scratch = sys.argv[1]
jobs, seen = [], set()
for pid, spec in props.SPECS.items():
    k = 0
    for fam in spec.families:
        for extra in fam.shards("quick"):
            key = (fam.name, tuple(extra), 1000 + k)
            if key not in seen:
                seen.add(key); jobs.append((fam.name, 1000 + k, list(extra)))
            k += 1
def run(j):
    i, (fam, s, extra) = j
    env = dict(os.environ, LLVM_PROFILE_FILE=f"{scratch}/prof/p{i}.profraw")
    return subprocess.run([f"{scratch}/target/release/mp_harness", fam, "/dev/null", str(s), "quick"] + extra, env=env, capture_output=True).returncode
with cf.ThreadPoolExecutor(8) as ex:
    rcs = list(ex.map(run, enumerate(jobs)))
print(len(jobs), "shards,", sum(1 for r in rcs if r), "failed")
PY
"$B/llvm-profdata" merge -sparse "$SCRATCH"/prof/*.profraw -o "$SCRATCH/all.profdata"
SRC=$(ls /repo/contracts/*/src/*.rs /repo/packages/*/src/*.rs | grep -v testing)
"$B/llvm-cov" report "$SCRATCH/target/release/mp_harness" -instr-profile="$SCRATCH/all.profdata" $SRC 2>/dev/null | awk 'NR>2{printf "%-58s regions %5s missed %4s  lines %5s missed %4s (%s)\n",$1,$2,$3,$8,$9,$10}'
for f in $SRC; do
  "$B/llvm-cov" show "$SCRATCH/target/release/mp_harness" -instr-profile="$SCRATCH/all.profdata" "$f" 2>/dev/null | grep -E "^ +[0-9]+\| +0\|" | sed "s|^|${f#/repo/}: |" | cut -c1-200
done
rm -rf "$SCRATCH"
find /repo /verif -name "*.profraw" -delete
