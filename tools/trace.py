"""Parser for world traces written by the harness (families engine, vamm, auth, twin, faults, ...)."""


def ival(s):
    try:
        return int(s)
    except Exception:
        return None


class Step:
    __slots__ = ("n", "text", "toks", "ok", "submsgs", "unchanged", "obs", "fault", "notes", "pre")

    def __init__(self):
        self.n = 0
        self.text = ""
        self.toks = []
        self.ok = None
        self.submsgs = None
        self.unchanged = None
        self.obs = {}
        self.fault = None
        self.notes = {}
        self.pre = None  # obs of the previous step

    @property
    def kind(self):
        return self.toks[0] if self.toks else ""

    def sender(self):
        if self.kind in ("eng", "vamm", "if", "fp", "feed", "tok"):
            return int(self.toks[1])
        return None

    def verb(self):
        k = self.kind
        if k == "eng":
            return self.toks[3]
        if k == "vamm":
            return self.toks[3]
        if k in ("if", "fp", "feed", "tok"):
            return self.toks[2]
        return k


class History:
    def __init__(self, label):
        self.label = label
        self.deploy = {}
        self.vamms = {}
        self.accounts = []
        self.steps = []
        self.raw_head = []

    def case(self, upto):
        """replayable prefix: deployment lines + ops (with fault annotations) up to step index `upto`"""
        out = list(self.raw_head)
        for s in self.steps[: upto + 1]:
            if s.fault is not None:
                out.append(f"F {s.fault}")
            out.append(f"OP {s.n} {s.text}")
        return out


def parse(path):
    h = None
    cur = None
    pending_fault = None
    pending_notes = {}
    prev_obs = None
    with open(path) as f:
        for line in f:
            line = line.rstrip("\n")
            if not line:
                continue
            tag, _, rest = line.partition(" ")
            if tag == "S":
                if cur is not None:
                    for tok in rest.split():
                        k, _, v = tok.partition("=")
                        cur.obs[k] = v
            elif tag == "OP":
                if cur is not None:
                    prev_obs = cur.obs
                cur = Step()
                n, _, text = rest.partition(" ")
                cur.n = int(n)
                cur.text = text
                cur.toks = text.split()
                cur.fault = pending_fault
                cur.notes = pending_notes
                cur.pre = prev_obs
                pending_fault = None
                pending_notes = {}
                h.steps.append(cur)
            elif tag == "R":
                t = rest.split()
                cur.ok = t[0] == "ok"
                for x in t[1:]:
                    k, _, v = x.partition("=")
                    if k == "submsgs":
                        cur.submsgs = int(v)
            elif tag == "X":
                k, _, v = rest.partition("=")
                if k == "why":
                    cur.notes["why"] = v
                else:
                    cur.unchanged = v == "1"
            elif tag == "F":
                pending_fault = int(rest.split()[0])
            elif tag == "A":
                for tok in rest.split():
                    k, _, v = tok.partition("=")
                    pending_notes[k] = v
            elif tag == "HISTORY":
                if h is not None:
                    yield h
                h = History(rest)
                cur = None
                prev_obs = None
            elif tag == "DEPLOY":
                h.raw_head.append(line)
                for tok in rest.split():
                    k, _, v = tok.partition("=")
                    h.deploy[k] = int(v)
            elif tag == "VAMM":
                h.raw_head.append(line)
                t = rest.split()
                d = {}
                for tok in t[1:]:
                    k, _, v = tok.partition("=")
                    d[k] = int(v)
                h.vamms[int(t[0])] = d
            elif tag == "ACCOUNTS":
                h.raw_head.append(line)
                h.accounts = [int(x) for x in rest.split()]
            elif tag == "END":
                pass
    if h is not None:
        yield h


def tdiv(a, b):
    """truncating division (Rust Integer `/`)"""
    q = abs(a) // abs(b)
    return q if (a < 0) == (b < 0) else -q
