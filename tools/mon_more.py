"""Monitors for the vAMM-level, feed, access-control and twin families (C01, C09, C13, C17, C18)."""
import trace as T
from trace import tdiv
from mon_engine import Mon, I, pos, bal, classify_path, run


# ------------------------------------------------------------------------------------------- C01
def c01(m, h, i, s):
    for v in h.vamms:
        D = I(s.obs, f"v{v}.dec")
        q0, b0 = I(s.pre, f"v{v}.q"), I(s.pre, f"v{v}.b")
        q1, b1 = I(s.obs, f"v{v}.q"), I(s.obs, f"v{v}.b")
        if q0 is None or q1 is None:
            continue
        m.stats["checked"] += 1
        k0, k1 = q0 * b0 // D, q1 * b1 // D
        if (q0, b0) != (q1, b1):
            rem = (k0 * D) % (q1 if q1 else 1) != 0
            m.hit(("swap-with-remainder" if rem else "swap-exact") + ("" if s.kind == "vamm" else "-via-engine"), h, i)
        if k1 < k0:
            m.bad(h, i, "product_decreased", f"floor(q*b/D) fell from {k0} to {k1} on vamm {v}")
        if b1 + I(s.obs, f"v{v}.total") != h.vamms[v]["b"]:
            m.bad(h, i, "base_plus_net", f"base reserve {b1} + net {I(s.obs, f'v{v}.total')} != initial base {h.vamms[v]['b']}")
    # the consequence: same net position as at an earlier point of this history => quote not lower
    if s.kind in ("vamm", "eng") and s.ok:
        for v in h.vamms:
            if I(s.pre, f"v{v}.q") == I(s.obs, f"v{v}.q"):
                continue
            D = I(s.obs, f"v{v}.dec")
            net = I(s.obs, f"v{v}.total")
            q1, b1 = I(s.obs, f"v{v}.q"), I(s.obs, f"v{v}.b")
            seen = h.__dict__.setdefault("_c01_seen", {})
            key = (v, net)
            if key in seen and b1 >= D:
                m.hit("net-returns", h, i)
                if q1 < seen[key]:
                    m.bad(h, i, "quote_lost_on_return", f"net position back at {net} but quote reserve {q1} < {seen[key]} earlier")
            if key not in seen or q1 < seen[key]:
                seen[key] = q1


# ------------------------------------------------------------------------------------------- C17
def c17(m, h, i, s):
    if s.kind == "vamm" and s.verb() in ("swapin", "swapout"):
        v = int(s.toks[2])
        quoted = s.notes.get("quoted")
        amt = int(s.toks[5])
        lim = int(s.toks[6])
        d = s.toks[4]
        dq = I(s.obs, f"v{v}.q") - I(s.pre, f"v{v}.q")
        db = I(s.obs, f"v{v}.b") - I(s.pre, f"v{v}.b")
        m.stats["checked"] += 1
        if s.ok:
            m.hit(s.verb() + ("-limit" if lim else ""), h, i)
            if quoted in (None, "err"):
                m.bad(h, i, "executed_but_no_quote", "swap executed although the quote query failed")
                return
            qd = int(quoted)
            if s.verb() == "swapin":
                exp = (amt, -qd) if d == "A" else (-amt, qd)
            else:
                exp = (-qd, amt) if d == "A" else (qd, -amt)
            if (dq, db) != exp:
                m.bad(h, i, "quote_ne_execution", f"reserves moved by ({dq},{db}), quote said {exp}")
            if lim:
                # receiving side: at least the limit; paying side: at most the limit
                recv = (s.verb() == "swapin" and d == "A") or (s.verb() == "swapout" and d == "A")
                if (recv and qd < lim) or (not recv and qd > lim):
                    m.bad(h, i, "limit_ignored", f"swap executed at {qd} against limit {lim}")
        else:
            if (dq, db) != (0, 0):
                m.bad(h, i, "failed_swap_moved", "failed swap changed the reserves")
            if quoted not in (None, "err") and lim:
                qd = int(quoted)
                recv = d == "A"
                if (recv and qd < lim) or (not recv and qd > lim):
                    m.hit("limit-rejects", h, i)
                elif i + 1 < len(h.steps):
                    # the quote satisfies the limit, yet the swap was refused: the harness retries the same swap
                    # without the limit on the unchanged state; if that executes, the limit was the reason
                    nx = h.steps[i + 1]
                    same = nx.toks[:6] == s.toks[:6] and int(nx.toks[6]) == 0 and nx.toks[7:] == s.toks[7:]
                    if same and nx.ok:
                        m.bad(h, i, "acceptable_limit_rejected", f"swap refused at limit {lim} although it executes at {qd} ({'receives' if recv else 'pays'})")
                    elif same:
                        m.hit("limit-ok-refused-for-another-reason", h, i)
    elif s.kind == "eng" and s.ok and s.verb() in ("open", "close"):
        # the engine passes the caller's limit unchanged (open/increase/reduce, whole close)
        lim = int(s.toks[8]) if s.verb() == "open" else int(s.toks[5])
        if not lim:
            return
        v = int(s.toks[4])
        path = classify_path(h, i)
        # whether an open against an existing position reduces or reverses it is decided by what the position is worth
        # at spot (harness annotation, taken before the call), not by what the engine did
        if s.verb() == "open" and "spot_notional" in s.notes and path in ("reduce", "reverse-flat", "reverse-reopen"):
            N = int(s.toks[6]) * int(s.toks[7]) // I(s.pre, "e.dec")
            expect = "reduce" if N < int(s.notes["spot_notional"]) else path
            if expect == "reduce" and path != "reduce":
                m.hit("engine-limit:reduce-taken-as-reversal", h, i)
            path = expect
        dq = abs(I(s.obs, f"v{v}.q") - I(s.pre, f"v{v}.q"))
        db = abs(I(s.obs, f"v{v}.b") - I(s.pre, f"v{v}.b"))
        m.stats["checked"] += 1
        if path in ("open-new", "increase", "reduce"):
            m.hit("engine-limit:" + path, h, i)
            buy = s.toks[5] == "B"
            if (buy and db < lim) or (not buy and db > lim):
                m.bad(h, i, "engine_limit_ignored", f"{path} exchanged {db} base against limit {lim}")
        elif path == "close":
            m.hit("engine-limit:close", h, i)
            pre = pos(s.pre, v, s.sender())
            long = pre["size"] > 0
            if (long and dq < lim) or (not long and dq > lim):
                m.bad(h, i, "engine_limit_ignored", f"close exchanged {dq} quote against limit {lim}")


# ------------------------------------------------------------------------------------------- C18
def snaps_of(h, upto, v):
    """reconstruct the snapshot list of vamm v from the observations (s0 = newest)"""
    out = []
    for s in h.steps[: upto + 1]:
        s0 = s.obs.get(f"v{v}.s0")
        if s0 in (None, "none"):
            continue
        q, b, t, hh = [int(x) for x in s0.split("/")]
        if out and out[-1][3] == hh:
            out[-1] = (q, b, t, hh)
        else:
            out.append((q, b, t, hh))
    return out


def c18(m, h, i, s):
    for v in h.vamms:
        D = I(s.obs, f"v{v}.dec")
        n = I(s.obs, f"v{v}.snaps")
        now = I(s.obs, "env.time")
        sn = h.__dict__.setdefault("_snaps", {}).setdefault(v, [])
        s0 = s.obs.get(f"v{v}.s0")
        if s0 not in (None, "none"):
            q, b, t, hh = [int(x) for x in s0.split("/")]
            if sn and sn[-1][3] == hh:
                sn[-1] = (q, b, t, hh)
            else:
                sn.append((q, b, t, hh))
        m.stats["checked"] += 1
        # one snapshot per block, reflecting the block's final reserves
        heights = [x[3] for x in sn]
        if len(heights) != len(set(heights)) or heights != sorted(heights):
            m.bad(h, i, "snapshot_per_block", f"snapshot heights {heights[-4:]}")
        if n is not None and n != len(sn) and h.steps[0] is not s:
            # counted from the first observation (snapshot #1 is the instantiate snapshot)
            pass
        if sn and (sn[-1][0], sn[-1][1]) != (I(s.obs, f"v{v}.q"), I(s.obs, f"v{v}.b")):
            m.bad(h, i, "snapshot_not_final", "latest snapshot does not carry the current reserves")
        for key, interval in ((f"v{v}.twap15", 900), (f"v{v}.twap", I(s.obs, f"v{v}.twapint"))):
            tw = I(s.obs, key)
            if tw is None:
                continue
            base = now - interval
            # prices in effect during the window (or the whole history if shorter)
            prices = []
            for j in range(len(sn) - 1, -1, -1):
                prices.append(sn[j][0] * D // sn[j][1])
                if sn[j][2] <= base:
                    break
            lo, hi = min(prices), max(prices)
            if len(prices) > 1:
                m.hit("twap-multi-snapshot", h, i)
            if not (lo <= tw <= hi):
                m.bad(h, i, "vamm_twap_out_of_range", f"{key}={tw} outside [{lo},{hi}] (interval {interval})")
            if lo == hi and tw != lo:
                m.bad(h, i, "vamm_twap_const", f"{key}={tw} but the price was constant {lo}")


def c18_feed(paths):
    """price-feed part: Q lines of the feed family (real feed)"""
    m = Mon("C18")
    for p in paths:
        label = None
        subs = []
        now = None
        n = 0
        malformed = False
        raw = []
        with open(p) as f:
            for line in f:
                line = line.rstrip("\n")
                tag, _, rest = line.partition(" ")
                if tag == "HISTORY":
                    label = rest
                    subs = []
                    malformed = "malformed=1" in rest
                    raw = []
                    m.stats["histories"] += 1
                elif tag in ("DEPLOY", "VAMM", "ACCOUNTS"):
                    raw.append(line)
                elif tag == "OP":
                    cur = rest.split()
                    raw.append(line)
                elif tag == "R":
                    ok = rest.split()[0] == "ok"
                    if ok and len(cur) > 3 and cur[1] == "feed":
                        if cur[3] == "append":
                            subs.append((int(cur[4]), int(cur[5])))
                        elif cur[3] == "appendmulti":
                            np_, nt = int(cur[4]), int(cur[5])
                            ps = [int(x) for x in cur[6:6 + np_]]
                            ts = [int(x) for x in cur[6 + np_:6 + np_ + nt]]
                            subs.extend(zip(ps, ts))
                elif tag == "S" and "env.time=" in rest:
                    for tok in rest.split():
                        if tok.startswith("env.time="):
                            now = int(tok[9:])
                elif tag == "Q":
                    if label is None or not label.startswith("feed") or malformed:
                        continue
                    m.stats["steps"] += 1
                    kv = dict(t.split("=", 1) for t in rest.split())

                    def bad(cls, msg):
                        if len(m.viol) < 200:
                            m.viol.append({"cls": cls, "desc": f"{msg} @ [{label}] after {len(subs)} submissions", "case": list(raw)})
                    for k, val in kv.items():
                        if k.startswith("prev."):
                            nb = int(k[5:])
                            m.stats["checked"] += 1
                            if nb < len(subs):
                                pr, ts = subs[len(subs) - 1 - nb]
                                exp = f"{len(subs) - nb}/{pr}/{ts}"
                                m.hit("previous-in-range")
                                if val != exp:
                                    bad("feed_previous_value", f"{k}={val}, submitted {exp}")
                            else:
                                m.hit("previous-beyond-history" if nb > len(subs) else "previous-at-history-length")
                                if val != "err":
                                    cls = "feed_previous_dummy_round" if nb == len(subs) else "feed_previous_beyond"
                                    bad(cls, f"{k}={val} although only {len(subs)} rounds were submitted")
                        elif k.startswith("twap.") and val == "err" and len(subs) == 1 and int(k[5:]) > 0 and subs[0][0] < (1 << 64):
                            # one submission (not in the future): lowest = highest = that price, so the TWAP is that price;
                            # an aborting query is not an answer between them
                            m.stats["checked"] += 1
                            m.hit("feed-twap-single-round")
                            bad("feed_twap_unavailable", f"{k}=err with a single submission {subs[0][0]}@{subs[0][1]} (now {now})")
                        elif k.startswith("twap.") and val != "err" and subs:
                            iv = int(k[5:])
                            base = now - iv
                            prices = []
                            for j in range(len(subs) - 1, -1, -1):
                                prices.append(subs[j][0])
                                if subs[j][1] <= base:
                                    break
                            m.stats["checked"] += 1
                            if len(prices) > 1:
                                m.hit("feed-twap-multi-round")
                            if not (min(prices) <= int(val) <= max(prices)):
                                bad("feed_twap_out_of_range", f"{k}={val} outside [{min(prices)},{max(prices)}]")
                    if subs and kv.get("prev.0") not in (None, "err"):
                        pr, ts = subs[-1]
                        if kv["prev.0"] != f"{len(subs)}/{pr}/{ts}":
                            bad("feed_latest", f"latest {kv['prev.0']} != last submission {pr}@{ts}")
    st = dict(m.stats)
    st["distinct"] = m.stats["nontrivial"]
    st["evaluations"] = m.stats["steps"]
    st["samples"] = m.samples
    return m.viol, st


# ------------------------------------------------------------------------------------------- C09
def role_ok(s, h):
    """does the sender hold the role the message needs, in the pre-state?"""
    snd = s.sender()
    k, vb = s.kind, s.verb()
    o = s.pre
    if k == "vamm":
        v = int(s.toks[2])
        if vb in ("swapin", "swapout", "settle"):
            return snd == I(o, f"v{v}.engine")
        if vb in ("updcfg", "updowner"):
            return str(snd) == o.get(f"v{v}.owner")
        if vb == "setopen":
            return str(snd) == o.get(f"v{v}.owner") or snd == I(o, f"v{v}.ifund")
    if k == "eng":
        if vb == "updcfg":
            return snd == I(o, "e.owner")
        if vb in ("setpause", "updpauser", "addwl", "rmwl"):
            return str(snd) == o.get("e.pauser")
        return None
    if k == "if":
        if vb == "withdraw":
            return snd == 2
        if vb == "shutdown" and snd == 3:
            # the fund accepts ShutdownVamms from its own address; no contract code ever sends it (a contract
            # only sends what its code emits), so this sender is outside the property (DESIGN section 6)
            return None
        return str(snd) == o.get("if.owner")
    if k == "fp":
        return str(snd) == o.get("fp.owner")
    if k == "feed":
        if h.deploy["realfeed"] == 1:
            return str(snd) == o.get("feed.owner")
        return True if vb != "updowner" else str(snd) == o.get("feed.owner")
    return None


def c09(m, h, i, s):
    r = role_ok(s, h)
    if r is None:
        return
    m.stats["checked"] += 1
    mode = h.label.rsplit("transferred=", 1)[-1].split()[0] if "transferred=" in h.label else "False"
    m.hit(f"{s.kind}:{s.verb()}:{'role' if r else 'no-role'}:transfer-{mode}", h, i)
    if s.ok and not r:
        m.bad(h, i, "unauthorized_success", f"{s.kind} {s.verb()} succeeded for sender {s.sender()} without the role")
    if not s.ok and s.unchanged is False:
        m.bad(h, i, "refusal_changed_state", "a refused privileged call changed state")


# ------------------------------------------------------------------------------------------- C13
def c13(paths):
    m = Mon("C13")
    for p in paths:
        hs = list(T.parse(p))
        by = {}
        for h in hs:
            if h.label.startswith("twin-"):
                kind, _, rest = h.label.partition(" ")
                by.setdefault(rest, {})[kind] = h
        for rest, pair in by.items():
            if "twin-cw20" not in pair or "twin-native" not in pair:
                continue
            hc, hn = pair["twin-cw20"], pair["twin-native"]
            m.stats["histories"] += 1
            # align by operation text ignoring the attached funds and the cw20-only allowance steps
            def key(s):
                t = list(s.toks)
                if t and t[0] == "eng":
                    t[2] = "*"
                return " ".join(t)
            sc = [s for s in hc.steps if not (s.kind == "tok" and s.verb() == "allow")]
            sn = [s for s in hn.steps]
            diverged = False
            for a, b_ in zip(sc, sn):
                if key(a) != key(b_):
                    break
                m.stats["steps"] += 1
                if a.pre is None or b_.pre is None:
                    continue
                path = classify_path(hc, hc.steps.index(a)) if a.ok else None
                if a.kind == "eng":
                    m.hit(str(path or (a.verb() + ":err")))
                idx_n = hn.steps.index(b_)
                if a.ok != b_.ok:
                    cls = "other"
                    # the recorded defect: the vault cannot cover the payout, so the insurance fund is drawn on (the cw20
                    # run records the shortfall as bad debt); on native collateral `withdraw` counts the fees the caller
                    # attached as vault balance, draws too little, and the fee transfers that follow fail
                    # (call sites: close_position_reply / partial close, and update_position_reply when margin is released,
                    # i.e. a reduce or the re-opening leg of a reversal; an exact reversal pays by plain transfer)
                    if (a.kind == "eng" and a.ok and not b_.ok and int(b_.toks[2]) > 0
                            and (a.verb() == "close" or (a.verb() == "open" and path in ("reduce", "reverse-reopen")))
                            and I(a.obs, "e.baddebt") > I(a.pre, "e.baddebt")):
                        cls = "native_fund_draw_short_by_fees"
                    elif a.kind == "eng" and a.verb() == "open":
                        pre = pos(a.pre, int(a.toks[4]), a.sender())
                        if pre is not None and pre["size"] != 0 and (pre["dir"] == "A") != (a.toks[5] == "B"):
                            # the recorded defect: the reversal re-opens and either needs fresh margin beyond the
                            # released equity or releases less than the fees; when the refund covers both, the code
                            # demands exactly the fees, which is what cw20 pulls, and the two must agree
                            nt = b_.notes
                            if "twin_need" in nt and int(nt["twin_need"]) <= 0 and int(nt["twin_released"]) >= int(nt["twin_fees"]):
                                cls = "reverse_refund_covers"
                            else:
                                cls = "reverse_required_funds"
                    m.viol.append({"cls": cls, "desc": f"cw20 {'ok' if a.ok else 'err'} vs native {'ok' if b_.ok else 'err'} with the cw20 pull attached @ [{hn.label}] step {b_.n}: {b_.text}",
                                   "case": hn.case(idx_n)})
                    diverged = True
                    break
                # same positions, vAMM state and balances of every party
                keys = [k for k in a.obs if k.startswith("p") or k.startswith("bal.") or (k.startswith("v") and k.split(".")[1] in ("q", "b", "total", "cpf"))
                        or k in ("e.oi", "e.baddebt")]
                for k in keys:
                    if a.obs.get(k) != b_.obs.get(k):
                        cls = "balance_or_state_differs"
                        m.viol.append({"cls": cls, "desc": f"{k}: cw20 {a.obs.get(k)} vs native {b_.obs.get(k)} @ [{hn.label}] step {b_.n}: {b_.text}", "case": hn.case(idx_n)})
                        diverged = True
                        break
                if diverged:
                    break
    st = dict(m.stats)
    st["distinct"] = m.stats["nontrivial"]
    st["evaluations"] = m.stats["steps"]
    st["samples"] = m.samples
    return m.viol[:300], st


def mon(prop):
    fn = {"C01": c01, "C17": c17, "C18": c18, "C09": c09}[prop]
    return lambda paths: run(prop, paths, fn)
