"""Per-property specifications and the generic check pipeline."""
import json
import os
import time
from concurrent.futures import ThreadPoolExecutor

import vlib
import mon_integer

TRUSTED_BASE = [
    "Coq 8.16.1 kernel (coqc, full .vo build; vm_compute used in witness lemmas; no native_compute)",
    "Print Assumptions of every property theorem: Closed under the global context (no axioms)",
    "hand-written Gallina model of the contracts (coq/model), tied to /repo by the lock-step correspondence run on every check",
    "extraction: ExtrOcamlBasic only (bool, option, unit, list, prod, sumbool, sumor); no Extract Constant; OCaml 4.13.1; hand-written driver.ml for I/O",
    "Rust harness (harness/), cw-multi-test 0.13.4 as execution environment of the real contracts, catch_unwind for panics",
]


class Family:
    def __init__(self, name, shards_quick=1, shards_thorough=1, extra=()):
        self.name = name
        self.shards_quick = shards_quick
        self.shards_thorough = shards_thorough
        self.extra = list(extra)


class Spec:
    def __init__(self, prop, families, monitor, rule, div_filter=None, design_ref="7", assumptions=()):
        self.prop = prop
        self.families = families
        self.monitor = monitor
        self.rule = rule
        self.div_filter = div_filter or (lambda line: True)
        self.assumptions = list(assumptions)


SPECS = {
    "C19": Spec(
        "C19",
        [Family("integer")],
        mon_integer.monitor,
        "every (sign, magnitude) pair of the boundary grid {0,1,2,7,10,2^64-1,2^64,2^64+1,2^127,2^127+1,2^128-2,2^128-1} "
        "under every operator, checked form, comparison, predicate, printer and parser (exhaustive), every value so produced fed back "
        "through predicates/printers, plus log-uniform random operands and a string stream; a case is distinct by (op, operands); "
        "non-trivial = binary operation or predicate on an operator-produced value",
        assumptions=["strings passed to from_str are ASCII (a multi-byte first character makes `&input[..1]` panic; not modelled)"],
    ),
}


def generate(spec, tier, seed):
    d = vlib.trace_dir(spec.prop)
    jobs, paths = [], []
    for fam in spec.families:
        n = fam.shards_thorough if tier == "thorough" else fam.shards_quick
        for i in range(n):
            path = os.path.join(d, f"{fam.name}-{seed}-{i}.trace")
            paths.append(path)
            s = seed * 1000 + i
            jobs.append(lambda fam=fam, path=path, s=s: vlib.run_harness(fam.name, path, s, tier, fam.extra))
    outs = vlib.parallel(jobs)
    for (rc, out), path in zip(outs, paths):
        if rc != 0:
            raise vlib.MachineryError(f"harness failed producing {path} (rc={rc}):\n{out[-2000:]}")
    return paths


def run_check(prop, tier, seed, replay=None):
    t0 = time.time()
    if prop not in SPECS:
        raise vlib.MachineryError("unknown or unclaimed property " + prop)
    spec = SPECS[prop]
    binfo = vlib.ensure_harness()
    vlib.ensure_model_binary()
    bad = vlib.forbidden_scan()
    if bad:
        raise vlib.MachineryError("forbidden tokens in the Coq development: " + "; ".join(bad[:10]))
    proof = vlib.check_props(prop)

    if replay:
        paths = replay_paths(spec, replay)
    else:
        paths = generate(spec, tier, seed)
    with ThreadPoolExecutor(16) as ex:
        corr = list(ex.map(vlib.run_model, paths))
    viol, stats = spec.monitor(paths)

    known = [k for k in vlib.load_known() if k["property"] == prop]
    known_cls = {k["class"]: k for k in known if k.get("status", "known") == "known"}
    lines_out = []
    unknown = [v for v in viol if v["cls"] not in known_cls]
    seen_known = {}
    for v in viol:
        if v["cls"] in known_cls:
            seen_known.setdefault(v["cls"], []).append(v)
    for cls, vs in seen_known.items():
        lines_out.append(f"KNOWN-FINDING: property={prop} {known_cls[cls]['what']} [{len(vs)} cases this run, e.g. {vs[0]['desc'][:160]}]")

    divs = []
    for c, p in zip(corr, paths):
        for dline in c["divs"]:
            if spec.div_filter(dline):
                divs.append({"trace": os.path.basename(p), "div": dline})
    ndiv_total = sum(c["div"] for c in corr)

    violations = 0
    if unknown:
        by_cls = {}
        for v in unknown:
            by_cls.setdefault(v["cls"], []).append(v)
        for cls, vs in list(by_cls.items())[:5]:
            rp = vlib.write_replay(prop, f"{cls}-seed{seed}", {
                "property": prop, "kind": "monitor", "class": cls, "what": vs[0]["desc"],
                "case": vs[0]["case"], "count": len(vs), "seed": seed, "tier": tier,
                "families": [f.name for f in spec.families],
                "replay_cmd": f"./check {prop} --replay <this file>"})
            lines_out.append(f"VIOLATION property={prop} replay={rp}")
            violations += 1
    elif proof["failed"] or divs:
        what = []
        if proof["failed"]:
            what.append({"theorems_no_longer_checked": proof["theorems"], "where": proof["failed"]["where"],
                         "log": proof["failed"]["log"]})
        if divs:
            what.append({"correspondence": f"corr:{prop}", "diverging": divs[:20], "total_divergences": len(divs)})
        rp = vlib.write_replay(prop, f"unproved-seed{seed}", {
            "property": prop, "kind": "no-failing-input-found", "broken": what, "seed": seed, "tier": tier,
            "note": "the model no longer describes the code (or a theorem no longer checks); the monitor found no concrete failing input"})
        lines_out.append(f"VIOLATION property={prop} replay={rp} no-failing-input-found")
        violations += 1

    total_eval = stats.get("evaluations", stats.get("lines", 0))
    ev = {
        "property_id": prop, "tier": tier, "seed": seed, "level": "proof",
        "coverage": {
            "obligations": proof["obligations"], "discharged": proof["discharged"],
            "checker_cmd": proof["checker_cmd"], "trusted_base": TRUSTED_BASE,
            "theorems": proof["theorems"], "print_assumptions": proof["assumptions"],
            "proof_failed": proof["failed"]["where"] if proof["failed"] else None,
            "evaluations": total_eval, "distinct_nontrivial": stats.get("distinct", 0),
            "rule": spec.rule, "samples": stats.get("samples", [])[:8] or ["(none)"],
            "correspondence": {"traces": len(paths), "lines_compared": sum(c["compared"] for c in corr),
                               "divergences_total": ndiv_total, "divergences_relevant": len(divs)},
            "distribution": {k: v for k, v in stats.items() if k not in ("samples",)},
            "monitor_violations": len(viol), "known_finding_cases": len(viol) - len(unknown),
            "harness_build": binfo,
        },
        "assumptions": spec.assumptions + [
            "SHA3 / address-pair position keys are injective", "block time and height are non-decreasing and < 2^63"],
        "wall_s": round(time.time() - t0, 2), "violations": violations,
    }
    vlib.write_evidence(prop, ev)
    for l in lines_out:
        print(l)
    print(f"{prop}: theorems {proof['discharged']}/{proof['obligations']}, compared {ev['coverage']['correspondence']['lines_compared']} "
          f"lines, {len(divs)} divergences, {len(viol)} monitor hits ({len(unknown)} unlisted), {ev['wall_s']}s")
    return 1 if violations else 0


def replay_paths(spec, replay):
    data = json.load(open(replay))
    d = vlib.trace_dir(spec.prop + "-replay")
    src = os.path.join(d, "input.ops")
    with open(src, "w") as f:
        for l in data.get("case", []):
            f.write(l + "\n")
    out = os.path.join(d, "replay.trace")
    p = vlib.run_harness("replay", out, 0, "quick", [src])
    p.wait()
    if p.returncode != 0:
        raise vlib.MachineryError("replay failed: " + p.stdout.read())
    return [out]
