"""Per-property specifications and the generic check pipeline."""
import json
import os
import re
import time
from concurrent.futures import ThreadPoolExecutor

import vlib
import mon_integer
import mon_engine
import mon_more

TRUSTED_BASE = [
    "Coq 8.16.1 kernel (coqc, full .vo build; vm_compute used in witness lemmas; no native_compute)",
    "Print Assumptions of every property theorem: Closed under the global context (no axioms)",
    "hand-written Gallina model of the contracts (coq/model), tied to /repo by the lock-step correspondence run on every check",
    "extraction: ExtrOcamlBasic only (bool, option, unit, list, prod, sumbool, sumor); no Extract Constant; OCaml 4.13.1; hand-written driver.ml for I/O",
    "Rust harness (harness/), cw-multi-test 0.13.4 as execution environment of the real contracts, catch_unwind for panics",
]


class Family:
    """one harness family; `shards(tier)` gives the extra argument lists, one per parallel shard"""
    def __init__(self, name, quick=None, thorough=None):
        self.name = name
        self.quick = quick or [[]]
        self.thorough = thorough or self.quick

    def shards(self, tier):
        return self.thorough if tier == "thorough" else self.quick


def eng(n, coll="-", feed="-", profile="general"):
    return [str(n), coll, feed, profile]


class Spec:
    def __init__(self, prop, families, monitor, rule, keys=None, assumptions=(), classify=None):
        self.prop = prop
        self.families = families
        self.monitor = monitor
        self.rule = rule
        self.keys = keys            # regex over observation keys whose divergence concerns this property
        self.assumptions = list(assumptions)

    def div_filter(self, line):
        if self.keys is None:
            return True
        m = re.search(r"model=\[([^\]=]*)", line)
        if not m:
            return True
        k = m.group(1).strip()
        if k.startswith("result") or k.startswith("no-model-key") or k.startswith("model:") or k.startswith("UNKNOWN"):
            return True
        return re.match(self.keys, k) is not None


ENGINE_RULE = ("structured random histories against generated deployments (cw20/native collateral, 6-12 decimals, mock/real feed, 1-2 vAMMs, "
               "ratios/fees/caps on boundary values) with boundary tuners (slippage limit at quoted amount +-1, leverage at exactly 1/initial ratio, "
               "maintenance ratio := observed margin ratio +-1, clock := next funding time +-1, oracle := spot x (1 +- 10%), withdraw := free collateral +-1) "
               "and a capped malformed stream; a case = one operation in its pre-state; non-trivial = the operation reached the reply path / guard the "
               "property talks about (counted per path in `distribution.paths`), distinct by (history, step)")

Q8 = lambda prof, n=30: [eng(n, "-", "-", prof)] * 1
def shards(k, n, coll="-", feed="-", prof="general"):
    return [eng(n, coll, feed, prof) for _ in range(k)]


def engine_spec(prop, keys, quick, thorough, assumptions=()):
    return Spec(prop, [Family("engine", quick, thorough)], mon_engine.monitor_for(prop), ENGINE_RULE, keys, assumptions)


def merged(*parts):
    """parts: (filename-prefix tuple, monitor); each monitor sees only the traces of its families"""
    def f(paths):
        viol, stats = [], {"paths": {}, "by_verb": {}, "samples": []}
        for prefixes, mon in parts:
            sel = [p for p in paths if os.path.basename(p).startswith(prefixes)]
            if not sel:
                continue
            v, st = mon(sel)
            viol.extend(v)
            for k, x in st.items():
                if isinstance(x, dict):
                    d = stats.setdefault(k, {})
                    for kk, vv in x.items():
                        d[kk] = d.get(kk, 0) + vv if isinstance(vv, int) else vv
                elif isinstance(x, list):
                    stats.setdefault(k, []).extend(x)
                elif isinstance(x, int):
                    stats[k] = stats.get(k, 0) + x
        return viol, stats
    return f


def fam(name, q, t):
    return Family(name, [[str(q)]], [[str(t)]] * 4)


SPECS = {
    "C19": Spec(
        "C19",
        [Family("integer")],
        mon_integer.monitor,
        "every (sign, magnitude) pair of the boundary grid {0,1,2,7,10,2^64-1,2^64,2^64+1,2^127,2^127+1,2^128-2,2^128-1} "
        "under every operator, checked form, comparison, predicate, printer and parser (exhaustive), every value so produced fed back "
        "through predicates/printers, plus log-uniform random operands and a string stream; a case is distinct by (op, operands); "
        "non-trivial = binary operation or predicate on an operator-produced value",
        assumptions=["strings passed to from_str are ASCII (a multi-byte first character makes `&input[..1]` panic; not modelled)"],
    ),
    "C02": engine_spec("C02", r"(p\d+\.\d+(\.size|\.dir)?$|v\d+\.total)",
                       shards(8, 40) + shards(4, 40, prof="liq") + shards(4, 40, prof="pcf"), shards(10, 150) + shards(3, 150, prof="liq") + shards(3, 150, prof="pcf")),
    "C03": engine_spec("C03", r"bal\.", shards(8, 40, "cw20") + shards(8, 40, "native"), shards(8, 150, "cw20") + shards(8, 150, "native")),
    "C04": engine_spec("C04", r"(bal\.|p\d+\.\d+|e\.baddebt|v\d+\.(q|b|cpf))",
                       shards(8, 40) + shards(4, 40, prof="funding") + shards(4, 40, prof="pcf"), shards(10, 150) + shards(3, 150, prof="funding") + shards(3, 150, prof="pcf")),
    "C05": engine_spec("C05", r"(bal\.|p\d+\.\d+|e\.(init|maint))", shards(16, 40), shards(16, 150)),
    "C06": engine_spec("C06", r"(bal\.|p\d+\.\d+|e\.(maint|liqfee|plr|baddebt)|v\d+\.(overspread|q|b))",
                       shards(16, 40, prof="liq"), shards(16, 150, prof="liq")),
    "C07": engine_spec("C07", r"(p\d+\.\d+|e\.|v\d+\.(overspread|uprice|open)|if\.)",
                       shards(8, 40, prof="liq") + shards(6, 40, prof="drain") + shards(2, 20, "-", "real", "liq"),
                       shards(12, 150, prof="liq") + shards(6, 150, prof="drain") + shards(4, 100, "-", "real", "liq")),
    "C10": Spec("C10", [Family("engine", shards(10, 40), shards(14, 150)), fam("forge", 24, 80)],
                merged((("engine", "forge"), mon_engine.monitor_for("C10"))),
                ENGINE_RULE + "; plus the key-collision scenario: position keys are sha3(vamm || trader) without separator, an account whose address is a suffix of a trader's address "
                "calls every position-touching entry point naming a forged vAMM string that completes the collision",
                r"p\d+\.\d+"),
    "C11": engine_spec("C11", r"(v\d+\.(cpf|nextfund|twap|utwap|total|frate|ncpf)|bal\.(2|3)$|p\d+\.\d+\.(lupf|margin))",
                       shards(10, 40, prof="funding") + shards(6, 40, prof="pcf"), shards(12, 150, prof="funding") + shards(4, 150, prof="pcf")),
    "C12": engine_spec("C12", r"(bal\.|v\d+\.(toll|spread))", shards(12, 40) + shards(4, 40, prof="reduce"), shards(16, 150) + shards(4, 150, prof="reduce")),
    "C16": engine_spec("C16", r"(v\d+\.lrb|p\d+\.\d+\.block|p\d+\.\d+$)", shards(6, 40, prof="liq") + shards(10, 40, prof="c16"), shards(6, 150, prof="liq") + shards(10, 150, prof="c16")),
    "C20": engine_spec("C20", r"(e\.(init|maint|plr|liqfee|oi|wl)|v\d+\.(toll|spread|fluct|twapint|holdcap|oicap|dec)|if\.|p\d+\.\d+\.size)",
                       shards(16, 40, prof="caps"), shards(16, 150, prof="caps")),
    "C15": engine_spec("C15", r"(v\d+\.(q|b|spot|s0|s1|fluct|snaps)|p\d+\.\d+(\.size)?$|e\.plr)",
                       shards(10, 40, prof="fluct") + shards(6, 40, prof="pcf"), shards(12, 150, prof="fluct") + shards(4, 150, prof="pcf")),
    "C14": Spec("C14", [Family("engine", shards(8, 40, prof="pause"), shards(12, 150, prof="pause")), fam("c14", 6, 30)],
                merged((("engine", "c14"), mon_engine.monitor_for("C14"))),
                ENGINE_RULE + "; plus the exhaustive matrix paused x open x registered x every engine operation and shutdown from every subset of already-closed vAMMs (1-3 registered)",
                r"(e\.pause|v\d+\.open|if\.)"),
    "C08": Spec("C08", [Family("engine", shards(6, 40) + shards(3, 40, prof="fluct") + shards(3, 40, prof="pcf"), shards(12, 150) + shards(4, 150, prof="fluct") + shards(4, 150, prof="pcf")), fam("faults", 10, 60)],
                merged((("engine", "faults"), mon_engine.monitor_for("C08"))),
                ENGINE_RULE + "; plus fault injection: for every engine operation of a history the operation is first attempted with a failure injected at sub-message 0, 1, 2, ... of its "
                "message tree (vAMM swap, token transfers, insurance-fund withdrawal and its inner transfer) until the index passes the tree; raw storage of every contract and all balances "
                "are fingerprinted before/after every failed call",
                r"(result|e\.(tmpswap|sentfunds|tmpliq)|bal\.|p\d+\.|v\d+\.(q|b|total))"),
    "C09": Spec("C09", [fam("auth", 4, 24)], mon_more.mon("C09"),
                "exhaustive matrix: 24 privileged messages of the five contracts x 12 senders (owner, new owner, stranger, four traders, engine, insurance fund, vAMM, fee pool, liquidator) "
                "x five role layouts (initial; all roles moved to one account; every role held by a different account; only the pauser moved; only the engine owner moved), on generated deployments (real and mock feed); refusal must leave the storage/balance fingerprint unchanged",
                r"(result|e\.(owner|pauser|pause|wl|plr)|v\d+\.(owner|open|holdcap)|if\.|fp\.|feed\.)"),
    "C13": Spec("C13", [Family("twin", [["12"]] * 8, [["60"]] * 16)], mon_more.c13,
                "twin deployments (cw20 / native, equal decimals and parameters, with and without fees) driven through the same history; each native call attaches exactly what the cw20 "
                "deployment pulls from the caller; compared step by step: ok/err, every position, vAMM state, every balance",
                r"(result|bal\.|p\d+\.|v\d+\.(q|b|total)|e\.(oi|baddebt|sentfunds))"),
    "C01": Spec("C01", [fam("vamm", 30, 200), Family("engine", shards(3, 40), shards(8, 150))],
                merged((("vamm", "engine"), mon_more.mon("C01"))),
                "vAMM-level histories (a plain account plays the engine): reserves from one unit to 2^100, amounts built to leave division remainders, both swap kinds and directions, "
                "interleaved with funding, config and block changes; plus engine-driven histories; non-trivial = a swap that moved the reserves",
                r"(result|v\d+\.(q|b|total))"),
    "C17": Spec("C17", [fam("vamm", 30, 200), Family("engine", shards(5, 40) + shards(5, 40, prof="reduce"), shards(8, 150) + shards(6, 150, prof="reduce"))],
                merged((("vamm", "engine"), mon_more.mon("C17"))),
                "vAMM-level swaps preceded by the corresponding amount query, limit tuner at quoted amount -1 / = / +1, both kinds and directions; engine OpenPosition/ClosePosition with "
                "limits at the quoted amount +-1; opposite-side opens with a limit sized around the position's spot and TWAP notional right after a price move",
                r"(result|v\d+\.(q|b|total))"),
    "C18": Spec("C18", [fam("vamm", 30, 200), fam("feed", 40, 300)],
                merged((("vamm",), mon_more.mon("C18")), (("feed",), mon_more.c18_feed)),
                "vAMM histories with several trades per block and gaps between blocks, TWAP over 15 min and the configured interval checked against the snapshot list reconstructed "
                "from observations; price-feed histories (non-decreasing, non-future timestamps; malformed stream compared model-vs-impl only) with latest / n-rounds-back (n around the "
                "number of rounds) / TWAP over 7 intervals",
                r"(result|v\d+\.(twap|twap15|s0|s1|snaps|spot)|feed\.|prev\.|twap\.)"),
}


def generate(spec, tier, seed):
    d = vlib.trace_dir(spec.prop)
    jobs, paths = [], []
    k = 0
    for fam in spec.families:
        for i, extra in enumerate(fam.shards(tier)):
            path = os.path.join(d, f"{fam.name}-{seed}-{k}.trace")
            paths.append(path)
            s = seed * 1000 + k
            k += 1
            jobs.append(lambda fam=fam, path=path, s=s, extra=extra: vlib.run_harness(fam.name, path, s, tier, extra))
    outs = vlib.parallel(jobs)
    good, aborted = [], []
    for (rc, out), path in zip(outs, paths):
        if rc == 101:
            # the harness itself panicked while driving the contracts (it does not on the tree it was written against):
            # the implementation answered in a way the driver's own bookkeeping cannot represent.  The shard's trace is
            # incomplete and is left out; the check reports it (see run_check)
            aborted.append({"trace": os.path.basename(path), "rc": rc, "output": out[-600:]})
        elif rc != 0:
            raise vlib.MachineryError(f"harness failed producing {path} (rc={rc}):\n{out[-2000:]}")
        else:
            good.append(path)
    generate.aborted = aborted
    return good


def run_check(prop, tier, seed, replay=None):
    t0 = time.time()
    if prop not in SPECS:
        raise vlib.MachineryError("unknown or unclaimed property " + prop)
    spec = SPECS[prop]
    binfo = vlib.ensure_harness()
    vlib.ensure_model_binary()
    bad = vlib.forbidden_scan()
    if bad:
        raise vlib.MachineryError("forbidden tokens in the Coq development: " + "; ".join(bad[:10]))
    golden = vlib.golden_check()
    proof = vlib.check_props(prop)
    # thorough tier: the compiled theorems and everything they depend on are re-checked by coqchk
    chk = vlib.coqchk_props(prop) if (tier == "thorough" and not replay and not proof["failed"]) else None

    if replay:
        paths = replay_paths(spec, replay)
    else:
        paths = corpus_paths(spec) + generate(spec, tier, seed)   # minimised earlier failures run first
    aborted = [] if replay else getattr(generate, "aborted", []) + getattr(generate, "aborted_corpus", [])
    with ThreadPoolExecutor(16) as ex:
        corr = list(ex.map(vlib.run_model, paths))
    viol, stats = spec.monitor(paths)

    known = [k for k in vlib.load_known() if k["property"] == prop]
    known_cls = {k["class"]: k for k in known if k.get("status", "known") == "known"}
    lines_out = []
    unknown = [v for v in viol if v["cls"] not in known_cls]
    seen_known = {}
    for v in viol:
        if v["cls"] in known_cls:
            seen_known.setdefault(v["cls"], []).append(v)
    for cls, vs in seen_known.items():
        lines_out.append(f"KNOWN-FINDING: property={prop} {known_cls[cls]['what']} [{len(vs)} cases this run, e.g. {vs[0]['desc'][:160]}]")

    divs = []
    for c, p in zip(corr, paths):
        for dline in c["divs"]:
            if spec.div_filter(dline):
                divs.append({"trace": os.path.basename(p), "div": dline})
    ndiv_total = sum(c["div"] for c in corr)

    violations = 0
    if unknown:
        by_cls = {}
        for v in unknown:
            by_cls.setdefault(v["cls"], []).append(v)
        for cls, vs in list(by_cls.items())[:5]:
            rp = vlib.write_replay(prop, f"{cls}-seed{seed}", {
                "property": prop, "kind": "monitor", "class": cls, "what": vs[0]["desc"],
                "case": vs[0]["case"], "count": len(vs), "seed": seed, "tier": tier,
                "families": [f.name for f in spec.families],
                "replay_cmd": f"./check {prop} --replay <this file>"})
            lines_out.append(f"VIOLATION property={prop} replay={rp}")
            violations += 1
    elif proof["failed"] or divs or aborted:
        what = []
        if aborted:
            what.append({"correspondence": f"corr:{prop}", "harness_aborted_on": aborted,
                         "meaning": "the driver panicked on an answer of the implementation it cannot represent (e.g. a stored value outside its documented range)"})
        if proof["failed"]:
            what.append({"theorems_no_longer_checked": proof["theorems"], "where": proof["failed"]["where"],
                         "log": proof["failed"]["log"]})
        if divs:
            what.append({"correspondence": f"corr:{prop}", "diverging": divs[:20], "total_divergences": len(divs)})
        rp = vlib.write_replay(prop, f"unproved-seed{seed}", {
            "property": prop, "kind": "no-failing-input-found", "broken": what, "seed": seed, "tier": tier,
            "note": "the model no longer describes the code (or a theorem no longer checks); the monitor found no concrete failing input"})
        lines_out.append(f"VIOLATION property={prop} replay={rp} no-failing-input-found")
        violations += 1

    total_eval = stats.get("evaluations", stats.get("lines", 0))
    ev = {
        "property_id": prop, "tier": tier, "seed": seed, "level": "proof",
        "coverage": {
            "obligations": proof["obligations"], "discharged": proof["discharged"],
            "checker_cmd": proof["checker_cmd"], "trusted_base": TRUSTED_BASE,
            "theorems": proof["theorems"], "print_assumptions": proof["assumptions"],
            "proof_failed": proof["failed"]["where"] if proof["failed"] else None,
            "extraction_golden": golden,
            "coqchk": chk if chk else "not run in this tier (thorough tier runs coqchk -o on the property's compiled theorems)",
            "evaluations": total_eval, "distinct_nontrivial": stats.get("distinct", 0),
            "rule": spec.rule, "samples": stats.get("samples", [])[:8] or ["(none)"],
            "correspondence": {"traces": len(paths), "lines_compared": sum(c["compared"] for c in corr),
                               "divergences_total": ndiv_total, "divergences_relevant": len(divs)},
            "distribution": {k: v for k, v in stats.items() if k not in ("samples",)},
            "monitor_violations": len(viol), "known_finding_cases": len(viol) - len(unknown),
            "harness_build": binfo,
        },
        "assumptions": spec.assumptions + [
            "SHA3 / address-pair position keys are injective", "block time and height are non-decreasing and < 2^63"],
        "wall_s": round(time.time() - t0, 2), "violations": violations,
    }
    vlib.write_evidence(prop, ev)
    for l in lines_out:
        print(l)
    print(f"{prop}: theorems {proof['discharged']}/{proof['obligations']}, compared {ev['coverage']['correspondence']['lines_compared']} "
          f"lines, {len(divs)} divergences, {len(viol)} monitor hits ({len(unknown)} unlisted), {ev['wall_s']}s")
    return 1 if violations else 0


def corpus_paths(spec):
    """replay every minimised case kept under corpus/<property>/ against the current tree"""
    cdir = os.path.join(vlib.VERIF, "corpus", spec.prop)
    if not os.path.isdir(cdir):
        return []
    d = vlib.trace_dir(spec.prop + "-corpus")
    outs = []
    for name in sorted(os.listdir(cdir)):
        if not name.endswith(".case"):
            continue
        out = os.path.join(d, name[:-5] + ".trace")
        p = vlib.run_harness("replay", out, 0, "quick", [os.path.join(cdir, name)])
        p.wait()
        if p.returncode == 101:
            # the driver panicked on this tree while replaying a kept case: reported like an aborted shard
            generate.aborted_corpus = getattr(generate, "aborted_corpus", []) + [{"trace": name, "rc": 101, "output": p.stdout.read()[-600:]}]
            continue
        if p.returncode != 0:
            raise vlib.MachineryError("corpus replay failed: " + name + ": " + p.stdout.read())
        outs.append(out)
    return outs


def replay_paths(spec, replay):
    data = json.load(open(replay))
    d = vlib.trace_dir(spec.prop + "-replay")
    src = os.path.join(d, "input.ops")
    with open(src, "w") as f:
        for l in data.get("case", []):
            f.write(l + "\n")
    out = os.path.join(d, "replay.trace")
    p = vlib.run_harness("replay", out, 0, "quick", [src])
    p.wait()
    if p.returncode != 0:
        raise vlib.MachineryError("replay failed: " + p.stdout.read())
    return [out]
