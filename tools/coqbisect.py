#!/usr/bin/env python3
"""coqbisect.py FILE [timeout] [start]: compile growing prefixes (lemma by lemma) to find the first failing / hanging proof."""
import re, subprocess, sys
f = sys.argv[1]; to = int(sys.argv[2]) if len(sys.argv) > 2 else 60
s = open(f).read()
ends = [m.end() for m in re.finditer(r"\nQed\.\n", s)]
start = int(sys.argv[3]) if len(sys.argv) > 3 else 0
for e in ends[start:]:
    open('/tmp/bisect.v', 'w').write(s[:e])
    name = re.findall(r"(?:Lemma|Theorem|Example) (\w+)", s[:e])[-1]
    try:
        r = subprocess.run(['coqc', '-Q', 'model', 'MP.Model', '-Q', 'proofs', 'MP.Proofs', '/tmp/bisect.v'], capture_output=True, text=True, timeout=to, cwd='/verif/coq')
        if r.returncode != 0:
            print('FAIL', name); print((r.stdout + r.stderr)[-2000:]); break
    except subprocess.TimeoutExpired:
        print('TIMEOUT', name); break
else:
    print('all ok')
