#!/bin/bash
# seedverify.sh <worktree> : confirm (a) existing suite passes with patch (only demo tests fail), (b) demo passes without the patch
WT=$1
cd $WT || exit 2
export CARGO_TARGET_DIR=$WT/target
OUT=$WT/OUT/verify.txt
echo "with patch+demo:" > $OUT
cargo test --workspace --no-fail-fast --offline 2>&1 | grep -E "^test result|^test .* FAILED" >> $OUT
git apply -R OUT/patch.diff || { echo "cannot revert patch" >> $OUT; exit 1; }
echo "demo only (patch reverted):" >> $OUT
cargo test --workspace --no-fail-fast --offline 2>&1 | grep -E "^test result|^test .* FAILED" >> $OUT
git apply OUT/patch.diff
cat $OUT
